module verif/checker

go 1.23

require github.com/anishathalye/porcupine v1.3.0
