// lincheck: offline linearizability checker for histories recorded by the
// C29 harness. Input: a directory of *.jsonl history files (one operation per
// line). Output (stdout): one JSON object with per-history verdicts.
//
// Each operation: {"c":client,"p":"<partition>","op":"set|clear|clearrow|row|count|import|importclear",
//                  "m":<column mask>,"call":t0,"ret":t1,"out":<int>,"open":bool}
// Partition = (field,row) whose columns live in one fragment. Sequential model
// per partition: a set of columns (bit mask):
//   set(m)      -> out = 1 iff the bit was not set;           state |= m
//   clear(m)    -> out = 1 iff the bit was set;               state &^= m
//   clearrow    -> out = 1 iff state != 0;                    state = 0
//   import(m)   -> no output;                                 state |= m
//   importclear -> no output;                                 state &^= m
//   row         -> out = state
//   count       -> out = popcount(state)
// An operation with "open":true never returned (its effect may or may not have
// happened): it is given Return = +inf and an output that is not checked.
package main

import (
	"bufio"
	"encoding/json"
	"fmt"
	"hash/fnv"
	"math/bits"
	"os"
	"path/filepath"
	"sort"
	"time"

	"github.com/anishathalye/porcupine"
)

type rec struct {
	C    int    `json:"c"`
	P    string `json:"p"`
	Op   string `json:"op"`
	M    uint64 `json:"m"`
	Call int64  `json:"call"`
	Ret  int64  `json:"ret"`
	Out  int64  `json:"out"`
	Open bool   `json:"open"`
}

type verdict struct {
	File       string `json:"file"`
	Ops        int    `json:"ops"`
	Partitions int    `json:"partitions"`
	Overlaps   int    `json:"overlapping_pairs"`
	Interleave string `json:"interleaving"` // fingerprint of the observed interleaving: per partition, the order of (client, op) by call time and which ops overlapped
	Result     string `json:"result"` // ok | illegal | unknown
	BadPart    string `json:"bad_partition,omitempty"`
	Witness    []rec  `json:"witness,omitempty"`
}

var model = porcupine.Model{
	Partition: func(history []porcupine.Operation) [][]porcupine.Operation {
		m := map[string][]porcupine.Operation{}
		var keys []string
		for _, o := range history {
			k := o.Input.(rec).P
			if _, ok := m[k]; !ok {
				keys = append(keys, k)
			}
			m[k] = append(m[k], o)
		}
		sort.Strings(keys)
		out := make([][]porcupine.Operation, 0, len(keys))
		for _, k := range keys {
			out = append(out, m[k])
		}
		return out
	},
	Init: func() interface{} { return uint64(0) },
	Step: func(state, input, output interface{}) (bool, interface{}) {
		st := state.(uint64)
		in := input.(rec)
		out := output.(int64)
		chk := func(want int64) bool { return in.Open || out == want }
		b := func(v bool) int64 {
			if v {
				return 1
			}
			return 0
		}
		switch in.Op {
		case "set":
			return chk(b(st&in.M == 0)), st | in.M
		case "clear":
			return chk(b(st&in.M != 0)), st &^ in.M
		case "clearrow":
			return chk(b(st != 0)), uint64(0)
		case "import":
			return true, st | in.M
		case "importclear":
			return true, st &^ in.M
		case "row":
			return chk(int64(st)), st
		case "count":
			return chk(int64(bits.OnesCount64(st))), st
		}
		return false, st
	},
	Equal: func(a, b interface{}) bool { return a.(uint64) == b.(uint64) },
	DescribeOperation: func(input, output interface{}) string {
		in := input.(rec)
		return fmt.Sprintf("%s(%#x)->%d", in.Op, in.M, output.(int64))
	},
}

func main() {
	dir := os.Args[1]
	timeout := 60 * time.Second
	files, _ := filepath.Glob(filepath.Join(dir, "*.jsonl"))
	sort.Strings(files)
	var out []verdict
	for _, f := range files {
		fh, err := os.Open(f)
		if err != nil {
			continue
		}
		var recs []rec
		sc := bufio.NewScanner(fh)
		sc.Buffer(make([]byte, 1<<20), 1<<20)
		for sc.Scan() {
			var r rec
			if json.Unmarshal(sc.Bytes(), &r) == nil && r.Op != "" {
				recs = append(recs, r)
			}
		}
		fh.Close()
		var maxT int64
		for _, r := range recs {
			if r.Ret > maxT {
				maxT = r.Ret
			}
			if r.Call > maxT {
				maxT = r.Call
			}
		}
		ops := make([]porcupine.Operation, 0, len(recs))
		parts := map[string][]rec{}
		for _, r := range recs {
			ret := r.Ret
			if r.Open {
				ret = maxT + 1000 // never returned: stays open to the end of the history
			}
			ops = append(ops, porcupine.Operation{ClientId: r.C, Input: r, Call: r.Call, Output: r.Out, Return: ret})
			parts[r.P] = append(parts[r.P], r)
		}
		v := verdict{File: filepath.Base(f), Ops: len(recs), Partitions: len(parts)}
		for _, rs := range parts {
			for i := range rs {
				for j := i + 1; j < len(rs); j++ {
					if rs[i].Call < rs[j].Ret && rs[j].Call < rs[i].Ret {
						v.Overlaps++
					}
				}
			}
		}
		{
			// interleaving fingerprint: per partition (sorted), the call-ordered sequence of client:op with an
			// overlap marker; two histories with the same fingerprint exercised the same client-visible schedule
			var pk []string
			for p := range parts {
				pk = append(pk, p)
			}
			sort.Strings(pk)
			h := fnv.New64a()
			for _, p := range pk {
				rs := append([]rec(nil), parts[p]...)
				sort.Slice(rs, func(i, j int) bool { return rs[i].Call < rs[j].Call })
				fmt.Fprintf(h, "|%s:", p)
				for i, r := range rs {
					ov := 0
					if i > 0 && rs[i-1].Ret > r.Call {
						ov = 1
					}
					fmt.Fprintf(h, "%d%s%d,", r.C, r.Op, ov)
				}
			}
			v.Interleave = fmt.Sprintf("%016x", h.Sum64())
		}
		res := porcupine.CheckOperationsTimeout(model, ops, timeout)
		switch res {
		case porcupine.Ok:
			v.Result = "ok"
		case porcupine.Illegal:
			v.Result = "illegal"
			// find the offending partition for the witness
			for p, rs := range parts {
				var pops []porcupine.Operation
				for _, r := range rs {
					ret := r.Ret
					if r.Open {
						ret = maxT + 1000
					}
					pops = append(pops, porcupine.Operation{ClientId: r.C, Input: r, Call: r.Call, Output: r.Out, Return: ret})
				}
				if porcupine.CheckOperationsTimeout(model, pops, timeout) == porcupine.Illegal {
					v.BadPart = p
					sort.Slice(rs, func(i, j int) bool { return rs[i].Call < rs[j].Call })
					v.Witness = rs
					break
				}
			}
		default:
			v.Result = "unknown"
		}
		out = append(out, v)
	}
	json.NewEncoder(os.Stdout).Encode(out)
}
