// Package verifkit is the shared runtime-monitoring kit for the /verif
// harnesses. It is mounted into the repo by `go test -overlay` as
// github.com/pilosa/pilosa/internal/verifkit and uses only the standard
// library.
//
// A harness is an ordinary Go test (TestVerifCxx) compiled INTO the package
// under test. It obtains a *Run from Start, loops over deterministic cases,
// and reports evaluations, coverage classes, distinct non-trivial cases,
// samples and failures. Finish writes result.<worker>.json which the python
// driver (bin/check) merges into evidence/<id>.json and turns into the exit
// code.
package verifkit

import (
	"encoding/binary"
	"encoding/json"
	"fmt"
	"hash/fnv"
	"os"
	"path/filepath"
	"runtime/debug"
	"sort"
	"strconv"
	"strings"
	"sync"
	"testing"
	"time"
)

// ---------------------------------------------------------------- PRNG

// Rand is a small deterministic PRNG (splitmix64). It is NOT safe for
// concurrent use; give each goroutine its own (Fork).
type Rand struct{ s uint64 }

func NewRand(seed uint64) *Rand { return &Rand{s: seed*0x9E3779B97F4A7C15 + 0x1234567} }

func (r *Rand) Uint64() uint64 {
	r.s += 0x9E3779B97F4A7C15
	z := r.s
	z = (z ^ (z >> 30)) * 0xBF58476D1CE4E5B9
	z = (z ^ (z >> 27)) * 0x94D049BB133111EB
	return z ^ (z >> 31)
}

// Intn returns a value in [0,n). n<=0 returns 0.
func (r *Rand) Intn(n int) int {
	if n <= 0 {
		return 0
	}
	return int(r.Uint64() % uint64(n))
}

// Range returns a value in [lo,hi] inclusive.
func (r *Rand) Range(lo, hi int) int {
	if hi <= lo {
		return lo
	}
	return lo + r.Intn(hi-lo+1)
}

func (r *Rand) Int63() int64 { return int64(r.Uint64() >> 1) }
func (r *Rand) Bool() bool   { return r.Uint64()&1 == 1 }

// Chance returns true with probability num/den.
func (r *Rand) Chance(num, den int) bool { return r.Intn(den) < num }

// Fork derives an independent generator.
func (r *Rand) Fork() *Rand { return NewRand(r.Uint64()) }

// PickU64 picks one element.
func (r *Rand) PickU64(xs []uint64) uint64 { return xs[r.Intn(len(xs))] }

// Perm returns a permutation of 0..n-1.
func (r *Rand) Perm(n int) []int {
	p := make([]int, n)
	for i := range p {
		p[i] = i
	}
	for i := n - 1; i > 0; i-- {
		j := r.Intn(i + 1)
		p[i], p[j] = p[j], p[i]
	}
	return p
}

// Mix hashes (seed, parts...) into a new seed so that case i of worker w of
// seed s is a pure function of (s, w, i).
func Mix(parts ...uint64) uint64 {
	h := uint64(0xcbf29ce484222325)
	for _, p := range parts {
		h ^= p
		h *= 0x100000001b3
		h ^= h >> 29
		h *= 0xBF58476D1CE4E5B9
		h ^= h >> 32
	}
	return h
}

// Hash64 hashes arbitrary values through their %v rendering. Convenient, not
// fast; use HashBytes/HashU64s on hot paths.
func Hash64(vs ...interface{}) uint64 {
	h := fnv.New64a()
	for _, v := range vs {
		fmt.Fprintf(h, "%v|", v)
	}
	return h.Sum64()
}

func HashBytes(b []byte) uint64 {
	h := fnv.New64a()
	h.Write(b)
	return h.Sum64()
}

func HashU64s(xs []uint64) uint64 {
	h := uint64(0xcbf29ce484222325)
	for _, x := range xs {
		h = Mix(h, x)
	}
	return h
}

// ---------------------------------------------------------------- Run

// Failure is one oracle disagreement.
type Failure struct {
	Sig     string      `json:"sig"`     // signature: a predicate over the INPUT case (never the wrong output)
	Case    string      `json:"case"`    // case id usable for replay: "<worker>:<index>" or a directed name
	Msg     string      `json:"msg"`     // what was observed vs expected
	Witness interface{} `json:"witness"` // the case written out
}

type result struct {
	Property    string            `json:"property"`
	Worker      int               `json:"worker"`
	NWorkers    int               `json:"nworkers"`
	Seed        uint64            `json:"seed"`
	Tier        string            `json:"tier"`
	Evaluations int64             `json:"evaluations"`
	Cases       int64             `json:"cases"`
	Nontrivial  int64             `json:"distinct_nontrivial_local"`
	Classes     map[string]int64  `json:"classes"`
	Counters    map[string]int64  `json:"counters"`
	Samples     []interface{}     `json:"samples"`
	Failures    []Failure         `json:"failures"`
	FailCounts  map[string]int64  `json:"fail_counts"`
	Notes       map[string]string `json:"notes"`
	Done        bool              `json:"done"`
	WallS       float64           `json:"wall_s"`
}

// result of the test functions that already finished in this process (see Start)
var (
	carryMu      sync.Mutex
	carried      *result
	carriedStart time.Time
)

// Run is the per-process monitor state. All methods are safe for concurrent
// use (the monitor must never become the race).
type Run struct {
	T        *testing.T
	Prop     string
	Seed     uint64
	Tier     string
	Worker   int
	NWorkers int
	OutDir   string
	Replay   string // non-empty: replay only this case id
	resume   string // non-empty: skip every case up to and including this id (restart after a crash)

	mu        sync.Mutex
	res       result
	hashes    map[uint64]struct{}
	hashFile  *os.File
	hashBuf   []byte
	inflight  *os.File
	start     time.Time
	maxSample int
	maxFail   int
}

func envInt(name string, def int) int {
	if v := os.Getenv(name); v != "" {
		if n, err := strconv.Atoi(v); err == nil {
			return n
		}
	}
	return def
}

// Start reads the VERIF_* environment. If VERIF_OUT is unset the test is
// skipped, so the harness files are inert in any ordinary `go test` run.
func Start(t *testing.T, prop string) *Run {
	out := os.Getenv("VERIF_OUT")
	if out == "" {
		t.Skip("VERIF_OUT not set; verif harness inactive")
	}
	seed := uint64(1)
	if v := os.Getenv("VERIF_SEED"); v != "" {
		if n, err := strconv.ParseUint(v, 10, 64); err == nil {
			seed = n
		} else if n, err := strconv.ParseInt(v, 10, 64); err == nil {
			seed = uint64(n)
		}
	}
	tier := os.Getenv("VERIF_TIER")
	if tier != "thorough" {
		tier = "quick"
	}
	r := &Run{T: t, Prop: prop, Seed: seed, Tier: tier,
		Worker: envInt("VERIF_WORKER", 0), NWorkers: envInt("VERIF_NWORKERS", 1),
		OutDir: out, Replay: os.Getenv("VERIF_REPLAY_CASE"), resume: strings.TrimSpace(os.Getenv("VERIF_RESUME")),
		hashes: map[uint64]struct{}{}, start: time.Now(), maxSample: 4, maxFail: 40}
	r.res = result{Property: prop, Worker: r.Worker, NWorkers: r.NWorkers, Seed: seed, Tier: tier,
		Classes: map[string]int64{}, Counters: map[string]int64{}, FailCounts: map[string]int64{}, Notes: map[string]string{}}
	// Several test functions of one leg run in the same process and share one result file per
	// worker: a later Start continues the result of the earlier ones instead of overwriting it.
	hashFlags := os.O_CREATE | os.O_WRONLY | os.O_TRUNC
	carryMu.Lock()
	if carried != nil && carried.Property == prop {
		r.res = *carried
		r.res.Done = false
		r.start = carriedStart
		hashFlags = os.O_CREATE | os.O_WRONLY | os.O_APPEND
	}
	carryMu.Unlock()
	os.MkdirAll(out, 0o755)
	var err error
	r.inflight, err = os.OpenFile(filepath.Join(out, fmt.Sprintf("inflight.%d.txt", r.Worker)), os.O_CREATE|os.O_WRONLY|os.O_TRUNC, 0o644)
	if err != nil {
		t.Fatalf("verifkit: %v", err)
	}
	r.hashFile, err = os.OpenFile(filepath.Join(out, fmt.Sprintf("hashes.%d.%d.bin", r.Worker, os.Getpid())), hashFlags, 0o644)
	if err != nil {
		t.Fatalf("verifkit: %v", err)
	}
	return r
}

// Thorough reports whether the thorough tier is selected.
func (r *Run) Thorough() bool { return r.Tier == "thorough" }

// N picks the per-run case count by tier (total over all workers) and returns
// this worker's share.
func (r *Run) N(quick, thorough int) int {
	n := quick
	if r.Thorough() {
		n = thorough
	}
	if s := os.Getenv("VERIF_SCALE"); s != "" {
		if f, err := strconv.ParseFloat(s, 64); err == nil && f > 0 {
			n = int(float64(n) * f)
		}
	}
	share := n / r.NWorkers
	if r.Worker < n%r.NWorkers {
		share++
	}
	return share
}

// CaseID renders the replayable id of case i of this worker.
func (r *Run) CaseID(i int) string { return fmt.Sprintf("%d/%d:%d", r.Worker, r.NWorkers, i) }

// Cases runs fn for case indexes 0..n-1 of this worker (or only the replayed
// one), giving each a PRNG that is a pure function of (seed, salt, worker,
// nworkers, index). A panic inside fn is recorded as a failure with signature
// "panic" unless fn recovered it itself.
func (r *Run) Cases(salt string, n int, fn func(i int, id string, rng *Rand)) {
	saltH := HashBytes([]byte(salt))
	run := func(w, nw, i int) {
		id := fmt.Sprintf("%s@%d/%d:%d", salt, w, nw, i)
		rng := NewRand(Mix(r.Seed, saltH, uint64(w), uint64(nw), uint64(i)))
		r.InFlight(id)
		r.mu.Lock()
		r.res.Cases++
		r.mu.Unlock()
		fn(i, id, rng)
	}
	if r.Replay != "" {
		// "<salt>@w/nw:i"
		at := strings.LastIndex(r.Replay, "@")
		if at < 0 || r.Replay[:at] != salt {
			return
		}
		var w, nw, i int
		if _, err := fmt.Sscanf(r.Replay[at+1:], "%d/%d:%d", &w, &nw, &i); err != nil {
			r.T.Fatalf("bad replay id %q", r.Replay)
		}
		run(w, nw, i)
		return
	}
	for i := 0; i < n; i++ {
		if r.resume != "" {
			// restarted after a crash: skip everything up to and including the crashed case
			if r.resume == fmt.Sprintf("%s@%d/%d:%d", salt, r.Worker, r.NWorkers, i) {
				r.resume = ""
			}
			continue
		}
		run(r.Worker, r.NWorkers, i)
	}
}

// Expect declares coverage classes that the union of all workers must
// observe; the driver reports INCONCLUSIVE if one is never covered.
func (r *Run) Expect(classes ...string) {
	r.mu.Lock()
	k := fmt.Sprintf("expect:%d", len(r.res.Notes))
	r.res.Notes[k] = strings.Join(classes, ",")
	r.mu.Unlock()
}

// Directed runs a named, hand-written case (known-finding witnesses, boundary
// matrices). Only worker 0 runs directed cases, or the replayed one.
func (r *Run) Directed(name string, fn func(id string)) {
	id := "directed@" + name
	if r.Replay != "" {
		if r.Replay == id {
			r.InFlight(id)
			fn(id)
		}
		return
	}
	if r.Worker != 0 {
		return
	}
	if r.resume != "" {
		if r.resume == id {
			r.resume = ""
		}
		return
	}
	r.InFlight(id)
	r.mu.Lock()
	r.res.Cases++
	r.mu.Unlock()
	fn(id)
}

// Replaying reports whether this process replays a single case.
func (r *Run) Replaying() bool { return r.Replay != "" }

// InFlight records, durably enough for crash attribution (a write(2) to a
// file; survives process death), the case that is about to run.
func (r *Run) InFlight(desc string) {
	r.mu.Lock()
	r.inflight.WriteAt([]byte(fmt.Sprintf("%-400s\n", desc)), 0)
	r.mu.Unlock()
}

// InFlightDetail is like InFlight but also stores an arbitrary JSON witness,
// for checks whose cases may kill the process (hostile inputs).
func (r *Run) InFlightDetail(desc string, witness interface{}) {
	b, _ := json.Marshal(witness)
	r.mu.Lock()
	r.inflight.Truncate(0)
	r.inflight.WriteAt([]byte(desc+"\n"+string(b)+"\n"), 0)
	r.mu.Unlock()
}

// Eval counts oracle evaluations.
func (r *Run) Eval(n int) {
	r.mu.Lock()
	r.res.Evaluations += int64(n)
	r.mu.Unlock()
}

// Cover counts a coverage class.
func (r *Run) Cover(class string) {
	r.mu.Lock()
	r.res.Classes[class]++
	r.mu.Unlock()
}

// Count adds to a named observation counter.
func (r *Run) Count(name string, n int64) {
	r.mu.Lock()
	r.res.Counters[name] += n
	r.mu.Unlock()
}

// Note stores a free-text observation.
func (r *Run) Note(k, v string) {
	r.mu.Lock()
	r.res.Notes[k] = v
	r.mu.Unlock()
}

// Distinct records the canonical hash of a case that is non-trivial by the
// property's rule. Hashes are also streamed to hashes.<w>.bin so the driver
// can de-duplicate across workers.
func (r *Run) Distinct(hash uint64, nontrivial bool) {
	if !nontrivial {
		return
	}
	r.mu.Lock()
	if _, ok := r.hashes[hash]; !ok && len(r.hashes) < 4_000_000 {
		r.hashes[hash] = struct{}{}
		r.res.Nontrivial++
		var b [8]byte
		binary.LittleEndian.PutUint64(b[:], hash)
		r.hashBuf = append(r.hashBuf, b[:]...)
		if len(r.hashBuf) >= 1<<16 {
			r.hashFile.Write(r.hashBuf)
			r.hashBuf = r.hashBuf[:0]
		}
	}
	r.mu.Unlock()
}

// Sample keeps the first few cases verbatim for the evidence file.
func (r *Run) Sample(v interface{}) {
	r.mu.Lock()
	if len(r.res.Samples) < r.maxSample {
		r.res.Samples = append(r.res.Samples, v)
	}
	r.mu.Unlock()
}

// WantSample reports whether another sample would be kept (lets harnesses
// avoid building expensive renderings).
func (r *Run) WantSample() bool {
	r.mu.Lock()
	defer r.mu.Unlock()
	return len(r.res.Samples) < r.maxSample
}

// Fail records an oracle disagreement. sig must be a function of the input
// case only. The first few failures per signature keep their witness.
func (r *Run) Fail(sig, caseID, msg string, witness interface{}) {
	r.mu.Lock()
	r.res.FailCounts[sig]++
	// always keep the first failure of a signature (up to 400 signatures), then up to 3 per signature within maxFail
	if (r.res.FailCounts[sig] == 1 && len(r.res.Failures) < 400) || (r.res.FailCounts[sig] <= 3 && len(r.res.Failures) < r.maxFail) {
		r.res.Failures = append(r.res.Failures, Failure{Sig: sig, Case: caseID, Msg: msg, Witness: witness})
	}
	r.mu.Unlock()
	if r.Replaying() {
		fmt.Printf("REPLAY-FAIL sig=%s case=%s %s\n", sig, caseID, msg)
	}
}

// Failed reports whether any failure was recorded so far.
// FailOrUndecided is Fail for the real-cluster legs: when the message shows that
// the request was refused by the cluster-state gate ("api method ... not allowed
// in state ..."), the cluster left its serving state in the middle of the case
// (gossip flapping on an overloaded machine). The gate is doing its job (C23);
// the case is recorded as undecided, not as a failure of the property under test.
func (r *Run) FailOrUndecided(sig, caseID, msg string, witness interface{}) {
	if strings.Contains(msg, "not allowed in state ") {
		r.Note("inconclusive:"+caseID, "the cluster left its serving state during the case: "+msg)
		return
	}
	r.Fail(sig, caseID, msg, witness)
}

func (r *Run) Failed() bool {
	r.mu.Lock()
	defer r.mu.Unlock()
	return len(r.res.FailCounts) > 0
}

// Guard runs fn and converts a panic into a failure with the given signature
// (for properties where a panic IS the violation it should be given the
// signature the harness derives from the input).
func (r *Run) Guard(sig func() string, caseID string, witness func() interface{}, fn func()) (panicked bool) {
	defer func() {
		if e := recover(); e != nil {
			panicked = true
			st := string(debug.Stack())
			if len(st) > 1800 {
				st = st[:1800]
			}
			r.Fail(sig(), caseID, fmt.Sprintf("panic: %v\n%s", e, st), witness())
		}
	}()
	fn()
	return false
}

// Finish writes the result file. Call it with defer right after Start.
func (r *Run) Finish() {
	r.mu.Lock()
	defer r.mu.Unlock()
	if len(r.hashBuf) > 0 {
		r.hashFile.Write(r.hashBuf)
		r.hashBuf = nil
	}
	r.hashFile.Close()
	r.res.Done = true
	r.res.WallS = time.Since(r.start).Seconds()
	b, err := json.MarshalIndent(&r.res, "", " ")
	if err != nil {
		// a witness was not serialisable; degrade to strings
		for i := range r.res.Failures {
			r.res.Failures[i].Witness = fmt.Sprintf("%+v", r.res.Failures[i].Witness)
		}
		for i := range r.res.Samples {
			r.res.Samples[i] = fmt.Sprintf("%+v", r.res.Samples[i])
		}
		b, _ = json.MarshalIndent(&r.res, "", " ")
	}
	carryMu.Lock()
	keep := r.res
	carried, carriedStart = &keep, r.start
	carryMu.Unlock()
	name := filepath.Join(r.OutDir, fmt.Sprintf("result.%d.json", r.Worker))
	if err := os.WriteFile(name+".tmp", b, 0o644); err == nil {
		os.Rename(name+".tmp", name)
	}
	r.inflight.Truncate(0)
	r.inflight.WriteAt([]byte("done\n"), 0)
	r.inflight.Close()
}

// ---------------------------------------------------------------- helpers

// SortedU64 returns a sorted copy without duplicates.
func SortedU64(xs []uint64) []uint64 {
	out := append([]uint64(nil), xs...)
	sort.Slice(out, func(i, j int) bool { return out[i] < out[j] })
	j := 0
	for i, x := range out {
		if i == 0 || x != out[j-1] {
			out[j] = x
			j++
		}
	}
	return out[:j]
}

// EqualU64 compares two slices treating nil and empty as equal.
func EqualU64(a, b []uint64) bool {
	if len(a) != len(b) {
		return false
	}
	for i := range a {
		if a[i] != b[i] {
			return false
		}
	}
	return true
}

// Brief renders a uint64 slice compactly for messages (first/last few).
func Brief(xs []uint64) string {
	if len(xs) <= 12 {
		return fmt.Sprint(xs)
	}
	return fmt.Sprintf("[%d %d %d %d %d ... %d %d %d] (n=%d)", xs[0], xs[1], xs[2], xs[3], xs[4], xs[len(xs)-3], xs[len(xs)-2], xs[len(xs)-1], len(xs))
}

// DiffU64 describes the first difference between two sorted slices.
func DiffU64(got, want []uint64) string {
	n := len(got)
	if len(want) < n {
		n = len(want)
	}
	for i := 0; i < n; i++ {
		if got[i] != want[i] {
			return fmt.Sprintf("first diff at index %d: got %d want %d (len got %d want %d)", i, got[i], want[i], len(got), len(want))
		}
	}
	if len(got) != len(want) {
		if len(got) > len(want) {
			return fmt.Sprintf("got has %d extra, first extra %d", len(got)-len(want), got[n])
		}
		return fmt.Sprintf("got misses %d, first missing %d", len(want)-len(got), want[n])
	}
	return "equal"
}
