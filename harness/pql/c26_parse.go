package pql

// C26 (parse leg) — PQL text is parsed faithfully.
//
// A grammar-directed generator, transliterated rule by rule from pql.peg,
// emits (text, expected call trees) pairs; the real parser's output is compared
// structurally and type-exactly (int64 / float64 / string / bool / nil /
// []interface{} / *Condition / *Call).
//
// "Written value" conventions (DESIGN.md §8): inside double quotes `\"` and
// `\\` are the grammar's escapes, inside single quotes `\'` and `\\`; the
// generator never writes any other backslash sequence, so Go-style escapes
// (which the parser also happens to interpret) are not judged either way.
// Integers outside int64 and floats outside float64 must be rejected with an
// error (never silently changed).
//
// Each case enables at most ONE hazard class (input features suspected or
// known to be mishandled); ~55% of the cases enable none. Failure signatures
// are "parse:<hazard>" or "parse:clean" — a predicate over the input only.

import (
	"fmt"
	"math"
	"math/big"
	"strings"
	"testing"

	vk "github.com/pilosa/pilosa/internal/verifkit"
)

var c26Hazards = []string{
	"string-non-ascii",       // a non-ASCII rune inside some string literal
	"dq-raw-newline",         // raw LF inside a double-quoted value string
	"sq-escape",              // \' or \\ inside a single-quoted value string
	"posstr-escape",          // escaped quote/backslash inside a positional col/row string
	"set-timestamp-quoted",   // Set(col, args, "<timestamp>") with a quoted positional timestamp
	"cond-list-nonnum",       // condition whose list value holds a non-numeric item
	"conditional-int-range",  // a < f < b with a bound outside int64 / strict bound at the int64 edge
	"kw-before-rbrack",       // null / true / false as the last item of a list
}

type c26Gen struct {
	rng    *vk.Rand
	r      *vk.Run
	hazard string
	used   bool   // hazard feature actually emitted
	expErr string // non-empty: the query must be rejected (reason)
	nodes  int
}

func (g *c26Gen) cover(c string) { g.r.Cover(c) }

func (g *c26Gen) sp() string {
	switch g.rng.Intn(10) {
	case 0:
		return " "
	case 1:
		return "  "
	case 2:
		return "\t"
	case 3:
		return "\n"
	case 4:
		return " \n\t "
	}
	return ""
}
func (g *c26Gen) comma() string { return g.sp() + "," + g.sp() }
func (g *c26Gen) open() string  { return "(" + g.sp() }
func (g *c26Gen) close() string { return ")" + g.sp() }

const c26Letters = "abcdefghijklmnopqrstuvwxyzABCDEFGHIJKLMNOPQRSTUVWXYZ"
const c26Digits = "0123456789"

func (g *c26Gen) pick(s string) byte { return s[g.rng.Intn(len(s))] }

// fieldExpr <- [[A-Z]] ( [[A-Z]] / [0-9] / '_' / '-' )*
func (g *c26Gen) fieldExpr() string {
	if g.rng.Chance(2, 3) {
		return []string{"f", "g", "h", "field", "row", "col", "n", "ids", "from", "to", "limit", "previous", "x-y", "a_b", "F1", "attrName", "null", "true", "in"}[g.rng.Intn(19)]
	}
	b := []byte{g.pick(c26Letters)}
	for n := g.rng.Intn(8); n > 0; n-- {
		b = append(b, g.pick(c26Letters+c26Digits+"_-"))
	}
	return string(b)
}

// field <- <fieldExpr / reserved>
func (g *c26Gen) field() string {
	if g.rng.Chance(1, 8) {
		g.cover("field:reserved")
		return []string{"_row", "_col", "_start", "_end", "_timestamp", "_field"}[g.rng.Intn(6)]
	}
	return g.fieldExpr()
}

var c26Special = map[string]bool{"Set": true, "SetRowAttrs": true, "SetColumnAttrs": true, "Clear": true, "ClearRow": true, "Store": true, "TopN": true, "Rows": true, "Range": true}

// IDENT <- [[A-Z]] ([[A-Z]] / [0-9])*   (generic call names; never one of the special forms)
func (g *c26Gen) ident() string {
	if g.rng.Chance(3, 4) {
		return []string{"Row", "Union", "Intersect", "Difference", "Xor", "Not", "Count", "Sum", "Min", "Max", "MinRow", "MaxRow", "GroupBy", "Options", "Bitmap", "Shift", "Settle", "Ranger", "TopNx", "nullify"}[g.rng.Intn(20)]
	}
	for {
		b := []byte{g.pick(c26Letters)}
		for n := g.rng.Intn(7); n > 0; n-- {
			b = append(b, g.pick(c26Letters+c26Digits))
		}
		if !c26Special[string(b)] {
			return string(b)
		}
	}
}

// ---- strings

var c26NonASCII = []rune{0xE9, 0xDF, 0xA0, 0x3A9, 0x416, 0x5D0, 0x627, 0x301, 0x4E2D, 0x2028, 0x20AC, 0xFEFF, 0xFFFD, 0x1F600, 0x10348, 0x10FFFF}

func (g *c26Gen) runes(allowQuoteChars bool) []rune {
	n := g.rng.Intn(9)
	if g.rng.Chance(1, 12) {
		n = 0
	}
	if g.rng.Chance(1, 40) {
		n = 40 + g.rng.Intn(200)
	}
	out := make([]rune, 0, n)
	plain := "abcxyzABZ019 ,()[]=<>!:-_./#@%&*+;?^`{|}~$"
	for i := 0; i < n; i++ {
		switch {
		case g.hazard == "string-non-ascii" && g.rng.Chance(1, 3):
			out = append(out, c26NonASCII[g.rng.Intn(len(c26NonASCII))])
			g.used = true
		case g.rng.Chance(1, 14):
			out = append(out, []rune{'\t', '\r', 0, 0x7f, 1, 0x1b}[g.rng.Intn(6)])
			g.cover("str:control-char")
		case allowQuoteChars && g.rng.Chance(1, 7):
			out = append(out, []rune{'"', '\'', '\\'}[g.rng.Intn(3)])
		default:
			out = append(out, rune(plain[g.rng.Intn(len(plain))]))
		}
	}
	if g.hazard == "string-non-ascii" && !g.used {
		out = append(out, c26NonASCII[g.rng.Intn(len(c26NonASCII))])
		g.used = true
	}
	if g.used && g.hazard == "string-non-ascii" {
		for _, c := range out {
			switch {
			case c >= 0x10000:
				g.cover("str:utf8-4byte")
			case c >= 0x800:
				g.cover("str:utf8-3byte")
			case c >= 0x80:
				g.cover("str:utf8-2byte")
			}
		}
	}
	return out
}

// writeDQ renders the runes between double quotes using only the grammar's escapes.
func c26WriteDQ(rs []rune) (text string, escaped bool) {
	var b strings.Builder
	b.WriteByte('"')
	for _, c := range rs {
		if c == '"' || c == '\\' {
			b.WriteByte('\\')
			escaped = true
		}
		b.WriteRune(c)
	}
	b.WriteByte('"')
	return b.String(), escaped
}

func c26WriteSQ(rs []rune) (text string, escaped bool) {
	var b strings.Builder
	b.WriteByte('\'')
	for _, c := range rs {
		if c == '\'' || c == '\\' {
			b.WriteByte('\\')
			escaped = true
		}
		b.WriteRune(c)
	}
	b.WriteByte('\'')
	return b.String(), escaped
}

func c26Strip(rs []rune, drop string) []rune {
	out := rs[:0:0]
	for _, c := range rs {
		if !strings.ContainsRune(drop, c) {
			out = append(out, c)
		}
	}
	return out
}

// valueString emits a quoted string literal in value position.
func (g *c26Gen) valueString() (string, interface{}) {
	if g.rng.Bool() {
		// double-quoted: \" and \\ are handled by the parser (strconv.Unquote) — clean
		rs := g.runes(true)
		if g.hazard == "dq-raw-newline" {
			rs = append(rs, 'a')
			rs[g.rng.Intn(len(rs))] = '\n'
			g.used = true
		}
		t, esc := c26WriteDQ(rs)
		g.cover("val:dq-string")
		if esc {
			g.cover("str:dq-escape")
		}
		return t, string(rs)
	}
	rs := g.runes(g.hazard == "sq-escape")
	if g.hazard != "sq-escape" {
		rs = c26Strip(rs, "'\\")
	} else if !strings.ContainsAny(string(rs), "'\\") {
		rs = append(rs, []rune{'\'', '\\'}[g.rng.Intn(2)])
	}
	if g.rng.Chance(1, 6) {
		rs = append(rs, '\n') // raw LF is fine inside single quotes (kept verbatim)
		g.cover("str:sq-raw-newline")
	}
	t, esc := c26WriteSQ(rs)
	if esc {
		g.used = true
		g.cover("str:sq-escape")
	}
	g.cover("val:sq-string")
	return t, string(rs)
}

// posString emits a quoted string for the positional col/row slots.
func (g *c26Gen) posString(slot string) (string, interface{}) {
	rs := g.runes(g.hazard == "posstr-escape")
	dq := g.rng.Bool()
	if g.hazard == "posstr-escape" {
		if dq && !strings.ContainsAny(string(rs), "\"\\") {
			rs = append(rs, []rune{'"', '\\'}[g.rng.Intn(2)])
		}
		if !dq && !strings.ContainsAny(string(rs), "'\\") {
			rs = append(rs, []rune{'\'', '\\'}[g.rng.Intn(2)])
		}
		g.used = true
	} else if dq {
		rs = c26Strip(rs, "\"\\")
	} else {
		rs = c26Strip(rs, "'\\")
	}
	if dq {
		t, _ := c26WriteDQ(rs)
		g.cover("pos:" + slot + "-dq")
		return t, string(rs)
	}
	t, _ := c26WriteSQ(rs)
	g.cover("pos:" + slot + "-sq")
	return t, string(rs)
}

// ---- numbers and timestamps

func (g *c26Gen) digits(n int) string {
	b := make([]byte, n)
	for i := range b {
		b[i] = g.pick(c26Digits)
	}
	return string(b)
}

var c26EdgeInts = []string{"0", "1", "9223372036854775807", "9223372036854775806", "4294967296", "18446744073709551615", "9223372036854775808", "9223372036854775809", "99999999999999999999"}

// uintText: uint <- [1-9][0-9]* / '0'
func (g *c26Gen) uintText() string {
	switch g.rng.Intn(4) {
	case 0:
		return c26EdgeInts[g.rng.Intn(len(c26EdgeInts))]
	case 1:
		return string("123456789"[g.rng.Intn(9)]) + g.digits(g.rng.Intn(19))
	}
	return fmt.Sprint(g.rng.Intn(3000))
}

// intValue converts integer text the way the statement demands: exact int64 or rejection.
func (g *c26Gen) intValue(text string) interface{} {
	n, ok := new(big.Int).SetString(text, 10)
	if !ok {
		panic("harness: bad int text " + text)
	}
	if !n.IsInt64() {
		if g.expErr == "" {
			g.expErr = "integer " + text + " is outside int64"
		}
		g.cover("val:int-out-of-range")
		return nil
	}
	v := n.Int64()
	if v == math.MaxInt64 || v == math.MinInt64 {
		g.cover("val:int-edge")
	}
	return v
}

func (g *c26Gen) intItem() (string, interface{}) {
	var t string
	switch g.rng.Intn(6) {
	case 0:
		t = c26EdgeInts[g.rng.Intn(len(c26EdgeInts))]
		if g.rng.Bool() {
			t = "-" + t
		}
	case 1:
		t = "-" + g.digits(1+g.rng.Intn(19))
		g.cover("val:int-negative")
	case 2:
		t = "00" + g.digits(1+g.rng.Intn(5))
		g.cover("val:int-leading-zeros")
	case 3:
		t = g.digits(1 + g.rng.Intn(19))
	default:
		t = fmt.Sprint(g.rng.Intn(100000))
		if g.rng.Chance(1, 4) {
			t = "-" + t
			g.cover("val:int-negative")
		}
	}
	if g.expErr != "" {
		// only one rejected literal per query: keep this one in range
		t = fmt.Sprint(g.rng.Intn(1000))
	}
	g.cover("val:int")
	return t, g.intValue(t)
}

func (g *c26Gen) floatItem() (string, interface{}) {
	var t string
	neg := g.rng.Chance(1, 3)
	switch g.rng.Intn(5) {
	case 0: // '-'? '.'[0-9]+
		t = "." + g.digits(1+g.rng.Intn(20))
		g.cover("val:float-leading-dot")
	case 1: // D+ '.'   (empty fraction)
		t = g.digits(1+g.rng.Intn(18)) + "."
		g.cover("val:float-empty-fraction")
	case 2:
		t = g.digits(1+g.rng.Intn(25)) + "." + g.digits(1+g.rng.Intn(25))
	case 3:
		if g.expErr == "" && g.rng.Chance(1, 6) {
			t = "1" + g.digits(309+g.rng.Intn(20)) + "." + g.digits(2) // beyond float64
		} else {
			t = "0.000000" + g.digits(1+g.rng.Intn(12))
		}
	default:
		t = fmt.Sprint(g.rng.Intn(1000)) + "." + fmt.Sprint(g.rng.Intn(100))
	}
	if neg {
		t = "-" + t
	}
	rt := t
	if strings.HasSuffix(rt, ".") {
		rt += "0"
	}
	rat, ok := new(big.Rat).SetString(rt)
	if !ok {
		panic("harness: bad float text " + t)
	}
	f, _ := rat.Float64()
	g.cover("val:float")
	if math.IsInf(f, 0) {
		if g.expErr == "" {
			g.expErr = "float literal beyond float64 range"
		}
		g.cover("val:float-out-of-range")
		return t, nil
	}
	return t, f
}

func (g *c26Gen) timestampBasic() string {
	if g.rng.Chance(1, 5) {
		// any digits that fit the character classes
		return g.digits(4) + "-" + string("01"[g.rng.Intn(2)]) + g.digits(1) + "-" + string("0123"[g.rng.Intn(4)]) + g.digits(1) + "T" + g.digits(2) + ":" + g.digits(2)
	}
	return fmt.Sprintf("%04d-%02d-%02dT%02d:%02d", 1990+g.rng.Intn(40), 1+g.rng.Intn(12), 1+g.rng.Intn(28), g.rng.Intn(24), g.rng.Intn(60))
}

// timestampfmt <- '"' <basic> '"' / '\'' <basic> '\'' / <basic>
func (g *c26Gen) timestampFmt() (string, string, string) {
	b := g.timestampBasic()
	switch g.rng.Intn(3) {
	case 0:
		return `"` + b + `"`, b, "dq"
	case 1:
		return "'" + b + "'", b, "sq"
	}
	return b, b, "bare"
}

func (g *c26Gen) bareword() (string, interface{}) {
	first := c26Letters + "_:"
	rest := c26Letters + c26Digits + "-_:"
	var w string
	switch g.rng.Intn(6) {
	case 0:
		w = []string{"nullx", "null-1", "truex", "false_", "nulls", "True", "NULL", "tru", "n"}[g.rng.Intn(9)]
	case 1:
		w = "-" + string(g.pick(c26Letters+"-_:"))
		for n := g.rng.Intn(4); n > 0; n-- {
			w += string(g.pick(rest))
		}
	default:
		w = string(g.pick(first))
		for n := g.rng.Intn(9); n > 0; n-- {
			w += string(g.pick(rest))
		}
	}
	if w == "null" || w == "true" || w == "false" {
		w += "_"
	}
	g.cover("val:bareword")
	return w, w
}

// ---- items, values, args

// item emits one item. ctx: "arg" (plain argument value), "list", "condlist" (list under a
// condition), "cond" (scalar under a condition). last: the item is directly followed by rbrack.
func (g *c26Gen) item(depth int, ctx string, last bool) (string, interface{}) {
	g.nodes++
	for {
		k := g.rng.Intn(13)
		if ctx == "condlist" {
			if g.hazard != "cond-list-nonnum" {
				k = 4 + g.rng.Intn(3) // numbers only: the parser supports nothing else here
			} else if last && !g.used {
				k = 8 + g.rng.Intn(5) // make sure the hazard is present
			}
		}
		if ctx == "list" && last && g.hazard == "kw-before-rbrack" && !g.used {
			k = g.rng.Intn(3)
		}
		if k > 6 && ctx == "condlist" {
			g.used = true
		}
		switch k {
		case 0, 1, 2: // null / true / false   &(comma / sp close)
			if last && (g.hazard != "kw-before-rbrack" || ctx != "list") {
				continue
			}
			if last {
				g.used = true
			}
			if ctx == "condlist" {
				g.used = true
			}
			switch k {
			case 0:
				g.cover("val:null")
				return "null", nil
			case 1:
				g.cover("val:true")
				return "true", true
			}
			g.cover("val:false")
			return "false", false
		case 3:
			t, v, how := g.timestampFmt()
			g.cover("val:timestamp-" + how)
			if ctx == "condlist" {
				g.used = true
			}
			return t, v
		case 4, 5:
			return g.intItem()
		case 6:
			return g.floatItem()
		case 7:
			if depth <= 0 {
				return g.bareword()
			}
			t, c := g.genericCall(depth-1, false)
			g.cover("val:call")
			return t, c
		case 8:
			return g.bareword()
		default:
			return g.valueString()
		}
	}
}

// value <- item / lbrack list rbrack
func (g *c26Gen) value(depth int, cond, forceList bool) (string, interface{}) {
	if !cond && g.hazard == "kw-before-rbrack" && !g.used {
		forceList = true
	}
	if forceList || g.rng.Chance(1, 4) {
		n := 1 + g.rng.Intn(4)
		ctx := "list"
		if cond {
			ctx = "condlist"
		}
		var b strings.Builder
		b.WriteString("[" + g.sp())
		vals := make([]interface{}, 0, n)
		for i := 0; i < n; i++ {
			if i > 0 {
				b.WriteString(g.comma())
			}
			t, v := g.item(depth, ctx, i == n-1)
			b.WriteString(t)
			vals = append(vals, v)
		}
		b.WriteString(g.sp() + "]" + g.sp())
		g.cover("val:list")
		if cond {
			g.cover("val:list-under-condition")
		}
		return b.String(), vals
	}
	ctx := "arg"
	if cond {
		ctx = "cond"
	}
	return g.item(depth, ctx, false)
}

var c26Conds = []struct {
	text string
	tok  Token
}{{"><", BETWEEN}, {"<=", LTE}, {">=", GTE}, {"==", EQ}, {"!=", NEQ}, {"<", LT}, {">", GT}}

// arg emits one argument whose key is not in taken; returns text, key, value.
func (g *c26Gen) arg(depth int, taken map[string]bool, noConditional bool) (string, string, interface{}) {
	key := ""
	for tries := 0; ; tries++ {
		key = g.field()
		if tries > 20 {
			key = fmt.Sprintf("k%d", g.rng.Intn(1000000))
		}
		if !taken[key] {
			break
		}
	}
	taken[key] = true
	form := g.rng.Intn(10)
	if g.hazard == "conditional-int-range" && !g.used && !noConditional {
		form = 9
	}
	if g.hazard == "cond-list-nonnum" && !g.used {
		form = 6
	}
	switch {
	case form < 6: // field sp '=' sp value
		t, v := g.value(depth, false, false)
		g.cover("arg:eq")
		return key + g.sp() + "=" + g.sp() + t, key, v
	case form < 9 || noConditional: // field sp COND sp value
		c := c26Conds[g.rng.Intn(len(c26Conds))]
		t, v := g.value(depth, true, g.hazard == "cond-list-nonnum" && !g.used)
		g.cover("arg:cond")
		g.cover("cond:" + c.text)
		return key + g.sp() + c.text + g.sp() + t, key, &Condition{Op: c.tok, Value: v}
	}
	// conditional <- condint condLT condfield condLT condint   (condfield is a fieldExpr, never reserved)
	if strings.HasPrefix(key, "_") {
		delete(taken, key)
		for {
			key = g.fieldExpr()
			if !taken[key] {
				break
			}
			key = fmt.Sprintf("k%d", g.rng.Intn(1000000))
			if !taken[key] {
				break
			}
		}
		taken[key] = true
	}
	condint := func() string {
		if g.rng.Chance(1, 3) {
			return "0"
		}
		t := string("123456789"[g.rng.Intn(9)]) + g.digits(g.rng.Intn(6))
		if g.rng.Chance(1, 3) {
			t = "-" + t
		}
		return t
	}
	lo, hi := condint(), condint()
	op1 := []string{"<", "<="}[g.rng.Intn(2)]
	op2 := []string{"<", "<="}[g.rng.Intn(2)]
	var val interface{}
	if g.hazard == "conditional-int-range" {
		g.used = true
		switch g.rng.Intn(4) {
		case 0:
			lo, op1 = "9223372036854775807", "<" // f > MaxInt64: empty
		case 1:
			hi, op2 = "-9223372036854775808", "<" // f < MinInt64: empty
		case 2:
			lo = []string{"9223372036854775808", "99999999999999999999", "-9223372036854775809"}[g.rng.Intn(3)]
		default:
			hi = []string{"9223372036854775808", "99999999999999999999", "-9223372036854775809"}[g.rng.Intn(3)]
		}
	}
	bl, _ := new(big.Int).SetString(lo, 10)
	bh, _ := new(big.Int).SetString(hi, 10)
	switch {
	case !bl.IsInt64() || !bh.IsInt64():
		if g.expErr == "" {
			g.expErr = "conditional bound outside int64"
		}
	case (op1 == "<" && bl.Int64() == math.MaxInt64) || (op2 == "<" && bh.Int64() == math.MinInt64):
		val = c26EmptyRange{} // any representation of the empty range (or an error) is acceptable
	default:
		l, h := bl.Int64(), bh.Int64()
		if op1 == "<" {
			l++
		}
		if op2 == "<" {
			h--
		}
		val = &Condition{Op: BETWEEN, Value: []interface{}{l, h}}
	}
	g.nodes++
	g.cover("arg:conditional")
	g.cover("conditional:" + op1 + "f" + op2)
	return lo + g.sp() + op1 + g.sp() + key + g.sp() + op2 + g.sp() + hi + g.sp(), key, val
}

// c26EmptyRange marks an expected conditional whose range is empty because a strict bound
// sits on the int64 edge; the parser may report it as any BETWEEN with low > high, or reject it.
type c26EmptyRange struct{}

// args <- arg (comma args)? sp
func (g *c26Gen) args(depth, n int, taken map[string]bool, into map[string]interface{}) string {
	var b strings.Builder
	for i := 0; i < n; i++ {
		if i > 0 {
			b.WriteString(g.comma())
		}
		t, k, v := g.arg(depth, taken, false)
		b.WriteString(t)
		into[k] = v
	}
	b.WriteString(g.sp())
	return b.String()
}

// allargs <- Call (comma Call)* (comma args)? / args / sp
func (g *c26Gen) allargs(depth int, c *Call, taken map[string]bool, forceCalls bool) string {
	k := g.rng.Intn(10)
	if depth <= 0 && k < 4 {
		k = 5
	}
	if forceCalls {
		k = 0
	}
	switch {
	case k < 4:
		var b strings.Builder
		n := 1 + g.rng.Intn(3)
		for i := 0; i < n; i++ {
			if i > 0 {
				b.WriteString(g.comma())
			}
			t, ch := g.call(depth - 1)
			b.WriteString(t)
			c.Children = append(c.Children, ch)
		}
		if g.rng.Bool() {
			b.WriteString(g.comma())
			b.WriteString(g.args(depth, 1+g.rng.Intn(3), taken, c.Args))
		}
		g.cover("allargs:calls")
		return b.String()
	case k < 9:
		g.cover("allargs:args")
		return g.args(depth, 1+g.rng.Intn(4), taken, c.Args)
	}
	g.cover("allargs:empty")
	return g.sp()
}

// genericCall: < IDENT > open allargs comma? close
func (g *c26Gen) genericCall(depth int, allowSpecialNames bool) (string, *Call) {
	g.nodes++
	name := g.ident()
	c := &Call{Name: name, Args: map[string]interface{}{}}
	taken := map[string]bool{}
	forceCalls := false
	if allowSpecialNames && depth > 0 && g.rng.Chance(1, 12) {
		// TopN/Rows whose first argument is a call can only match the generic alternative
		c.Name = []string{"TopN", "Rows"}[g.rng.Intn(2)]
		name = c.Name
		forceCalls = true
		g.cover("form:generic-with-special-name")
	}
	t := name + g.open() + g.allargs(depth, c, taken, forceCalls)
	if g.rng.Chance(1, 8) {
		t += g.comma()
		g.cover("form:generic-trailing-comma")
	}
	t += g.close()
	g.cover("form:generic")
	return t, c
}

func (g *c26Gen) col(c *Call) string {
	if g.rng.Bool() {
		t := g.uintText()
		c.Args["_col"] = g.intValue(t)
		g.cover("pos:col-uint")
		return t
	}
	t, v := g.posString("col")
	c.Args["_col"] = v
	return t
}

func (g *c26Gen) row(c *Call) string {
	if g.rng.Bool() {
		t := g.uintText()
		c.Args["_row"] = g.intValue(t)
		g.cover("pos:row-uint")
		return t
	}
	t, v := g.posString("row")
	c.Args["_row"] = v
	return t
}

// call emits one Call choosing among the grammar's alternatives.
func (g *c26Gen) call(depth int) (string, *Call) {
	k := g.rng.Intn(20)
	if g.hazard == "set-timestamp-quoted" && !g.used {
		k = 0
	}
	if g.hazard == "posstr-escape" && !g.used {
		k = []int{0, 1, 2, 3}[g.rng.Intn(4)]
	}
	if k > 8 || (depth <= 0 && k == 5) {
		return g.genericCall(depth, true)
	}
	g.nodes++
	c := &Call{Args: map[string]interface{}{}}
	var b strings.Builder
	switch k {
	case 0: // 'Set' open col comma args (comma timestamp)? close
		c.Name = "Set"
		b.WriteString("Set" + g.open() + g.col(c) + g.comma())
		taken := map[string]bool{"_col": true, "_timestamp": true}
		b.WriteString(g.args(depth, 1+g.rng.Intn(2), taken, c.Args))
		if g.rng.Bool() || g.hazard == "set-timestamp-quoted" {
			t, v, how := g.timestampFmt()
			if g.hazard == "set-timestamp-quoted" {
				for how == "bare" {
					t, v, how = g.timestampFmt()
				}
				g.used = true
			} else {
				t, how = v, "bare"
			}
			b.WriteString(g.comma() + t)
			c.Args["_timestamp"] = v
			g.cover("pos:timestamp-" + how)
		}
		b.WriteString(g.close())
	case 1: // 'SetRowAttrs' open posfield comma row comma args close
		c.Name = "SetRowAttrs"
		f := g.fieldExpr()
		c.Args["_field"] = f
		b.WriteString("SetRowAttrs" + g.open() + f + g.comma() + g.row(c) + g.comma())
		b.WriteString(g.args(depth, 1+g.rng.Intn(3), map[string]bool{"_field": true, "_row": true}, c.Args))
		b.WriteString(g.close())
	case 2, 3: // 'SetColumnAttrs' / 'Clear' open col comma args close
		c.Name = []string{"SetColumnAttrs", "Clear"}[k-2]
		b.WriteString(c.Name + g.open() + g.col(c) + g.comma())
		b.WriteString(g.args(depth, 1+g.rng.Intn(3), map[string]bool{"_col": true}, c.Args))
		b.WriteString(g.close())
	case 4: // 'ClearRow' open arg close
		c.Name = "ClearRow"
		t, key, v := g.arg(depth, map[string]bool{}, true)
		c.Args[key] = v
		b.WriteString("ClearRow" + g.open() + t + g.close())
	case 5: // 'Store' open Call comma arg close
		c.Name = "Store"
		ct, ch := g.call(depth - 1)
		c.Children = append(c.Children, ch)
		t, key, v := g.arg(depth, map[string]bool{}, true)
		c.Args[key] = v
		b.WriteString("Store" + g.open() + ct + g.comma() + t + g.close())
	case 6, 7: // 'TopN' / 'Rows' open posfield (comma allargs)? close
		c.Name = []string{"TopN", "Rows"}[k-6]
		f := g.fieldExpr()
		c.Args["_field"] = f
		b.WriteString(c.Name + g.open() + f)
		if g.rng.Chance(3, 4) {
			b.WriteString(g.comma() + g.allargs(depth, c, map[string]bool{"_field": true}, false))
		}
		b.WriteString(g.close())
	case 8: // 'Range' open field sp '=' sp value comma 'from='? ts comma 'to='? sp ts close
		c.Name = "Range"
		var f string
		for f = g.field(); f == "from" || f == "to"; f = g.field() {
		}
		t, v := g.value(depth, false, false)
		c.Args[f] = v
		b.WriteString("Range" + g.open() + f + g.sp() + "=" + g.sp() + t + g.comma())
		if g.rng.Bool() {
			b.WriteString("from=")
		}
		t1, v1, _ := g.timestampFmt()
		c.Args["from"] = v1
		b.WriteString(t1 + g.comma())
		if g.rng.Bool() {
			b.WriteString("to=")
		}
		t2, v2, _ := g.timestampFmt()
		c.Args["to"] = v2
		b.WriteString(g.sp() + t2 + g.close())
	}
	g.cover("form:" + c.Name)
	return b.String(), c
}

// query: Calls <- sp (Call sp)* !.
func (g *c26Gen) query() (string, []*Call) {
	var b strings.Builder
	b.WriteString(g.sp())
	n := 1
	if g.rng.Chance(1, 4) {
		n = 2 + g.rng.Intn(2)
	}
	var calls []*Call
	for i := 0; i < n; i++ {
		t, c := g.call(2)
		b.WriteString(t)
		b.WriteString(g.sp())
		calls = append(calls, c)
	}
	return b.String(), calls
}

// ---- comparison (type-exact; nil and empty Args/Children are equal)

func c26Diff(path string, got, want interface{}) string {
	switch w := want.(type) {
	case c26EmptyRange:
		if c, ok := got.(*Condition); ok && c != nil && c.Op == BETWEEN {
			if l, ok := c.Value.([]interface{}); ok && len(l) == 2 {
				lo, ok1 := l[0].(int64)
				hi, ok2 := l[1].(int64)
				if ok1 && ok2 && lo > hi {
					return ""
				}
			}
		}
		return fmt.Sprintf("%s: the written range is empty (strict bound on the int64 edge) but parsed as %s", path, c26Show(got))
	case nil:
		if got != nil {
			return fmt.Sprintf("%s: got %s want nil", path, c26Show(got))
		}
	case bool, int64, float64, string:
		if got != want {
			return fmt.Sprintf("%s: got %s want %s", path, c26Show(got), c26Show(want))
		}
	case []interface{}:
		g, ok := got.([]interface{})
		if !ok {
			return fmt.Sprintf("%s: got %s want list %s", path, c26Show(got), c26Show(want))
		}
		if len(g) != len(w) {
			return fmt.Sprintf("%s: got %d list items %s want %d %s", path, len(g), c26Show(got), len(w), c26Show(want))
		}
		for i := range w {
			if d := c26Diff(fmt.Sprintf("%s[%d]", path, i), g[i], w[i]); d != "" {
				return d
			}
		}
	case *Condition:
		g, ok := got.(*Condition)
		if !ok || g == nil {
			return fmt.Sprintf("%s: got %s want condition %s", path, c26Show(got), c26Show(want))
		}
		if g.Op != w.Op {
			return fmt.Sprintf("%s: got operator %s want %s", path, g.Op, w.Op)
		}
		return c26Diff(path+".cond", g.Value, w.Value)
	case *Call:
		g, ok := got.(*Call)
		if !ok || g == nil {
			return fmt.Sprintf("%s: got %s want call %s", path, c26Show(got), c26Show(want))
		}
		return c26DiffCall(path, g, w)
	default:
		return fmt.Sprintf("%s: harness: unexpected expected type %T", path, want)
	}
	return ""
}

func c26DiffCall(path string, got, want *Call) string {
	if got.Name != want.Name {
		return fmt.Sprintf("%s: got call name %q want %q", path, got.Name, want.Name)
	}
	path += "/" + want.Name
	for k, w := range want.Args {
		g, ok := got.Args[k]
		if !ok {
			return fmt.Sprintf("%s: argument %q missing (parsed keys %q)", path, k, got.keys())
		}
		if d := c26Diff(path+"."+k, g, w); d != "" {
			return d
		}
	}
	for k := range got.Args {
		if _, ok := want.Args[k]; !ok {
			return fmt.Sprintf("%s: unexpected argument %q = %s", path, k, c26Show(got.Args[k]))
		}
	}
	if len(got.Children) != len(want.Children) {
		return fmt.Sprintf("%s: got %d children want %d", path, len(got.Children), len(want.Children))
	}
	for i := range want.Children {
		if d := c26DiffCall(fmt.Sprintf("%s#%d", path, i), got.Children[i], want.Children[i]); d != "" {
			return d
		}
	}
	return ""
}

func c26Show(v interface{}) string {
	switch x := v.(type) {
	case nil:
		return "nil"
	case string:
		if len(x) > 80 {
			return fmt.Sprintf("string(%q...len %d)", x[:80], len(x))
		}
		return fmt.Sprintf("string(%q)", x)
	case *Call:
		if x == nil {
			return "(*Call)(nil)"
		}
		s := x.String()
		if len(s) > 120 {
			s = s[:120] + "..."
		}
		return "call " + s
	case *Condition:
		if x == nil {
			return "(*Condition)(nil)"
		}
		return fmt.Sprintf("cond(%s %s)", x.Op, c26Show(x.Value))
	case []interface{}:
		s := "["
		for i, e := range x {
			if i > 0 {
				s += ", "
			}
			if i > 6 {
				s += "..."
				break
			}
			s += c26Show(e)
		}
		return s + "]"
	}
	return fmt.Sprintf("%T(%v)", v, v)
}

type c26Case struct {
	Text   string `json:"text"`
	Hazard string `json:"hazard,omitempty"`
	ExpErr string `json:"must_be_rejected_because,omitempty"`
}

// c26Check parses text with the real parser and compares with the expected calls.
func c26Check(r *vk.Run, id, sig, text string, want []*Call, expErr string, nodes int) {
	wit := func() interface{} { return c26Case{Text: text, Hazard: strings.TrimPrefix(sig, "parse:"), ExpErr: expErr} }
	r.Guard(func() string { return sig }, id, wit, func() {
		q, err := ParseString(text)
		r.Eval(1)
		if expErr != "" {
			r.Cover("outcome:rejected-as-required")
			if err == nil {
				r.Fail(sig, id, fmt.Sprintf("query accepted although %s; parsed as %s", expErr, q.String()), wit())
			}
			return
		}
		if err != nil {
			// an empty range may also be rejected: only then is an error acceptable
			if c26OnlyEmptyRangeTolerates(want) {
				return
			}
			e := err.Error()
			if len(e) > 300 {
				e = e[:300]
			}
			r.Fail(sig, id, "query of the grammar rejected: "+e, wit())
			return
		}
		r.Eval(nodes)
		if len(q.Calls) != len(want) {
			r.Fail(sig, id, fmt.Sprintf("got %d calls want %d", len(q.Calls), len(want)), wit())
			return
		}
		for i := range want {
			if d := c26DiffCall(fmt.Sprintf("call%d", i), q.Calls[i], want[i]); d != "" {
				r.Fail(sig, id, d, wit())
				return
			}
		}
	})
}

func c26OnlyEmptyRangeTolerates(calls []*Call) bool {
	found := false
	var walk func(c *Call)
	walk = func(c *Call) {
		for _, v := range c.Args {
			c26WalkVal(v, &found, walk)
		}
		for _, ch := range c.Children {
			walk(ch)
		}
	}
	for _, c := range calls {
		walk(c)
	}
	return found
}

func c26WalkVal(v interface{}, found *bool, walk func(*Call)) {
	switch x := v.(type) {
	case c26EmptyRange:
		*found = true
	case *Call:
		walk(x)
	case *Condition:
		c26WalkVal(x.Value, found, walk)
	case []interface{}:
		for _, e := range x {
			c26WalkVal(e, found, walk)
		}
	}
}

func TestVerifC26(t *testing.T) {
	r := vk.Start(t, "C26")
	defer r.Finish()

	for _, f := range []string{"Set", "SetRowAttrs", "SetColumnAttrs", "Clear", "ClearRow", "Store", "TopN", "Rows", "Range", "generic", "generic-with-special-name", "generic-trailing-comma"} {
		r.Expect("form:" + f)
	}
	for _, c := range c26Conds {
		r.Expect("cond:" + c.text)
	}
	r.Expect("arg:eq", "arg:cond", "arg:conditional", "conditional:<f<", "conditional:<=f<=", "conditional:<f<=", "conditional:<=f<",
		"allargs:calls", "allargs:args", "allargs:empty", "field:reserved",
		"val:null", "val:true", "val:false", "val:timestamp-dq", "val:timestamp-sq", "val:timestamp-bare", "val:int", "val:int-negative",
		"val:int-leading-zeros", "val:int-edge", "val:int-out-of-range", "val:float", "val:float-leading-dot", "val:float-empty-fraction",
		"val:float-out-of-range", "val:call", "val:bareword", "val:dq-string", "val:sq-string", "val:list", "val:list-under-condition",
		"str:dq-escape", "str:sq-escape", "str:control-char", "str:utf8-2byte", "str:utf8-3byte", "str:utf8-4byte", "str:sq-raw-newline",
		"pos:col-uint", "pos:col-dq", "pos:col-sq", "pos:row-uint", "pos:row-dq", "pos:row-sq", "pos:timestamp-bare", "pos:timestamp-dq", "pos:timestamp-sq",
		"outcome:rejected-as-required", "hazard:none")
	for _, h := range c26Hazards {
		r.Expect("hazard:" + h)
	}

	// ---- directed: minimal witnesses of the hazard classes and a position x kind matrix
	r.Directed("witnesses", func(id string) {
		i64 := func(n int64) interface{} { return n }
		row := func(args map[string]interface{}) []*Call { return []*Call{{Name: "Row", Args: args}} }
		ws := []struct {
			hazard, text string
			want         []*Call
			expErr       string
		}{
			{"string-non-ascii", "Row(f=\"é\")", row(map[string]interface{}{"f": "é"}), ""},
			{"string-non-ascii", "Row(f='é', g=1)", row(map[string]interface{}{"f": "é", "g": i64(1)}), ""},
			{"string-non-ascii", "Row(g=1, f=\"a\U0001F600\")", row(map[string]interface{}{"g": i64(1), "f": "a\U0001F600"}), ""},
			{"dq-raw-newline", "Row(f=\"a\nb\")", row(map[string]interface{}{"f": "a\nb"}), ""},
			{"sq-escape", `Row(f='a\'b')`, row(map[string]interface{}{"f": "a'b"}), ""},
			{"sq-escape", `Row(f='a\\')`, row(map[string]interface{}{"f": `a\`}), ""},
			{"posstr-escape", `Set("a\"b", f=1)`, []*Call{{Name: "Set", Args: map[string]interface{}{"_col": `a"b`, "f": i64(1)}}}, ""},
			{"posstr-escape", `SetRowAttrs(f, 'k\'x', a=1)`, []*Call{{Name: "SetRowAttrs", Args: map[string]interface{}{"_field": "f", "_row": "k'x", "a": i64(1)}}}, ""},
			{"set-timestamp-quoted", `Set(1, f=2, "2010-07-08T14:44")`, []*Call{{Name: "Set", Args: map[string]interface{}{"_col": i64(1), "f": i64(2), "_timestamp": "2010-07-08T14:44"}}}, ""},
			{"set-timestamp-quoted", `Set(1, f=2, '2010-07-08T14:44')`, []*Call{{Name: "Set", Args: map[string]interface{}{"_col": i64(1), "f": i64(2), "_timestamp": "2010-07-08T14:44"}}}, ""},
			{"cond-list-nonnum", `Row(f >< ["a", "b"])`, row(map[string]interface{}{"f": &Condition{Op: BETWEEN, Value: []interface{}{"a", "b"}}}), ""},
			{"cond-list-nonnum", `Row(f == [true, 1])`, row(map[string]interface{}{"f": &Condition{Op: EQ, Value: []interface{}{true, i64(1)}}}), ""},
			{"conditional-int-range", `Row(9223372036854775807 < f < 10)`, row(map[string]interface{}{"f": c26EmptyRange{}}), ""},
			{"conditional-int-range", `Row(1 <= f < -9223372036854775808)`, row(map[string]interface{}{"f": c26EmptyRange{}}), ""},
			{"conditional-int-range", `Row(99999999999999999999 <= f <= 5)`, nil, "conditional bound outside int64"},
			{"kw-before-rbrack", `Row(f=[1, true])`, row(map[string]interface{}{"f": []interface{}{i64(1), true}}), ""},
			{"kw-before-rbrack", `Row(f=[null])`, row(map[string]interface{}{"f": []interface{}{nil}}), ""},
			// clean controls
			{"", `Set(1, f=2, 2010-07-08T14:44)`, []*Call{{Name: "Set", Args: map[string]interface{}{"_col": i64(1), "f": i64(2), "_timestamp": "2010-07-08T14:44"}}}, ""},
			{"", `Row(f="a\"b\\")`, row(map[string]interface{}{"f": `a"b\`}), ""},
			{"", `Row(f=[null, true, false, 1])`, row(map[string]interface{}{"f": []interface{}{nil, true, false, i64(1)}}), ""},
			{"", `Row(f >< [-5, 10])`, row(map[string]interface{}{"f": &Condition{Op: BETWEEN, Value: []interface{}{i64(-5), i64(10)}}}), ""},
			{"", `Row(-5 < f <= 10)`, row(map[string]interface{}{"f": &Condition{Op: BETWEEN, Value: []interface{}{i64(-4), i64(10)}}}), ""},
			{"", `Row(f=-9223372036854775808, g=9223372036854775807)`, row(map[string]interface{}{"f": i64(math.MinInt64), "g": i64(math.MaxInt64)}), ""},
			{"", `Row(f=9223372036854775808)`, nil, "integer outside int64"},
			{"", `Row(f=1., g=-.5, h=007, i=-0)`, row(map[string]interface{}{"f": float64(1), "g": -0.5, "h": i64(7), "i": i64(0)}), ""},
			{"", `Row(f=null, g=nullx, h=-a, i=:x, j=_z)`, row(map[string]interface{}{"f": nil, "g": "nullx", "h": "-a", "i": ":x", "j": "_z"}), ""},
			{"", `Row(f != null)`, row(map[string]interface{}{"f": &Condition{Op: NEQ, Value: nil}}), ""},
		}
		for _, w := range ws {
			sig := "parse:clean"
			if w.hazard != "" {
				sig = "parse:" + w.hazard
			}
			r.Distinct(vk.HashBytes([]byte(w.text)), true)
			c26Check(r, id, sig, w.text, w.want, w.expErr, 3)
		}
	})

	n := r.N(100000, 4000000)
	r.Cases("parse", n, func(i int, id string, rng *vk.Rand) {
		g := &c26Gen{rng: rng, r: r}
		if rng.Intn(100) >= 55 {
			g.hazard = c26Hazards[rng.Intn(len(c26Hazards))]
		}
		text, want := g.query()
		sig := "parse:clean"
		if g.hazard != "" && g.used {
			sig = "parse:" + g.hazard
			r.Cover("hazard:" + g.hazard)
		} else {
			r.Cover("hazard:none")
		}
		nontrivial := false
		for _, c := range want {
			if len(c.Args) > 0 {
				nontrivial = true
			}
		}
		r.Distinct(vk.HashBytes([]byte(text)), nontrivial)
		if r.WantSample() && nontrivial {
			r.Sample(c26Case{Text: text, Hazard: g.hazard, ExpErr: g.expErr})
		}
		c26Check(r, id, sig, text, want, g.expErr, g.nodes)
	})
}
