package roaring

// E-HIST for one roaring.Bitmap: history generator, executable set model and
// runner shared by C02 (reads/returns after every mutation) and C05 (op-log
// replay). Histories are materialised (all values inside the ops), so a
// history can be re-executed and shrunk without the PRNG.

import (
	"bytes"
	"fmt"
	"sort"
	"strings"
	"syscall"

	vk "github.com/pilosa/pilosa/internal/verifkit"
)

// hVals renders compactly ("0-4095,70000") in witnesses.
type hVals []uint64

func (v hVals) String() string {
	s := vk.SortedU64(v)
	var sb strings.Builder
	segs := 0
	for i := 0; i < len(s); {
		j := i
		for j+1 < len(s) && s[j+1] == s[j]+1 {
			j++
		}
		if segs > 0 {
			sb.WriteByte(',')
		}
		if segs == 48 {
			fmt.Fprintf(&sb, "...(%d distinct)", len(s))
			break
		}
		if j == i {
			fmt.Fprintf(&sb, "%d", s[i])
		} else {
			fmt.Fprintf(&sb, "%d-%d", s[i], s[j])
		}
		segs++
		i = j + 1
	}
	if len(s) != len(v) {
		fmt.Fprintf(&sb, " (%d args incl. duplicates)", len(v))
	}
	return sb.String()
}

func (v hVals) MarshalJSON() ([]byte, error) { return []byte(fmt.Sprintf("%q", v.String())), nil }

type hOp struct {
	Kind    string `json:"op"`             // Add Remove AddN RemoveN DirectAdd DirectAddN DirectRemoveN ImportSet ImportClear Optimize Freeze Rebase
	Vals    hVals  `json:"vals,omitempty"` // arguments in call order (duplicates kept); for imports: the payload's set
	Fmt     string `json:"fmt,omitempty"`  // imports: pilosa | official
	Encs    string `json:"encs,omitempty"` // imports: container encodings of the payload, by key
	RowSize uint64 `json:"rowSize,omitempty"`
	Switch  bool   `json:"switch,omitempty"` // Freeze: continue the history on the frozen copy
	Remap   bool   `json:"remap,omitempty"`  // Rebase: remap containers onto the new base bytes (read-only)
	spec    vBitmapSpec
}

type hHist struct {
	Coll string      `json:"coll"`
	Init vBitmapSpec `json:"init"` // C05: initial snapshot content (forced encodings)
	Ops  []hOp       `json:"ops"`
}

func (o *hOp) isImport() bool { return o.Kind == "ImportSet" || o.Kind == "ImportClear" }

// keys touched by an op (nil = all containers)
func (o *hOp) keys() []uint64 {
	switch o.Kind {
	case "Optimize", "Freeze", "Rebase":
		return nil
	}
	seen := map[uint64]bool{}
	var ks []uint64
	for _, v := range o.Vals {
		if !seen[v>>16] {
			seen[v>>16] = true
			ks = append(ks, v>>16)
		}
	}
	return ks
}

func (h *hHist) hash() uint64 {
	x := vk.Hash64(h.Coll, h.Init.Coll, len(h.Init.Conts))
	for _, c := range h.Init.Conts {
		x = vk.Mix(x, c.Key, uint64(c.enc), vk.Hash64(c.Shape, c.N))
	}
	for _, o := range h.Ops {
		x = vk.Mix(x, vk.Hash64(o.Kind, o.Fmt, o.Encs, o.RowSize, o.Switch, o.Remap), vk.HashU64s(o.Vals))
	}
	return x
}

// ---------------------------------------------------------------- generator

var hKeySets = [][]uint64{
	{0, 1, 2, 3}, {0, 1, 2, 3}, {0, 1, 2, 3}, {0, 1}, {0}, {1, 2},
	{0, 1, 0xFFFF, 0x10000}, {0, 2, 1 << 32, maxContainerKey}, {0, maxContainerKey - 1, maxContainerKey},
}

var hLowPool = []uint16{0, 1, 2, 3, 62, 63, 64, 65, 127, 128, 4094, 4095, 4096, 4097, 32767, 32768, 65533, 65534, 65535}

// shapes for bulk arguments: the array/bitmap threshold (4096) and the run
// threshold (2048 runs) from both sides, full and near-full containers.
var hBulkShapes = []string{"arr4095", "arr4096", "arr4097", "run2047", "run2048", "run2049", "full", "holeMid", "hole0", "holeMax",
	"alt", "dense30000", "arrSmall", "arrSmall", "runsMany", "run1", "run2", "blocky", "arr5", "arr6", "edges"}

type hGen struct {
	rng     *vk.Rand
	keys    []uint64
	pool    map[uint64][]uint16
	lastKey uint64
	logged  bool
}

func newHGen(rng *vk.Rand, logged bool) *hGen {
	g := &hGen{rng: rng, logged: logged, pool: map[uint64][]uint16{}}
	g.keys = hKeySets[rng.Intn(len(hKeySets))]
	for _, k := range g.keys {
		p := append([]uint16(nil), hLowPool...)
		for i := 0; i < 8; i++ {
			p = append(p, uint16(rng.Intn(65536)))
		}
		g.pool[k] = p
	}
	g.lastKey = g.keys[rng.Intn(len(g.keys))]
	return g
}

// key picks a container key with locality: mostly the one touched last.
func (g *hGen) key(max16 bool) uint64 {
	for try := 0; try < 8; try++ {
		k := g.lastKey
		if !g.rng.Chance(3, 5) {
			k = g.keys[g.rng.Intn(len(g.keys))]
		}
		if max16 && k > 0xFFFF {
			continue
		}
		g.lastKey = k
		return k
	}
	g.lastKey = g.keys[0]
	return g.keys[0]
}

func (g *hGen) low(k uint64) uint16 {
	p := g.pool[k]
	return p[g.rng.Intn(len(p))]
}

func (g *hGen) val() uint64 { k := g.key(false); return k<<16 | uint64(g.low(k)) }

// batch draws n pool values over 1-2 containers, unsorted, with duplicates.
func (g *hGen) batch(n int) []uint64 {
	out := make([]uint64, 0, n)
	k := g.key(false)
	for i := 0; i < n; i++ {
		if g.rng.Chance(1, 6) {
			k = g.key(false)
		}
		if len(out) > 0 && g.rng.Chance(1, 5) {
			out = append(out, out[g.rng.Intn(len(out))]) // explicit duplicate
			continue
		}
		out = append(out, k<<16|uint64(g.low(k)))
	}
	return out
}

// bulk draws a whole container shape under one key, sometimes shuffled.
func (g *hGen) bulk(max16 bool) (vContSpec, []uint64) {
	k := g.key(max16)
	sh := hBulkShapes[g.rng.Intn(len(hBulkShapes))]
	vals := vShape(g.rng, sh)
	encs := vEncodings(vals)
	enc := encs[g.rng.Intn(len(encs))]
	out := make([]uint64, len(vals))
	for i, v := range vals {
		out[i] = k<<16 | uint64(v)
	}
	return vContSpec{Key: k, Shape: sh, Enc: vEncName(enc), N: len(vals), enc: enc, vals: vals}, out
}

// poolCont draws a small container from the pool values of one key.
func (g *hGen) poolCont(max16 bool) vContSpec {
	k := g.key(max16)
	n := 1 + g.rng.Intn(10)
	seen := map[uint16]bool{}
	var vals []uint16
	for i := 0; i < n; i++ {
		v := g.low(k)
		if !seen[v] {
			seen[v] = true
			vals = append(vals, v)
		}
	}
	sort.Slice(vals, func(i, j int) bool { return vals[i] < vals[j] })
	encs := vEncodings(vals)
	enc := encs[g.rng.Intn(len(encs))]
	return vContSpec{Key: k, Shape: "pool", Enc: vEncName(enc), N: len(vals), enc: enc, vals: vals}
}

type hWeight struct {
	kind string
	w    int
}

var hWeightsC02 = []hWeight{{"Add", 14}, {"Remove", 12}, {"AddN", 10}, {"RemoveN", 10}, {"DirectAdd", 5}, {"DirectAddN", 5}, {"DirectRemoveN", 5},
	{"ImportSet", 9}, {"ImportClear", 9}, {"Optimize", 6}, {"Freeze", 5}}
var hWeightsC05 = []hWeight{{"Add", 14}, {"Remove", 12}, {"AddN", 12}, {"RemoveN", 12}, {"ImportSet", 11}, {"ImportClear", 11}, {"Optimize", 3}, {"Rebase", 7}}

func hKinds(ws []hWeight) []string {
	var out []string
	for _, w := range ws {
		out = append(out, w.kind)
	}
	return out
}

func (g *hGen) genOp(ws []hWeight, first bool) hOp {
	tot := 0
	for _, w := range ws {
		tot += w.w
	}
	x := g.rng.Intn(tot)
	kind := ""
	for _, w := range ws {
		if x < w.w {
			kind = w.kind
			break
		}
		x -= w.w
	}
	if first && g.rng.Chance(1, 2) {
		kind = []string{"AddN", "ImportSet", "AddN"}[g.rng.Intn(3)]
		if !g.logged && g.rng.Chance(1, 3) {
			kind = "DirectAddN"
		}
	}
	op := hOp{Kind: kind}
	big := first && g.rng.Chance(3, 4) || g.rng.Chance(1, 12)
	switch kind {
	case "Add", "Remove":
		n := 1
		if g.rng.Chance(1, 5) {
			n = 2 + g.rng.Intn(2)
		}
		for i := 0; i < n; i++ {
			op.Vals = append(op.Vals, g.val())
		}
	case "DirectAdd":
		op.Vals = hVals{g.val()}
	case "AddN", "RemoveN", "DirectAddN", "DirectRemoveN":
		if big {
			_, vals := g.bulk(false)
			if g.rng.Chance(1, 3) && len(vals) < 10000 {
				p := g.rng.Perm(len(vals))
				sh := make([]uint64, len(vals))
				for i, j := range p {
					sh[i] = vals[j]
				}
				vals = sh
			}
			// sometimes followed by a few pool values incl. duplicates of the bulk
			if g.rng.Chance(1, 3) {
				vals = append(vals, g.batch(1+g.rng.Intn(5))...)
			}
			op.Vals = vals
		} else {
			op.Vals = g.batch(g.rng.Intn(25))
		}
	case "ImportSet", "ImportClear":
		op.Fmt = "pilosa"
		if g.rng.Chance(2, 5) {
			op.Fmt = "official"
		}
		max16 := op.Fmt == "official"
		nc := 1
		if g.rng.Chance(1, 3) {
			nc = 2 + g.rng.Intn(2)
		}
		if g.rng.Chance(1, 25) && op.Fmt == "pilosa" {
			nc = 0 // empty payload (the 8-byte empty official stream is C04's business)
		}
		byKey := map[uint64]vContSpec{}
		for i := 0; i < nc; i++ {
			var c vContSpec
			if big || g.rng.Chance(1, 5) {
				c, _ = g.bulk(max16)
			} else {
				c = g.poolCont(max16)
			}
			if op.Fmt == "official" {
				// the official (no-run) writer chooses the encoding by cardinality;
				// cardinality exactly 4096 is left to C04 (array/bitmap boundary of the official reader)
				if len(c.vals) == 4096 {
					c.vals = c.vals[:4095]
					c.N = 4095
				}
				c.enc = containerBitmap
				if len(c.vals) <= 4096 {
					c.enc = containerArray
				}
				c.Enc = vEncName(c.enc)
			}
			byKey[c.Key] = c
		}
		var ks []uint64
		for k := range byKey {
			ks = append(ks, k)
		}
		sort.Slice(ks, func(i, j int) bool { return ks[i] < ks[j] })
		for _, k := range ks {
			op.spec.Conts = append(op.spec.Conts, byKey[k])
			op.Encs += byKey[k].Enc[:1]
		}
		op.Vals = op.spec.vModel()
		switch g.rng.Intn(4) {
		case 0:
			op.RowSize = 0
		case 1:
			op.RowSize = 1
		case 2:
			op.RowSize = 2
		case 3:
			op.RowSize = 16
		}
	case "Freeze":
		op.Switch = g.rng.Bool()
	case "Rebase":
		op.Remap = g.rng.Bool()
	}
	return op
}

func hGenerate(rng *vk.Rand, logged bool) *hHist {
	g := newHGen(rng, logged)
	h := &hHist{Coll: "slice"}
	if rng.Bool() {
		h.Coll = "btree"
	}
	ws := hWeightsC02
	if logged {
		ws = hWeightsC05
		// initial snapshot content
		h.Init = vBitmapSpec{Coll: h.Coll, Prov: []string{"fresh", "optimized", "decoded"}[rng.Intn(3)]}
		if rng.Chance(2, 3) {
			nc := 1 + rng.Intn(2)
			byKey := map[uint64]vContSpec{}
			for i := 0; i < nc; i++ {
				var c vContSpec
				if rng.Bool() {
					c, _ = g.bulk(false)
				} else {
					c = g.poolCont(false)
				}
				byKey[c.Key] = c
			}
			var ks []uint64
			for k := range byKey {
				ks = append(ks, k)
			}
			sort.Slice(ks, func(i, j int) bool { return ks[i] < ks[j] })
			for _, k := range ks {
				h.Init.Conts = append(h.Init.Conts, byKey[k])
			}
		}
	}
	var nops int
	switch rng.Intn(4) {
	case 0:
		nops = 1 + rng.Intn(6)
	case 1, 2:
		nops = 4 + rng.Intn(20)
	default:
		nops = 20 + rng.Intn(41)
	}
	for i := 0; i < nops; i++ {
		h.Ops = append(h.Ops, g.genOp(ws, i == 0))
	}
	return h
}

// ---------------------------------------------------------------- model

type hModel struct{ m []uint64 }

func (s *hModel) has(v uint64) bool { return vContains(s.m, v) }

func (s *hModel) add(v uint64) bool {
	i := sort.Search(len(s.m), func(i int) bool { return s.m[i] >= v })
	if i < len(s.m) && s.m[i] == v {
		return false
	}
	s.m = append(s.m, 0)
	copy(s.m[i+1:], s.m[i:])
	s.m[i] = v
	return true
}

func (s *hModel) remove(v uint64) bool {
	i := sort.Search(len(s.m), func(i int) bool { return s.m[i] >= v })
	if i >= len(s.m) || s.m[i] != v {
		return false
	}
	s.m = append(s.m[:i], s.m[i+1:]...)
	return true
}

// addAll / removeAll return the number of elements that changed.
func (s *hModel) addAll(vals []uint64) int {
	if len(vals) <= 8 {
		n := 0
		for _, v := range vals {
			if s.add(v) {
				n++
			}
		}
		return n
	}
	before := len(s.m)
	s.m = vUnion(s.m, vk.SortedU64(vals))
	return len(s.m) - before
}

func (s *hModel) removeAll(vals []uint64) int {
	if len(vals) <= 8 {
		n := 0
		for _, v := range vals {
			if s.remove(v) {
				n++
			}
		}
		return n
	}
	before := len(s.m)
	s.m = vDifference(s.m, vk.SortedU64(vals))
	return before - len(s.m)
}

func (s *hModel) max() uint64 {
	if len(s.m) == 0 {
		return 0
	}
	return s.m[len(s.m)-1]
}

// rowDeltas: model of ImportRoaringBits' rowSet for rowSize != 0.
func hRowDeltas(changedVals []uint64, rowSize uint64, sign int) map[uint64]int {
	out := map[uint64]int{}
	for _, v := range changedVals {
		out[(v>>16)/rowSize] += sign
	}
	return out
}

// ---------------------------------------------------------------- payloads

// hPayload encodes an import op's payload. Pilosa format: through the repo's
// writeToUnoptimized on a bitmap holding the forced encodings; official
// format: the harness' independent encoder (no run containers unless runs).
func hPayload(op *hOp, runs bool) []byte {
	if op.Fmt == "official" {
		data, _ := vOfficialEncode(vSpecOfficial(op.spec, runs))
		return data
	}
	tmp := NewBitmap()
	for _, c := range op.spec.Conts {
		if len(c.vals) > 0 {
			tmp.Containers.Put(c.Key, vMakeContainer(c.vals, c.enc))
		}
	}
	var buf bytes.Buffer
	if _, err := tmp.writeToUnoptimized(&buf); err != nil {
		panic(err)
	}
	return buf.Bytes()
}

// guardCopyRO is guardCopy with the data pages made read-only afterwards: the
// way fragment files are mapped in production (PROT_READ). A write through a
// "mapped" container is then a deterministic SIGSEGV.
func (a *vArena) guardCopyRO(data []byte) []byte {
	out := a.guardCopy(data)
	m := a.maps[len(a.maps)-1]
	ps := syscall.Getpagesize()
	if err := syscall.Mprotect(m[:len(m)-ps], syscall.PROT_READ); err != nil {
		panic(err)
	}
	return out
}

// hIterSlice walks the public Iterator from Seek(from).
func hIterSlice(b *Bitmap, from uint64) []uint64 {
	it := b.Iterator()
	it.Seek(from)
	var out []uint64
	for v, eof := it.Next(); !eof; v, eof = it.Next() {
		out = append(out, v)
	}
	return out
}

// hSameSet compares two bitmaps through their public iterators in lockstep
// (no materialisation: Slice() of a few full containers dominates otherwise).
func hSameSet(a, b *Bitmap) bool {
	if a.Count() != b.Count() {
		return false
	}
	ia, ib := a.Iterator(), b.Iterator()
	ia.Seek(0)
	ib.Seek(0)
	for {
		va, ea := ia.Next()
		vb, eb := ib.Next()
		if ea != eb || (!ea && va != vb) {
			return false
		}
		if ea {
			return true
		}
	}
}

// ---------------------------------------------------------------- shrinking

type hFail struct {
	Sig string
	Msg string
	At  int // op index
}

// hShrink greedily drops ops (then halves batch arguments) while exec keeps
// failing with the same signature. exec must be deterministic.
func hShrink(h *hHist, f *hFail, exec func(*hHist) *hFail, budget int) (*hHist, *hFail) {
	cur, curF := h, f
	try := func(c *hHist) bool {
		if budget <= 0 {
			return false
		}
		budget--
		if nf := exec(c); nf != nil && nf.Sig == curF.Sig {
			cur, curF = c, nf
			return true
		}
		return false
	}
	// drop everything after the failing op
	if curF.At+1 < len(cur.Ops) {
		c := *cur
		c.Ops = append([]hOp(nil), cur.Ops[:curF.At+1]...)
		try(&c)
	}
	for progress := true; progress && budget > 0; {
		progress = false
		for i := len(cur.Ops) - 1; i >= 0 && budget > 0; i-- {
			if i >= len(cur.Ops) {
				continue
			}
			c := *cur
			c.Ops = append(append([]hOp(nil), cur.Ops[:i]...), cur.Ops[i+1:]...)
			if try(&c) {
				progress = true
			}
		}
	}
	if len(cur.Init.Conts) > 0 {
		c := *cur
		c.Init = vBitmapSpec{Coll: cur.Init.Coll, Prov: cur.Init.Prov}
		try(&c)
	}
	for i := 0; i < len(cur.Ops) && budget > 0; i++ {
		for len(cur.Ops[i].Vals) > 1 && !cur.Ops[i].isImport() && budget > 0 {
			vals := cur.Ops[i].Vals
			half := len(vals) / 2
			ok := false
			for _, part := range [][]uint64{vals[:half], vals[half:]} {
				c := *cur
				c.Ops = append([]hOp(nil), cur.Ops...)
				c.Ops[i].Vals = append(hVals(nil), part...)
				if try(&c) {
					ok = true
					break
				}
			}
			if !ok {
				break
			}
		}
	}
	return cur, curF
}

// hImportOp builds a one-container (array) import operation.
func hImportOp(kind, fmtName string, key uint64, lows []uint16) hOp {
	vals := append([]uint16(nil), lows...)
	op := hOp{Kind: kind, Fmt: fmtName, RowSize: 1}
	enc := byte(containerArray)
	op.spec.Conts = []vContSpec{{Key: key, Shape: "pool", Enc: vEncName(enc), N: len(vals), enc: enc, vals: vals}}
	op.Encs = "a"
	op.Vals = op.spec.vModel()
	return op
}

// vSliceBounded reads b through the public iterator but stops one value after
// max values: a corrupted bitmap can make Slice() run and allocate without
// end, and one extra value already proves a disagreement.
func vSliceBounded(b *Bitmap, max int) []uint64 {
	it := b.Iterator()
	it.Seek(0)
	out := make([]uint64, 0, 64)
	for v, eof := it.Next(); !eof; v, eof = it.Next() {
		out = append(out, v)
		if len(out) > max {
			break
		}
	}
	return out
}
