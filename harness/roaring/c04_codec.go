package roaring

// C04 — Bitmap encodings round-trip and imports equal decode-then-merge.
// (a) Pilosa format: real WriteTo / writeToUnoptimized output (with flags) is
// decoded into slice and B-tree bitmaps. (b) Official format: bytes from the
// harness' independent RoaringFormatSpec encoder (cookie 12346, and cookie
// 12347 with the offset header only for >= 4 containers) are decoded twice
// from the same guard-page buffer, which must stay byte-identical. (c)
// ImportRoaringBits set/clear of those bytes into generated targets must
// equal union/difference with exact changed counts and per-row deltas.

import (
	"bytes"
	"encoding/hex"
	"fmt"
	"os"
	"path/filepath"
	"runtime"
	"testing"

	vk "github.com/pilosa/pilosa/internal/verifkit"
)

type c04Case struct {
	Form    string      `json:"form"` // pilosa-writeto | pilosa-unopt | official-norun | official-run
	Flags   byte        `json:"flags"`
	Ghost   bool        `json:"ghost"` // pilosa forms: an extra container that was filled and emptied again before encoding
	Src     vBitmapSpec `json:"src"`
	Tgt     vBitmapSpec `json:"target"`
	RowSize uint64      `json:"rowSize"`
}

var c04OffKeys = []uint64{0, 1, 2, 3, 5, 0xFFFE, 0xFFFF}

// c04Feat: input predicates of an encoding that select decoder paths. The
// leading class is the most specific structural predicate that applies, so
// that one decoder defect maps to one signature prefix.
func c04Feat(c *c04Case) string {
	if c.Form == "pilosa-writeto" || c.Form == "pilosa-unopt" {
		if c.Ghost {
			return "emptied-container/" + c.Src.Coll + ":" + c.Form
		}
		return "plain:" + c.Form
	}
	n := 0
	card4096, manyRuns := false, false
	for _, ct := range c.Src.Conts {
		if ct.N == 0 {
			continue
		}
		n++
		isRun := c.Form == "official-run" && ct.enc == containerRun
		if !isRun && ct.N == 4096 {
			card4096 = true
		}
		if isRun && vCountRuns(ct.vals) >= 16384 {
			manyRuns = true
		}
	}
	nclass := "/n>=4"
	switch {
	case n == 0:
		nclass = "/n=0"
	case n < 4:
		nclass = "/n<4"
	case n == 65536:
		nclass = "/n=65536"
	}
	q := "plain"
	switch {
	case c.Form == "official-run" && n >= 4:
		q = "runcookie-with-offset-header" // >= NO_OFFSET_THRESHOLD containers: the spec inserts the offset header
	case card4096:
		q = "card4096"
	case n == 0:
		q = "empty"
	case manyRuns:
		q = "runs>=16384"
	}
	return q + ":" + c.Form + nclass
}

func c04Gen(rng *vk.Rand) *c04Case {
	c := &c04Case{}
	c.Form = []string{"pilosa-writeto", "pilosa-unopt", "official-norun", "official-run", "official-run"}[rng.Intn(5)]
	official := c.Form[0] == 'o'
	keys := vKeysAll
	maxC := 4
	if official {
		keys = c04OffKeys
		maxC = 6
	}
	c.Src = vGenSpec(rng, keys, maxC, vShapeNames)
	if official {
		c.Src.Prov = "fresh"
		anyRun := false
		for i := range c.Src.Conts {
			ct := &c.Src.Conts[i]
			if c.Form == "official-norun" || ct.enc != containerRun {
				ct.enc = containerBitmap
				if ct.N <= 4096 {
					ct.enc = containerArray
				}
				ct.Enc = vEncName(ct.enc)
			} else {
				anyRun = true
			}
		}
		if c.Form == "official-run" && !anyRun {
			if len(c.Src.Conts) == 0 {
				c.Form = "official-norun"
			} else {
				ct := &c.Src.Conts[rng.Intn(len(c.Src.Conts))]
				ct.enc, ct.Enc = containerRun, "run"
			}
		}
	} else {
		c.Flags = byte(rng.Intn(256))
		if rng.Chance(1, 2) {
			c.Flags = []byte{0, 1, 2, 0x80, 0xFF}[rng.Intn(5)]
		}
		c.Ghost = rng.Chance(1, 8)
	}
	c.Tgt = vGenSpec(rng, keys, 3, vShapeNames)
	c.RowSize = []uint64{0, 1, 2, 3, 16}[rng.Intn(5)]
	return c
}

// c04Encode produces the bytes of the case's source.
func c04Encode(c *c04Case, a *vArena) []byte {
	switch c.Form {
	case "official-norun":
		d, _ := vOfficialEncode(vSpecOfficial(c.Src, false))
		return d
	case "official-run":
		d, _ := vOfficialEncode(vSpecOfficial(c.Src, true))
		return d
	}
	b := vBuild(c.Src, a)
	if c.Ghost {
		k := uint64(4)
		b.DirectAdd(k<<16 | 77)
		b.DirectRemoveN(k<<16 | 77)
	}
	b.Flags = c.Flags
	var buf bytes.Buffer
	var err error
	if c.Form == "pilosa-writeto" {
		_, err = b.WriteTo(&buf)
	} else {
		_, err = b.writeToUnoptimized(&buf)
	}
	if err != nil {
		panic(err)
	}
	return buf.Bytes()
}

// c04Slack returns a heap copy of data followed by >= 2 MiB of zero bytes
// (len == len(data)): an over-reading decoder reads zeros instead of dying.
// Stage A of every leg runs on such a copy; only inputs that behave correctly
// there are run again behind a guard page (stage B), where an over-read of a
// single byte is a deterministic SIGSEGV. A decoder that is already wrong on
// the slack copy is reported from stage A without risking the process.
var c04SlackBuf []byte

func c04Slack(data []byte) []byte {
	need := len(data) + 2<<20
	if len(c04SlackBuf) < need {
		c04SlackBuf = make([]byte, need*2)
	}
	buf := c04SlackBuf[:need]
	copy(buf, data)
	for i := len(data); i < need; i++ {
		buf[i] = 0
	}
	return buf[:len(data):len(data)]
}

func c04Run(r *vk.Run, id string, c *c04Case) {
	feat := c04Feat(c)
	model := c.Src.vModel()
	official := c.Form[0] == 'o'
	wit := func() interface{} {
		if len(c.Src.Conts) > 64 {
			return map[string]interface{}{"form": c.Form, "containers": len(c.Src.Conts), "note": "directed official-matrix case; container k holds {k} (odd k) or a run 7..9 (even k, run form)", "target": c.Tgt, "rowSize": c.RowSize}
		}
		return c
	}
	r.InFlightDetail(id, map[string]interface{}{"sig": feat + ":encode", "case": wit()})
	var arena vArena
	defer arena.release()
	var data []byte
	if r.Guard(func() string { return feat + ":encode" }, id, wit, func() { data = c04Encode(c, &arena) }) {
		return
	}
	pristine := append([]byte(nil), data...)
	r.Cover("form:" + feat)
	for _, ct := range c.Src.Conts {
		r.Cover("src:" + c.Form + ":" + ct.Enc)
	}
	clean := true
	fail := func(sig, msg string) {
		clean = false
		r.Fail(sig, id, msg, wit())
	}

	// ---- decode three times from the SAME buffer: slice, btree, slice again
	decodeLeg := func(buf []byte, stage string) {
		firstOK := false
		for pass, coll := range []string{"slice", "btree", "slice"} {
			sig := feat + ":decode"
			if pass > 0 && firstOK {
				sig = feat + ":decode-again" // the first decode of these bytes was right, a later one is not
			}
			passOK := true
			pfail := func(sg, msg string) {
				passOK = false
				fail(sg, msg)
			}
			if r.Guard(func() string { return sig + "-panic" }, id, wit, func() {
				nb := vNewColl(coll)
				err := nb.UnmarshalBinary(buf)
				r.Eval(1)
				if err != nil {
					pfail(sig, fmt.Sprintf("%s pass %d into %s: UnmarshalBinary of valid %s bytes (%d bytes) failed: %v", stage, pass, coll, c.Form, len(data), err))
					return
				}
				r.Eval(2)
				if got := c04Slice(nb, len(model)); !vk.EqualU64(got, model) {
					pfail(sig, fmt.Sprintf("%s pass %d into %s: decoded set: %s; got %s want %s", stage, pass, coll, vk.DiffU64(got, model), vk.Brief(got), vk.Brief(model)))
				} else if got := nb.Count(); got != uint64(len(model)) {
					pfail(sig, fmt.Sprintf("%s pass %d into %s: decoded Count()=%d want %d", stage, pass, coll, got, len(model)))
				}
				if !official {
					r.Eval(1)
					if nb.Flags != c.Flags {
						pfail(feat+":flags", fmt.Sprintf("decoded Flags=%#x want %#x", nb.Flags, c.Flags))
					}
				}
			}) {
				clean, passOK = false, false
			}
			if pass == 0 {
				firstOK = passOK
			}
			if official {
				r.Eval(1)
				if !bytes.Equal(buf, pristine) {
					fail(feat+":input-modified", fmt.Sprintf("%s pass %d into %s: UnmarshalBinary modified its input (first differing byte %d)", stage, pass, coll, c04FirstDiff(buf, pristine)))
					copy(buf, pristine) // restore so the later passes see valid bytes again
				}
			}
		}
	}
	decodeLeg(c04Slack(pristine), "heap")
	if clean {
		r.InFlightDetail(id, map[string]interface{}{"sig": feat + ":decode-overread", "case": wit()})
		decodeLeg(arena.guardCopy(pristine), "guard-page")
	}

	// ---- imports: set and clear into slice/btree targets built from the target spec
	tm := c.Tgt.vModel()
	for _, clear := range []bool{false, true} {
		for _, coll := range []string{"slice", "btree"} {
			mode := "set"
			if clear {
				mode = "clear"
			}
			sig := feat + ":import-" + mode
			ts := c.Tgt
			ts.Coll = coll
			var delta, want []uint64
			sign := 1
			if clear {
				delta, want, sign = vIntersect(tm, model), vDifference(tm, model), -1
			} else {
				delta, want = vDifference(model, tm), vUnion(tm, model)
			}
			importLeg := func(ibuf []byte, stage string) {
				if r.Guard(func() string { return sig + "-panic" }, id, wit, func() {
					tgt := vBuild(ts, &arena)
					changed, rowSet, err := tgt.ImportRoaringBits(ibuf, clear, false, c.RowSize)
					r.Eval(1)
					r.Cover("import:" + mode + ":" + coll + ":" + c.Form)
					if err != nil {
						fail(sig, fmt.Sprintf("%s: ImportRoaringBits(%s) into %s target failed on valid bytes: %v", stage, mode, coll, err))
						return
					}
					r.Eval(2)
					if got := c04Slice(tgt, len(want)); !vk.EqualU64(got, want) {
						fail(sig, fmt.Sprintf("%s: ImportRoaringBits(%s) into %s target: result %s; got %s want %s (changed=%d want %d)", stage, mode, coll, vk.DiffU64(got, want), vk.Brief(got), vk.Brief(want), changed, len(delta)))
						return
					} else if got := tgt.Count(); got != uint64(len(want)) {
						fail(sig, fmt.Sprintf("%s: ImportRoaringBits(%s) into %s target: Count()=%d want %d", stage, mode, coll, got, len(want)))
						return
					}
					if changed != len(delta) {
						fail(sig+"-changed", fmt.Sprintf("%s: ImportRoaringBits(%s) into %s target: changed=%d want %d", stage, mode, coll, changed, len(delta)))
					}
					if c.RowSize != 0 {
						r.Eval(1)
						wantRows := hRowDeltas(delta, c.RowSize, sign)
						bad := ""
						for row, d := range wantRows {
							if rowSet[row] != d {
								bad = fmt.Sprintf("rowSet[%d]=%d want %d", row, rowSet[row], d)
							}
						}
						for row, d := range rowSet {
							if d != wantRows[row] {
								bad = fmt.Sprintf("rowSet[%d]=%d want %d", row, d, wantRows[row])
							}
						}
						if bad != "" {
							fail(sig+"-rowSet", fmt.Sprintf("%s: ImportRoaringBits(%s, rowSize=%d) into %s target: %s", stage, mode, c.RowSize, coll, bad))
						}
					}
				}) {
					clean = false
				}
				if official {
					r.Eval(1)
					if !bytes.Equal(ibuf, pristine) {
						fail(sig+"-input-modified", fmt.Sprintf("%s: ImportRoaringBits modified its input (first differing byte %d)", stage, c04FirstDiff(ibuf, pristine)))
					}
				}
			}
			clean = true
			importLeg(c04Slack(pristine), "heap")
			if clean {
				r.InFlightDetail(id, map[string]interface{}{"sig": sig + "-overread", "case": wit()})
				importLeg(arena.guardCopy(pristine), "guard-page")
			}
		}
	}
}

// c04Slice reads b through the public iterator but stops one value after the
// expected cardinality: a wrongly decoded bitmap can make Slice() run (and
// allocate) without end, and one extra value already proves the disagreement.
func c04Slice(b *Bitmap, expect int) []uint64 {
	it := b.Iterator()
	it.Seek(0)
	out := make([]uint64, 0, expect+1)
	for v, eof := it.Next(); !eof; v, eof = it.Next() {
		out = append(out, v)
		if len(out) > expect {
			break
		}
	}
	return out
}

func c04FirstDiff(a, b []byte) int {
	for i := range a {
		if i >= len(b) || a[i] != b[i] {
			return i
		}
	}
	return len(a)
}

func c04Cont(key uint64, shape string, enc byte, vals []uint16) vContSpec {
	return vContSpec{Key: key, Shape: shape, Enc: vEncName(enc), N: len(vals), enc: enc, vals: vals}
}

func c04Seq(lo, hi, step int) []uint16 {
	var out []uint16
	for v := lo; v <= hi; v += step {
		out = append(out, uint16(v))
	}
	return out
}

func TestVerifC04(t *testing.T) {
	r := vk.Start(t, "C04")
	defer r.Finish()

	for _, f := range []string{"plain:pilosa-writeto", "plain:pilosa-unopt", "plain:official-norun/n<4", "plain:official-norun/n>=4", "plain:official-run/n<4", "runcookie-with-offset-header:official-run/n>=4",
		"card4096:official-norun/n<4", "empty:official-norun/n=0", "runs>=16384:official-run/n<4", "plain:official-norun/n=65536", "runcookie-with-offset-header:official-run/n=65536"} {
		r.Expect("form:" + f)
	}
	for _, e := range []string{"array", "bitmap", "run"} {
		r.Expect("src:pilosa-writeto:"+e, "src:pilosa-unopt:"+e, "src:official-run:"+e)
	}
	r.Expect("src:official-norun:array", "src:official-norun:bitmap")
	for _, m := range []string{"set", "clear"} {
		for _, coll := range []string{"slice", "btree"} {
			for _, f := range []string{"pilosa-writeto", "pilosa-unopt", "official-norun", "official-run"} {
				r.Expect("import:" + m + ":" + coll + ":" + f)
			}
		}
	}

	// ---- the harness encoders against the repo's only independent references
	r.Directed("encoder-selfcheck", func(id string) {
		// (1) hex vector of the repo's own test (2 containers, first a run container 1..10, second the array {1})
		want, _ := hex.DecodeString("3B3001000100000900010000000100010009000100")
		got, _ := vOfficialEncode([]vOffCont{{key: 0, vals: c04Seq(1, 10, 1), run: true}, {key: 1, vals: []uint16{1}}})
		r.Eval(1)
		if !bytes.Equal(got, want) {
			r.Fail("harness:official-encoder-vs-hex-vector", id, fmt.Sprintf("got %x want %x", got, want), nil)
		}
		// (2) a file written by the reference implementation (no-run form): parse by hand, re-encode, compare bytes
		_, self, _, _ := runtime.Caller(0)
		if ref, err := os.ReadFile(filepath.Join(filepath.Dir(self), "testdata", "bitmapcontainer.roaringbitmap")); err == nil {
			var conts []vOffCont
			n := int(ref[4]) | int(ref[5])<<8
			for i := 0; i < n; i++ {
				h := ref[8+4*i:]
				key, card := uint16(h[0])|uint16(h[1])<<8, (int(h[2])|int(h[3])<<8)+1
				o := ref[8+4*n+4*i:]
				off := int(o[0]) | int(o[1])<<8 | int(o[2])<<16 | int(o[3])<<24
				var vals []uint16
				if card <= 4096 {
					for j := 0; j < card; j++ {
						vals = append(vals, uint16(ref[off+2*j])|uint16(ref[off+2*j+1])<<8)
					}
				} else {
					for j := 0; j < 65536; j++ {
						if ref[off+j/8]&(1<<uint(j%8)) != 0 {
							vals = append(vals, uint16(j))
						}
					}
				}
				conts = append(conts, vOffCont{key: key, vals: vals})
			}
			got, _ := vOfficialEncode(conts)
			r.Eval(1)
			if !bytes.Equal(got, ref) {
				r.Fail("harness:official-encoder-vs-reference-file", id, fmt.Sprintf("re-encoding differs at byte %d (len %d vs %d)", c04FirstDiff(got, ref), len(got), len(ref)), nil)
			}
		} else {
			r.Note("encoder-selfcheck", "reference file not readable: "+err.Error())
		}
		// (3) Pilosa-format encoder of the harness vs writeToUnoptimized on forced encodings
		rng := vk.NewRand(vk.Mix(r.Seed, 0xC04))
		for i := 0; i < 60; i++ {
			s := vGenSpec(rng, vKeysAll, 4, vShapeNames)
			s.Prov, s.Coll = "fresh", "slice"
			var a vArena
			b := vBuild(s, &a)
			b.Flags = byte(i)
			var buf bytes.Buffer
			b.writeToUnoptimized(&buf)
			got, _ := vPilosaEncode(vSpecPilosa(s), byte(i))
			r.Eval(1)
			if !bytes.Equal(got, buf.Bytes()) {
				r.Fail("harness:pilosa-encoder-vs-writeToUnoptimized", id, fmt.Sprintf("differs at byte %d (len %d vs %d)", c04FirstDiff(got, buf.Bytes()), len(got), buf.Len()), s)
			}
			a.release()
		}
	})

	// ---- directed matrix over the official format's structural variants
	{
		rng := vk.NewRand(vk.Mix(r.Seed, 0x0FF1))
		small := func(k uint64) vContSpec { return c04Cont(k, "arrSmall", containerArray, []uint16{1, 5, 9}) }
		runC := func(k uint64) vContSpec {
			return c04Cont(k, "run2", containerRun, append(c04Seq(10, 20, 1), c04Seq(100, 65535, 1)...))
		}
		full := func(k uint64, enc byte) vContSpec { return c04Cont(k, "full", enc, c04Seq(0, 65535, 1)) }
		var cases []*c04Case
		add := func(form string, conts ...vContSpec) {
			cases = append(cases, &c04Case{Form: form, Src: vBitmapSpec{Coll: "slice", Prov: "fresh", Conts: conts},
				Tgt: vBitmapSpec{Prov: "fresh", Conts: []vContSpec{c04Cont(0, "arrSmall", containerArray, []uint16{5, 6, 7}), c04Cont(2, "run1", containerRun, c04Seq(0, 300, 1))}}, RowSize: 2})
		}
		add("official-norun") // the 8-byte empty bitmap
		for n := 1; n <= 6; n++ {
			var nr, wr, allRun []vContSpec
			for k := 0; k < n; k++ {
				nr = append(nr, small(uint64(k)))
				if k == n-1 {
					wr = append(wr, runC(uint64(k)))
				} else {
					wr = append(wr, small(uint64(k)))
				}
				allRun = append(allRun, runC(uint64(k)))
			}
			add("official-norun", nr...)
			add("official-run", wr...)
			add("official-run", allRun...)
			wr2 := append([]vContSpec{runC(0)}, nr[1:]...)
			add("official-run", wr2...)
		}
		// array/bitmap boundary of the spec: 4096 values are an array, 4097 a bitmap
		for _, n := range []int{4095, 4096, 4097} {
			vals := vRandSet(rng, n)
			enc := byte(containerArray)
			if n > 4096 {
				enc = containerBitmap
			}
			add("official-norun", c04Cont(1, fmt.Sprintf("arr%d", n), enc, vals))
			add("official-run", runC(0), c04Cont(1, fmt.Sprintf("arr%d", n), enc, vals))
		}
		// full containers in each encoding, and a run container with very many runs
		add("official-norun", full(0, containerBitmap), full(0xFFFF, containerBitmap))
		add("official-run", full(0, containerRun), full(1, containerBitmap), full(0xFFFF, containerRun))
		add("official-run", c04Cont(3, "alt", containerRun, c04Seq(0, 65535, 2)))  // 32768 runs
		add("official-run", c04Cont(3, "alt4", containerRun, c04Seq(0, 65535, 4))) // 16384 runs
		add("official-run", c04Cont(3, "alt5", containerRun, c04Seq(0, 65535, 5)), small(4))
		add("official-run", c04Cont(3, "alt4", containerRun, c04Seq(0, 65535, 4)), small(4)) // a container AFTER one with 16384 runs
		// 2^16 containers
		var all, allR []vContSpec
		for k := 0; k < 65536; k++ {
			all = append(all, c04Cont(uint64(k), "single", containerArray, []uint16{uint16(k)}))
			if k%2 == 0 {
				allR = append(allR, c04Cont(uint64(k), "run", containerRun, []uint16{7, 8, 9}))
			} else {
				allR = append(allR, c04Cont(uint64(k), "single", containerArray, []uint16{uint16(k)}))
			}
		}
		add("official-norun", all...)
		add("official-run", allR...)
		for i, c := range cases {
			i, c := i, c
			// one directed case each: a decoder crash must not skip the rest of the matrix
			r.Directed(fmt.Sprintf("official-matrix/%02d:%s", i, c04Feat(c)), func(id string) {
				r.Distinct(vk.Hash64("om", i), true)
				c04Run(r, id, c)
			})
		}
	}

	// ---- Pilosa format after a container was emptied (both collections)
	r.Directed("pilosa-emptied", func(id string) {
		for _, coll := range []string{"slice", "btree"} {
			for _, form := range []string{"pilosa-writeto", "pilosa-unopt"} {
				c := &c04Case{Form: form, Flags: 3, Ghost: true, Src: vBitmapSpec{Coll: coll, Prov: "fresh", Conts: []vContSpec{c04Cont(0, "arrSmall", containerArray, []uint16{5})}},
					Tgt: vBitmapSpec{Prov: "fresh"}, RowSize: 1}
				r.Distinct(vk.Hash64("pe", coll, form), true)
				c04Run(r, id, c)
			}
		}
	})

	n := r.N(2500, 100000)
	r.Cases("rand", n, func(i int, id string, rng *vk.Rand) {
		c := c04Gen(rng)
		if r.WantSample() {
			r.Sample(c)
		}
		nontrivial := false
		for _, ct := range c.Src.Conts {
			if ct.N > 0 {
				nontrivial = true
			}
		}
		r.Distinct(vk.Hash64("c", id), nontrivial)
		c04Run(r, id, c)
	})
}
