package roaring

// C05 — Replaying the operation log reproduces the in-memory bitmap.
// History runner with OpWriter = bytes.Buffer. After operations, the snapshot
// bytes followed by the appended op log are decoded (UnmarshalBinary of the
// concatenation, behind a guard page) into fresh slice and B-tree bitmaps;
// the decoded set must equal the live set and the decoded Ops() counters the
// live ones. Re-encodings (WriteTo, optional remap onto the new read-only
// bytes — the fragment snapshot pattern) start a new base.

import (
	"bytes"
	"fmt"
	"runtime/debug"
	"testing"

	vk "github.com/pilosa/pilosa/internal/verifkit"
)

type c05State struct {
	r        *vk.Run
	h        *hHist
	b        *Bitmap
	m        hModel // for coverage classes and input predicates only; the oracle is live vs decoded
	log      bytes.Buffer
	base     []byte
	arena    vArena
	touched  map[uint64]bool
	cur      int
	evals    int
	fails    []*hFail
	rebased  bool
	baseHole bool // input predicate: when the current base was written, an addressed container key held no value
}

func (s *c05State) hole() bool {
	for k := range s.touched {
		if len(vRange(s.m.m, k<<16, k<<16+65535)) == 0 && !vContains(s.m.m, k<<16+65535) {
			return true
		}
	}
	return false
}

func (s *c05State) sig(check, target string) string {
	k := "init"
	if s.cur >= 0 && s.cur < len(s.h.Ops) {
		o := &s.h.Ops[s.cur]
		k = o.Kind
		if o.Fmt != "" {
			k += ":" + o.Fmt
		}
	}
	if target != "" {
		target = "->" + target
	}
	if s.baseHole {
		// the snapshot itself is suspect: the signature leads with the predicate under which it was written
		return "baseWrittenWithEmptyCont/" + s.h.Coll + ":" + check
	}
	return check + "/" + s.h.Coll + target + "@" + k
}

func (s *c05State) soft(sig, msg string) {
	for _, g := range s.fails {
		if g.Sig == sig {
			return
		}
	}
	at := s.cur
	if at < 0 {
		at = 0
	}
	s.fails = append(s.fails, &hFail{Sig: sig, Msg: fmt.Sprintf("after op %d: %s", s.cur, msg), At: at})
}

func c05Exec(r *vk.Run, h *hHist) (fs []*hFail) {
	s := &c05State{r: r, h: h, touched: map[uint64]bool{}, cur: -1}
	defer s.arena.release()
	defer func() {
		if r != nil {
			r.Eval(s.evals)
		}
		if e := recover(); e != nil {
			st := string(debug.Stack())
			if len(st) > 1500 {
				st = st[:1500]
			}
			s.soft(s.sig("panic", ""), fmt.Sprintf("panic: %v\n%s", e, st))
			fs = s.fails
		}
	}()
	// initial snapshot (forced encodings), then the live bitmap
	build := vNewColl(h.Coll)
	for _, c := range h.Init.Conts {
		build.Containers.Put(c.Key, vMakeContainer(c.vals, c.enc))
		s.touched[c.Key] = true
	}
	s.m.m = h.Init.vModel()
	var buf bytes.Buffer
	var err error
	if h.Init.Prov == "optimized" {
		_, err = build.WriteTo(&buf)
	} else {
		_, err = build.writeToUnoptimized(&buf)
	}
	if err != nil {
		panic(err)
	}
	s.base = s.arena.guardCopyRO(buf.Bytes())
	s.b = build
	if h.Init.Prov == "decoded" {
		s.b = vNewColl(h.Coll)
		if err := s.b.UnmarshalBinary(s.base); err != nil {
			s.soft(s.sig("decode-error", h.Coll), "decoding the initial snapshot: "+err.Error())
			return s.fails
		}
	}
	s.b.OpWriter = &s.log
	if r != nil {
		r.Cover("init:" + h.Init.Prov)
	}
	s.check(true)
	for i := range h.Ops {
		s.cur = i
		o := &h.Ops[i]
		for _, k := range o.keys() {
			s.touched[k] = true
		}
		s.apply(o)
		if r != nil {
			r.Cover("op:" + h.Coll + ":" + o.Kind)
		}
		small := len(s.base)+s.log.Len() < 48<<10 && len(s.m.m) < 12000
		if small || i%5 == 4 || i == len(h.Ops)-1 || o.Kind == "Rebase" {
			s.check(i == len(h.Ops)-1)
		}
	}
	return s.fails
}

func (s *c05State) cover(c string) {
	if s.r != nil {
		s.r.Cover(c)
	}
}

func (s *c05State) apply(o *hOp) {
	b := s.b
	args := append([]uint64(nil), o.Vals...)
	dup := len(vk.SortedU64(o.Vals)) != len(o.Vals)
	var err error
	switch o.Kind {
	case "Add":
		s.m.addAll(o.Vals)
		_, err = b.Add(args...)
	case "Remove":
		if s.m.removeAll(o.Vals) == 0 {
			s.cover("Remove:absent")
		}
		_, err = b.Remove(args...)
	case "AddN":
		n := s.m.addAll(o.Vals)
		if dup {
			s.cover("AddN:duplicates")
		}
		if n == 0 && len(o.Vals) > 0 {
			s.cover("AddN:noop")
		} else if n < len(vk.SortedU64(o.Vals)) {
			s.cover("AddN:partly-present")
		}
		_, err = b.AddN(args...)
	case "RemoveN":
		n := s.m.removeAll(o.Vals)
		if dup {
			s.cover("RemoveN:duplicates")
		}
		if n == 0 && len(o.Vals) > 0 {
			s.cover("RemoveN:noop")
		} else if n < len(vk.SortedU64(o.Vals)) {
			s.cover("RemoveN:partly-absent")
		}
		_, err = b.RemoveN(args...)
	case "ImportSet", "ImportClear":
		clear := o.Kind == "ImportClear"
		payload := hPayload(o, false) // heap copy: the log keeps whatever bytes the import was given
		before := len(s.m.m)
		if clear {
			s.m.m = vDifference(s.m.m, []uint64(o.Vals))
		} else {
			s.m.m = vUnion(s.m.m, []uint64(o.Vals))
		}
		if before == len(s.m.m) {
			s.cover(o.Kind + ":noop")
		}
		s.cover(o.Kind + ":" + o.Fmt)
		_, _, err = b.ImportRoaringBits(payload, clear, true, o.RowSize)
	case "Optimize":
		b.Optimize()
	case "Rebase":
		var buf bytes.Buffer
		if _, err = b.WriteTo(&buf); err != nil {
			break
		}
		s.baseHole = s.hole()
		s.base = s.arena.guardCopyRO(buf.Bytes())
		s.log.Reset()
		b.SetOps(0, 0)
		s.rebased = true
		if o.Remap {
			s.cover("Rebase:remap")
			if _, rerr := b.RemapRoaringStorage(s.base); rerr != nil {
				s.soft(s.sig("remap-error", ""), "RemapRoaringStorage onto the bytes just written: "+rerr.Error())
			}
		} else {
			s.cover("Rebase:plain")
		}
	default:
		panic("c05: unknown op " + o.Kind)
	}
	if err != nil {
		s.soft(s.sig("op-error", ""), fmt.Sprintf("%s returned error %v", o.Kind, err))
	}
}

// check decodes base||log into fresh bitmaps of both collections.
func (s *c05State) check(last bool) {
	lops, lopN := s.b.Ops()
	data := make([]byte, 0, len(s.base)+s.log.Len())
	data = append(append(data, s.base...), s.log.Bytes()...)
	if s.rebased && s.log.Len() > 0 {
		s.cover("check:log-after-rebase")
	}
	for _, coll := range []string{"slice", "btree"} {
		var a vArena
		nb := vNewColl(coll)
		s.evals++
		if err := nb.UnmarshalBinary(a.guardCopy(data)); err != nil {
			s.soft(s.sig("decode-error", coll), fmt.Sprintf("UnmarshalBinary(snapshot %d bytes || log %d bytes) = %v", len(s.base), s.log.Len(), err))
			a.release()
			continue
		}
		s.evals += 2
		if !hSameSet(nb, s.b) {
			got, live := nb.Slice(), s.b.Slice()
			s.soft(s.sig("set", coll), fmt.Sprintf("decoded set differs from live set: %s; decoded %s live %s", vk.DiffU64(got, live), vk.Brief(got), vk.Brief(live)))
		}
		if ops, opN := nb.Ops(); ops != lops || opN != lopN {
			s.soft(s.sig("ops", coll), fmt.Sprintf("decoded Ops()=(%d,%d), live Ops()=(%d,%d)", ops, opN, lops, lopN))
		}
		a.release()
	}
}

func TestVerifC05(t *testing.T) {
	r := vk.Start(t, "C05")
	defer r.Finish()

	for _, coll := range []string{"slice", "btree"} {
		for _, k := range hKinds(hWeightsC05) {
			r.Expect("op:" + coll + ":" + k)
		}
	}
	r.Expect("AddN:duplicates", "AddN:noop", "AddN:partly-present", "RemoveN:duplicates", "RemoveN:noop", "RemoveN:partly-absent", "Remove:absent",
		"ImportSet:noop", "ImportClear:noop", "ImportSet:pilosa", "ImportSet:official", "ImportClear:pilosa", "ImportClear:official",
		"Rebase:remap", "Rebase:plain", "check:log-after-rebase", "init:fresh", "init:optimized", "init:decoded")

	shrunk := map[string]int{}
	report := func(id string, h *hHist, fs []*hFail) {
		for _, f := range fs {
			f := f
			shrunk[f.Sig]++
			if shrunk[f.Sig] > 2 {
				r.Fail(f.Sig, id, f.Msg, nil)
				continue
			}
			sh, sf := hShrink(h, f, func(c *hHist) *hFail {
				for _, g := range c05Exec(nil, c) {
					if g.Sig == f.Sig {
						return g
					}
				}
				return nil
			}, 80)
			r.Fail(sf.Sig, id, sf.Msg, sh)
		}
	}

	r.Directed("witnesses", func(id string) {
		for _, coll := range []string{"slice", "btree"} {
			for _, prov := range []string{"fresh", "decoded"} {
				hs := []*hHist{
					// batch with duplicates and present values: the log keeps only the changed prefix of the reordered slice
					{Coll: coll, Ops: []hOp{{Kind: "AddN", Vals: hVals{7, 3, 7, 65536, 3}}, {Kind: "AddN", Vals: hVals{3, 9, 9, 7}}, {Kind: "RemoveN", Vals: hVals{9, 100, 9, 3}}}},
					// no-op imports and imports over a rebase
					{Coll: coll, Ops: []hOp{hImportOp("ImportSet", "pilosa", 0, []uint16{1, 2}), hImportOp("ImportSet", "pilosa", 0, []uint16{1, 2}), hImportOp("ImportClear", "official", 0, []uint16{7}),
						{Kind: "Rebase", Remap: true}, hImportOp("ImportClear", "official", 0, []uint16{2}), {Kind: "Add", Vals: hVals{5}}}},
					// re-encoding after a container was emptied
					{Coll: coll, Ops: []hOp{{Kind: "Add", Vals: hVals{5}}, {Kind: "Add", Vals: hVals{65536 + 7}}, {Kind: "Remove", Vals: hVals{65536 + 7}}, {Kind: "Rebase"}, {Kind: "Add", Vals: hVals{9}}}},
				}
				for i, h := range hs {
					h.Init = vBitmapSpec{Coll: coll, Prov: prov}
					r.Distinct(vk.Hash64("w", coll, prov, i), true)
					if f := c05Exec(r, h); len(f) > 0 {
						report(id, h, f)
					}
				}
			}
		}
	})

	n := r.N(3000, 120000)
	r.Cases("hist", n, func(i int, id string, rng *vk.Rand) {
		h := hGenerate(rng, true)
		if r.WantSample() {
			r.Sample(h)
		}
		// non-trivial: at least two logged mutations
		logged := 0
		for k := range h.Ops {
			switch h.Ops[k].Kind {
			case "Optimize", "Rebase":
			default:
				logged++
			}
		}
		r.Distinct(h.hash(), logged >= 2)
		if f := c05Exec(r, h); len(f) > 0 {
			report(id, h, f)
		}
	})
}
