package roaring

// C01 — Roaring bitmap reads and set operations match set semantics.
// Differential monitor: every read and every set operation on real Bitmaps
// (all forced container encodings, provenances and both container
// collections) against a sorted-slice model of the mathematical set.

import (
	"fmt"
	"testing"

	vk "github.com/pilosa/pilosa/internal/verifkit"
)

type c01Case struct {
	Specs []vBitmapSpec `json:"operands"`
}

func c01Sig(op string, specs []vBitmapSpec, idx ...int) string {
	// signature = operation + encodings of the operand containers involved (input only)
	s := op
	for _, i := range idx {
		if i < len(specs) {
			encs := map[string]bool{}
			for _, c := range specs[i].Conts {
				encs[c.Enc] = true
			}
			t := ""
			for _, e := range []string{"array", "bitmap", "run"} {
				if encs[e] {
					t += e[:1]
				}
			}
			s += "/" + t
		}
	}
	return s
}

func TestVerifC01(t *testing.T) {
	r := vk.Start(t, "C01")
	defer r.Finish()

	ops := []string{"Contains", "Count", "CountRange", "Min", "Max", "Any", "Slice", "SliceRange", "ForEachRange", "Seek",
		"OffsetRange", "Union", "UnionN", "UnionInPlace", "Intersect", "IntersectionCount", "Difference", "Xor", "Shift", "Flip"}
	for _, o := range ops {
		r.Expect("op:" + o)
	}
	for _, a := range []string{"array", "bitmap", "run"} {
		for _, b := range []string{"array", "bitmap", "run"} {
			for _, o := range []string{"Union", "Intersect", "IntersectionCount", "Difference", "Xor", "UnionInPlace"} {
				r.Expect("pair:" + o + ":" + a + "/" + b)
			}
		}
		for _, o := range []string{"CountRange", "Seek", "Shift", "Max", "Contains"} {
			r.Expect("unary:" + o + ":" + a)
		}
	}

	// ---- directed kernel matrix: every ordered encoding pair x boundary shapes, single container
	r.Directed("kernel-matrix", func(id string) {
		rng := vk.NewRand(vk.Mix(r.Seed, 0xC01))
		shapes := []string{"single0", "single65535", "edges", "arrSmall", "arr4096", "dense4097", "alt", "run1", "run2", "runsMany", "runTouch0", "runTouchMax", "full", "hole0", "holeMax", "holeMid", "blocky"}
		for _, sa := range shapes {
			for _, sb := range shapes {
				va, vb := vShape(rng, sa), vShape(rng, sb)
				for _, ea := range vEncodings(va) {
					for _, eb := range vEncodings(vb) {
						specs := []vBitmapSpec{
							{Coll: "slice", Prov: "fresh", Conts: []vContSpec{{Key: 1, Shape: sa, Enc: vEncName(ea), N: len(va), enc: ea, vals: va}}},
							{Coll: "slice", Prov: "fresh", Conts: []vContSpec{{Key: 1, Shape: sb, Enc: vEncName(eb), N: len(vb), enc: eb, vals: vb}}},
						}
						c01Binary(r, id, rng, specs, true)
					}
				}
			}
		}
	})

	// ---- directed carry matrix for Shift: carry out of container k into every shape/encoding of container k+1
	r.Directed("shift-carry-matrix", func(id string) {
		rng := vk.NewRand(vk.Mix(r.Seed, 0x5417))
		lows := []string{"single65535", "edges", "full", "holeMid", "runTouchMax", "dense65535"}
		highs := append([]string{}, vShapeNames...)
		for _, sl := range lows {
			for _, sh := range highs {
				vl, vh := vShape(rng, sl), vShape(rng, sh)
				if sh == "arr4096" || sh == "arr4095" {
					// make sure neither 0 nor 65535 is present, so the shifted array keeps its size and receives the carry
					var f []uint16
					for _, v := range vh {
						if v != 0 && v != 65535 {
							f = append(f, v)
						}
					}
					for len(f) < len(vh) {
						f = vShape(rng, sh)
						var g []uint16
						for _, v := range f {
							if v != 0 && v != 65535 {
								g = append(g, v)
							}
						}
						f = g
					}
					vh = f
				}
				for _, el := range vEncodings(vl) {
					for _, eh := range vEncodings(vh) {
						for _, coll := range []string{"slice", "btree"} {
							specs := []vBitmapSpec{{Coll: coll, Prov: "fresh", Conts: []vContSpec{
								{Key: 5, Shape: sl, Enc: vEncName(el), N: len(vl), enc: el, vals: vl},
								{Key: 6, Shape: sh, Enc: vEncName(eh), N: len(vh), enc: eh, vals: vh}}}}
							var arena vArena
							b := vBuild(specs[0], &arena)
							model := specs[0].vModel()
							var want []uint64
							for _, v := range model {
								want = append(want, v+1)
							}
							r.Distinct(vk.Hash64("shift", sl, el, sh, eh, coll), true)
							r.Guard(func() string { return c01Sig("panic-Shift", specs, 0) }, id, func() interface{} { return c01Case{Specs: specs} }, func() {
								sb, err := b.Shift(1)
								if err != nil {
									r.Fail("Shift-error", id, err.Error(), c01Case{Specs: specs})
									return
								}
								c01Check(r, id, "Shift", specs, []int{0}, sb.Slice(), want, "carry matrix")
								c01CheckN(r, id, "Shift", specs, []int{0}, sb.Count(), uint64(len(want)), "Count, carry matrix")
								c01ResultOK(r, id, "Shift", specs, sb)
							})
							arena.release()
						}
					}
				}
			}
		}
	})

	n := r.N(700, 28000)
	r.Cases("rand", n, func(i int, id string, rng *vk.Rand) {
		nops := 1 + rng.Intn(3)
		keys := vKeysLow
		if rng.Chance(1, 3) {
			keys = vKeysAll
		}
		shapes := vShapeNames
		specs := make([]vBitmapSpec, nops)
		for k := range specs {
			specs[k] = vGenSpec(rng, keys, 3, shapes)
		}
		if r.WantSample() {
			r.Sample(c01Case{Specs: specs})
		}
		c01Unary(r, id, rng, specs)
		if len(specs) >= 2 {
			c01Binary(r, id, rng, specs, false)
		} else {
			specs = append(specs, vGenSpec(rng, keys, 3, shapes))
			c01Binary(r, id, rng, specs, false)
		}
	})
}

func c01Check(r *vk.Run, id, op string, specs []vBitmapSpec, idx []int, got, want []uint64, extra string) {
	r.Eval(1)
	r.Cover("op:" + op)
	if !vk.EqualU64(got, want) {
		r.Fail(c01Sig(op, specs, idx...), id, fmt.Sprintf("%s %s: %s; got %s want %s", op, extra, vk.DiffU64(got, want), vk.Brief(got), vk.Brief(want)), c01Case{Specs: specs})
	}
}

func c01CheckN(r *vk.Run, id, op string, specs []vBitmapSpec, idx []int, got, want uint64, extra string) {
	r.Eval(1)
	r.Cover("op:" + op)
	if got != want {
		r.Fail(c01Sig(op, specs, idx...), id, fmt.Sprintf("%s %s: got %d want %d", op, extra, got, want), c01Case{Specs: specs})
	}
}

// c01Unary checks every read on operand 0.
func c01Unary(r *vk.Run, id string, rng *vk.Rand, specs []vBitmapSpec) {
	var arena vArena
	defer arena.release()
	s := specs[0]
	model := s.vModel()
	var b *Bitmap
	if r.Guard(func() string { return "build" }, id, func() interface{} { return c01Case{Specs: specs} }, func() { b = vBuild(s, &arena) }) {
		return
	}
	probes := vProbes(rng, model)
	nontrivial := false
	for _, c := range s.Conts {
		if c.N > 0 {
			nontrivial = true
			r.Cover("unary:CountRange:" + c.Enc)
			r.Cover("unary:Seek:" + c.Enc)
			r.Cover("unary:Max:" + c.Enc)
			r.Cover("unary:Contains:" + c.Enc)
			r.Cover("shape:" + c.Shape + ":" + c.Enc)
		}
	}
	r.Cover("prov:" + s.Prov + ":" + s.Coll)
	r.Distinct(vk.Hash64("u", id), nontrivial)
	idx := []int{0}
	wit := func() interface{} { return c01Case{Specs: specs} }

	r.Guard(func() string { return c01Sig("panic-read", specs, 0) }, id, wit, func() {
		// Contains
		for _, p := range probes {
			r.Eval(1)
			if got, want := b.Contains(p), vContains(model, p); got != want {
				r.Fail(c01Sig("Contains", specs, 0), id, fmt.Sprintf("Contains(%d): got %v want %v", p, got, want), wit())
			}
		}
		r.Cover("op:Contains")
		c01CheckN(r, id, "Count", specs, idx, b.Count(), uint64(len(model)), "")
		// Min / Max / Any
		mn, ok := b.Min()
		if len(model) == 0 {
			c01CheckN(r, id, "Min", specs, idx, b2u(ok), 0, "ok on empty")
			c01CheckN(r, id, "Max", specs, idx, b.Max(), 0, "empty")
		} else {
			c01CheckN(r, id, "Min", specs, idx, mn, model[0], "")
			c01CheckN(r, id, "Min", specs, idx, b2u(ok), 1, "ok")
			c01CheckN(r, id, "Max", specs, idx, b.Max(), model[len(model)-1], "")
		}
		c01CheckN(r, id, "Any", specs, idx, b2u(b.Any()), b2u(len(model) > 0), "")
		// Slice, and the container-level read path
		got := b.Slice()
		c01Check(r, id, "Slice", specs, idx, got, model, "")
		c01Check(r, id, "Slice", specs, idx, vSliceContainers(b), model, "container view")
		// range reads on probe pairs
		npairs := 24
		for k := 0; k < npairs; k++ {
			a, c := probes[rng.Intn(len(probes))], probes[rng.Intn(len(probes))]
			if a > c {
				a, c = c, a
			}
			want := vRange(model, a, c)
			c01CheckN(r, id, "CountRange", specs, idx, b.CountRange(a, c), uint64(len(want)), fmt.Sprintf("[%d,%d)", a, c))
			if len(want) <= 70000 {
				c01Check(r, id, "SliceRange", specs, idx, b.SliceRange(a, c), want, fmt.Sprintf("[%d,%d)", a, c))
				var fe []uint64
				b.ForEachRange(a, c, func(v uint64) { fe = append(fe, v) })
				c01Check(r, id, "ForEachRange", specs, idx, fe, want, fmt.Sprintf("[%d,%d)", a, c))
			}
		}
		// Seek + Next from probes
		for k := 0; k < 16; k++ {
			p := probes[rng.Intn(len(probes))]
			it := b.Iterator()
			it.Seek(p)
			var gotN []uint64
			for j := 0; j < 5; j++ {
				v, eof := it.Next()
				if eof {
					break
				}
				gotN = append(gotN, v)
			}
			want := vRange(model, p, ^uint64(0))
			if vContains(model, ^uint64(0)) && p <= ^uint64(0) {
				want = append(append([]uint64(nil), want...), ^uint64(0))
			}
			if len(want) > 5 {
				want = want[:5]
			}
			c01Check(r, id, "Seek", specs, idx, gotN, want, fmt.Sprintf("Seek(%d)+5xNext", p))
		}
		// OffsetRange: container-aligned
		for k := 0; k < 4; k++ {
			ks := []uint64{0, 1, 2, 3, 4, 0xFFFF, 0x10000, 0x10001, 1 << 32, maxContainerKey - 1, maxContainerKey}
			s0, e0 := ks[rng.Intn(len(ks))], ks[rng.Intn(len(ks))]
			if s0 > e0 {
				s0, e0 = e0, s0
			}
			off := ks[rng.Intn(len(ks))]
			if off+(e0-s0) > maxContainerKey {
				off = 0
			}
			ob := b.OffsetRange(off<<16, s0<<16, e0<<16)
			var want []uint64
			for _, v := range vRange(model, s0<<16, e0<<16) {
				want = append(want, v-(s0<<16)+(off<<16))
			}
			c01Check(r, id, "OffsetRange", specs, idx, ob.Slice(), want, fmt.Sprintf("off=%d<<16 [%d<<16,%d<<16)", off, s0, e0))
			c01Check(r, id, "Slice", specs, idx, b.Slice(), model, "source after OffsetRange")
		}
		// Shift
		if sb, err := b.Shift(1); err == nil {
			var want []uint64
			for _, v := range model {
				if v != ^uint64(0) {
					want = append(want, v+1)
				}
			}
			c01Check(r, id, "Shift", specs, idx, sb.Slice(), want, "Shift(1)")
			c01CheckN(r, id, "Shift", specs, idx, sb.Count(), uint64(len(want)), "Count after Shift(1)")
			for _, c := range s.Conts {
				r.Cover("unary:Shift:" + c.Enc)
			}
		} else {
			r.Fail("Shift-error", id, "Shift(1) returned error "+err.Error(), wit())
		}
		// Flip on a small, data-derived window (Flip is O(range))
		for k := 0; k < 3; k++ {
			a := probes[rng.Intn(len(probes))]
			w := uint64(rng.Intn(300))
			if rng.Chance(1, 8) {
				w = 65536 + uint64(rng.Intn(100))
			}
			e := a + w
			if e < a {
				e = ^uint64(0) // window clipped at the top of the domain (fixed: Flip used to loop forever here)
			}
			fb := b.Flip(a, e)
			inRange := vRange(model, a, e+1)
			if e == ^uint64(0) {
				inRange = append([]uint64(nil), vRange(model, a, e)...)
				if vContains(model, e) {
					inRange = append(inRange, e)
				}
			}
			var want []uint64
			want = append(want, vRange(model, 0, a)...)
			j := 0
			for v := a; ; v++ {
				for j < len(inRange) && inRange[j] < v {
					j++
				}
				if !(j < len(inRange) && inRange[j] == v) {
					want = append(want, v)
				}
				if v == e {
					break
				}
			}
			if e != ^uint64(0) {
				want = append(want, vRange(model, e+1, ^uint64(0))...)
				if vContains(model, ^uint64(0)) {
					want = append(want, ^uint64(0))
				}
			}
			c01Check(r, id, "Flip", specs, idx, fb.Slice(), want, fmt.Sprintf("[%d,%d]", a, e))
		}
		// self-consistency
		r.Eval(1)
		if err := b.Check(); err != nil {
			r.Fail(c01Sig("Check", specs, 0), id, "Check() on operand: "+err.Error(), wit())
		}
	})
}

func b2u(b bool) uint64 {
	if b {
		return 1
	}
	return 0
}

// c01Binary checks the set operations over operands 0..n-1.
func c01Binary(r *vk.Run, id string, rng *vk.Rand, specs []vBitmapSpec, matrix bool) {
	var arena vArena
	defer arena.release()
	models := make([][]uint64, len(specs))
	bms := make([]*Bitmap, len(specs))
	wit := func() interface{} { return c01Case{Specs: specs} }
	if r.Guard(func() string { return "build" }, id, wit, func() {
		for i, s := range specs {
			models[i] = s.vModel()
			bms[i] = vBuild(s, &arena)
		}
	}) {
		return
	}
	a, b := bms[0], bms[1]
	ma, mb := models[0], models[1]
	// coverage: ordered encoding pairs on shared keys
	nontrivial := false
	for _, ca := range specs[0].Conts {
		for _, cb := range specs[1].Conts {
			if ca.Key == cb.Key && ca.N > 0 && cb.N > 0 && specs[0].Prov != "built" && specs[1].Prov != "built" && specs[0].Prov != "optimized" && specs[1].Prov != "optimized" {
				nontrivial = true
				for _, o := range []string{"Union", "Intersect", "IntersectionCount", "Difference", "Xor", "UnionInPlace"} {
					r.Cover("pair:" + o + ":" + ca.Enc + "/" + cb.Enc)
				}
			}
		}
	}
	h := vk.Hash64("b", id)
	if matrix {
		h = vk.Hash64("m", specs[0].Conts[0].Shape, specs[0].Conts[0].Enc, specs[1].Conts[0].Shape, specs[1].Conts[0].Enc)
	}
	r.Distinct(h, nontrivial)
	idx := []int{0, 1}
	r.Guard(func() string { return c01Sig("panic-binary", specs, 0, 1) }, id, wit, func() {
		res := a.Intersect(b)
		want := vIntersect(ma, mb)
		c01Check(r, id, "Intersect", specs, idx, res.Slice(), want, "")
		c01CheckN(r, id, "Intersect", specs, idx, res.Count(), uint64(len(want)), "Count of result")
		c01ResultOK(r, id, "Intersect", specs, res)
		c01CheckN(r, id, "IntersectionCount", specs, idx, a.IntersectionCount(b), uint64(len(want)), "")

		res = a.Union(b)
		want = vUnion(ma, mb)
		c01Check(r, id, "Union", specs, idx, res.Slice(), want, "")
		c01CheckN(r, id, "Union", specs, idx, res.Count(), uint64(len(want)), "Count of result")
		c01ResultOK(r, id, "Union", specs, res)

		res = a.Difference(b)
		want = vDifference(ma, mb)
		c01Check(r, id, "Difference", specs, idx, res.Slice(), want, "")
		c01CheckN(r, id, "Difference", specs, idx, res.Count(), uint64(len(want)), "Count of result")
		c01ResultOK(r, id, "Difference", specs, res)

		res = a.Xor(b)
		want = vXor(ma, mb)
		c01Check(r, id, "Xor", specs, idx, res.Slice(), want, "")
		c01CheckN(r, id, "Xor", specs, idx, res.Count(), uint64(len(want)), "Count of result")
		c01ResultOK(r, id, "Xor", specs, res)

		// n-ary union
		if len(bms) > 2 || !matrix {
			all := ma
			for _, m := range models[1:] {
				all = vUnion(all, m)
			}
			res = a.Union(bms[1:]...)
			nidx := make([]int, len(bms))
			for i := range nidx {
				nidx[i] = i
			}
			c01Check(r, id, "UnionN", specs, nidx, res.Slice(), all, fmt.Sprintf("%d operands", len(bms)))
			c01CheckN(r, id, "UnionN", specs, nidx, res.Count(), uint64(len(all)), "Count of result")
			c01ResultOK(r, id, "UnionN", specs, res)
			// Union with an empty operand list and with itself
			res = a.Union()
			c01Check(r, id, "UnionN", specs, []int{0}, res.Slice(), ma, "no others")
			res = a.Union(a, a)
			c01Check(r, id, "UnionN", specs, []int{0}, res.Slice(), ma, "self twice")
		}

		// operands unchanged by the non-in-place operations
		for i := range bms {
			c01Check(r, id, "Slice", specs, []int{i}, bms[i].Slice(), models[i], fmt.Sprintf("operand %d after non-in-place ops", i))
			c01CheckN(r, id, "Count", specs, []int{i}, bms[i].Count(), uint64(len(models[i])), fmt.Sprintf("operand %d after non-in-place ops", i))
		}

		// in-place union on a private copy of a (Clone), others untouched afterwards
		tgt := a.Clone()
		tgt.UnionInPlace(bms[1:]...)
		all := ma
		for _, m := range models[1:] {
			all = vUnion(all, m)
		}
		c01Check(r, id, "UnionInPlace", specs, idx, tgt.Slice(), all, "on Clone of operand 0")
		// a bitmap united in place with itself (alone or among others) is still itself
		self := a.Clone()
		self.UnionInPlace(self)
		c01Check(r, id, "UnionInPlace", specs, []int{0}, self.Slice(), ma, "x.UnionInPlace(x)")
		c01CheckN(r, id, "UnionInPlace", specs, []int{0}, self.Count(), uint64(len(ma)), "Count after x.UnionInPlace(x)")
		c01CheckN(r, id, "UnionInPlace", specs, idx, tgt.Count(), uint64(len(all)), "Count after")
		c01ResultOK(r, id, "UnionInPlace", specs, tgt)
		for i := range bms {
			c01Check(r, id, "Slice", specs, []int{i}, bms[i].Slice(), models[i], fmt.Sprintf("operand %d after UnionInPlace on clone", i))
		}
	})
}

func c01ResultOK(r *vk.Run, id, op string, specs []vBitmapSpec, res *Bitmap) {
	r.Eval(1)
	if err := res.Check(); err != nil {
		r.Fail(c01Sig(op+"-Check", specs, 0, 1), id, op+" result fails Check(): "+err.Error(), c01Case{Specs: specs})
	}
}
