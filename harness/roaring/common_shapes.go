package roaring

// Shared generators and the reference set model for the roaring harnesses
// (C01..C06). Compiled into package roaring through the overlay.

import (
	"bytes"
	"fmt"
	"sort"
	"syscall"
	"unsafe"

	vk "github.com/pilosa/pilosa/internal/verifkit"
)

// ---------------------------------------------------------------- shapes

// vShapeNames lists the container shapes (per 2^16 block) the generators draw
// from. Each yields a sorted, duplicate-free []uint16.
var vShapeNames = []string{
	"single0", "single65535", "edges", "arr1", "arr2", "arr5", "arr6", "arrSmall", "arr4095", "arr4096", "arr4097",
	"dense4097", "dense30000", "dense65535", "alt", "altOdd", "run1", "run2", "run3", "runsMany", "run2047", "run2048", "run2049",
	"runTouch0", "runTouchMax", "full", "hole0", "holeMid", "holeMax", "blocky",
}

func vRandSet(r *vk.Rand, n int) []uint16 {
	if n >= 65536 {
		n = 65536
	}
	if n > 40000 {
		// choose the complement
		drop := map[uint16]bool{}
		for len(drop) < 65536-n {
			drop[uint16(r.Intn(65536))] = true
		}
		out := make([]uint16, 0, n)
		for i := 0; i < 65536; i++ {
			if !drop[uint16(i)] {
				out = append(out, uint16(i))
			}
		}
		return out
	}
	seen := make(map[uint16]struct{}, n)
	for len(seen) < n {
		seen[uint16(r.Intn(65536))] = struct{}{}
	}
	out := make([]uint16, 0, n)
	for v := range seen {
		out = append(out, v)
	}
	sort.Slice(out, func(i, j int) bool { return out[i] < out[j] })
	return out
}

// vRuns builds nruns runs with random gaps/lengths that fit in a container.
func vRuns(r *vk.Rand, nruns int, touch0, touchMax bool) []uint16 {
	// distribute: each run needs >=1 value and >=1 gap before the next run
	if nruns < 1 {
		nruns = 1
	}
	if nruns > 32768 {
		nruns = 32768
	}
	budget := 65536 - (2*nruns - 1) // slack to distribute over lengths and gaps
	lens := make([]int, nruns)
	gaps := make([]int, nruns+1) // gaps[0] before first run, gaps[nruns] after last
	for i := range lens {
		lens[i] = 1
	}
	for i := 1; i < nruns; i++ {
		gaps[i] = 1
	}
	// hand out slack in random chunks
	for budget > 0 {
		chunk := 1 + r.Intn(1+budget/(nruns+1)*2+1)
		if chunk > budget {
			chunk = budget
		}
		if r.Bool() {
			lens[r.Intn(nruns)] += chunk
		} else {
			gaps[r.Intn(nruns+1)] += chunk
		}
		budget -= chunk
	}
	if touch0 {
		gaps[nruns] += gaps[0]
		gaps[0] = 0
	}
	if touchMax {
		gaps[0] += gaps[nruns]
		gaps[nruns] = 0
		if touch0 {
			lens[nruns-1] += gaps[0]
			gaps[0] = 0
		}
	}
	out := make([]uint16, 0, 65536)
	pos := gaps[0]
	for i := 0; i < nruns; i++ {
		for k := 0; k < lens[i]; k++ {
			out = append(out, uint16(pos+k))
		}
		pos += lens[i]
		if i+1 < nruns {
			pos += gaps[i+1]
		}
	}
	return out
}

func vShape(r *vk.Rand, name string) []uint16 {
	switch name {
	case "single0":
		return []uint16{0}
	case "single65535":
		return []uint16{65535}
	case "edges":
		return []uint16{0, 65535}
	case "arr1":
		return vRandSet(r, 1)
	case "arr2":
		return vRandSet(r, 2)
	case "arr5":
		return vRandSet(r, 5) // stashed-array size
	case "arr6":
		return vRandSet(r, 6)
	case "arrSmall":
		return vRandSet(r, 3+r.Intn(60))
	case "arr4095":
		return vRandSet(r, 4095)
	case "arr4096":
		return vRandSet(r, 4096)
	case "arr4097":
		return vRandSet(r, 4097)
	case "dense4097":
		return vRandSet(r, 4097)
	case "dense30000":
		return vRandSet(r, 30000)
	case "dense65535":
		return vRandSet(r, 65535)
	case "alt":
		out := make([]uint16, 0, 32768)
		for i := 0; i < 65536; i += 2 {
			out = append(out, uint16(i))
		}
		return out
	case "altOdd":
		out := make([]uint16, 0, 32768)
		for i := 1; i < 65536; i += 2 {
			out = append(out, uint16(i))
		}
		return out
	case "run1":
		return vRuns(r, 1, false, false)
	case "run2":
		return vRuns(r, 2, r.Bool(), r.Bool())
	case "run3":
		return vRuns(r, 3, r.Bool(), r.Bool())
	case "runsMany":
		return vRuns(r, 4+r.Intn(200), r.Bool(), r.Bool())
	case "run2047":
		return vRuns(r, 2047, r.Bool(), r.Bool())
	case "run2048":
		return vRuns(r, 2048, r.Bool(), r.Bool())
	case "run2049":
		return vRuns(r, 2049, r.Bool(), r.Bool())
	case "runTouch0":
		return vRuns(r, 1+r.Intn(4), true, false)
	case "runTouchMax":
		return vRuns(r, 1+r.Intn(4), false, true)
	case "full":
		out := make([]uint16, 65536)
		for i := range out {
			out[i] = uint16(i)
		}
		return out
	case "hole0", "holeMid", "holeMax":
		hole := 0
		if name == "holeMid" {
			hole = 1 + r.Intn(65534)
		} else if name == "holeMax" {
			hole = 65535
		}
		out := make([]uint16, 0, 65535)
		for i := 0; i < 65536; i++ {
			if i != hole {
				out = append(out, uint16(i))
			}
		}
		return out
	case "blocky":
		// word-aligned blocks: exercises bitmap word boundaries
		out := []uint16{}
		for w := 0; w < 1024; w++ {
			if r.Intn(5) == 0 {
				lo, hi := 0, 63
				if r.Bool() {
					lo = r.Intn(64)
				}
				if r.Bool() {
					hi = lo + r.Intn(64-lo)
				}
				for b := lo; b <= hi; b++ {
					out = append(out, uint16(w*64+b))
				}
			}
		}
		if len(out) == 0 {
			out = []uint16{63, 64}
		}
		return out
	}
	panic("unknown shape " + name)
}

func vCountRuns(vals []uint16) int {
	n := 0
	for i, v := range vals {
		if i == 0 || vals[i-1]+1 != v {
			n++
		}
	}
	return n
}

func vToRuns(vals []uint16) []interval16 {
	var out []interval16
	for i, v := range vals {
		if i == 0 || vals[i-1]+1 != v {
			out = append(out, interval16{start: v, last: v})
		} else {
			out[len(out)-1].last = v
		}
	}
	return out
}

// vEncodings returns the container encodings in which vals can legitimately
// exist: array up to ArrayMaxSize values, bitmap and run always (run
// containers grow past runMaxSize through runAdd; bitmap containers shrink
// below ArrayMaxSize through set operations and explicit Pilosa-format types).
func vEncodings(vals []uint16) []byte {
	encs := []byte{containerBitmap, containerRun}
	if len(vals) <= ArrayMaxSize {
		encs = append(encs, containerArray)
	}
	return encs
}

// vMakeContainer materialises vals in the forced encoding. Storage is freshly
// allocated (never shared with vals).
func vMakeContainer(vals []uint16, enc byte) *Container {
	switch enc {
	case containerArray:
		return NewContainerArrayCopy(vals)
	case containerBitmap:
		bm := make([]uint64, bitmapN)
		for _, v := range vals {
			bm[v/64] |= 1 << (v % 64)
		}
		return NewContainerBitmapN(bm, int32(len(vals)))
	case containerRun:
		return NewContainerRunCopy(vToRuns(vals))
	}
	panic("bad enc")
}

func vEncName(enc byte) string {
	switch enc {
	case containerArray:
		return "array"
	case containerBitmap:
		return "bitmap"
	case containerRun:
		return "run"
	}
	return "nil"
}

// ---------------------------------------------------------------- bitmap specs

// vKeys: container keys the generators use. Small on purpose (collisions),
// with the extremes the property names.
var vKeysLow = []uint64{0, 1, 2, 3}
var vKeysAll = []uint64{0, 1, 2, 3, 0xFFFF, 0x10000, 1 << 32, maxContainerKey - 1, maxContainerKey}

type vContSpec struct {
	Key   uint64 `json:"key"`
	Shape string `json:"shape"`
	Enc   string `json:"enc"`
	N     int    `json:"n"`
	enc   byte
	vals  []uint16
}

type vBitmapSpec struct {
	Coll  string      `json:"coll"` // slice | btree
	Prov  string      `json:"prov"` // fresh | optimized | decoded | frozen | cloned | built
	Conts []vContSpec `json:"conts"`
}

var vProvs = []string{"fresh", "optimized", "decoded", "frozen", "cloned", "built"}

// vGenSpec draws a bitmap spec. keys: candidate keys; maxConts: upper bound.
func vGenSpec(r *vk.Rand, keys []uint64, maxConts int, shapes []string) vBitmapSpec {
	s := vBitmapSpec{Coll: "slice", Prov: vProvs[r.Intn(len(vProvs))]}
	if r.Bool() {
		s.Coll = "btree"
	}
	n := r.Intn(maxConts + 1)
	if n == 0 && r.Chance(3, 4) {
		n = 1
	}
	perm := r.Perm(len(keys))
	if n > len(keys) {
		n = len(keys)
	}
	ks := make([]uint64, 0, n)
	for i := 0; i < n; i++ {
		ks = append(ks, keys[perm[i]])
	}
	sort.Slice(ks, func(i, j int) bool { return ks[i] < ks[j] })
	for _, k := range ks {
		sh := shapes[r.Intn(len(shapes))]
		vals := vShape(r, sh)
		encs := vEncodings(vals)
		enc := encs[r.Intn(len(encs))]
		s.Conts = append(s.Conts, vContSpec{Key: k, Shape: sh, Enc: vEncName(enc), N: len(vals), enc: enc, vals: vals})
	}
	return s
}

// vModel returns the sorted value list a spec denotes.
func (s vBitmapSpec) vModel() []uint64 {
	var out []uint64
	for _, c := range s.Conts {
		for _, v := range c.vals {
			out = append(out, c.Key<<16|uint64(v))
		}
	}
	return out
}

func vNewColl(coll string) *Bitmap {
	if coll == "btree" {
		return NewBTreeBitmap()
	}
	return NewBitmap()
}

// vKeep keeps decoded buffers (guard-page mappings) alive for the life of the
// process; they are small in number per case and released by vRelease.
type vArena struct{ maps [][]byte }

func (a *vArena) release() {
	for _, m := range a.maps {
		syscall.Munmap(m)
	}
	a.maps = nil
}

// vGuardCopy returns a copy of data that ends exactly at a PROT_NONE page, so
// that reading even one byte past the end is a deterministic SIGSEGV.
func (a *vArena) guardCopy(data []byte) []byte {
	ps := syscall.Getpagesize()
	npages := (len(data)+ps-1)/ps + 1
	m, err := syscall.Mmap(-1, 0, npages*ps, syscall.PROT_READ|syscall.PROT_WRITE, syscall.MAP_ANON|syscall.MAP_PRIVATE)
	if err != nil {
		panic(err)
	}
	if err := syscall.Mprotect(m[(npages-1)*ps:], syscall.PROT_NONE); err != nil {
		panic(err)
	}
	a.maps = append(a.maps, m)
	end := (npages - 1) * ps
	out := m[end-len(data) : end : end]
	copy(out, data)
	return out
}

// vBuild materialises a spec as a real Bitmap with the forced encodings and
// the requested provenance. For "decoded" the bitmap's containers are mapped
// over a guard-page buffer held by the arena.
func vBuild(s vBitmapSpec, a *vArena) *Bitmap {
	b := vNewColl(s.Coll)
	if s.Prov == "built" {
		// through the public mutation API only (encodings are whatever the code picks)
		for _, c := range s.Conts {
			vals := make([]uint64, len(c.vals))
			for i, v := range c.vals {
				vals[i] = c.Key<<16 | uint64(v)
			}
			b.DirectAddN(vals...)
		}
		return b
	}
	for _, c := range s.Conts {
		b.Containers.Put(c.Key, vMakeContainer(c.vals, c.enc))
	}
	switch s.Prov {
	case "fresh":
	case "optimized":
		b.Optimize()
	case "frozen":
		b = b.Freeze()
	case "cloned":
		b = b.Clone()
	case "decoded":
		var buf bytes.Buffer
		if _, err := b.writeToUnoptimized(&buf); err != nil {
			panic(err)
		}
		data := a.guardCopy(buf.Bytes())
		nb := vNewColl(s.Coll)
		if err := nb.UnmarshalBinary(data); err != nil {
			panic(fmt.Sprintf("decode of own encoding failed: %v", err))
		}
		b = nb
	}
	return b
}

// vTypes returns the actual container type per key of a live bitmap.
func vTypes(b *Bitmap) string {
	out := ""
	it, _ := b.Containers.Iterator(0)
	for it.Next() {
		_, c := it.Value()
		out += vEncName(c.typ())[:1]
	}
	return out
}

// ---------------------------------------------------------------- set model

func vUnion(a, b []uint64) []uint64 {
	out := make([]uint64, 0, len(a)+len(b))
	i, j := 0, 0
	for i < len(a) && j < len(b) {
		switch {
		case a[i] < b[j]:
			out = append(out, a[i])
			i++
		case a[i] > b[j]:
			out = append(out, b[j])
			j++
		default:
			out = append(out, a[i])
			i++
			j++
		}
	}
	out = append(out, a[i:]...)
	out = append(out, b[j:]...)
	return out
}

func vIntersect(a, b []uint64) []uint64 {
	var out []uint64
	i, j := 0, 0
	for i < len(a) && j < len(b) {
		switch {
		case a[i] < b[j]:
			i++
		case a[i] > b[j]:
			j++
		default:
			out = append(out, a[i])
			i++
			j++
		}
	}
	return out
}

func vDifference(a, b []uint64) []uint64 {
	var out []uint64
	i, j := 0, 0
	for i < len(a) {
		for j < len(b) && b[j] < a[i] {
			j++
		}
		if j < len(b) && b[j] == a[i] {
			i++
			continue
		}
		out = append(out, a[i])
		i++
	}
	return out
}

func vXor(a, b []uint64) []uint64 {
	return vUnion(vDifference(a, b), vDifference(b, a))
}

func vContains(a []uint64, v uint64) bool {
	i := sort.Search(len(a), func(i int) bool { return a[i] >= v })
	return i < len(a) && a[i] == v
}

// vRange returns the elements in [start,end).
func vRange(a []uint64, start, end uint64) []uint64 {
	if start >= end {
		return nil
	}
	i := sort.Search(len(a), func(i int) bool { return a[i] >= start })
	j := sort.Search(len(a), func(i int) bool { return a[i] >= end })
	return a[i:j]
}

// vProbes derives probe points from the data: every run start/last (sampled
// when many), container edges, each +-1, 0 and 2^64-1.
func vProbes(r *vk.Rand, sets ...[]uint64) []uint64 {
	ps := map[uint64]struct{}{0: {}, 1: {}, ^uint64(0): {}, ^uint64(0) - 1: {}}
	add := func(v uint64) {
		ps[v] = struct{}{}
		ps[v+1] = struct{}{}
		ps[v-1] = struct{}{}
	}
	for _, a := range sets {
		if len(a) == 0 {
			continue
		}
		add(a[0])
		add(a[len(a)-1])
		var bounds []uint64
		for i, v := range a {
			if i == 0 || a[i-1]+1 != v {
				bounds = append(bounds, v)
			}
			if i == len(a)-1 || a[i+1] != v+1 {
				bounds = append(bounds, v)
			}
			if i == 0 || a[i-1]>>16 != v>>16 {
				add(v >> 16 << 16)
				add(v>>16<<16 | 0xFFFF)
			}
		}
		for k := 0; k < 10 && len(bounds) > 0; k++ {
			add(bounds[r.Intn(len(bounds))])
		}
		for k := 0; k < 3; k++ {
			add(a[r.Intn(len(a))])
		}
	}
	out := make([]uint64, 0, len(ps))
	for v := range ps {
		out = append(out, v)
	}
	sort.Slice(out, func(i, j int) bool { return out[i] < out[j] })
	return out
}

// vSliceOf reads a bitmap through its containers directly (not through the
// Iterator), as an independent read path.
func vSliceContainers(b *Bitmap) []uint64 {
	var out []uint64
	it, _ := b.Containers.Iterator(0)
	for it.Next() {
		k, c := it.Value()
		switch c.typ() {
		case containerArray:
			for _, v := range c.array() {
				out = append(out, k<<16|uint64(v))
			}
		case containerBitmap:
			for i, w := range c.bitmap() {
				for w != 0 {
					t := w & -w
					bit := 0
					for t>>uint(bit) != 1 {
						bit++
					}
					out = append(out, k<<16|uint64(i*64+bit))
					w ^= t
				}
			}
		case containerRun:
			for _, iv := range c.runs() {
				for v := int(iv.start); v <= int(iv.last); v++ {
					out = append(out, k<<16|uint64(v))
				}
			}
		}
	}
	return out
}

var _ = unsafe.Pointer(nil)
