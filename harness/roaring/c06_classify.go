package roaring

// c06Classify is a tolerant structural validator for the three input formats.
// It names the FIRST structural violation of an input ("pilosa/offset-past-end",
// "official-run/body-truncated:array", "ops/batch-truncated", ...) or "valid".
// The class is a pure function of the input bytes; it is the input predicate
// used in C06 failure signatures, so that one decoder defect maps to one class
// whatever seed and mutation produced the bytes.

import (
	"encoding/binary"
	"fmt"
	"hash/fnv"
)

func c06u16(d []byte, off int) int    { return int(binary.LittleEndian.Uint16(d[off:])) }
func c06u32(d []byte, off int) uint32 { return binary.LittleEndian.Uint32(d[off:]) }

func c06Classify(d []byte) string {
	if len(d) < 2 {
		return "len<2"
	}
	switch uint32(c06u16(d, 0)) {
	case vPilosaMagic:
		return c06ClassifyPilosa(d)
	case vOffCookieNoRun:
		return c06ClassifyOfficial(d, false)
	case vOffCookieRun:
		return c06ClassifyOfficial(d, true)
	}
	if len(d) < 8 {
		return "len<8"
	}
	return "magic-unknown"
}

func c06ContentOK(d []byte, typ byte, card int, off int, nruns int, runLast bool) bool {
	switch typ {
	case containerArray:
		for i := 1; i < card; i++ {
			if c06u16(d, off+2*i) <= c06u16(d, off+2*(i-1)) {
				return false
			}
		}
	case containerBitmap:
		n := 0
		for i := 0; i < 8192; i++ {
			b := d[off+i]
			for ; b != 0; b &= b - 1 {
				n++
			}
		}
		return n == card
	case containerRun:
		n, prev := 0, -1
		for i := 0; i < nruns; i++ {
			st, x := c06u16(d, off+4*i), c06u16(d, off+4*i+2)
			last := x
			if !runLast {
				last = st + x
			}
			if last < st || last > 65535 || st <= prev {
				return false
			}
			n += last - st + 1
			prev = last
		}
		return n == card && nruns > 0
	}
	return true
}

func c06ClassifyPilosa(d []byte) string {
	if len(d) < 8 {
		return "pilosa/len<8"
	}
	if d[2] != 0 {
		return "pilosa/version"
	}
	n := uint64(c06u32(d, 4))
	if 8+12*n > uint64(len(d)) {
		if uint32(8+12*n) <= uint32(len(d)) {
			return "pilosa/count-overflows-uint32"
		}
		return "pilosa/header-short"
	}
	if 8+16*n > uint64(len(d)) {
		return "pilosa/offsets-short"
	}
	hdrEnd := int(8 + 16*n)
	end := hdrEnd
	prevKey, first := uint64(0), true
	for i := 0; i < int(n); i++ {
		h := 8 + 12*i
		key := binary.LittleEndian.Uint64(d[h:])
		typ, card := c06u16(d, h+8), c06u16(d, h+10)+1
		off := uint64(c06u32(d, 8+12*int(n)+4*i))
		if typ < 1 || typ > 3 {
			return "pilosa/type-invalid"
		}
		if off >= uint64(len(d)) {
			return "pilosa/offset-past-end:" + vEncName(byte(typ))
		}
		if off < uint64(hdrEnd) {
			return "pilosa/offset-in-header:" + vEncName(byte(typ))
		}
		size, nruns := 0, 0
		switch byte(typ) {
		case containerArray:
			size = 2 * card
		case containerBitmap:
			size = 8192
		case containerRun:
			if off+2 > uint64(len(d)) {
				return "pilosa/run-count-truncated"
			}
			nruns = c06u16(d, int(off))
			size = 2 + 4*nruns
		}
		if off+uint64(size) > uint64(len(d)) {
			cls := "pilosa/body-truncated:" + vEncName(byte(typ))
			if byte(typ) == containerArray && card <= 5 || byte(typ) == containerRun && nruns <= 2 {
				cls += "-stashed" // small arrays/runs are copied into the container while decoding
			}
			return cls
		}
		if !first && key <= prevKey {
			return "pilosa/keys-unsorted"
		}
		if key > maxContainerKey {
			return "pilosa/key-too-large"
		}
		body := int(off)
		if byte(typ) == containerRun {
			body += 2
		}
		if !c06ContentOK(d, byte(typ), card, body, nruns, true) {
			return "pilosa/content-inconsistent:" + vEncName(byte(typ))
		}
		prevKey, first = key, false
		if int(off)+size > end {
			end = int(off) + size
		}
		if i == int(n)-1 {
			end = int(off) + size // the decoder takes the op log to start after the LAST container
		}
	}
	return c06ClassifyOps(d[end:])
}

func c06ClassifyOps(d []byte) string {
	for len(d) > 0 {
		if len(d) < 13 {
			return "ops/short"
		}
		typ := d[0]
		val := binary.LittleEndian.Uint64(d[1:9])
		h := fnv.New32a()
		h.Write(d[0:9])
		size := 13
		switch {
		case typ <= 1:
		case typ <= 3:
			if val > 1<<59 {
				return "ops/batch-count-huge"
			}
			if 13+8*val > uint64(len(d)) {
				return "ops/batch-truncated"
			}
			size = 13 + 8*int(val)
			h.Write(d[13:size])
		case typ <= 5:
			if val > 1<<40 || 17+val > uint64(len(d)) {
				return "ops/roaring-truncated"
			}
			size = 17 + int(val)
			h.Write(d[13:size])
		default:
			return "ops/type-invalid"
		}
		if c06u32(d, 9) != h.Sum32() {
			return "ops/checksum"
		}
		if typ == 4 || typ == 5 {
			if c := c06Classify(d[17:size]); c != "valid" {
				return "ops/payload:" + c
			}
		}
		d = d[size:]
	}
	return "valid"
}

func c06ClassifyOfficial(d []byte, runs bool) string {
	pfx := "official"
	if len(d) < 8 {
		return pfx + "/len<8"
	}
	var n, pos int
	var bitset []byte
	if !runs {
		c := c06u32(d, 4)
		if c > 65536 {
			return pfx + "/count>65536"
		}
		n, pos = int(c), 8
	} else {
		n, pos = c06u16(d, 2)+1, 4
		pfx = "official-run"
		if n >= vOffNoOffsetBelow {
			pfx = "official-run-n>=4" // the spec inserts an offset header here; every class below keeps this prefix
		}
		if pos+(n+7)/8 > len(d) {
			return pfx + "/bitset-short"
		}
		bitset = d[pos : pos+(n+7)/8]
		pos += (n + 7) / 8
	}
	if n == 0 {
		if len(d) == 8 {
			return pfx + "/empty"
		}
		return pfx + "/empty+tail"
	}
	hdr := pos
	if pos+4*n > len(d) {
		return pfx + "/header-short"
	}
	pos += 4 * n
	offs := -1
	if !runs || n >= vOffNoOffsetBelow {
		if pos+4*n > len(d) {
			return pfx + "/offsets-short"
		}
		offs = pos
		pos += 4 * n
	}
	dataStart := pos
	prevKey := -1
	for i := 0; i < n; i++ {
		key, card := c06u16(d, hdr+4*i), c06u16(d, hdr+4*i+2)+1
		isRun := runs && bitset[i/8]&(1<<uint(i%8)) != 0
		typ := byte(containerBitmap)
		if isRun {
			typ = containerRun
		} else if card <= 4096 {
			typ = containerArray
		}
		off := pos
		if !runs {
			o := uint64(c06u32(d, offs+4*i))
			if o >= uint64(len(d)) {
				return pfx + "/offset-past-end:" + vEncName(typ)
			}
			if o < uint64(dataStart) {
				return pfx + "/offset-in-header:" + vEncName(typ)
			}
			off = int(o)
		}
		size, nruns := 0, 0
		switch typ {
		case containerArray:
			size = 2 * card
		case containerBitmap:
			size = 8192
		case containerRun:
			if off+2 > len(d) {
				return pfx + "/run-count-truncated"
			}
			nruns = c06u16(d, off)
			if nruns == 0 {
				return pfx + "/run-count-0"
			}
			size = 2 + 4*nruns
		}
		if off+size > len(d) {
			cls := pfx + "/body-truncated:" + vEncName(typ)
			if typ == containerArray && card <= 5 || typ == containerRun && nruns <= 2 {
				cls += "-stashed"
			}
			return cls
		}
		if key <= prevKey {
			return pfx + "/keys-unsorted"
		}
		body := off
		if typ == containerRun {
			body += 2
		}
		if !isRun && card == 4096 {
			return pfx + "/card4096"
		}
		if !c06ContentOK(d, typ, card, body, nruns, false) {
			return pfx + "/content-inconsistent:" + vEncName(typ)
		}
		prevKey = key
		pos = off + size
	}
	if runs && pos != len(d) {
		return pfx + "/valid+tail"
	}
	if runs {
		return pfx + "/valid"
	}
	return "valid"
}

var _ = fmt.Sprintf
