package roaring

// C03 (roaring layer) — derived bitmaps are isolated values.
// A history keeps a small pool of bitmaps. Steps either DERIVE a new value
// from pool members (Clone, Freeze, Union, Intersect, Difference, Xor,
// OffsetRange, Shift, Flip) or MUTATE one member (Add, Remove, AddN, RemoveN,
// ImportRoaringBits set/clear, Optimize, UnionInPlace). Every value is
// fingerprinted (full read) at birth; after every step all values are re-read:
// an untouched value must still equal its fingerprint, the mutated one must
// equal its fingerprint with the mutation applied. Sources are heap-built,
// frozen, or decoded over a READ-ONLY guard-page mapping (a write through a
// mapped container kills the process, attributed to the case).

import (
	"bytes"
	"fmt"
	"runtime/debug"
	"testing"

	vk "github.com/pilosa/pilosa/internal/verifkit"
)

type c03Step struct {
	Kind    string `json:"kind"` // derive | mutate
	Op      string `json:"op"`
	On      int    `json:"on"`             // pool index: operand (derive) / target (mutate)
	With    int    `json:"with,omitempty"` // second operand (binary derive ops, UnionInPlace); -1 none
	Vals    hVals  `json:"vals,omitempty"` // mutation arguments / import payload set
	A       uint64 `json:"a,omitempty"`    // OffsetRange: offset key; Flip: start
	B       uint64 `json:"b,omitempty"`    // OffsetRange: start key; Flip: end
	C       uint64 `json:"c,omitempty"`    // OffsetRange: end key
	import_ hOp
}

type c03Hist struct {
	Sources []vBitmapSpec `json:"sources"` // pool[0..]: provenance fresh|optimized|cloned|built|frozen|decoded(read-only mapping)
	Steps   []c03Step     `json:"steps"`
}

type c03Val struct {
	b       *Bitmap
	m       []uint64
	op      string // how it was born: "src:<prov>" or the derive op
	parents []int
}

var c03DeriveOps = []string{"Clone", "Freeze", "Union", "Intersect", "Difference", "Xor", "OffsetRange", "Shift", "Flip"}
var c03MutOps = []string{"Add", "Remove", "AddN", "RemoveN", "ImportSet", "ImportClear", "Optimize", "UnionInPlace"}

func c03Gen(rng *vk.Rand) *c03Hist {
	g := newHGen(rng, false)
	g.keys = vKeysLow
	for _, k := range g.keys {
		if g.pool[k] == nil {
			g.pool[k] = append([]uint16(nil), hLowPool...)
		}
	}
	h := &c03Hist{}
	ns := 1 + rng.Intn(2)
	shapes := vShapeNames
	if rng.Chance(2, 3) {
		shapes = []string{"single0", "edges", "arr5", "arr6", "arrSmall", "arrSmall", "arr4095", "arr4096", "run1", "run2", "run3", "runsMany", "runTouch0", "runTouchMax", "blocky", "dense4097", "full", "holeMid"}
	}
	for i := 0; i < ns; i++ {
		s := vGenSpec(rng, vKeysLow, 3, shapes)
		h.Sources = append(h.Sources, s)
	}
	nvals := ns
	nsteps := 2 + rng.Intn(9)
	for i := 0; i < nsteps; i++ {
		st := c03Step{With: -1}
		if i == 0 || (nvals < 5 && rng.Chance(2, 5)) {
			st.Kind = "derive"
			st.Op = c03DeriveOps[rng.Intn(len(c03DeriveOps))]
			st.On = rng.Intn(nvals)
			if i == 0 {
				st.On = 0
			}
			switch st.Op {
			case "Union", "Intersect", "Difference", "Xor":
				st.With = rng.Intn(nvals)
			case "OffsetRange":
				ks := []uint64{0, 1, 2, 3, 4}
				s0, e0 := ks[rng.Intn(5)], ks[rng.Intn(5)]
				if s0 > e0 {
					s0, e0 = e0, s0
				}
				if rng.Chance(1, 2) {
					s0, e0 = 0, 4
				}
				st.A, st.B, st.C = ks[rng.Intn(4)], s0, e0
			case "Flip":
				st.A = g.val()
				st.B = st.A + uint64(rng.Intn(200))
			}
			nvals++
		} else {
			st.Kind = "mutate"
			st.Op = c03MutOps[rng.Intn(len(c03MutOps))]
			st.On = rng.Intn(nvals)
			if rng.Chance(1, 2) && nvals > 0 {
				st.On = nvals - 1 - rng.Intn(2)%nvals // favour recent (derived) values
				if st.On < 0 {
					st.On = 0
				}
			}
			switch st.Op {
			case "Add", "Remove":
				st.Vals = hVals{g.val()}
			case "AddN", "RemoveN":
				if rng.Chance(1, 5) {
					_, vals := g.bulk(false)
					st.Vals = vals
				} else {
					st.Vals = g.batch(1 + rng.Intn(12))
				}
			case "ImportSet", "ImportClear":
				o := g.genOp([]hWeight{{st.Op, 1}}, false)
				o.Fmt = "pilosa"
				if len(o.spec.Conts) == 0 {
					o = hImportOp(st.Op, "pilosa", g.key(false), []uint16{g.low(0)})
				}
				// genOp may have picked the official layout's encodings; values are what matters here
				st.import_ = o
				st.Vals = o.Vals
			case "UnionInPlace":
				// never with itself: b.UnionInPlace(b) is not a derive-then-mutate history (it is an
				// aliasing question for the set-operation property), so the generator leaves it out
				st.With = rng.Intn(nvals)
				if st.With == st.On {
					st.With = (st.On + 1) % nvals
				}
				if st.With == st.On {
					st.Op, st.With = "Optimize", -1
				}
			}
		}
		h.Steps = append(h.Steps, st)
	}
	return h
}

type c03Fail struct {
	Sig, Msg string
}

func c03Ancestors(vals []*c03Val, i int, seen map[int]bool) {
	for _, p := range vals[i].parents {
		if !seen[p] {
			seen[p] = true
			c03Ancestors(vals, p, seen)
		}
	}
}

func c03Root(vals []*c03Val, i int) string {
	for len(vals[i].parents) > 0 {
		i = vals[i].parents[0]
	}
	return vals[i].op
}

// c03Exec runs the history; returns the failures (one per distinct signature).
func c03Exec(r *vk.Run, h *c03Hist, arena *vArena) (fails []c03Fail) {
	var vals []*c03Val
	cur := -1
	add := func(sig, msg string) {
		for _, f := range fails {
			if f.Sig == sig {
				return
			}
		}
		fails = append(fails, c03Fail{sig, msg})
	}
	defer func() {
		if e := recover(); e != nil {
			st := string(debug.Stack())
			if len(st) > 1500 {
				st = st[:1500]
			}
			sig := "panic:build"
			if cur >= 0 {
				s := h.Steps[cur]
				sig = fmt.Sprintf("panic:%s-%s/on:%s/root:%s", s.Kind, s.Op, vals[s.On].op, c03Root(vals, s.On))
			}
			add(sig, fmt.Sprintf("step %d: panic: %v\n%s", cur, e, st))
		}
	}()
	evals := 0
	defer func() {
		if r != nil {
			r.Eval(evals)
		}
	}()
	for _, s := range h.Sources {
		var b *Bitmap
		if s.Prov == "decoded" {
			f := s
			f.Prov = "fresh"
			tmp := vBuild(f, arena)
			var buf bytes.Buffer
			if _, err := tmp.writeToUnoptimized(&buf); err != nil {
				panic(err)
			}
			b = vNewColl(s.Coll)
			if err := b.UnmarshalBinary(arena.guardCopyRO(buf.Bytes())); err != nil {
				panic("decode of own encoding failed: " + err.Error())
			}
		} else {
			b = vBuild(s, arena)
		}
		vals = append(vals, &c03Val{b: b, m: s.vModel(), op: "src:" + s.Prov + "/" + s.Coll})
		if r != nil {
			r.Cover("source:" + s.Prov + ":" + s.Coll)
		}
	}
	verify := func(mutated int, desc string) {
		for i, v := range vals {
			evals++
			got := vSliceBounded(v.b, len(v.m))
			if vk.EqualU64(got, v.m) && v.b.Count() == uint64(len(v.m)) {
				continue
			}
			var sig string
			s := c03Step{}
			if cur >= 0 {
				s = h.Steps[cur]
			}
			anc, desc2 := map[int]bool{}, map[int]bool{}
			c03Ancestors(vals, i, anc)
			if mutated >= 0 {
				c03Ancestors(vals, mutated, desc2)
			}
			switch {
			case mutated < 0:
				sig = fmt.Sprintf("derive-disturbed:%s/%s changed by deriving %s", v.op, c03Root(vals, i), s.Op)
			case i == mutated:
				sig = fmt.Sprintf("mutated-wrong:%s/root:%s/%s", v.op, c03Root(vals, i), s.Op)
			case anc[mutated]:
				sig = fmt.Sprintf("derived-changed:%s/root:%s/source-%s", v.op, c03Root(vals, i), s.Op)
			case desc2[i]:
				sig = fmt.Sprintf("source-changed:%s/via:%s/derived-%s", v.op, vals[mutated].op, s.Op)
			default:
				sig = fmt.Sprintf("sibling-changed:%s/other:%s/%s", v.op, vals[mutated].op, s.Op)
			}
			add(sig, fmt.Sprintf("step %d (%s): value #%d (%s): %s; got %s want %s (Count()=%d)", cur, desc, i, v.op, vk.DiffU64(got, v.m), vk.Brief(got), vk.Brief(v.m), v.b.Count()))
			// resynchronise so that one disturbance is reported once
			v.m = vSliceBounded(v.b, 1<<22)
		}
	}
	verify(-1, "after build")
	for k := range h.Steps {
		cur = k
		s := &h.Steps[k]
		if s.On >= len(vals) || s.With >= len(vals) {
			continue // shrunk history: the referenced value no longer exists
		}
		on := vals[s.On]
		if s.Kind == "derive" {
			var nb *Bitmap
			parents := []int{s.On}
			switch s.Op {
			case "Clone":
				nb = on.b.Clone()
			case "Freeze":
				nb = on.b.Freeze()
			case "Union":
				nb = on.b.Union(vals[s.With].b)
				parents = append(parents, s.With)
			case "Intersect":
				nb = on.b.Intersect(vals[s.With].b)
				parents = append(parents, s.With)
			case "Difference":
				nb = on.b.Difference(vals[s.With].b)
				parents = append(parents, s.With)
			case "Xor":
				nb = on.b.Xor(vals[s.With].b)
				parents = append(parents, s.With)
			case "OffsetRange":
				nb = on.b.OffsetRange(s.A<<16, s.B<<16, s.C<<16)
			case "Shift":
				var err error
				if nb, err = on.b.Shift(1); err != nil {
					panic(err)
				}
			case "Flip":
				nb = on.b.Flip(s.A, s.B)
			}
			// fingerprint at birth (what the operation should have produced is C01's business)
			vals = append(vals, &c03Val{b: nb, m: vSliceBounded(nb, 1<<22), op: s.Op, parents: parents})
			if r != nil {
				r.Cover("derive:" + s.Op + ":from:" + c03Root(vals, s.On))
			}
			verify(-1, "derive "+s.Op)
			continue
		}
		args := append([]uint64(nil), s.Vals...)
		mm := hModel{m: on.m}
		switch s.Op {
		case "Add":
			mm.addAll(s.Vals)
			on.b.Add(args...)
		case "Remove":
			mm.removeAll(s.Vals)
			on.b.Remove(args...)
		case "AddN":
			mm.m = append([]uint64(nil), mm.m...)
			mm.addAll(s.Vals)
			on.b.AddN(args...)
		case "RemoveN":
			mm.m = append([]uint64(nil), mm.m...)
			mm.removeAll(s.Vals)
			on.b.RemoveN(args...)
		case "ImportSet":
			mm.m = vUnion(mm.m, []uint64(s.Vals))
			if _, _, err := on.b.ImportRoaringBits(arena.guardCopyRO(hPayload(&s.import_, false)), false, false, 0); err != nil {
				panic(err)
			}
		case "ImportClear":
			mm.m = vDifference(mm.m, []uint64(s.Vals))
			if _, _, err := on.b.ImportRoaringBits(arena.guardCopyRO(hPayload(&s.import_, false)), true, false, 0); err != nil {
				panic(err)
			}
		case "Optimize":
			on.b.Optimize()
		case "UnionInPlace":
			mm.m = vUnion(mm.m, vals[s.With].m)
			on.b.UnionInPlace(vals[s.With].b)
		}
		on.m = mm.m
		if r != nil {
			r.Cover("mutate:" + s.Op + ":on:" + on.op)
		}
		verify(s.On, "mutate "+s.Op)
	}
	return fails
}

func TestVerifC03(t *testing.T) {
	r := vk.Start(t, "C03")
	defer r.Finish()

	for _, p := range vProvs {
		r.Expect("source:"+p+":slice", "source:"+p+":btree")
	}
	for _, d := range c03DeriveOps {
		for _, m := range c03MutOps {
			r.Expect("mutate:" + m + ":on:" + d)
		}
		for _, p := range []string{"fresh", "frozen", "decoded"} {
			r.Expect("derive:" + d + ":from:src:" + p + "/slice")
			r.Expect("derive:" + d + ":from:src:" + p + "/btree")
		}
	}

	run := func(id string, h *c03Hist) {
		r.InFlightDetail(id, map[string]interface{}{"sig": "crash:write-through-or-read-of-shared-storage", "case": h})
		var arena vArena
		fails := c03Exec(r, h, &arena)
		arena.release()
		for _, f := range fails {
			// shrink: drop steps from the end while the signature persists
			cur := h
			for budget := 40; budget > 0 && len(cur.Steps) > 1; budget-- {
				progress := false
				for i := len(cur.Steps) - 1; i >= 1 && budget > 0; i-- {
					// only mutate steps can be dropped without renumbering the pool
					if cur.Steps[i].Kind != "mutate" {
						continue
					}
					budget--
					c := &c03Hist{Sources: cur.Sources, Steps: append(append([]c03Step(nil), cur.Steps[:i]...), cur.Steps[i+1:]...)}
					var a2 vArena
					f2 := c03Exec(nil, c, &a2)
					a2.release()
					for _, g := range f2 {
						if g.Sig == f.Sig {
							cur, f, progress = c, g, true
							break
						}
					}
				}
				if !progress {
					break
				}
			}
			r.Fail(f.Sig, id, f.Msg, cur)
		}
	}

	// ---- directed: every derive op x source provenance x collection, then mutate each side with each mutation
	r.Directed("matrix", func(id string) {
		rng := vk.NewRand(vk.Mix(r.Seed, 0xC03))
		imp := func(kind string) c03Step {
			o := hImportOp(kind, "pilosa", 1, []uint16{3, 4, 5, 300})
			return c03Step{Kind: "mutate", Op: kind, With: -1, Vals: o.Vals, import_: o}
		}
		for _, coll := range []string{"slice", "btree"} {
			for _, prov := range []string{"fresh", "frozen", "decoded", "optimized"} {
				for _, d := range c03DeriveOps {
					for _, side := range []int{0, 2} { // 0 = source, 2 = derived (pool: 0 src, 1 other, 2 derived)
						mk := func(shape string, enc byte, key uint64) vContSpec {
							v := vShape(rng, shape)
							if enc == containerArray && len(v) > ArrayMaxSize {
								enc = containerBitmap
							}
							return c04ContLike(key, shape, enc, v)
						}
						src := vBitmapSpec{Coll: coll, Prov: prov, Conts: []vContSpec{mk("arrSmall", containerArray, 0), mk("runsMany", containerRun, 1), mk("dense4097", containerBitmap, 2)}}
						oth := vBitmapSpec{Coll: coll, Prov: "fresh", Conts: []vContSpec{mk("arr6", containerArray, 1), mk("run2", containerRun, 2)}}
						h := &c03Hist{Sources: []vBitmapSpec{src, oth}}
						st := c03Step{Kind: "derive", Op: d, On: 0, With: -1}
						switch d {
						case "Union", "Intersect", "Difference", "Xor":
							st.With = 1
						case "OffsetRange":
							st.A, st.B, st.C = 1, 0, 4
						case "Flip":
							st.A, st.B = 65536+10, 65536+90
						}
						h.Steps = append(h.Steps, st)
						muts := []c03Step{
							{Kind: "mutate", Op: "Add", With: -1, Vals: hVals{65536 + 77777%65536, 1}},
							{Kind: "mutate", Op: "Remove", With: -1, Vals: hVals{uint64(src.Conts[0].vals[0]), 65536 | uint64(src.Conts[1].vals[0]), 2<<16 | uint64(src.Conts[2].vals[0])}},
							{Kind: "mutate", Op: "AddN", With: -1, Vals: hVals{5, 6, 65536 + 9, 2<<16 + 1, 3<<16 + 1}},
							{Kind: "mutate", Op: "RemoveN", With: -1, Vals: hVals{uint64(src.Conts[0].vals[1]), 65536 | uint64(src.Conts[1].vals[1])}},
							imp("ImportSet"), imp("ImportClear"),
							{Kind: "mutate", Op: "Optimize", With: -1},
							{Kind: "mutate", Op: "UnionInPlace", With: 1},
						}
						for _, m := range muts {
							m.On = side
							h.Steps = append(h.Steps, m)
						}
						r.Distinct(vk.Hash64("mx", coll, prov, d, side), true)
						run(id, h)
					}
				}
			}
		}
	})

	n := r.N(4000, 160000)
	r.Cases("hist", n, func(i int, id string, rng *vk.Rand) {
		h := c03Gen(rng)
		if r.WantSample() {
			r.Sample(h)
		}
		nm := 0
		for _, s := range h.Steps {
			if s.Kind == "mutate" {
				nm++
			}
		}
		r.Distinct(vk.Hash64("h", id), nm > 0)
		run(id, h)
	})
}

func c04ContLike(key uint64, shape string, enc byte, vals []uint16) vContSpec {
	return vContSpec{Key: key, Shape: shape, Enc: vEncName(enc), N: len(vals), enc: enc, vals: vals}
}
