package roaring

// C06 (decoder layer) — malformed input is rejected without crashing.
// Hostile bytes are fed to roaring.UnmarshalBinary (incl. op-log tails after
// a valid snapshot) and to ImportRoaringBits (Pilosa and official format):
// structural mutations of valid seeds at field granularity. Oracle: the call
// returns (nil or error) without panic, process death or hang; a REJECTED
// import leaves the target bitmap unchanged; an ACCEPTED decode must not
// reference bytes beyond its input (checked first as a pointer-range
// sanitizer on a heap copy with slack, then for real behind a guard page,
// where a one-byte over-read is a deterministic SIGSEGV) and reading the
// accepted bitmap must terminate.

import (
	"encoding/binary"
	"encoding/hex"
	"fmt"
	"runtime"
	"runtime/debug"
	"strings"
	"testing"
	"unsafe"

	vk "github.com/pilosa/pilosa/internal/verifkit"
)

// ---------------------------------------------------------------- seeds

type c06Seed struct {
	Name   string
	data   []byte
	fields []vField
	opAt   []int // start offsets of op-log entries (for checksum repair)
}

func c06Lows(vals ...int) []uint16 {
	out := make([]uint16, len(vals))
	for i, v := range vals {
		out[i] = uint16(v)
	}
	return out
}

func c06SeqU16(lo, hi, step int) []uint16 {
	var out []uint16
	for v := lo; v <= hi; v += step {
		out = append(out, uint16(v))
	}
	return out
}

// c06Seeds builds the valid seeds. rng == nil gives the fixed directed set.
func c06Seeds(rng *vk.Rand) []c06Seed {
	arr := c06Lows(1, 5, 9, 300, 65535)
	runs := append(c06SeqU16(10, 20, 1), c06SeqU16(100, 130, 1)...)
	big := c06SeqU16(0, 65535, 13)
	if rng != nil {
		arr = vShape(rng, []string{"arr2", "arr5", "arr6", "arrSmall", "edges", "single0"}[rng.Intn(6)])
		runs = vShape(rng, []string{"run1", "run2", "run3", "runTouch0", "runTouchMax"}[rng.Intn(5)])
		if len(runs) > 40000 {
			runs = runs[:40000]
		}
		big = vShape(rng, []string{"dense4097", "alt", "blocky", "arr4097"}[rng.Intn(4)])
		for len(big) <= 4096 {
			big = vShape(rng, "dense4097")
		}
	}
	var seeds []c06Seed
	add := func(name string, d []byte, f []vField) {
		seeds = append(seeds, c06Seed{Name: name, data: d, fields: f})
	}
	d, f := vPilosaEncode([]vPilCont{{0, arr, containerArray}, {1, runs, containerRun}, {65536, big, containerBitmap}}, 1)
	add("pilosa-arb", d, f)
	d, f = vPilosaEncode([]vPilCont{{3, arr, containerArray}}, 0)
	add("pilosa-a", d, f)
	d, f = vPilosaEncode([]vPilCont{{2, big, containerBitmap}}, 0)
	add("pilosa-b", d, f)
	d, f = vPilosaEncode([]vPilCont{{0, arr, containerArray}, {7, runs, containerRun}}, 0)
	add("pilosa-ar", d, f)
	d, f = vOfficialEncode([]vOffCont{{0, arr, false}, {1, big, false}, {9, runs[:1], false}})
	add("official-norun", d, f)
	d, f = vOfficialEncode([]vOffCont{{0, runs, true}, {2, arr, false}})
	add("official-run2", d, f)
	d, f = vOfficialEncode([]vOffCont{{0, arr, false}, {1, runs, true}, {2, arr, false}, {3, big, false}, {4, runs, true}})
	add("official-run5", d, f)
	// op-log tails: valid snapshot followed by one op of every kind
	snap, sf := vPilosaEncode([]vPilCont{{0, arr, containerArray}, {1, runs, containerRun}}, 0)
	pay1, _ := vPilosaEncode([]vPilCont{{0, c06Lows(2, 3), containerArray}}, 0)
	pay2, _ := vOfficialEncode([]vOffCont{{1, c06Lows(10, 11, 500), false}})
	mkLog := func(name string, base []byte, bf []vField) {
		s := c06Seed{Name: name, data: append([]byte(nil), base...), fields: append([]vField(nil), bf...)}
		ops := []struct {
			typ  byte
			val  uint64
			vals []uint64
			opN  uint32
			pay  []byte
		}{{0, 77, nil, 0, nil}, {1, 5, nil, 0, nil}, {2, 0, []uint64{65536 + 10, 9, 131072}, 0, nil}, {3, 0, []uint64{9, 1 << 40}, 0, nil}, {4, 0, nil, 2, pay1}, {5, 0, nil, 1, pay2}, {0, 1 << 33, nil, 0, nil}}
		for _, o := range ops {
			ob, of := vOpEncode(o.typ, o.val, o.vals, o.opN, o.pay)
			s.opAt = append(s.opAt, len(s.data))
			for _, x := range of {
				x.Off += len(s.data)
				s.fields = append(s.fields, x)
			}
			s.data = append(s.data, ob...)
		}
		seeds = append(seeds, s)
	}
	mkLog("pilosa+ops", snap, sf)
	empty, ef := vPilosaEncode(nil, 0)
	mkLog("empty+ops", empty, ef)
	return seeds
}

// ---------------------------------------------------------------- mutations

type c06Mut struct {
	Desc string // input predicate used in the signature: kind@field[#later]
	data []byte
}

func c06PutField(d []byte, f vField, v uint64) {
	switch f.Len {
	case 1:
		d[f.Off] = byte(v)
	case 2:
		binary.LittleEndian.PutUint16(d[f.Off:], uint16(v))
	case 4:
		binary.LittleEndian.PutUint32(d[f.Off:], uint32(v))
	case 8:
		binary.LittleEndian.PutUint64(d[f.Off:], v)
	}
}

// c06FieldTag: field name, "#later" when it is not the first field of that
// name (container 2..n, op 2..n), so that partial application is its own class.
func c06FieldTag(s *c06Seed, i int) string {
	f := s.fields[i]
	for j := 0; j < i; j++ {
		if s.fields[j].Name == f.Name {
			return f.Name + "#later"
		}
	}
	return f.Name
}

// c06RepairChecksum recomputes the checksum of the op that contains off, using
// the op's ORIGINAL extent, so that mutations behind the checksum are reached.
func c06RepairChecksum(s *c06Seed, d []byte, off int) {
	for i, at := range s.opAt {
		end := len(s.data)
		if i+1 < len(s.opAt) {
			end = s.opAt[i+1]
		}
		if off >= at && off < end && end <= len(d) {
			vOpFixChecksum(d[at:end])
		}
	}
}

func c06LenClass(n int) string {
	switch {
	case n == 0:
		return "len0"
	case n == 1:
		return "len1"
	case n < 8:
		return "len2-7"
	}
	return "len8+"
}

// c06FieldValues: interesting replacement values per field.
func c06FieldValues(s *c06Seed, f vField) []uint64 {
	max := uint64(1)<<(8*uint(f.Len)) - 1
	if f.Len == 8 {
		max = ^uint64(0)
	}
	vals := []uint64{0, 1, max - 1, max}
	switch f.Name {
	case "offset":
		vals = append(vals, 4, 7, 8, uint64(len(s.data)), uint64(len(s.data))-1, uint64(len(s.data))-2, uint64(len(s.data))+1, 1<<31, 1<<31-1)
	case "count":
		vals = append(vals, 2, 3, 4, 65536, 65537, 0x15555556, 0x15555555, 0x0AAAAAAB, 0x80000000, 0x10000000)
	case "cookie+count":
		vals = append(vals, vOffCookieRun|3<<16, vOffCookieRun|0xFFFF<<16, vOffCookieRun, vOffCookieNoRun, vPilosaMagic)
	case "cookie":
		vals = append(vals, vOffCookieRun, vOffCookieNoRun, vPilosaMagic, vPilosaMagic|1<<16, vPilosaMagic|0xFF<<24)
	case "type":
		vals = append(vals, 2, 3, 4, 255, 256)
	case "nruns":
		vals = append(vals, 2, 2048, 16384, 32768, 65535)
	case "card-1":
		vals = append(vals, 4094, 4095, 4096, 65535)
	case "opcount", "oplen":
		vals = append(vals, 2, 3, 1<<59, 1<<59+1, 1<<60, 1<<61, 1<<63, uint64(len(s.data)), 0x2000000000000000, 0x1FFFFFFFFFFFFFFF)
	case "optype":
		vals = append(vals, 2, 3, 4, 5, 6, 7, 128)
	}
	return vals
}

// c06Systematic enumerates the structural mutation families of a seed.
func c06Systematic(s *c06Seed, family string) []c06Mut {
	var out []c06Mut
	cp := func() []byte { return append([]byte(nil), s.data...) }
	switch family {
	case "prefix":
		for n := 0; n <= 32 && n <= len(s.data); n++ {
			out = append(out, c06Mut{"prefix:" + c06LenClass(n), cp()[:n]})
		}
	case "truncate":
		for i, f := range s.fields {
			for _, cut := range []int{f.Off, f.Off + 1, f.Off + f.Len - 1} {
				if cut >= 0 && cut < len(s.data) {
					out = append(out, c06Mut{"truncate@" + c06FieldTag(s, i), cp()[:cut]})
				}
			}
		}
		out = append(out, c06Mut{"truncate@end-1", cp()[:len(s.data)-1]})
	case "field":
		for i, f := range s.fields {
			if f.Len > 8 {
				continue
			}
			for _, v := range c06FieldValues(s, f) {
				d := cp()
				c06PutField(d, f, v)
				out = append(out, c06Mut{"set@" + c06FieldTag(s, i), d})
				if len(s.opAt) > 0 && f.Off >= s.opAt[0] && f.Name != "opchecksum" {
					d2 := append([]byte(nil), d...)
					c06RepairChecksum(s, d2, f.Off)
					out = append(out, c06Mut{"set+checksum@" + c06FieldTag(s, i), d2})
				}
			}
		}
	case "bitflip":
		for i, f := range s.fields {
			for _, bit := range []int{0, 7, f.Len*8 - 1} {
				d := cp()
				d[f.Off+bit/8] ^= 1 << uint(bit%8)
				out = append(out, c06Mut{"bitflip@" + c06FieldTag(s, i), d})
			}
		}
	case "extend":
		for _, tail := range [][]byte{{0}, {0xFF}, make([]byte, 12), make([]byte, 13), {2, 0xFF, 0xFF, 0xFF, 0xFF, 0xFF, 0xFF, 0xFF, 0x0F, 0, 0, 0, 0}} {
			out = append(out, c06Mut{"extend:garbage-tail", append(cp(), tail...)})
		}
	}
	return out
}

// c06Random stacks 1-2 random mutations.
func c06Random(rng *vk.Rand, s *c06Seed) c06Mut {
	d := append([]byte(nil), s.data...)
	desc := ""
	n := 1 + rng.Intn(2)
	for k := 0; k < n; k++ {
		if k > 0 {
			desc += "+"
		}
		i := rng.Intn(len(s.fields))
		f := s.fields[i]
		if f.Off+f.Len > len(d) {
			continue
		}
		switch rng.Intn(6) {
		case 0, 1:
			if f.Len <= 8 {
				vs := c06FieldValues(s, f)
				c06PutField(d, f, vs[rng.Intn(len(vs))])
				desc += "set@" + c06FieldTag(s, i)
				if len(s.opAt) > 0 && f.Off >= s.opAt[0] && rng.Bool() {
					c06RepairChecksum(s, d, f.Off)
					desc += "+checksum"
				}
				break
			}
			fallthrough
		case 2:
			bit := rng.Intn(f.Len * 8)
			d[f.Off+bit/8] ^= 1 << uint(bit%8)
			desc += "bitflip@" + c06FieldTag(s, i)
		case 3:
			if f.Len <= 8 {
				c06PutField(d, f, rng.Uint64())
				desc += "random@" + c06FieldTag(s, i)
				break
			}
			fallthrough
		case 4:
			cut := f.Off + rng.Intn(f.Len+1)
			if cut < len(d) {
				d = d[:cut]
			}
			desc += "truncate@" + c06FieldTag(s, i)
		case 5:
			// swap two fields of equal length (offsets into other containers, type swaps)
			j := rng.Intn(len(s.fields))
			g := s.fields[j]
			if g.Len == f.Len && f.Len <= 8 && g.Off+g.Len <= len(d) {
				a := append([]byte(nil), d[f.Off:f.Off+f.Len]...)
				copy(d[f.Off:], d[g.Off:g.Off+g.Len])
				copy(d[g.Off:], a)
				desc += "swap@" + c06FieldTag(s, i)
			} else {
				d = append(d, byte(rng.Intn(256)))
				desc += "extend:garbage-tail"
			}
		}
	}
	return c06Mut{desc, d}
}

// ---------------------------------------------------------------- execution

var c06SlackBuf []byte

func c06Slack(data []byte) []byte {
	need := len(data) + 2<<20
	if len(c06SlackBuf) < need {
		c06SlackBuf = make([]byte, need*2)
	}
	buf := c06SlackBuf[:need]
	copy(buf, data)
	for i := len(data); i < need; i++ {
		buf[i] = 0
	}
	return buf[:len(data):len(data)]
}

// c06PastEnd is the pointer-range sanitizer: a container of b whose storage
// lies in buf's allocation but extends beyond len(buf).
func c06PastEnd(b *Bitmap, buf []byte) string {
	if cap(buf) == 0 {
		return ""
	}
	base := uintptr(unsafe.Pointer(&buf[:1][0]))
	end := base + uintptr(len(buf))
	msg := ""
	it, _ := b.Containers.Iterator(0)
	for it.Next() {
		k, c := it.Value()
		if c == nil || c.pointer == nil {
			continue
		}
		p := uintptr(unsafe.Pointer(c.pointer))
		if p < base || p > end+(2<<20) {
			continue // heap storage of its own
		}
		var size uintptr
		switch c.typ() {
		case containerArray:
			size = 2 * uintptr(c.len)
		case containerRun:
			size = 4 * uintptr(c.len)
		case containerBitmap:
			size = 8 * uintptr(c.len)
		}
		if p+size > end {
			msg = fmt.Sprintf("container key %d (%s, n=%d) is mapped onto input bytes [%d,%d) but the input has %d bytes", k, vEncName(c.typ()), c.N(), p-base, p-base+size, len(buf))
			break
		}
	}
	return msg
}

type c06Input struct {
	Entry string `json:"entry"` // unmarshal/slice | unmarshal/btree | import-set/slice | ...
	Seed  string `json:"seed"`
	Mut   string `json:"mutation"`
	Class string `json:"class"` // first structural violation of the input (c06Classify)
	Len   int    `json:"len"`
	Hex   string `json:"hex,omitempty"`
}

func c06Wit(entry string, s *c06Seed, m *c06Mut) c06Input {
	w := c06Input{Entry: entry, Seed: s.Name, Mut: m.Desc, Len: len(m.data)}
	if len(m.data) <= 160 {
		w.Hex = hex.EncodeToString(m.data)
	} else {
		w.Hex = hex.EncodeToString(m.data[:96]) + "..." + hex.EncodeToString(m.data[len(m.data)-24:])
	}
	return w
}

var c06Entries = []string{"unmarshal/slice", "unmarshal/btree", "import-set/slice", "import-clear/btree", "import-set/btree", "import-clear/slice"}

func c06Target(coll string) *Bitmap {
	t := vNewColl(coll)
	t.DirectAddN(1, 2, 3, 9, 300, 65536+10, 65536+11, 65536+12, 65536+500, 2<<16+7, 7<<16+100, 7<<16+101)
	t.Containers.Put(3, vMakeContainer(c06SeqU16(0, 65535, 3), containerBitmap))
	return t
}

// c06Guard runs fn with faults at non-nil addresses turned into panics
// (debug.SetPanicOnFault): a read past the guard page is then a recoverable
// panic of this goroutine, classified as "over-read", instead of killing the
// worker. Other panics are classified as "panic".
func c06Guard(r *vk.Run, sig func(cls string) string, id string, wit func() interface{}, fn func()) (panicked bool) {
	old := debug.SetPanicOnFault(true)
	defer debug.SetPanicOnFault(old)
	defer func() {
		if e := recover(); e != nil {
			panicked = true
			cls := "panic"
			// with SetPanicOnFault the runtime error of a fault carries the faulting address
			if re, ok := e.(runtime.Error); ok {
				if a, ok := re.(interface{ Addr() uintptr }); ok && a.Addr() != 0 {
					cls = "over-read"
				}
			}
			st := string(debug.Stack())
			if i := strings.Index(st, "panic("); i > 0 {
				st = st[i:]
			}
			if len(st) > 1400 {
				st = st[:1400]
			}
			r.Fail(sig(cls), id, fmt.Sprintf("%s: %v\n%s", cls, e, st), wit())
		}
	}()
	fn()
	return false
}

// c06Spy is a slice container collection that records the size hint the
// decoder derives from the input instead of honouring it: an input whose
// container count overflows the decoder's 32-bit length check would otherwise
// make the process allocate tens of gigabytes (observed: ResetN(0x80000000)
// from a 34-byte input, worker stuck until the watchdog).
type c06Spy struct {
	*sliceContainers
	hint int
}

func (s *c06Spy) ResetN(n int) {
	if n > s.hint {
		s.hint = n
	}
	if n > 1<<16 {
		n = 1 << 16
	}
	s.sliceContainers.ResetN(n)
}

// c06Run feeds one input to one entry point.
func c06Run(r *vk.Run, id, entry string, s *c06Seed, m *c06Mut, arena *vArena) {
	ep := entry[:indexByte(entry, '/')]
	epKind := ep
	if ep != "unmarshal" {
		epKind = "import"
	}
	class := c06Classify(m.data)
	sigOf := func(failure string) string { return epKind + ":" + failure + ":" + class }
	wit := func() interface{} { w := c06Wit(entry, s, m); w.Class = class; return w }
	coll := entry[indexByte(entry, '/')+1:]
	isImport := ep != "unmarshal"
	clear := ep == "import-clear"
	r.Cover("entry:" + ep + ":" + s.Name)
	r.Cover("class:" + epKind + ":" + class)
	clean := true
	stage := func(buf []byte, name string) {
		maxVals := 1 << 22
		if !isImport {
			b := vNewColl(coll)
			var spy *c06Spy
			if class == "pilosa/count-overflows-uint32" {
				// never hand this class to a real collection (see c06Spy)
				spy = &c06Spy{sliceContainers: newSliceContainers()}
				b = &Bitmap{Containers: spy}
			}
			var err error
			panicked := c06Guard(r, func(c string) string { return sigOf(c) }, id, wit, func() { err = b.UnmarshalBinary(buf) })
			if spy != nil && spy.hint > len(buf)/12+1 {
				clean = false
				r.Eval(1)
				r.Fail(sigOf("allocates-for-count"), id, fmt.Sprintf("%s: UnmarshalBinary of a %d-byte input sizes its container collection for %d containers (%d bytes of slice headers) before noticing the input is short", name, len(buf), spy.hint, 16*spy.hint), wit())
			}
			if panicked {
				clean = false
				return
			}
			r.Eval(1)
			if err != nil {
				r.Cover("outcome:rejected")
				return
			}
			r.Cover("outcome:accepted")
			r.Eval(1)
			if msg := c06PastEnd(b, buf); msg != "" {
				clean = false
				r.Fail(sigOf("accepted-maps-past-end"), id, name+": UnmarshalBinary accepted the input, but "+msg, wit())
				return
			}
			if c06Guard(r, func(c string) string { return sigOf("read-after-accept-" + c) }, id, wit, func() {
				got := vSliceBounded(b, maxVals)
				b.Count()
				r.Eval(1)
				if len(got) > maxVals {
					// garbage runs can describe billions of (repeated) values; that is slow, not
					// provably endless, and the statement does not bound it: counted, not asserted
					r.Cover("outcome:accepted-iteration-cut-at-4M")
				}
			}) {
				clean = false
			}
			return
		}
		t := c06Target(coll)
		before := t.Slice()
		var err error
		if c06Guard(r, func(c string) string { return sigOf(c) }, id, wit, func() { _, _, err = t.ImportRoaringBits(buf, clear, false, 2) }) {
			clean = false
			return
		}
		r.Eval(1)
		if c06Guard(r, func(c string) string { return sigOf("read-after-import-" + c) }, id, wit, func() {
			after := vSliceBounded(t, maxVals)
			r.Eval(1)
			if err != nil {
				r.Cover("outcome:rejected")
				if !vk.EqualU64(after, before) {
					clean = false
					r.Fail(sigOf("rejected-but-changed"), id, fmt.Sprintf("%s: ImportRoaringBits returned error %q but the target changed: %s; before %s after %s", name, err.Error(), vk.DiffU64(after, before), vk.Brief(before), vk.Brief(after)), wit())
				}
			} else {
				r.Cover("outcome:accepted")
				if len(after) > maxVals {
					r.Cover("outcome:accepted-iteration-cut-at-4M")
				}
			}
		}) {
			clean = false
		}
	}
	stage(c06Slack(m.data), "heap")
	if clean {
		r.InFlightDetail(id, map[string]interface{}{"sig": sigOf("crash"), "input": wit()})
		stage(arena.guardCopy(m.data), "guard-page")
	}
}

func indexByte(s string, c byte) int {
	for i := 0; i < len(s); i++ {
		if s[i] == c {
			return i
		}
	}
	return len(s)
}

func TestVerifC06(t *testing.T) {
	r := vk.Start(t, "C06")
	defer r.Finish()

	fixed := c06Seeds(nil)
	for _, s := range fixed {
		r.Expect("entry:unmarshal:" + s.Name)
		if len(s.opAt) == 0 {
			r.Expect("entry:import-set:"+s.Name, "entry:import-clear:"+s.Name)
		}
	}
	r.Expect("outcome:accepted", "outcome:rejected")

	// ---- systematic families over the fixed seeds, one directed case per (seed, family, entry)
	for si := range fixed {
		s := &fixed[si]
		for _, fam := range []string{"prefix", "truncate", "field", "bitflip", "extend"} {
			for _, entry := range c06Entries {
				if len(s.opAt) > 0 && entry[0] == 'i' {
					continue // op-log tails are stored data, not import payloads
				}
				if entry == "import-set/btree" || entry == "import-clear/slice" {
					if fam != "truncate" {
						continue
					}
				}
				s, fam, entry := s, fam, entry
				r.Directed(fmt.Sprintf("%s/%s/%s", s.Name, fam, entry), func(id string) {
					var arena vArena
					muts := c06Systematic(s, fam)
					for i := range muts {
						r.Distinct(vk.Mix(vk.HashBytes(muts[i].data), vk.HashBytes([]byte(entry))), true)
						c06Run(r, id, entry, s, &muts[i], &arena)
						if len(arena.maps) > 64 {
							arena.release()
						}
					}
					arena.release()
				})
			}
		}
		// the untouched seed itself
		for _, entry := range c06Entries[:4] {
			if len(s.opAt) > 0 && entry[0] == 'i' {
				continue
			}
			s, entry := s, entry
			r.Directed(fmt.Sprintf("%s/valid/%s", s.Name, entry), func(id string) {
				var arena vArena
				m := c06Mut{"valid", s.data}
				c06Run(r, id, entry, s, &m, &arena)
				arena.release()
			})
		}
	}

	n := r.N(16000, 640000)
	r.Cases("rand", n, func(i int, id string, rng *vk.Rand) {
		seeds := fixed
		if rng.Chance(1, 2) {
			seeds = c06Seeds(rng)
		}
		s := &seeds[rng.Intn(len(seeds))]
		m := c06Random(rng, s)
		entry := c06Entries[rng.Intn(len(c06Entries))]
		if len(s.opAt) > 0 {
			entry = c06Entries[rng.Intn(2)]
		}
		if r.WantSample() {
			r.Sample(c06Wit(entry, s, &m))
		}
		r.Distinct(vk.Mix(vk.HashBytes(m.data), vk.HashBytes([]byte(entry))), true)
		var arena vArena
		c06Run(r, id, entry, s, &m, &arena)
		arena.release()
	})
}
