package roaring

// C02 — Bitmap reads stay consistent with every mutation applied.
// Model-based history runner on ONE bitmap (slice and B-tree container
// collections): after every mutation the reported change count is compared
// with the set model, and the read paths (Contains, Count, Max, Min, Any,
// CountRange, Slice, Iterator, per-container view) are compared with the
// model and therefore with each other.

import (
	"fmt"
	"runtime/debug"
	"strings"
	"testing"

	vk "github.com/pilosa/pilosa/internal/verifkit"
)

type c02State struct {
	r       *vk.Run
	h       *hHist
	b       *Bitmap
	m       hModel
	arena   vArena
	touched map[uint64]bool // container keys any op has addressed so far
	cur     int
	evals   int
	fails   []*hFail // pure-read disagreements recorded so far (the history continues after them)
}

func (s *c02State) opSig(check string) string {
	o := &s.h.Ops[s.cur]
	k := o.Kind
	if o.Fmt != "" {
		k += ":" + o.Fmt
	}
	return check + "/" + s.h.Coll + "@" + k
}

// emptyKeys: input predicates over the history so far. tail: a container key
// above the model's maximum has been addressed (it may exist, empty); any:
// some addressed container key holds no value in the model.
func (s *c02State) emptyKeys() (tail, any bool) {
	top := uint64(0)
	if len(s.m.m) > 0 {
		top = s.m.max() >> 16
	}
	for k := range s.touched {
		if len(vRange(s.m.m, k<<16, k<<16+65535)) == 0 && !vContains(s.m.m, k<<16+65535) {
			any = true
			if k > top || len(s.m.m) == 0 {
				tail = true
			}
		}
	}
	return
}

func (s *c02State) fail(check, msg string) *hFail {
	tail, any := s.emptyKeys()
	switch {
	case check == "Max" && tail:
		check += "+emptyTail"
	case any && check != "changed" && check != "rowSet" && check != "panic":
		check += "+emptyCont"
	}
	return &hFail{Sig: s.opSig(check), Msg: fmt.Sprintf("op %d %s: %s", s.cur, s.h.Ops[s.cur].Kind, msg), At: s.cur}
}

// soft records a disagreement of a pure read (the bitmap state is not in
// doubt) and lets the history continue, so that one known read defect does
// not hide everything that follows it.
func (s *c02State) soft(check, msg string) {
	f := s.fail(check, msg)
	f.Sig = f.Sig[:strings.Index(f.Sig, "@")] // a pure read: the signature is the read, the collection and the emptiness predicate
	for _, g := range s.fails {
		if g.Sig == f.Sig {
			return
		}
	}
	s.fails = append(s.fails, f)
}

func (s *c02State) eval(n int) { s.evals += n }

// c02Exec executes h on a fresh bitmap. r may be nil (shrinking re-runs).
func c02Exec(r *vk.Run, h *hHist) (fs []*hFail) {
	s := &c02State{r: r, h: h, touched: map[uint64]bool{}}
	defer s.arena.release()
	defer func() {
		if r != nil {
			r.Eval(s.evals)
		}
		if e := recover(); e != nil {
			st := string(debug.Stack())
			if len(st) > 1500 {
				st = st[:1500]
			}
			f := s.fail("panic", fmt.Sprintf("panic: %v\n%s", e, st))
			fs = append(s.fails, f)
		}
	}()
	s.b = vNewColl(h.Coll)
	prevKeys := map[uint64]string{}
	for i := range h.Ops {
		s.cur = i
		o := &h.Ops[i]
		ks := o.keys()
		for _, k := range ks {
			s.touched[k] = true
		}
		if f := s.apply(o); f != nil {
			return append(s.fails, f)
		}
		if r != nil {
			r.Cover("op:" + h.Coll + ":" + o.Kind)
			if o.isImport() {
				r.Cover("import:" + h.Coll + ":" + o.Kind + ":" + o.Fmt)
			}
			// bigrams on the same container: previous op that touched one of this op's keys
			seen := map[string]bool{}
			if ks == nil {
				for _, p := range prevKeys {
					seen[p] = true
				}
				for k := range prevKeys {
					prevKeys[k] = o.Kind
				}
			} else {
				for _, k := range ks {
					if p, ok := prevKeys[k]; ok {
						seen[p] = true
					}
					prevKeys[k] = o.Kind
				}
			}
			for p := range seen {
				r.Cover("bigram:" + h.Coll + ":" + p + ">" + o.Kind)
			}
		}
		full := len(s.m.m) <= 20000 || i == len(h.Ops)-1 || o.isImport() || o.Kind == "Optimize" || o.Kind == "Freeze" || i%7 == 3
		if f := s.reads(o, full); f != nil {
			return append(s.fails, f)
		}
	}
	return s.fails
}

func (s *c02State) apply(o *hOp) *hFail {
	b := s.b
	args := append([]uint64(nil), o.Vals...) // the code reorders its argument slice
	switch o.Kind {
	case "Add":
		want := s.m.addAll(o.Vals) > 0
		got, err := b.Add(args...)
		s.eval(1)
		if err != nil || got != want {
			return s.fail("changed", fmt.Sprintf("Add(%v) returned (%v,%v), want (%v,nil)", o.Vals, got, err, want))
		}
	case "Remove":
		want := s.m.removeAll(o.Vals) > 0
		got, err := b.Remove(args...)
		s.eval(1)
		if err != nil || got != want {
			return s.fail("changed", fmt.Sprintf("Remove(%v) returned (%v,%v), want (%v,nil)", o.Vals, got, err, want))
		}
	case "AddN":
		want := s.m.addAll(o.Vals)
		got, err := b.AddN(args...)
		s.eval(1)
		if err != nil || got != want {
			return s.fail("changed", fmt.Sprintf("AddN(%v) returned (%d,%v), want (%d,nil)", o.Vals, got, err, want))
		}
	case "RemoveN":
		want := s.m.removeAll(o.Vals)
		got, err := b.RemoveN(args...)
		s.eval(1)
		if err != nil || got != want {
			return s.fail("changed", fmt.Sprintf("RemoveN(%v) returned (%d,%v), want (%d,nil)", o.Vals, got, err, want))
		}
	case "DirectAdd":
		want := s.m.add(o.Vals[0])
		got := b.DirectAdd(o.Vals[0])
		s.eval(1)
		if got != want {
			return s.fail("changed", fmt.Sprintf("DirectAdd(%d) returned %v, want %v", o.Vals[0], got, want))
		}
	case "DirectAddN":
		want := s.m.addAll(o.Vals)
		got := b.DirectAddN(args...)
		s.eval(1)
		if got != want {
			return s.fail("changed", fmt.Sprintf("DirectAddN(%v) returned %d, want %d", o.Vals, got, want))
		}
	case "DirectRemoveN":
		want := s.m.removeAll(o.Vals)
		got := b.DirectRemoveN(args...)
		s.eval(1)
		if got != want {
			return s.fail("changed", fmt.Sprintf("DirectRemoveN(%v) returned %d, want %d", o.Vals, got, want))
		}
	case "ImportSet", "ImportClear":
		clear := o.Kind == "ImportClear"
		payload := s.arena.guardCopy(hPayload(o, false))
		pset := []uint64(o.Vals)
		var delta []uint64
		sign := 1
		if clear {
			delta = vIntersect(s.m.m, pset)
			s.m.m = vDifference(s.m.m, pset)
			sign = -1
		} else {
			delta = vDifference(pset, s.m.m)
			s.m.m = vUnion(s.m.m, pset)
		}
		got, rowSet, err := b.ImportRoaringBits(payload, clear, false, o.RowSize)
		s.eval(1)
		if err != nil || got != len(delta) {
			return s.fail("changed", fmt.Sprintf("ImportRoaringBits(clear=%v, %s, payload set %v) returned changed=%d err=%v, want %d", clear, o.Fmt, o.Vals, got, err, len(delta)))
		}
		if o.RowSize != 0 {
			want := hRowDeltas(delta, o.RowSize, sign)
			s.eval(1)
			for row, d := range want {
				if rowSet[row] != d {
					return s.fail("rowSet", fmt.Sprintf("ImportRoaringBits rowSize=%d: rowSet[%d]=%d, want %d", o.RowSize, row, rowSet[row], d))
				}
			}
			for row, d := range rowSet {
				if d != want[row] {
					return s.fail("rowSet", fmt.Sprintf("ImportRoaringBits rowSize=%d: rowSet[%d]=%d, want %d", o.RowSize, row, d, want[row]))
				}
			}
		}
	case "Optimize":
		b.Optimize()
	case "Freeze":
		fz := b.Freeze()
		if o.Switch {
			s.b = fz
		}
	default:
		panic("c02: unknown op " + o.Kind)
	}
	return nil
}

func (s *c02State) reads(o *hOp, full bool) *hFail {
	b, m := s.b, s.m.m
	// membership: the op's own values (sampled), their neighbours, pool-ish probes
	probe := func(v uint64) *hFail {
		s.eval(1)
		if got, want := b.Contains(v), vContains(m, v); got != want {
			return s.fail("Contains", fmt.Sprintf("Contains(%d)=%v, want %v", v, got, want))
		}
		return nil
	}
	step := 1
	if len(o.Vals) > 12 {
		step = len(o.Vals) / 12
	}
	for i := 0; i < len(o.Vals); i += step {
		v := o.Vals[i]
		for _, p := range []uint64{v, v + 1, v - 1} {
			if f := probe(p); f != nil {
				return f
			}
		}
	}
	for k := range s.touched {
		for _, lo := range []uint64{0, 4096, 65535} {
			if f := probe(k<<16 | lo); f != nil {
				return f
			}
		}
	}
	s.eval(1)
	if got := b.Count(); got != uint64(len(m)) {
		return s.fail("Count", fmt.Sprintf("Count()=%d, want %d", got, len(m)))
	}
	s.eval(1)
	if got := b.Max(); got != s.m.max() {
		s.soft("Max", fmt.Sprintf("Max()=%d, want %d", got, s.m.max()))
	}
	s.eval(1)
	if got := b.Any(); got != (len(m) > 0) {
		s.soft("Any", fmt.Sprintf("Any()=%v, want %v", got, len(m) > 0))
	}
	s.eval(1)
	if mn, ok := b.Min(); ok != (len(m) > 0) || (ok && mn != m[0]) {
		s.soft("Min", fmt.Sprintf("Min()=(%d,%v), model has %d values", mn, ok, len(m)))
	}
	// CountRange on windows derived from the op and the container edges
	var wins [][2]uint64
	for k := range s.touched {
		wins = append(wins, [2]uint64{k << 16, k<<16 + 65536}, [2]uint64{k<<16 + 1, k<<16 + 65535})
		if len(wins) >= 6 {
			break
		}
	}
	if len(o.Vals) > 0 {
		v := o.Vals[0]
		wins = append(wins, [2]uint64{v, v + 1}, [2]uint64{v &^ 0xFFFF, v}, [2]uint64{v, v | 0xFFFF})
	}
	if len(m) > 0 {
		wins = append(wins, [2]uint64{0, m[len(m)-1]}, [2]uint64{m[0], m[len(m)-1] + 1})
	}
	for _, w := range wins {
		if w[1] < w[0] {
			continue
		}
		s.eval(1)
		if got, want := b.CountRange(w[0], w[1]), uint64(len(vRange(m, w[0], w[1]))); got != want {
			s.soft("CountRange", fmt.Sprintf("CountRange(%d,%d)=%d, want %d", w[0], w[1], got, want))
		}
	}
	if !full {
		return nil
	}
	s.eval(3)
	if got := b.Slice(); !vk.EqualU64(got, m) {
		return s.fail("Slice", fmt.Sprintf("Slice(): %s; got %s want %s", vk.DiffU64(got, m), vk.Brief(got), vk.Brief(m)))
	}
	if got := vSliceContainers(b); !vk.EqualU64(got, m) {
		return s.fail("ContainerView", fmt.Sprintf("Containers.Iterator view: %s; got %s want %s", vk.DiffU64(got, m), vk.Brief(got), vk.Brief(m)))
	}
	from := uint64(0)
	if len(o.Vals) > 0 {
		from = o.Vals[len(o.Vals)-1]
	}
	want := vRange(m, from, ^uint64(0))
	if vContains(m, ^uint64(0)) {
		want = append(append([]uint64(nil), want...), ^uint64(0))
	}
	if got := hIterSlice(b, from); !vk.EqualU64(got, want) {
		return s.fail("Iterator", fmt.Sprintf("Iterator Seek(%d)+Next*: %s; got %s want %s", from, vk.DiffU64(got, want), vk.Brief(got), vk.Brief(want)))
	}
	return nil
}

func TestVerifC02(t *testing.T) {
	r := vk.Start(t, "C02")
	defer r.Finish()

	kinds := hKinds(hWeightsC02)
	for _, coll := range []string{"slice", "btree"} {
		for _, a := range kinds {
			r.Expect("op:" + coll + ":" + a)
			for _, b := range kinds {
				r.Expect("bigram:" + coll + ":" + a + ">" + b)
			}
		}
		for _, k := range []string{"ImportSet", "ImportClear"} {
			for _, f := range []string{"pilosa", "official"} {
				r.Expect("import:" + coll + ":" + k + ":" + f)
			}
		}
	}

	shrunk := map[string]int{}
	report := func(id string, h *hHist, fs []*hFail) {
		for _, f := range fs {
			f := f
			shrunk[f.Sig]++
			if shrunk[f.Sig] > 2 {
				r.Fail(f.Sig, id, f.Msg, nil) // counted; the first three per signature carry shrunk witnesses
				continue
			}
			sh, sf := hShrink(h, f, func(c *hHist) *hFail {
				for _, g := range c02Exec(nil, c) {
					if g.Sig == f.Sig {
						return g
					}
				}
				return nil
			}, 80)
			r.Fail(sf.Sig, id, sf.Msg, sh)
		}
	}

	// ---- directed witnesses and small matrices (both collections)
	r.Directed("witnesses", func(id string) {
		for _, coll := range []string{"slice", "btree"} {
			hs := []*hHist{
				// import into key 0 of a fresh bitmap, then read and add (B-tree lookaside zero value; slice Update on missing key)
				{Coll: coll, Ops: []hOp{hImportOp("ImportSet", "pilosa", 0, []uint16{1, 2, 3}), {Kind: "Add", Vals: hVals{4}}, {Kind: "Add", Vals: hVals{5}}}},
				// Freeze then two adds into the same (now frozen) container
				{Coll: coll, Ops: []hOp{{Kind: "Add", Vals: hVals{1}}, {Kind: "Freeze", Switch: true}, {Kind: "Add", Vals: hVals{10}}, {Kind: "Add", Vals: hVals{11}}}},
				{Coll: coll, Ops: []hOp{{Kind: "Add", Vals: hVals{1}}, {Kind: "Freeze"}, {Kind: "Add", Vals: hVals{10}}, {Kind: "Add", Vals: hVals{11}}}},
				// empty a container that is the last one, and one in the middle, then optimize
				{Coll: coll, Ops: []hOp{{Kind: "Add", Vals: hVals{5}}, {Kind: "Add", Vals: hVals{65536 + 7}}, {Kind: "Remove", Vals: hVals{65536 + 7}}}},
				{Coll: coll, Ops: []hOp{{Kind: "Add", Vals: hVals{5}}, {Kind: "RemoveN", Vals: hVals{65536 + 7}}}},
				{Coll: coll, Ops: []hOp{{Kind: "AddN", Vals: hVals{5, 65536 + 7, 131072 + 9}}, {Kind: "Remove", Vals: hVals{65536 + 7}}, {Kind: "Optimize"}, {Kind: "Add", Vals: hVals{131072 + 10}}}},
				{Coll: coll, Ops: []hOp{{Kind: "AddN", Vals: hVals{5, 65536 + 7}}, hImportOp("ImportClear", "official", 1, []uint16{7}), {Kind: "Add", Vals: hVals{6}}}},
			}
			for i, h := range hs {
				r.Distinct(vk.Hash64("w", coll, i), true)
				if f := c02Exec(r, h); len(f) > 0 {
					report(id, h, f)
				}
			}
		}
	})

	// ---- directed threshold walk: cross 4096 values and 2048 runs in both directions with every mutation kind
	r.Directed("threshold-walk", func(id string) {
		for _, coll := range []string{"slice", "btree"} {
			for _, key := range []uint64{0, 3} {
				for _, addKind := range []string{"Add", "AddN", "DirectAdd", "DirectAddN", "ImportSet"} {
					for _, remKind := range []string{"Remove", "RemoveN", "DirectRemoveN", "ImportClear"} {
						// values 0,2,4,... : n values = n runs
						mk := func(kind string, lows ...uint16) hOp {
							if kind == "ImportSet" || kind == "ImportClear" {
								return hImportOp(kind, "pilosa", key, lows)
							}
							var vs hVals
							for _, l := range lows {
								vs = append(vs, key<<16|uint64(l))
							}
							return hOp{Kind: kind, Vals: vs}
						}
						var base []uint16
						for i := 0; i < 4094; i++ {
							base = append(base, uint16(2*i))
						}
						h := &hHist{Coll: coll}
						h.Ops = append(h.Ops, mk("DirectAddN", base[:2046]...), hOp{Kind: "Optimize"})
						for i := 2046; i < 2051; i++ {
							h.Ops = append(h.Ops, mk(addKind, base[i]))
						}
						h.Ops = append(h.Ops, hOp{Kind: "Optimize"})
						for i := 2050; i >= 2045; i-- {
							h.Ops = append(h.Ops, mk(remKind, base[i]))
						}
						h.Ops = append(h.Ops, mk("DirectAddN", base...))
						for i := 0; i < 5; i++ {
							h.Ops = append(h.Ops, mk(addKind, uint16(2*i+1)))
						}
						h.Ops = append(h.Ops, hOp{Kind: "Optimize"})
						for i := 4; i >= 0; i-- {
							h.Ops = append(h.Ops, mk(remKind, uint16(2*i+1)))
							h.Ops = append(h.Ops, mk(remKind, uint16(2*i)))
						}
						r.Distinct(vk.Hash64("t", coll, key, addKind, remKind), true)
						if f := c02Exec(r, h); len(f) > 0 {
							report(id, h, f)
						}
					}
				}
			}
		}
	})

	n := r.N(4000, 160000)
	r.Cases("hist", n, func(i int, id string, rng *vk.Rand) {
		h := hGenerate(rng, false)
		if r.WantSample() {
			r.Sample(h)
		}
		// non-trivial: at least two mutations addressed the same container
		cnt := map[uint64]int{}
		nontrivial := false
		for k := range h.Ops {
			for _, key := range h.Ops[k].keys() {
				cnt[key]++
				if cnt[key] >= 2 {
					nontrivial = true
				}
			}
		}
		r.Distinct(h.hash(), nontrivial)
		if f := c02Exec(r, h); len(f) > 0 {
			report(id, h, f)
		}
	})
}
