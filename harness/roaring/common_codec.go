package roaring

// Independent encoders written from the format descriptions (NOT from the
// repo's writers): the official RoaringFormatSpec (32-bit) and Pilosa's
// 64-bit variant, plus the op-log entry encoding. They also report the byte
// offset of every field so the hostile-input engine (C06) can truncate and
// corrupt at field boundaries. Shared by C02 (import payloads), C04, C05, C06.

import (
	"encoding/binary"
	"hash/fnv"
)

const (
	vOffCookieNoRun   = 12346
	vOffCookieRun     = 12347
	vOffNoOffsetBelow = 4 // NO_OFFSET_THRESHOLD: run-cookie streams carry the offset header only with >= 4 containers
	vPilosaMagic      = 12348
)

// vOffCont is one container of an official-format stream.
type vOffCont struct {
	key  uint16
	vals []uint16 // sorted, unique, non-empty
	run  bool     // encode as run container
}

// vField marks a field of an encoding: [Off, Off+Len) and what it is.
type vField struct {
	Off  int    `json:"off"`
	Len  int    `json:"len"`
	Name string `json:"name"`
}

type vEnc struct {
	data   []byte
	fields []vField
}

func (e *vEnc) mark(name string, n int) { e.fields = append(e.fields, vField{len(e.data), n, name}) }
func (e *vEnc) u16(name string, v uint16) {
	e.mark(name, 2)
	e.data = append(e.data, byte(v), byte(v>>8))
}
func (e *vEnc) u32(name string, v uint32) {
	e.mark(name, 4)
	e.data = append(e.data, byte(v), byte(v>>8), byte(v>>16), byte(v>>24))
}
func (e *vEnc) u64(name string, v uint64) {
	e.mark(name, 8)
	var b [8]byte
	binary.LittleEndian.PutUint64(b[:], v)
	e.data = append(e.data, b[:]...)
}

func vBitmapWords(vals []uint16) []uint64 {
	w := make([]uint64, 1024)
	for _, v := range vals {
		w[v>>6] |= 1 << (v & 63)
	}
	return w
}

// vOfficialEncode writes conts (ascending keys) per the RoaringFormatSpec:
//   - no run container: cookie 12346, container count, descriptive header,
//     offset header (always), containers;
//   - some run container: cookie 12347 | (count-1)<<16, run bitset, descriptive
//     header, offset header only if count >= 4, containers.
//
// Non-run containers are arrays when cardinality <= 4096, bitmaps otherwise;
// run containers store the number of runs and (start, length-1) pairs.
func vOfficialEncode(conts []vOffCont) ([]byte, []vField) {
	e := &vEnc{}
	n := len(conts)
	hasRun := false
	for _, c := range conts {
		if c.run {
			hasRun = true
		}
	}
	if !hasRun {
		e.u32("cookie", vOffCookieNoRun)
		e.u32("count", uint32(n))
	} else {
		e.u32("cookie+count", vOffCookieRun|uint32(n-1)<<16)
		bs := make([]byte, (n+7)/8)
		for i, c := range conts {
			if c.run {
				bs[i/8] |= 1 << uint(i%8)
			}
		}
		e.mark("runbitset", len(bs))
		e.data = append(e.data, bs...)
	}
	for _, c := range conts {
		e.u16("key", c.key)
		e.u16("card-1", uint16(len(c.vals)-1))
	}
	size := func(c vOffCont) int {
		switch {
		case c.run:
			return 2 + 4*vCountRuns(c.vals)
		case len(c.vals) <= 4096:
			return 2 * len(c.vals)
		}
		return 8192
	}
	if !hasRun || n >= vOffNoOffsetBelow {
		off := len(e.data) + 4*n
		for _, c := range conts {
			e.u32("offset", uint32(off))
			off += size(c)
		}
	}
	for _, c := range conts {
		switch {
		case c.run:
			runs := vToRuns(c.vals)
			e.u16("nruns", uint16(len(runs)))
			for _, iv := range runs {
				e.u16("runstart", iv.start)
				e.u16("runlen-1", iv.last-iv.start)
			}
		case len(c.vals) <= 4096:
			e.mark("array", 2*len(c.vals))
			for _, v := range c.vals {
				e.data = append(e.data, byte(v), byte(v>>8))
			}
		default:
			e.mark("bitmap", 8192)
			var b [8]byte
			for _, w := range vBitmapWords(c.vals) {
				binary.LittleEndian.PutUint64(b[:], w)
				e.data = append(e.data, b[:]...)
			}
		}
	}
	return e.data, e.fields
}

// vPilCont is one container of a Pilosa-format stream.
type vPilCont struct {
	key  uint64
	vals []uint16 // sorted, unique, non-empty
	enc  byte     // containerArray | containerBitmap | containerRun
}

// vPilosaEncode writes Pilosa's format: cookie 12348 | version 0 | flags,
// container count, (key u64, type u16, card-1 u16) per container, u32 offset
// per container, then container bodies (array: u16 values; bitmap: 1024 u64;
// run: u16 run count then (start,last) u16 pairs).
func vPilosaEncode(conts []vPilCont, flags byte) ([]byte, []vField) {
	e := &vEnc{}
	e.u32("cookie", vPilosaMagic|uint32(flags)<<24)
	e.u32("count", uint32(len(conts)))
	for _, c := range conts {
		e.u64("key", c.key)
		e.u16("type", uint16(c.enc))
		e.u16("card-1", uint16(len(c.vals)-1))
	}
	off := len(e.data) + 4*len(conts)
	for _, c := range conts {
		e.u32("offset", uint32(off))
		switch c.enc {
		case containerArray:
			off += 2 * len(c.vals)
		case containerBitmap:
			off += 8192
		case containerRun:
			off += 2 + 4*vCountRuns(c.vals)
		}
	}
	for _, c := range conts {
		switch c.enc {
		case containerArray:
			e.mark("array", 2*len(c.vals))
			for _, v := range c.vals {
				e.data = append(e.data, byte(v), byte(v>>8))
			}
		case containerBitmap:
			e.mark("bitmap", 8192)
			var b [8]byte
			for _, w := range vBitmapWords(c.vals) {
				binary.LittleEndian.PutUint64(b[:], w)
				e.data = append(e.data, b[:]...)
			}
		case containerRun:
			runs := vToRuns(c.vals)
			e.u16("nruns", uint16(len(runs)))
			for _, iv := range runs {
				e.u16("runstart", iv.start)
				e.u16("runlast", iv.last)
			}
		}
	}
	return e.data, e.fields
}

// vOpEncode writes one op-log entry: type u8, value/count/length u64,
// checksum u32 (fnv32a over bytes 0..9 and everything after the checksum),
// then for batches count u64 values, for roaring ops opN u32 + payload.
// typ: 0 add, 1 remove, 2 add batch, 3 remove batch, 4 add roaring, 5 remove roaring.
func vOpEncode(typ byte, value uint64, values []uint64, opN uint32, payload []byte) ([]byte, []vField) {
	e := &vEnc{}
	e.mark("optype", 1)
	e.data = append(e.data, typ)
	switch typ {
	case 0, 1:
		e.u64("opvalue", value)
	case 2, 3:
		e.u64("opcount", uint64(len(values)))
	default:
		e.u64("oplen", uint64(len(payload)))
	}
	e.u32("opchecksum", 0)
	switch typ {
	case 2, 3:
		for _, v := range values {
			e.u64("opbatchval", v)
		}
	case 4, 5:
		e.u32("opN", opN)
		e.mark("oppayload", len(payload))
		e.data = append(e.data, payload...)
	}
	vOpFixChecksum(e.data)
	return e.data, e.fields
}

// vOpFixChecksum recomputes the checksum of the single op entry in buf.
func vOpFixChecksum(buf []byte) {
	if len(buf) < 13 {
		return
	}
	h := fnv.New32a()
	h.Write(buf[0:9])
	h.Write(buf[13:])
	binary.LittleEndian.PutUint32(buf[9:13], h.Sum32())
}

// vSpecOfficial converts a bitmap spec (keys < 2^16) into official containers;
// Enc "run" becomes a run container, everything else follows the cardinality.
func vSpecOfficial(s vBitmapSpec, allowRuns bool) []vOffCont {
	var out []vOffCont
	for _, c := range s.Conts {
		if len(c.vals) == 0 {
			continue
		}
		out = append(out, vOffCont{key: uint16(c.Key), vals: c.vals, run: allowRuns && c.enc == containerRun})
	}
	return out
}

// vSpecPilosa converts a bitmap spec into Pilosa containers with the spec's
// forced encodings.
func vSpecPilosa(s vBitmapSpec) []vPilCont {
	var out []vPilCont
	for _, c := range s.Conts {
		if len(c.vals) == 0 {
			continue
		}
		out = append(out, vPilCont{key: c.Key, vals: c.vals, enc: c.enc})
	}
	return out
}
