package boltdb

// C25 — Attributes merge, persist and diff correctly.
//
// Model-based histories on two real boltdb attrStores (A and B) in a scratch
// directory: SetAttrs / SetBulkAttrs with string, int64, bool, float64 values,
// int/uint/uint64 coercions, nil deletes, empty maps and an invalid type;
// reads of present and absent ids; Close/Open (same object and a fresh one);
// and a HOSTILE caller that writes into and deletes from maps previously
// returned by Attrs. Oracle: a model map[id]map[key]value with Go dynamic
// types. After every step a read battery compares Attrs(id) with the model;
// Blocks()/BlockData(b) must list exactly the ids of [100b,100b+99] that have
// attributes (ids whose map became empty may or may not be listed) with the
// model's values, and the checksums of A and B must be equal exactly when their
// BlockData are equal.
//
// Each history has one hostility mode (none / absent: only results for ids
// without attributes are mutated / present: only results for ids with
// attributes); failure signatures are "attrs:hostile=<mode>" and
// "blocks:hostile=<mode>" — predicates over the generated history.

import (
	"bytes"
	"fmt"
	"math"
	"os"
	"path/filepath"
	"reflect"
	"sort"
	"testing"

	"github.com/pilosa/pilosa"
	vk "github.com/pilosa/pilosa/internal/verifkit"
)

var c25IDs = []uint64{0, 1, 2, 50, 98, 99, 100, 101, 150, 199, 200, 201, 299, 300, 1000, 1 << 20, 1<<40 + 99, 1<<40 + 100}
var c25Keys = []string{"a", "b", "c", "name", "", "ключ", "k e y", "\U0001F600", "x.y", "HOSTILE"}

type c25Model map[uint64]map[string]interface{}

type c25Step struct {
	Op    string                       `json:"op"`
	Store string                       `json:"store,omitempty"`
	ID    uint64                       `json:"id,omitempty"`
	Attrs map[string]string            `json:"attrs,omitempty"` // rendered "<type>(<value>)"
	Bulk  map[string]map[string]string `json:"bulk,omitempty"`
}

func c25Render(m map[string]interface{}) map[string]string {
	out := map[string]string{}
	for k, v := range m {
		out[k] = fmt.Sprintf("%T(%v)", v, v)
	}
	return out
}

func c25Value(rng *vk.Rand, allowNil, allowInvalid bool) interface{} {
	k := rng.Intn(14)
	switch {
	case k == 0 && allowNil, k == 1 && allowNil:
		return nil
	case k == 2 && allowInvalid && rng.Chance(1, 4):
		return int32(7) // not an attribute type: the call must fail and change nothing
	case k < 5:
		return []string{"", "x", "value", "значение", "a\nb", "1", "true"}[rng.Intn(7)]
	case k < 8:
		return []int64{0, 1, -1, 42, math.MaxInt64, math.MinInt64, 1 << 53}[rng.Intn(7)]
	case k < 10:
		return rng.Bool()
	case k < 12:
		return []float64{0, 1.5, -2.25, math.Copysign(0, -1), 1e300, math.Inf(1), 1, 42}[rng.Intn(8)]
	case k == 12:
		switch rng.Intn(3) {
		case 0:
			return int(rng.Intn(100)) - 50
		case 1:
			return uint(rng.Intn(100))
		}
		return uint64(rng.Intn(100))
	}
	return int64(rng.Intn(3))
}

func c25GenAttrs(rng *vk.Rand, allowInvalid bool) map[string]interface{} {
	n := rng.Intn(4)
	if rng.Chance(1, 12) {
		n = 0
	}
	m := map[string]interface{}{}
	for i := 0; i < n; i++ {
		m[c25Keys[rng.Intn(len(c25Keys)-1)]] = c25Value(rng, true, allowInvalid)
	}
	return m
}

// c25Apply applies one attribute update to the model the way the statement describes; it
// reports false (and changes nothing) when the update carries a value of a non-attribute type.
func c25Coerce(v interface{}) (interface{}, bool) {
	switch x := v.(type) {
	case int:
		return int64(x), true
	case uint:
		return int64(x), true
	case uint64:
		return int64(x), true
	case string, int64, bool, float64:
		return v, true
	}
	return nil, false
}

func c25Valid(m map[string]interface{}) bool {
	for _, v := range m {
		if v == nil {
			continue
		}
		if _, ok := c25Coerce(v); !ok {
			return false
		}
	}
	return true
}

func (mo c25Model) apply(id uint64, m map[string]interface{}) {
	for k, v := range m {
		if v == nil {
			if mo[id] != nil {
				delete(mo[id], k)
			}
			continue
		}
		if mo[id] == nil {
			mo[id] = map[string]interface{}{}
		}
		cv, _ := c25Coerce(v)
		mo[id][k] = cv
	}
}

func c25SameValue(a, b interface{}) bool {
	if reflect.TypeOf(a) != reflect.TypeOf(b) {
		return false
	}
	if fa, ok := a.(float64); ok {
		fb := b.(float64)
		return fa == fb || (math.IsNaN(fa) && math.IsNaN(fb))
	}
	return a == b
}

func c25SameAttrs(got, want map[string]interface{}) string {
	for k, w := range want {
		g, ok := got[k]
		if !ok {
			return fmt.Sprintf("key %q missing (want %T(%v))", k, w, w)
		}
		if !c25SameValue(g, w) {
			return fmt.Sprintf("key %q: got %T(%v) want %T(%v)", k, g, g, w, w)
		}
	}
	for k, g := range got {
		if _, ok := want[k]; !ok {
			return fmt.Sprintf("unexpected key %q = %T(%v)", k, g, g)
		}
	}
	return ""
}

type c25Store struct {
	name  string
	path  string
	st    pilosa.AttrStore
	model c25Model
}

func (s *c25Store) open(fresh bool) error {
	if fresh || s.st == nil {
		s.st = NewAttrStore(s.path)
	}
	if err := s.st.Open(); err != nil {
		return err
	}
	// durability across crashes is not this property: skip fsync (clean Close/Open only)
	if as, ok := s.st.(*attrStore); ok && as.db != nil {
		as.db.NoSync = true
	}
	return nil
}

type c25Hist struct {
	Hostile string    `json:"hostility"`
	Steps   []c25Step `json:"steps"`
}

func TestVerifC25(t *testing.T) {
	r := vk.Start(t, "C25")
	defer r.Finish()
	scratch := os.Getenv("VERIF_SCRATCH")
	if scratch == "" {
		scratch = os.TempDir()
	}
	r.Expect("op:SetAttrs", "op:SetBulkAttrs", "op:Reopen-same", "op:Reopen-fresh", "op:hostile-write", "op:hostile-delete", "op:hostile-reuse-of-input-map", "op:invalid-type", "op:mirror",
		"read:present", "read:absent", "read:absent-after-delete", "val:string", "val:int64", "val:bool", "val:float64", "val:coerced", "val:nil-delete",
		"blocks:equal-checksum", "blocks:unequal-checksum", "blocks:boundary-99/100", "blocks:boundary-199/200", "hostility:none", "hostility:absent", "hostility:present")

	runHist := func(id string, rng *vk.Rand, nsteps int, forcedMode string) {
		mode := []string{"none", "none", "absent", "present", "present"}[rng.Intn(5)]
		if forcedMode != "" {
			mode = forcedMode
		}
		r.Cover("hostility:" + mode)
		sigA, sigB := "attrs:hostile="+mode, "blocks:hostile="+mode
		dir := filepath.Join(scratch, fmt.Sprintf("c25-%d", rng.Uint64()))
		os.MkdirAll(dir, 0o755)
		defer os.RemoveAll(dir)
		stores := []*c25Store{{name: "A", path: filepath.Join(dir, "a.db"), model: c25Model{}}, {name: "B", path: filepath.Join(dir, "b.db"), model: c25Model{}}}
		hist := &c25Hist{Hostile: mode}
		wit := func() interface{} { return hist }
		for _, s := range stores {
			if err := s.open(true); err != nil {
				r.Fail("open", id, err.Error(), wit())
				return
			}
		}
		defer func() {
			for _, s := range stores {
				s.st.Close()
			}
		}()
		// maps handed out for ids WITHOUT attributes; the hostile caller empties them again at the end
		// of the history so that a store that shares one global map for all absent ids cannot leak
		// state into the next history of this process.
		var absentMaps []map[string]interface{}
		defer func() {
			for _, m := range absentMaps {
				for k := range m {
					delete(m, k)
				}
			}
		}()
		failed := false
		fail := func(sig, msg string) {
			failed = true
			r.Fail(sig, id, fmt.Sprintf("after step %d: %s", len(hist.Steps), msg), wit())
		}

		read := func(s *c25Store, rid uint64, hostileOK bool) {
			got, err := s.st.Attrs(rid)
			r.Eval(1)
			if err != nil {
				fail(sigA, fmt.Sprintf("store %s Attrs(%d) error: %v", s.name, rid, err))
				return
			}
			want := s.model[rid]
			if len(want) > 0 {
				r.Cover("read:present")
			} else {
				r.Cover("read:absent")
				if _, ever := s.model[rid]; ever {
					r.Cover("read:absent-after-delete")
				}
			}
			if d := c25SameAttrs(got, want); d != "" {
				fail(sigA, fmt.Sprintf("store %s Attrs(%d): %s; got %v want %v", s.name, rid, d, c25Render(got), c25Render(want)))
				return
			}
			// hostile caller: scribble over the map we were handed
			if !hostileOK || got == nil || mode == "none" || (mode == "absent") != (len(want) == 0) {
				return
			}
			if len(want) == 0 {
				absentMaps = append(absentMaps, got)
			}
			hist.Steps = append(hist.Steps, c25Step{Op: "hostile-scribble-on-result-of-Attrs", Store: s.name, ID: rid})
			if rng.Bool() || len(got) == 0 {
				got["HOSTILE"] = []interface{}{"evil", int64(666), true, 6.66}[rng.Intn(4)]
				r.Cover("op:hostile-write")
			}
			for k := range got {
				if k != "HOSTILE" && rng.Bool() {
					if rng.Bool() {
						delete(got, k)
						r.Cover("op:hostile-delete")
					} else {
						got[k] = "overwritten"
						r.Cover("op:hostile-write")
					}
				}
			}
		}

		checkBlocks := func() {
			type bl struct {
				sum  []byte
				data map[uint64]map[string]interface{}
			}
			per := make([]map[uint64]bl, 2)
			for si, s := range stores {
				per[si] = map[uint64]bl{}
				blocks, err := s.st.Blocks()
				r.Eval(1)
				if err != nil {
					fail(sigB, fmt.Sprintf("store %s Blocks() error: %v", s.name, err))
					return
				}
				// which blocks must / may be listed
				must, may := map[uint64]bool{}, map[uint64]bool{}
				for mid, attrs := range s.model {
					may[mid/100] = true
					if len(attrs) > 0 {
						must[mid/100] = true
					}
				}
				var prev uint64
				for bi, b := range blocks {
					if bi > 0 && b.ID <= prev {
						fail(sigB, fmt.Sprintf("store %s Blocks() not strictly ascending at block %d", s.name, b.ID))
						return
					}
					prev = b.ID
					if !may[b.ID] {
						fail(sigB, fmt.Sprintf("store %s Blocks() lists block %d which never held an id", s.name, b.ID))
						return
					}
					delete(must, b.ID)
					data, err := s.st.BlockData(b.ID)
					r.Eval(1)
					if err != nil {
						fail(sigB, fmt.Sprintf("store %s BlockData(%d) error: %v", s.name, b.ID, err))
						return
					}
					per[si][b.ID] = bl{b.Checksum, data}
					if b.ID == 0 || b.ID == 1 {
						r.Cover("blocks:boundary-99/100")
					}
					if b.ID == 1 || b.ID == 2 {
						r.Cover("blocks:boundary-199/200")
					}
					for did, attrs := range data {
						if did/100 != b.ID {
							fail(sigB, fmt.Sprintf("store %s BlockData(%d) lists id %d of another block", s.name, b.ID, did))
							return
						}
						if d := c25SameAttrs(attrs, s.model[did]); d != "" {
							fail(sigB, fmt.Sprintf("store %s BlockData(%d) id %d: %s", s.name, b.ID, did, d))
							return
						}
					}
					for mid, attrs := range s.model {
						if mid/100 == b.ID && len(attrs) > 0 {
							if _, ok := data[mid]; !ok {
								fail(sigB, fmt.Sprintf("store %s BlockData(%d) misses id %d which has attributes", s.name, b.ID, mid))
								return
							}
						}
					}
				}
				for b := range must {
					fail(sigB, fmt.Sprintf("store %s Blocks() misses block %d which holds attributes", s.name, b))
					return
				}
			}
			// equal checksums exactly when equal block data
			for bid, a := range per[0] {
				b, ok := per[1][bid]
				if !ok {
					continue
				}
				r.Eval(1)
				same := len(a.data) == len(b.data)
				if same {
					for did, attrs := range a.data {
						o, ok := b.data[did]
						if !ok || c25SameAttrs(attrs, o) != "" {
							same = false
							break
						}
					}
				}
				eq := bytes.Equal(a.sum, b.sum)
				if eq {
					r.Cover("blocks:equal-checksum")
				} else {
					r.Cover("blocks:unequal-checksum")
				}
				if eq != same {
					fail(sigB, fmt.Sprintf("block %d: checksums equal=%v but BlockData equal=%v (A %v, B %v)", bid, eq, same, a.data, b.data))
					return
				}
			}
		}

		for step := 0; step < nsteps && !failed; step++ {
			s := stores[rng.Intn(2)]
			var touched []uint64
			switch k := rng.Intn(20); {
			case k < 9: // SetAttrs (sometimes mirrored on the other store)
				aid := c25IDs[rng.Intn(len(c25IDs))]
				attrs := c25GenAttrs(rng, true)
				targets := []*c25Store{s}
				if rng.Chance(1, 2) {
					targets = stores
					r.Cover("op:mirror")
				}
				for _, ts := range targets {
					in := map[string]interface{}{}
					for k, v := range attrs {
						in[k] = v
					}
					hist.Steps = append(hist.Steps, c25Step{Op: "SetAttrs", Store: ts.name, ID: aid, Attrs: c25Render(in)})
					err := ts.st.SetAttrs(aid, in)
					r.Cover("op:SetAttrs")
					if mode != "none" {
						// the caller reuses / scribbles over the map it passed in: the store must have kept its own copy
						for k := range in {
							delete(in, k)
						}
						in["scribbled-input"] = int64(99)
						r.Cover("op:hostile-reuse-of-input-map")
					}
					valid := c25Valid(attrs)
					if !valid {
						r.Cover("op:invalid-type")
					}
					if valid && err != nil {
						fail(sigA, fmt.Sprintf("store %s SetAttrs(%d) error: %v", ts.name, aid, err))
					} else if !valid && err == nil && len(attrs) > 0 {
						fail(sigA, fmt.Sprintf("store %s SetAttrs(%d) accepted a value of a non-attribute type", ts.name, aid))
					}
					if valid && len(attrs) > 0 {
						if _, ok := ts.model[aid]; !ok {
							ts.model[aid] = map[string]interface{}{} // a record (possibly empty) may now exist
						}
						ts.model.apply(aid, attrs)
					}
				}
				for _, v := range attrs {
					switch v.(type) {
					case nil:
						r.Cover("val:nil-delete")
					case string:
						r.Cover("val:string")
					case int64:
						r.Cover("val:int64")
					case bool:
						r.Cover("val:bool")
					case float64:
						r.Cover("val:float64")
					case int, uint, uint64:
						r.Cover("val:coerced")
					}
				}
				touched = append(touched, aid)
			case k < 13: // SetBulkAttrs
				bulk := map[uint64]map[string]interface{}{}
				for n := 1 + rng.Intn(4); n > 0; n-- {
					bulk[c25IDs[rng.Intn(len(c25IDs))]] = c25GenAttrs(rng, false)
				}
				targets := []*c25Store{s}
				if rng.Chance(1, 2) {
					targets = stores
					r.Cover("op:mirror")
				}
				for _, ts := range targets {
					in := map[uint64]map[string]interface{}{}
					rend := map[string]map[string]string{}
					for bid, attrs := range bulk {
						in[bid] = map[string]interface{}{}
						for k, v := range attrs {
							in[bid][k] = v
						}
						rend[fmt.Sprint(bid)] = c25Render(attrs)
					}
					hist.Steps = append(hist.Steps, c25Step{Op: "SetBulkAttrs", Store: ts.name, Bulk: rend})
					if err := ts.st.SetBulkAttrs(in); err != nil {
						fail(sigA, fmt.Sprintf("store %s SetBulkAttrs error: %v", ts.name, err))
					}
					if mode != "none" {
						for _, mm := range in {
							for k := range mm {
								delete(mm, k)
							}
							mm["scribbled-input"] = int64(99)
						}
						r.Cover("op:hostile-reuse-of-input-map")
					}
					r.Cover("op:SetBulkAttrs")
					for bid, attrs := range bulk {
						if _, ok := ts.model[bid]; !ok {
							ts.model[bid] = map[string]interface{}{} // a record (possibly empty) now exists
						}
						ts.model.apply(bid, attrs)
					}
				}
				for bid := range bulk {
					touched = append(touched, bid)
				}
			case k < 15: // reopen
				fresh := rng.Bool()
				hist.Steps = append(hist.Steps, c25Step{Op: map[bool]string{true: "Close+Open(new store object)", false: "Close+Open(same object)"}[fresh], Store: s.name})
				s.st.Close()
				if err := s.open(fresh); err != nil {
					fail(sigA, "reopen: "+err.Error())
					break
				}
				if fresh {
					r.Cover("op:Reopen-fresh")
				} else {
					r.Cover("op:Reopen-same")
				}
			default: // pure reads
			}
			if failed {
				break
			}
			// read battery: touched ids on both stores, then random ids (present and absent)
			sort.Slice(touched, func(i, j int) bool { return touched[i] < touched[j] })
			for _, tid := range touched {
				for _, rs := range stores {
					read(rs, tid, true)
				}
			}
			for n := 2 + rng.Intn(3); n > 0 && !failed; n-- {
				read(stores[rng.Intn(2)], c25IDs[rng.Intn(len(c25IDs))], true)
			}
			// second read of the same ids: whatever the caller did to the earlier maps must not show
			for _, tid := range touched {
				if failed {
					break
				}
				for _, rs := range stores {
					read(rs, tid, false)
				}
			}
			if !failed && rng.Chance(1, 3) {
				checkBlocks()
			}
		}
		if !failed {
			checkBlocks()
			for _, s := range stores {
				for _, rid := range c25IDs {
					if !failed {
						read(s, rid, false)
					}
				}
			}
		}
		r.Distinct(vk.Hash64(id), len(hist.Steps) > 0)
		if r.WantSample() && len(hist.Steps) > 4 {
			r.Sample(hist)
		}
	}

	r.Directed("modes", func(id string) {
		for i, m := range []string{"none", "absent", "present"} {
			for k := 0; k < 6; k++ {
				runHist(id, vk.NewRand(vk.Mix(r.Seed, 0xC25, uint64(i), uint64(k))), 25, m)
			}
		}
	})

	n := r.N(4000, 150000)
	r.Cases("hist", n, func(i int, id string, rng *vk.Rand) {
		runHist(id, rng, 8+rng.Intn(30), "")
	})
}
