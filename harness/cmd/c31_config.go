package cmd_test

// C31 — Configuration sources combine with fixed precedence and round-trip.
//
// The real root command (cmd.NewRootCommand) is run as
//   server --dry-run [--config <file>] [--<option>=<v>]   with PILOSA_<OPTION> in the environment
// which returns the error "dry run" right after setAllConfig merged the sources
// into the exported cmd.Server.Config. viper/pflag state is process-global, so
// EVERY evaluation runs in its own child process: this test binary re-executed
// with -test.run ^TestVerifC31Child$; the child prints the value of every flag
// of the server command (the flags point into Server.Config) and the Config.
//
// Precedence matrix (complete): options are enumerated from the server
// command's own FlagSet; for every option x every subset of {file, env, flag}
// with pairwise distinct values (bools alternate) the parsed value must be the
// highest-priority supplied one (flag > env > file > default), and no OTHER
// option may change.
// Round trip: random server.Config values over all option types are rendered
// with toml.Marshal exactly as ctl/generate_config.go does, passed as --config
// and compared with the parsed Config (variant "as-generated"; variant
// "tagged-only" drops the lines of struct fields that have no toml tag so the
// remaining options stay observable).

import (
	"bytes"
	"encoding/json"
	"fmt"
	"io"
	"os"
	"os/exec"
	"path/filepath"
	"reflect"
	"sort"
	"strconv"
	"strings"
	"testing"
	"time"

	gotoml "github.com/pelletier/go-toml"
	"github.com/pilosa/pilosa/cmd"
	vk "github.com/pilosa/pilosa/internal/verifkit"
	"github.com/pilosa/pilosa/server"
	"github.com/pilosa/pilosa/toml"
	"github.com/spf13/cobra"
	"github.com/spf13/pflag"
)

type c31Flag struct {
	Type  string `json:"type"`
	Value string `json:"value"`
	Def   string `json:"default"`
}

type c31Out struct {
	Err    string             `json:"err"`
	Flags  map[string]c31Flag `json:"flags"`
	Config *server.Config     `json:"config"`
}

const c31Marker = "C31JSON:"

func c31ServerCmd() (*cobra.Command, *cobra.Command) {
	root := cmd.NewRootCommand(strings.NewReader(""), io.Discard, io.Discard)
	for _, c := range root.Commands() {
		if c.Name() == "server" {
			return root, c
		}
	}
	return root, nil
}

// TestVerifC31Child is the helper executed in a child process. It is inert unless VERIF_C31_ARGS is set.
func TestVerifC31Child(t *testing.T) {
	spec := os.Getenv("VERIF_C31_ARGS")
	if spec == "" {
		t.Skip("helper for TestVerifC31")
	}
	var args []string
	if err := json.Unmarshal([]byte(spec), &args); err != nil {
		t.Fatalf("bad spec: %v", err)
	}
	root, serve := c31ServerCmd()
	root.SetArgs(args)
	out := c31Out{Flags: map[string]c31Flag{}}
	if err := root.Execute(); err != nil {
		out.Err = err.Error()
	}
	serve.Flags().VisitAll(func(f *pflag.Flag) {
		out.Flags[f.Name] = c31Flag{Type: f.Value.Type(), Value: f.Value.String(), Def: f.DefValue}
	})
	out.Config = cmd.Server.Config
	b, err := json.Marshal(out)
	if err != nil {
		t.Fatalf("marshal: %v", err)
	}
	fmt.Printf("\n%s%s\n", c31Marker, b)
}

// c31Run executes one evaluation in a child process.
func c31Run(args []string, env map[string]string) (*c31Out, string, error) {
	spec, _ := json.Marshal(args)
	c := exec.Command(os.Args[0], "-test.run", "^TestVerifC31Child$", "-test.count", "1", "-test.timeout", "60s")
	for _, kv := range os.Environ() {
		if strings.HasPrefix(kv, "PILOSA_") || strings.HasPrefix(kv, "VERIF_OUT=") || strings.HasPrefix(kv, "VERIF_C31_") {
			continue
		}
		c.Env = append(c.Env, kv)
	}
	c.Env = append(c.Env, "VERIF_C31_ARGS="+string(spec))
	keys := make([]string, 0, len(env))
	for k := range env {
		keys = append(keys, k)
	}
	sort.Strings(keys)
	for _, k := range keys {
		c.Env = append(c.Env, k+"="+env[k])
	}
	var stdout, stderr bytes.Buffer
	c.Stdout, c.Stderr = &stdout, &stderr
	runErr := c.Run()
	for _, line := range strings.Split(stdout.String(), "\n") {
		if strings.HasPrefix(line, c31Marker) {
			var out c31Out
			if err := json.Unmarshal([]byte(line[len(c31Marker):]), &out); err != nil {
				return nil, stdout.String(), err
			}
			return &out, "", nil
		}
	}
	tail := stdout.String() + stderr.String()
	if len(tail) > 1500 {
		tail = tail[len(tail)-1500:]
	}
	return nil, tail, fmt.Errorf("child produced no result (run error: %v)", runErr)
}

// ---- option values

// c31Values returns, for a flag type, three source texts (file as TOML literal, env, flag) and the
// String() the flag's Value must then show, indexed file=0 env=1 flag=2.
func c31Values(typ, def string) (tomlLit, envTxt, flagTxt, want [3]string, ok bool) {
	switch typ {
	case "string":
		v := [3]string{"from-file", "from-env", "from-flag"}
		for i := range v {
			tomlLit[i], envTxt[i], flagTxt[i], want[i] = strconv.Quote(v[i]), v[i], v[i], v[i]
		}
	case "int", "uint64":
		v := [3]string{"1111", "2222", "3333"}
		for i := range v {
			tomlLit[i], envTxt[i], flagTxt[i], want[i] = v[i], v[i], v[i], v[i]
		}
	case "float64":
		v := [3]string{"0.11", "0.22", "0.33"}
		for i := range v {
			tomlLit[i], envTxt[i], flagTxt[i], want[i] = v[i], v[i], v[i], v[i]
		}
	case "duration":
		v := [3]string{"11s", "22s", "33s"}
		for i := range v {
			tomlLit[i], envTxt[i], flagTxt[i], want[i] = strconv.Quote(v[i]), v[i], v[i], v[i]
		}
	case "bool":
		// only two values exist: the highest-priority source always differs from the next one
		d := def == "true"
		v := [3]bool{!d, d, !d} // file, env, flag ; with fewer sources see c31BoolFor
		for i := range v {
			s := strconv.FormatBool(v[i])
			tomlLit[i], envTxt[i], flagTxt[i], want[i] = s, s, s, s
		}
	case "stringSlice":
		v := [3][]string{{"f1", "f2"}, {"e1", "e2", "e3"}, {"g1"}}
		for i := range v {
			q := make([]string, len(v[i]))
			for j := range q {
				q[j] = strconv.Quote(v[i][j])
			}
			tomlLit[i] = "[" + strings.Join(q, ", ") + "]"
			envTxt[i], flagTxt[i] = strings.Join(v[i], ","), strings.Join(v[i], ",")
			want[i] = "[" + strings.Join(v[i], ",") + "]"
		}
	default:
		return tomlLit, envTxt, flagTxt, want, false
	}
	return tomlLit, envTxt, flagTxt, want, true
}

func c31TomlFor(option, lit string) string {
	if i := strings.Index(option, "."); i >= 0 {
		return fmt.Sprintf("[%s]\n%s = %s\n", option[:i], option[i+1:], lit)
	}
	return fmt.Sprintf("%s = %s\n", option, lit)
}

func c31EnvName(option string) string {
	return "PILOSA_" + strings.ToUpper(strings.NewReplacer("-", "_", ".", "_").Replace(option))
}

type c31Case struct {
	Option  string            `json:"option,omitempty"`
	Sources []string          `json:"sources,omitempty"`
	File    string            `json:"config_file,omitempty"`
	Env     map[string]string `json:"env,omitempty"`
	Args    []string          `json:"args"`
	Variant string            `json:"variant,omitempty"`
}

// ---- random configs

func c31RandConfig(rng *vk.Rand) *server.Config {
	c := server.NewConfig()
	var fill func(v reflect.Value)
	strs := []string{"", "x", "/var/lib/pilosa data", "localhost:10101", "https://h.example:443", "a\"quote", "back\\slash", "naïve-ключ", "tab\there", "#hash", "none", "off", "expvar"}
	fill = func(v reflect.Value) {
		t := v.Type()
		if t == reflect.TypeOf(toml.Duration(0)) {
			v.SetInt(int64(time.Duration(rng.Intn(100000)) * []time.Duration{time.Millisecond, time.Second, time.Minute, 1}[rng.Intn(4)]))
			return
		}
		switch v.Kind() {
		case reflect.Struct:
			for i := 0; i < v.NumField(); i++ {
				if t.Field(i).PkgPath == "" {
					fill(v.Field(i))
				}
			}
		case reflect.String:
			v.SetString(strs[rng.Intn(len(strs))])
		case reflect.Bool:
			v.SetBool(rng.Bool())
		case reflect.Int, reflect.Int64:
			v.SetInt(int64([]int{0, 1, 7, 5000, 1 << 30, -1, -42}[rng.Intn(7)]))
		case reflect.Uint64:
			v.SetUint([]uint64{0, 1, 1000000, 1 << 40, 1<<63 - 1}[rng.Intn(5)])
		case reflect.Float64:
			v.SetFloat([]float64{0, 0.001, 1, 0.5, 123.25}[rng.Intn(5)])
		case reflect.Slice:
			// []string; elements never contain a comma (flags and env vars are comma separated lists by design)
			n := rng.Intn(4)
			s := reflect.MakeSlice(t, n, n)
			for i := 0; i < n; i++ {
				s.Index(i).SetString([]string{"h1:10101", "http://a.example", "x y", "ü"}[rng.Intn(4)])
			}
			v.Set(s)
		}
	}
	fill(reflect.ValueOf(c).Elem())
	return c
}

// c31Untagged lists the top-level fields of server.Config without a toml tag (rendered under their Go name).
func c31Untagged() []string {
	var out []string
	t := reflect.TypeOf(server.Config{})
	for i := 0; i < t.NumField(); i++ {
		if t.Field(i).PkgPath == "" && t.Field(i).Tag.Get("toml") == "" {
			out = append(out, t.Field(i).Name)
		}
	}
	return out
}

func c31ConfigDiff(got, want reflect.Value, path string, skip map[string]bool) string {
	switch want.Kind() {
	case reflect.Struct:
		for i := 0; i < want.NumField(); i++ {
			f := want.Type().Field(i)
			if f.PkgPath != "" || (path == "" && skip[f.Name]) {
				continue
			}
			if d := c31ConfigDiff(got.Field(i), want.Field(i), path+"."+f.Name, skip); d != "" {
				return d
			}
		}
		return ""
	case reflect.Slice:
		if got.Len() != want.Len() {
			return fmt.Sprintf("%s: got %v want %v", path, got.Interface(), want.Interface())
		}
		for i := 0; i < want.Len(); i++ {
			if d := c31ConfigDiff(got.Index(i), want.Index(i), fmt.Sprintf("%s[%d]", path, i), skip); d != "" {
				return d
			}
		}
		return ""
	}
	if got.Interface() != want.Interface() {
		return fmt.Sprintf("%s: got %v want %v", path, got.Interface(), want.Interface())
	}
	return ""
}

func TestVerifC31(t *testing.T) {
	r := vk.Start(t, "C31")
	defer r.Finish()
	scratch := os.Getenv("VERIF_SCRATCH")
	if scratch == "" {
		scratch = os.TempDir()
	}

	// options come from the command's own FlagSet
	_, serve := c31ServerCmd()
	if serve == nil {
		t.Fatalf("no server command")
	}
	type opt struct{ name, typ, def string }
	var opts []opt
	serve.Flags().VisitAll(func(f *pflag.Flag) {
		opts = append(opts, opt{f.Name, f.Value.Type(), f.DefValue})
	})
	sort.Slice(opts, func(i, j int) bool { return opts[i].name < opts[j].name })
	subsets := []string{"none", "file", "env", "flag", "file+env", "file+flag", "env+flag", "file+env+flag"}
	for _, o := range opts {
		if _, _, _, _, ok := c31Values(o.typ, o.def); !ok {
			continue // reported below as an unobserved class
		}
		for _, s := range subsets {
			r.Expect("prec:" + o.name + ":" + s)
		}
	}
	for _, o := range opts {
		r.Expect("option-type:" + o.typ)
		r.Cover("option-type:" + o.typ)
		if _, _, _, _, ok := c31Values(o.typ, o.def); !ok {
			r.Expect("prec:" + o.name + ":(no value generator for flag type " + o.typ + ")") // never covered => INCONCLUSIVE
		}
	}
	r.Expect("roundtrip:as-generated", "roundtrip:tagged-only")
	r.Note("options", fmt.Sprint(len(opts)))

	parseID := func(id string) (w, nw, i int) {
		fmt.Sscanf(id[strings.LastIndex(id, "@")+1:], "%d/%d:%d", &w, &nw, &i)
		return
	}

	// ---- complete precedence matrix: global case g = option*8 + subset, dealt round-robin to the workers
	total := len(opts) * len(subsets)
	share := 0
	for g := r.Worker; g < total; g += r.NWorkers {
		share++
	}
	r.Cases("prec", share, func(_ int, id string, _ *vk.Rand) {
		w, nw, i := parseID(id)
		g := i*nw + w
		if g >= total {
			return
		}
		o, si := opts[g/len(subsets)], g%len(subsets)
		tomlLit, envTxt, flagTxt, want, ok := c31Values(o.typ, o.def)
		if !ok {
			return
		}
		useFile, useEnv, useFlag := strings.Contains(subsets[si], "file"), strings.Contains(subsets[si], "env"), strings.Contains(subsets[si], "flag")
		if o.typ == "bool" {
			// alternate so that every supplied source differs from the next lower supplied one (and the lowest from the default)
			cur := o.def == "true"
			for k, used := range []bool{useFile, useEnv, useFlag} {
				if used {
					cur = !cur
					s := strconv.FormatBool(cur)
					tomlLit[k], envTxt[k], flagTxt[k], want[k] = s, s, s, s
				}
			}
		}
		cs := c31Case{Option: o.name, Sources: strings.Split(subsets[si], "+"), Env: map[string]string{}, Args: []string{"server", "--dry-run"}}
		expect := o.def
		if useFile {
			cs.File = c31TomlFor(o.name, tomlLit[0])
			path := filepath.Join(scratch, fmt.Sprintf("c31-%d.toml", g))
			os.WriteFile(path, []byte(cs.File), 0o644)
			defer os.Remove(path)
			cs.Args = append(cs.Args, "--config", path)
			expect = want[0]
		}
		if useEnv {
			cs.Env[c31EnvName(o.name)] = envTxt[1]
			expect = want[1]
		}
		if useFlag {
			cs.Args = append(cs.Args, "--"+o.name+"="+flagTxt[2])
			expect = want[2]
		}
		sig := "prec:type=" + o.typ + ":" + subsets[si]
		out, tail, err := c31Run(cs.Args, cs.Env)
		r.Eval(1)
		r.Distinct(vk.Hash64("prec", o.name, subsets[si]), si != 0)
		if err != nil {
			r.Fail(sig, id, "child failed: "+err.Error()+"\n"+tail, cs)
			return
		}
		if out.Err != "dry run" {
			r.Fail(sig, id, fmt.Sprintf("server --dry-run returned %q (want the dry-run marker error)", out.Err), cs)
			return
		}
		r.Cover("prec:" + o.name + ":" + subsets[si])
		if r.WantSample() && si == 7 {
			r.Sample(cs)
		}
		got, okf := out.Flags[o.name]
		if !okf {
			r.Fail(sig, id, "child does not know option "+o.name, cs)
			return
		}
		if got.Value != expect {
			r.Fail(sig, id, fmt.Sprintf("option %s with sources {%s}: parsed %q, highest-priority supplied value is %q (default %q)", o.name, subsets[si], got.Value, expect, o.def), cs)
		}
		// no other option may move
		for _, other := range opts {
			if other.name == o.name {
				continue
			}
			r.Eval(1)
			if ov := out.Flags[other.name]; ov.Value != other.def {
				r.Fail(sig+":other-option-changed", id, fmt.Sprintf("setting %s changed %s from default %q to %q", o.name, other.name, other.def, ov.Value), cs)
				break
			}
		}
	})

	// ---- round trip of rendered configurations
	untagged := c31Untagged()
	skip := map[string]bool{}
	for _, u := range untagged {
		skip[u] = true
	}
	n := r.N(300, 12000)
	r.Cases("roundtrip", n, func(i int, id string, rng *vk.Rand) {
		cfg := c31RandConfig(rng)
		rendered, err := gotoml.Marshal(*cfg) // exactly what ctl.GenerateConfigCommand does
		if err != nil {
			r.Fail("roundtrip:marshal", id, "toml.Marshal: "+err.Error(), nil)
			return
		}
		text := string(rendered) + "\n"
		for _, variant := range []string{"as-generated", "tagged-only"} {
			if variant == "tagged-only" {
				var keep []string
				for _, line := range strings.Split(text, "\n") {
					drop := false
					for _, u := range untagged {
						if strings.HasPrefix(strings.TrimSpace(line), u+" =") {
							drop = true
						}
					}
					if !drop {
						keep = append(keep, line)
					}
				}
				text = strings.Join(keep, "\n")
			} else if len(untagged) == 0 {
				r.Cover("roundtrip:tagged-only") // nothing to drop: both variants coincide
			}
			path := filepath.Join(scratch, fmt.Sprintf("c31-rt-%d-%s.toml", rng.Uint64(), variant))
			os.WriteFile(path, []byte(text), 0o644)
			cs := c31Case{File: text, Args: []string{"server", "--dry-run", "--config", path}, Variant: variant}
			sig := "roundtrip:" + variant
			out, tail, err := c31Run(cs.Args, nil)
			os.Remove(path)
			r.Eval(1)
			r.Distinct(vk.Hash64("rt", variant, text), true)
			if err != nil {
				r.Fail(sig, id, "child failed: "+err.Error()+"\n"+tail, cs)
				continue
			}
			r.Cover("roundtrip:" + variant)
			if out.Err != "dry run" {
				r.Fail(sig, id, fmt.Sprintf("generated configuration rejected: %s", out.Err), cs)
				continue
			}
			sk := map[string]bool{}
			if variant == "tagged-only" {
				sk = skip
			}
			if d := c31ConfigDiff(reflect.ValueOf(out.Config).Elem(), reflect.ValueOf(cfg).Elem(), "", sk); d != "" {
				r.Fail(sig, id, "parsed configuration differs from the rendered one at "+d, cs)
			}
			if r.WantSample() {
				r.Sample(cs)
			}
		}
	})
}
