package ctl

// C30 — Exporting a field and importing the export reproduces it.
//
// One in-process server per worker (test.MustRunCommand). Each case creates a
// source index/field (keyed or unkeyed index, keyed or unkeyed set field),
// loads generated contents through API.Import, runs the real ctl.ExportCommand
// against the server's HTTP address (every shard, CSV into a scratch file),
// creates an EMPTY destination index/field with the same options and runs the
// real ctl.ImportCommand on that file. Oracle: per-row equality between source,
// destination and the generated model — row sets via the Rows(f) query (keys
// come back translated), row contents via Field.Row(id).Columns() with ids
// obtained from API.TranslateKeys, so no hostile key ever travels through PQL.
//
// Hazard classes (at most one per case, ~half of the cases have none):
//   row-key-empty  a row whose key is the empty string
//   key-crlf       a row or column key containing "\r\n"
// Signatures: "roundtrip:<hazard>" / "roundtrip:clean" + ":index-keys=<b>:field-keys=<b>".

import (
	"bytes"
	"context"
	"fmt"
	"io"
	"os"
	"path/filepath"
	"sort"
	"strconv"
	"strings"
	"testing"
	"time"

	"github.com/pilosa/pilosa"
	"github.com/pilosa/pilosa/encoding/proto"
	vk "github.com/pilosa/pilosa/internal/verifkit"
	"github.com/pilosa/pilosa/test"
)

var c30Keys = []string{"a", "b", "plain key", "with,comma", "with \"quotes\"", "'single'", "line\nfeed", "carriage\rreturn", " leading", "trailing ", "  ", "tab\there",
	"ключ", "中文", "\U0001F600", "a;b|c", "#hash", "1", "007", "-5", "null", "=SUM(A1)", "\\.", "back\\slash", "x,\"y\",z\n"}

type c30Case struct {
	IndexKeys bool                `json:"index_keys"`
	FieldKeys bool                `json:"field_keys"`
	Hazard    string              `json:"hazard,omitempty"`
	Rows      map[string][]string `json:"rows"` // row (id or key) -> columns (ids or keys)
	CSV       string              `json:"exported_csv,omitempty"`
}

type c30Env struct {
	cmd   *test.Command
	api   *pilosa.API
	nodes []*test.Command // all nodes (cluster mode): Field.Row is node-local, rows are read as the union over the nodes
	seq   int
}

func (e *c30Env) translate(index, field string, keys []string) ([]uint64, error) {
	return e.translateOn(e.api, index, field, keys)
}

// keysEverywhere reports whether every node can already translate the given keys (key translation reaches the
// non-coordinator nodes by asynchronous log streaming; an export served by a node that lags writes empty keys).
func (e *c30Env) keysEverywhere(index string, rowKeys, colKeys []string) bool {
	for k, nd := range e.nodes {
		if k == 0 {
			continue
		}
		if len(rowKeys) > 0 {
			if ids, err := e.translateOn(nd.API, index, "f", rowKeys); err != nil || len(ids) != len(rowKeys) {
				return false
			}
		}
		if len(colKeys) > 0 {
			if ids, err := e.translateOn(nd.API, index, "", colKeys); err != nil || len(ids) != len(colKeys) {
				return false
			}
		}
	}
	return true
}

func (e *c30Env) translateOn(api *pilosa.API, index, field string, keys []string) ([]uint64, error) {
	var ser proto.Serializer
	body, err := ser.Marshal(&pilosa.TranslateKeysRequest{Index: index, Field: field, Keys: keys})
	if err != nil {
		return nil, err
	}
	buf, err := api.TranslateKeys(bytes.NewReader(body))
	if err != nil {
		return nil, err
	}
	var resp pilosa.TranslateKeysResponse
	if err := ser.Unmarshal(buf, &resp); err != nil {
		return nil, err
	}
	return resp.IDs, nil
}

// contents reads a field as map[row]sorted-columns in the key space of the model.
// rowsOf/colsOf are the model's row and column names (ids rendered in decimal when unkeyed).
func (e *c30Env) check(ctx context.Context, index, field string, cs *c30Case, who string) string {
	// 1. the set of rows, as the server reports it
	resp, err := e.api.Query(ctx, &pilosa.QueryRequest{Index: index, Query: "Rows(" + field + ")"})
	if err != nil {
		return fmt.Sprintf("%s: Rows(%s): %v", who, field, err)
	}
	ri, ok := resp.Results[0].(pilosa.RowIdentifiers)
	if !ok {
		return fmt.Sprintf("%s: Rows(%s) returned %T", who, field, resp.Results[0])
	}
	var gotRows []string
	if cs.FieldKeys {
		gotRows = append(gotRows, ri.Keys...)
	} else {
		for _, id := range ri.Rows {
			gotRows = append(gotRows, fmt.Sprint(id))
		}
	}
	var wantRows []string
	for r, cols := range cs.Rows {
		if len(cols) > 0 {
			wantRows = append(wantRows, r)
		}
	}
	sort.Strings(gotRows)
	sort.Strings(wantRows)
	if strings.Join(gotRows, "\x00") != strings.Join(wantRows, "\x00") {
		return fmt.Sprintf("%s: row set %q, want %q", who, gotRows, wantRows)
	}
	// 2. every row's columns
	f, err := e.api.Field(ctx, index, field)
	if err != nil {
		return fmt.Sprintf("%s: field: %v", who, err)
	}
	for _, r := range wantRows {
		var rowID uint64
		if cs.FieldKeys {
			ids, err := e.translate(index, field, []string{r})
			if err != nil {
				return fmt.Sprintf("%s: translating row key %q: %v", who, r, err)
			}
			rowID = ids[0]
		} else {
			fmt.Sscan(r, &rowID)
		}
		var want []uint64
		if cs.IndexKeys {
			ids, err := e.translate(index, "", cs.Rows[r])
			if err != nil {
				return fmt.Sprintf("%s: translating column keys: %v", who, err)
			}
			want = ids
		} else {
			for _, c := range cs.Rows[r] {
				var id uint64
				fmt.Sscan(c, &id)
				want = append(want, id)
			}
		}
		row, err := f.Row(rowID)
		if err != nil {
			return fmt.Sprintf("%s: Row(%d): %v", who, rowID, err)
		}
		got := row.Columns()
		for k, nd := range e.nodes {
			if k == 0 {
				continue
			}
			nf, err := nd.API.Field(ctx, index, field)
			if err != nil {
				return fmt.Sprintf("%s: field on node %d: %v", who, k, err)
			}
			nrow, err := nf.Row(rowID)
			if err != nil {
				return fmt.Sprintf("%s: Row(%d) on node %d: %v", who, rowID, k, err)
			}
			got = append(got, nrow.Columns()...)
		}
		if !vk.EqualU64(vk.SortedU64(got), vk.SortedU64(want)) {
			return fmt.Sprintf("%s: row %q (id %d): columns %s, want %s (column names %q)", who, r, rowID, vk.Brief(vk.SortedU64(got)), vk.Brief(vk.SortedU64(want)), cs.Rows[r])
		}
	}
	return ""
}

// c30First returns the smallest row name (map iteration order must not leak into the case).
func c30First(rows map[string][]string) string {
	names := make([]string, 0, len(rows))
	for r := range rows {
		names = append(names, r)
	}
	sort.Strings(names)
	if len(names) == 0 {
		return ""
	}
	return names[0]
}

func c30Gen(rng *vk.Rand, r *vk.Run) *c30Case {
	cs := &c30Case{IndexKeys: rng.Chance(2, 5), FieldKeys: rng.Chance(1, 2), Rows: map[string][]string{}}
	if rng.Intn(100) >= 50 {
		cs.Hazard = []string{"row-key-empty", "key-crlf"}[rng.Intn(2)]
	}
	if cs.Hazard == "row-key-empty" {
		cs.FieldKeys = true
	}
	if cs.Hazard == "key-crlf" && !cs.IndexKeys && !cs.FieldKeys {
		cs.FieldKeys = true
	}
	clean := func(k string) bool { return k != "" && !strings.Contains(k, "\r\n") }
	// shards used by an unkeyed index
	// (shard sets with gaps are ordinary contents: the export of a shard without a fragment is empty)
	shards := [][]uint64{{0}, {0, 1}, {0, 1, 2}, {0, 1, 2, 3}, {0, 2}, {1}, {0, 3}, {2}, {0, 1, 3}}[rng.Intn(9)]
	nrows := 1 + rng.Intn(5)
	for i := 0; i < nrows; i++ {
		var row string
		if cs.FieldKeys {
			for row = c30Keys[rng.Intn(len(c30Keys))]; !clean(row); row = c30Keys[rng.Intn(len(c30Keys))] {
			}
		} else {
			row = fmt.Sprint([]uint64{0, 1, 2, 3, 10, 1000, 1 << 33}[rng.Intn(7)])
		}
		seen := map[string]bool{}
		for _, c := range cs.Rows[row] {
			seen[c] = true
		}
		for n := 1 + rng.Intn(8); n > 0; n-- {
			var col string
			if cs.IndexKeys {
				for col = c30Keys[rng.Intn(len(c30Keys))]; !clean(col); col = c30Keys[rng.Intn(len(c30Keys))] {
				}
			} else {
				sh := shards[rng.Intn(len(shards))]
				col = fmt.Sprint(sh*pilosa.ShardWidth + []uint64{0, 1, 2, 65535, 65536, pilosa.ShardWidth - 1, uint64(rng.Intn(1000))}[rng.Intn(7)])
			}
			if !seen[col] {
				seen[col] = true
				cs.Rows[row] = append(cs.Rows[row], col)
			}
		}
	}
	// make sure every chosen shard really holds a bit (otherwise the gap is not the one we think)
	if !cs.IndexKeys {
		anyRow := c30First(cs.Rows)
		for _, sh := range shards {
			col := fmt.Sprint(sh*pilosa.ShardWidth + 7)
			dup := false
			for _, c := range cs.Rows[anyRow] {
				dup = dup || c == col
			}
			if !dup {
				cs.Rows[anyRow] = append(cs.Rows[anyRow], col)
			}
		}
	}
	switch cs.Hazard {
	case "row-key-empty":
		cs.Rows[""] = append(cs.Rows[""], cs.Rows[c30First(cs.Rows)][0])
	case "key-crlf":
		k := []string{"a\r\nb", "\r\n", "x\r\n"}[rng.Intn(3)]
		if cs.FieldKeys && (rng.Bool() || !cs.IndexKeys) {
			cs.Rows[k] = append([]string(nil), cs.Rows[c30First(cs.Rows)][:1]...)
		} else {
			first := c30First(cs.Rows)
			cs.Rows[first] = append(cs.Rows[first], k)
		}
	}
	return cs
}

func TestVerifC30(t *testing.T) {
	r := vk.Start(t, "C30")
	defer r.Finish()
	scratch := os.Getenv("VERIF_SCRATCH")
	if scratch == "" {
		scratch = os.TempDir()
	}
	// VERIF_ESRV_NODES=3: the same round trip against a real 3-node gossip/HTTP cluster: the commands talk to
	// the coordinator and are routed per shard; id imports of the source go to the shard's owner
	var nodes []*test.Command
	if n, _ := strconv.Atoi(os.Getenv("VERIF_ESRV_NODES")); n > 1 {
		cl := test.MustNewCluster(t, n)
		for _, m := range cl {
			m.Config.Translation.MapSize = 1 << 28 // see below
		}
		if err := cl.Start(); err != nil {
			t.Fatalf("starting cluster: %v", err)
		}
		defer cl.Close()
		nodes = cl
	} else {
		one := test.MustRunCommand()
		defer one.Close()
		// the test helper maps only 140000 bytes of the key translation log, which a thorough run outgrows (the log is
		// not bounds-checked against its map): restart once with the map size changed
		one.Config.Translation.MapSize = 1 << 28
		if err := one.Reopen(); err != nil {
			t.Fatalf("reopen with a larger translation map: %v", err)
		}
		nodes = []*test.Command{one}
	}
	m := nodes[0]
	env := &c30Env{cmd: m, api: m.API, nodes: nodes}
	host := m.API.Node().URI.HostPort()
	ctx := context.Background()

	r.Expect("shape:index-keys=false:field-keys=false", "shape:index-keys=false:field-keys=true", "shape:index-keys=true:field-keys=false", "shape:index-keys=true:field-keys=true",
		"hazard:none", "shards:gap", "hazard:row-key-empty", "hazard:key-crlf", "shards:1", "shards:>1", "key:comma", "key:quote", "key:newline", "key:unicode", "key:space-edge")

	run := func(id string, cs *c30Case) {
		env.seq++
		src, dst := fmt.Sprintf("s%d", env.seq), fmt.Sprintf("d%d", env.seq)
		shape := fmt.Sprintf("index-keys=%v:field-keys=%v", cs.IndexKeys, cs.FieldKeys)
		sig := "roundtrip:clean:" + shape
		if cs.Hazard != "" {
			sig = "roundtrip:" + cs.Hazard + ":" + shape
			r.Cover("hazard:" + cs.Hazard)
		} else {
			r.Cover("hazard:none")
		}
		r.Cover("shape:" + shape)
		for row, cols := range cs.Rows {
			for _, k := range append([]string{row}, cols...) {
				switch {
				case strings.Contains(k, ","):
					r.Cover("key:comma")
				case strings.Contains(k, "\""):
					r.Cover("key:quote")
				case strings.Contains(k, "\n"):
					r.Cover("key:newline")
				case strings.HasPrefix(k, " ") || strings.HasSuffix(k, " "):
					r.Cover("key:space-edge")
				}
				for _, c := range k {
					if c > 127 {
						r.Cover("key:unicode")
						break
					}
				}
			}
		}
		defer func() {
			env.api.DeleteIndex(ctx, src)
			env.api.DeleteIndex(ctx, dst)
		}()
		var fopts []pilosa.FieldOption
		fopts = append(fopts, pilosa.OptFieldTypeSet(pilosa.CacheTypeRanked, 1000))
		if cs.FieldKeys {
			fopts = append(fopts, pilosa.OptFieldKeys())
		}
		for _, idx := range []string{src, dst} {
			if _, err := env.api.CreateIndex(ctx, idx, pilosa.IndexOptions{Keys: cs.IndexKeys}); err != nil {
				r.Fail("setup", id, "create index: "+err.Error(), cs)
				return
			}
			if _, err := env.api.CreateField(ctx, idx, "f", fopts...); err != nil {
				r.Fail("setup", id, "create field: "+err.Error(), cs)
				return
			}
		}
		// load the source through the import API (one request per shard when ids are used)
		byShard := map[uint64]*pilosa.ImportRequest{}
		shardSet := map[uint64]bool{}
		for row, cols := range cs.Rows {
			for _, col := range cols {
				var sh, rid, cid uint64
				if !cs.IndexKeys {
					fmt.Sscan(col, &cid)
					sh = cid / pilosa.ShardWidth
					shardSet[sh] = true
				}
				if !cs.FieldKeys {
					fmt.Sscan(row, &rid)
				}
				req := byShard[sh]
				if req == nil {
					req = &pilosa.ImportRequest{Index: src, Field: "f", Shard: sh}
					byShard[sh] = req
				}
				if cs.FieldKeys {
					req.RowKeys = append(req.RowKeys, row)
				} else {
					req.RowIDs = append(req.RowIDs, rid)
				}
				if cs.IndexKeys {
					req.ColumnKeys = append(req.ColumnKeys, col)
				} else {
					req.ColumnIDs = append(req.ColumnIDs, cid)
				}
			}
		}
		for sh := range shardSet {
			if sh > 0 && !shardSet[sh-1] {
				r.Cover("shards:gap")
			}
		}
		if len(shardSet) > 1 {
			r.Cover("shards:>1")
		} else {
			r.Cover("shards:1")
		}
		for _, req := range byShard {
			target := env.api
			if len(nodes) > 1 && !cs.IndexKeys && !cs.FieldKeys {
				owners, err := env.api.ShardNodes(ctx, src, req.Shard)
				if err != nil || len(owners) == 0 {
					r.Fail("setup", id, fmt.Sprintf("owners of shard %d: %v", req.Shard, err), cs)
					return
				}
				for _, nd := range nodes {
					if nd.API.Node().ID == owners[0].ID {
						target = nd.API
					}
				}
			}
			if err := target.Import(ctx, req); err != nil {
				r.Fail("setup", id, "loading the source field: "+err.Error(), cs)
				return
			}
		}
		// on a cluster a shard's first bit is announced to the other nodes asynchronously: wait (watchdog only)
		// until the node that answers the queries knows every shard that was written
		waitShards := func(index string) bool {
			if len(nodes) == 1 {
				return true
			}
			deadline := time.Now().Add(30 * time.Second)
			for {
				ok := true
				idx := nodes[0].Server.Holder().Index(index)
				for sh := range shardSet {
					if idx == nil || !idx.AvailableShards().Contains(sh) {
						ok = false
					}
				}
				if ok {
					return true
				}
				if time.Now().After(deadline) {
					r.Note("inconclusive:"+id, "shard availability did not reach the coordinator (watchdog)")
					return false
				}
				time.Sleep(2 * time.Millisecond)
			}
		}
		if !waitShards(src) {
			return
		}
		// ... and until every node can translate the keys of this case (watchdog only)
		waitKeys := func(index string) bool {
			if len(nodes) == 1 || (!cs.IndexKeys && !cs.FieldKeys) {
				return true
			}
			var rowKeys, colKeys []string
			for row, cols := range cs.Rows {
				if cs.FieldKeys && len(cols) > 0 {
					rowKeys = append(rowKeys, row)
				}
				if cs.IndexKeys {
					colKeys = append(colKeys, cols...)
				}
			}
			deadline := time.Now().Add(30 * time.Second)
			for !env.keysEverywhere(index, rowKeys, colKeys) {
				if time.Now().After(deadline) {
					r.Note("inconclusive:"+id, "key translation did not reach every node (watchdog)")
					return false
				}
				time.Sleep(2 * time.Millisecond)
			}
			return true
		}
		if !waitKeys(src) {
			return
		}
		r.Eval(1)
		if d := env.check(ctx, src, "f", cs, "source after load"); d != "" {
			r.Fail("setup", id, d, cs)
			return
		}
		h := vk.Hash64(fmt.Sprintf("%v", cs.Rows), cs.IndexKeys, cs.FieldKeys)
		r.Distinct(h, true)

		// export every shard with the real command
		path := filepath.Join(scratch, fmt.Sprintf("c30-%d.csv", env.seq))
		defer os.Remove(path)
		var stderr bytes.Buffer
		ex := NewExportCommand(strings.NewReader(""), io.Discard, &stderr)
		ex.Host, ex.Index, ex.Field, ex.Path = host, src, "f", path
		r.Eval(1)
		if err := ex.Run(ctx); err != nil {
			r.Fail(sig, id, "export command failed: "+err.Error(), cs)
			return
		}
		r.Count("export-ok:hazard="+cs.Hazard, 1)
		if b, err := os.ReadFile(path); err == nil {
			cs.CSV = string(b)
			if len(cs.CSV) > 1500 {
				cs.CSV = cs.CSV[:1500] + "..."
			}
		}
		// import into the empty destination with the real command
		im := NewImportCommand(strings.NewReader(""), io.Discard, &stderr)
		im.Host, im.Index, im.Field, im.Paths = host, dst, "f", []string{path}
		im.BufferSize = []int{10000000, 3, 1}[env.seq%3]
		r.Eval(1)
		if err := im.Run(ctx); err != nil {
			r.Fail(sig, id, "import command failed on the exported file: "+err.Error(), cs)
			return
		}
		// (the destination is read through the coordinator's translation and the nodes' local rows: no replica translation involved)
		if !waitShards(dst) {
			return
		}
		r.Eval(1)
		if d := env.check(ctx, dst, "f", cs, "destination after import"); d != "" {
			r.Fail(sig, id, d, cs)
			return
		}
		// the source must be unchanged by the export
		r.Eval(1)
		if d := env.check(ctx, src, "f", cs, "source after export"); d != "" {
			r.Fail(sig, id, d, cs)
		}
		if r.WantSample() {
			r.Sample(cs)
		}
	}

	r.Directed("witnesses", func(id string) {
		w := pilosa.ShardWidth
		run(id, &c30Case{Rows: map[string][]string{"1": {"5", fmt.Sprint(2*w + 5)}}}) // shards 0 and 2 only
		run(id, &c30Case{FieldKeys: true, Hazard: "row-key-empty", Rows: map[string][]string{"": {"5"}, "a": {"6"}}})
		run(id, &c30Case{IndexKeys: true, FieldKeys: true, Hazard: "key-crlf", Rows: map[string][]string{"a\r\nb": {"c1"}}})
		run(id, &c30Case{IndexKeys: true, FieldKeys: true, Rows: map[string][]string{"with,comma": {"with \"quotes\"", "line\nfeed", " leading", "ключ"}, "x": {""}}})
		run(id, &c30Case{Rows: map[string][]string{"1": {"5", fmt.Sprint(w + 5), fmt.Sprint(2*w + 5)}, "7": {"0"}}})
	})

	n := r.N(120, 4800)
	r.Cases("rt", n, func(i int, id string, rng *vk.Rand) {
		run(id, c30Gen(rng, r))
	})
}
