package proto

// C27 — Internal messages and responses survive encoding unchanged; arbitrary
// bytes are rejected with an error, never a panic.
//
// Round trip: a reflection-driven generator fills every type
// Serializer.Marshal/Unmarshal accept (the table below is checked against the
// `case *pilosa.X:` arms of Serializer.Unmarshal in the source tree under test,
// so a new message type makes the check INCONCLUSIVE until it is added).
// Oracle: Unmarshal(Marshal(v)) equals v — nil == empty for slices and maps, a
// nil pointer == a pointer to the zero value, floats by numeric equality (NaN equals NaN), errors by
// message, everything else exact including the dynamic types held in
// QueryResponse.Results and attribute maps.
// Fields with no counterpart in internal/*.proto are outside the message and
// stay zero: QueryRequest.Index, IndexInfo.ShardWidth. (IndexInfo.Options is on the wire since internal.Index got its Meta field.)
//
// Hostile bytes: mutated valid encodings, semantically inconsistent but
// wire-valid encodings, encodings of other message types, random bytes and
// the empty string into every target: Unmarshal must return (error or value).

import (
	"errors"
	"fmt"
	"math"
	"os"
	"path/filepath"
	"reflect"
	"regexp"
	"sort"
	"strings"
	"testing"

	gogo "github.com/gogo/protobuf/proto"
	"github.com/pilosa/pilosa"
	"github.com/pilosa/pilosa/internal"
	vk "github.com/pilosa/pilosa/internal/verifkit"
	"github.com/pilosa/pilosa/roaring"
)

type c27Target struct {
	name string
	new  func() interface{}  // pointer to a zero pilosa message
	wire func() gogo.Message // the internal message Unmarshal decodes into
}

var c27Targets = []c27Target{
	{"CreateShardMessage", func() interface{} { return &pilosa.CreateShardMessage{} }, func() gogo.Message { return &internal.CreateShardMessage{} }},
	{"CreateIndexMessage", func() interface{} { return &pilosa.CreateIndexMessage{} }, func() gogo.Message { return &internal.CreateIndexMessage{} }},
	{"DeleteIndexMessage", func() interface{} { return &pilosa.DeleteIndexMessage{} }, func() gogo.Message { return &internal.DeleteIndexMessage{} }},
	{"CreateFieldMessage", func() interface{} { return &pilosa.CreateFieldMessage{} }, func() gogo.Message { return &internal.CreateFieldMessage{} }},
	{"DeleteFieldMessage", func() interface{} { return &pilosa.DeleteFieldMessage{} }, func() gogo.Message { return &internal.DeleteFieldMessage{} }},
	{"DeleteAvailableShardMessage", func() interface{} { return &pilosa.DeleteAvailableShardMessage{} }, func() gogo.Message { return &internal.DeleteAvailableShardMessage{} }},
	{"CreateViewMessage", func() interface{} { return &pilosa.CreateViewMessage{} }, func() gogo.Message { return &internal.CreateViewMessage{} }},
	{"DeleteViewMessage", func() interface{} { return &pilosa.DeleteViewMessage{} }, func() gogo.Message { return &internal.DeleteViewMessage{} }},
	{"ClusterStatus", func() interface{} { return &pilosa.ClusterStatus{} }, func() gogo.Message { return &internal.ClusterStatus{} }},
	{"ResizeInstruction", func() interface{} { return &pilosa.ResizeInstruction{} }, func() gogo.Message { return &internal.ResizeInstruction{} }},
	{"ResizeInstructionComplete", func() interface{} { return &pilosa.ResizeInstructionComplete{} }, func() gogo.Message { return &internal.ResizeInstructionComplete{} }},
	{"SetCoordinatorMessage", func() interface{} { return &pilosa.SetCoordinatorMessage{} }, func() gogo.Message { return &internal.SetCoordinatorMessage{} }},
	{"UpdateCoordinatorMessage", func() interface{} { return &pilosa.UpdateCoordinatorMessage{} }, func() gogo.Message { return &internal.UpdateCoordinatorMessage{} }},
	{"NodeStateMessage", func() interface{} { return &pilosa.NodeStateMessage{} }, func() gogo.Message { return &internal.NodeStateMessage{} }},
	{"RecalculateCaches", func() interface{} { return &pilosa.RecalculateCaches{} }, func() gogo.Message { return &internal.RecalculateCaches{} }},
	{"NodeEvent", func() interface{} { return &pilosa.NodeEvent{} }, func() gogo.Message { return &internal.NodeEventMessage{} }},
	{"NodeStatus", func() interface{} { return &pilosa.NodeStatus{} }, func() gogo.Message { return &internal.NodeStatus{} }},
	{"Node", func() interface{} { return &pilosa.Node{} }, func() gogo.Message { return &internal.Node{} }},
	{"QueryRequest", func() interface{} { return &pilosa.QueryRequest{} }, func() gogo.Message { return &internal.QueryRequest{} }},
	{"QueryResponse", func() interface{} { return &pilosa.QueryResponse{} }, func() gogo.Message { return &internal.QueryResponse{} }},
	{"ImportRequest", func() interface{} { return &pilosa.ImportRequest{} }, func() gogo.Message { return &internal.ImportRequest{} }},
	{"ImportValueRequest", func() interface{} { return &pilosa.ImportValueRequest{} }, func() gogo.Message { return &internal.ImportValueRequest{} }},
	{"ImportRoaringRequest", func() interface{} { return &pilosa.ImportRoaringRequest{} }, func() gogo.Message { return &internal.ImportRoaringRequest{} }},
	{"ImportResponse", func() interface{} { return &pilosa.ImportResponse{} }, func() gogo.Message { return &internal.ImportResponse{} }},
	{"BlockDataRequest", func() interface{} { return &pilosa.BlockDataRequest{} }, func() gogo.Message { return &internal.BlockDataRequest{} }},
	{"BlockDataResponse", func() interface{} { return &pilosa.BlockDataResponse{} }, func() gogo.Message { return &internal.BlockDataResponse{} }},
	{"TranslateKeysRequest", func() interface{} { return &pilosa.TranslateKeysRequest{} }, func() gogo.Message { return &internal.TranslateKeysRequest{} }},
	{"TranslateKeysResponse", func() interface{} { return &pilosa.TranslateKeysResponse{} }, func() gogo.Message { return &internal.TranslateKeysResponse{} }},
}

// fields that have no counterpart in the wire schema
var c27OffWire = map[string]bool{"QueryRequest.Index": true, "IndexInfo.ShardWidth": true}

var c27ResultKinds = []string{"nil", "*Row", "[]Pair", "ValCount", "uint64", "bool", "RowIDs", "[]GroupCount", "RowIdentifiers", "Pair"}

var (
	c27TypeBitmap = reflect.TypeOf((*roaring.Bitmap)(nil))
	c27TypeRow    = reflect.TypeOf((*pilosa.Row)(nil))
	c27TypeError  = reflect.TypeOf((*error)(nil)).Elem()
	c27TypeIface  = reflect.TypeOf((*interface{})(nil)).Elem()
)

// ---------------------------------------------------------------- generator

type c27Gen struct {
	rng     *vk.Rand
	r       *vk.Run
	nilPtrs bool // allow nil for pointers to structs (class "nil-pointer")
	usedNil bool
}

var c27Strings = []string{"", "i", "field_1", "standard", "NORMAL", "a b", "é", "中文-ключ", "\U0001F600", "q\"uo'te\\", "line\nbreak\ttab", "\x00nul", strings.Repeat("k", 300), "http", "localhost", "10.0.0.1", "YMDH", "ranked", "set", "int", "time"}

func (g *c27Gen) str() string {
	if g.rng.Chance(1, 6) {
		n := g.rng.Intn(12)
		rs := make([]rune, n)
		for i := range rs {
			rs[i] = []rune{'a', 'Z', '0', ' ', 0xE9, 0x4E2D, 0x1F600, 0x7f, 0x2028, '"', '\\', '\n'}[g.rng.Intn(12)]
		}
		return string(rs)
	}
	return c27Strings[g.rng.Intn(len(c27Strings))]
}

func (g *c27Gen) u64() uint64 {
	switch g.rng.Intn(6) {
	case 0:
		return 0
	case 1:
		return math.MaxUint64
	case 2:
		return 1 << 63
	case 3:
		return g.rng.Uint64()
	}
	return uint64(g.rng.Intn(5000))
}

func (g *c27Gen) i64() int64 {
	switch g.rng.Intn(6) {
	case 0:
		return math.MinInt64
	case 1:
		return math.MaxInt64
	case 2:
		return -1
	case 3:
		return int64(g.rng.Uint64())
	}
	return int64(g.rng.Intn(5000)) - 2500
}

func (g *c27Gen) f64() float64 {
	return []float64{0, math.Copysign(0, -1), 1.5, -2.25, math.MaxFloat64, math.SmallestNonzeroFloat64, math.Inf(1), math.Inf(-1), math.NaN(), 1e21, 3}[g.rng.Intn(11)]
}

func (g *c27Gen) sliceLen() int {
	switch g.rng.Intn(8) {
	case 0:
		return -1 // nil
	case 1:
		return 0 // empty, non-nil
	case 2:
		return 20 + g.rng.Intn(60)
	}
	return 1 + g.rng.Intn(3)
}

func (g *c27Gen) attrs() map[string]interface{} {
	n := g.sliceLen()
	if n < 0 {
		return nil
	}
	if n > 6 {
		n = 6
	}
	m := map[string]interface{}{}
	for i := 0; i < n; i++ {
		var v interface{}
		switch g.rng.Intn(9) {
		case 0, 1:
			v = g.str()
		case 2, 3:
			v = g.i64()
		case 4, 5:
			v = g.rng.Bool()
		case 6, 7:
			v = g.f64()
		default:
			v = nil
		}
		m[g.str()] = v
	}
	return m
}

func (g *c27Gen) row() *pilosa.Row {
	if g.rng.Chance(1, 10) {
		return nil
	}
	n := g.sliceLen()
	var cols []uint64
	for i := 0; i < n; i++ {
		cols = append(cols, []uint64{0, 1, 65535, 65536, 1<<20 - 1, 1 << 20, 3<<20 + 7, 1 << 40, math.MaxUint64, uint64(g.rng.Intn(1 << 22))}[g.rng.Intn(10)])
	}
	r := pilosa.NewRow(cols...)
	if k := g.sliceLen(); k >= 0 {
		r.Keys = make([]string, 0, k)
		for i := 0; i < k && i < 5; i++ {
			r.Keys = append(r.Keys, g.str())
		}
	}
	r.Attrs = g.attrs()
	return r
}

func (g *c27Gen) pair() pilosa.Pair {
	return pilosa.Pair{ID: g.u64(), Key: g.str(), Count: g.u64()}
}

func (g *c27Gen) result() (interface{}, string) {
	k := c27ResultKinds[g.rng.Intn(len(c27ResultKinds))]
	switch k {
	case "nil":
		return nil, k
	case "*Row":
		return g.row(), k
	case "[]Pair":
		n := g.sliceLen()
		var ps []pilosa.Pair
		if n == 0 {
			ps = []pilosa.Pair{}
		}
		for i := 0; i < n && i < 6; i++ {
			ps = append(ps, g.pair())
		}
		return ps, k
	case "ValCount":
		return pilosa.ValCount{Val: g.i64(), Count: g.i64()}, k
	case "uint64":
		return g.u64(), k
	case "bool":
		return g.rng.Bool(), k
	case "RowIDs":
		return pilosa.RowIDs(g.value(reflect.TypeOf([]uint64(nil)), "").Interface().([]uint64)), k
	case "[]GroupCount":
		n := g.sliceLen()
		var gcs []pilosa.GroupCount
		if n == 0 {
			gcs = []pilosa.GroupCount{}
		}
		for i := 0; i < n && i < 4; i++ {
			gc := pilosa.GroupCount{Count: g.u64()}
			for j := g.rng.Intn(4); j > 0; j-- {
				fr := pilosa.FieldRow{Field: g.str()}
				if g.rng.Bool() {
					fr.RowID = g.u64()
				} else {
					for fr.RowKey == "" {
						fr.RowKey = g.str()
					}
				}
				gc.Group = append(gc.Group, fr)
			}
			gcs = append(gcs, gc)
		}
		return gcs, k
	case "RowIdentifiers":
		ri := pilosa.RowIdentifiers{}
		g.fill(reflect.ValueOf(&ri).Elem(), "RowIdentifiers")
		return ri, k
	}
	return g.pair(), "Pair"
}

// value generates a value of type t. path is "<StructName>.<Field>" of the field being filled.
func (g *c27Gen) value(t reflect.Type, path string) reflect.Value {
	switch t {
	case c27TypeBitmap:
		n := g.sliceLen()
		var vs []uint64
		for i := 0; i < n; i++ {
			vs = append(vs, uint64(g.rng.Intn(3000)))
		}
		return reflect.ValueOf(roaring.NewBitmap(vs...))
	case c27TypeRow:
		return reflect.ValueOf(g.row())
	case c27TypeError:
		v := reflect.New(t).Elem()
		if g.rng.Bool() {
			s := g.str()
			if s == "" {
				s = "e"
			}
			v.Set(reflect.ValueOf(errors.New(s)))
		}
		return v
	}
	switch t.Kind() {
	case reflect.String:
		return reflect.ValueOf(g.str()).Convert(t)
	case reflect.Bool:
		return reflect.ValueOf(g.rng.Bool()).Convert(t)
	case reflect.Uint64, reflect.Uint:
		return reflect.ValueOf(g.u64()).Convert(t)
	case reflect.Uint32:
		return reflect.ValueOf(uint32(g.u64())).Convert(t)
	case reflect.Uint16:
		return reflect.ValueOf(uint16(g.u64())).Convert(t)
	case reflect.Uint8:
		return reflect.ValueOf(uint8(g.rng.Intn(256))).Convert(t)
	case reflect.Int64:
		return reflect.ValueOf(g.i64()).Convert(t)
	case reflect.Int:
		// NodeEventType travels as uint32
		return reflect.ValueOf([]int{0, 1, 2, 7, math.MaxUint32}[g.rng.Intn(5)]).Convert(t)
	case reflect.Float64:
		return reflect.ValueOf(g.f64()).Convert(t)
	case reflect.Slice:
		n := g.sliceLen()
		if n < 0 {
			return reflect.Zero(t)
		}
		if t.Elem().Kind() == reflect.Ptr || t.Elem().Kind() == reflect.Struct || t.Elem().Kind() == reflect.Interface {
			if n > 3 {
				n = 3
			}
		}
		s := reflect.MakeSlice(t, n, n)
		for i := 0; i < n; i++ {
			if t.Elem() == c27TypeIface {
				v, kind := g.result()
				g.r.Cover("result-kind:" + kind)
				if v != nil {
					s.Index(i).Set(reflect.ValueOf(v))
				}
				continue
			}
			ev := g.value(t.Elem(), path)
			if t.Elem().Kind() == reflect.Ptr && ev.IsNil() {
				// elements of repeated message fields cannot be nil on the wire
				ev = reflect.New(t.Elem().Elem())
				g.fill(ev.Elem(), t.Elem().Elem().Name())
			}
			s.Index(i).Set(ev)
		}
		return s
	case reflect.Map:
		if t.Elem() == c27TypeIface {
			return reflect.ValueOf(g.attrs())
		}
		n := g.sliceLen()
		if n < 0 {
			return reflect.Zero(t)
		}
		if n > 4 {
			n = 4
		}
		m := reflect.MakeMap(t)
		for i := 0; i < n; i++ {
			m.SetMapIndex(g.value(t.Key(), path), g.value(t.Elem(), path))
		}
		return m
	case reflect.Ptr:
		if g.nilPtrs && g.rng.Chance(1, 4) {
			g.usedNil = true
			return reflect.Zero(t)
		}
		p := reflect.New(t.Elem())
		g.fill(p.Elem(), t.Elem().Name())
		return p
	case reflect.Struct:
		v := reflect.New(t).Elem()
		g.fill(v, t.Name())
		return v
	}
	panic(fmt.Sprintf("harness: no generator for %s at %s", t, path))
}

func (g *c27Gen) fill(v reflect.Value, structName string) {
	t := v.Type()
	for i := 0; i < t.NumField(); i++ {
		f := t.Field(i)
		if f.PkgPath != "" || c27OffWire[structName+"."+f.Name] {
			continue
		}
		v.Field(i).Set(g.value(f.Type, structName+"."+f.Name))
	}
}

// ---------------------------------------------------------------- comparison

// c27All, when non-nil, makes struct comparison continue after a differing field and collect
// every (path, description) there, so that one lost field does not hide another.
var c27All *[][2]string

// c27Diff returns the path of the first difference ("" when equal) and a description.
func c27Diff(got, want reflect.Value, path string) (string, string) {
	if !want.IsValid() || !got.IsValid() {
		if want.IsValid() != got.IsValid() {
			return path, fmt.Sprintf("got %s want %s", c27Brief(got), c27Brief(want))
		}
		return "", ""
	}
	if got.Type() != want.Type() {
		return path + "<" + c27KindName(want) + ">", fmt.Sprintf("dynamic type changed: got %s want %s", got.Type(), want.Type())
	}
	t := want.Type()
	switch t {
	case c27TypeBitmap:
		var a, b []uint64
		if !got.IsNil() {
			a = got.Interface().(*roaring.Bitmap).Slice()
		}
		if !want.IsNil() {
			b = want.Interface().(*roaring.Bitmap).Slice()
		}
		if !vk.EqualU64(a, b) {
			return path, fmt.Sprintf("bitmap got %s want %s", vk.Brief(a), vk.Brief(b))
		}
		return "", ""
	case c27TypeRow:
		if got.IsNil() || want.IsNil() {
			if got.IsNil() != want.IsNil() {
				return path, fmt.Sprintf("row got nil=%v want nil=%v", got.IsNil(), want.IsNil())
			}
			return "", ""
		}
		gr, wr := got.Interface().(*pilosa.Row), want.Interface().(*pilosa.Row)
		if a, b := gr.Columns(), wr.Columns(); !vk.EqualU64(a, b) {
			return path + ".Columns", fmt.Sprintf("got %s want %s", vk.Brief(a), vk.Brief(b))
		}
		if p, d := c27Diff(reflect.ValueOf(gr.Keys), reflect.ValueOf(wr.Keys), path+".Keys"); p != "" {
			return p, d
		}
		return c27Diff(reflect.ValueOf(gr.Attrs), reflect.ValueOf(wr.Attrs), path+".Attrs")
	}
	switch t.Kind() {
	case reflect.Interface:
		if t == c27TypeError {
			var a, b string
			if !got.IsNil() {
				a = "E:" + got.Interface().(error).Error()
			}
			if !want.IsNil() {
				b = "E:" + want.Interface().(error).Error()
			}
			if a != b {
				return path, fmt.Sprintf("error got %q want %q", a, b)
			}
			return "", ""
		}
		if got.IsNil() || want.IsNil() {
			if got.IsNil() != want.IsNil() {
				return path + "<" + c27KindName(want) + ">", fmt.Sprintf("got %s want %s", c27Brief(got), c27Brief(want))
			}
			return "", ""
		}
		return c27Diff(got.Elem(), want.Elem(), path)
	case reflect.Ptr:
		if got.IsNil() || want.IsNil() {
			// a nil pointer equals a pointer to the zero value
			if got.IsNil() && want.IsNil() {
				return "", ""
			}
			nz := got
			if got.IsNil() {
				nz = want
			}
			if p, d := c27Diff(nz.Elem(), reflect.Zero(t.Elem()), path); p != "" {
				return p, "nil pointer vs non-zero value: " + d
			}
			return "", ""
		}
		return c27Diff(got.Elem(), want.Elem(), path)
	case reflect.Slice:
		if got.Len() != want.Len() {
			return path, fmt.Sprintf("length got %d want %d", got.Len(), want.Len())
		}
		for i := 0; i < want.Len(); i++ {
			if p, d := c27Diff(got.Index(i), want.Index(i), path+"[]"); p != "" {
				return p, fmt.Sprintf("[%d] %s", i, d)
			}
		}
		return "", ""
	case reflect.Map:
		if got.Len() != want.Len() {
			return path, fmt.Sprintf("map size got %d want %d", got.Len(), want.Len())
		}
		for _, k := range want.MapKeys() {
			gv := got.MapIndex(k)
			if !gv.IsValid() {
				return path, fmt.Sprintf("key %q missing", k.Interface())
			}
			if p, d := c27Diff(gv, want.MapIndex(k), path+"{}"); p != "" {
				return p, fmt.Sprintf("{%q} %s", k.Interface(), d)
			}
		}
		return "", ""
	case reflect.Struct:
		for i := 0; i < t.NumField(); i++ {
			f := t.Field(i)
			if f.PkgPath != "" || c27OffWire[t.Name()+"."+f.Name] {
				continue
			}
			if p, d := c27Diff(got.Field(i), want.Field(i), path+"."+f.Name); p != "" {
				if c27All == nil {
					return p, d
				}
				*c27All = append(*c27All, [2]string{p, d})
			}
		}
		return "", ""
	case reflect.Float64:
		if a, b := got.Float(), want.Float(); a != b && !(math.IsNaN(a) && math.IsNaN(b)) {
			return path, fmt.Sprintf("got %v want %v", a, b)
		}
		return "", ""
	}
	if got.Interface() != want.Interface() {
		return path, fmt.Sprintf("got %s want %s", c27Brief(got), c27Brief(want))
	}
	return "", ""
}

func c27KindName(v reflect.Value) string {
	if !v.IsValid() {
		return "nil"
	}
	if v.Kind() == reflect.Interface {
		if v.IsNil() {
			return "nil"
		}
		v = v.Elem()
	}
	return strings.TrimPrefix(strings.Replace(v.Type().String(), "pilosa.", "", -1), "*")
}

func c27Brief(v reflect.Value) string {
	if !v.IsValid() {
		return "<nil>"
	}
	s := fmt.Sprintf("%s(%+v)", v.Type(), v.Interface())
	if len(s) > 200 {
		s = s[:200] + "..."
	}
	return s
}

// ---------------------------------------------------------------- hostile inputs

// c27WireFields splits a protobuf message into its top-level fields.
type c27Field struct{ start, payload, end, wtype int }

func c27WireFields(b []byte) []c27Field {
	var out []c27Field
	i := 0
	varint := func() (uint64, bool) {
		var x uint64
		for s := uint(0); s < 64 && i < len(b); s += 7 {
			c := b[i]
			i++
			x |= uint64(c&0x7f) << s
			if c < 0x80 {
				return x, true
			}
		}
		return 0, false
	}
	for i < len(b) {
		start := i
		tag, ok := varint()
		if !ok {
			return out
		}
		f := c27Field{start: start, wtype: int(tag & 7)}
		switch f.wtype {
		case 0:
			f.payload = i
			if _, ok := varint(); !ok {
				return out
			}
		case 1:
			f.payload = i
			i += 8
		case 5:
			f.payload = i
			i += 4
		case 2:
			n, ok := varint()
			if !ok || n > uint64(len(b)-i) {
				return out
			}
			f.payload = i
			i += int(n)
		default:
			return out
		}
		if i > len(b) {
			return out
		}
		f.end = i
		out = append(out, f)
	}
	return out
}

var c27MutKinds = []string{"empty", "truncate", "bitflip", "drop-field", "empty-submessage", "cross-type", "random", "byte-insert", "inconsistent-result", "huge-length"}

// c27Feature classifies a hostile input structurally (a predicate over the input bytes and the
// target's wire schema): which sub-message the decoder will find absent.
func c27Feature(t c27Target, buf []byte) (feature string) {
	defer func() {
		if e := recover(); e != nil {
			feature = "wire-decoder-panic"
		}
	}()
	msg := t.wire()
	if err := gogo.Unmarshal(buf, msg); err != nil {
		return "wire-invalid"
	}
	if qr, ok := msg.(*internal.QueryResponse); ok {
		for _, res := range qr.Results {
			switch {
			case res.Type > 9:
				return "result-type=unknown"
			case res.Type == 9 && len(res.Pairs) == 0:
				return "result=pair-without-pairs"
			case res.Type == 3 && res.ValCount == nil:
				return "result=valcount-missing"
			case res.Type == 8 && res.RowIdentifiers == nil:
				return "result=rowidentifiers-missing"
			}
		}
		return "complete"
	}
	if p := c27Missing(reflect.ValueOf(msg).Elem(), ""); p != "" {
		return "missing=" + p
	}
	return "complete"
}

func c27Missing(v reflect.Value, path string) string {
	t := v.Type()
	for i := 0; i < t.NumField(); i++ {
		f := t.Field(i)
		if f.PkgPath != "" || strings.HasPrefix(f.Name, "XXX_") {
			continue
		}
		fv := v.Field(i)
		switch {
		case f.Type.Kind() == reflect.Ptr && f.Type.Elem().Kind() == reflect.Struct:
			if fv.IsNil() {
				return path + f.Name
			}
			if p := c27Missing(fv.Elem(), path+f.Name+"."); p != "" {
				return p
			}
		case f.Type.Kind() == reflect.Slice && f.Type.Elem().Kind() == reflect.Ptr && f.Type.Elem().Elem().Kind() == reflect.Struct:
			for j := 0; j < fv.Len(); j++ {
				if fv.Index(j).IsNil() {
					return path + f.Name + "[]"
				}
				if p := c27Missing(fv.Index(j).Elem(), path+f.Name+"[]."); p != "" {
					return p
				}
			}
		}
	}
	return ""
}

func c27Mutate(rng *vk.Rand, kind string, valid []byte, other []byte) []byte {
	b := append([]byte(nil), valid...)
	switch kind {
	case "empty":
		return nil
	case "truncate":
		if len(b) == 0 {
			return b
		}
		return b[:rng.Intn(len(b))]
	case "bitflip":
		for n := 1 + rng.Intn(3); n > 0 && len(b) > 0; n-- {
			b[rng.Intn(len(b))] ^= 1 << uint(rng.Intn(8))
		}
		return b
	case "byte-insert":
		p := rng.Intn(len(b) + 1)
		ins := []byte{byte(rng.Intn(256))}
		return append(b[:p:p], append(ins, b[p:]...)...)
	case "drop-field", "empty-submessage", "huge-length":
		// choose a nesting level, then drop a field / empty a length-delimited field there
		return c27Structural(rng, kind, b, 0)
	case "cross-type":
		return append([]byte(nil), other...)
	case "random":
		n := rng.Intn(40)
		out := make([]byte, n)
		for i := range out {
			out[i] = byte(rng.Intn(256))
		}
		return out
	}
	return b
}

func c27PutVarint(x uint64) []byte {
	var out []byte
	for x >= 0x80 {
		out = append(out, byte(x)|0x80)
		x >>= 7
	}
	return append(out, byte(x))
}

func c27Structural(rng *vk.Rand, kind string, b []byte, depth int) []byte {
	fs := c27WireFields(b)
	if len(fs) == 0 {
		return b
	}
	f := fs[rng.Intn(len(fs))]
	// descend into a sub-message sometimes
	if f.wtype == 2 && f.end > f.payload && depth < 3 && rng.Chance(1, 2) {
		inner := c27Structural(rng, kind, b[f.payload:f.end], depth+1)
		tagLen := 0
		for b[f.start+tagLen] >= 0x80 {
			tagLen++
		}
		tagLen++
		out := append([]byte(nil), b[:f.start+tagLen]...)
		out = append(out, c27PutVarint(uint64(len(inner)))...)
		out = append(out, inner...)
		return append(out, b[f.end:]...)
	}
	if kind == "drop-field" {
		return append(append([]byte(nil), b[:f.start]...), b[f.end:]...)
	}
	// empty-submessage: keep the tag, zero the length; huge-length: keep the tag, claim a length close to 2^63
	var ld []c27Field
	for _, x := range fs {
		if x.wtype == 2 {
			ld = append(ld, x)
		}
	}
	if len(ld) == 0 {
		return b
	}
	f = ld[rng.Intn(len(ld))]
	tagLen := 0
	for b[f.start+tagLen] >= 0x80 {
		tagLen++
	}
	tagLen++
	out := append([]byte(nil), b[:f.start+tagLen]...)
	if kind == "huge-length" {
		out = append(out, c27PutVarint(uint64(1<<63-1)-uint64(rng.Intn(len(b)+2)))...)
		return append(out, b[f.payload:]...)
	}
	out = append(out, 0)
	return append(out, b[f.end:]...)
}

// c27Inconsistent builds wire-valid QueryResponse encodings whose result type disagrees with the payload.
func c27Inconsistent(rng *vk.Rand) []byte {
	res := &internal.QueryResult{}
	switch rng.Intn(6) {
	case 0:
		res.Type = uint32(10 + rng.Intn(1000))
	case 1:
		res.Type = math.MaxUint32
	case 2:
		res.Type = 9 // Pair without Pairs
	case 3:
		res.Type = 3 // ValCount missing
	case 4:
		res.Type = 8 // RowIdentifiers missing
	default:
		res.Type = 1 // Row missing (tolerated by decodeRow)
	}
	qr := &internal.QueryResponse{Results: []*internal.QueryResult{{Type: 4, N: 7}, res}}
	b, _ := gogo.Marshal(qr)
	return b
}

type c27Case struct {
	Target string      `json:"target"`
	Kind   string      `json:"kind,omitempty"`
	Hex    string      `json:"bytes_hex,omitempty"`
	Value  interface{} `json:"value,omitempty"`
}

func c27Hex(b []byte) string {
	if len(b) > 400 {
		return fmt.Sprintf("%x...(%d bytes)", b[:400], len(b))
	}
	return fmt.Sprintf("%x", b)
}

// ---------------------------------------------------------------- test

func TestVerifC27(t *testing.T) {
	r := vk.Start(t, "C27")
	defer r.Finish()
	ser := Serializer{}

	// every `case *pilosa.X:` arm of Serializer.Unmarshal must be in the table
	inTable := map[string]bool{}
	for _, tg := range c27Targets {
		inTable[tg.name] = true
		r.Expect("roundtrip:" + tg.name)
		r.Expect("hostile:" + tg.name)
	}
	if src, err := os.ReadFile(filepath.Join(os.Getenv("VERIF_REPO_DIR"), "encoding", "proto", "proto.go")); err == nil {
		body := string(src)
		if i := strings.Index(body, "func (Serializer) Unmarshal("); i >= 0 {
			body = body[i:]
			if j := strings.Index(body, "\nfunc encodeToProto"); j >= 0 {
				body = body[:j]
			}
		}
		for _, m := range regexp.MustCompile(`case \*pilosa\.(\w+):`).FindAllStringSubmatch(body, -1) {
			r.Expect("roundtrip:" + m[1]) // a type missing from the table is never covered => INCONCLUSIVE
		}
		r.Note("unmarshal-arms", fmt.Sprint(len(regexp.MustCompile(`case \*pilosa\.(\w+):`).FindAllString(body, -1))))
	} else {
		r.Note("unmarshal-arms", "source not readable: "+err.Error())
	}
	for _, k := range c27ResultKinds {
		r.Expect("result-kind:" + k)
	}
	for _, k := range c27MutKinds {
		r.Expect("mutation:" + k)
	}
	r.Expect("class:nil-pointer", "class:nil-pointer-marshal-refused")

	roundTrip := func(id string, tg c27Target, v interface{}, nilPtrs bool) []byte {
		var buf []byte
		var err error
		wit := func() interface{} { return c27Case{Target: tg.name, Value: fmt.Sprintf("%+v", c27Render(v))} }
		// Marshal
		marshalPanicked := false
		func() {
			defer func() {
				if e := recover(); e != nil {
					marshalPanicked = true
					if nilPtrs {
						// a value with a nil sub-message that Marshal itself refuses is outside the codec's domain
						r.Cover("class:nil-pointer-marshal-refused")
						return
					}
					r.Fail("roundtrip:"+tg.name+":marshal-panic", id, fmt.Sprintf("Marshal panicked: %v", e), wit())
				}
			}()
			buf, err = ser.Marshal(v)
		}()
		if marshalPanicked {
			return nil
		}
		r.Eval(1)
		if err != nil {
			r.Fail("roundtrip:"+tg.name+":marshal-error", id, "Marshal error: "+err.Error(), wit())
			return nil
		}
		out := tg.new()
		sigBase := "roundtrip:" + tg.name
		if nilPtrs {
			sigBase += ":nil-pointer"
		}
		if r.Guard(func() string { return sigBase + ":unmarshal-panic" }, id, wit, func() { err = ser.Unmarshal(buf, out) }) {
			return buf
		}
		if err != nil {
			r.Fail(sigBase+":unmarshal-error", id, "Unmarshal of a fresh encoding failed: "+err.Error(), wit())
			return buf
		}
		r.Cover("roundtrip:" + tg.name)
		var all [][2]string
		c27All = &all
		if p, d := c27Diff(reflect.ValueOf(out).Elem(), reflect.ValueOf(v).Elem(), ""); p != "" {
			all = append(all, [2]string{p, d})
		}
		c27All = nil
		seen := map[string]bool{}
		for _, pd := range all {
			if !seen[pd[0]] {
				seen[pd[0]] = true
				r.Fail("roundtrip:"+tg.name+":"+strings.TrimPrefix(pd[0], "."), id, fmt.Sprintf("Unmarshal(Marshal(v)) differs at %s: %s", pd[0], pd[1]), wit())
			}
		}
		return buf
	}

	// ---- directed: known-shape witnesses
	r.Directed("witnesses", func(id string) {
		tgt := func(name string) c27Target {
			for _, tg := range c27Targets {
				if tg.name == name {
					return tg
				}
			}
			panic(name)
		}
		node := &pilosa.Node{ID: "n1", URI: pilosa.URI{Scheme: "http", Host: "h", Port: 10101}, State: "READY"}
		roundTrip(id, tgt("QueryResponse"), &pilosa.QueryResponse{Results: []interface{}{pilosa.RowIdentifiers{Rows: []uint64{1, 2}}}}, false)
		roundTrip(id, tgt("NodeStatus"), &pilosa.NodeStatus{Node: node, Schema: &pilosa.Schema{}}, false)
		roundTrip(id, tgt("CreateFieldMessage"), &pilosa.CreateFieldMessage{Index: "i", Field: "f", Meta: &pilosa.FieldOptions{Type: "time", TimeQuantum: "YMD", NoStandardView: true}}, false)
		roundTrip(id, tgt("CreateFieldMessage"), &pilosa.CreateFieldMessage{Index: "i", Field: "f"}, true)
		r.Cover("class:nil-pointer")
		for _, tg := range c27Targets {
			r.Eval(1)
			r.Cover("hostile:" + tg.name)
			r.Cover("mutation:empty")
			out := tg.new()
			feat := c27Feature(tg, nil)
			r.Guard(func() string { return "hostile:" + tg.name + ":" + feat }, id, func() interface{} { return c27Case{Target: tg.name, Kind: "empty"} }, func() { ser.Unmarshal(nil, out) })
		}
	})

	// ---- round trips
	nrt := r.N(48000, 1920000)
	r.Cases("roundtrip", nrt, func(i int, id string, rng *vk.Rand) {
		tg := c27Targets[i%len(c27Targets)]
		g := &c27Gen{rng: rng, r: r, nilPtrs: rng.Chance(1, 10)}
		v := tg.new()
		g.fill(reflect.ValueOf(v).Elem(), tg.name)
		nil1 := g.nilPtrs && g.usedNil
		if nil1 {
			r.Cover("class:nil-pointer")
		}
		buf := roundTrip(id, tg, v, nil1)
		r.Distinct(vk.HashBytes(append([]byte(tg.name+":"), buf...)), len(buf) > 0)
		if r.WantSample() && len(buf) > 8 {
			r.Sample(c27Case{Target: tg.name, Hex: c27Hex(buf), Value: fmt.Sprintf("%+v", c27Render(v))})
		}
	})

	// encode returns a valid encoding of a fresh generated value of tg (nil if Marshal refuses it)
	encode := func(rng *vk.Rand, tg c27Target) (buf []byte) {
		defer func() {
			if e := recover(); e != nil {
				buf = nil
			}
		}()
		g := &c27Gen{rng: rng, r: r}
		v := tg.new()
		g.fill(reflect.ValueOf(v).Elem(), tg.name)
		buf, _ = ser.Marshal(v)
		return buf
	}
	queryResponse := c27Targets[0]
	for _, tg := range c27Targets {
		if tg.name == "QueryResponse" {
			queryResponse = tg
		}
	}

	// ---- hostile bytes (each case builds its own valid encodings, so it can be replayed alone)
	nh := r.N(120000, 4800000)
	r.Cases("hostile", nh, func(i int, id string, rng *vk.Rand) {
		ti := i % len(c27Targets)
		tg := c27Targets[ti]
		kind := c27MutKinds[rng.Intn(len(c27MutKinds))]
		valid := encode(rng, tg)
		var other []byte
		if kind == "cross-type" {
			other = encode(rng, c27Targets[(ti+1+rng.Intn(len(c27Targets)-1))%len(c27Targets)])
		}
		var buf []byte
		if kind == "inconsistent-result" {
			tg = queryResponse
			buf = c27Inconsistent(rng)
		} else {
			buf = c27Mutate(rng, kind, valid, other)
		}
		feat := c27Feature(tg, buf)
		sig := "hostile:" + tg.name + ":" + feat
		if feat == "wire-decoder-panic" {
			sig = "hostile:wire-decoder-panic:" + tg.name // the generated wire decoder itself panics, whatever the target
		}
		r.Cover("mutation:" + kind)
		r.Cover("hostile:" + tg.name)
		r.Cover("feature:" + strings.SplitN(feat, "=", 2)[0])
		r.Distinct(vk.HashBytes(append([]byte(tg.name+"|"), buf...)), true)
		wit := func() interface{} { return c27Case{Target: tg.name, Kind: kind, Hex: c27Hex(buf)} }
		r.InFlightDetail(id, map[string]interface{}{"sig": sig, "target": tg.name, "kind": kind, "hex": c27Hex(buf)})
		out := tg.new()
		var err error
		r.Eval(1)
		if r.Guard(func() string { return sig }, id, wit, func() { err = ser.Unmarshal(buf, out) }) {
			return
		}
		if err != nil {
			r.Cover("hostile-outcome:error")
		} else {
			r.Cover("hostile-outcome:value")
		}
	})
}

// c27Render makes values printable in witnesses (bitmaps and rows have unexported state).
func c27Render(v interface{}) interface{} {
	return c27RenderV(reflect.ValueOf(v), 0)
}

func c27RenderV(v reflect.Value, depth int) interface{} {
	if !v.IsValid() {
		return nil
	}
	switch v.Type() {
	case c27TypeBitmap:
		if v.IsNil() {
			return "bitmap(nil)"
		}
		return "bitmap" + vk.Brief(v.Interface().(*roaring.Bitmap).Slice())
	case c27TypeRow:
		if v.IsNil() {
			return "(*Row)(nil)"
		}
		row := v.Interface().(*pilosa.Row)
		return fmt.Sprintf("Row{cols:%s keys:%q attrs:%v}", vk.Brief(row.Columns()), row.Keys, row.Attrs)
	}
	switch v.Kind() {
	case reflect.Ptr, reflect.Interface:
		if v.IsNil() {
			return "nil"
		}
		if v.Kind() == reflect.Interface {
			return fmt.Sprintf("%s:%v", v.Elem().Type(), c27RenderV(v.Elem(), depth+1))
		}
		return c27RenderV(v.Elem(), depth+1)
	case reflect.Struct:
		m := map[string]interface{}{}
		for i := 0; i < v.NumField(); i++ {
			if v.Type().Field(i).PkgPath == "" {
				m[v.Type().Field(i).Name] = c27RenderV(v.Field(i), depth+1)
			}
		}
		keys := make([]string, 0, len(m))
		for k := range m {
			keys = append(keys, k)
		}
		sort.Strings(keys)
		s := v.Type().Name() + "{"
		for _, k := range keys {
			s += fmt.Sprintf("%s:%v ", k, m[k])
		}
		return s + "}"
	case reflect.Slice:
		if v.IsNil() {
			return "nil"
		}
		if v.Len() > 8 {
			return fmt.Sprintf("%s(len %d)", v.Type(), v.Len())
		}
		out := make([]interface{}, v.Len())
		for i := range out {
			out[i] = c27RenderV(v.Index(i), depth+1)
		}
		return out
	}
	s := fmt.Sprintf("%v", v.Interface())
	if len(s) > 60 {
		s = s[:60] + "..."
	}
	return s
}
