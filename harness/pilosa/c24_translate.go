package pilosa

// C24 — Key translation is a stable bijection on every node.
//
// Leg "hist": model-based histories on a real TranslateFile: column and row
// batches over several indexes/fields with repeats, "", 5 kB keys, Unicode
// and enough keys per namespace to cross the robin-hood growth thresholds
// (231 / 461 / 922), reverse lookups, Close/Open. Oracle: model
// map[namespace][key]id — one positive id per distinct key that never changes,
// distinct keys distinct ids, reverse lookup returns the key, all unchanged
// after reopen. Replication: for EVERY k of the primary's log entries a fresh
// replica TranslateFile (PrimaryTranslateStore = a wrapper around the real
// primary.Reader that ends the stream at the boundary of entry k, delivering
// arbitrary chunk sizes) runs the real replicate() once, is "disconnected", and
// resumes from its own size; its mapping must then equal the primary's.
//
// Leg "race" (built with -race): 8 goroutines translate overlapping key sets on
// one store while a replica follows it through the real blocking Reader;
// compared at quiescence.

import (
	"context"
	"fmt"
	"io"
	"os"
	"path/filepath"
	"sort"
	"strings"
	"sync"
	"testing"
	"time"

	vk "github.com/pilosa/pilosa/internal/verifkit"
)

const c24MapSize = 1 << 26

type c24NS struct {
	Index, Field string // Field == "" : column namespace
}

func (n c24NS) String() string {
	if n.Field == "" {
		return "cols(" + n.Index + ")"
	}
	return "rows(" + n.Index + "/" + n.Field + ")"
}

type c24Model struct {
	ids  map[c24NS]map[string]uint64
	keys map[c24NS]map[uint64]string
}

func newC24Model() *c24Model {
	return &c24Model{ids: map[c24NS]map[string]uint64{}, keys: map[c24NS]map[uint64]string{}}
}

type c24Step struct {
	Op   string   `json:"op"`
	NS   string   `json:"ns,omitempty"`
	Keys []string `json:"keys,omitempty"` // long keys abbreviated
	N    int      `json:"n,omitempty"`
}

type c24Hist struct {
	Steps []c24Step `json:"steps"`
	Note  string    `json:"note,omitempty"`
}

func c24Abbrev(keys []string) []string {
	out := make([]string, 0, len(keys))
	for i, k := range keys {
		if i >= 12 {
			out = append(out, fmt.Sprintf("...(%d keys)", len(keys)))
			break
		}
		if len(k) > 40 {
			k = fmt.Sprintf("%s...(len %d)", k[:24], len(k))
		}
		out = append(out, k)
	}
	return out
}

func c24Translate(s TranslateStore, ns c24NS, keys []string) ([]uint64, error) {
	in := append([]string(nil), keys...) // never share slices with the code under test
	if ns.Field == "" {
		return s.TranslateColumnsToUint64(ns.Index, in)
	}
	return s.TranslateRowsToUint64(ns.Index, ns.Field, in)
}

func c24Reverse(s TranslateStore, ns c24NS, id uint64) (string, error) {
	if ns.Field == "" {
		return s.TranslateColumnToString(ns.Index, id)
	}
	return s.TranslateRowToString(ns.Index, ns.Field, id)
}

func c24Open(path string) (*TranslateFile, error) {
	s := NewTranslateFile(OptTranslateFileMapSize(c24MapSize))
	s.Path = path
	return s, s.Open()
}

// c24Key draws one key of the given namespace's universe.
func c24Key(rng *vk.Rand, universe int) string {
	i := rng.Intn(universe)
	switch i % 23 {
	case 0:
		return fmt.Sprintf("ключ-%d-\U0001F600", i)
	case 1:
		return fmt.Sprintf("k%d/", i) + strings.Repeat("L", 5000+i%7) // 5 kB: larger than the bufio buffers
	case 2:
		if i == 2 {
			return ""
		}
	case 3:
		return fmt.Sprintf("a,b \"%d\"\n", i)
	}
	return fmt.Sprintf("key-%d", i)
}

// c24Boundaries parses the primary's log and returns the end offset of every entry.
func c24Boundaries(path string) ([]int64, error) {
	f, err := os.Open(path)
	if err != nil {
		return nil, err
	}
	defer f.Close()
	br := &c24ByteReader{r: f}
	var out []int64
	var off int64
	for {
		var e LogEntry
		n, err := e.ReadFrom(br)
		if err == io.EOF {
			return out, nil
		} else if err != nil {
			return out, err
		}
		off += n
		out = append(out, off)
	}
}

type c24ByteReader struct {
	r   io.Reader
	buf [1]byte
}

func (b *c24ByteReader) Read(p []byte) (int, error) { return b.r.Read(p) }
func (b *c24ByteReader) ReadByte() (byte, error) {
	if _, err := io.ReadFull(b.r, b.buf[:]); err != nil {
		return 0, err
	}
	return b.buf[0], nil
}

// c24LimitedPrimary is the replica's view of the primary: the real primary.Reader, cut at `limit`
// bytes of the primary's log (an entry boundary) and delivered in arbitrary chunk sizes.
type c24LimitedPrimary struct {
	*TranslateFile
	limit int64
	rng   *vk.Rand
}

func (p *c24LimitedPrimary) Reader(ctx context.Context, off int64) (io.ReadCloser, error) {
	rc, err := p.TranslateFile.Reader(ctx, off)
	if err != nil {
		return nil, err
	}
	return &c24LimitedReader{rc: rc, left: p.limit - off, rng: p.rng}, nil
}

type c24LimitedReader struct {
	rc   io.ReadCloser
	left int64
	rng  *vk.Rand
}

func (l *c24LimitedReader) Read(p []byte) (int, error) {
	if l.left <= 0 {
		return 0, io.EOF // the connection ends exactly at an entry boundary
	}
	max := int64(1 + l.rng.Intn(9000))
	if l.rng.Chance(1, 4) {
		max = int64(1 + l.rng.Intn(3))
	}
	if max > l.left {
		max = l.left
	}
	if int64(len(p)) > max {
		p = p[:max]
	}
	n, err := l.rc.Read(p)
	l.left -= int64(n)
	return n, err
}

func (l *c24LimitedReader) Close() error { return l.rc.Close() }

func TestVerifC24(t *testing.T) {
	r := vk.Start(t, "C24")
	defer r.Finish()
	scratch := os.Getenv("VERIF_SCRATCH")
	if scratch == "" {
		scratch = os.TempDir()
	}
	r.Expect("op:columns", "op:rows", "op:reverse", "op:reverse-unknown-id", "op:reopen", "batch:repeats", "batch:all-known", "batch:mixed-known-new", "batch:all-new",
		"key:empty", "key:5kB", "key:unicode", "growth:>230", "growth:>460", "growth:>921", "repl:boundary", "repl:boundary-0", "repl:boundary-last", "repl:resume", "repl:entry>4096")

	runHist := func(id string, rng *vk.Rand, big bool) {
		dir := filepath.Join(scratch, fmt.Sprintf("c24-%d", rng.Uint64()))
		os.MkdirAll(dir, 0o755)
		defer os.RemoveAll(dir)
		hist := &c24Hist{}
		wit := func() interface{} { return hist }
		failed := false
		fail := func(sig, msg string) {
			failed = true
			r.Fail(sig, id, fmt.Sprintf("after step %d: %s", len(hist.Steps), msg), wit())
		}
		primary, err := c24Open(filepath.Join(dir, "primary.keys"))
		if err != nil {
			fail("open", err.Error())
			return
		}
		defer func() { primary.Close() }()
		model := newC24Model()
		nss := []c24NS{{"i", ""}, {"i", "f"}, {"i", "g"}, {"j", ""}, {"j", "f"}}
		universe := map[c24NS]int{}
		for _, ns := range nss {
			universe[ns] = 30 + rng.Intn(60)
		}
		bigNS := nss[rng.Intn(len(nss))]
		if big {
			universe[bigNS] = 1100
		}

		checkBatch := func(s TranslateStore, ns c24NS, keys []string, sig string, mayCreate bool) {
			ids, err := c24Translate(s, ns, keys)
			if err != nil {
				fail(sig, fmt.Sprintf("%s translate error: %v", ns, err))
				return
			}
			if len(ids) != len(keys) {
				fail(sig, fmt.Sprintf("%s: %d ids for %d keys", ns, len(ids), len(keys)))
				return
			}
			if model.ids[ns] == nil {
				model.ids[ns], model.keys[ns] = map[string]uint64{}, map[uint64]string{}
			}
			for i, k := range keys {
				r.Eval(1)
				got := ids[i]
				if got == 0 {
					fail(sig, fmt.Sprintf("%s: key %q got id 0", ns, c24Abbrev([]string{k})[0]))
					return
				}
				if want, ok := model.ids[ns][k]; ok {
					if got != want {
						fail(sig, fmt.Sprintf("%s: key %q had id %d, now %d", ns, c24Abbrev([]string{k})[0], want, got))
						return
					}
					continue
				}
				if !mayCreate {
					fail(sig, fmt.Sprintf("%s: key %q unknown to the model but translated to %d on a read-only check", ns, c24Abbrev([]string{k})[0], got))
					return
				}
				if other, taken := model.keys[ns][got]; taken {
					fail(sig, fmt.Sprintf("%s: new key %q got id %d which already belongs to key %q", ns, c24Abbrev([]string{k})[0], got, c24Abbrev([]string{other})[0]))
					return
				}
				model.ids[ns][k], model.keys[ns][got] = got, k
				switch n := len(model.ids[ns]); n {
				case 231:
					r.Cover("growth:>230")
				case 461:
					r.Cover("growth:>460")
				case 922:
					r.Cover("growth:>921")
				}
			}
		}
		// full comparison of a store with the model (forward in batches, reverse one by one)
		checkAll := func(s TranslateStore, sig, who string) {
			for _, ns := range nss {
				keys := make([]string, 0, len(model.ids[ns]))
				for k := range model.ids[ns] {
					keys = append(keys, k)
				}
				sort.Strings(keys)
				for i := 0; i < len(keys) && !failed; i += 97 {
					j := i + 97
					if j > len(keys) {
						j = len(keys)
					}
					ids, err := c24Translate(s, ns, keys[i:j])
					if err != nil {
						fail(sig, fmt.Sprintf("%s %s: translating %d known keys: %v", who, ns, j-i, err))
						return
					}
					for x, k := range keys[i:j] {
						r.Eval(1)
						if ids[x] != model.ids[ns][k] {
							fail(sig, fmt.Sprintf("%s %s: key %q -> %d, model %d", who, ns, c24Abbrev([]string{k})[0], ids[x], model.ids[ns][k]))
							return
						}
					}
				}
				for idv, k := range model.keys[ns] {
					if failed {
						return
					}
					got, err := c24Reverse(s, ns, idv)
					r.Eval(1)
					if err != nil || got != k {
						fail(sig, fmt.Sprintf("%s %s: reverse(%d) = %q, %v; model %q", who, ns, idv, c24Abbrev([]string{got})[0], err, c24Abbrev([]string{k})[0]))
						return
					}
				}
			}
		}

		nsteps := 10 + rng.Intn(25)
		if big {
			nsteps = 40
		}
		for step := 0; step < nsteps && !failed; step++ {
			ns := nss[rng.Intn(len(nss))]
			if big && rng.Chance(3, 4) {
				ns = bigNS
			}
			switch k := rng.Intn(12); {
			case k < 8:
				n := 1 + rng.Intn(12)
				if universe[ns] > 1000 {
					n = 1 + rng.Intn(300)
				}
				keys := make([]string, 0, n)
				for i := 0; i < n; i++ {
					if i > 0 && rng.Chance(1, 5) {
						keys = append(keys, keys[rng.Intn(len(keys))])
						r.Cover("batch:repeats")
						continue
					}
					key := c24Key(rng, universe[ns])
					switch {
					case key == "":
						r.Cover("key:empty")
					case len(key) > 4096:
						r.Cover("key:5kB")
					case strings.HasPrefix(key, "ключ"):
						r.Cover("key:unicode")
					}
					keys = append(keys, key)
				}
				known := 0
				for _, key := range keys {
					if _, ok := model.ids[ns][key]; ok {
						known++
					}
				}
				switch {
				case known == len(keys):
					r.Cover("batch:all-known")
				case known == 0:
					r.Cover("batch:all-new")
				default:
					r.Cover("batch:mixed-known-new")
				}
				if ns.Field == "" {
					r.Cover("op:columns")
				} else {
					r.Cover("op:rows")
				}
				hist.Steps = append(hist.Steps, c24Step{Op: "translate", NS: ns.String(), Keys: c24Abbrev(keys), N: len(keys)})
				checkBatch(primary, ns, keys, "translate", true)
			case k < 10:
				// reverse lookups: known ids and ids never handed out
				hist.Steps = append(hist.Steps, c24Step{Op: "reverse", NS: ns.String()})
				for idv, key := range model.keys[ns] {
					got, err := c24Reverse(primary, ns, idv)
					r.Eval(1)
					r.Cover("op:reverse")
					if err != nil || got != key {
						fail("reverse", fmt.Sprintf("%s reverse(%d) = %q, %v; want %q", ns, idv, c24Abbrev([]string{got})[0], err, c24Abbrev([]string{key})[0]))
					}
					if rng.Chance(1, 3) {
						break
					}
				}
				unknown := uint64(len(model.keys[ns])) + 1 + uint64(rng.Intn(1000))
				if _, ok := model.keys[ns][unknown]; !ok {
					got, err := c24Reverse(primary, ns, unknown)
					r.Eval(1)
					r.Cover("op:reverse-unknown-id")
					if err != nil || got != "" {
						fail("reverse", fmt.Sprintf("%s reverse(%d) of an id never handed out = %q, %v", ns, unknown, got, err))
					}
				}
			default:
				hist.Steps = append(hist.Steps, c24Step{Op: "Close+Open"})
				r.Cover("op:reopen")
				if err := primary.Close(); err != nil {
					fail("reopen", "close: "+err.Error())
					break
				}
				if primary, err = c24Open(filepath.Join(dir, "primary.keys")); err != nil {
					fail("reopen", "open: "+err.Error())
					break
				}
				checkAll(primary, "reopen", "primary after reopen")
			}
		}
		if failed {
			return
		}
		checkAll(primary, "translate", "primary at end")
		if failed {
			return
		}

		// ---- replication resumed at every entry boundary
		bounds, err := c24Boundaries(primary.Path)
		if err != nil {
			fail("repl", "harness could not parse the primary log: "+err.Error())
			return
		}
		total := primary.size()
		if len(bounds) > 0 && bounds[len(bounds)-1] != total {
			fail("repl", fmt.Sprintf("primary log has %d bytes of entries but size() = %d", bounds[len(bounds)-1], total))
			return
		}
		prev := int64(0)
		for _, b := range bounds {
			if b-prev > 4096 {
				r.Cover("repl:entry>4096")
			}
			prev = b
		}
		cuts := append([]int64{0}, bounds...)
		hist.Note = fmt.Sprintf("primary log: %d entries, %d bytes", len(bounds), total)
		for ci, cut := range cuts {
			if failed {
				break
			}
			rpath := filepath.Join(dir, fmt.Sprintf("replica-%d.keys", ci))
			replica, err := c24Open(rpath)
			if err != nil {
				fail("repl", "open replica: "+err.Error())
				break
			}
			sig := "repl:resume-after-entries"
			hist.Steps = append(hist.Steps[:len(hist.Steps):len(hist.Steps)], c24Step{Op: fmt.Sprintf("replica: stream until entry %d (byte %d), disconnect, resume from own size", ci, cut)})
			func() {
				defer replica.Close()
				ctx := context.Background()
				// first connection: ends after k entries
				replica.PrimaryTranslateStore = &c24LimitedPrimary{TranslateFile: primary, limit: cut, rng: rng}
				if err := replica.replicate(ctx); err != nil {
					fail(sig, fmt.Sprintf("first connection (until entry %d): %v", ci, err))
					return
				}
				r.Eval(1)
				if got := replica.size(); got != cut {
					fail(sig, fmt.Sprintf("after %d entries (%d bytes) the replica holds %d bytes", ci, cut, got))
					return
				}
				// resume: replicate() asks the primary for everything after the replica's own size
				replica.PrimaryTranslateStore = &c24LimitedPrimary{TranslateFile: primary, limit: total, rng: rng}
				if err := replica.replicate(ctx); err != nil {
					fail(sig, fmt.Sprintf("resumed connection (from entry %d): %v", ci, err))
					return
				}
				r.Cover("repl:boundary")
				r.Cover("repl:resume")
				if ci == 0 {
					r.Cover("repl:boundary-0")
				}
				if ci == len(cuts)-1 {
					r.Cover("repl:boundary-last")
				}
				checkAll(replica, sig, fmt.Sprintf("replica resumed after entry %d/%d", ci, len(bounds)))
			}()
			os.Remove(rpath)
		}
		r.Distinct(vk.Hash64(id), len(hist.Steps) > 0)
		if r.WantSample() {
			r.Sample(hist)
		}
	}

	r.Directed("growth", func(id string) {
		for k := 0; k < 2; k++ {
			runHist(id, vk.NewRand(vk.Mix(r.Seed, 0xC24, uint64(k))), true)
		}
	})
	n := r.N(320, 12800)
	r.Cases("hist", n, func(i int, id string, rng *vk.Rand) {
		runHist(id, rng, rng.Chance(1, 8))
	})
}

// ---------------------------------------------------------------- concurrent callers (race leg)

func TestVerifC24Race(t *testing.T) {
	r := vk.Start(t, "C24")
	defer r.Finish()
	scratch := os.Getenv("VERIF_SCRATCH")
	if scratch == "" {
		scratch = os.TempDir()
	}
	r.Expect("conc:round", "conc:replica-caught-up", "conc:key-seen-by-several-goroutines")
	n := r.N(24, 960)
	r.Cases("conc", n, func(ci int, id string, rng *vk.Rand) {
		dir := filepath.Join(scratch, fmt.Sprintf("c24r-%d", rng.Uint64()))
		os.MkdirAll(dir, 0o755)
		defer os.RemoveAll(dir)
		primary, err := c24Open(filepath.Join(dir, "primary.keys"))
		if err != nil {
			r.Fail("open", id, err.Error(), nil)
			return
		}
		defer primary.Close()
		replica, err := c24Open(filepath.Join(dir, "replica.keys"))
		if err != nil {
			r.Fail("open", id, err.Error(), nil)
			return
		}
		defer replica.Close()
		replica.PrimaryTranslateStore = primary
		ctx, cancel := context.WithCancel(context.Background())
		var repWG sync.WaitGroup
		repWG.Add(1)
		var repErr error
		go func() { defer repWG.Done(); repErr = replica.replicate(ctx) }()

		const G = 8
		nss := []c24NS{{"i", ""}, {"i", "f"}, {"j", ""}}
		universe := 40 + rng.Intn(400)
		type obs struct {
			ns  c24NS
			key string
			id  uint64
		}
		results := make([][]obs, G)
		errs := make([]error, G)
		seeds := make([]uint64, G)
		for g := range seeds {
			seeds[g] = rng.Uint64()
		}
		var wg sync.WaitGroup
		start := make(chan struct{})
		for g := 0; g < G; g++ {
			wg.Add(1)
			go func(g int) {
				defer wg.Done()
				lr := vk.NewRand(seeds[g])
				<-start
				for b := 0; b < 30; b++ {
					ns := nss[lr.Intn(len(nss))]
					keys := make([]string, 1+lr.Intn(10))
					for i := range keys {
						keys[i] = c24Key(lr, universe)
						if i > 0 && lr.Chance(1, 6) {
							keys[i] = keys[lr.Intn(i)]
						}
					}
					ids, err := c24Translate(primary, ns, keys)
					if err != nil {
						errs[g] = err
						return
					}
					for i, k := range keys {
						results[g] = append(results[g], obs{ns, k, ids[i]})
					}
				}
			}(g)
		}
		close(start)
		wg.Wait()
		r.Cover("conc:round")
		wit := map[string]interface{}{"goroutines": G, "universe": universe, "batches_per_goroutine": 30}
		// quiescent: merge the observations
		ids := map[c24NS]map[string]uint64{}
		keys := map[c24NS]map[uint64]string{}
		seenBy := map[string]int{}
		for g := 0; g < G; g++ {
			if errs[g] != nil {
				r.Fail("conc:translate", id, fmt.Sprintf("goroutine %d: %v", g, errs[g]), wit)
				cancel()
				repWG.Wait()
				return
			}
			mine := map[string]bool{}
			for _, o := range results[g] {
				r.Eval(1)
				if ids[o.ns] == nil {
					ids[o.ns], keys[o.ns] = map[string]uint64{}, map[uint64]string{}
				}
				if !mine[o.ns.String()+"|"+o.key] {
					mine[o.ns.String()+"|"+o.key] = true
					seenBy[o.ns.String()+"|"+o.key]++
				}
				if o.id == 0 {
					r.Fail("conc:translate", id, fmt.Sprintf("%s key %q got id 0", o.ns, c24Abbrev([]string{o.key})[0]), wit)
					continue
				}
				if prev, ok := ids[o.ns][o.key]; ok && prev != o.id {
					r.Fail("conc:translate", id, fmt.Sprintf("%s key %q observed with ids %d and %d", o.ns, c24Abbrev([]string{o.key})[0], prev, o.id), wit)
					continue
				}
				if other, ok := keys[o.ns][o.id]; ok && other != o.key {
					r.Fail("conc:translate", id, fmt.Sprintf("%s id %d observed for keys %q and %q", o.ns, o.id, c24Abbrev([]string{other})[0], c24Abbrev([]string{o.key})[0]), wit)
					continue
				}
				ids[o.ns][o.key], keys[o.ns][o.id] = o.id, o.key
			}
		}
		for _, c := range seenBy {
			if c > 1 {
				r.Cover("conc:key-seen-by-several-goroutines")
				break
			}
		}
		for ns, m := range keys {
			for idv, k := range m {
				got, err := c24Reverse(primary, ns, idv)
				r.Eval(1)
				if err != nil || got != k {
					r.Fail("conc:translate", id, fmt.Sprintf("%s reverse(%d) = %q, %v; want %q", ns, idv, c24Abbrev([]string{got})[0], err, c24Abbrev([]string{k})[0]), wit)
				}
			}
		}
		// the replica follows the primary: wait (watchdog only) until it has the whole log
		deadline := time.Now().Add(60 * time.Second)
		for replica.size() < primary.size() && time.Now().Before(deadline) {
			time.Sleep(2 * time.Millisecond)
		}
		caught := replica.size() == primary.size()
		cancel()
		repWG.Wait()
		if !caught {
			r.Fail("conc:replica", id, fmt.Sprintf("replica stuck at %d of %d bytes (replicate returned %v)", replica.size(), primary.size(), repErr), wit)
			return
		}
		r.Cover("conc:replica-caught-up")
		for ns, m := range ids {
			for k, want := range m {
				got, err := c24Translate(replica, ns, []string{k})
				r.Eval(1)
				if err != nil || got[0] != want {
					r.Fail("conc:replica", id, fmt.Sprintf("replica %s key %q -> %v, %v; primary %d", ns, c24Abbrev([]string{k})[0], got, err, want), wit)
				}
			}
		}
		r.Distinct(vk.Hash64(id), true)
	})
}
