package pilosa_test

// C21 (cluster leg) — resize on REAL gossip clusters, end to end. A cluster of
// 1..3 nodes (drawn node IDs, replica count 1..3) is loaded through the public
// API with a set field, a time field (several views) and an int field over a
// few shards. Then a node JOINS (the coordinator plans and runs the resize job;
// fragments travel over HTTP) and afterwards a non-coordinator node is REMOVED
// through API.RemoveNode.
//
// Oracle (contents recorded from the owners before the change):
//   - after each completed resize every node that now owns (index, shard)
//     holds, for every field and view, exactly the recorded bits: every newly
//     owned shard was copied from a surviving owner and cleanup removed
//     nothing a node still owns;
//   - queries through every node answer as before;
//   - a removal is refused exactly when some shard with data would lose its
//     only previous owner (and then membership and data stay as they were);
//   - the cluster returns to NORMAL with the expected member list (the wait is
//     a watchdog: expiry is inconclusive, never a verdict).

import (
	"context"
	"fmt"
	"io/ioutil"
	"path"
	"sort"
	"strings"
	"testing"
	"time"

	"github.com/pilosa/pilosa"
	vk "github.com/pilosa/pilosa/internal/verifkit"
	"github.com/pilosa/pilosa/test"
)

type c21cCase struct {
	IDs      []string `json:"node_ids"`
	Replicas int      `json:"replicas"`
	Joiner   string   `json:"joining_node"`
	Removed  string   `json:"removed_node,omitempty"`
	Writes   []string `json:"writes"`
	Stage    string   `json:"stage"`
}

type c21cKey struct {
	index, field, view string
	shard              uint64
}

func c21cWaitNormal(c test.Cluster, members int) bool {
	deadline := time.Now().Add(90 * time.Second)
	for {
		ok := true
		for _, m := range c {
			if m.API.State() != pilosa.ClusterStateNormal || len(m.API.Hosts(nil)) != members {
				ok = false
			}
		}
		if ok {
			return true
		}
		if time.Now().After(deadline) {
			return false
		}
		time.Sleep(5 * time.Millisecond)
	}
}

func TestVerifC21Cluster(t *testing.T) {
	r := vk.Start(t, "C21")
	defer r.Finish()
	r.Expect("cluster:join:n1", "cluster:join:n2", "cluster:join:n3", "cluster:R1", "cluster:R2", "cluster:newly-owned-copied", "cluster:time-views", "cluster:int-view",
		"cluster:remove-accepted", "cluster:remove-refused", "cluster:queries-unchanged", "cluster:owner-kept-after-cleanup")
	ctx := context.Background()
	pool := []string{"node0", "node1", "node2", "a", "b", "zz", "N9", "0", "10", "m", "node10", "q7"}
	n := r.N(48, 1920)
	r.Cases("cluster", n, func(i int, id string, rng *vk.Rand) {
		nn := 1 + rng.Intn(3)
		perm := rng.Perm(len(pool))
		ids := make([]string, 0, nn+1)
		for k := 0; k <= nn; k++ {
			ids = append(ids, pool[perm[k]])
		}
		joiner := ids[nn]
		ids = ids[:nn]
		rep := 1 + rng.Intn(2)
		if rng.Chance(1, 6) {
			rep = 3
		}
		cs := &c21cCase{IDs: ids, Replicas: rep, Joiner: joiner, Stage: "start"}
		r.InFlightDetail(id, cs)
		c := c20cStart(t, ids, rep)
		defer func() {
			for _, m := range c {
				m.Close()
			}
		}()
		coord := 0
		for k, m := range c {
			if m.API.Node().IsCoordinator {
				coord = k
			}
		}
		// ---- schema and data through the public API
		indexes := []string{"i"}
		if rng.Chance(1, 3) {
			indexes = append(indexes, "j")
		}
		for _, index := range indexes {
			if _, err := c[0].API.CreateIndex(ctx, index, pilosa.IndexOptions{}); err != nil {
				t.Fatal(err)
			}
			if _, err := vrcCreateField(c[0].API, index, "f", pilosa.OptFieldTypeSet(pilosa.CacheTypeRanked, 100)); err != nil {
				t.Fatal(err)
			}
			if _, err := vrcCreateField(c[0].API, index, "t", pilosa.OptFieldTypeTime("YM")); err != nil {
				t.Fatal(err)
			}
			if _, err := vrcCreateField(c[0].API, index, "v", pilosa.OptFieldTypeInt(-100, 1000)); err != nil {
				t.Fatal(err)
			}
		}
		maxShard := 1 + rng.Intn(6)
		queries := map[string]string{} // query -> canonical result before
		for _, index := range indexes {
			for k := 0; k < 6+rng.Intn(20); k++ {
				sh := uint64(rng.Intn(maxShard + 1))
				if rng.Chance(1, 8) {
					sh += 7 // a gap in the shard sequence
				}
				col := sh*pilosa.ShardWidth + uint64(rng.Intn(1000))
				var pq string
				switch rng.Intn(4) {
				case 0, 1:
					pq = fmt.Sprintf("Set(%d, f=%d)", col, rng.Intn(4))
				case 2:
					pq = fmt.Sprintf("Set(%d, t=%d, 2017-0%d-02T03:04)", col, rng.Intn(2), 1+rng.Intn(3))
				case 3:
					pq = fmt.Sprintf("Set(%d, v=%d)", col, rng.Intn(1100)-100)
				}
				cs.Writes = append(cs.Writes, index+": "+pq)
				if _, err := c[rng.Intn(nn)].API.Query(ctx, &pilosa.QueryRequest{Index: index, Query: pq}); err != nil {
					r.FailOrUndecided("cluster:write-error", id, pq+": "+err.Error(), cs)
					return
				}
			}
			for row := 0; row < 4; row++ {
				queries[index+"\x00"+fmt.Sprintf("Row(f=%d)", row)] = ""
			}
			queries[index+"\x00Row(t=0, from='2017-01-01T00:00', to='2017-03-01T00:00')"] = ""
			queries[index+"\x00Row(t=1)"] = ""
			queries[index+"\x00Row(v > 5)"] = ""
			queries[index+"\x00Sum(field=v)"] = ""
		}
		canon := func(res interface{}) string {
			switch v := res.(type) {
			case *pilosa.Row:
				return fmt.Sprint(v.Columns())
			case pilosa.ValCount:
				return fmt.Sprintf("val=%d count=%d", v.Val, v.Count)
			}
			return fmt.Sprintf("%T %v", res, res)
		}
		runQueries := func(c test.Cluster, record bool, stage string) bool {
			var qs []string
			for q := range queries {
				qs = append(qs, q)
			}
			sort.Strings(qs)
			for k, m := range c {
				for _, q := range qs {
					parts := strings.SplitN(q, "\x00", 2)
					if m.Server.Holder().Index(parts[0]) == nil && !record {
						// A joining node that was given no sources receives no resize instruction and so
						// no schema until the next gossip push/pull. The property is about sources and
						// copies (checked in checkData, which fails if this node owns any recorded shard);
						// queries through such a node are outside it.
						r.Cover("cluster:observed:member-without-schema-after-join")
						continue
					}
					resp, err := m.API.Query(ctx, &pilosa.QueryRequest{Index: parts[0], Query: parts[1]})
					r.Eval(1)
					if err != nil {
						r.FailOrUndecided("cluster:query-error:"+stage, id, fmt.Sprintf("%s via node %d: %v", parts[1], k, err), cs)
						return false
					}
					got := canon(resp.Results[0])
					if record && k == 0 {
						queries[q] = got
					} else if got != queries[q] {
						r.FailOrUndecided("cluster:query-changed:"+stage, id, fmt.Sprintf("%s on %s via node %s: %s, before the resize: %s", parts[1], parts[0], m.API.Node().ID, got, queries[q]), cs)
						return false
					}
				}
			}
			return true
		}
		if !runQueries(c, true, "before") {
			return
		}
		// ---- record every fragment from its owners
		model := map[c21cKey][]uint64{}
		shardsOf := map[string][]uint64{}
		for _, index := range indexes {
			av := c[0].Server.Holder().Index(index).AvailableShards().Slice()
			shardsOf[index] = av
			for _, sh := range av {
				nodes, _ := c[0].API.ShardNodes(ctx, index, sh)
				for _, fld := range []string{"f", "t", "v"} {
					for _, m := range c {
						own := false
						for _, nd := range nodes {
							own = own || nd.ID == m.API.Node().ID
						}
						if !own {
							continue
						}
						f := m.Server.Holder().Field(index, fld)
						if f == nil {
							continue
						}
						for _, vn := range pilosa.VerifViewNames(f) {
							ps, ok := pilosa.VerifFragPositions(m.Server.Holder(), index, fld, vn, sh)
							if !ok || len(ps) == 0 {
								continue
							}
							key := c21cKey{index, fld, vn, sh}
							if prev, seen := model[key]; seen && !vk.EqualU64(prev, ps) {
								r.FailOrUndecided("cluster:replicas-differ-before-resize", id, fmt.Sprintf("%v: %s vs %s", key, vk.Brief(prev), vk.Brief(ps)), cs)
								return
							}
							model[key] = ps
						}
					}
				}
			}
		}
		byID := func(c test.Cluster) map[string]*test.Command {
			out := map[string]*test.Command{}
			for _, m := range c {
				out[m.API.Node().ID] = m
			}
			return out
		}
		ownersOf := func(c test.Cluster, index string, sh uint64) map[string]bool {
			nodes, _ := c[0].API.ShardNodes(ctx, index, sh)
			out := map[string]bool{}
			for _, nd := range nodes {
				out[nd.ID] = true
			}
			return out
		}
		// checkData: every current owner holds exactly the recorded bits
		checkData := func(c test.Cluster, before map[string]map[string]bool, stage string) bool {
			nodes := byID(c)
			for key, want := range model {
				owners := ownersOf(c, key.index, key.shard)
				for oid := range owners {
					m := nodes[oid]
					if m == nil {
						r.FailOrUndecided("cluster:owner-not-a-member:"+stage, id, fmt.Sprintf("%v is owned by %s which is not a running member", key, oid), cs)
						return false
					}
					r.Eval(1)
					got, _ := pilosa.VerifFragPositions(m.Server.Holder(), key.index, key.field, key.view, key.shard)
					newly := !before[fmt.Sprintf("%s/%d", key.index, key.shard)][oid]
					vc := "standard"
					switch {
					case strings.HasPrefix(key.view, "bsig_"):
						vc = "int"
					case key.view != "standard":
						vc = "time"
					}
					if !vk.EqualU64(got, want) {
						kind := "kept-owner"
						if newly {
							kind = "newly-owned"
						}
						r.FailOrUndecided(fmt.Sprintf("cluster:owner-lacks-data:%s:%s:%s-view", stage, kind, vc), id,
							fmt.Sprintf("after %s node %s owns %s/%s/%s/%d (newly=%v) but holds %s; recorded contents %s", stage, oid, key.index, key.field, key.view, key.shard, newly, vk.Brief(got), vk.Brief(want)), cs)
						return false
					}
					if newly {
						r.Cover("cluster:newly-owned-copied")
					} else {
						r.Cover("cluster:owner-kept-after-cleanup")
					}
					if vc == "time" {
						r.Cover("cluster:time-views")
					} else if vc == "int" {
						r.Cover("cluster:int-view")
					}
				}
			}
			return true
		}
		snapshotOwners := func(c test.Cluster) map[string]map[string]bool {
			out := map[string]map[string]bool{}
			for _, index := range indexes {
				for _, sh := range shardsOf[index] {
					out[fmt.Sprintf("%s/%d", index, sh)] = ownersOf(c, index, sh)
				}
			}
			return out
		}
		before := snapshotOwners(c)
		// ---- a node joins
		cs.Stage = "join"
		r.InFlightDetail(id, cs)
		m := test.NewCommandNode(false)
		m.Config.Gossip.Port = "0"
		m.Config.Gossip.Seeds = []string{c[coord].GossipAddress()}
		m.Config.Cluster.ReplicaN = rep
		m.Config.AntiEntropy.Interval = 0
		m.Config.Metric.Diagnostics = false
		if err := ioutil.WriteFile(path.Join(m.Config.DataDir, ".id"), []byte(joiner), 0600); err != nil {
			t.Fatal(err)
		}
		if err := m.Start(); err != nil {
			r.Note("inconclusive:"+id, "joining node failed to start: "+err.Error())
			return
		}
		c = append(c, m)
		if !c21cWaitNormal(c, nn+1) {
			r.Note("inconclusive:"+id, "cluster did not reach NORMAL with the new member (watchdog)")
			var st []string
			for _, m := range c {
				st = append(st, fmt.Sprintf("%s:%s/%d", m.API.Node().ID, m.API.State(), len(m.API.Hosts(nil))))
			}
			r.Note("inconclusive-detail:"+id, strings.Join(st, " "))
			return
		}
		if !checkData(c, before, "join") || !runQueries(c, false, "join") {
			return
		}
		r.Cover("cluster:queries-unchanged")
		r.Cover(fmt.Sprintf("cluster:join:n%d", nn))
		r.Cover(fmt.Sprintf("cluster:R%d", rep))
		// ---- a non-coordinator node is removed
		if rng.Chance(2, 3) {
			var cands []int
			for k, m := range c {
				if !m.API.Node().IsCoordinator {
					cands = append(cands, k)
				}
			}
			k := cands[rng.Intn(len(cands))]
			victim := c[k].API.Node().ID
			cs.Removed, cs.Stage = victim, "remove"
			r.InFlightDetail(id, cs)
			before = snapshotOwners(c)
			mustRefuse := false
			for key := range model {
				o := before[fmt.Sprintf("%s/%d", key.index, key.shard)]
				if o[victim] && len(o) == 1 {
					mustRefuse = true
				}
			}
			var cnode *test.Command
			for _, m := range c {
				if m.API.Node().IsCoordinator {
					cnode = m
				}
			}
			_, err := cnode.API.RemoveNode(victim)
			r.Eval(1)
			switch {
			case err != nil && !mustRefuse:
				r.FailOrUndecided("cluster:remove-refused-although-sources-exist", id, fmt.Sprintf("RemoveNode(%s): %v; every shard with data has another previous owner", victim, err), cs)
				return
			case err == nil && mustRefuse:
				r.FailOrUndecided("cluster:remove-accepted-without-source", id, fmt.Sprintf("RemoveNode(%s) accepted although it is the only owner of a shard with data", victim), cs)
				return
			case err != nil:
				r.Cover("cluster:remove-refused")
				if !c21cWaitNormal(c, nn+1) {
					r.Note("inconclusive:"+id, "cluster not NORMAL after a refused removal (watchdog)")
					return
				}
				if !checkData(c, before, "refused-remove") || !runQueries(c, false, "refused-remove") {
					return
				}
			default:
				rest := append(test.Cluster{}, c[:k]...)
				rest = append(rest, c[k+1:]...)
				if !c21cWaitNormal(rest, nn) {
					r.Note("inconclusive:"+id, "cluster did not reach NORMAL after the removal (watchdog)")
					return
				}
				c[k].Close()
				c = rest
				if !checkData(c, before, "remove") || !runQueries(c, false, "remove") {
					return
				}
				r.Cover("cluster:remove-accepted")
			}
		}
		r.Distinct(vk.Hash64("c21c", id), len(model) > 1)
		if r.WantSample() {
			r.Sample(cs)
		}
	})
}
