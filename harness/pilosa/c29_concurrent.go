package pilosa_test

// C29 — Concurrent requests are race-free and linearizable.
// One workload, two observers:
//   * the Go race detector (leg built with -race; the driver parses GORACE logs);
//   * recorded client-boundary histories, checked offline by checker/lincheck
//     (porcupine) against a per-(field,row) column-set model.
// Many short histories; logical clock (atomic counter) for call/return order.

import (
	"bytes"
	"context"
	"encoding/json"
	"fmt"
	"os"
	"path/filepath"
	"runtime"
	"strings"
	"sync"
	"sync/atomic"
	"testing"
	"time"

	"github.com/pilosa/pilosa"
	"github.com/pilosa/pilosa/encoding/proto"
	vk "github.com/pilosa/pilosa/internal/verifkit"
	"github.com/pilosa/pilosa/roaring"
	"github.com/pilosa/pilosa/test"
)

type c29Rec struct {
	C    int    `json:"c"`
	P    string `json:"p"`
	Op   string `json:"op"`
	M    uint64 `json:"m"`
	Call int64  `json:"call"`
	Ret  int64  `json:"ret"`
	Out  int64  `json:"out"`
	Open bool   `json:"open"`
}

// lin-checked partitions: field "a" lives in shard 0, field "b" in shard 1, so
// every (field,row) partition is served by a single fragment.
var c29Cols = map[string][]uint64{
	"a": {0, 1, 2, 65535, 65536, 70000},
	"b": {pilosa.ShardWidth, pilosa.ShardWidth + 1, pilosa.ShardWidth + 65536, 2*pilosa.ShardWidth - 1},
}

func c29Mask(field string, cols []uint64) uint64 {
	var m uint64
	for _, c := range cols {
		for i, k := range c29Cols[field] {
			if k == c {
				m |= 1 << uint(i)
			}
		}
	}
	return m
}

func TestVerifC29(t *testing.T) {
	r := vk.Start(t, "C29")
	defer r.Finish()
	for _, o := range []string{"set", "clear", "clearrow", "row", "count", "import", "importclear", "bg:store", "bg:topn", "bg:rows", "bg:sum", "bg:recalc", "bg:flush", "bg:snapshot", "bg:intset", "bg:topn-ids", "bg:importvalue", "bg:peer-createfield"} {
		r.Expect("op:" + o)
	}
	var hookN uint64
	pilosa.SetVerifHook(func(name string, a, b uint64) uint64 {
		switch name {
		case "fragment.new.maxopn":
			return 7 // frequent background snapshots
		case "fragment.snapshot.worker", "executor.worker.result", "executor.mapper.result":
			// widen interleavings between critical sections (never inside one)
			n := atomic.AddUint64(&hookN, 1)
			switch vk.Mix(n) % 4 {
			case 0:
				runtime.Gosched()
			case 1:
				time.Sleep(time.Duration(vk.Mix(n, 7)%200) * time.Microsecond)
			}
		}
		return 0
	})
	defer pilosa.SetVerifHook(nil)

	m := test.MustRunCommand()
	defer m.Close()
	ctx := context.Background()
	histDir := filepath.Join(r.OutDir, "histories")
	os.MkdirAll(histDir, 0o755)
	nIdx := 0
	var clock int64
	var peerFields int64

	n := r.N(240, 8000)
	r.Cases("hist", n, func(i int, id string, rng *vk.Rand) {
		procs := []int{1, 2, 4, 16}[i%4]
		old := runtime.GOMAXPROCS(procs)
		defer runtime.GOMAXPROCS(old)
		nIdx++
		index := fmt.Sprintf("c29x%d", nIdx)
		if _, err := m.API.CreateIndex(ctx, index, pilosa.IndexOptions{}); err != nil {
			t.Fatalf("create index: %v", err)
		}
		defer m.API.DeleteIndex(ctx, index)
		cacheType := []string{pilosa.CacheTypeRanked, pilosa.CacheTypeLRU}[rng.Intn(2)]
		for _, f := range []string{"a", "b", "c"} {
			if _, err := m.API.CreateField(ctx, index, f, pilosa.OptFieldTypeSet(cacheType, uint32(2+rng.Intn(3)))); err != nil {
				t.Fatalf("create field: %v", err)
			}
		}
		if _, err := m.API.CreateField(ctx, index, "v", pilosa.OptFieldTypeInt(-1000, 1000)); err != nil {
			t.Fatalf("create field: %v", err)
		}
		nclients := 3 + rng.Intn(6)
		nops := 10 + rng.Intn(16)
		var mu sync.Mutex
		var recs []c29Rec
		var progress int64
		var wg sync.WaitGroup
		var panics []string
		query := func(pq string) (interface{}, error) {
			resp, err := m.API.Query(ctx, &pilosa.QueryRequest{Index: index, Query: pq})
			if err != nil {
				return nil, err
			}
			if len(resp.Results) == 0 {
				return nil, fmt.Errorf("no results")
			}
			return resp.Results[0], nil
		}
		for c := 0; c < nclients; c++ {
			crng := rng.Fork()
			wg.Add(1)
			go func(c int, rng *vk.Rand) {
				defer wg.Done()
				defer func() {
					if e := recover(); e != nil {
						buf := make([]byte, 4096)
						buf = buf[:runtime.Stack(buf, false)]
						mu.Lock()
						panics = append(panics, fmt.Sprintf("%v\n%s", e, buf))
						mu.Unlock()
					}
				}()
				for k := 0; k < nops; k++ {
					field := []string{"a", "b"}[rng.Intn(2)]
					row := uint64(rng.Intn(2))
					cols := c29Cols[field]
					col := cols[rng.Intn(len(cols))]
					part := fmt.Sprintf("%s/%d", field, row)
					rec := c29Rec{C: c, P: part}
					kind := rng.Intn(23)
					var opname string
					var run func() (int64, error)
					b2i := func(v interface{}) int64 {
						if b, ok := v.(bool); ok && b {
							return 1
						}
						return 0
					}
					switch {
					case kind < 5:
						opname, rec.M = "set", c29Mask(field, []uint64{col})
						run = func() (int64, error) { v, err := query(fmt.Sprintf("Set(%d, %s=%d)", col, field, row)); return b2i(v), err }
					case kind < 8:
						opname, rec.M = "clear", c29Mask(field, []uint64{col})
						run = func() (int64, error) { v, err := query(fmt.Sprintf("Clear(%d, %s=%d)", col, field, row)); return b2i(v), err }
					case kind < 9:
						opname = "clearrow"
						run = func() (int64, error) { v, err := query(fmt.Sprintf("ClearRow(%s=%d)", field, row)); return b2i(v), err }
					case kind < 13:
						opname = "row"
						run = func() (int64, error) {
							v, err := query(fmt.Sprintf("Row(%s=%d)", field, row))
							if err != nil {
								return 0, err
							}
							return int64(c29Mask(field, v.(*pilosa.Row).Columns())), nil
						}
					case kind < 15:
						opname = "count"
						run = func() (int64, error) {
							v, err := query(fmt.Sprintf("Count(Row(%s=%d))", field, row))
							if err != nil {
								return 0, err
							}
							return int64(v.(uint64)), nil
						}
					case kind < 17:
						// single-row bulk import (set or clear) of 1..3 columns
						var cs []uint64
						for j := 0; j < 1+rng.Intn(3); j++ {
							cs = append(cs, cols[rng.Intn(len(cols))])
						}
						clear := rng.Chance(1, 3)
						opname, rec.M = "import", c29Mask(field, cs)
						if clear {
							opname = "importclear"
						}
						run = func() (int64, error) {
							rows := make([]uint64, len(cs))
							for j := range rows {
								rows[j] = row
							}
							req := &pilosa.ImportRequest{Index: index, Field: field, Shard: cs[0] / pilosa.ShardWidth, RowIDs: rows, ColumnIDs: append([]uint64(nil), cs...)}
							if clear {
								return 0, m.API.Import(ctx, req, pilosa.OptImportOptionsClear(true))
							}
							return 0, m.API.Import(ctx, req)
						}
					case kind < 18:
						// single-row roaring import
						var cs []uint64
						for j := 0; j < 1+rng.Intn(3); j++ {
							cs = append(cs, cols[rng.Intn(len(cols))])
						}
						clear := rng.Chance(1, 3)
						opname, rec.M = "import", c29Mask(field, cs)
						if clear {
							opname = "importclear"
						}
						run = func() (int64, error) {
							bm := roaring.NewBitmap()
							for _, c := range cs {
								bm.DirectAdd(row*pilosa.ShardWidth + c%pilosa.ShardWidth)
							}
							var buf bytes.Buffer
							bm.WriteTo(&buf)
							return 0, m.API.ImportRoaring(ctx, index, field, cs[0]/pilosa.ShardWidth, false, &pilosa.ImportRoaringRequest{Clear: clear, Views: map[string][]byte{"": buf.Bytes()}})
						}
					default:
						// background traffic on the same fragments / fields, not part of the lin history
						bg := rng.Intn(14)
						names := []string{"store", "topn", "rows", "sum", "recalc", "flush", "snapshot", "intset", "topn-ids", "topn-ids", "topn-ids", "importvalue", "importvalue", "peer-createfield"}
						r.Cover("op:bg:" + names[bg])
						var err error
						switch bg {
						case 0:
							_, err = query(fmt.Sprintf("Store(Row(%s=%d), c=%d)", field, row, rng.Intn(3)))
						case 1:
							_, err = query(fmt.Sprintf("TopN(%s, n=2)", field))
						case 2:
							_, err = query(fmt.Sprintf("Rows(%s)", field))
						case 3:
							_, err = query("Sum(field=v)")
						case 4:
							err = m.API.RecalculateCaches(ctx)
						case 5:
							pilosa.VerifFlushCaches(m.Server.Holder())
						case 6:
							if f := m.Server.Holder().Field(index, field); f != nil {
								pilosa.VerifSnapshotAll(f)
							}
						case 7:
							_, err = query(fmt.Sprintf("Set(%d, v=%d)", col, rng.Intn(2001)-1000))
						case 11, 12:
							// a value import large enough to write straight to storage and then wait for the
							// background snapshot: several clients wait on the same fragment's snapshot at once
							req := &pilosa.ImportValueRequest{Index: index, Field: "v", Shard: 0}
							for j := 0; j < 6+rng.Intn(20); j++ {
								req.ColumnIDs = append(req.ColumnIDs, uint64(rng.Intn(5000)))
								req.Values = append(req.Values, int64(rng.Intn(2001)-1000))
							}
							err = m.API.ImportValue(ctx, req)
						case 13:
							// what a peer broadcasts when a field is created there: the message handler runs on its own
							// goroutine, concurrently with the queries that look fields up in the same index
							msg := &pilosa.CreateFieldMessage{Index: index, Field: fmt.Sprintf("pf%d", atomic.AddInt64(&peerFields, 1)),
								Meta: &pilosa.FieldOptions{Type: pilosa.FieldTypeSet, CacheType: pilosa.CacheTypeRanked, CacheSize: 10}}
							var b []byte
							if b, err = pilosa.MarshalInternalMessage(msg, proto.Serializer{}); err == nil {
								err = m.API.ClusterMessage(ctx, bytes.NewReader(b))
							}
						default:
							// explicit ids: counts are read from the fragment's count cache without the fragment lock
							_, err = query(fmt.Sprintf("TopN(%s, ids=[0,1,2,3])", field))
						}
						if err != nil {
							mu.Lock()
							panics = append(panics, fmt.Sprintf("background op %s failed: %v", names[bg], err))
							mu.Unlock()
						}
						atomic.AddInt64(&progress, 1)
						continue
					}
					rec.Op = opname
					r.Cover("op:" + opname)
					rec.Call = atomic.AddInt64(&clock, 1)
					out, err := run()
					rec.Ret = atomic.AddInt64(&clock, 1)
					rec.Out = out
					if err != nil {
						// an error reply: the effect is unknown -> keep the op open, and report it (no op here may fail)
						rec.Open = true
						mu.Lock()
						panics = append(panics, fmt.Sprintf("op %s on %s failed: %v", opname, part, err))
						mu.Unlock()
					}
					mu.Lock()
					recs = append(recs, rec)
					mu.Unlock()
					atomic.AddInt64(&progress, 1)
				}
			}(c, crng)
		}
		// wait with a structural deadlock monitor: no progress for a long time AND clients parked on mutexes
		done := make(chan struct{})
		go func() { wg.Wait(); close(done) }()
		last, idle := int64(-1), 0
	wait:
		for {
			select {
			case <-done:
				break wait
			case <-time.After(500 * time.Millisecond):
				p := atomic.LoadInt64(&progress)
				if p != last {
					last, idle = p, 0
					continue
				}
				idle++
				if idle >= 120 { // 60 s without a single operation completing (ops take microseconds)
					buf := make([]byte, 1<<20)
					buf = buf[:runtime.Stack(buf, true)]
					st := string(buf)
					blocked := strings.Count(st, "sync.(*Mutex).Lock") + strings.Count(st, "sync.(*RWMutex).Lock") + strings.Count(st, "sync.(*RWMutex).RLock") + strings.Count(st, "chan send") + strings.Count(st, "chan receive")
					if len(st) > 6000 {
						st = st[:6000]
					}
					r.Fail("deadlock", id, fmt.Sprintf("no operation completed for 60s; %d goroutines parked on locks/channels\n%s", blocked, st), nil)
					r.Finish()
					os.Exit(3)
				}
			}
		}
		for _, p := range panics {
			sig := "panic-or-error"
			if strings.Contains(p, "failed:") {
				sig = "op-error"
			}
			r.Fail(sig, id, p, nil)
		}
		// persist the history for the offline checker
		var sb bytes.Buffer
		enc := json.NewEncoder(&sb)
		for _, rec := range recs {
			enc.Encode(rec)
		}
		os.WriteFile(filepath.Join(histDir, fmt.Sprintf("h-%d-%d-%d.jsonl", r.Worker, r.NWorkers, i)), sb.Bytes(), 0o644)
		r.Eval(len(recs))
		r.Count("events", int64(2*len(recs)))
		r.Count("clients", int64(nclients))
		r.Cover(fmt.Sprintf("gomaxprocs:%d", procs))
		// non-trivial: >= 2 operations on one partition overlap in logical time
		overl := false
		byP := map[string][]c29Rec{}
		for _, rec := range recs {
			byP[rec.P] = append(byP[rec.P], rec)
		}
		for _, rs := range byP {
			for x := range rs {
				for y := x + 1; y < len(rs); y++ {
					if rs[x].Call < rs[y].Ret && rs[y].Call < rs[x].Ret {
						overl = true
					}
				}
			}
		}
		r.Distinct(vk.Hash64("c29", id, len(recs)), overl)
		if r.WantSample() && len(recs) > 6 {
			r.Sample(recs[:6])
		}
	})
}
