package pilosa_test

// C11 (cluster leg) — anti-entropy on REAL clusters: n nodes started with
// gossip and HTTP, replica count R. The replicas of a shard are made to
// diverge behind the cluster's back (fragment-level writes on single nodes,
// in the standard view of a set field and in standard/year/month views of a
// time field, some views and fragments existing on only some replicas), then
// every node runs the server's own anti-entropy pass (Server.SyncData ->
// holderSyncer.SyncHolder -> fragmentSyncer over the HTTP internal client ->
// /internal/fragment/blocks, /block/data, import-roaring on the peers).
//
// Oracle, from the INITIAL contents only: after every node has completed a
// pass, every owner of the shard holds in that view exactly the bits that
// were set on at least half of the owners (ties -> set), non-owners are
// untouched, and the owners' block checksums are equal.

import (
	"context"
	"fmt"
	"sort"
	"strings"
	"testing"
	"time"

	"github.com/pilosa/pilosa"
	vk "github.com/pilosa/pilosa/internal/verifkit"
	"github.com/pilosa/pilosa/test"
)

type c11cFrag struct {
	Field    string     `json:"field"`
	View     string     `json:"view"`
	Shard    uint64     `json:"shard"`
	Owners   []string   `json:"owners"`
	Initial  [][]string `json:"initial_per_owner"` // "row:col", or ["<no fragment>"]
	initial  [][]uint64
	present  []bool
	nonOwner []uint64 // contents planted on one non-owner (must stay)
	nonIdx   int
}

type c11cCase struct {
	Nodes    int         `json:"nodes"`
	Replicas int         `json:"replicas"`
	Order    []int       `json:"pass_order"`
	Frags    []*c11cFrag `json:"fragments"`
}

func c11cFmt(ps []uint64) []string {
	out := []string{}
	for _, p := range ps {
		out = append(out, fmt.Sprintf("%d:%d", p/pilosa.ShardWidth, p%pilosa.ShardWidth))
	}
	return out
}

func TestVerifC11Cluster(t *testing.T) {
	r := vk.Start(t, "C11")
	defer r.Finish()
	r.Expect("cluster:view:int", "cluster:view:mutex", "cluster:view:bool", "cluster:n3r3", "cluster:n3r2", "cluster:n2r2", "cluster:view:standard", "cluster:view:time", "cluster:fragment-missing-on-replica",
		"cluster:view-known-to-one-node", "cluster:tie", "cluster:minority-cleared", "cluster:majority-added", "cluster:multi-block", "cluster:non-owner-untouched", "cluster:repaired")
	ctx := context.Background()
	cfgs := []struct{ n, rep int }{{3, 3}, {3, 2}, {2, 2}}
	per := r.N(150, 6000) // per cluster configuration
	gen := 0
	rows := []uint64{0, 1, 99, 100, 101, 250}
	cols := []uint64{0, 1, 65535, 65536, pilosa.ShardWidth - 1}
	var universe []uint64
	for _, rw := range rows {
		for _, c := range cols {
			universe = append(universe, rw*pilosa.ShardWidth+c)
		}
	}
	views := [][2]string{{"f", "standard"}, {"t", "standard"}, {"t", "standard_2017"}, {"t", "standard_201703"}, {"v", "bsig_v"}, {"m", "standard"}, {"b", "standard"}}

	for _, cfg := range cfgs {
		cfg := cfg
		class := fmt.Sprintf("cluster:n%dr%d", cfg.n, cfg.rep)
		var c test.Cluster
		start := func() { c = vrcStart(t, cfg.n, cfg.rep) }
		start()
		idOf := map[string]int{}
		for i, m := range c {
			idOf[m.API.Node().ID] = i
		}
		r.Cases(class, per, func(i int, id string, rng *vk.Rand) {
			gen++
			index := fmt.Sprintf("c11c%d", gen)
			if _, err := c[0].API.CreateIndex(ctx, index, pilosa.IndexOptions{}); err != nil {
				t.Fatalf("create index: %v", err)
			}
			defer c[0].API.DeleteIndex(ctx, index)
			if _, err := vrcCreateField(c[0].API, index, "f", pilosa.OptFieldTypeSet([]string{pilosa.CacheTypeRanked, pilosa.CacheTypeLRU, pilosa.CacheTypeNone}[rng.Intn(3)], 100)); err != nil {
				t.Fatal(err)
			}
			if _, err := vrcCreateField(c[0].API, index, "t", pilosa.OptFieldTypeTime("YM")); err != nil {
				t.Fatal(err)
			}
			if _, err := vrcCreateField(c[0].API, index, "v", pilosa.OptFieldTypeInt(-1000, 1000)); err != nil {
				t.Fatal(err)
			}
			if _, err := vrcCreateField(c[0].API, index, "m", pilosa.OptFieldTypeMutex(pilosa.CacheTypeRanked, 100)); err != nil {
				t.Fatal(err)
			}
			if _, err := vrcCreateField(c[0].API, index, "b", pilosa.OptFieldTypeBool()); err != nil {
				t.Fatal(err)
			}
			cs := &c11cCase{Nodes: cfg.n, Replicas: cfg.rep}
			shards := []uint64{uint64(rng.Intn(3))}
			if rng.Bool() {
				shards = append(shards, 3+uint64(rng.Intn(3)))
			}
			classes := map[string]bool{}
			for _, sh := range shards {
				nodes, err := c[0].API.ShardNodes(ctx, index, sh)
				if err != nil {
					t.Fatal(err)
				}
				var owners []string
				isOwner := map[int]bool{}
				for _, n := range nodes {
					owners = append(owners, n.ID)
					isOwner[idOf[n.ID]] = true
				}
				for _, fv := range views {
					if rng.Chance(1, 4) {
						continue // this view is not touched for this shard
					}
					fr := &c11cFrag{Field: fv[0], View: fv[1], Shard: sh, Owners: owners, nonIdx: -1}
					// a small pool so that replicas agree on some bits and disagree on others
					pool := make([]uint64, 0, 6)
					for want := 2 + rng.Intn(5); len(pool) < want; {
						p := universe[rng.Intn(len(universe))]
						if fv[0] == "b" {
							p = uint64(rng.Intn(2))*pilosa.ShardWidth + p%pilosa.ShardWidth // a bool field has rows 0 and 1
						}
						pool = append(pool, p)
					}
					mode := rng.Intn(5)
					for k := range owners {
						var cont []uint64
						present := true
						switch {
						case mode == 0 && k > 0: // identical
							cont = append(cont, fr.initial[0]...)
						case mode == 1 && k > 0 && rng.Chance(1, 2): // some replica never saw the fragment
							present = false
						default:
							for _, p := range pool {
								if rng.Chance(3, 5) {
									cont = append(cont, p)
								}
							}
						}
						cont = vk.SortedU64(cont)
						fr.initial = append(fr.initial, cont)
						fr.present = append(fr.present, present)
					}
					for k, cont := range fr.initial {
						if !fr.present[k] {
							fr.Initial = append(fr.Initial, []string{"<no fragment>"})
							classes["cluster:fragment-missing-on-replica"] = true
							continue
						}
						fr.Initial = append(fr.Initial, c11cFmt(cont))
					}
					if len(owners) < cfg.n && rng.Chance(1, 2) {
						for k := 0; k < cfg.n; k++ {
							if !isOwner[k] {
								fr.nonIdx = k
							}
						}
						fr.nonOwner = vk.SortedU64([]uint64{pool[0], pool[1]})
					}
					cs.Frags = append(cs.Frags, fr)
				}
			}
			if len(cs.Frags) == 0 {
				return
			}
			r.InFlightDetail(id, cs)
			// ---- plant the divergent state
			for _, fr := range cs.Frags {
				for k, o := range fr.Owners {
					if !fr.present[k] {
						continue
					}
					if err := pilosa.VerifFragForce(c[idOf[o]].Server.Holder(), index, fr.Field, fr.View, fr.Shard, fr.initial[k]); err != nil {
						r.FailOrUndecided("cluster:setup-error", id, err.Error(), cs)
						return
					}
				}
				if fr.nonIdx >= 0 {
					if err := pilosa.VerifFragForce(c[fr.nonIdx].Server.Holder(), index, fr.Field, fr.View, fr.Shard, fr.nonOwner); err != nil {
						r.FailOrUndecided("cluster:setup-error", id, err.Error(), cs)
						return
					}
				}
			}
			// shard availability is announced asynchronously: wait (watchdog) until every node knows every shard
			deadline := time.Now().Add(20 * time.Second)
			for {
				ok := true
				for _, m := range c {
					idx := m.Server.Holder().Index(index)
					for _, sh := range shards {
						touched := false
						for _, fr := range cs.Frags {
							touched = touched || fr.Shard == sh
						}
						if touched && (idx == nil || !idx.AvailableShards().Contains(sh)) {
							ok = false
						}
					}
				}
				if ok {
					break
				}
				if time.Now().After(deadline) {
					r.Note("inconclusive:"+id, "shard availability did not propagate (watchdog)")
					return
				}
				time.Sleep(2 * time.Millisecond)
			}
			// a view created behind the cluster's back may be known to a single node only
			for _, fr := range cs.Frags {
				known := 0
				for _, m := range c {
					if f := m.Server.Holder().Field(index, fr.Field); f != nil {
						for _, vn := range pilosa.VerifViewNames(f) {
							if vn == fr.View {
								known++
							}
						}
					}
				}
				if known == 1 {
					classes["cluster:view-known-to-one-node"] = true
				}
			}
			// the fragment's own write path may have normalised what was planted (mutex/bool rows): the
			// initial contents are what the replicas really hold now
			divergent := map[string]bool{}
			for _, fr := range cs.Frags {
				fr.Initial = nil
				for k, o := range fr.Owners {
					if !fr.present[k] {
						fr.Initial = append(fr.Initial, []string{"<no fragment>"})
						continue
					}
					fr.initial[k], _ = pilosa.VerifFragPositions(c[idOf[o]].Server.Holder(), index, fr.Field, fr.View, fr.Shard)
					fr.Initial = append(fr.Initial, c11cFmt(fr.initial[k]))
				}
				if fr.nonIdx >= 0 {
					fr.nonOwner, _ = pilosa.VerifFragPositions(c[fr.nonIdx].Server.Holder(), index, fr.Field, fr.View, fr.Shard)
				}
				for k := 1; k < len(fr.initial); k++ {
					if !vk.EqualU64(fr.initial[k], fr.initial[0]) {
						divergent[map[string]string{"f": "set", "t": "time", "v": "int", "m": "mutex", "b": "bool"}[fr.Field]] = true
					}
				}
			}
			var divs []string
			for k := range divergent {
				divs = append(divs, k)
			}
			sort.Strings(divs)
			// ---- every node runs one anti-entropy pass, in a drawn order
			cs.Order = rng.Perm(cfg.n)
			for _, k := range cs.Order {
				stale, err := vrcSyncData(c, k, index)
				if stale {
					r.Cover("cluster:observed:stale-index-resurrected-by-gossip")
				}
				if err != nil {
					r.FailOrUndecided("cluster:pass-error:divergent="+strings.Join(divs, "+"), id, fmt.Sprintf("SyncData on node %d: %v", k, err), cs)
					return
				}
			}
			// ---- oracle
			nontrivial := false
			for _, fr := range cs.Frags {
				votes := map[uint64]int{}
				for k, cont := range fr.initial {
					if fr.present[k] {
						for _, p := range cont {
							votes[p]++
						}
					}
				}
				var want []uint64
				for p, v := range votes {
					if 2*v >= len(fr.Owners) {
						want = append(want, p)
						if 2*v == len(fr.Owners) {
							classes["cluster:tie"] = true
						}
						if v < len(fr.Owners) {
							classes["cluster:majority-added"] = true
						}
					} else {
						classes["cluster:minority-cleared"] = true
					}
				}
				want = vk.SortedU64(want)
				blocks := map[uint64]bool{}
				for p := range votes {
					blocks[p/pilosa.ShardWidth/100] = true
				}
				if len(blocks) > 1 {
					classes["cluster:multi-block"] = true
				}
				vc := "standard"
				switch fr.Field {
				case "t":
					vc = "time"
				case "v":
					vc = "int"
				case "m":
					vc = "mutex"
				case "b":
					vc = "bool"
				}
				classes["cluster:view:"+vc] = true
				differed := false
				for k := range fr.initial {
					if !vk.EqualU64(fr.initial[k], want) {
						differed = true
					}
				}
				if differed {
					classes["cluster:repaired"] = true
					nontrivial = true
				}
				var sums []string
				for k, o := range fr.Owners {
					r.Eval(1)
					got, _ := pilosa.VerifFragPositions(c[idOf[o]].Server.Holder(), index, fr.Field, fr.View, fr.Shard)
					if !vk.EqualU64(got, want) {
						need := "nothing"
						switch {
						case vk.EqualU64(fr.initial[k], want):
						case len(fr.initial[k]) < len(want):
							need = "sets"
						default:
							need = "clears-or-both"
						}
						who := "passive"
						if !fr.present[k] {
							who = "fragment-absent"
						}
						r.FailOrUndecided(fmt.Sprintf("cluster:not-majority:%s-view:%s:replica-needed-%s", vc, who, need), id,
							fmt.Sprintf("field %s view %s shard %d owner %s holds %v after all passes; majority of initial contents is %v (%s)", fr.Field, fr.View, fr.Shard, o, c11cFmt(got), c11cFmt(want), vk.DiffU64(got, want)), cs)
						return
					}
					sums = append(sums, strings.Join(pilosa.VerifFragBlocks(c[idOf[o]].Server.Holder(), index, fr.Field, fr.View, fr.Shard), ","))
				}
				for k := 1; k < len(sums); k++ {
					r.Eval(1)
					if sums[k] != sums[0] {
						r.FailOrUndecided("cluster:checksums-differ:"+vc+"-view", id, fmt.Sprintf("field %s view %s shard %d: owners %s and %s report different block checksums after the passes: %s vs %s", fr.Field, fr.View, fr.Shard, fr.Owners[0], fr.Owners[k], sums[0], sums[k]), cs)
						return
					}
				}
				if fr.nonIdx >= 0 {
					r.Eval(1)
					got, _ := pilosa.VerifFragPositions(c[fr.nonIdx].Server.Holder(), index, fr.Field, fr.View, fr.Shard)
					if !vk.EqualU64(got, fr.nonOwner) {
						r.FailOrUndecided("cluster:non-owner-touched:"+vc+"-view", id, fmt.Sprintf("field %s view %s shard %d: node %d is not an owner, held %v, now %v", fr.Field, fr.View, fr.Shard, fr.nonIdx, c11cFmt(fr.nonOwner), c11cFmt(got)), cs)
						return
					}
					classes["cluster:non-owner-untouched"] = true
				}
			}
			var keys []string
			for k := range classes {
				r.Cover(k)
				keys = append(keys, k)
			}
			sort.Strings(keys)
			r.Cover(class)
			r.Distinct(vk.Hash64("c11c", id), nontrivial)
			if r.WantSample() && nontrivial {
				r.Sample(cs)
			}
		})
		c.Close()
	}
}
