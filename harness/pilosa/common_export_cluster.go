package pilosa

// Exported access for the black-box (package pilosa_test) harnesses.

import "github.com/pkg/errors"

// VerifForceClusterState overwrites the cluster state of the API's node
// without any of the side effects of a real state transition (no cleanup, no
// anti-entropy abort, no broadcast).
func VerifForceClusterState(api *API, state string) {
	api.cluster.mu.Lock()
	api.cluster.state = state
	api.cluster.mu.Unlock()
}

// VerifIsMethodNotAllowed reports whether err is (or wraps) the error
// API.validate returns for a method that is not allowed in the current state.
func VerifIsMethodNotAllowed(err error) bool {
	if err == nil {
		return false
	}
	_, ok := errors.Cause(err).(apiMethodNotAllowedError)
	return ok
}

// VerifAPIMethodName names an apiMethod value seen in a hook event.
func VerifAPIMethodName(m uint64) string { return apiMethod(m).String() }

// VerifNodeID returns the ID of the API's node.
func VerifNodeID(api *API) string { return api.cluster.Node.ID }
