package pilosa

// C20 — Every node computes the same replica set for every shard.
//
// For generated node-ID sets the real cluster membership code is driven
// through every join order (addNodeBasicSorted, addNode, nodeJoin on a
// coordinator, mergeClusterStatus on every follower, add+remove histories) and
// the real ownership helpers are read out for replicas 0..9 over all 256
// partitions and (index, shard) pairs that cover every partition. Oracle:
// owners are min(max(r,1),n) distinct members; the set is identical for every
// join order / computing node (compared with the cluster built in sorted
// order); every helper agrees with that set.

import (
	"context"
	"encoding/binary"
	"fmt"
	"hash/fnv"
	"os"
	"runtime/debug"
	"sort"
	"sync"
	"testing"

	vk "github.com/pilosa/pilosa/internal/verifkit"
	"github.com/pilosa/pilosa/logger"
	"github.com/pilosa/pilosa/roaring"
)

type c20Case struct {
	IDs      []string `json:"ids_sorted"`
	Order    []string `json:"join_order"`
	Via      string   `json:"via"`
	Self     string   `json:"computing_node,omitempty"`
	Replicas int      `json:"replicas"`
	Detail   string   `json:"detail,omitempty"`
}

type c20Pair struct {
	index string
	shard uint64
}

var (
	c20PairsOnce sync.Once
	c20PairsV    map[string][]uint64 // index -> shards (sorted) covering all partitions
	c20Indexes   = []string{"i", "idx2", "an-index-with-a-longer-name"}
)

// c20Pairs picks, with the harness' own copy of the documented partition
// function, shards per index so that all 256 partitions are hit; coverage is
// then *measured* with the real cluster.partition.
func c20Pairs() map[string][]uint64 {
	c20PairsOnce.Do(func() {
		c20PairsV = map[string][]uint64{}
		for _, idx := range c20Indexes {
			seen := map[int]bool{}
			var shards []uint64
			for s := uint64(0); len(seen) < defaultPartitionN && s < 100000; s++ {
				var buf [8]byte
				binary.BigEndian.PutUint64(buf[:], s)
				h := fnv.New64a()
				h.Write([]byte(idx))
				h.Write(buf[:])
				p := int(h.Sum64() % uint64(defaultPartitionN))
				if !seen[p] || s < 12 {
					seen[p] = true
					shards = append(shards, s)
				}
			}
			for k := uint64(0); k < 6; k++ {
				shards = append(shards, 1<<20+k, 1<<40+k*977, ^uint64(0)-k)
			}
			sort.Slice(shards, func(a, b int) bool { return shards[a] < shards[b] })
			c20PairsV[idx] = shards
		}
	})
	return c20PairsV
}

// c20Ref is the owner table of the cluster built in sorted ID order.
type c20Ref struct {
	ids    []string                        // sorted
	owners [10][defaultPartitionN][]string // sorted owner IDs per replicas, partition
	part   map[c20Pair]int
}

var c20RepClass = func() (out [10]string) {
	for i := range out {
		out[i] = fmt.Sprintf("replicas:%d", i)
	}
	return
}()

func c20Expected(r, n int) int {
	if r < 1 {
		r = 1
	}
	if r > n {
		r = n
	}
	return r
}

func c20RClass(r, n int) string {
	switch {
	case r == 0:
		return "r=0"
	case r == 1:
		return "r=1"
	case r < n:
		return "1<r<n"
	case r == n:
		return "r=n"
	}
	return "r>n"
}

type c20Ctx struct {
	r    *vk.Run
	id   string
	ref  *c20Ref
	via  string
	ord  []string
	self string
}

func (x *c20Ctx) fail(helper string, rep int, detail string) {
	n := len(x.ref.ids)
	x.r.Fail(fmt.Sprintf("%s:%s:n=%d:%s", helper, x.via, n, c20RClass(rep, n)), x.id, detail,
		c20Case{IDs: x.ref.ids, Order: append([]string(nil), x.ord...), Via: x.via, Self: x.self, Replicas: rep, Detail: detail})
}

func c20SortedIDs(nodes []*Node) []string {
	ids := vcNodeIDs(nodes)
	sort.Strings(ids)
	return ids
}

func c20Equal(a, b []string) bool {
	if len(a) != len(b) {
		return false
	}
	for i := range a {
		if a[i] != b[i] {
			return false
		}
	}
	return true
}

// c20Table reads partitionNodes for replicas 0..9 x all partitions. With
// ref==nil it builds the reference (checking cardinality, distinctness and
// membership); otherwise it compares with the reference.
func c20Table(x *c20Ctx, c *cluster, build *c20Ref) bool {
	ok := true
	n := len(c.nodes)
	evals := 0
	defer func() { x.r.Eval(evals) }()
	// start with the replica count the cluster was built (and asked for owners) with, so that
	// anything it remembers from before the last membership change is read first
	first := c.ReplicaN
	if first < 0 || first > 9 {
		first = 0
	}
	for k := 0; k <= 9 && ok; k++ {
		rep := (first + k) % 10
		c.ReplicaN = rep
		x.r.Cover(c20RepClass[rep])
		for p := 0; p < defaultPartitionN; p++ {
			var got []*Node
			if x.r.Guard(func() string {
				return fmt.Sprintf("panic-partitionNodes:%s:n=%d:%s", x.via, n, c20RClass(rep, n))
			}, x.id, func() interface{} {
				return c20Case{IDs: x.ref.ids, Order: x.ord, Via: x.via, Self: x.self, Replicas: rep, Detail: fmt.Sprintf("partition %d", p)}
			}, func() { got = c.partitionNodes(p) }) {
				return false
			}
			ids := c20SortedIDs(got)
			evals++
			// cardinality, distinctness, membership: checked on every cluster
			want := c20Expected(rep, len(x.ref.ids))
			bad := ""
			if len(ids) != want {
				bad = fmt.Sprintf("partition %d: %d owners %v, want min(max(r,1),n)=%d", p, len(ids), ids, want)
			}
			for i := range ids {
				if bad == "" && i > 0 && ids[i] == ids[i-1] {
					bad = fmt.Sprintf("partition %d: owner %q listed twice: %v", p, ids[i], ids)
				}
				if bad == "" && !vcContains(x.ref.ids, ids[i]) {
					bad = fmt.Sprintf("partition %d: owner %q is not a member of %v", p, ids[i], x.ref.ids)
				}
			}
			if bad != "" {
				x.fail("partitionNodes", rep, bad)
				ok = false
				break
			}
			if build != nil {
				build.owners[rep][p] = ids
				continue
			}
			evals++
			if !c20Equal(ids, x.ref.owners[rep][p]) {
				x.fail("partitionNodes", rep, fmt.Sprintf("partition %d: owners %v differ from owners %v computed by the cluster built in sorted order (node list here: %v)",
					p, ids, x.ref.owners[rep][p], vcNodeIDs(c.nodes)))
				ok = false
				break
			}
		}
	}
	x.r.Cover("helper:partitionNodes")
	return ok
}

// c20Battery compares every ownership helper with the reference set for one
// replica count.
func c20Battery(x *c20Ctx, c *cluster, rep int, rng *vk.Rand) {
	r := x.r
	c.ReplicaN = rep
	if c.state != ClusterStateNormal {
		c.state = ClusterStateNormal
	}
	savedNode := c.Node
	defer func() { c.Node = savedNode }()
	srv := &Server{cluster: c, logger: logger.NopLogger}
	api := &API{cluster: c, server: srv}
	ex := &executor{Cluster: c}
	failed := map[string]bool{}
	fail := func(helper, detail string) {
		if !failed[helper] {
			failed[helper] = true
			x.fail(helper, rep, detail)
		}
	}
	partsSeen := map[int]bool{}
	evals := 0
	defer func() { r.Eval(evals) }()
	for _, idx := range c20Indexes {
		shards := c20Pairs()[idx]
		ownedBy := map[string][]uint64{}
		for _, s := range shards {
			p := c.partition(idx, s)
			evals += 1
			if want, ok := x.ref.part[c20Pair{idx, s}]; ok && want != p || p < 0 || p >= defaultPartitionN {
				fail("partition", fmt.Sprintf("partition(%q,%d)=%d here, %d on the reference cluster", idx, s, p, want))
				continue
			}
			partsSeen[p] = true
			owners := x.ref.owners[rep][p]
			for _, o := range owners {
				ownedBy[o] = append(ownedBy[o], s)
			}
			// shardNodes / ShardNodes / API.ShardNodes
			evals += 3
			if got := c20SortedIDs(c.shardNodes(idx, s)); !c20Equal(got, owners) {
				fail("shardNodes", fmt.Sprintf("shardNodes(%q,%d)=%v want %v", idx, s, got, owners))
			}
			if got := c20SortedIDs(c.ShardNodes(idx, s)); !c20Equal(got, owners) {
				fail("ShardNodes", fmt.Sprintf("ShardNodes(%q,%d)=%v want %v", idx, s, got, owners))
			}
			if len(c.nodes) > 0 {
				c.Node = c.nodes[0]
			}
			if nodes, err := api.ShardNodes(context.Background(), idx, s); err != nil {
				fail("API.ShardNodes", fmt.Sprintf("API.ShardNodes(%q,%d) error %v", idx, s, err))
			} else if got := c20SortedIDs(nodes); !c20Equal(got, owners) {
				fail("API.ShardNodes", fmt.Sprintf("API.ShardNodes(%q,%d)=%v want %v", idx, s, got, owners))
			}
			// ownsShard for every member and a non-member; validateShardOwnership as every member
			for _, node := range c.nodes {
				m := node.ID
				want := vcContains(owners, m)
				evals += 2
				if got := c.ownsShard(m, idx, s); got != want {
					fail("ownsShard", fmt.Sprintf("ownsShard(%q,%q,%d)=%v but owners are %v", m, idx, s, got, owners))
				}
				c.Node = node
				err := api.validateShardOwnership(idx, s)
				if (err == nil) != want || (err != nil && err != ErrClusterDoesNotOwnShard) {
					fail("validateShardOwnership", fmt.Sprintf("validateShardOwnership(%q,%d) on node %q = %v but owners are %v", idx, s, m, err, owners))
				}
			}
			evals += 1
			if c.ownsShard("\x01not-a-member", idx, s) {
				fail("ownsShard", fmt.Sprintf("ownsShard(non-member,%q,%d)=true", idx, s))
			}
		}
		// containsShards for every member
		avail := roaring.NewBitmap(shards...)
		for _, node := range c.nodes {
			got := c.containsShards(idx, avail, node)
			want := ownedBy[node.ID]
			evals += 1
			if !vk.EqualU64(got, want) {
				fail("containsShards", fmt.Sprintf("containsShards(%q, node %q): %s; got %s want %s", idx, node.ID, vk.DiffU64(got, want), vk.Brief(got), vk.Brief(want)))
			}
		}
		// executor.shardsByNode with all nodes, and with a subset of nodes
		for variant := 0; variant < 2; variant++ {
			nodes := Nodes(c.nodes).Clone()
			if variant == 1 {
				if len(nodes) < 2 {
					continue
				}
				drop := 1 + rng.Intn(len(nodes)-1)
				for _, k := range rng.Perm(len(nodes))[:drop] {
					nodes[k] = nil
				}
				var keep []*Node
				for _, nd := range nodes {
					if nd != nil {
						keep = append(keep, nd)
					}
				}
				nodes = keep
			}
			avail := vcNodeIDs(nodes)
			in := append([]uint64(nil), shards...)
			m, err := ex.shardsByNode(nodes, idx, in)
			evals += 1
			wantErr := false
			for _, s := range shards {
				any := false
				for _, o := range x.ref.owners[rep][x.ref.part[c20Pair{idx, s}]] {
					if vcContains(avail, o) {
						any = true
					}
				}
				if !any {
					wantErr = true
				}
			}
			if wantErr != (err != nil) {
				fail("shardsByNode", fmt.Sprintf("shardsByNode(nodes=%v,%q): err=%v but some shard has no owner among the nodes: %v", avail, idx, err, wantErr))
				continue
			}
			if err != nil {
				if err != errShardUnavailable {
					fail("shardsByNode", fmt.Sprintf("shardsByNode error %v", err))
				}
				continue
			}
			count := map[uint64]int{}
			for node, ss := range m {
				for _, s := range ss {
					count[s]++
					owners := x.ref.owners[rep][x.ref.part[c20Pair{idx, s}]]
					evals += 1
					if !vcContains(owners, node.ID) || !vcContains(avail, node.ID) {
						fail("shardsByNode", fmt.Sprintf("shardsByNode(nodes=%v) gives shard %d of %q to %q; owners are %v", avail, s, idx, node.ID, owners))
					}
				}
			}
			for _, s := range shards {
				if count[s] != 1 {
					fail("shardsByNode", fmt.Sprintf("shardsByNode(nodes=%v) assigns shard %d of %q %d times", avail, s, idx, count[s]))
				}
			}
		}
	}
	for _, h := range []string{"shardNodes", "ShardNodes", "API.ShardNodes", "ownsShard", "validateShardOwnership", "containsShards", "shardsByNode"} {
		r.Cover("helper:" + h)
	}
	if len(partsSeen) == defaultPartitionN {
		r.Cover("pairs-cover-all-256-partitions")
	}
}

// c20Build drives the real membership code. order holds the join order (IDs).
func c20Build(via string, order []string, self string, single bool, rng *vk.Rand, scratch string) (*cluster, error) {
	c := newCluster()
	switch via {
	case "basic":
		for _, id := range order {
			c.addNodeBasicSorted(vcNode(id))
			for p := 0; p < 8; p++ {
				_ = c.partitionNodes(p * 37 % defaultPartitionN) // asked between joins as well
			}
		}
	case "addNode":
		c.Topology = newTopology()
		c.Path = scratch
		for _, id := range order {
			if err := c.addNode(vcNode(id)); err != nil {
				return nil, err
			}
		}
	case "nodeJoin": // coordinator's perspective: first of the order is the coordinator
		c.Topology = newTopology()
		c.Path = scratch
		c.holder = vcSharedHolder()
		c.broadcaster = vcNopBroadcaster{}
		c.Node = vcNode(order[0])
		c.Node.IsCoordinator = true
		c.Coordinator = c.Node.ID
		c.state = ClusterStateNormal
		if err := c.addNode(c.Node); err != nil {
			return nil, err
		}
		for _, id := range order[1:] {
			if err := c.ReceiveEvent(&NodeEvent{Event: NodeJoin, Node: vcNode(id)}); err != nil {
				return nil, err
			}
		}
	case "merge": // follower's perspective: statuses from a coordinator arrive in join order
		c.Topology = newTopology()
		c.Path = scratch
		c.holder = vcSharedHolder()
		c.broadcaster = vcNopBroadcaster{}
		c.Node = vcNode(self)
		c.Coordinator = "\x01coordinator-elsewhere"
		for _, id := range order {
			if id != self {
				c.Coordinator = id
				break
			}
		}
		if err := c.addNode(c.Node); err != nil {
			return nil, err
		}
		mk := func(ids []string) *ClusterStatus {
			st := &ClusterStatus{ClusterID: "cid", State: ClusterStateNormal}
			for _, id := range ids {
				nd := vcNode(id)
				nd.IsCoordinator = id == c.Coordinator
				st.Nodes = append(st.Nodes, nd)
			}
			return st
		}
		if single {
			if err := c.mergeClusterStatus(mk(order)); err != nil {
				return nil, err
			}
		} else {
			for k := 1; k <= len(order); k++ {
				if err := c.mergeClusterStatus(mk(order[:k])); err != nil {
					return nil, err
				}
			}
		}
	case "remove": // members plus extra nodes join, the extras leave again, interleaved
		extra := 1 + rng.Intn(3)
		var ev []string
		for _, id := range order {
			ev = append(ev, "+"+id)
		}
		for k := 0; k < extra; k++ {
			x := fmt.Sprintf("%s\x02extra%d", order[rng.Intn(len(order))][:rng.Intn(2)], k)
			if rng.Bool() {
				x = fmt.Sprintf("%d-extra", k)
			}
			at := rng.Intn(len(ev) + 1)
			ev = append(ev[:at], append([]string{"+" + x}, ev[at:]...)...)
			// the removal comes anywhere after the add
			rm := at + 1 + rng.Intn(len(ev)-at)
			ev = append(ev[:rm], append([]string{"-" + x}, ev[rm:]...)...)
		}
		for _, e := range ev {
			if e[0] == '+' {
				c.addNodeBasicSorted(vcNode(e[1:]))
			} else if !c.removeNodeBasicSorted(e[1:]) {
				return nil, fmt.Errorf("removeNodeBasicSorted(%q) found nothing", e[1:])
			}
			// ownership is asked for between membership changes too (queries, imports and syncs do that
			// all the time): whatever the node remembers from before must not survive the change
			for p := 0; p < 24; p++ {
				_ = c.partitionNodes(p * 11 % defaultPartitionN)
			}
			_ = c.shardNodes("i", uint64(rng.Intn(50)))
		}
	}
	return c, nil
}

func TestVerifC20(t *testing.T) {
	r := vk.Start(t, "C20")
	defer r.Finish()
	// the harness allocates many tiny slices; collect less often (no effect on verdicts)
	defer debug.SetGCPercent(debug.SetGCPercent(800))

	allOrdersMax, mergeAllMax, sampleOrders := 5, 4, 40
	if r.Thorough() {
		allOrdersMax, mergeAllMax, sampleOrders = 6, 6, 720
	}
	for n := 1; n <= 8; n++ {
		r.Expect(fmt.Sprintf("size:%d", n))
	}
	for n := 1; n <= allOrdersMax; n++ {
		r.Expect(fmt.Sprintf("all-join-orders:n=%d", n))
	}
	for rep := 0; rep <= 9; rep++ {
		r.Expect(fmt.Sprintf("replicas:%d", rep), fmt.Sprintf("battery-replicas:%d", rep))
	}
	for _, v := range []string{"basic", "addNode", "nodeJoin", "merge", "merge-single", "remove"} {
		r.Expect("via:" + v)
	}
	for _, h := range []string{"partitionNodes", "shardNodes", "ShardNodes", "API.ShardNodes", "ownsShard", "validateShardOwnership", "containsShards", "shardsByNode"} {
		r.Expect("helper:" + h)
	}
	r.Expect("pairs-cover-all-256-partitions", "merge-from-every-node")

	// cases per ID-set size (quick, thorough); the cost per case grows with n!
	counts := map[int][2]int{1: {8, 300}, 2: {8, 300}, 3: {8, 300}, 4: {8, 400}, 5: {8, 300}, 6: {8, 120}, 7: {8, 80}, 8: {8, 80}}
	for size := 1; size <= 8; size++ {
		size := size
		r.Cases(fmt.Sprintf("idset%d", size), r.N(counts[size][0], counts[size][1]), func(i int, id string, rng *vk.Rand) {
			c20IDSet(r, id, rng, size, allOrdersMax, mergeAllMax, sampleOrders)
		})
	}
}

func c20IDSet(r *vk.Run, id string, rng *vk.Rand, size, allOrdersMax, mergeAllMax, sampleOrders int) {
	{
		ids := vcGenIDs(rng, size)
		sorted := vcSortedCopy(ids)
		r.Cover(fmt.Sprintf("size:%d", size))

		// reference: the cluster built in sorted order
		ref := &c20Ref{ids: sorted, part: map[c20Pair]int{}}
		x := &c20Ctx{r: r, id: id, ref: ref, via: "basic", ord: sorted}
		scratch := vcScratch("c20")
		defer os.RemoveAll(scratch)
		canon, _ := c20Build("basic", sorted, "", false, rng, scratch)
		if !c20Table(x, canon, ref) {
			return
		}
		for _, idx := range c20Indexes {
			for _, s := range c20Pairs()[idx] {
				ref.part[c20Pair{idx, s}] = canon.partition(idx, s)
			}
		}
		c20Battery(x, canon, size, rng)

		var orders [][]string
		if size <= allOrdersMax {
			vcPerms(size, func(p []int) {
				o := make([]string, size)
				for k, j := range p {
					o[k] = ids[j]
				}
				orders = append(orders, o)
			})
			r.Cover(fmt.Sprintf("all-join-orders:n=%d", size))
		} else {
			for k := 0; k < sampleOrders; k++ {
				o := make([]string, size)
				for a, j := range rng.Perm(size) {
					o[a] = ids[j]
				}
				orders = append(orders, o)
			}
		}
		if r.WantSample() {
			r.Sample(map[string]interface{}{"ids": ids, "join_orders": len(orders)})
		}
		mergedFrom := map[string]bool{}
		for oi, ord := range orders {
			check := func(via, self string, single bool, battery bool) {
				label := via
				if via == "merge" && single {
					label = "merge-single"
				}
				x := &c20Ctx{r: r, id: id, ref: ref, via: label, ord: ord, self: self}
				var c *cluster
				var err error
				if r.Guard(func() string { return fmt.Sprintf("panic-build:%s:n=%d", label, size) }, id, func() interface{} {
					return c20Case{IDs: sorted, Order: ord, Via: label, Self: self}
				}, func() { c, err = c20Build(via, ord, self, single, rng, scratch) }) {
					return
				}
				if err != nil {
					x.fail("build", 1, "membership code returned error: "+err.Error())
					return
				}
				r.Cover("via:" + label)
				r.Distinct(vk.Hash64(vcSetKey(ids), ord, label, self), size >= 2)
				r.Eval(1)
				if got := c20SortedIDs(c.nodes); !c20Equal(got, sorted) {
					x.fail("members", 1, fmt.Sprintf("member list %v after joins, want %v", vcNodeIDs(c.nodes), sorted))
					return
				}
				if !c20Table(x, c, nil) {
					return
				}
				if battery {
					rep := (oi + len(self)) % 10
					r.Cover(fmt.Sprintf("battery-replicas:%d", rep))
					c20Battery(x, c, rep, rng)
				}
			}
			check("basic", "", false, true)
			if oi%4 == 0 || size <= 3 {
				check("addNode", "", false, oi%8 == 0)
			}
			if oi%4 == 1 || size <= 4 {
				check("nodeJoin", ord[0], false, oi%8 == 1)
			}
			if oi%2 == 0 || size <= 3 {
				check("remove", "", false, oi%6 == 0)
			}
			if size <= mergeAllMax {
				for _, self := range ids {
					check("merge", self, oi%2 == 1, self == ids[oi%size])
					mergedFrom[self] = true
				}
			} else {
				self := ids[oi%size]
				check("merge", self, (oi/size)%2 == 1, oi%3 == 0)
				mergedFrom[self] = true
			}
		}
		if len(mergedFrom) == size {
			r.Cover("merge-from-every-node")
		}
	}
}
