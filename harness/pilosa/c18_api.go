package pilosa_test

// C18 API leg — a time-range Row or Rows query returns exactly the columns
// (rows) set with a timestamp in the range, for ranges aligned to the
// quantum's finest unit. Real in-process server, timestamp model.

import (
	"context"
	"fmt"
	"sort"
	"testing"
	"time"

	"github.com/pilosa/pilosa"
	vk "github.com/pilosa/pilosa/internal/verifkit"
	"github.com/pilosa/pilosa/test"
)

type c18Bit struct {
	Row, Col uint64
	T        time.Time
}

type c18apiCase struct {
	Quantum string   `json:"quantum"`
	Bits    []string `json:"bits"`
	Query   string   `json:"query,omitempty"`
}

func c18Floor(t time.Time, unit byte) time.Time {
	switch unit {
	case 'H':
		return time.Date(t.Year(), t.Month(), t.Day(), t.Hour(), 0, 0, 0, time.UTC)
	case 'D':
		return time.Date(t.Year(), t.Month(), t.Day(), 0, 0, 0, 0, time.UTC)
	case 'M':
		return time.Date(t.Year(), t.Month(), 1, 0, 0, 0, 0, time.UTC)
	}
	return time.Date(t.Year(), 1, 1, 0, 0, 0, 0, time.UTC)
}

func c18AddU(t time.Time, unit byte, n int) time.Time {
	switch unit {
	case 'H':
		return t.Add(time.Duration(n) * time.Hour)
	case 'D':
		return t.AddDate(0, 0, n)
	case 'M':
		return t.AddDate(0, n, 0)
	}
	return t.AddDate(n, 0, 0)
}

func TestVerifC18API(t *testing.T) {
	r := vk.Start(t, "C18")
	defer r.Finish()
	quanta := []string{"Y", "YM", "YMD", "YMDH", "M", "MD", "MDH", "D", "DH", "H"}
	for _, q := range quanta {
		r.Expect("api-quantum:" + q)
	}
	r.Expect("api:Row", "api:Rows", "api:Rows-open", "api:Row-open")

	// VERIF_ESRV_NODES=3: the same leg against a real 3-node gossip/HTTP cluster, every request through a drawn node
	nodes := []*test.Command{}
	if vrcNodes() > 1 {
		cl := vrcStart(t, vrcNodes(), 1)
		defer cl.Close()
		nodes = cl
	} else {
		one := test.MustRunCommand()
		defer one.Close()
		nodes = append(nodes, one)
	}
	m := nodes[0]
	ctx := context.Background()
	nIdx := 0

	n := r.N(160, 6400)
	r.Cases("api", n, func(i int, id string, rng *vk.Rand) {
		q := quanta[rng.Intn(len(quanta))]
		finest := q[len(q)-1]
		nIdx++
		index := fmt.Sprintf("i%d", nIdx)
		if _, err := m.API.CreateIndex(ctx, index, pilosa.IndexOptions{}); err != nil {
			t.Fatalf("create index: %v", err)
		}
		defer m.API.DeleteIndex(ctx, index)
		if _, err := m.API.CreateField(ctx, index, "t", pilosa.OptFieldTypeTime(pilosa.TimeQuantum(q))); err != nil {
			t.Fatalf("create field: %v", err)
		}
		// timestamps clustered around unit boundaries of 2015-12 .. 2017-03
		anchors := []time.Time{
			time.Date(2015, 12, 31, 23, 0, 0, 0, time.UTC), time.Date(2016, 1, 1, 0, 0, 0, 0, time.UTC),
			time.Date(2016, 2, 28, 23, 0, 0, 0, time.UTC), time.Date(2016, 2, 29, 12, 0, 0, 0, time.UTC), time.Date(2016, 3, 1, 0, 0, 0, 0, time.UTC),
			time.Date(2016, 7, 15, 13, 0, 0, 0, time.UTC), time.Date(2016, 12, 31, 23, 0, 0, 0, time.UTC), time.Date(2017, 1, 1, 0, 0, 0, 0, time.UTC),
			time.Date(2017, 1, 31, 22, 0, 0, 0, time.UTC), time.Date(2017, 3, 30, 5, 0, 0, 0, time.UTC),
		}
		nb := 3 + rng.Intn(10)
		var bits []c18Bit
		cs := c18apiCase{Quantum: q}
		cols := []uint64{0, 1, 65535, 65536, pilosa.ShardWidth - 1, pilosa.ShardWidth, pilosa.ShardWidth + 7, 2*pilosa.ShardWidth + 3}
		for k := 0; k < nb; k++ {
			tm := anchors[rng.Intn(len(anchors))]
			switch rng.Intn(4) {
			case 0:
				tm = tm.Add(time.Duration(rng.Intn(49)-24) * time.Hour)
			case 1:
				tm = tm.AddDate(0, 0, rng.Intn(63)-31)
			case 2:
				tm = tm.Add(time.Duration(rng.Intn(60)) * time.Minute) // not hour aligned
			}
			b := c18Bit{Row: uint64(rng.Intn(3)), Col: cols[rng.Intn(len(cols))], T: tm}
			bits = append(bits, b)
			cs.Bits = append(cs.Bits, fmt.Sprintf("Set(%d,t=%d,%s)", b.Col, b.Row, tm.Format(pilosa.TimeFormat)))
			pq := fmt.Sprintf("Set(%d, t=%d, %s)", b.Col, b.Row, tm.Format(pilosa.TimeFormat))
			if _, err := nodes[rng.Intn(len(nodes))].API.Query(ctx, &pilosa.QueryRequest{Index: index, Query: pq}); err != nil {
				r.Fail("api:set-error:"+q, id, fmt.Sprintf("%s: %v", pq, err), cs)
				return
			}
		}
		r.Cover("api-quantum:" + q)
		if r.WantSample() {
			r.Sample(cs)
		}
		multi := false
		// queries: aligned ranges around the data
		for k := 0; k < 14; k++ {
			b := bits[rng.Intn(len(bits))]
			from := c18AddU(c18Floor(b.T, finest), finest, -rng.Intn(3))
			to := c18AddU(from, finest, 1+rng.Intn(5))
			if rng.Chance(1, 4) {
				to = c18AddU(from, finest, 1+rng.Intn(40))
			}
			row := uint64(rng.Intn(3))
			want := map[uint64]bool{}
			wantRows := map[uint64]bool{}
			for _, x := range bits {
				if !x.T.Before(from) && x.T.Before(to) {
					wantRows[x.Row] = true
					if x.Row == row {
						want[x.Col] = true
					}
				}
			}
			if len(want) > 0 && !to.Equal(c18AddU(from, finest, 1)) {
				multi = true
			}
			fs, ts := from.Format(pilosa.TimeFormat), to.Format(pilosa.TimeFormat)
			kind := rng.Intn(4)
			var pq, cls string
			openFrom, openTo := false, false
			switch kind {
			case 0:
				pq, cls = fmt.Sprintf("Row(t=%d, from='%s', to='%s')", row, fs, ts), "api:Row"
			case 1:
				pq, cls = fmt.Sprintf("Rows(t, from='%s', to='%s')", fs, ts), "api:Rows"
			case 2:
				cls = "api:Rows-open"
				if rng.Bool() {
					pq, openTo = fmt.Sprintf("Rows(t, from='%s')", fs), true
				} else {
					pq, openFrom = fmt.Sprintf("Rows(t, to='%s')", ts), true
				}
			case 3:
				if q[0] != 'Y' && q[0] != 'M' {
					// an open-ended Row walks hour/day views from `from` to now+1d; keep that to quanta with coarse units
					pq, cls = fmt.Sprintf("Row(t=%d, from='%s', to='%s')", row, fs, ts), "api:Row"
				} else {
					pq, cls, openTo = fmt.Sprintf("Row(t=%d, from='%s')", row, fs), "api:Row-open", true
				}
			}
			if openFrom || openTo {
				want = map[uint64]bool{}
				wantRows = map[uint64]bool{}
				for _, x := range bits {
					if (openFrom || !x.T.Before(from)) && (openTo || x.T.Before(to)) {
						wantRows[x.Row] = true
						if x.Row == row {
							want[x.Col] = true
						}
					}
				}
			}
			cs.Query = pq
			resp, err := nodes[rng.Intn(len(nodes))].API.Query(ctx, &pilosa.QueryRequest{Index: index, Query: pq})
			r.Eval(1)
			r.Cover(cls)
			sig := cls + ":" + q
			if err != nil {
				r.Fail(sig+":error", id, fmt.Sprintf("%s: %v", pq, err), cs)
				continue
			}
			var got, exp []uint64
			switch v := resp.Results[0].(type) {
			case *pilosa.Row:
				got = v.Columns()
				for c := range want {
					exp = append(exp, c)
				}
			case pilosa.RowIdentifiers:
				got = v.Rows
				for c := range wantRows {
					exp = append(exp, c)
				}
			default:
				r.Fail(sig+":type", id, fmt.Sprintf("%s: unexpected result type %T", pq, v), cs)
				continue
			}
			sort.Slice(exp, func(a, b int) bool { return exp[a] < exp[b] })
			if !vk.EqualU64(got, exp) {
				r.Fail(sig, id, fmt.Sprintf("%s: got %v want %v", pq, got, exp), cs)
			}
		}
		r.Distinct(vk.Hash64("api", id), multi)
	})
}
