package pilosa_test

// C08 — Data and schema survive a clean restart unchanged.
// Histories of schema operations (index/field create/delete over the option
// space) and data writes through every path on a real in-process server; a
// fixed answer battery (schema+options, every row, counts, values, Sum/Min/
// Max, Rows, TopN after recalculation, time ranges, keys, attributes, shards
// with data) is rendered to canonical text before Close, after Reopen and
// after a second Reopen; all three renderings must be identical.

import (
	"bytes"
	"context"
	"encoding/json"
	"fmt"
	"sort"
	"strings"
	"testing"
	"time"

	"github.com/pilosa/pilosa"
	vk "github.com/pilosa/pilosa/internal/verifkit"
	"github.com/pilosa/pilosa/roaring"
	"github.com/pilosa/pilosa/test"
)

type c08Field struct {
	Index, Name, Type string
	Desc              string // option description (signature material)
	Keys              bool
	Quantum           string
	NoStd             bool
	Min, Max          int64
	CacheType         string
	CacheSize         uint32
	opts              []pilosa.FieldOption
}

// c08TopN collects, per field, TopN as answered right after a restart BEFORE any recalculation ([0]) and after
// RecalculateCaches ([1]); filled by c08Battery when fresh is set.
var c08TopN map[string][2]string

type c08Case struct {
	Fields []string `json:"fields"`
	Ops    []string `json:"ops"`
}

var c08Times = []string{"2016-01-01T00:00", "2016-02-29T13:00", "2016-12-31T23:00", "2017-03-05T07:00", "2018-07-15T18:00"}

func c08GenField(rng *vk.Rand, index string, idxKeys bool, n int) c08Field {
	f := c08Field{Index: index, Name: fmt.Sprintf("f%d", n)}
	cacheTypes := []string{pilosa.CacheTypeRanked, pilosa.CacheTypeLRU, pilosa.CacheTypeNone}
	cacheSizes := []uint32{0, 1, 3, 100, 50000}
	switch rng.Intn(6) {
	case 0, 1:
		ct, cs := cacheTypes[rng.Intn(3)], cacheSizes[rng.Intn(len(cacheSizes))]
		f.Type, f.Desc = "set", fmt.Sprintf("set(%s,%d)", ct, cs)
		f.CacheType, f.CacheSize = ct, cs
		f.opts = []pilosa.FieldOption{pilosa.OptFieldTypeSet(ct, cs)}
	case 2:
		bounds := [][2]int64{{-100, 100}, {10, 1000}, {-1000, -10}, {5, 5}, {0, 1}, {-1, 0}, {-(1 << 40), 1 << 40}, {1, 1 << 20}, {-7, -7}, {0, 0}}
		b := bounds[rng.Intn(len(bounds))]
		f.Type, f.Min, f.Max, f.Desc = "int", b[0], b[1], fmt.Sprintf("int(%d,%d)", b[0], b[1])
		f.opts = []pilosa.FieldOption{pilosa.OptFieldTypeInt(b[0], b[1])}
	case 3:
		qs := []string{"Y", "YM", "YMD", "YMDH", "M", "MD", "MDH", "D", "DH", "H"}
		f.Quantum, f.NoStd = qs[rng.Intn(len(qs))], rng.Chance(1, 3)
		f.Type, f.Desc = "time", fmt.Sprintf("time(%s,nostd=%v)", f.Quantum, f.NoStd)
		f.opts = []pilosa.FieldOption{pilosa.OptFieldTypeTime(pilosa.TimeQuantum(f.Quantum), f.NoStd)}
	case 4:
		ct, cs := cacheTypes[rng.Intn(3)], cacheSizes[rng.Intn(len(cacheSizes))]
		f.Type, f.Desc = "mutex", fmt.Sprintf("mutex(%s,%d)", ct, cs)
		f.CacheType, f.CacheSize = ct, cs
		f.opts = []pilosa.FieldOption{pilosa.OptFieldTypeMutex(ct, cs)}
	case 5:
		f.Type, f.Desc = "bool", "bool"
		f.opts = []pilosa.FieldOption{pilosa.OptFieldTypeBool()}
	}
	if f.Type != "int" && f.Type != "bool" && rng.Chance(1, 3) {
		f.Keys = true
		f.Desc += "+keys"
		f.opts = append(f.opts, pilosa.OptFieldKeys())
	}
	return f
}

// c08Battery renders everything the property says must survive, canonically.
func c08Battery(m *test.Command, fields []c08Field, indexes map[string]bool, usedCols map[string][]string) (string, error) {
	ctx := context.Background()
	var sb strings.Builder
	schema := m.API.Schema(ctx)
	for _, ii := range schema {
		for _, fi := range ii.Fields {
			fi.Options.BitDepth = 0 // see FIELD lines
		}
	}
	js, _ := json.Marshal(schema)
	fmt.Fprintf(&sb, "SCHEMA %s\n", js)
	// per-field options through the Go API as well
	for _, f := range fields {
		fld := m.Server.Holder().Field(f.Index, f.Name)
		if fld == nil {
			fmt.Fprintf(&sb, "FIELD %s/%s <absent>\n", f.Index, f.Name)
			continue
		}
		o := fld.Options()
		o.BitDepth = 0 // derived from the stored values (grows with them); its consequences are observed through VALUE/Sum/Min/Max lines
		oj, _ := json.Marshal(o)
		fmt.Fprintf(&sb, "FIELD %s/%s options=%s\n", f.Index, f.Name, oj)
		fmt.Fprintf(&sb, "FSHARDS %s/%s %v\n", f.Index, f.Name, fld.AvailableShards().Slice())
	}
	shards := m.API.AvailableShardsByIndex(ctx)
	var inames []string
	for n := range shards {
		inames = append(inames, n)
	}
	sort.Strings(inames)
	for _, n := range inames {
		fmt.Fprintf(&sb, "SHARDS %s %v\n", n, shards[n].Slice())
	}
	q := func(index, pq string) {
		resp, err := m.API.Query(ctx, &pilosa.QueryRequest{Index: index, Query: pq})
		if err != nil {
			fmt.Fprintf(&sb, "Q %s %s -> ERROR %v\n", index, pq, err)
			return
		}
		for _, res := range resp.Results {
			switch v := res.(type) {
			case *pilosa.Row:
				aj, _ := json.Marshal(v.Attrs)
				fmt.Fprintf(&sb, "Q %s %s -> cols=%v keys=%q attrs=%s\n", index, pq, v.Columns(), v.Keys, aj)
			case []pilosa.Pair:
				// the order among equal counts is unspecified
				ps := append([]pilosa.Pair(nil), v...)
				sort.SliceStable(ps, func(a, b int) bool {
					if ps[a].Count != ps[b].Count {
						return ps[a].Count > ps[b].Count
					}
					if ps[a].ID != ps[b].ID {
						return ps[a].ID < ps[b].ID
					}
					return ps[a].Key < ps[b].Key
				})
				// ... and so is WHICH of the rows with the smallest reported count are reported at all (n, or a
				// row cache smaller than the number of rows, cuts through a tie at an arbitrary place): keep the
				// multiset of counts, and the identities only of rows above the smallest count
				var counts []uint64
				var above []pilosa.Pair
				for _, pr := range ps {
					counts = append(counts, pr.Count)
					if pr.Count > ps[len(ps)-1].Count {
						above = append(above, pr)
					}
				}
				vj, _ := json.Marshal(above)
				fmt.Fprintf(&sb, "Q %s %s -> pairs counts=%v above-smallest=%s\n", index, pq, counts, vj)
			default:
				vj, _ := json.Marshal(v)
				fmt.Fprintf(&sb, "Q %s %s -> %T %s\n", index, pq, v, vj)
			}
		}
		if len(resp.ColumnAttrSets) > 0 {
			cj, _ := json.Marshal(resp.ColumnAttrSets)
			fmt.Fprintf(&sb, "Q %s %s -> columnattrs=%s\n", index, pq, cj)
		}
	}
	// Right after a restart the row caches are what was saved at shutdown. For fields whose rows all fit the cache
	// TopN must already be complete then, without anybody asking for a recalculation.
	topnCanon := func(f c08Field) string {
		resp, err := m.API.Query(ctx, &pilosa.QueryRequest{Index: f.Index, Query: fmt.Sprintf("TopN(%s, n=5)", f.Name)})
		if err != nil {
			return "error: " + err.Error()
		}
		ps, _ := resp.Results[0].([]pilosa.Pair)
		var out []string
		for _, pr := range ps {
			out = append(out, fmt.Sprintf("%d%s:%d", pr.ID, pr.Key, pr.Count))
		}
		sort.Strings(out)
		return strings.Join(out, " ")
	}
	roomy := func(f c08Field) bool {
		return (f.Type == "set" || f.Type == "mutex") && f.CacheType != pilosa.CacheTypeNone && f.CacheSize >= 100 && indexes[f.Index] && m.Server.Holder().Field(f.Index, f.Name) != nil
	}
	if c08TopN != nil {
		for _, f := range fields {
			if roomy(f) {
				c08TopN[f.Index+"/"+f.Name] = [2]string{topnCanon(f), ""}
			}
		}
	}
	if err := m.API.RecalculateCaches(ctx); err != nil {
		return "", err
	}
	if c08TopN != nil {
		for _, f := range fields {
			if roomy(f) {
				e := c08TopN[f.Index+"/"+f.Name]
				e[1] = topnCanon(f)
				c08TopN[f.Index+"/"+f.Name] = e
			}
		}
	}
	for _, f := range fields {
		if !indexes[f.Index] {
			continue
		}
		if m.Server.Holder().Field(f.Index, f.Name) == nil {
			continue
		}
		rowLit := func(r int) string {
			if f.Keys {
				return fmt.Sprintf("%q", fmt.Sprintf("rk%d", r))
			}
			if f.Type == "bool" {
				return []string{"false", "true"}[r%2]
			}
			return fmt.Sprint(r)
		}
		switch f.Type {
		case "int":
			q(f.Index, fmt.Sprintf("Row(%s != null)", f.Name))
			q(f.Index, fmt.Sprintf("Sum(field=%s)", f.Name))
			q(f.Index, fmt.Sprintf("Min(field=%s)", f.Name))
			q(f.Index, fmt.Sprintf("Max(field=%s)", f.Name))
			q(f.Index, fmt.Sprintf("Row(%s > %d)", f.Name, (f.Min+f.Max)/2))
			q(f.Index, fmt.Sprintf("Row(%s <= %d)", f.Name, (f.Min+f.Max)/2))
			fld := m.Server.Holder().Field(f.Index, f.Name)
			for _, c := range []uint64{0, 1, 2, 3, 65536, pilosa.ShardWidth, pilosa.ShardWidth + 1} {
				if !fld.AvailableShards().Contains(c / pilosa.ShardWidth) {
					// Field.Value creates the fragment it reads from; do not let the battery itself add shards
					fmt.Fprintf(&sb, "VALUE %s/%s col=%d -> no data in shard\n", f.Index, f.Name, c)
					continue
				}
				v, ok, err := fld.Value(c)
				fmt.Fprintf(&sb, "VALUE %s/%s col=%d -> %d %v %v\n", f.Index, f.Name, c, v, ok, err)
			}
		default:
			nrows := 4
			if f.Type == "bool" {
				nrows = 2
			}
			for r := 0; r < nrows; r++ {
				q(f.Index, fmt.Sprintf("Row(%s=%s)", f.Name, rowLit(r)))
				q(f.Index, fmt.Sprintf("Count(Row(%s=%s))", f.Name, rowLit(r)))
			}
			if !(f.Type == "time" && f.NoStd) {
				q(f.Index, fmt.Sprintf("Rows(%s)", f.Name))
			}
			if f.Type == "set" || f.Type == "mutex" {
				q(f.Index, fmt.Sprintf("TopN(%s, n=5)", f.Name))
			}
			if f.Type == "time" {
				q(f.Index, fmt.Sprintf("Row(%s=%s, from='2015-01-01T00:00', to='2019-01-01T00:00')", f.Name, rowLit(0)))
				q(f.Index, fmt.Sprintf("Row(%s=%s, from='2016-02-01T00:00', to='2016-03-01T00:00')", f.Name, rowLit(1)))
				q(f.Index, fmt.Sprintf("Rows(%s, from='2016-01-01T00:00', to='2017-01-01T00:00')", f.Name))
				fmt.Fprintf(&sb, "VIEWS %s/%s %v\n", f.Index, f.Name, pilosa.VerifViewNames(m.Server.Holder().Field(f.Index, f.Name)))
			}
		}
	}
	// column attributes of every index
	var idxNames []string
	for n, alive := range indexes {
		if alive {
			idxNames = append(idxNames, n)
		}
	}
	sort.Strings(idxNames)
	for _, n := range idxNames {
		idx := m.Server.Holder().Index(n)
		if idx == nil {
			fmt.Fprintf(&sb, "INDEX %s <absent>\n", n)
			continue
		}
		for _, c := range []uint64{0, 1, 2, 3, 99, 100, 101} {
			a, err := idx.ColumnAttrStore().Attrs(c)
			aj, _ := json.Marshal(a)
			fmt.Fprintf(&sb, "COLATTR %s %d %s %v\n", n, c, aj, err)
		}
	}
	return sb.String(), nil
}

func TestVerifC08(t *testing.T) {
	r := vk.Start(t, "C08")
	defer r.Finish()
	for _, ty := range []string{"set", "int", "time", "mutex", "bool"} {
		r.Expect("fieldtype:" + ty)
	}
	r.Expect("keys:index", "keys:field", "write:set", "write:import", "write:importvalue", "write:importroaring", "write:attrs", "schema:delete-field", "schema:delete-index", "int:excludes-zero", "time:nostd")

	m := test.MustRunCommand()
	// (the test helper maps only 140000 bytes of the key translation log; a thorough run outgrows that)
	m.Config.Translation.MapSize = 1 << 28
	if err := m.Reopen(); err != nil {
		t.Fatalf("reopen with a larger translation map: %v", err)
	}
	defer m.Close()
	ctx := context.Background()
	pilosa.SetVerifHook(func(name string, a, b uint64) uint64 {
		if name == "fragment.new.maxopn" {
			return 9
		}
		return 0
	})
	defer pilosa.SetVerifHook(nil)
	gen := 0

	n := r.N(96, 3840)
	r.Cases("hist", n, func(i int, id string, rng *vk.Rand) {
		gen++
		cs := c08Case{}
		indexes := map[string]bool{}
		idxKeys := map[string]bool{}
		var fields []c08Field
		nIdx := 1 + rng.Intn(2)
		fail := func(sig, msg string) { r.Fail(sig, id, msg, cs) }
		for k := 0; k < nIdx; k++ {
			name := fmt.Sprintf("x%dn%d", gen, k)
			opt := pilosa.IndexOptions{Keys: rng.Chance(1, 4), TrackExistence: rng.Bool()}
			if _, err := m.API.CreateIndex(ctx, name, opt); err != nil {
				t.Fatalf("create index: %v", err)
			}
			indexes[name], idxKeys[name] = true, opt.Keys
			if opt.Keys {
				r.Cover("keys:index")
			}
			cs.Ops = append(cs.Ops, fmt.Sprintf("CreateIndex(%s,keys=%v,exist=%v)", name, opt.Keys, opt.TrackExistence))
			nf := 1 + rng.Intn(4)
			for j := 0; j < nf; j++ {
				f := c08GenField(rng, name, opt.Keys, j)
				if _, err := m.API.CreateField(ctx, name, f.Name, f.opts...); err != nil {
					// some option combinations are refused (e.g. cache size 0): that is not a restart matter
					cs.Ops = append(cs.Ops, fmt.Sprintf("CreateField(%s/%s %s) refused: %v", name, f.Name, f.Desc, err))
					continue
				}
				fields = append(fields, f)
				cs.Fields = append(cs.Fields, name+"/"+f.Name+":"+f.Desc)
				cs.Ops = append(cs.Ops, fmt.Sprintf("CreateField(%s/%s %s)", name, f.Name, f.Desc))
				r.Cover("fieldtype:" + f.Type)
				if f.Keys {
					r.Cover("keys:field")
				}
				if f.Type == "int" && (f.Min > 0 || f.Max < 0) {
					r.Cover("int:excludes-zero")
				}
				if f.NoStd {
					r.Cover("time:nostd")
				}
			}
		}
		defer func() {
			for n, alive := range indexes {
				if alive {
					m.API.DeleteIndex(ctx, n)
				}
			}
		}()
		cols := []uint64{0, 1, 2, 3, 65536, pilosa.ShardWidth, pilosa.ShardWidth + 1}
		colLit := func(index string, c uint64) string {
			if idxKeys[index] {
				return fmt.Sprintf("%q", fmt.Sprintf("ck%d", c))
			}
			return fmt.Sprint(c)
		}
		do := func(index, pq string) {
			cs.Ops = append(cs.Ops, index+": "+pq)
			defer func() {
				if e := recover(); e != nil {
					name := pq
					if p := strings.Index(pq, "("); p > 0 {
						name = pq[:p]
					}
					fail("panic-in-query:"+name, fmt.Sprintf("%s panicked: %v", pq, e))
				}
			}()
			if _, err := m.API.Query(ctx, &pilosa.QueryRequest{Index: index, Query: pq}); err != nil {
				cs.Ops[len(cs.Ops)-1] += fmt.Sprintf(" -> refused: %v", err)
			}
		}
		nontrivial := false
		nwrites := 8 + rng.Intn(25)
		for k := 0; k < nwrites && len(fields) > 0; k++ {
			f := fields[rng.Intn(len(fields))]
			if !indexes[f.Index] {
				continue
			}
			c := cols[rng.Intn(len(cols))]
			rowLit := func(r int) string {
				if f.Keys {
					return fmt.Sprintf("%q", fmt.Sprintf("rk%d", r))
				}
				if f.Type == "bool" {
					return []string{"false", "true"}[r%2]
				}
				return fmt.Sprint(r)
			}
			if f.Desc != "set(ranked,50000)" {
				nontrivial = true
			}
			switch f.Type {
			case "int":
				span := f.Max - f.Min
				v := f.Min
				if span > 0 {
					v = f.Min + int64(rng.Uint64()%uint64(span+1))
				}
				if rng.Chance(1, 3) {
					v = []int64{f.Min, f.Max, 0}[rng.Intn(3)]
					if v < f.Min || v > f.Max {
						v = f.Min
					}
				}
				if rng.Chance(1, 3) && !idxKeys[f.Index] {
					r.Cover("write:importvalue")
					req := &pilosa.ImportValueRequest{Index: f.Index, Field: f.Name, Shard: c / pilosa.ShardWidth, ColumnIDs: []uint64{c}, Values: []int64{v}}
					cs.Ops = append(cs.Ops, fmt.Sprintf("%s: ImportValue(%s col=%d v=%d)", f.Index, f.Name, c, v))
					if err := m.API.ImportValue(ctx, req); err != nil {
						cs.Ops[len(cs.Ops)-1] += fmt.Sprintf(" -> refused: %v", err)
					}
				} else {
					r.Cover("write:set")
					do(f.Index, fmt.Sprintf("Set(%s, %s=%d)", colLit(f.Index, c), f.Name, v))
				}
			default:
				row := rng.Intn(4)
				switch op := rng.Intn(10); {
				case op < 4:
					r.Cover("write:set")
					if f.Type == "time" && rng.Chance(3, 4) {
						do(f.Index, fmt.Sprintf("Set(%s, %s=%s, %s)", colLit(f.Index, c), f.Name, rowLit(row), c08Times[rng.Intn(len(c08Times))]))
					} else {
						do(f.Index, fmt.Sprintf("Set(%s, %s=%s)", colLit(f.Index, c), f.Name, rowLit(row)))
					}
				case op < 5:
					do(f.Index, fmt.Sprintf("Clear(%s, %s=%s)", colLit(f.Index, c), f.Name, rowLit(row)))
				case op < 6 && f.Type == "set":
					do(f.Index, fmt.Sprintf("ClearRow(%s=%s)", f.Name, rowLit(row)))
				case op < 7 && f.Type == "set":
					do(f.Index, fmt.Sprintf("Store(Row(%s=%s), %s=%s)", f.Name, rowLit(row), f.Name, rowLit((row+1)%4)))
				case op < 8 && !f.Keys && !idxKeys[f.Index] && f.Type != "bool":
					r.Cover("write:import")
					req := &pilosa.ImportRequest{Index: f.Index, Field: f.Name, Shard: c / pilosa.ShardWidth, RowIDs: []uint64{uint64(row), uint64((row + 1) % 4)}, ColumnIDs: []uint64{c, c}}
					if f.Type == "time" {
						tm, _ := time.Parse(pilosa.TimeFormat, c08Times[rng.Intn(len(c08Times))])
						req.Timestamps = []int64{tm.Unix(), 0}
					}
					cs.Ops = append(cs.Ops, fmt.Sprintf("%s: Import(%s rows=%v cols=%v ts=%v)", f.Index, f.Name, req.RowIDs, req.ColumnIDs, req.Timestamps))
					if err := m.API.Import(ctx, req); err != nil {
						cs.Ops[len(cs.Ops)-1] += fmt.Sprintf(" -> refused: %v", err)
					}
				case op < 9 && !f.Keys && !idxKeys[f.Index] && (f.Type == "set" || (f.Type == "time" && !f.NoStd)):
					r.Cover("write:importroaring")
					bm := roaring.NewBitmap(uint64(row)*pilosa.ShardWidth+c%pilosa.ShardWidth, uint64(row)*pilosa.ShardWidth+(c+7)%pilosa.ShardWidth)
					var buf bytes.Buffer
					bm.WriteTo(&buf)
					cs.Ops = append(cs.Ops, fmt.Sprintf("%s: ImportRoaring(%s shard=%d row=%d cols=%d,%d)", f.Index, f.Name, c/pilosa.ShardWidth, row, c, c+7))
					if err := m.API.ImportRoaring(ctx, f.Index, f.Name, c/pilosa.ShardWidth, false, &pilosa.ImportRoaringRequest{Views: map[string][]byte{"": buf.Bytes()}}); err != nil {
						cs.Ops[len(cs.Ops)-1] += fmt.Sprintf(" -> refused: %v", err)
					}
				default:
					r.Cover("write:attrs")
					if rng.Bool() && !f.Keys {
						do(f.Index, fmt.Sprintf("SetRowAttrs(%s, %d, name=%q, n=%d, ok=%v, x=%d.5)", f.Name, row, fmt.Sprintf("r%d", rng.Intn(5)), rng.Intn(100), rng.Bool(), rng.Intn(9)))
					} else if !idxKeys[f.Index] {
						do(f.Index, fmt.Sprintf("SetColumnAttrs(%d, tag=%q, n=%d)", []uint64{0, 1, 2, 3, 99, 100, 101}[rng.Intn(7)], fmt.Sprintf("c%d", rng.Intn(5)), rng.Intn(100)))
					}
				}
			}
			// schema churn in the middle of the history
			if rng.Chance(1, 25) && len(fields) > 1 {
				victim := fields[rng.Intn(len(fields))]
				if indexes[victim.Index] && m.Server.Holder().Field(victim.Index, victim.Name) != nil {
					r.Cover("schema:delete-field")
					cs.Ops = append(cs.Ops, fmt.Sprintf("DeleteField(%s/%s)", victim.Index, victim.Name))
					if err := m.API.DeleteField(ctx, victim.Index, victim.Name); err != nil {
						fail("delete-field-error", err.Error())
					}
				}
			}
			if rng.Chance(1, 60) && nIdx > 1 {
				for n, alive := range indexes {
					if alive {
						r.Cover("schema:delete-index")
						cs.Ops = append(cs.Ops, fmt.Sprintf("DeleteIndex(%s)", n))
						if err := m.API.DeleteIndex(ctx, n); err != nil {
							fail("delete-index-error", err.Error())
						}
						indexes[n] = false
						break
					}
				}
			}
		}
		r.Distinct(vk.Hash64("c08", id), nontrivial)
		if r.WantSample() {
			r.Sample(cs)
		}

		before, err := c08Battery(m, fields, indexes, nil)
		if err != nil {
			fail("battery-error", err.Error())
			return
		}
		for round := 1; round <= 2; round++ {
			if err := m.Reopen(); err != nil {
				fail(fmt.Sprintf("reopen-%d-fails", round), err.Error())
				return
			}
			c08TopN = map[string][2]string{}
			after, err := c08Battery(m, fields, indexes, nil)
			fresh := c08TopN
			c08TopN = nil
			if err != nil {
				fail("battery-error", err.Error())
				return
			}
			for name, e := range fresh {
				r.Eval(1)
				r.Cover("topn:fresh-after-restart")
				if e[0] != e[1] {
					desc := ""
					for _, f := range fields {
						if f.Index+"/"+f.Name == name {
							desc = f.Desc
						}
					}
					fail("topn-after-restart-needs-recalculation:"+desc, fmt.Sprintf("restart %d: TopN(%s, n=5) right after the restart answers [%s]; after RecalculateCaches [%s] (all rows fit the cache)", round, name, e[0], e[1]))
					return
				}
			}
			bl, al := strings.Split(before, "\n"), strings.Split(after, "\n")
			r.Eval(len(bl))
			if before != after {
				// first differing line, attributed (input-derived) to the field type/options it concerns
				diff := ""
				sig := "battery-differs"
				for k := 0; k < len(bl) || k < len(al); k++ {
					var x, y string
					if k < len(bl) {
						x = bl[k]
					}
					if k < len(al) {
						y = al[k]
					}
					if x != y {
						diff = fmt.Sprintf("before: %s\nafter:  %s", x, y)
						for _, f := range fields {
							if strings.Contains(x, " "+f.Index+"/"+f.Name+" ") || strings.Contains(x, "("+f.Name+" ") || strings.Contains(x, "("+f.Name+"=") || strings.Contains(x, "field="+f.Name+")") || strings.Contains(x, "("+f.Name+",") || strings.Contains(x, "("+f.Name+")") {
								if strings.Contains(x, " "+f.Index+" ") || strings.Contains(x, " "+f.Index+"/") {
									sig = "differs:" + strings.Fields(x)[0] + ":" + f.Desc
								}
							}
						}
						if sig == "battery-differs" {
							sig = "differs:" + strings.Fields(x+" ?")[0]
						}
						break
					}
				}
				fail(fmt.Sprintf("%s:reopen%d", sig, round), diff)
				return
			}
		}
	})
}
