package pilosa_test

// C09 — A crash at any point loses no acknowledged write and never blocks
// restart. Fault enumeration by syscall-stop crash imaging:
//
//   TestVerifC09        orchestrator + monitor: runs the workload child under
//                       `strace -f -e inject=<fs syscalls>:signal=SIGSTOP`, so the
//                       child is stopped at the ENTRY of every file-mutating
//                       syscall; at each stop it copies the data directory
//                       (= the disk state if the process were SIGKILLed there),
//                       notes how many ops were acknowledged / begun, SIGCONTs.
//   TestVerifC09Child   the workload: real in-process server on a fresh dir,
//                       a generated write history, begin/ack counters in a
//                       shared mmap (no syscalls).
//   TestVerifC09Verify  the oracle, in its own process per history: reopens a
//                       real server on every image and compares the recovered
//                       state with the states the history allows.

import (
	"bytes"
	"context"
	"encoding/binary"
	"encoding/json"
	"fmt"
	"io"
	"io/ioutil"
	"os"
	"os/exec"
	"path/filepath"
	"sort"
	"strconv"
	"strings"
	"syscall"
	"testing"
	"time"

	"github.com/pilosa/pilosa"
	vk "github.com/pilosa/pilosa/internal/verifkit"
	"github.com/pilosa/pilosa/roaring"
	"github.com/pilosa/pilosa/server"
)

// ---------------------------------------------------------------- history

type c09Op struct {
	Kind  string   `json:"kind"`
	Field string   `json:"field,omitempty"`
	Row   uint64   `json:"row,omitempty"`
	Row2  uint64   `json:"row2,omitempty"`
	Col   uint64   `json:"col,omitempty"`
	Val   int64    `json:"val,omitempty"`
	Rows  []uint64 `json:"rows,omitempty"`
	Cols  []uint64 `json:"cols,omitempty"`
	Vals  []int64  `json:"vals,omitempty"`
	RKey  string   `json:"rkey,omitempty"`
	CKey  string   `json:"ckey,omitempty"`
	Clear bool     `json:"clear,omitempty"`
}

var c09Kinds = []string{"set", "clear", "mutex", "int", "import", "importclear", "importvalue", "importroaring", "store", "clearrow", "keyed", "bigimport"}

const c09SW = pilosa.ShardWidth

var c09Cols = []uint64{0, 1, 2, 3, 65535, 65536, c09SW - 1, c09SW, c09SW + 1, c09SW + 65536}

func c09GenHistory(rng *vk.Rand, n int) (ops []c09Op, maxOpN int) {
	maxOpN = 3 + rng.Intn(18)
	long := strings.Repeat("k", 700)
	for i := 0; i < n; i++ {
		k := c09Kinds[rng.Intn(len(c09Kinds))]
		op := c09Op{Kind: k}
		switch k {
		case "set", "clear":
			op.Field, op.Row, op.Col = "s", uint64(rng.Intn(4)), c09Cols[rng.Intn(len(c09Cols))]
		case "mutex":
			op.Field, op.Row, op.Col = "m", uint64(rng.Intn(4)), c09Cols[rng.Intn(5)]
		case "int":
			op.Field, op.Col, op.Val = "v", c09Cols[rng.Intn(len(c09Cols))], int64(rng.Intn(1101))-100
		case "import", "importclear":
			op.Field = "s"
			op.Clear = k == "importclear"
			sh := uint64(rng.Intn(2))
			nb := 1 + rng.Intn(12)
			for j := 0; j < nb; j++ {
				op.Rows = append(op.Rows, uint64(rng.Intn(4)))
				op.Cols = append(op.Cols, sh*c09SW+uint64(rng.Intn(40)))
			}
			op.Col = sh * c09SW
		case "bigimport":
			// one bulk import that changes several thousand bits of one fragment (more than any
			// internal batching unit): Col = first column, Val = number of consecutive columns
			op.Field, op.Row = "s", uint64(rng.Intn(4))
			op.Clear = rng.Chance(1, 4)
			op.Col = uint64(rng.Intn(2))*c09SW + uint64(100+rng.Intn(50))
			op.Val = int64(4097 + rng.Intn(6000))
		case "importvalue":
			op.Field = "v"
			sh := uint64(rng.Intn(2))
			nb := 1 + rng.Intn(6)
			seen := map[uint64]bool{}
			for j := 0; j < nb; j++ {
				c := sh*c09SW + uint64(rng.Intn(12))
				if seen[c] {
					continue
				}
				seen[c] = true
				op.Cols = append(op.Cols, c)
				op.Vals = append(op.Vals, int64(rng.Intn(1101))-100)
			}
			op.Col = sh * c09SW
		case "importroaring":
			op.Field = "r"
			op.Clear = rng.Chance(1, 4)
			sh := uint64(rng.Intn(2))
			nb := 1 + rng.Intn(20)
			for j := 0; j < nb; j++ {
				op.Rows = append(op.Rows, uint64(rng.Intn(3)))
				op.Cols = append(op.Cols, sh*c09SW+uint64(rng.Intn(30)))
			}
			op.Col = sh * c09SW
		case "store":
			op.Field, op.Row, op.Row2 = "s", uint64(rng.Intn(4)), uint64(rng.Intn(4))
		case "clearrow":
			op.Field, op.Row = "s", uint64(rng.Intn(4))
		case "keyed":
			op.Field = "k"
			op.RKey = fmt.Sprintf("row-%d", rng.Intn(3))
			op.CKey = fmt.Sprintf("col-%d", rng.Intn(6))
			if rng.Chance(1, 3) {
				op.CKey += long // large translate entries: several cross the 4 KiB write buffer
			}
		}
		ops = append(ops, op)
	}
	return ops, maxOpN
}

// ---------------------------------------------------------------- model

type c09Model struct {
	Set   map[string]map[uint64]map[uint64]bool // field -> row -> cols   (fields s, m, r)
	Int   map[uint64]int64                     // col -> value           (field v)
	Keyed map[string]map[string]bool           // rowKey -> colKeys      (index ik, field k)
}

func c09NewModel() *c09Model {
	return &c09Model{Set: map[string]map[uint64]map[uint64]bool{"s": {}, "m": {}, "r": {}}, Int: map[uint64]int64{}, Keyed: map[string]map[string]bool{}}
}

func (m *c09Model) clone() *c09Model {
	o := c09NewModel()
	for f, rows := range m.Set {
		for r, cols := range rows {
			o.Set[f][r] = map[uint64]bool{}
			for c := range cols {
				o.Set[f][r][c] = true
			}
		}
	}
	for c, v := range m.Int {
		o.Int[c] = v
	}
	for r, cs := range m.Keyed {
		o.Keyed[r] = map[string]bool{}
		for c := range cs {
			o.Keyed[r][c] = true
		}
	}
	return o
}

func (m *c09Model) setBit(f string, r, c uint64) {
	if m.Set[f][r] == nil {
		m.Set[f][r] = map[uint64]bool{}
	}
	m.Set[f][r][c] = true
}

func (m *c09Model) apply(op c09Op) {
	switch op.Kind {
	case "set":
		m.setBit("s", op.Row, op.Col)
	case "clear":
		delete(m.Set["s"][op.Row], op.Col)
	case "mutex":
		for r := range m.Set["m"] {
			delete(m.Set["m"][r], op.Col)
		}
		m.setBit("m", op.Row, op.Col)
	case "int":
		m.Int[op.Col] = op.Val
	case "import", "importclear", "importroaring":
		for i := range op.Rows {
			if op.Clear {
				delete(m.Set[op.Field][op.Rows[i]], op.Cols[i])
			} else {
				m.setBit(op.Field, op.Rows[i], op.Cols[i])
			}
		}
	case "bigimport":
		for i := int64(0); i < op.Val; i++ {
			if op.Clear {
				delete(m.Set["s"][op.Row], op.Col+uint64(i))
			} else {
				m.setBit("s", op.Row, op.Col+uint64(i))
			}
		}
	case "importvalue":
		for i := range op.Cols {
			m.Int[op.Cols[i]] = op.Vals[i]
		}
	case "store":
		src := map[uint64]bool{}
		for c := range m.Set["s"][op.Row] {
			src[c] = true
		}
		m.Set["s"][op.Row2] = src
	case "clearrow":
		delete(m.Set["s"], op.Row)
	case "keyed":
		if m.Keyed[op.RKey] == nil {
			m.Keyed[op.RKey] = map[string]bool{}
		}
		m.Keyed[op.RKey][op.CKey] = true
	}
}

// ---------------------------------------------------------------- server helpers

func c09StartServer(dir string) (*server.Command, error) {
	m := server.NewCommand(bytes.NewReader(nil), ioutil.Discard, ioutil.Discard, server.OptCommandCloseTimeout(2*time.Millisecond))
	m.Config.DataDir = dir
	m.Config.Bind = "http://localhost:0"
	m.Config.Cluster.Disabled = true
	m.Config.Translation.MapSize = 1 << 20
	m.Config.WorkerPoolSize = 2
	m.Config.Metric.Diagnostics = false
	m.Config.Metric.Service = "none"
	if err := m.Start(); err != nil {
		return nil, err
	}
	return m, nil
}

func c09Exec(m *server.Command, op c09Op) error {
	ctx := context.Background()
	q := func(index, pq string) error {
		_, err := m.API.Query(ctx, &pilosa.QueryRequest{Index: index, Query: pq})
		return err
	}
	switch op.Kind {
	case "set":
		return q("i", fmt.Sprintf("Set(%d, s=%d)", op.Col, op.Row))
	case "clear":
		return q("i", fmt.Sprintf("Clear(%d, s=%d)", op.Col, op.Row))
	case "mutex":
		return q("i", fmt.Sprintf("Set(%d, m=%d)", op.Col, op.Row))
	case "int":
		return q("i", fmt.Sprintf("Set(%d, v=%d)", op.Col, op.Val))
	case "import", "importclear":
		req := &pilosa.ImportRequest{Index: "i", Field: "s", Shard: op.Col / c09SW,
			RowIDs: append([]uint64(nil), op.Rows...), ColumnIDs: append([]uint64(nil), op.Cols...)}
		if op.Clear {
			return m.API.Import(ctx, req, pilosa.OptImportOptionsClear(true))
		}
		return m.API.Import(ctx, req)
	case "bigimport":
		req := &pilosa.ImportRequest{Index: "i", Field: "s", Shard: op.Col / c09SW}
		for i := int64(0); i < op.Val; i++ {
			req.RowIDs = append(req.RowIDs, op.Row)
			req.ColumnIDs = append(req.ColumnIDs, op.Col+uint64(i))
		}
		if op.Clear {
			return m.API.Import(ctx, req, pilosa.OptImportOptionsClear(true))
		}
		return m.API.Import(ctx, req)
	case "importvalue":
		req := &pilosa.ImportValueRequest{Index: "i", Field: "v", Shard: op.Col / c09SW,
			ColumnIDs: append([]uint64(nil), op.Cols...), Values: append([]int64(nil), op.Vals...)}
		return m.API.ImportValue(ctx, req)
	case "importroaring":
		bm := roaring.NewBitmap()
		for i := range op.Rows {
			bm.DirectAdd(op.Rows[i]*c09SW + op.Cols[i]%c09SW)
		}
		var buf bytes.Buffer
		if _, err := bm.WriteTo(&buf); err != nil {
			return err
		}
		return m.API.ImportRoaring(ctx, "i", "r", op.Col/c09SW, false, &pilosa.ImportRoaringRequest{Clear: op.Clear, Views: map[string][]byte{"": buf.Bytes()}})
	case "store":
		return q("i", fmt.Sprintf("Store(Row(s=%d), s=%d)", op.Row, op.Row2))
	case "clearrow":
		return q("i", fmt.Sprintf("ClearRow(s=%d)", op.Row))
	case "keyed":
		return q("ik", fmt.Sprintf("Set(%q, k=%q)", op.CKey, op.RKey))
	}
	return fmt.Errorf("unknown op kind %s", op.Kind)
}

func c09CreateSchema(m *server.Command) error {
	ctx := context.Background()
	if _, err := m.API.CreateIndex(ctx, "i", pilosa.IndexOptions{}); err != nil {
		return err
	}
	if _, err := m.API.CreateIndex(ctx, "ik", pilosa.IndexOptions{Keys: true}); err != nil {
		return err
	}
	mk := func(index, name string, opts ...pilosa.FieldOption) error {
		_, err := m.API.CreateField(ctx, index, name, opts...)
		return err
	}
	if err := mk("i", "s", pilosa.OptFieldTypeSet(pilosa.CacheTypeRanked, 100)); err != nil {
		return err
	}
	if err := mk("i", "r", pilosa.OptFieldTypeSet(pilosa.CacheTypeRanked, 100)); err != nil {
		return err
	}
	if err := mk("i", "m", pilosa.OptFieldTypeMutex(pilosa.CacheTypeRanked, 100)); err != nil {
		return err
	}
	if err := mk("i", "v", pilosa.OptFieldTypeInt(-100, 1000)); err != nil {
		return err
	}
	return mk("ik", "k", pilosa.OptFieldTypeSet(pilosa.CacheTypeRanked, 100), pilosa.OptFieldKeys())
}

// ---------------------------------------------------------------- child (workload under strace)

func c09Shared(path string, create bool) ([]byte, error) {
	flags := os.O_RDWR
	if create {
		flags |= os.O_CREATE | os.O_TRUNC
	}
	f, err := os.OpenFile(path, flags, 0o644)
	if err != nil {
		return nil, err
	}
	defer f.Close()
	if create {
		if err := f.Truncate(4096); err != nil {
			return nil, err
		}
	}
	return syscall.Mmap(int(f.Fd()), 0, 4096, syscall.PROT_READ|syscall.PROT_WRITE, syscall.MAP_SHARED)
}

func TestVerifC09Child(t *testing.T) {
	dir := os.Getenv("VERIF_C09_DIR")
	if dir == "" {
		t.Skip("not a C09 child")
	}
	seed, _ := strconv.ParseUint(os.Getenv("VERIF_C09_SEED"), 10, 64)
	nops, _ := strconv.Atoi(os.Getenv("VERIF_C09_NOPS"))
	ops, maxOpN := c09GenHistory(vk.NewRand(seed), nops)
	shared, err := c09Shared(os.Getenv("VERIF_C09_SHARED"), false)
	if err != nil {
		t.Fatal(err)
	}
	pilosa.SetVerifHook(func(name string, a, b uint64) uint64 {
		if name == "fragment.new.maxopn" {
			return uint64(maxOpN)
		}
		return 0
	})
	m, err := c09StartServer(dir)
	if err != nil {
		t.Fatalf("start: %v", err)
	}
	if err := c09CreateSchema(m); err != nil {
		t.Fatalf("schema: %v", err)
	}
	// phase word: 1 = schema done. begun / acked counters follow.
	binary.LittleEndian.PutUint64(shared[0:], 1)
	for i, op := range ops {
		binary.LittleEndian.PutUint64(shared[8:], uint64(i+1)) // begun
		if err := c09Exec(m, op); err != nil {
			// a refused op is recorded (the verifier treats it as not applied)
			binary.LittleEndian.PutUint64(shared[24+8*(i/64):], binary.LittleEndian.Uint64(shared[24+8*(i/64):])|1<<(uint(i)%64))
		}
		binary.LittleEndian.PutUint64(shared[16:], uint64(i+1)) // acked
	}
	binary.LittleEndian.PutUint64(shared[0:], 2)
	// no clean Close: the final image is taken with the process still up (kill model)
}

// ---------------------------------------------------------------- orchestrator / monitor

type c09ImageMeta struct {
	N       int    `json:"n"`
	Begun   int    `json:"begun"`
	Acked   int    `json:"acked"`
	ErrMask []uint64 `json:"errmask"`
	Phase   int    `json:"phase"`
}

func c09Descendants(root int) []int {
	// children by scanning /proc (ppid), transitively
	pp := map[int][]int{}
	ents, _ := ioutil.ReadDir("/proc")
	for _, e := range ents {
		pid, err := strconv.Atoi(e.Name())
		if err != nil {
			continue
		}
		b, err := ioutil.ReadFile(fmt.Sprintf("/proc/%d/stat", pid))
		if err != nil {
			continue
		}
		s := string(b)
		rp := strings.LastIndex(s, ")")
		if rp < 0 {
			continue
		}
		f := strings.Fields(s[rp+1:])
		if len(f) < 2 {
			continue
		}
		ppid, _ := strconv.Atoi(f[1])
		pp[ppid] = append(pp[ppid], pid)
	}
	var out []int
	var walk func(int)
	walk = func(p int) {
		for _, c := range pp[p] {
			out = append(out, c)
			walk(c)
		}
	}
	walk(root)
	return out
}

// c09Snapshot returns, per thread, its scheduler state letter and schedstat
// line; ok=false if the process is gone.
func c09Snapshot(pid int) (string, bool, bool) {
	ents, err := ioutil.ReadDir(fmt.Sprintf("/proc/%d/task", pid))
	if err != nil || len(ents) == 0 {
		return "", false, false
	}
	var sb strings.Builder
	all := true
	for _, e := range ents {
		b, err := ioutil.ReadFile(fmt.Sprintf("/proc/%d/task/%s/stat", pid, e.Name()))
		if err != nil {
			continue
		}
		s := string(b)
		rp := strings.LastIndex(s, ")")
		if rp < 0 || rp+2 >= len(s) {
			return "", false, true
		}
		if st := s[rp+2]; st != 'T' && st != 't' {
			all = false
		}
		ss, _ := ioutil.ReadFile(fmt.Sprintf("/proc/%d/task/%s/schedstat", pid, e.Name()))
		sb.WriteString(e.Name() + ":" + string(ss))
	}
	return sb.String(), all, true
}

// c09AllStopped reports whether every thread of pid sits in a stop state
// (T, or t = ptrace group-stop under strace) and stays there without running:
// two snapshots of every thread's schedstat, taken apart, must be identical.
// A transient ptrace syscall-stop is resumed by strace within microseconds and
// so changes schedstat; a SIGSTOP group-stop does not end until SIGCONT.
func c09AllStopped(pid int) (bool, bool) {
	s1, all, ok := c09Snapshot(pid)
	if !ok || !all {
		return false, ok
	}
	time.Sleep(400 * time.Microsecond)
	s2, all, ok := c09Snapshot(pid)
	if !ok || !all || s1 != s2 {
		return false, ok
	}
	return true, true
}

// c09TraceSaysStopped reports whether the last line strace wrote is a
// group-stop report ("--- stopped by SIGSTOP ---"): nothing can follow it
// until someone sends SIGCONT.
func c09TraceSaysStopped(trace string) bool {
	f, err := os.Open(trace)
	if err != nil {
		return false
	}
	defer f.Close()
	st, err := f.Stat()
	if err != nil {
		return false
	}
	off := st.Size() - 256
	if off < 0 {
		off = 0
	}
	buf := make([]byte, 256)
	n, _ := f.ReadAt(buf, off)
	return strings.HasSuffix(strings.TrimRight(string(buf[:n]), "\n "), "--- stopped by SIGSTOP ---")
}

func c09DirDigest(dir string) string {
	var sb strings.Builder
	filepath.Walk(dir, func(p string, info os.FileInfo, err error) error {
		if err != nil || info.IsDir() {
			return nil
		}
		fmt.Fprintf(&sb, "%s|%d|%d;", p[len(dir):], info.Size(), info.ModTime().UnixNano())
		return nil
	})
	return sb.String()
}

func c09CopyDir(src, dst string) error {
	return filepath.Walk(src, func(p string, info os.FileInfo, err error) error {
		if err != nil {
			return nil // a file may vanish between listing and copy only if the child runs; it is stopped
		}
		rel, _ := filepath.Rel(src, p)
		target := filepath.Join(dst, rel)
		if info.IsDir() {
			return os.MkdirAll(target, 0o755)
		}
		in, err := os.Open(p)
		if err != nil {
			return nil
		}
		defer in.Close()
		out, err := os.Create(target)
		if err != nil {
			return err
		}
		defer out.Close()
		_, err = io.Copy(out, in)
		return err
	})
}

const c09Inject = "write,pwrite64,writev,rename,renameat,renameat2,unlink,unlinkat,ftruncate,truncate,openat,mkdir,mkdirat"

func TestVerifC09(t *testing.T) {
	r := vk.Start(t, "C09")
	defer r.Finish()
	for _, k := range c09Kinds {
		r.Expect("inflight:" + k)
	}
	r.Expect("image:between-ops", "image:final", "snapshot-in-history")
	scratch := os.Getenv("VERIF_SCRATCH")
	self, _ := os.Executable()

	n := r.N(12, 480)
	nops := 26
	r.Cases("hist", n, func(i int, id string, rng *vk.Rand) {
		seed := rng.Uint64()
		ops, maxOpN := c09GenHistory(vk.NewRand(seed), nops)
		hdir := filepath.Join(scratch, fmt.Sprintf("h%d", i))
		os.RemoveAll(hdir)
		data := filepath.Join(hdir, "data")
		imgs := filepath.Join(hdir, "images")
		os.MkdirAll(data, 0o755)
		os.MkdirAll(imgs, 0o755)
		defer os.RemoveAll(hdir)
		sharedPath := filepath.Join(hdir, "shared.bin")
		shared, err := c09Shared(sharedPath, true)
		if err != nil {
			t.Fatal(err)
		}
		defer syscall.Munmap(shared)
		if r.WantSample() {
			r.Sample(map[string]interface{}{"maxOpN": maxOpN, "ops": ops})
		}

		trace := filepath.Join(hdir, "trace.log")
		cmd := exec.Command("strace", "-f", "-qq", "-o", trace, "-e", "trace="+c09Inject, "-e", "inject="+c09Inject+":signal=SIGSTOP",
			self, "-test.run", "^TestVerifC09Child$", "-test.timeout", "0")
		cmd.Env = append(os.Environ(), "VERIF_C09_DIR="+data, "VERIF_C09_SEED="+strconv.FormatUint(seed, 10),
			"VERIF_C09_NOPS="+strconv.Itoa(nops), "VERIF_C09_SHARED="+sharedPath, "VERIF_OUT=")
		childOut, _ := os.Create(filepath.Join(hdir, "child.out"))
		cmd.Stdout, cmd.Stderr = childOut, childOut
		if err := cmd.Start(); err != nil {
			t.Fatalf("strace: %v", err)
		}
		done := make(chan error, 1)
		go func() { done <- cmd.Wait() }()

		nimg, stops := 0, 0
		lastKey := ""
		takeImage := func(final bool) {
			meta := c09ImageMeta{N: nimg, Phase: int(binary.LittleEndian.Uint64(shared[0:])),
				Begun: int(binary.LittleEndian.Uint64(shared[8:])), Acked: int(binary.LittleEndian.Uint64(shared[16:]))}
			meta.ErrMask = []uint64{binary.LittleEndian.Uint64(shared[24:])}
			if meta.Phase == 0 {
				return // schema not complete yet: nothing acknowledged, restart must still work but there is no state to compare; skip
			}
			key := fmt.Sprintf("%s#%d#%d", c09DirDigest(data), meta.Begun, meta.Acked)
			if key == lastKey && !final {
				return
			}
			lastKey = key
			dst := filepath.Join(imgs, fmt.Sprintf("img-%05d", nimg))
			if err := c09CopyDir(data, dst); err != nil {
				t.Fatalf("copy: %v", err)
			}
			// The image is only meaningful if the child did not move while it was taken. The stop detection has been
			// seen to err on an overloaded machine (a starved thread looks stopped): the begin/ack counters are read
			// again after the copy, and an image during which they moved is thrown away.
			if int(binary.LittleEndian.Uint64(shared[8:])) != meta.Begun || int(binary.LittleEndian.Uint64(shared[16:])) != meta.Acked {
				os.RemoveAll(dst)
				r.Count("images-discarded:child-moved-during-copy", 1)
				lastKey = ""
				return
			}
			b, _ := json.Marshal(meta)
			ioutil.WriteFile(dst+".json", b, 0o644)
			nimg++
		}
		// monitor loop: logical progress only; the outer watchdog is the driver's timeout
		mainPid := 0
		exited := false
		idle := 0
		for !exited {
			select {
			case <-done:
				exited = true
				continue
			default:
			}
			desc := c09Descendants(cmd.Process.Pid)
			if mainPid == 0 && len(desc) > 0 {
				mainPid = desc[0]
			}
			progressed := false
			for _, p := range desc {
				st, ok := c09AllStopped(p)
				if !ok || !st {
					continue
				}
				if p == mainPid {
					// second, independent witness of the group stop: strace has logged it as its last event
					if !c09TraceSaysStopped(trace) {
						continue
					}
					stops++
					takeImage(false)
				}
				syscall.Kill(p, syscall.SIGCONT)
				progressed = true
			}
			if !progressed {
				idle++
				time.Sleep(200 * time.Microsecond)
			}
		}
		childOut.Close()
		takeImage(true)
		r.Count("stops", int64(stops))
		r.Count("images", int64(nimg))
		// syscall kinds seen (from the strace log)
		if tb, err := ioutil.ReadFile(trace); err == nil {
			for _, line := range strings.Split(string(tb), "\n") {
				f := strings.Fields(line)
				if len(f) >= 2 {
					name := f[1]
					if p := strings.Index(name, "("); p > 0 {
						r.Count("syscall:"+name[:p], 1)
					}
				}
			}
		}
		phase := binary.LittleEndian.Uint64(shared[0:])
		if phase != 2 {
			out, _ := ioutil.ReadFile(filepath.Join(hdir, "child.out"))
			r.Fail("child-died", id, fmt.Sprintf("workload child did not finish (phase %d): %s", phase, tailStr(string(out), 1500)), ops)
			return
		}

		// ---- verify every image in a separate process (restartable after a crash of the verifier)
		start := 0
		for start < nimg {
			vcmd := exec.Command(self, "-test.run", "^TestVerifC09Verify$", "-test.timeout", "0")
			progress := filepath.Join(hdir, "verify.progress")
			verdicts := filepath.Join(hdir, fmt.Sprintf("verdicts.%d.jsonl", start))
			vcmd.Env = append(os.Environ(), "VERIF_C09_IMAGES="+imgs, "VERIF_C09_SEED="+strconv.FormatUint(seed, 10), "VERIF_C09_NOPS="+strconv.Itoa(nops),
				"VERIF_C09_START="+strconv.Itoa(start), "VERIF_C09_COUNT="+strconv.Itoa(nimg), "VERIF_C09_PROGRESS="+progress, "VERIF_C09_VERDICTS="+verdicts, "VERIF_OUT=")
			vout, _ := os.Create(filepath.Join(hdir, "verify.out"))
			vcmd.Stdout, vcmd.Stderr = vout, vout
			verr := vcmd.Run()
			vout.Close()
			// collect verdicts
			next := start
			if vb, err := ioutil.ReadFile(verdicts); err == nil {
				for _, line := range strings.Split(string(vb), "\n") {
					if line == "" {
						continue
					}
					var v c09Verdict
					if json.Unmarshal([]byte(line), &v) != nil {
						continue
					}
					next = v.N + 1
					r.Eval(v.Checks)
					inflight := "none"
					if v.Begun > v.Acked && v.Begun-1 < len(ops) {
						inflight = ops[v.Begun-1].Kind
						r.Cover("inflight:" + inflight)
					} else {
						r.Cover("image:between-ops")
					}
					if v.N == nimg-1 {
						r.Cover("image:final")
					}
					if v.Snapshotting {
						r.Cover("snapshot-in-history")
					}
					r.Distinct(vk.Hash64(id, v.N), v.Begun > v.Acked)
					for _, f := range v.Failures {
						r.Fail(f.Sig, id, fmt.Sprintf("image %d (acked %d, in flight %s): %s", v.N, v.Acked, inflight, f.Msg),
							map[string]interface{}{"seed": seed, "nops": nops, "maxOpN": maxOpN, "image": v.N, "acked": v.Acked, "begun": v.Begun, "ops": ops[:minInt(v.Begun, len(ops))]})
					}
				}
			}
			if verr != nil && next < nimg {
				// verifier process died while opening/reading image `next`: restart is blocked or crashes
				pb, _ := ioutil.ReadFile(progress)
				ob, _ := ioutil.ReadFile(filepath.Join(hdir, "verify.out"))
				var meta c09ImageMeta
				mb, _ := ioutil.ReadFile(filepath.Join(imgs, fmt.Sprintf("img-%05d.json", next)))
				json.Unmarshal(mb, &meta)
				inflight := "none"
				if meta.Begun > meta.Acked && meta.Begun-1 < len(ops) {
					inflight = ops[meta.Begun-1].Kind
				}
				r.Fail("restart-crash:inflight="+inflight, id, fmt.Sprintf("verifier died on image %d (progress %q): %s", next, strings.TrimSpace(string(pb)), tailStr(string(ob), 1500)),
					map[string]interface{}{"seed": seed, "nops": nops, "maxOpN": maxOpN, "image": next, "ops": ops[:minInt(meta.Begun, len(ops))]})
				next++
			}
			if next <= start {
				next = start + 1
			}
			start = next
		}
	})
}

func minInt(a, b int) int {
	if a < b {
		return a
	}
	return b
}

func tailStr(s string, n int) string {
	if len(s) > n {
		return s[len(s)-n:]
	}
	return s
}

// ---------------------------------------------------------------- verifier

type c09Fail struct {
	Sig string `json:"sig"`
	Msg string `json:"msg"`
}

type c09Verdict struct {
	N            int       `json:"n"`
	Begun        int       `json:"begun"`
	Acked        int       `json:"acked"`
	Checks       int       `json:"checks"`
	Snapshotting bool      `json:"snapshotting"`
	Failures     []c09Fail `json:"failures"`
}

func c09SortedKeys(m map[uint64]bool) []uint64 {
	out := make([]uint64, 0, len(m))
	for k := range m {
		out = append(out, k)
	}
	sort.Slice(out, func(i, j int) bool { return out[i] < out[j] })
	return out
}

func TestVerifC09Verify(t *testing.T) {
	imgs := os.Getenv("VERIF_C09_IMAGES")
	if imgs == "" {
		t.Skip("not a C09 verifier")
	}
	seed, _ := strconv.ParseUint(os.Getenv("VERIF_C09_SEED"), 10, 64)
	nops, _ := strconv.Atoi(os.Getenv("VERIF_C09_NOPS"))
	start, _ := strconv.Atoi(os.Getenv("VERIF_C09_START"))
	count, _ := strconv.Atoi(os.Getenv("VERIF_C09_COUNT"))
	ops, _ := c09GenHistory(vk.NewRand(seed), nops)
	vf, err := os.Create(os.Getenv("VERIF_C09_VERDICTS"))
	if err != nil {
		t.Fatal(err)
	}
	defer vf.Close()
	ctx := context.Background()
	for n := start; n < count; n++ {
		ioutil.WriteFile(os.Getenv("VERIF_C09_PROGRESS"), []byte(fmt.Sprintf("image %d", n)), 0o644)
		dir := filepath.Join(imgs, fmt.Sprintf("img-%05d", n))
		var meta c09ImageMeta
		mb, _ := ioutil.ReadFile(dir + ".json")
		json.Unmarshal(mb, &meta)
		v := c09Verdict{N: n, Begun: meta.Begun, Acked: meta.Acked}
		fail := func(sig, msg string) { v.Failures = append(v.Failures, c09Fail{sig, msg}) }
		opErr := func(i int) bool { return len(meta.ErrMask) > 0 && i < 64 && meta.ErrMask[0]&(1<<uint(i)) != 0 }
		// leftover snapshot temp files present in this image?
		filepath.Walk(dir, func(p string, info os.FileInfo, err error) error {
			if err == nil && !info.IsDir() && (strings.HasSuffix(p, ".snapshotting") || strings.HasSuffix(p, ".copying") || strings.HasSuffix(p, ".temp")) {
				v.Snapshotting = true
			}
			return nil
		})
		// allowed states
		s0 := c09NewModel()
		for i := 0; i < meta.Acked && i < len(ops); i++ {
			if !opErr(i) {
				s0.apply(ops[i])
			}
		}
		s1 := s0
		inflight := "none"
		if meta.Begun > meta.Acked && meta.Begun-1 < len(ops) {
			s1 = s0.clone()
			s1.apply(ops[meta.Begun-1])
			inflight = ops[meta.Begun-1].Kind
		}
		// restart on the image
		m, err := c09StartServer(dir)
		v.Checks++
		if err != nil {
			fail("restart-fails:inflight="+inflight, fmt.Sprintf("server does not start on the crash image: %v", err))
			b, _ := json.Marshal(v)
			vf.Write(append(b, '\n'))
			os.RemoveAll(dir)
			continue
		}
		query := func(index, pq string) (interface{}, error) {
			resp, err := m.API.Query(ctx, &pilosa.QueryRequest{Index: index, Query: pq})
			if err != nil {
				return nil, err
			}
			return resp.Results[0], nil
		}
		// which acked op last touched a unit -> used in signatures (input-derived)
		lastKind := func(field string) string {
			k := "none"
			for i := 0; i < meta.Acked && i < len(ops); i++ {
				if ops[i].Field == field {
					k = ops[i].Kind
				}
			}
			return k
		}
		// ---- set-like fields, per (field, shard) unit: must equal S0's or S1's unit
		gotByField := map[string]map[uint64]map[uint64]bool{}
		for _, f := range []string{"s", "m", "r"} {
			got := map[uint64]map[uint64]bool{} // row -> cols
			gotByField[f] = got
			bad := false
			for row := uint64(0); row < 4; row++ {
				res, err := query("i", fmt.Sprintf("Row(%s=%d)", f, row))
				v.Checks++
				if err != nil {
					fail("read-error:field="+f, fmt.Sprintf("Row(%s=%d): %v", f, row, err))
					bad = true
					break
				}
				got[row] = map[uint64]bool{}
				for _, c := range res.(*pilosa.Row).Columns() {
					got[row][c] = true
				}
			}
			if bad {
				continue
			}
			for sh := uint64(0); sh < 2; sh++ {
				unit := func(src map[uint64]map[uint64]bool) string {
					var sb strings.Builder
					for row := uint64(0); row < 4; row++ {
						var cs []uint64
						for c := range src[row] {
							if c/c09SW == sh {
								cs = append(cs, c)
							}
						}
						sort.Slice(cs, func(i, j int) bool { return cs[i] < cs[j] })
						if len(cs) > 48 {
							fmt.Fprintf(&sb, "%d:[%d cols %d..%d h=%x] ", row, len(cs), cs[0], cs[len(cs)-1], vk.HashU64s(cs))
						} else {
							fmt.Fprintf(&sb, "%d:%v ", row, cs)
						}
					}
					return sb.String()
				}
				g, a0, a1 := unit(got), unit(s0.Set[f]), unit(s1.Set[f])
				v.Checks++
				if g != a0 && g != a1 {
					kind := "lost-or-altered"
					sig := fmt.Sprintf("%s:field=%s:inflight=%s:last-acked=%s", kind, f, inflight, lastKind(f))
					// input-derived refinement: does the recovered unit differ from the acked state only in
					// columns the in-flight op writes to this field? then it is a partially applied write.
					if meta.Begun > meta.Acked && meta.Begun-1 < len(ops) && ops[meta.Begun-1].Field == f {
						op := ops[meta.Begun-1]
						touched := map[uint64]bool{}
						if len(op.Cols) == 0 {
							touched[op.Col] = true
						}
						if op.Kind == "bigimport" {
							for k := int64(0); k < op.Val; k++ {
								touched[op.Col+uint64(k)] = true
							}
						}
						for _, c := range op.Cols {
							touched[c] = true
						}
						confined := op.Kind != "store" && op.Kind != "clearrow"
						for row := uint64(0); row < 4 && confined; row++ {
							for c := range got[row] {
								if c/c09SW == sh && !s0.Set[f][row][c] && !touched[c] {
									confined = false
								}
							}
							for c := range s0.Set[f][row] {
								if c/c09SW == sh && !got[row][c] && !touched[c] {
									confined = false
								}
							}
						}
						if confined {
							sig = fmt.Sprintf("partial-write:field=%s:inflight=%s", f, inflight)
						}
					}
					fail(sig, fmt.Sprintf("field %s shard %d recovered %s; allowed (acked) %s or (acked+inflight) %s", f, sh, g, a0, a1))
				}
			}
			if f == "m" {
				// at most one row per column
				seen := map[uint64]uint64{}
				for row, cs := range got {
					for c := range cs {
						if r0, dup := seen[c]; dup {
							fail("mutex-two-rows:inflight="+inflight, fmt.Sprintf("mutex column %d holds rows %d and %d", c, r0, row))
						}
						seen[c] = row
					}
				}
			}
		}
		// ---- int field: each column reads S0's or S1's value (per shard unit none-or-all)
		if fld := m.Server.Holder().Field("i", "v"); fld != nil {
			for sh := uint64(0); sh < 2; sh++ {
				match0, match1 := true, true
				detail := ""
				var badCols []uint64
				rawAgrees, rawLegal := 0, 0
				_ = rawAgrees
				cols := map[uint64]bool{}
				for c := range s0.Int {
					cols[c] = true
				}
				for c := range s1.Int {
					cols[c] = true
				}
				for _, c := range c09Cols {
					cols[c] = true
				}
				for _, c := range c09SortedKeys(cols) {
					if c/c09SW != sh {
						continue
					}
					val, exists, err := fld.Value(c)
					v.Checks++
					if err != nil {
						fail("read-error:field=v", fmt.Sprintf("Value(%d): %v", c, err))
						continue
					}
					w0, e0 := s0.Int[c]
					w1, e1 := s1.Int[c]
					if exists != e0 || (exists && val != w0) {
						match0 = false
						badCols = append(badCols, c)
						// what do the stored bits themselves say (read with a fixed generous depth)?
						if raw, rex := pilosa.VerifRawBSI(fld, c, 16); rex == exists && (raw == val || !exists) {
							rawAgrees++
						} else if (rex == e0 && (!rex || raw == w0)) || (rex == e1 && (!rex || raw == w1)) {
							rawLegal++
							detail += fmt.Sprintf("[col %d: stored bits hold (%d,%v), a legal value, but the field reads them as (%d,%v)] ", c, raw, rex, val, exists)
						}
						detail += fmt.Sprintf("col %d reads (%d,%v), acked state has (%d,%v), acked+inflight has (%d,%v); ", c, val, exists, w0, e0, w1, e1)
					}
					if exists != e1 || (exists && val != w1) {
						match1 = false
					}
				}
				if !match0 && !match1 {
					// input-derived signature: is every column that differs from the acked state one the in-flight op writes?
					confined := meta.Begun > meta.Acked && (inflight == "int" || inflight == "importvalue")
					if confined {
						op := ops[meta.Begun-1]
						touched := map[uint64]bool{op.Col: inflight == "int"}
						for _, c := range op.Cols {
							touched[c] = true
						}
						for _, c := range badCols {
							if !touched[c] {
								confined = false
							}
						}
					}
					if rawLegal > 0 {
						// the bits on disk are a legal state but the field misreads them (e.g. stale bit depth / base in the meta file)
						fail("int-misread:inflight="+inflight, fmt.Sprintf("int field shard %d: %s", sh, detail))
					} else if confined {
						fail("partial-int-write:inflight="+inflight, fmt.Sprintf("int field shard %d holds a value never written: %s", sh, detail))
					} else {
						fail(fmt.Sprintf("int-value-lost:inflight=%s:last-acked=%s", inflight, lastKind("v")), fmt.Sprintf("int field shard %d: %s", sh, detail))
					}
				}
			}
		} else {
			fail("field-missing:v", "int field v missing after restart")
		}
		// ---- keyed field: per row key, column keys equal S0's or S1's; translation must resolve
		{
			read := func() (map[string]map[string]bool, error) {
				out := map[string]map[string]bool{}
				for rk := 0; rk < 3; rk++ {
					key := fmt.Sprintf("row-%d", rk)
					if s0.Keyed[key] == nil && s1.Keyed[key] == nil {
						continue // a row key never translated cannot be queried
					}
					res, err := query("ik", fmt.Sprintf("Row(k=%q)", key))
					if err != nil {
						return nil, fmt.Errorf("Row(k=%q): %v", key, err)
					}
					out[key] = map[string]bool{}
					for _, ck := range res.(*pilosa.Row).Keys {
						out[key][ck] = true
					}
				}
				return out, nil
			}
			got, err := read()
			v.Checks++
			if err != nil {
				// a row key that only the in-flight op introduces may legitimately be unknown
				if !(inflight == "keyed" && strings.Contains(err.Error(), "not found")) {
					fail("keyed-read-error:inflight="+inflight, err.Error())
				}
			} else {
				ren := func(m map[string]map[string]bool) string {
					var ks []string
					for rk, cs := range m {
						var c2 []string
						for c := range cs {
							if len(c) > 12 {
								c = c[:12] + "~"
							}
							c2 = append(c2, c)
						}
						sort.Strings(c2)
						if len(c2) > 0 {
							ks = append(ks, rk+"="+strings.Join(c2, ","))
						}
					}
					sort.Strings(ks)
					return strings.Join(ks, " ")
				}
				g, a0, a1 := ren(got), ren(s0.Keyed), ren(s1.Keyed)
				if g != a0 && g != a1 {
					fail(fmt.Sprintf("keyed-lost-or-altered:inflight=%s", inflight), fmt.Sprintf("keyed field recovered {%s}; allowed {%s} or {%s}", g, a0, a1))
				}
			}
		}
		// ---- second generation: the recovered server keeps working. On a state that passed, shrink the
		// set fields (ClearRow), snapshot, write a few more bits, close CLEANLY and reopen: what was
		// acknowledged after the crash must be there too (whatever the crash left lying around).
		if len(v.Failures) == 0 && gotByField["s"] != nil && gotByField["r"] != nil && gotByField["m"] != nil {
			exp := map[string]map[uint64]map[uint64]bool{}
			okGen := true
			run := func(pq string) {
				if _, err := query("i", pq); err != nil && okGen {
					okGen = false
					fail("gen2-write-error:snapshot-temp-leftover="+fmt.Sprint(v.Snapshotting), fmt.Sprintf("after recovery %s: %v", pq, err))
				}
			}
			for _, f := range []string{"s", "r", "m"} {
				exp[f] = map[uint64]map[uint64]bool{}
				// clear every recovered bit in one acknowledged batch per shard (the fragment shrinks to nothing),
				// then snapshot: the first snapshot after the crash is now much smaller than anything left behind
				for sh := uint64(0); sh < 2; sh++ {
					req := &pilosa.ImportRequest{Index: "i", Field: f, Shard: sh}
					for row := uint64(0); row < 4; row++ {
						for c := range gotByField[f][row] {
							if c/c09SW == sh {
								req.RowIDs = append(req.RowIDs, row)
								req.ColumnIDs = append(req.ColumnIDs, c)
							}
						}
					}
					if len(req.RowIDs) == 0 {
						continue
					}
					if err := m.API.Import(ctx, req, pilosa.OptImportOptionsClear(true)); err != nil && okGen {
						okGen = false
						fail("gen2-write-error:snapshot-temp-leftover="+fmt.Sprint(v.Snapshotting), fmt.Sprintf("after recovery Import(clear, field %s shard %d, %d bits): %v", f, sh, len(req.RowIDs), err))
					}
				}
				for row := uint64(0); row < 4; row++ {
					exp[f][row] = map[uint64]bool{}
				}
				if fld := m.Server.Holder().Field("i", f); fld != nil {
					pilosa.VerifSnapshotAll(fld)
				}
				for k := uint64(0); k < 6; k++ {
					row, col := k%3, (k%2)*c09SW+1000+uint64(n%50)+k
					run(fmt.Sprintf("Set(%d, %s=%d)", col, f, row))
					exp[f][row][col] = true
				}
			}
			m.Close()
			v.Checks++
			m2, err := c09StartServer(dir)
			if err != nil {
				fail("gen2-restart-fails:snapshot-temp-leftover="+fmt.Sprint(v.Snapshotting), fmt.Sprintf("second (clean) restart fails: %v", err))
			} else {
				for _, f := range []string{"s", "r", "m"} {
					for row := uint64(0); row < 4 && okGen; row++ {
						resp, err := m2.API.Query(ctx, &pilosa.QueryRequest{Index: "i", Query: fmt.Sprintf("Row(%s=%d)", f, row)})
						v.Checks++
						if err != nil {
							fail("gen2-read-error:field="+f, err.Error())
							okGen = false
							break
						}
						got := resp.Results[0].(*pilosa.Row).Columns()
						var want []uint64
						for c := range exp[f][row] {
							want = append(want, c)
						}
						want = vk.SortedU64(want)
						if !vk.EqualU64(got, want) {
							fail(fmt.Sprintf("gen2-lost-after-clean-restart:field=%s:snapshot-temp-leftover=%v", f, v.Snapshotting),
								fmt.Sprintf("after crash recovery, an acknowledged clear of every bit, a snapshot, 6 acknowledged Sets and a clean restart: Row(%s=%d) = %s, want %s", f, row, vk.Brief(got), vk.Brief(want)))
							okGen = false
						}
					}
				}
				m2.Close()
			}
		} else {
			m.Close()
		}
		b, _ := json.Marshal(v)
		vf.Write(append(b, '\n'))
		os.RemoveAll(dir)
	}
}

// TestVerifC09Print prints the history generated for VERIF_C09_SEED (debugging aid for replay files).
func TestVerifC09Print(t *testing.T) {
	if os.Getenv("VERIF_C09_PRINT") == "" {
		t.Skip("not asked to print")
	}
	seed, _ := strconv.ParseUint(os.Getenv("VERIF_C09_SEED"), 10, 64)
	ops, maxOpN := c09GenHistory(vk.NewRand(seed), 26)
	fmt.Printf("maxOpN=%d\n", maxOpN)
	for i, op := range ops {
		b, _ := json.Marshal(op)
		s := string(b)
		if len(s) > 300 {
			s = s[:300] + "..."
		}
		fmt.Printf("%2d %s\n", i, s)
	}
}
