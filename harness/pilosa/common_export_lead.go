package pilosa

// In-package exports for the black-box (package pilosa_test) harnesses written
// by the lead (C18/C19/C08/C09/C29). Go's export_test.go idiom, via overlay.

import (
	"bytes"
	"fmt"
	"sort"

	vk "github.com/pilosa/pilosa/internal/verifkit"
	"github.com/pilosa/pilosa/roaring"
)

// VerifViewBits reports, for every view of f that has a fragment for the
// column's shard, whether (row, col) is set there.
func VerifViewBits(f *Field, row, col uint64) map[string]bool {
	out := map[string]bool{}
	for _, v := range f.views() {
		frag := v.Fragment(col / ShardWidth)
		if frag == nil {
			continue
		}
		frag.mu.Lock()
		b, _ := frag.bit(row, col)
		frag.mu.Unlock()
		out[v.name] = b
	}
	return out
}

// VerifViewNames lists the names of f's views, sorted.
func VerifViewNames(f *Field) []string {
	var out []string
	for _, v := range f.views() {
		out = append(out, v.name)
	}
	sort.Strings(out)
	return out
}

// VerifFlushCaches runs the holder's periodic cache flush once.
func VerifFlushCaches(h *Holder) { h.flushCaches() }

// VerifSnapshotAll forces a foreground snapshot of every fragment of a field.
func VerifSnapshotAll(f *Field) {
	for _, v := range f.views() {
		for _, frag := range v.allFragments() {
			_ = frag.Snapshot()
		}
	}
}

// ---------------------------------------------------------------- hostile roaring payloads (C06)

// VerifHostileRoaring returns a byte string for the import/stored-data entry
// points: a valid seed (Pilosa format, official format with and without runs,
// optionally followed by op-log entries) damaged by one structural mutation.
// kind names the seed and the mutation (an INPUT-derived class for signatures).
func VerifHostileRoaring(rng *vk.Rand) (data []byte, kind string) {
	u16 := func(b []byte, v uint16) []byte { return append(b, byte(v), byte(v>>8)) }
	u32 := func(b []byte, v uint32) []byte { return append(b, byte(v), byte(v>>8), byte(v>>16), byte(v>>24)) }
	// seed
	var seed []byte
	seedKind := ""
	nconts := 1 + rng.Intn(5)
	switch rng.Intn(4) {
	case 0, 1:
		seedKind = "pilosa"
		bm := roaring.NewBitmap()
		for c := 0; c < nconts; c++ {
			key := uint64(rng.Intn(40))
			switch rng.Intn(3) {
			case 0:
				for i := 0; i < 1+rng.Intn(20); i++ {
					bm.DirectAdd(key<<16 | uint64(rng.Intn(65536)))
				}
			case 1:
				st := uint64(rng.Intn(60000))
				for i := uint64(0); i < uint64(10+rng.Intn(3000)); i++ {
					bm.DirectAdd(key<<16 | (st + i))
				}
			case 2:
				for i := 0; i < 5000; i++ {
					bm.DirectAdd(key<<16 | uint64(rng.Intn(65536)))
				}
			}
		}
		var buf bytes.Buffer
		bm.WriteTo(&buf)
		seed = append([]byte(nil), buf.Bytes()...)
		if rng.Chance(1, 3) {
			// append valid op-log entries (stored-data form)
			seedKind = "pilosa+ops"
			ob := roaring.NewBitmap()
			var ops bytes.Buffer
			ob.OpWriter = &ops
			for i := 0; i < 1+rng.Intn(4); i++ {
				ob.Add(uint64(rng.Intn(1 << 20)))
				ob.AddN(uint64(rng.Intn(1<<20)), uint64(rng.Intn(1<<20)))
			}
			seed = append(seed, ops.Bytes()...)
		}
	case 2:
		seedKind = "official"
		seed = u32(seed, 12346)
		seed = u32(seed, uint32(nconts))
		cards := make([]int, nconts)
		for c := 0; c < nconts; c++ {
			cards[c] = 1 + rng.Intn(30)
			seed = u16(seed, uint16(c*3))
			seed = u16(seed, uint16(cards[c]-1))
		}
		off := len(seed) + 4*nconts
		for c := 0; c < nconts; c++ {
			seed = u32(seed, uint32(off))
			off += 2 * cards[c]
		}
		for c := 0; c < nconts; c++ {
			v := uint16(rng.Intn(1000))
			for i := 0; i < cards[c]; i++ {
				seed = u16(seed, v)
				v += uint16(1 + rng.Intn(50))
			}
		}
	case 3:
		seedKind = "official-run"
		if nconts > 3 {
			nconts = 3
		}
		seed = u32(seed, 12347|uint32(nconts-1)<<16)
		seed = append(seed, byte(1<<uint(nconts)-1))
		for c := 0; c < nconts; c++ {
			seed = u16(seed, uint16(c*2))
			seed = u16(seed, uint16(99))
		}
		for c := 0; c < nconts; c++ {
			seed = u16(seed, 2)
			seed = u16(seed, 10)
			seed = u16(seed, 49)
			seed = u16(seed, 1000)
			seed = u16(seed, 49)
		}
	}
	data = append([]byte(nil), seed...)
	mut := rng.Intn(12)
	names := []string{"valid", "truncate", "truncate-1", "bitflip", "byte-ff", "u32-max", "u32-zero", "count-huge", "offset-bad", "type-swap", "prefix", "random"}
	switch mut {
	case 0:
	case 1:
		data = data[:rng.Intn(len(data)+1)]
	case 2:
		data = data[:len(data)-1]
	case 3:
		for k := 0; k < 1+rng.Intn(3); k++ {
			i := rng.Intn(len(data))
			data[i] ^= 1 << uint(rng.Intn(8))
		}
	case 4:
		i := rng.Intn(len(data))
		data[i] = 0xff
	case 5, 6:
		if len(data) >= 8 {
			i := 4 + rng.Intn(minIntV(len(data)-7, 64))
			v := byte(0xff)
			if mut == 6 {
				v = 0
			}
			for k := 0; k < 4; k++ {
				data[i+k] = v
			}
		}
	case 7:
		// container/key count field
		if len(data) >= 8 {
			data[4], data[5], data[6], data[7] = byte(rng.Intn(256)), byte(rng.Intn(256)), byte(rng.Intn(4)), byte(rng.Intn(2)*0x7f)
		}
	case 8:
		// somewhere in the header area: a 4-byte value pointing before the header / past the end
		if len(data) >= 24 {
			i := 8 + 4*rng.Intn(minIntV((len(data)-8)/4, 12))
			vals := []uint32{0, 1, 7, uint32(len(data)), uint32(len(data) - 1), uint32(len(data) + 1), 0x7fffffff, 0xffffffff}
			v := vals[rng.Intn(len(vals))]
			data[i], data[i+1], data[i+2], data[i+3] = byte(v), byte(v>>8), byte(v>>16), byte(v>>24)
		}
	case 9:
		// pilosa header: type field of a container (bytes 8+12*k+8..9)
		if len(data) >= 20 {
			k := rng.Intn(minIntV((len(data)-8)/12, 5) + 1)
			i := 8 + 12*k + 8
			if i+1 < len(data) {
				data[i] = byte(rng.Intn(6))
				data[i+1] = byte(rng.Intn(2))
			}
		}
	case 10:
		data = data[:minIntV(rng.Intn(33), len(data))]
	case 11:
		n := rng.Intn(64)
		data = make([]byte, n)
		for i := range data {
			data[i] = byte(rng.Uint64())
		}
		if n >= 2 && rng.Bool() {
			data[0], data[1] = 0x3c, 0x30 // pilosa magic 12348
		}
	}
	return data, seedKind + ":" + names[mut]
}

func minIntV(a, b int) int {
	if a < b {
		return a
	}
	return b
}

// VerifRawBSI reads the stored integer of a column straight from the BSI rows
// of the field's fragment, with a generous fixed depth instead of the field's
// recorded bit depth (base value, i.e. without adding bsig.Base back).
func VerifRawBSI(f *Field, col uint64, depth uint) (value int64, exists bool) {
	v := f.view(viewBSIGroupPrefix + f.name)
	if v == nil {
		return 0, false
	}
	frag := v.Fragment(col / ShardWidth)
	if frag == nil {
		return 0, false
	}
	frag.mu.Lock()
	defer frag.mu.Unlock()
	if b, _ := frag.bit(bsiExistsBit, col); !b {
		return 0, false
	}
	for i := uint(0); i < depth; i++ {
		if b, _ := frag.bit(uint64(bsiOffsetBit+i), col); b {
			value |= 1 << i
		}
	}
	if b, _ := frag.bit(bsiSignBit, col); b {
		value = -value
	}
	return value, true
}

// ---------------------------------------------------------------- direct fragment access for the real-cluster legs (C11/C17/C20)

// VerifFragPositions returns the positions (row*ShardWidth + column%ShardWidth)
// held by the fragment of (index, field, view, shard) on this holder; ok is
// false when the fragment does not exist there.
func VerifFragPositions(h *Holder, index, field, view string, shard uint64) (out []uint64, ok bool) {
	frag := h.fragment(index, field, view, shard)
	if frag == nil {
		return nil, false
	}
	frag.forEachBit(func(r, c uint64) error { out = append(out, r*ShardWidth+c%ShardWidth); return nil })
	sort.Slice(out, func(i, j int) bool { return out[i] < out[j] })
	return out, true
}

// VerifFragForce drives the local fragment to exactly the given positions,
// creating view and fragment WITHOUT telling the rest of the cluster (this is
// how a replica diverges: a write the others never saw).
func VerifFragForce(h *Holder, index, field, viewName string, shard uint64, want []uint64) error {
	f := h.Field(index, field)
	if f == nil {
		return ErrFieldNotFound
	}
	v, _, err := f.createViewIfNotExistsBase(viewName)
	if err != nil {
		return err
	}
	frag, err := v.CreateFragmentIfNotExists(shard)
	if err != nil {
		return err
	}
	have, _ := VerifFragPositions(h, index, field, viewName, shard)
	ws := map[uint64]bool{}
	for _, p := range want {
		ws[p] = true
	}
	for _, p := range have {
		if !ws[p] {
			if _, err := frag.clearBit(p/ShardWidth, shard*ShardWidth+p%ShardWidth); err != nil {
				return err
			}
		}
		delete(ws, p)
	}
	for p := range ws {
		if _, err := frag.setBit(p/ShardWidth, shard*ShardWidth+p%ShardWidth); err != nil {
			return err
		}
	}
	frag.InvalidateChecksums()
	return nil
}

// VerifFragBlocks returns "id:checksum" of every block of the local fragment.
func VerifFragBlocks(h *Holder, index, field, view string, shard uint64) []string {
	frag := h.fragment(index, field, view, shard)
	if frag == nil {
		return nil
	}
	var out []string
	for _, b := range frag.Blocks() {
		out = append(out, fmt.Sprintf("%d:%x", b.ID, b.Checksum))
	}
	return out
}

// VerifOwnsShard is the node's own answer to "do I own this shard" (the one
// used by anti-entropy and the holder cleaner).
func VerifOwnsShard(api *API, index string, shard uint64) bool {
	return api.cluster.ownsShard(api.cluster.Node.ID, index, shard)
}

// VerifCleanHolder runs the holder cleaner exactly as the cluster does after
// a resize (same Node / Holder / Cluster wiring).
func VerifCleanHolder(api *API) error {
	c := api.cluster
	cleaner := holderCleaner{Node: c.Node, Holder: c.holder, Cluster: c, Closing: c.closing}
	return cleaner.CleanHolder()
}

// ---------------------------------------------------------------- translate store of a running node (C24 cluster leg)

func VerifTranslateSize(api *API) int64 { return api.holder.translateFile.size() }
func VerifTranslateCols(api *API, index string, keys []string) ([]uint64, error) {
	return api.holder.translateFile.TranslateColumnsToUint64(index, keys)
}
func VerifTranslateRows(api *API, index, field string, keys []string) ([]uint64, error) {
	return api.holder.translateFile.TranslateRowsToUint64(index, field, keys)
}
func VerifTranslateColKey(api *API, index string, id uint64) (string, error) {
	return api.holder.translateFile.TranslateColumnToString(index, id)
}
func VerifTranslateRowKey(api *API, index, field string, id uint64) (string, error) {
	return api.holder.translateFile.TranslateRowToString(index, field, id)
}

// VerifTranslatePrimaryID is the node this node's translate log is streamed from ("" on the primary).
func VerifTranslatePrimaryID(api *API) string {
	tf := api.holder.translateFile
	tf.mu.RLock()
	defer tf.mu.RUnlock()
	return tf.primaryID
}
