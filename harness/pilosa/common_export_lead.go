package pilosa

// In-package exports for the black-box (package pilosa_test) harnesses written
// by the lead (C18/C19/C08/C09/C29). Go's export_test.go idiom, via overlay.

import "sort"

// VerifViewBits reports, for every view of f that has a fragment for the
// column's shard, whether (row, col) is set there.
func VerifViewBits(f *Field, row, col uint64) map[string]bool {
	out := map[string]bool{}
	for _, v := range f.views() {
		frag := v.Fragment(col / ShardWidth)
		if frag == nil {
			continue
		}
		frag.mu.Lock()
		b, _ := frag.bit(row, col)
		frag.mu.Unlock()
		out[v.name] = b
	}
	return out
}

// VerifViewNames lists the names of f's views, sorted.
func VerifViewNames(f *Field) []string {
	var out []string
	for _, v := range f.views() {
		out = append(out, v.name)
	}
	sort.Strings(out)
	return out
}

// VerifFlushCaches runs the holder's periodic cache flush once.
func VerifFlushCaches(h *Holder) { h.flushCaches() }

// VerifSnapshotAll forces a foreground snapshot of every fragment of a field.
func VerifSnapshotAll(f *Field) {
	for _, v := range f.views() {
		for _, frag := range v.allFragments() {
			_ = frag.Snapshot()
		}
	}
}
