package pilosa

// C13 (fragment level) — Mutex and bool fragments hold at most one row per
// column, and it is the row of the last write (inside a batch: of the LAST
// occurrence of the column). Histories of setBit/clearBit/bulkImport (batches
// that repeat a column with conflicting rows against columns holding one of
// those rows, a third row, or nothing), clear-imports, clearRow, snapshots and
// reopen on real file-backed mutex/bool fragments; oracle: model column -> row.

import (
	"testing"

	vk "github.com/pilosa/pilosa/internal/verifkit"
)

var c13Weights = []vfWeight{
	{"setBit", 10}, {"clearBit", 6}, {"bulkImport-set", 14}, {"bulkImport-clear", 5},
	{"clearRow", 2}, {"importRoaring-clear", 2}, {"snapshot", 1}, {"await", 1}, {"reopen", 1},
	{"colRows", 6}, {"row", 3}, {"full", 2},
}

func TestVerifC13(t *testing.T) {
	r := vk.Start(t, "C13")
	defer r.Finish()
	defer vfScratchCleanup()
	chk := vfChecks{Mutex: true}

	r.Expect("kind-op:mutex:setBit", "kind-op:mutex:clearBit", "kind-op:mutex:bulkImport/set", "kind-op:mutex:bulkImport/clear",
		"kind-op:bool:setBit", "kind-op:bool:clearBit", "kind-op:bool:bulkImport/set", "kind-op:bool:bulkImport/clear", "read:colRows", "read:row",
		"batch:no-repeat", "batch:repeat-same-row", "batch:repeat-conflict/column-empty", "batch:repeat-conflict/last-differs-from-stored", "batch:repeat-conflict/last-equals-stored")

	run := func(id string, cfg vfCfg, ops []vfOp) {
		vfCoverHistory(r, cfg, ops)
		is, _ := vfRun(cfg, ops, chk, r)
		conflicts := false
		for _, o := range ops {
			if o.K == "bulkImport" && !o.Clear {
				seen := map[uint64]uint64{}
				for i, c := range o.Cols {
					if prev, ok := seen[c]; ok && prev != o.Rows[i] {
						conflicts = true
					}
					seen[c] = o.Rows[i]
				}
			}
		}
		r.Distinct(vfHashHistory(cfg, ops), conflicts)
		if r.WantSample() && conflicts {
			r.Sample(vfWitness{Cfg: cfg, Shrunk: vfOpsStrings(ops)})
		}
		if is != nil {
			vfReport(r, id, cfg, ops, chk, is)
		}
	}

	// ---- directed matrix: stored row e (none, or one of three rows) x every batch of 2..3 entries over two rows on one column
	r.Directed("batch-matrix", func(id string) {
		for _, kind := range []string{"mutex", "bool"} {
			rows := []uint64{5, 7, 3}
			if kind == "bool" {
				rows = []uint64{0, 1, 1}
			}
			for _, maxOpN := range []int{1, 10000} {
				cfg := vfCfg{Kind: kind, CacheType: CacheTypeRanked, CacheSize: 3, MaxOpN: maxOpN}
				for stored := -1; stored < 3; stored++ {
					for n := 2; n <= 3; n++ {
						for mask := 0; mask < 1<<uint(n); mask++ {
							var ops []vfOp
							if stored >= 0 {
								ops = append(ops, vfOp{K: "setBit", Row: rows[stored], Col: 9})
							}
							b := vfOp{K: "bulkImport", Chk: true}
							for i := 0; i < n; i++ {
								b.Rows = append(b.Rows, rows[(mask>>uint(i))&1])
								b.Cols = append(b.Cols, 9)
							}
							// an unrelated column in the same batch, before and after
							b.Rows = append([]uint64{rows[0]}, append(b.Rows, rows[1])...)
							b.Cols = append([]uint64{1}, append(b.Cols, 2)...)
							ops = append(ops, b, vfOp{K: "colRows", Col: 9}, vfOp{K: "reopen"})
							run(id, cfg, ops)
						}
					}
				}
			}
		}
	})

	n := r.N(6000, 240000)
	r.Cases("hist", n, func(i int, id string, rng *vk.Rand) {
		cfg := vfGenCfg(rng, []string{"mutex", "mutex", "bool"}, []string{CacheTypeRanked, CacheTypeLRU, CacheTypeNone}, 4)
		rows := []uint64{3, 5, 7, 100}
		if cfg.Kind == "bool" {
			rows = []uint64{0, 1}
		}
		g := newVFGen(rng.Fork(), cfg, rows, c13Weights)
		g.Conflicts, g.AlwaysChk = true, true
		run(id, cfg, g.history(4+rng.Intn(37)))
	})
}
