package pilosa

// C05 (fragment leg) — replaying snapshot + op log of a real fragment file
// reproduces the in-memory bitmap, and the decoded operation / bit-change
// counters equal the ones the live bitmap reported before it was closed.

import (
	"bytes"
	"fmt"
	"os"
	"path/filepath"
	"testing"

	vk "github.com/pilosa/pilosa/internal/verifkit"
	"github.com/pilosa/pilosa/roaring"
)

func TestVerifC05Fragment(t *testing.T) {
	r := vk.Start(t, "C05")
	defer r.Finish()
	r.Expect("frag:setBit", "frag:clearBit", "frag:bulkImport", "frag:bulkClear", "frag:importRoaring", "frag:importRoaringClear", "frag:noop-import", "frag:snapshot", "frag:reopen-with-log", "frag:importValue", "frag:importValue-resend", "frag:setValue")
	dir := filepath.Join(os.Getenv("VERIF_SCRATCH"), "c05frag")
	os.MkdirAll(dir, 0o755)
	n := r.N(1500, 60000)
	r.Cases("frag", n, func(i int, id string, rng *vk.Rand) {
		path := filepath.Join(dir, fmt.Sprintf("f-%d", i))
		defer os.Remove(path)
		defer os.Remove(path + ".cache")
		f := newFragment(path, "i", "f", viewStandard, 0, 0)
		f.MaxOpN = []int{3, 8, 30, 100000}[rng.Intn(4)]
		if err := f.Open(); err != nil {
			t.Fatalf("open: %v", err)
		}
		var ops []string
		wit := func() interface{} { return map[string]interface{}{"maxOpN": f.MaxOpN, "ops": ops} }
		cols := []uint64{0, 1, 2, 3, 4095, 4096, 65535, 65536, 65537}
		logged := 0
		var lastCols []uint64
		var lastVals []int64
		for step := 0; step < 4+rng.Intn(25); step++ {
			row := uint64(rng.Intn(3))
			switch k := rng.Intn(14); {
			case k < 3:
				c := cols[rng.Intn(len(cols))]
				ops = append(ops, fmt.Sprintf("setBit(%d,%d)", row, c))
				f.setBit(row, c)
				r.Cover("frag:setBit")
			case k < 5:
				c := cols[rng.Intn(len(cols))]
				ops = append(ops, fmt.Sprintf("clearBit(%d,%d)", row, c))
				f.clearBit(row, c)
				r.Cover("frag:clearBit")
			case k < 8:
				var rs, cs []uint64
				for j := 0; j < 1+rng.Intn(6); j++ {
					rs = append(rs, row)
					cs = append(cs, cols[rng.Intn(len(cols))]) // duplicates and already-set bits included
				}
				clear := rng.Chance(1, 3)
				ops = append(ops, fmt.Sprintf("bulkImport(row %d, cols %v, clear=%v)", row, cs, clear))
				if err := f.bulkImport(rs, cs, &ImportOptions{Clear: clear}); err != nil {
					t.Fatalf("bulkImport: %v", err)
				}
				if clear {
					r.Cover("frag:bulkClear")
				} else {
					r.Cover("frag:bulkImport")
				}
			case k < 10:
				bm := roaring.NewBitmap()
				var cs []uint64
				for j := 0; j < 1+rng.Intn(5); j++ {
					c := cols[rng.Intn(len(cols))]
					cs = append(cs, c)
					bm.DirectAdd(row*ShardWidth + c)
				}
				var buf bytes.Buffer
				bm.WriteTo(&buf)
				clear := rng.Chance(1, 3)
				ops = append(ops, fmt.Sprintf("importRoaring(row %d, cols %v, clear=%v)", row, cs, clear))
				if err := f.importRoaring(nil2ctxC03(), buf.Bytes(), clear); err != nil {
					t.Fatalf("importRoaring: %v", err)
				}
				if clear {
					r.Cover("frag:importRoaringClear")
				} else {
					r.Cover("frag:importRoaring")
				}
				if rng.Chance(1, 3) {
					// the same import again changes nothing
					ops = append(ops, "same importRoaring again (no-op)")
					f.importRoaring(nil2ctxC03(), buf.Bytes(), clear)
					r.Cover("frag:noop-import")
				}
			case k < 11:
				ops = append(ops, "Snapshot()")
				f.Snapshot()
				r.Cover("frag:snapshot")
			default:
				// integer writes on BSI rows of the same fragment: setValue, and importValue on both of its
				// paths (op log / rewrite-and-snapshot, chosen by MaxOpN), incl. re-sending the same batch
				const depth = 6
				if rng.Bool() || len(lastCols) == 0 {
					lastCols, lastVals = nil, nil
					for j := 0; j < 1+rng.Intn(6); j++ {
						lastCols = append(lastCols, cols[rng.Intn(len(cols))])
						lastVals = append(lastVals, int64(rng.Intn(127)-63))
					}
					// one value per column (the last occurrence would win anyway)
					seen := map[uint64]bool{}
					var cc []uint64
					var vv []int64
					for j := len(lastCols) - 1; j >= 0; j-- {
						if !seen[lastCols[j]] {
							seen[lastCols[j]] = true
							cc, vv = append(cc, lastCols[j]), append(vv, lastVals[j])
						}
					}
					lastCols, lastVals = cc, vv
					ops = append(ops, fmt.Sprintf("importValue(cols %v, vals %v)", lastCols, lastVals))
					r.Cover("frag:importValue")
				} else {
					ops = append(ops, fmt.Sprintf("importValue again, same batch (cols %v, vals %v)", lastCols, lastVals))
					r.Cover("frag:importValue-resend")
				}
				if err := f.importValue(append([]uint64(nil), lastCols...), append([]int64(nil), lastVals...), depth, false); err != nil {
					t.Fatalf("importValue: %v", err)
				}
				if rng.Bool() {
					c, v := cols[rng.Intn(len(cols))], int64(rng.Intn(127)-63)
					ops = append(ops, fmt.Sprintf("setValue(%d,%d)", c, v))
					if _, err := f.setValue(c, depth, v); err != nil {
						t.Fatalf("setValue: %v", err)
					}
					r.Cover("frag:setValue")
				}
			}
		}
		f.mu.Lock()
		liveOps, liveOpN := f.storage.Ops()
		live := f.storage.Slice()
		f.mu.Unlock()
		logged = liveOps
		if err := f.Close(); err != nil {
			t.Fatalf("close: %v", err)
		}
		g := newFragment(path, "i", "f", viewStandard, 0, 0)
		if err := g.Open(); err != nil {
			r.Fail("reopen-fails", id, err.Error(), wit())
			return
		}
		defer g.Close()
		g.mu.Lock()
		gotOps, gotOpN := g.storage.Ops()
		got := g.storage.Slice()
		g.mu.Unlock()
		r.Eval(3)
		if logged > 0 {
			r.Cover("frag:reopen-with-log")
		}
		r.Distinct(vk.Hash64("c05f", id), logged > 1)
		if !vk.EqualU64(got, live) {
			r.Fail("frag-replay-differs", id, fmt.Sprintf("file replay differs from the live bitmap: %s", vk.DiffU64(got, live)), wit())
		}
		if gotOps != liveOps || gotOpN != liveOpN {
			r.Fail("frag-counters-differ", id, fmt.Sprintf("decoded (ops,opN)=(%d,%d), live bitmap reported (%d,%d)", gotOps, gotOpN, liveOps, liveOpN), wit())
		}
		if r.WantSample() && logged > 2 {
			r.Sample(wit())
		}
	})
}
