package pilosa_test

// C17 (integrated leg) — query results do not depend on the arrival order of
// shard / node results, on the coordinator, or on the cluster size.
//
// A generated dataset (tied extreme values placed in different shards) is
// loaded into real in-process clusters (1 node, and 2..3 nodes with 1..2
// replicas). A read battery is executed through API.Query while a controller
// blocks the two executor hook points and releases shard results and node
// results in a chosen order (all permutations for <= 4 shards on the single
// node). Min/Max must equal the real per-shard results combined as the
// statement prescribes (extreme value, count totalled over the shards sharing
// it); every other result must equal the ungated single-node reference.

import (
	"context"
	"fmt"
	"regexp"
	"runtime"
	"sort"
	"strconv"
	"strings"
	"sync"
	"testing"
	"time"

	"github.com/pilosa/pilosa"
	vk "github.com/pilosa/pilosa/internal/verifkit"
	"github.com/pilosa/pilosa/server"
	"github.com/pilosa/pilosa/test"
)

// ---------------------------------------------------------------- goroutine dump

type c17G struct {
	state string
	stack string
}

var (
	c17HeadRe  = regexp.MustCompile(`^goroutine (\d+) \[([^\]]*)\]:`)
	c17DumpMu  sync.Mutex
	c17DumpBuf = make([]byte, 1<<18)
)

func c17Goroutines() map[uint64]c17G {
	c17DumpMu.Lock()
	defer c17DumpMu.Unlock()
	var buf []byte
	for {
		n := runtime.Stack(c17DumpBuf, true)
		if n < len(c17DumpBuf) {
			buf = c17DumpBuf[:n]
			break
		}
		c17DumpBuf = make([]byte, 2*len(c17DumpBuf))
	}
	out := map[uint64]c17G{}
	for _, blk := range strings.Split(string(buf), "\n\n") {
		m := c17HeadRe.FindStringSubmatch(blk)
		if m == nil {
			continue
		}
		id, _ := strconv.ParseUint(m[1], 10, 64)
		st := m[2]
		if i := strings.Index(st, ","); i >= 0 {
			st = st[:i]
		}
		out[id] = c17G{state: st, stack: blk}
	}
	return out
}

func c17Goid() uint64 {
	var buf [64]byte
	n := runtime.Stack(buf[:], false)
	f := strings.Fields(string(buf[:n]))
	if len(f) < 2 {
		return 0
	}
	id, _ := strconv.ParseUint(f[1], 10, 64)
	return id
}

// ---------------------------------------------------------------- gate

type c17Waiter struct {
	worker bool
	a, b   uint64
	goid   uint64
	rel    chan struct{}
}

// c17Sched is the arrival order to enforce: groups are the shard sets per
// executing node; nodeOrder the order in which node results reach the
// coordinator; order[g] the order in which shard results arrive on node g.
type c17Sched struct {
	groups    [][]uint64 // shards per group in the order the executor lists them
	remote    []bool
	order     [][]uint64
	nodeOrder []int
}

func (s c17Sched) String() string {
	return fmt.Sprintf("nodes %v shards %v", s.nodeOrder, s.order)
}

type c17Gate struct {
	mu      sync.Mutex
	enabled bool
	arrive  chan *c17Waiter
}

func (g *c17Gate) hook(name string, a, b uint64) uint64 {
	isW := name == "executor.worker.result"
	if !isW && name != "executor.mapper.result" {
		return 0
	}
	g.mu.Lock()
	en := g.enabled
	g.mu.Unlock()
	if !en {
		return 0
	}
	w := &c17Waiter{worker: isW, a: a, b: b, goid: c17Goid(), rel: make(chan struct{})}
	g.arrive <- w
	<-w.rel
	return 0
}

// run enforces the schedule until done is closed. It returns a description of
// the releases performed.
func (g *c17Gate) run(s c17Sched, done <-chan struct{}) (log []string, err error) {
	groupOf := map[uint64]int{}
	for gi, sh := range s.groups {
		for _, x := range sh {
			groupOf[x] = gi
		}
	}
	pos := make([]int, len(s.groups))
	inner := make([]bool, len(s.groups))
	nodePos := 0
	var held []*c17Waiter
	newFrom := map[uint64]bool{} // goids that produced a new waiter since the last ack poll
	releaseAll := func() {
		for _, w := range held {
			close(w.rel)
		}
		held = nil
	}
	ackWorker := func(goid uint64) {
		for i := 0; i < 100000; i++ {
			if newFrom[goid] {
				return
			}
			gs := c17Goroutines()
			st, ok := gs[goid]
			if !ok || (st.state == "chan receive" && !strings.Contains(st.stack, "verifPoint")) {
				return
			}
			// drain arrivals while waiting so that nobody blocks on g.arrive
			select {
			case w := <-g.arrive:
				held = append(held, w)
				newFrom[w.goid] = true
			default:
				runtime.Gosched()
			}
		}
	}
	ackGone := func(goid uint64) {
		for i := 0; i < 100000; i++ {
			if _, ok := c17Goroutines()[goid]; !ok {
				return
			}
			select {
			case w := <-g.arrive:
				held = append(held, w)
				newFrom[w.goid] = true
			default:
				runtime.Gosched()
			}
		}
	}
	progress := func() {
		for again := true; again; {
			again = false
			for i, w := range held {
				gi, ok := groupOf[w.a]
				if !w.worker {
					gi, ok = groupOf[w.b]
				}
				if !ok {
					// not part of the schedule (e.g. another index): let it through
					held = append(held[:i], held[i+1:]...)
					close(w.rel)
					again = true
					break
				}
				if w.worker {
					if pos[gi] < len(s.order[gi]) && s.order[gi][pos[gi]] == w.a {
						held = append(held[:i], held[i+1:]...)
						delete(newFrom, w.goid)
						close(w.rel)
						log = append(log, fmt.Sprintf("shard %d", w.a))
						ackWorker(w.goid)
						pos[gi]++
						again = true
						break
					}
					continue
				}
				// mapper event
				if s.remote[gi] && !inner[gi] {
					inner[gi] = true
					held = append(held[:i], held[i+1:]...)
					close(w.rel)
					again = true
					break
				}
				if s.nodeOrder[nodePos] == gi {
					held = append(held[:i], held[i+1:]...)
					close(w.rel)
					log = append(log, fmt.Sprintf("node-group %d", gi))
					ackGone(w.goid)
					pos[gi] = 0
					inner[gi] = false
					nodePos++
					if nodePos == len(s.nodeOrder) {
						nodePos = 0
					}
					again = true
					break
				}
			}
		}
	}
	watchdog := time.After(60 * time.Second)
	for {
		select {
		case w := <-g.arrive:
			held = append(held, w)
			newFrom[w.goid] = true
			progress()
		case <-done:
			releaseAll()
			return log, nil
		case <-watchdog:
			var hs []string
			for _, w := range held {
				hs = append(hs, fmt.Sprintf("{worker=%v a=%d b=%d}", w.worker, w.a, w.b))
			}
			releaseAll()
			return log, fmt.Errorf("gate watchdog: schedule %v stuck; held %v; released %v", s, hs, log)
		}
	}
}

// ---------------------------------------------------------------- dataset and model

type c17Data struct {
	Shards []uint64            `json:"shards"`
	F      map[uint64][]uint64 `json:"f"` // row -> columns
	G      map[uint64][]uint64 `json:"g"`
	V      map[uint64]int64    `json:"v"` // column -> value
}

func c17GenData(rng *vk.Rand) *c17Data {
	n := 2 + rng.Intn(3)
	if rng.Chance(1, 6) {
		n = 5 + rng.Intn(2)
	}
	d := &c17Data{F: map[uint64][]uint64{}, G: map[uint64][]uint64{}, V: map[uint64]int64{}}
	next := uint64(0)
	for len(d.Shards) < n {
		d.Shards = append(d.Shards, next)
		next += 1 + uint64(rng.Intn(5)/4) // occasionally leave a gap
	}
	col := func(sh uint64) uint64 { return sh*pilosa.ShardWidth + uint64(rng.Intn(40)) }
	// set fields: rows 0..4, each present in a random non-empty subset of shards
	// f uses rows 1..5: with a row 0 present, MaxRow(<filter>, field=f) on a shard where the filter
	// met no row used to spin forever (fragment.maxRow counted a uint64 down past 0; C16's subject,
	// repaired by 04fd772) — rows stay >= 1 so that this check does not depend on that repair
	for mi, m := range []map[uint64][]uint64{d.F, d.G} {
		for row := uint64(1 - mi); row < uint64(6-mi); row++ {
			if rng.Chance(1, 6) {
				continue
			}
			for _, sh := range d.Shards {
				if rng.Chance(2, 3) {
					for k := 1 + rng.Intn(4); k > 0; k-- {
						m[row] = append(m[row], col(sh))
					}
				}
			}
			m[row] = vk.SortedU64(m[row])
		}
	}
	// the filter row g=0 meets the lowest and the highest row of f in two shards, with different
	// multiplicities, so that MinRow/MaxRow with a filter see the same extreme row in several shards
	if rng.Chance(3, 4) {
		for _, row := range []uint64{1, 5} {
			p := rng.Perm(n)
			for k, si := range p[:2] {
				for m := 0; m <= k+rng.Intn(2); m++ {
					c := d.Shards[si]*pilosa.ShardWidth + 200 + uint64(rng.Intn(30))
					d.F[row] = append(d.F[row], c)
					d.G[0] = append(d.G[0], c)
				}
			}
			d.F[row] = vk.SortedU64(d.F[row])
		}
		d.G[0] = vk.SortedU64(d.G[0])
	}
	// int field: extreme values tied across shards with different multiplicities
	lo, hi := int64(-50+rng.Intn(40)), int64(20+rng.Intn(40))
	if rng.Chance(1, 5) {
		lo, hi = int64(-90), int64(-10-rng.Intn(5)) // all negative
	}
	put := func(sh uint64, v int64, k int) {
		for ; k > 0; k-- {
			for try := 0; try < 50; try++ {
				c := sh*pilosa.ShardWidth + 100 + uint64(rng.Intn(60))
				if _, used := d.V[c]; !used {
					d.V[c] = v
					break
				}
			}
		}
	}
	p := rng.Perm(n)
	put(d.Shards[p[0]], lo, 1+rng.Intn(2))
	put(d.Shards[p[1]], lo, 2+rng.Intn(3))
	q := rng.Perm(n)
	put(d.Shards[q[0]], hi, 1+rng.Intn(3))
	put(d.Shards[q[1]], hi, 1+rng.Intn(2))
	for _, sh := range d.Shards {
		if hi-lo > 2 {
			for k := rng.Intn(4); k > 0; k-- {
				put(sh, lo+1+int64(rng.Intn(int(hi-lo-1))), 1)
			}
		}
	}
	// make some f rows overlap the value columns so that filtered aggregates are non-empty
	for c := range d.V {
		if rng.Chance(1, 2) {
			d.F[1] = append(d.F[1], c)
		}
	}
	d.F[1] = vk.SortedU64(d.F[1])
	return d
}

func (d *c17Data) load(t testing.TB, c test.Cluster) {
	ctx := context.Background()
	if _, err := c[0].API.CreateIndex(ctx, "i", pilosa.IndexOptions{}); err != nil {
		t.Fatalf("create index: %v", err)
	}
	for _, f := range []string{"f", "g"} {
		if _, err := c[0].API.CreateField(ctx, "i", f, pilosa.OptFieldTypeSet(pilosa.CacheTypeRanked, 1000)); err != nil {
			t.Fatalf("create field: %v", err)
		}
	}
	if _, err := c[0].API.CreateField(ctx, "i", "v", pilosa.OptFieldTypeInt(-1000, 1000)); err != nil {
		t.Fatalf("create field: %v", err)
	}
	var calls []string
	for name, m := range map[string]map[uint64][]uint64{"f": d.F, "g": d.G} {
		for row, cols := range m {
			for _, cc := range cols {
				calls = append(calls, fmt.Sprintf("Set(%d, %s=%d)", cc, name, row))
			}
		}
	}
	for cc, v := range d.V {
		calls = append(calls, fmt.Sprintf("Set(%d, v=%d)", cc, v))
	}
	sort.Strings(calls)
	for len(calls) > 0 {
		k := len(calls)
		if k > 400 {
			k = 400
		}
		if _, err := c[0].API.Query(ctx, &pilosa.QueryRequest{Index: "i", Query: strings.Join(calls[:k], " ")}); err != nil {
			t.Fatalf("loading data: %v", err)
		}
		calls = calls[k:]
	}
	for _, cmd := range c {
		if err := cmd.API.RecalculateCaches(ctx); err != nil {
			t.Fatalf("recalculate: %v", err)
		}
	}
}

type c17Query struct {
	kind string
	pql  string
	agg  string // "min" | "max": expected value folded from the real per-shard results (count totalled over tied shards); "minrow" | "maxrow": tie class only
}

// c17FoldShards combines the REAL per-shard results of an aggregate (obtained
// with QueryRequest.Shards = [s]) the way the statement prescribes: Sum adds;
// Min/Max take the extreme value and the total count over the shards that
// share it. Only the reduce step is modelled, so per-shard defects of the
// integer field code (another property) cannot leak into this oracle.
func c17FoldShards(op string, parts []pilosa.ValCount) (want string, tie string) {
	var acc pilosa.ValCount
	ties := 0
	for _, p := range parts {
		if p.Count == 0 {
			continue
		}
		switch op {
		case "sum":
			acc.Val += p.Val
			acc.Count += p.Count
		default:
			better := acc.Count == 0 || (op == "min" && p.Val < acc.Val) || (op == "max" && p.Val > acc.Val)
			if better {
				acc, ties = p, 1
			} else if p.Val == acc.Val {
				acc.Count += p.Count
				ties++
			}
		}
	}
	if acc.Count == 0 {
		acc = pilosa.ValCount{}
	}
	if op != "sum" {
		tie = "extreme-in-one-shard"
		if ties > 1 {
			tie = "extreme-tied-across-shards"
		}
	}
	return c17Canon(acc), tie
}

func c17RowTieShards(op string, parts []pilosa.Pair) string {
	var best pilosa.Pair
	ties := 0
	for _, p := range parts {
		if p.Count == 0 {
			continue
		}
		better := best.Count == 0 || (op == "minrow" && p.ID < best.ID) || (op == "maxrow" && p.ID > best.ID)
		if better {
			best, ties = p, 1
		} else if p.ID == best.ID {
			ties++
		}
	}
	if ties > 1 {
		return "extreme-row-in-several-shards"
	}
	return "extreme-row-in-one-shard"
}

func c17Battery() []c17Query {
	return []c17Query{
		{kind: "Row", pql: "Row(f=1)"},
		{kind: "Count", pql: "Count(Row(f=1))"},
		{kind: "Union", pql: "Union(Row(f=1), Row(g=0), Row(f=3))"},
		{kind: "Intersect", pql: "Intersect(Row(f=1), Row(g=0))"},
		{kind: "Difference", pql: "Difference(Row(f=1), Row(g=0))"},
		{kind: "Xor", pql: "Xor(Row(f=1), Row(g=2))"},
		{kind: "CountUnion", pql: "Count(Union(Row(f=0), Row(f=1), Row(g=1)))"},
		{kind: "Sum", pql: "Sum(field=v)"},
		{kind: "Min", pql: "Min(field=v)", agg: "min"},
		{kind: "Max", pql: "Max(field=v)", agg: "max"},
		{kind: "SumFiltered", pql: "Sum(Row(f=1), field=v)"},
		{kind: "MinFiltered", pql: "Min(Row(f=1), field=v)", agg: "min"},
		{kind: "MaxFiltered", pql: "Max(Row(f=1), field=v)", agg: "max"},
		{kind: "RangeRow", pql: "Row(v > 0)"},
		{kind: "RangeCount", pql: "Count(Row(v < 5))"},
		{kind: "TopN", pql: "TopN(f)"},
		{kind: "TopN-n", pql: "TopN(f, n=2)"},
		{kind: "TopN-filter", pql: "TopN(f, Row(g=0), n=3)"},
		{kind: "Rows", pql: "Rows(field=f)"},
		{kind: "Rows-limit", pql: "Rows(field=f, limit=2)"},
		{kind: "GroupBy", pql: "GroupBy(Rows(field=f), Rows(field=g))"},
		{kind: "GroupBy-limit", pql: "GroupBy(Rows(field=f), Rows(field=g), limit=3)"},
		{kind: "MinRow", pql: "MinRow(field=f)", agg: "minrow"},
		{kind: "MaxRow", pql: "MaxRow(field=f)", agg: "maxrow"},
		{kind: "MinRowFiltered", pql: "MinRow(Row(g=0), field=f)", agg: "minrow"},
		{kind: "MaxRowFiltered", pql: "MaxRow(Row(g=0), field=f)", agg: "maxrow"},
	}
}

func c17Canon(res interface{}) string {
	switch v := res.(type) {
	case *pilosa.Row:
		return "row " + fmt.Sprint(vk.SortedU64(v.Columns()))
	case uint64:
		return fmt.Sprintf("uint %d", v)
	case pilosa.ValCount:
		return fmt.Sprintf("valcount %d/%d", v.Val, v.Count)
	case []pilosa.Pair:
		// order among equal counts is unspecified: count multiset + ids above the smallest count
		var counts []uint64
		min := ^uint64(0)
		for _, p := range v {
			counts = append(counts, p.Count)
			if p.Count < min {
				min = p.Count
			}
		}
		sort.Slice(counts, func(i, j int) bool { return counts[i] > counts[j] })
		var ids []string
		for _, p := range v {
			if p.Count > min {
				ids = append(ids, fmt.Sprintf("%d:%d", p.ID, p.Count))
			}
		}
		sort.Strings(ids)
		return fmt.Sprintf("pairs counts=%v above-min=%v", counts, ids)
	case pilosa.Pair:
		return fmt.Sprintf("pair %d:%d", v.ID, v.Count)
	case pilosa.RowIdentifiers:
		return fmt.Sprintf("rows %v", v.Rows)
	case []pilosa.GroupCount:
		s := "groups"
		for _, g := range v {
			s += " ["
			for _, fr := range g.Group {
				s += fmt.Sprintf("%s=%d ", fr.Field, fr.RowID)
			}
			s += fmt.Sprintf("]=%d", g.Count)
		}
		return s
	case bool:
		return fmt.Sprintf("bool %v", v)
	case nil:
		return "nil"
	}
	return fmt.Sprintf("%T %v", res, res)
}

// ---------------------------------------------------------------- driver

type c17Case struct {
	Data        *c17Data `json:"data"`
	Nodes       int      `json:"nodes"`
	Replicas    int      `json:"replicas"`
	Coordinator int      `json:"coordinator"`
	Schedule    string   `json:"schedule"`
	Query       string   `json:"query"`
	Got         string   `json:"got"`
	Want        string   `json:"want"`
	Releases    []string `json:"releases"`
}

func c17RunCluster(t testing.TB, n, replicas int) test.Cluster {
	opts := []server.CommandOption{server.OptCommandServerOptions(pilosa.OptServerExecutorPoolSize(16), pilosa.OptServerReplicaN(replicas))}
	return test.MustRunCluster(t, n, opts)
}

// c17Groups computes the shard groups the coordinator will form (shards of the
// primary owner, in shard order) and which of them are remote.
func c17Groups(t testing.TB, c test.Cluster, coord int, shards []uint64) (groups [][]uint64, remote []bool) {
	byNode := map[string][]uint64{}
	var order []string
	for _, sh := range shards {
		nodes, err := c[coord].API.ShardNodes(context.Background(), "i", sh)
		if err != nil || len(nodes) == 0 {
			t.Fatalf("ShardNodes: %v", err)
		}
		id := nodes[0].ID
		if _, ok := byNode[id]; !ok {
			order = append(order, id)
		}
		byNode[id] = append(byNode[id], sh)
	}
	self := c[coord].API.Node().ID
	for _, id := range order {
		groups = append(groups, byNode[id])
		remote = append(remote, id != self)
	}
	return
}

func c17AllScheds(groups [][]uint64, remote []bool, max int, rng *vk.Rand) []c17Sched {
	var perGroup [][][]uint64
	total := 1
	for _, g := range groups {
		var ps [][]uint64
		c17PermU64(g, func(p []uint64) { ps = append(ps, append([]uint64(nil), p...)) })
		perGroup = append(perGroup, ps)
		total *= len(ps)
	}
	var nodePerms [][]int
	idx := make([]uint64, len(groups))
	for i := range idx {
		idx[i] = uint64(i)
	}
	c17PermU64(idx, func(p []uint64) {
		q := make([]int, len(p))
		for i, x := range p {
			q[i] = int(x)
		}
		nodePerms = append(nodePerms, q)
	})
	total *= len(nodePerms)
	mk := func(code int) c17Sched {
		s := c17Sched{groups: groups, remote: remote}
		s.nodeOrder = nodePerms[code%len(nodePerms)]
		code /= len(nodePerms)
		for gi := range groups {
			s.order = append(s.order, perGroup[gi][code%len(perGroup[gi])])
			code /= len(perGroup[gi])
		}
		return s
	}
	var out []c17Sched
	if total <= max {
		for code := 0; code < total; code++ {
			out = append(out, mk(code))
		}
		return out
	}
	for k := 0; k < max; k++ {
		out = append(out, mk(rng.Intn(total)))
	}
	return out
}

func c17PermU64(xs []uint64, fn func([]uint64)) {
	p := append([]uint64(nil), xs...)
	var rec func(k int)
	rec = func(k int) {
		if k <= 1 {
			fn(p)
			return
		}
		for i := 0; i < k-1; i++ {
			rec(k - 1)
			if k%2 == 0 {
				p[i], p[k-1] = p[k-1], p[i]
			} else {
				p[0], p[k-1] = p[k-1], p[0]
			}
		}
		rec(k - 1)
	}
	rec(len(p))
}

func TestVerifC17Arrival(t *testing.T) {
	r := vk.Start(t, "C17")
	defer r.Finish()
	gate := &c17Gate{arrive: make(chan *c17Waiter, 256)}
	pilosa.SetVerifHook(gate.hook)
	defer pilosa.SetVerifHook(nil)

	battery := c17Battery()
	for _, q := range battery {
		r.Expect("query:" + q.kind)
	}
	r.Expect("all-permutations:single-node", "nodes:1", "nodes:2", "nodes:3", "coordinator:non-first", "replicas:2",
		"tie:Min:extreme-tied-across-shards", "tie:Max:extreme-tied-across-shards", "tie:MinRowFiltered:extreme-row-in-several-shards")

	n := r.N(16, 640)
	r.Cases("data", n, func(ci int, id string, rng *vk.Rand) {
		d := c17GenData(rng)
		if r.WantSample() {
			r.Sample(d)
		}
		ref := map[string]string{}   // expected canonical value per query kind
		tieOf := map[string]string{} // tie class per query kind (from the real per-shard results)
		unsupported := map[string]bool{}
		ctx := context.Background()

		query := func(c test.Cluster, coord int, q c17Query, s *c17Sched) (string, []string, error) {
			if s == nil {
				qctx, cancel := context.WithTimeout(ctx, 90*time.Second)
				defer cancel()
				resp, err := c[coord].API.Query(qctx, &pilosa.QueryRequest{Index: "i", Query: q.pql})
				if qctx.Err() != nil {
					t.Fatalf("harness watchdog: ungated query %s did not return (case %s)", q.pql, id)
				}
				if err != nil {
					return "", nil, err
				}
				return c17Canon(resp.Results[0]), nil, nil
			}
			done := make(chan struct{})
			var resp pilosa.QueryResponse
			var qerr error
			gate.mu.Lock()
			gate.enabled = true
			gate.mu.Unlock()
			go func() {
				resp, qerr = c[coord].API.Query(ctx, &pilosa.QueryRequest{Index: "i", Query: q.pql})
				gate.mu.Lock()
				gate.enabled = false
				gate.mu.Unlock()
				close(done)
			}()
			log, gerr := gate.run(*s, done)
			<-done
			if gerr != nil {
				t.Fatalf("harness: %v (case %s query %s)", gerr, id, q.pql)
			}
			if qerr != nil {
				return "", log, qerr
			}
			return c17Canon(resp.Results[0]), log, nil
		}

		check := func(c test.Cluster, nodes, replicas, coord int, q c17Query, s *c17Sched, variation string) {
			want, tie := ref[q.kind], tieOf[q.kind]
			got, log, err := query(c, coord, q, s)
			r.Eval(1)
			r.Cover("query:" + q.kind)
			if tie != "" {
				r.Cover("tie:" + q.kind + ":" + tie)
			}
			sched := "ungated"
			if s != nil {
				sched = s.String()
			}
			r.Distinct(vk.Hash64(id, nodes, replicas, coord, sched, q.kind), len(d.Shards) >= 2)
			if err != nil {
				got = "error: " + err.Error()
			}
			if got != want {
				sig := q.kind
				if tie != "" {
					sig += ":" + tie
				}
				r.Fail(sig+":"+variation, id, fmt.Sprintf("%s on %d node(s), replicas %d, coordinator %d, arrival %s: got %q want %q", q.pql, nodes, replicas, coord, sched, got, want),
					c17Case{Data: d, Nodes: nodes, Replicas: replicas, Coordinator: coord, Schedule: sched, Query: q.pql, Got: got, Want: want, Releases: log})
			}
		}

		// ---- single node: reference, then every arrival permutation
		func() {
			c := c17RunCluster(t, 1, 1)
			defer c.Close()
			d.load(t, c)
			r.Cover("nodes:1")
			for _, q := range battery {
				got, _, err := query(c, 0, q, nil)
				if err != nil {
					unsupported[q.kind] = true
					r.Count("query-error-in-reference:"+q.kind, 1)
					continue
				}
				ref[q.kind] = got
				if q.kind == "SumFiltered" {
					// input class: some negative value lies outside the filter row
					in := map[uint64]bool{}
					for _, cc := range d.F[1] {
						in[cc] = true
					}
					tieOf[q.kind] = "no-negative-value-outside-filter"
					for cc, v := range d.V {
						if v < 0 && !in[cc] {
							tieOf[q.kind] = "negative-values-outside-filter"
						}
					}
				}
				if q.agg == "" {
					continue
				}
				// real per-shard results
				var vcs []pilosa.ValCount
				var prs []pilosa.Pair
				for _, sh := range d.Shards {
					resp, err := c[0].API.Query(ctx, &pilosa.QueryRequest{Index: "i", Query: q.pql, Shards: []uint64{sh}})
					if err != nil {
						t.Fatalf("per-shard query %s: %v", q.pql, err)
					}
					switch v := resp.Results[0].(type) {
					case pilosa.ValCount:
						vcs = append(vcs, v)
					case pilosa.Pair:
						prs = append(prs, v)
					}
				}
				if q.agg == "minrow" || q.agg == "maxrow" {
					tieOf[q.kind] = c17RowTieShards(q.agg, prs)
					continue
				}
				want, tie := c17FoldShards(q.agg, vcs)
				ref[q.kind], tieOf[q.kind] = want, tie
				r.Eval(1)
				if got != want {
					sig := q.kind
					if tie != "" {
						sig += ":" + tie
					}
					r.Fail(sig+":ungated", id, fmt.Sprintf("%s on a single node (ungated): got %q; the per-shard results %v combine to %q", q.pql, got, vcs, want),
						c17Case{Data: d, Nodes: 1, Replicas: 1, Query: q.pql, Got: got, Want: want, Schedule: "ungated"})
				}
			}
			groups, remote := c17Groups(t, c, 0, d.Shards)
			scheds := c17AllScheds(groups, remote, 24, rng)
			if len(d.Shards) <= 4 {
				r.Cover("all-permutations:single-node")
			}
			for _, s := range scheds {
				s := s
				for _, q := range battery {
					if !unsupported[q.kind] {
						check(c, 1, 1, 0, q, &s, "arrival")
					}
				}
			}
		}()

		// ---- 2..3 nodes: every coordinator, sampled schedules
		func() {
			nodes := 2 + rng.Intn(2)
			replicas := 1 + rng.Intn(2)
			c := c17RunCluster(t, nodes, replicas)
			defer c.Close()
			d.load(t, c)
			r.Cover(fmt.Sprintf("nodes:%d", nodes))
			r.Cover(fmt.Sprintf("replicas:%d", replicas))
			for coord := 0; coord < nodes; coord++ {
				if coord > 0 {
					r.Cover("coordinator:non-first")
				}
				groups, remote := c17Groups(t, c, coord, d.Shards)
				scheds := c17AllScheds(groups, remote, 3, rng)
				for _, q := range battery {
					if unsupported[q.kind] {
						continue
					}
					if q.kind == "TopN-n" || q.kind == "TopN-filter" {
						// which rows a shard nominates among equal per-shard counts is unspecified, so an
						// n-limited TopN may legitimately pick other candidates on another cluster
						r.Count("placement-comparison-skipped:"+q.kind, 1)
						continue
					}
					check(c, nodes, replicas, coord, q, nil, "placement")
					for _, s := range scheds {
						s := s
						check(c, nodes, replicas, coord, q, &s, "placement")
					}
				}
			}
		}()
	})
}
