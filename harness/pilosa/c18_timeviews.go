package pilosa

// C18 — Time-range queries read exactly the views covering the range.
// In-package leg: the real viewsByTimeRange / timeOfView / minMaxViews are run
// over a grid of (quantum, aligned range) and every returned view name is
// parsed BY THE HARNESS (4/6/8/10 digits -> interval); the intervals must be
// disjoint and cover exactly [start,end).

import (
	"fmt"
	"sort"
	"strconv"
	"testing"
	"time"

	vk "github.com/pilosa/pilosa/internal/verifkit"
)

var c18Quanta = []TimeQuantum{"Y", "YM", "YMD", "YMDH", "M", "MD", "MDH", "D", "DH", "H"}

func c18Finest(q TimeQuantum) rune {
	switch {
	case q.HasHour():
		return 'H'
	case q.HasDay():
		return 'D'
	case q.HasMonth():
		return 'M'
	}
	return 'Y'
}

func c18Add(t time.Time, unit rune, n int) time.Time {
	switch unit {
	case 'H':
		return t.Add(time.Duration(n) * time.Hour)
	case 'D':
		return t.AddDate(0, 0, n)
	case 'M':
		return t.AddDate(0, n, 0) // t is always the 1st of a month here
	}
	return t.AddDate(n, 0, 0)
}

// c18Interval parses the time part of a view name on its own.
func c18Interval(view, base string) (lo, hi time.Time, unit rune, err error) {
	if len(view) <= len(base)+1 || view[:len(base)+1] != base+"_" {
		return lo, hi, 0, fmt.Errorf("view %q does not start with %q_", view, base)
	}
	p := view[len(base)+1:]
	num := func(s string) int { n, e := strconv.Atoi(s); if e != nil { err = e }; return n }
	switch len(p) {
	case 4:
		lo = time.Date(num(p[0:4]), 1, 1, 0, 0, 0, 0, time.UTC)
		hi = lo.AddDate(1, 0, 0)
		unit = 'Y'
	case 6:
		lo = time.Date(num(p[0:4]), time.Month(num(p[4:6])), 1, 0, 0, 0, 0, time.UTC)
		hi = lo.AddDate(0, 1, 0)
		unit = 'M'
	case 8:
		lo = time.Date(num(p[0:4]), time.Month(num(p[4:6])), num(p[6:8]), 0, 0, 0, 0, time.UTC)
		hi = lo.AddDate(0, 0, 1)
		unit = 'D'
	case 10:
		lo = time.Date(num(p[0:4]), time.Month(num(p[4:6])), num(p[6:8]), num(p[8:10]), 0, 0, 0, time.UTC)
		hi = lo.Add(time.Hour)
		unit = 'H'
	default:
		err = fmt.Errorf("view %q: unexpected time part %q", view, p)
	}
	return
}

type c18Case struct {
	Quantum string `json:"quantum"`
	Start   string `json:"start"`
	End     string `json:"end"`
}

// c18CheckRange runs one (quantum, range) through the real function.
func c18CheckRange(r *vk.Run, id string, q TimeQuantum, start, end time.Time) {
	r.Eval(1)
	cs := c18Case{string(q), start.Format("2006-01-02T15:04"), end.Format("2006-01-02T15:04")}
	views := viewsByTimeRange("standard", start, end, q)
	type iv struct {
		lo, hi time.Time
		name   string
	}
	ivs := make([]iv, 0, len(views))
	coarse := false
	finest := c18Finest(q)
	for _, v := range views {
		lo, hi, unit, err := c18Interval(v, "standard")
		if err != nil {
			r.Fail("range:"+string(q)+":badview", id, err.Error(), cs)
			return
		}
		if unit != finest {
			coarse = true
		}
		if !containsRune(string(q), unit) {
			r.Fail("range:"+string(q)+":unit-not-in-quantum", id, fmt.Sprintf("view %s uses unit %c not in quantum %s", v, unit, q), cs)
			return
		}
		ivs = append(ivs, iv{lo, hi, v})
	}
	sort.Slice(ivs, func(i, j int) bool { return ivs[i].lo.Before(ivs[j].lo) })
	cur := start
	for _, x := range ivs {
		if !x.lo.Equal(cur) {
			what := "gap"
			if x.lo.Before(cur) {
				what = "overlap-or-before-start"
			}
			r.Fail("range:"+string(q)+":"+what, id, fmt.Sprintf("%s: view %s covers [%s,%s) but coverage so far ends at %s; views=%v",
				what, x.name, x.lo.Format("2006-01-02T15"), x.hi.Format("2006-01-02T15"), cur.Format("2006-01-02T15"), brief(views)), cs)
			return
		}
		cur = x.hi
	}
	if !cur.Equal(end) {
		what := "short"
		if cur.After(end) {
			what = "exceeds-end"
		}
		r.Fail("range:"+string(q)+":"+what, id, fmt.Sprintf("%s: coverage ends at %s, range ends at %s; views=%v", what, cur.Format("2006-01-02T15"), end.Format("2006-01-02T15"), brief(views)), cs)
		return
	}
	r.Cover("quantum:" + string(q))
	if coarse {
		r.Cover("coarse:" + string(q))
	}
	r.Distinct(vk.Hash64(string(q), start.Unix(), end.Unix()), coarse)
	if coarse && r.WantSample() {
		r.Sample(map[string]interface{}{"case": cs, "views": brief(views)})
	}
}

func containsRune(s string, c rune) bool {
	for _, x := range s {
		if x == c {
			return true
		}
	}
	return false
}

func brief(v []string) []string {
	if len(v) <= 14 {
		return v
	}
	out := append([]string{}, v[:6]...)
	out = append(out, fmt.Sprintf("...(%d more)...", len(v)-12))
	return append(out, v[len(v)-6:]...)
}

func TestVerifC18(t *testing.T) {
	r := vk.Start(t, "C18")
	defer r.Finish()
	for _, q := range c18Quanta {
		r.Expect("quantum:" + string(q))
		if len(q) > 1 {
			r.Expect("coarse:" + string(q))
		}
	}
	r.Expect("name:year", "name:month", "name:day", "name:hour", "minmax")

	// ---- every view name maps back to the interval it denotes (all years/months/days/24 hours of the window)
	r.Directed("view-name-roundtrip", func(id string) {
		lo := time.Date(2015, 1, 1, 0, 0, 0, 0, time.UTC)
		hi := time.Date(2017, 12, 31, 23, 0, 0, 0, time.UTC)
		for tm := lo; !tm.After(hi); tm = tm.Add(time.Hour) {
			units := []rune{'H'}
			if tm.Hour() == 0 {
				units = append(units, 'D')
				if tm.Day() == 1 {
					units = append(units, 'M')
					if tm.Month() == 1 {
						units = append(units, 'Y')
					}
				}
			}
			for _, u := range units {
				name := viewByTimeUnit("standard", tm, u)
				wlo, whi, unit, err := c18Interval(name, "standard")
				cls := map[rune]string{'Y': "year", 'M': "month", 'D': "day", 'H': "hour"}[u]
				r.Eval(2)
				r.Cover("name:" + cls)
				r.Distinct(vk.Hash64("name", name), true)
				if err != nil || unit != u || !wlo.Equal(tm) {
					r.Fail("viewname:"+cls, id, fmt.Sprintf("viewByTimeUnit(%s,%c)=%q parses to %v..%v (%v)", tm, u, name, wlo, whi, err), name)
					continue
				}
				sigHour := ""
				if u == 'H' {
					if tm.Hour() >= 13 {
						sigHour = ":hour13-23"
					} else if tm.Hour() == 0 {
						sigHour = ":hour0"
					} else if tm.Hour() == 12 {
						sigHour = ":hour12"
					}
				}
				got, err := timeOfView(name, false)
				if err != nil || !got.Equal(wlo) {
					r.Fail("timeOfView:"+cls+sigHour, id, fmt.Sprintf("timeOfView(%q,false)=%v,%v want %v", name, got, err, wlo), name)
				}
				got, err = timeOfView(name, true)
				if err != nil || !got.Equal(whi) {
					r.Fail("timeOfView-adj:"+cls+sigHour, id, fmt.Sprintf("timeOfView(%q,true)=%v,%v want %v", name, got, err, whi), name)
				}
			}
		}
	})

	// ---- minMaxViews picks the extreme views of the quantum's coarsest unit present
	r.Directed("minmax", func(id string) {
		rng := vk.NewRand(vk.Mix(r.Seed, 0x18))
		for k := 0; k < 3000; k++ {
			q := c18Quanta[rng.Intn(len(c18Quanta))]
			n := 1 + rng.Intn(6)
			var views []string
			var times []time.Time
			for i := 0; i < n; i++ {
				tm := time.Date(2015+rng.Intn(3), time.Month(1+rng.Intn(12)), 1+rng.Intn(28), rng.Intn(24), 0, 0, 0, time.UTC)
				times = append(times, tm)
				views = append(views, viewsByTime("standard", tm, q)...)
			}
			if rng.Bool() {
				views = append(views, "standard")
			}
			// shuffle
			for i := len(views) - 1; i > 0; i-- {
				j := rng.Intn(i + 1)
				views[i], views[j] = views[j], views[i]
			}
			r.Eval(1)
			r.Cover("minmax")
			r.Distinct(vk.Hash64("minmax", q, fmt.Sprint(views)), n > 1)
			// what the executor needs from minMaxViews+timeOfView for an open-ended range:
			// [timeOfView(min,false), timeOfView(max,true)) must contain every timestamp that has a view.
			mn, mx := minMaxViews(append([]string{}, views...), q)
			lo, err1 := timeOfView(mn, false)
			hi, err2 := timeOfView(mx, true)
			sig := "minMaxViews:" + string(q)
			if q.HasHour() && !q.HasDay() && !q.HasMonth() && !q.HasYear() {
				sig += ":hour-only"
			}
			if err1 != nil || err2 != nil {
				r.Fail(sig+":error", id, fmt.Sprintf("minMaxViews(%v,%s)=%q,%q; timeOfView errors %v / %v", views, q, mn, mx, err1, err2), views)
				continue
			}
			for _, tm := range times {
				if tm.Before(lo) || !tm.Before(hi) {
					r.Fail(sig, id, fmt.Sprintf("minMaxViews(%v,%s)=%q,%q -> [%v,%v) does not contain written timestamp %v", views, q, mn, mx, lo, hi, tm), views)
					break
				}
			}
		}
	})

	// ---- grid of aligned ranges
	winLo := time.Date(2015, 12, 1, 0, 0, 0, 0, time.UTC)
	winHi := time.Date(2017, 4, 1, 0, 0, 0, 0, time.UTC)
	type startSet struct {
		unit   rune
		starts []time.Time
	}
	var hourStarts, dayStarts, monthStarts, yearStarts []time.Time
	for tm := winLo; tm.Before(winHi); tm = tm.Add(time.Hour) {
		hourStarts = append(hourStarts, tm)
		if tm.Hour() == 0 {
			dayStarts = append(dayStarts, tm)
		}
	}
	for y := 2012; y <= 2021; y++ {
		for m := 1; m <= 12; m++ {
			monthStarts = append(monthStarts, time.Date(y, time.Month(m), 1, 0, 0, 0, 0, time.UTC))
		}
		yearStarts = append(yearStarts, time.Date(y, 1, 1, 0, 0, 0, 0, time.UTC))
	}
	starts := map[rune][]time.Time{'H': hourStarts, 'D': dayStarts, 'M': monthStarts, 'Y': yearStarts}
	stride := 7 // quick: sample hourly starts
	if r.Thorough() {
		stride = 1
	}
	total := 0
	for _, q := range c18Quanta {
		total += len(starts[c18Finest(q)])
	}
	// a "case" = one (quantum, start); lengths are swept inside
	type qs struct {
		q TimeQuantum
		i int
	}
	var all []qs
	for _, q := range c18Quanta {
		u := c18Finest(q)
		for i := range starts[u] {
			if u == 'H' && i%stride != 0 {
				continue
			}
			all = append(all, qs{q, i})
		}
	}
	mine := 0
	for k := range all {
		if k%r.NWorkers == r.Worker {
			mine++
		}
	}
	r.Cases("grid", mine, func(i int, id string, rng *vk.Rand) {
		x := all[i*r.NWorkers+r.Worker]
		u := c18Finest(x.q)
		st := starts[u][x.i]
		var lens []int
		switch u {
		case 'H':
			for n := 1; n <= 72; n++ {
				lens = append(lens, n)
			}
			if x.i%24 == 0 {
				lens = append(lens, 24*27, 24*28, 24*29, 24*30, 24*31, 24*59, 24*60, 24*365, 24*366, 24*400)
			}
			lens = append(lens, 73+rng.Intn(24*90))
		case 'D':
			for n := 1; n <= 72; n++ {
				lens = append(lens, n)
			}
			lens = append(lens, 365, 366, 367, 400, 730, 731, 73+rng.Intn(1000))
		case 'M':
			for n := 1; n <= 40; n++ {
				lens = append(lens, n)
			}
		default:
			for n := 1; n <= 8; n++ {
				lens = append(lens, n)
			}
		}
		for _, n := range lens {
			c18CheckRange(r, id, x.q, st, c18Add(st, u, n))
		}
	})
}
