package pilosa_test

// C16 — Rows, GroupBy, MinRow and MaxRow return exact, consistently paged
// results. Differential monitor over generated datasets (<= 12 rows x 3 fields
// x 4 shards, written by Set, bulk Import, ImportRoaring and Store, with rows
// cleared after having been the maximum): every call is compared with the
// E-SRV model, and paging loops (Rows: previous/limit; GroupBy: previous per
// the documented protocol, and offset/limit) are run to exhaustion and their
// concatenation compared with the unpaged model answer.

import (
	"fmt"
	"os"
	"sort"
	"strings"
	"testing"
	"time"

	"github.com/pilosa/pilosa"
	vk "github.com/pilosa/pilosa/internal/verifkit"
)

type c16Witness struct {
	Fields []string `json:"fields"`
	Log    []string `json:"history"`
	Call   string   `json:"failing_call"`
}

type c16State struct {
	r      *vk.Run
	env    *esrvEnv
	rng    *vk.Rand
	id     string
	m      *mIndex
	index  string
	cols   []uint64
	rowsP  []uint64
	log    []string
	fdesc  []string
	failed bool
	nfail  int
	// input-history features per field (signature material)
	nonSet     map[string]bool // written through a path other than Set (Import / ImportRoaring / Store)
	clearedMax map[string]bool // a row that was the largest row of some shard was emptied later
	hiShard    map[string]map[uint64]uint64
	setHW      map[string]map[uint64]uint64 // per shard: largest row written by a Set query (what fragment.maxRowID tracks)
	hangSig    string                       // signature to use if the next call never returns
	keepGoing  bool                         // do not end the worker after a non-returning call (directed witnesses)
}

var errC16Hang = fmt.Errorf("call did not return")

func (s *c16State) wit(call string) c16Witness {
	lg := s.log
	if len(lg) > 300 {
		lg = lg[len(lg)-300:]
	}
	return c16Witness{Fields: s.fdesc, Log: append([]string(nil), lg...), Call: call}
}

// fail records a disagreement of a read-only call; the case goes on (reads do
// not disturb the stored data). Load errors stop the case (failLoad).
func (s *c16State) fail(sig, msg, call string) {
	s.nfail++
	if s.nfail > 25 {
		s.failed = true // enough evidence from this dataset
	}
	esrvFail(s.r, sig, s.id, msg, s.wit(call))
}

func (s *c16State) failLoad(sig, msg, call string) {
	s.failed = true
	esrvFail(s.r, sig, s.id, msg, s.wit(call))
}

// hist classifies the write history of a field for MinRow/MaxRow signatures
// (fragment.maxRowID is a high-water mark that only Set raises).
func (s *c16State) hist(f string) string {
	switch {
	case s.clearedMax[f] && s.nonSet[f]:
		return "hw-cleared-max+nonset-writes"
	case s.clearedMax[f]:
		return "hw-cleared-max"
	case s.nonSet[f]:
		return "hw-nonset-writes"
	}
	return "hw-exact"
}

// noteWrite tracks the per-shard high-water row of a field.
func (s *c16State) noteWrite(f string, row, col uint64) {
	if s.hiShard[f] == nil {
		s.hiShard[f] = map[uint64]uint64{}
	}
	if row > s.hiShard[f][col/mSW] {
		s.hiShard[f][col/mSW] = row
	}
}

func (s *c16State) noteSet(f string, row, col uint64) {
	if s.setHW[f] == nil {
		s.setHW[f] = map[uint64]uint64{}
	}
	if row > s.setHW[f][col/mSW] {
		s.setHW[f][col/mSW] = row
	}
}

// noteCleared marks clearedMax if some shard's high-water row is now empty in that shard.
func (s *c16State) noteCleared(fn string) {
	f := s.m.Fields[fn]
	for sh, hi := range s.hiShard[fn] {
		has := false
		for c := range f.row(hi) {
			if c/mSW == sh {
				has = true
				break
			}
		}
		if !has {
			s.clearedMax[fn] = true
		}
	}
}

// c16Watchdog bounds a single API.Query (generous wall-clock watchdog, never part
// of an oracle): the calls under test contain loops that may not terminate.
var c16Watchdog = 60 * time.Second

type c16Res struct {
	v   interface{}
	err error
}

func (s *c16State) q(pql string) (interface{}, error) {
	s.r.Eval(1)
	// the call may never return or may kill the process: leave it attributable
	s.r.InFlightDetail(s.id, map[string]interface{}{"sig": "hang-or-crash/" + strings.SplitN(pql, "(", 2)[0], "call": pql, "fields": s.fdesc, "history": s.log})
	ch := make(chan c16Res, 1)
	go func() {
		v, err := s.env.query1(s.index, pql)
		ch <- c16Res{v, err}
	}()
	select {
	case x := <-ch:
		return x.v, x.err
	case <-time.After(c16Watchdog):
		// A server goroutine spins forever (and may allocate without bound): record the
		// failure, write the results gathered so far and end this worker.
		sig := s.hangSig
		if sig == "" {
			sig = "hang/" + strings.SplitN(pql, "(", 2)[0]
		}
		s.fail(sig, fmt.Sprintf("%s did not return within %s (server-side loop)", pql, c16Watchdog), pql)
		if s.keepGoing {
			return nil, errC16Hang
		}
		s.r.Note("aborted", "worker stopped after a non-returning call: "+pql)
		s.r.Finish()
		os.Exit(0)
		return nil, nil
	}
}

func (s *c16State) mutQ(pql string) {
	s.log = append(s.log, pql)
	if _, err := s.env.query1(s.index, pql); err != nil {
		s.failLoad("load#unexpected-error", pql+": "+err.Error(), pql)
	}
}

// ---- data

func (s *c16State) pickTime() *time.Time {
	t := esrvTimePool[s.rng.Intn(len(esrvTimePool))]
	return &t
}

func (s *c16State) write(f *mField, n int) {
	rng := s.rng
	path := rng.Intn(4)
	if f.Type == "mutex" && path == 2 {
		path = 1 // roaring import is for set/time fields
	}
	type bit struct {
		r, c uint64
		t    *time.Time
	}
	var bits []bit
	seen := map[uint64]bool{}
	for i := 0; i < n; i++ {
		b := bit{r: s.rowsP[rng.Intn(len(s.rowsP))], c: s.cols[rng.Intn(len(s.cols))]}
		if f.Type == "mutex" && seen[b.c] {
			continue
		}
		seen[b.c] = true
		if f.Type == "time" && (f.NoStd || rng.Chance(4, 5)) {
			b.t = s.pickTime() // fields without a standard view only get timestamped bits (see C15 note)
		}
		bits = append(bits, b)
	}
	switch path {
	case 0, 3: // Set
		for _, b := range bits {
			newStd := !f.has(b.r, b.c) && !(f.Type == "time" && f.NoStd)
			s.m.setBit(f, b.r, b.c, b.t, true)
			s.noteWrite(f.Name, b.r, b.c)
			if newStd {
				s.noteSet(f.Name, b.r, b.c) // fragment.maxRowID only moves when the bit actually changes
			}
			s.mutQ(esrvSetPQL(f, b.r, b.c, b.t))
		}
		s.r.Cover("write:Set:" + f.Type)
	case 1: // bulk import
		var rows, cols []uint64
		var ts []int64
		anyT := false
		for _, b := range bits {
			if b.t != nil {
				anyT = true
			}
		}
		for _, b := range bits {
			s.m.setBit(f, b.r, b.c, b.t, true)
			s.noteWrite(f.Name, b.r, b.c)
			rows, cols = append(rows, b.r), append(cols, b.c)
			if anyT {
				if b.t != nil {
					ts = append(ts, b.t.UnixNano())
				} else {
					ts = append(ts, 0)
				}
			}
		}
		s.nonSet[f.Name] = true
		s.log = append(s.log, fmt.Sprintf("Import(%s rows=%v cols=%v ts=%v)", f.Name, rows, cols, ts))
		if err := s.env.importBits(s.index, f.Name, rows, cols, ts, false); err != nil {
			s.failLoad("load#unexpected-error", "Import: "+err.Error(), "")
		}
		s.r.Cover("write:Import:" + f.Type)
	case 2: // roaring import, per shard, standard view plus the quantum views of each timestamp
		by := map[uint64]map[string][]uint64{}
		for _, b := range bits {
			s.m.setBit(f, b.r, b.c, b.t, false)
			s.noteWrite(f.Name, b.r, b.c)
			sh := b.c / mSW
			if by[sh] == nil {
				by[sh] = map[string][]uint64{}
			}
			p := b.r*mSW + b.c%mSW
			if !f.NoStd {
				by[sh][""] = append(by[sh][""], p)
			}
			if b.t != nil {
				for _, v := range mViewsOf(*b.t, f.Quantum) {
					by[sh][v] = append(by[sh][v], p)
				}
			}
		}
		official := rng.Bool()
		var shs []uint64
		for sh := range by {
			shs = append(shs, sh)
		}
		sort.Slice(shs, func(i, j int) bool { return shs[i] < shs[j] })
		for _, sh := range shs {
			s.log = append(s.log, fmt.Sprintf("ImportRoaring(%s shard=%d official=%v views=%v)", f.Name, sh, official, by[sh]))
			if err := s.env.importRoaring(s.index, f.Name, sh, by[sh], official, false); err != nil {
				s.failLoad("load#unexpected-error", "ImportRoaring: "+err.Error(), "")
			}
		}
		s.nonSet[f.Name] = true
		s.r.Cover("write:ImportRoaring:" + f.Type)
	}
	s.noteCleared(f.Name) // a mutex write empties other rows implicitly
}

// shrink empties rows, preferring the current maximum row of the field.
func (s *c16State) shrink(f *mField) {
	rng := s.rng
	var rows []uint64
	for r := range f.Rows {
		rows = append(rows, r)
	}
	if len(rows) == 0 {
		return
	}
	rows = mSortU64(rows)
	row := rows[len(rows)-1]
	if rng.Chance(1, 3) {
		row = rows[rng.Intn(len(rows))]
	}
	switch rng.Intn(3) {
	case 0:
		s.m.clearRow(f, row)
		s.mutQ(esrvClearRowPQL(f, row))
		s.r.Cover("shrink:ClearRow")
	case 1:
		for _, c := range f.row(row).sorted() {
			s.m.clearBit(f, row, c)
			s.mutQ(esrvClearPQL(f, row, c))
		}
		s.r.Cover("shrink:Clear")
	case 2:
		if f.Type != "set" {
			s.m.clearRow(f, row)
			s.mutQ(esrvClearRowPQL(f, row))
			break
		}
		// Store an empty / other row over it
		src := &qNode{Kind: "row", Field: f.Name, Row: 4094} // never written
		if rng.Bool() && len(rows) > 1 {
			src.Row = rows[0]
		}
		// (the stale-row class of C15 - source empty in a destination shard - is avoided: clear first)
		s.m.clearRow(f, row)
		s.mutQ(esrvClearRowPQL(f, row))
		cols, _ := s.m.eval(src) // evaluated after the clear: the source may be the row itself
		s.m.store(f, row, cols.sorted())
		for c := range cols {
			s.noteWrite(f.Name, row, c)
		}
		s.mutQ(fmt.Sprintf("Store(%s, %s=%d)", src.PQL(), f.Name, row))
		s.nonSet[f.Name] = true
		s.r.Cover("shrink:Store")
	}
	s.noteCleared(f.Name)
}

// ---- checks

func u64p(v uint64) *uint64 { return &v }

func (s *c16State) rowsResult(pql string) ([]uint64, error) {
	res, err := s.q(pql)
	if err != nil {
		return nil, err
	}
	ri, ok := res.(pilosa.RowIdentifiers)
	if !ok {
		return nil, fmt.Errorf("result type %T", res)
	}
	return []uint64(ri.Rows), nil
}

func (s *c16State) checkRows(c mRowsCall, sig string) {
	if s.failed {
		return
	}
	want, _ := s.m.rows(c)
	got, err := s.rowsResult(c.PQL())
	if err != nil {
		s.fail(sig+"#unexpected-error", c.PQL()+": "+err.Error(), c.PQL())
		return
	}
	if !vk.EqualU64(got, want) {
		s.fail(sig, fmt.Sprintf("%s: %s; got %s want %s", c.PQL(), vk.DiffU64(got, want), vk.Brief(got), vk.Brief(want)), c.PQL())
	}
}

func (s *c16State) rowsSig(f *mField, c mRowsCall, paging bool) string {
	multiView := f.Type == "time" && (f.NoStd || !c.From.IsZero() || !c.To.IsZero())
	if multiView && (paging || c.Limit != nil) {
		// input class: a limit applied to a Rows call that reads several time views
		if paging {
			return "rows-paging/time-multi-view"
		}
		return "rows/time-multi-view/limit"
	}
	sig := "rows/" + f.Type
	if f.Type == "time" && f.NoStd {
		sig = "rows/time-nostandard"
	}
	if paging {
		sig = strings.Replace(sig, "rows/", "rows-paging/", 1)
	}
	if !c.From.IsZero() || !c.To.IsZero() {
		sig += "/timerange"
	}
	if c.Limit != nil && !paging {
		sig += "/limit"
	}
	if c.Column != nil {
		sig += "/column"
	}
	if c.Prev != nil && !paging {
		sig += "/previous"
	}
	return sig
}

func (s *c16State) rowsBattery(f *mField) {
	rng := s.rng
	base := mRowsCall{Field: f.Name}
	variants := []mRowsCall{base}
	withTime := func(c mRowsCall) mRowsCall {
		if f.Type == "time" && f.Quantum != "" {
			bs := esrvAlignedBounds(f.Quantum)
			i, j := rng.Intn(len(bs)), rng.Intn(len(bs))
			if i == j {
				j = (i + 1) % len(bs)
			}
			if i > j {
				i, j = j, i
			}
			c.From, c.To = bs[i], bs[j]
		}
		return c
	}
	if f.Type == "time" && f.Quantum != "" {
		variants = append(variants, withTime(base), withTime(base))
	}
	n := len(variants)
	for i := 0; i < n; i++ {
		v := variants[i]
		c1 := v
		c1.Column = u64p(s.cols[rng.Intn(len(s.cols))])
		c2 := v
		c2.Prev = u64p(s.rowsP[rng.Intn(len(s.rowsP))])
		c3 := v
		c3.Limit = u64p(uint64(1 + rng.Intn(4)))
		c4 := v
		c4.Prev, c4.Limit, c4.Column = u64p(s.rowsP[rng.Intn(len(s.rowsP))]), u64p(uint64(1+rng.Intn(3))), u64p(s.cols[rng.Intn(len(s.cols))])
		c5 := v
		c5.Prev, c5.Limit = u64p(s.rowsP[rng.Intn(len(s.rowsP))]), u64p(uint64(1+rng.Intn(3)))
		variants = append(variants, c1, c2, c3, c4, c5)
	}
	for _, c := range variants {
		s.r.Cover("call:Rows")
		s.checkRows(c, s.rowsSig(f, c, false))
	}
	// paging loops to exhaustion
	for _, v := range variants[:n] {
		for _, lim := range []uint64{1, 2, 3} {
			if s.failed {
				return
			}
			full := v
			want, _ := s.m.rows(full)
			var got []uint64
			var prev *uint64
			sig := s.rowsSig(s.m.Fields[v.Field], v, true)
			pages := 0
			for {
				c := v
				c.Prev, c.Limit = prev, u64p(lim)
				page, err := s.rowsResult(c.PQL())
				if err != nil {
					s.fail(sig+"#unexpected-error", c.PQL()+": "+err.Error(), c.PQL())
					return
				}
				pages++
				if len(page) == 0 {
					break
				}
				got = append(got, page...)
				prev = u64p(page[len(page)-1])
				if pages > len(want)+3 {
					s.fail(sig+"#nonterminating", fmt.Sprintf("%s: paging with limit=%d did not end after %d pages", v.PQL(), lim, pages), c.PQL())
					return
				}
			}
			s.r.Cover("paging:Rows")
			if !vk.EqualU64(got, want) {
				s.fail(sig, fmt.Sprintf("%s paged with limit=%d: concatenation %s want %s (%s)", v.PQL(), lim, vk.Brief(got), vk.Brief(want), vk.DiffU64(got, want)), v.PQL())
				return
			}
		}
	}
}

func (s *c16State) filterExpr() *qNode {
	rng := s.rng
	leaf := func() *qNode {
		fn := s.m.Order[rng.Intn(len(s.m.Order))]
		return &qNode{Kind: "row", Field: fn, Row: s.rowsP[rng.Intn(len(s.rowsP))]}
	}
	switch rng.Intn(4) {
	case 0:
		return leaf()
	case 1:
		return &qNode{Kind: "union", Kids: []*qNode{leaf(), leaf(), leaf()}}
	case 2:
		return &qNode{Kind: "intersect", Kids: []*qNode{{Kind: "union", Kids: []*qNode{leaf(), leaf()}}, {Kind: "union", Kids: []*qNode{leaf(), leaf()}}}}
	default:
		return &qNode{Kind: "difference", Kids: []*qNode{{Kind: "union", Kids: []*qNode{leaf(), leaf(), leaf()}}, leaf()}}
	}
}

func (s *c16State) minMaxBattery(f *mField) {
	if f.Type == "time" && f.NoStd {
		return // MinRow/MaxRow read the standard view; nothing documented for fields without one
	}
	for _, max := range []bool{false, true} {
		for _, withFilter := range []bool{false, true, true} {
			if s.failed {
				return
			}
			name := "MinRow"
			if max {
				name = "MaxRow"
			}
			var filter mSet
			pql := fmt.Sprintf("%s(field=%s)", name, f.Name)
			sig := s.hist(f.Name) + "/" + strings.ToLower(name)
			if s.hist(f.Name) == "hw-exact" {
				sig += "/" + f.Type
			}
			if withFilter {
				fe := s.filterExpr()
				filter, _ = s.m.eval(fe)
				pql = fmt.Sprintf("%s(%s, field=%s)", name, fe.PQL(), f.Name)
				if s.hist(f.Name) == "hw-exact" {
					sig += "/filter"
				}
			}
			wantRow, ok := s.m.minMaxRow(f, filter, max)
			if max && withFilter && s.maxRowHangClass(f, filter) && os.Getenv("VERIF_C16_SKIP_HANG_CLASSES") != "" {
				// class that never returned before fix 04fd772 (skip it with VERIF_C16_SKIP_HANG_CLASSES=1 on older trees;
				// otherwise the 60 s watchdog ends the worker at the first such call)
				s.r.Count("skipped:maxrow-filter-misses-shard-with-row0", 1)
				continue
			}
			res, err := s.q(pql)
			s.r.Cover("call:" + name)
			if err != nil {
				s.fail(sig+"#unexpected-error", pql+": "+err.Error(), pql)
				return
			}
			p, isPair := res.(pilosa.Pair)
			if !isPair {
				s.fail(sig+"#result-type", fmt.Sprintf("%s: result type %T", pql, res), pql)
				return
			}
			if !ok {
				if p.Count != 0 {
					s.fail(sig, fmt.Sprintf("%s: returned row %d count %d, model has no row with a bit (within the filter)", pql, p.ID, p.Count), pql)
				}
				continue
			}
			if p.Count == 0 || p.ID != wantRow {
				s.fail(sig, fmt.Sprintf("%s: returned row %d count %d, model row %d", pql, p.ID, p.Count, wantRow), pql)
			}
		}
	}
}

// maxRowHangClass: MaxRow with a filter, and some shard of the field holds row 0
// while no row of that shard up to the shard's Set high-water mark (the only
// thing fragment.maxRowID follows) intersects the filter. fragment.maxRow then
// counts a uint64 down through zero and never terminates.
func (s *c16State) maxRowHangClass(f *mField, filter mSet) bool {
	type st struct{ row0, hit bool }
	sh := map[uint64]*st{}
	for r, cols := range f.Rows {
		for c := range cols {
			x := sh[c/mSW]
			if x == nil {
				x = &st{}
				sh[c/mSW] = x
			}
			if r == 0 {
				x.row0 = true
			}
			if _, in := filter[c]; in && r <= s.setHW[f.Name][c/mSW] {
				x.hit = true
			}
		}
	}
	for _, x := range sh {
		if x.row0 && !x.hit {
			return true
		}
	}
	return false
}

// groupByHangClass: three (or more) children and some shard in which the largest
// row of the first child's field (after the filter) is empty or meets no row of
// the second child's field. groupByIterator.nextAtIdx then loops forever at the
// middle level once the first level is exhausted. Conservative (also true when
// a shard holds data for the first two fields only).
func (s *c16State) groupByHangClass(g c16GB, filter mSet) bool {
	if len(g.Children) < 3 {
		return false
	}
	for lvl := 0; lvl+2 < len(g.Children); lvl++ {
		c0, c1 := g.Children[lvl], g.Children[lvl+1]
		c0.Prev, c1.Prev = nil, nil
		f0, f1 := s.m.Fields[c0.Field], s.m.Fields[c1.Field]
		l0, _ := s.m.rows(c0) // the rows the iterator of each level walks (child limit/column applied)
		l1, _ := s.m.rows(c1)
		if s.clearedMax[f0.Name] {
			return true // an emptied row above the current largest one may still be listed
		}
		for sh := uint64(0); sh < 4; sh++ {
			var last uint64
			has := false
			for _, r := range l0 {
				for c := range f0.row(r) {
					if c/mSW == sh {
						has, last = true, r
						break
					}
				}
			}
			if !has {
				if _, ever := s.hiShard[f0.Name][sh]; ever {
					return true // data once existed here: emptied rows may still be listed
				}
				continue
			}
			ok := false
			for c := range f0.row(last) {
				if c/mSW != sh {
					continue
				}
				if filter != nil && lvl == 0 {
					if _, in := filter[c]; !in {
						continue
					}
				}
				for _, r1 := range l1 {
					if _, in := f1.row(r1)[c]; in {
						ok = true
					}
				}
			}
			if !ok {
				return true
			}
		}
	}
	return false
}

type c16GB struct {
	Children []mRowsCall
	Filter   *qNode
	Limit    *uint64
	Offset   *uint64
}

func (g c16GB) PQL() string {
	var parts []string
	for _, c := range g.Children {
		parts = append(parts, c.PQL())
	}
	if g.Limit != nil {
		parts = append(parts, fmt.Sprintf("limit=%d", *g.Limit))
	}
	if g.Offset != nil {
		parts = append(parts, fmt.Sprintf("offset=%d", *g.Offset))
	}
	if g.Filter != nil {
		parts = append(parts, "filter="+g.Filter.PQL())
	}
	return "GroupBy(" + strings.Join(parts, ", ") + ")"
}

func (s *c16State) groupResult(pql string, k int) ([]mGroup, error) {
	res, err := s.q(pql)
	if err != nil {
		return nil, err
	}
	gcs, ok := res.([]pilosa.GroupCount)
	if !ok {
		return nil, fmt.Errorf("result type %T", res)
	}
	out := make([]mGroup, len(gcs))
	for i, g := range gcs {
		if len(g.Group) != k {
			return nil, fmt.Errorf("group %d has %d members, want %d", i, len(g.Group), k)
		}
		for _, fr := range g.Group {
			out[i].Rows = append(out[i].Rows, fr.RowID)
		}
		out[i].Count = g.Count
	}
	return out, nil
}

func c16GroupsEqual(a, b []mGroup) bool {
	if len(a) != len(b) {
		return false
	}
	for i := range a {
		if a[i].Count != b[i].Count || !vk.EqualU64(a[i].Rows, b[i].Rows) {
			return false
		}
	}
	return true
}

func c16GroupsBrief(g []mGroup) string {
	var parts []string
	for i, x := range g {
		if i >= 14 {
			parts = append(parts, fmt.Sprintf("... (n=%d)", len(g)))
			break
		}
		parts = append(parts, fmt.Sprintf("%v:%d", x.Rows, x.Count))
	}
	return "[" + strings.Join(parts, " ") + "]"
}

func (s *c16State) gbSig(g c16GB, kind string) string {
	if g.Offset != nil && kind == "groupby" {
		return "groupby-offset"
	}
	if kind == "groupby-paging-offset" {
		return kind
	}
	sig := fmt.Sprintf("%s/k=%d", kind, len(g.Children))
	if g.Filter != nil {
		sig += "/filter"
	}
	if g.Limit != nil && kind == "groupby" {
		sig += "/limit"
	}
	cl, cc := false, false
	for _, c := range g.Children {
		if c.Limit != nil {
			cl = true
		}
		if c.Column != nil {
			cc = true
		}
	}
	if cl {
		sig += "/child-limit"
	}
	if cc {
		sig += "/child-column"
	}
	return sig
}

func (s *c16State) groupByBattery() {
	rng := s.rng
	var names []string
	for _, n := range s.m.Order {
		f := s.m.Fields[n]
		if f.Type == "time" && f.NoStd {
			continue
		}
		names = append(names, n)
	}
	for round := 0; round < 6 && !s.failed; round++ {
		k := 1 + rng.Intn(3)
		if k > len(names) {
			k = len(names)
		}
		perm := rng.Perm(len(names))
		g := c16GB{}
		for i := 0; i < k; i++ {
			g.Children = append(g.Children, mRowsCall{Field: names[perm[i]]})
		}
		if rng.Bool() {
			g.Filter = s.filterExpr()
		}
		var filter mSet
		if g.Filter != nil {
			filter, _ = s.m.eval(g.Filter)
		}
		if s.groupByHangClass(g, filter) && os.Getenv("VERIF_C16_SKIP_HANG_CLASSES") != "" {
			// class that never returned before fix 524d9cd (see above)
			s.r.Count("skipped:groupby-3-children-hang-class", 1)
			continue
		}
		full, _ := s.m.groupBy(g.Children, filter)
		// unpaged
		s.r.Cover("call:GroupBy")
		got, err := s.groupResult(g.PQL(), k)
		sig := s.gbSig(g, "groupby")
		if err != nil {
			s.fail(sig+"#unexpected-error", g.PQL()+": "+err.Error(), g.PQL())
			return
		}
		if !c16GroupsEqual(got, full) {
			s.fail(sig, fmt.Sprintf("%s: got %s want %s", g.PQL(), c16GroupsBrief(got), c16GroupsBrief(full)), g.PQL())
			return
		}
		// limit only / offset only / offset+limit
		for v := 0; v < 3 && !s.failed; v++ {
			h := g
			var want []mGroup
			switch v {
			case 0:
				l := uint64(1 + rng.Intn(4))
				h.Limit = &l
				want = full
				if uint64(len(want)) > l {
					want = want[:l]
				}
			case 1:
				o := uint64(rng.Intn(len(full) + 2))
				h.Offset = &o
				want = full
				if o < uint64(len(want)) {
					want = want[o:]
				} else {
					want = nil
				}
			case 2:
				continue // offset+limit is exercised by the offset paging loop below
			}
			got, err := s.groupResult(h.PQL(), k)
			sig := s.gbSig(h, "groupby")
			if err != nil {
				s.fail(sig+"#unexpected-error", h.PQL()+": "+err.Error(), h.PQL())
				return
			}
			if !c16GroupsEqual(got, want) {
				s.fail(sig, fmt.Sprintf("%s: got %s want %s", h.PQL(), c16GroupsBrief(got), c16GroupsBrief(want)), h.PQL())
				return
			}
		}
		// children with column / limit (unpaged call)
		if rng.Bool() && !s.failed {
			h := g
			h.Children = append([]mRowsCall(nil), g.Children...)
			i := rng.Intn(k)
			if rng.Bool() {
				h.Children[i].Column = u64p(s.cols[rng.Intn(len(s.cols))])
			} else {
				h.Children[i].Limit = u64p(uint64(1 + rng.Intn(3)))
			}
			if s.groupByHangClass(h, filter) && os.Getenv("VERIF_C16_SKIP_HANG_CLASSES") != "" {
				s.r.Count("skipped:groupby-3-children-hang-class", 1)
				continue
			}
			want, _ := s.m.groupBy(h.Children, filter)
			got, err := s.groupResult(h.PQL(), k)
			sig := s.gbSig(h, "groupby")
			if err != nil {
				s.fail(sig+"#unexpected-error", h.PQL()+": "+err.Error(), h.PQL())
				return
			}
			if !c16GroupsEqual(got, want) {
				s.fail(sig, fmt.Sprintf("%s: got %s want %s", h.PQL(), c16GroupsBrief(got), c16GroupsBrief(want)), h.PQL())
				return
			}
		}
		// paging by previous (documented protocol), to exhaustion
		for _, lim := range []uint64{1, 2, 5} {
			if s.failed {
				return
			}
			sig := s.gbSig(g, "groupby-paging-previous")
			var cat []mGroup
			var last []uint64
			pages := 0
			for {
				h := g
				h.Limit = u64p(lim)
				h.Children = append([]mRowsCall(nil), g.Children...)
				if last != nil {
					for i := range h.Children {
						h.Children[i].Prev = u64p(last[i])
					}
				}
				page, err := s.groupResult(h.PQL(), k)
				if err != nil {
					s.fail(sig+"#unexpected-error", h.PQL()+": "+err.Error(), h.PQL())
					return
				}
				pages++
				if len(page) == 0 {
					break
				}
				cat = append(cat, page...)
				last = page[len(page)-1].Rows
				if pages > len(full)+3 {
					s.fail(sig+"#nonterminating", fmt.Sprintf("%s: previous-paging with limit=%d did not end after %d pages (last page %s)", g.PQL(), lim, pages, c16GroupsBrief(page)), h.PQL())
					return
				}
			}
			s.r.Cover("paging:GroupBy:previous")
			if !c16GroupsEqual(cat, full) {
				s.fail(sig, fmt.Sprintf("%s paged by previous with limit=%d: concatenation %s want %s", g.PQL(), lim, c16GroupsBrief(cat), c16GroupsBrief(full)), g.PQL())
				return
			}
		}
		// paging by offset/limit, to exhaustion
		for _, lim := range []uint64{1, 3} {
			if s.failed {
				return
			}
			sig := s.gbSig(g, "groupby-paging-offset")
			var cat []mGroup
			pages := 0
			for off := uint64(0); ; off += lim {
				h := g
				h.Limit, h.Offset = u64p(lim), u64p(off)
				page, err := s.groupResult(h.PQL(), k)
				if err != nil {
					s.fail(sig+"#unexpected-error", h.PQL()+": "+err.Error(), h.PQL())
					return
				}
				pages++
				if len(page) == 0 {
					break
				}
				cat = append(cat, page...)
				if pages > len(full)+3 {
					s.fail(sig+"#nonterminating", fmt.Sprintf("%s: offset-paging with limit=%d did not end after %d pages (last page %s)", g.PQL(), lim, pages, c16GroupsBrief(page)), h.PQL())
					return
				}
			}
			s.r.Cover("paging:GroupBy:offset")
			if !c16GroupsEqual(cat, full) {
				s.fail(sig, fmt.Sprintf("%s paged by offset with limit=%d: concatenation %s want %s", g.PQL(), lim, c16GroupsBrief(cat), c16GroupsBrief(full)), g.PQL())
				return
			}
		}
	}
}

func (s *c16State) battery() {
	for _, n := range s.m.Order {
		if s.failed {
			return
		}
		f := s.m.Fields[n]
		s.rowsBattery(f)
		s.minMaxBattery(f)
	}
	s.groupByBattery()
}

func TestVerifC16(t *testing.T) {
	r := vk.Start(t, "C16")
	defer r.Finish()
	env := esrvStart(t, esrvNodes(), "g")
	defer env.Close()
	r.Expect("call:Rows", "call:GroupBy", "call:MinRow", "call:MaxRow", "paging:Rows", "paging:GroupBy:previous", "paging:GroupBy:offset",
		"write:Set:set", "write:Import:set", "write:ImportRoaring:set", "write:Set:time", "write:ImportRoaring:time", "shrink:ClearRow", "shrink:Clear", "shrink:Store",
		"data:cleared-max", "data:time-nostandard")

	n := r.N(200, 8000)
	r.Cases("ds", n, func(i int, id string, rng *vk.Rand) {
		m := newMIndex(false)
		index, err := env.newIndex(false)
		if err != nil {
			t.Fatalf("create index: %v", err)
		}
		defer env.dropIndex(index)
		s := &c16State{r: r, env: env, rng: rng, id: id, m: m, index: index,
			nonSet: map[string]bool{}, clearedMax: map[string]bool{}, hiShard: map[string]map[uint64]uint64{}, setHW: map[string]map[uint64]uint64{}}
		pool := esrvColumnPool(4)
		for _, c := range pool {
			if rng.Chance(1, 3) {
				s.cols = append(s.cols, c)
			}
		}
		if len(s.cols) < 5 {
			s.cols = pool[10:20]
		}
		allRows := []uint64{0, 1, 2, 3, 5, 8, 13, 21, 100, 101, 1000, 2000}
		for _, rw := range allRows {
			if rng.Chance(2, 3) {
				s.rowsP = append(s.rowsP, rw)
			}
		}
		if len(s.rowsP) < 3 {
			s.rowsP = allRows[:5]
		}
		mk := func(f *mField) {
			m.addField(f)
			d := f.Name + ":" + f.Type
			if f.Type == "time" {
				d += ":" + f.Quantum
				if f.NoStd {
					d += ":nostandard"
					r.Cover("data:time-nostandard")
				}
			}
			s.fdesc = append(s.fdesc, d)
			if err := env.createField(index, f, "ranked", 1000); err != nil {
				t.Fatalf("create field: %v", err)
			}
		}
		mk(&mField{Name: "a", Type: "set"})
		if rng.Chance(2, 3) {
			mk(&mField{Name: "b", Type: "set"})
		} else {
			mk(&mField{Name: "b", Type: "mutex"})
		}
		if rng.Chance(2, 3) {
			mk(&mField{Name: "c", Type: "time", Quantum: esrvQuanta[rng.Intn(len(esrvQuanta))], NoStd: rng.Chance(1, 6)})
		} else {
			mk(&mField{Name: "c", Type: "set"})
		}
		for _, fn := range m.Order {
			f := m.Fields[fn]
			for k := 0; k < 1+rng.Intn(2); k++ {
				s.write(f, 4+rng.Intn(20))
			}
		}
		if s.failed {
			return
		}
		s.battery()
		for round := 0; round < 2 && !s.failed; round++ {
			for _, fn := range m.Order {
				f := m.Fields[fn]
				if rng.Chance(2, 3) {
					s.shrink(f)
				}
				if rng.Chance(1, 2) {
					s.write(f, 1+rng.Intn(6))
				}
			}
			for fn := range s.clearedMax {
				_ = fn
				r.Cover("data:cleared-max")
			}
			if s.failed {
				return
			}
			s.battery()
		}
		nonEmpty := 0
		for _, f := range m.Fields {
			if len(f.Rows) > 1 {
				nonEmpty++
			}
		}
		r.Distinct(vk.Hash64("c16", id), nonEmpty >= 2)
		if r.WantSample() {
			r.Sample(s.wit(""))
		}
	})

	// ---- directed: Rows on a bool field
	r.Directed("rows-bool-field", func(id string) {
		index, err := env.newIndex(false)
		if err != nil {
			t.Fatalf("create index: %v", err)
		}
		defer env.dropIndex(index)
		m := newMIndex(false)
		s := &c16State{r: r, env: env, rng: vk.NewRand(1), id: id, m: m, index: index,
			nonSet: map[string]bool{}, clearedMax: map[string]bool{}, hiShard: map[string]map[uint64]uint64{}, setHW: map[string]map[uint64]uint64{}}
		f := m.addField(&mField{Name: "b", Type: "bool"})
		s.fdesc = []string{"b:bool"}
		if err := env.createField(index, f, "", 0); err != nil {
			t.Fatalf("create field: %v", err)
		}
		for _, b := range [][2]uint64{{1, 1}, {0, 2}, {1, mSW + 3}} {
			s.m.setBit(f, b[0], b[1], nil, true)
			s.mutQ(esrvSetPQL(f, b[0], b[1], nil))
		}
		s.checkRows(mRowsCall{Field: "b"}, "rows/bool")
		s.checkRows(mRowsCall{Field: "b", Column: u64p(2)}, "rows/bool/column")
	})

	// ---- directed witnesses of the two formerly non-returning classes. They run LAST on worker 0: each leaves a spinning server goroutine
	// behind (the second one allocates without bound), so the worker ends right after.
	r.Directed("hang-witnesses", func(id string) {
		index, err := env.newIndex(false)
		if err != nil {
			t.Fatalf("create index: %v", err)
		}
		m := newMIndex(false)
		s := &c16State{r: r, env: env, rng: vk.NewRand(1), id: id, m: m, index: index, keepGoing: true,
			nonSet: map[string]bool{}, clearedMax: map[string]bool{}, hiShard: map[string]map[uint64]uint64{}, setHW: map[string]map[uint64]uint64{}}
		for _, n := range []string{"a", "b", "c"} {
			f := m.addField(&mField{Name: n, Type: "set"})
			s.fdesc = append(s.fdesc, n+":set")
			if err := env.createField(index, f, "ranked", 1000); err != nil {
				t.Fatalf("create field: %v", err)
			}
		}
		set := func(fn string, row, col uint64) {
			s.m.setBit(m.Fields[fn], row, col, nil, true)
			s.mutQ(esrvSetPQL(m.Fields[fn], row, col, nil))
		}
		set("a", 1, 1)
		set("b", 1, 2)
		set("c", 1, 2)
		old := c16Watchdog
		c16Watchdog = 30 * time.Second
		g := c16GB{Children: []mRowsCall{{Field: "a"}, {Field: "b"}, {Field: "c"}}}
		s.hangSig = "hang/GroupBy/3-children-first-level-exhausted"
		got, err := s.groupResult(g.PQL(), 3)
		if err == nil && len(got) != 0 {
			s.fail("groupby/k=3", fmt.Sprintf("%s: got %s want []", g.PQL(), c16GroupsBrief(got)), g.PQL())
		} else if err != nil && err != errC16Hang {
			s.fail("groupby/k=3#unexpected-error", g.PQL()+": "+err.Error(), g.PQL())
		}
		// MaxRow: row 0 present, filter misses the shard
		set("a", 0, 1)
		s.keepGoing = false
		c16Watchdog = 30 * time.Second
		s.hangSig = "hang/MaxRow/filter-misses-shard-holding-row-0"
		pql := "MaxRow(Row(b=1), field=a)"
		res, err := s.q(pql)
		c16Watchdog = old
		if err != nil {
			s.fail("hw-exact/maxrow/set/filter#unexpected-error", pql+": "+err.Error(), pql)
		} else if p, ok := res.(pilosa.Pair); !ok || p.Count != 0 {
			s.fail("hw-exact/maxrow/set/filter", fmt.Sprintf("%s: returned %v, model has no row inside the filter", pql, res), pql)
		}
		env.dropIndex(index)
	})
}
