package pilosa_test

// C06 (server leg) — Malformed external input is rejected without crashing
// the server. Hostile bytes are sent over REAL HTTP to an in-process server:
//   POST /index/{i}/field/{f}/import-roaring/{shard}   (protobuf ImportRoaringRequest with hostile view data)
//   POST /index/{i}/query                              (arbitrary PQL text)
//   POST /internal/cluster/message                     (arbitrary bytes)
// Monitors: the process survives (a panic outside a recovered request kills
// the worker: the driver attributes it to the in-flight input), every request
// returns (client timeout => hang), a REJECTED request leaves stored data
// unchanged, and a follow-up read and write on the same fragment succeed
// (locks released).

import (
	"bytes"
	"context"
	"encoding/hex"
	"fmt"
	"io/ioutil"
	gohttp "net/http"
	"strings"
	"testing"
	"time"

	"github.com/pilosa/pilosa"
	"github.com/pilosa/pilosa/encoding/proto"
	vk "github.com/pilosa/pilosa/internal/verifkit"
	"github.com/pilosa/pilosa/test"
)

func c06Snapshot(m *test.Command, index string) (string, error) {
	var sb strings.Builder
	for _, f := range []string{"f", "g"} {
		for row := 0; row < 4; row++ {
			resp, err := m.API.Query(context.Background(), &pilosa.QueryRequest{Index: index, Query: fmt.Sprintf("Row(%s=%d)", f, row)})
			if err != nil {
				return "", err
			}
			fmt.Fprintf(&sb, "%s/%d:%v;", f, row, resp.Results[0].(*pilosa.Row).Columns())
		}
	}
	return sb.String(), nil
}

func TestVerifC06Server(t *testing.T) {
	r := vk.Start(t, "C06")
	defer r.Finish()
	r.Expect("entry:import-roaring", "entry:query", "entry:cluster-message", "entry:cluster-message-gossip", "import:rejected", "import:accepted")

	m := test.MustRunCommand()
	defer m.Close()
	ctx := context.Background()
	index := "h"
	// (re)create the index: accepted hostile imports may legitimately leave huge rows behind; the
	// statement is not about resource use of accepted data, so the state is renewed regularly.
	setup := func() {
		m.API.DeleteIndex(ctx, index)
		if _, err := m.API.CreateIndex(ctx, index, pilosa.IndexOptions{}); err != nil {
			t.Fatal(err)
		}
		for _, f := range []string{"f", "g"} {
			if _, err := m.API.CreateField(ctx, index, f, pilosa.OptFieldTypeSet(pilosa.CacheTypeRanked, 100)); err != nil {
				t.Fatal(err)
			}
		}
		if _, err := m.API.CreateField(ctx, index, "t", pilosa.OptFieldTypeTime("YMD")); err != nil {
			t.Fatal(err)
		}
		if _, err := m.API.CreateField(ctx, index, "v", pilosa.OptFieldTypeInt(-100, 100)); err != nil {
			t.Fatal(err)
		}
		m.API.Query(ctx, &pilosa.QueryRequest{Index: index, Query: "Set(1, v=5) Set(2, v=-7) Set(1048577, v=50)"})
		for i := 0; i < 20; i++ {
			m.API.Query(ctx, &pilosa.QueryRequest{Index: index, Query: fmt.Sprintf("Set(%d, f=%d) Set(%d, g=%d)", i*7, i%4, i*11, i%3)})
		}
	}
	setup()
	client := &gohttp.Client{Timeout: 30 * time.Second}
	ser := proto.Serializer{}
	post := func(path, ctype string, body []byte) (int, string, error) {
		req, _ := gohttp.NewRequest("POST", m.URL()+path, bytes.NewReader(body))
		if ctype != "" {
			req.Header.Set("Content-Type", ctype)
			req.Header.Set("Accept", ctype)
		}
		resp, err := client.Do(req)
		if err != nil {
			return 0, "", err
		}
		defer resp.Body.Close()
		b, _ := ioutil.ReadAll(resp.Body)
		return resp.StatusCode, string(b), nil
	}
	pqlSeeds := []string{
		`Row(f=1)`, `Set(10, f=1)`, `Union(Row(f=1), Row(g=2))`, `TopN(f, n=2)`, `Row(f > 3)`, `Count(Intersect(Row(f=1), Row(g=1)))`,
		`Set(1, t=2, 2017-01-02T03:04)`, `Row(t=2, from='2017-01-01T00:00', to='2018-01-01T00:00')`, `SetRowAttrs(f, 1, x="y", n=2)`,
		`Row(v >< [1, 5])`, `Count(Row(v >< [-10, 10]))`, `Row(-3 < v <= 50)`, `Row(v != null)`, `Sum(Row(f=1), field=v)`, `Min(field=v)`, `Row(v == 5)`, `TopN(f, Row(g=1), n=3, ids=[0,1,2])`,
		`Rows(f, column=7, limit=2)`, `MinRow(field=f)`, `MaxRow(Row(g=1), field=f)`, `Set(3, v=9)`, `ClearRow(g=2)`, `SetColumnAttrs(1, a="b", c=[1,2])`,
		`GroupBy(Rows(f), Rows(g), limit=3)`, `Rows(f, previous=1, limit=2)`, `Store(Row(f=1), g=3)`, `Not(Row(f=1))`, `Shift(Row(f=1), n=2)`, `Options(Row(f=1), shards=[0,1])`,
	}

	n := r.N(2400, 96000)
	r.Cases("http", n, func(i int, id string, rng *vk.Rand) {
		if i%25 == 24 {
			setup()
		}
		if st := m.API.State(); st != pilosa.ClusterStateNormal {
			// an accepted cluster message (e.g. a well-formed ResizeInstruction or ClusterStatus) may
			// legitimately change the cluster state; that is not what this check judges. Start afresh.
			r.Count("cluster-state-changed-by-accepted-message", 1)
			if err := m.Reopen(); err != nil {
				t.Fatalf("reopen: %v", err)
			}
			setup()
			if st := m.API.State(); st != pilosa.ClusterStateNormal {
				t.Fatalf("server does not return to NORMAL after restart: %s", st)
			}
		}
		kind := rng.Intn(10)
		switch {
		case kind < 6:
			// ---- import-roaring with hostile view data
			data, dk := pilosa.VerifHostileRoaring(rng)
			field := []string{"f", "g", "t"}[rng.Intn(3)]
			view := ""
			if field == "t" && rng.Bool() {
				view = []string{"2017", "201701", "20170102", "bogus", "2017010203"}[rng.Intn(5)]
			}
			clear := rng.Chance(1, 4)
			views := map[string][]byte{view: data}
			sig := "import-roaring:" + dk
			if rng.Chance(1, 6) {
				d2, dk2 := pilosa.VerifHostileRoaring(rng)
				views["x"] = d2
				sig = "import-roaring:multiview:" + dk + "+" + dk2
			}
			wit := map[string]interface{}{"sig": sig, "entry": "import-roaring", "field": field, "view": view, "clear": clear, "data_hex": hex.EncodeToString(data[:minC06(len(data), 600)]), "len": len(data)}
			r.InFlightDetail(id, wit)
			body, err := ser.Marshal(&pilosa.ImportRoaringRequest{Clear: clear, Views: views})
			if err != nil {
				return
			}
			before, err := c06Snapshot(m, index)
			if err != nil {
				r.Fail("snapshot-error", id, err.Error(), wit)
				return
			}
			code, msg, err := post(fmt.Sprintf("/index/%s/field/%s/import-roaring/%d", index, field, rng.Intn(2)), "application/x-protobuf", body)
			r.Eval(1)
			r.Cover("entry:import-roaring")
			r.Distinct(vk.HashBytes(data), !strings.HasSuffix(dk, ":valid"))
			if err != nil {
				r.Fail("hang-or-conn:"+sig, id, fmt.Sprintf("request did not complete: %v", err), wit)
				return
			}
			if code != 200 {
				r.Cover("import:rejected")
				after, err := c06Snapshot(m, index)
				r.Eval(1)
				if err != nil {
					r.Fail("read-after-reject:"+sig, id, err.Error(), wit)
				} else if field != "t" && after != before {
					r.Fail("rejected-but-changed:"+sig, id, fmt.Sprintf("HTTP %d %s\nbefore %s\nafter  %s", code, msg, before, after), wit)
				}
			} else {
				r.Cover("import:accepted")
			}
			// follow-up write + read on the same fragment must be served (locks released)
			done := make(chan error, 1)
			go func() {
				_, err := m.API.Query(ctx, &pilosa.QueryRequest{Index: index, Query: fmt.Sprintf("Set(%d, %s=3) Row(%s=3) Clear(%d, %s=3)", 900000+rng.Intn(10), field, field, 900000, field)})
				done <- err
			}()
			select {
			case err := <-done:
				r.Eval(1)
				if err != nil {
					r.Fail("followup-error:"+sig, id, err.Error(), wit)
				}
			case <-time.After(60 * time.Second):
				r.Fail("followup-hang:"+sig, id, "follow-up write/read on the fragment did not return within 60s (lock not released?)", wit)
			}
			if r.WantSample() && !strings.HasSuffix(dk, ":valid") {
				r.Sample(wit)
			}
		case kind < 8:
			// ---- arbitrary query text
			q := pqlSeeds[rng.Intn(len(pqlSeeds))]
			b := []byte(q)
			mk := "valid"
			switch rng.Intn(7) {
			case 1:
				b = b[:rng.Intn(len(b)+1)]
				mk = "truncate"
			case 2:
				i := rng.Intn(len(b))
				repl := "()[],=<>\"'\\\x00\xff 9a-_:."
			b[i] = repl[rng.Intn(len(repl))]
				mk = "replace"
			case 3:
				i := rng.Intn(len(b) + 1)
				ins := []string{"(", ")", "[", "]", ",", "\"", "'", "\\", "\x00", "\xc3", "é", "9999999999999999999999", "-", "=", "><", "null", "\n"}[rng.Intn(17)]
				b = append(b[:i:i], append([]byte(ins), b[i:]...)...)
				mk = "insert"
			case 4:
				b = bytes.Repeat([]byte("Union("), 1+rng.Intn(300))
				mk = "deep-nesting"
			case 5:
				nb := make([]byte, rng.Intn(40))
				for k := range nb {
					nb[k] = byte(rng.Uint64())
				}
				b = nb
				mk = "random"
			case 6:
				b = append(b, b...)
				mk = "doubled"
			}
			if lb := bytes.IndexByte(b, '['); lb >= 0 && rng.Chance(1, 2) {
				// arity of a list argument: drop items, empty the list, or add items
				if rb := bytes.IndexByte(b[lb:], ']'); rb > 0 {
					items := bytes.Split(b[lb+1:lb+rb], []byte(","))
					var repl [][]byte
					switch rng.Intn(4) {
					case 0:
					case 1:
						repl = items[:1]
					case 2:
						repl = append(append([][]byte{}, items...), []byte(" 7"), []byte(" 8"))
					case 3:
						repl = [][]byte{[]byte(`"x"`), []byte("null")}
					}
					b = append(append(append([]byte{}, b[:lb+1]...), bytes.Join(repl, []byte(","))...), b[lb+rb:]...)
					mk += "+list-arity"
				}
			}
			sig := "query:" + mk
			wit := map[string]interface{}{"sig": sig, "entry": "query", "text": string(b)}
			r.InFlightDetail(id, wit)
			_, _, err := post("/index/"+index+"/query", "", b)
			r.Eval(1)
			r.Cover("entry:query")
			r.Distinct(vk.HashBytes(b), mk != "valid")
			if err != nil {
				r.Fail("hang-or-conn:"+sig, id, fmt.Sprintf("request did not complete: %v", err), wit)
			}
		default:
			// ---- cluster message bytes
			var b []byte
			mk := ""
			switch rng.Intn(5) {
			case 0:
				b, mk = nil, "empty"
			case 1:
				b, mk = []byte{byte(rng.Intn(256))}, "one-byte"
			case 2:
				// valid-looking: type byte + valid protobuf of some message
				msg := &pilosa.CreateShardMessage{Index: "other", Field: "f", Shard: uint64(rng.Intn(4))}
				pb, _ := ser.Marshal(msg)
				b, mk = append([]byte{byte(rng.Intn(20))}, pb...), "typed-body"
			case 3:
				pb, _ := ser.Marshal(&pilosa.CreateFieldMessage{Index: "other", Field: "zz"})
				b, mk = append([]byte{byte(rng.Intn(20))}, pb[:rng.Intn(len(pb)+1)]...), "typed-truncated"
			case 4:
				b = make([]byte, 1+rng.Intn(40))
				for k := range b {
					b[k] = byte(rng.Uint64())
				}
				mk = "random"
			}
			sig := "cluster-message:" + mk
			wit := map[string]interface{}{"sig": sig, "entry": "cluster-message", "hex": hex.EncodeToString(b)}
			if rng.Bool() {
				// the gossip delivery path (memberSet.NotifyMsg) hands the bytes to API.ClusterMessage
				// directly, with no recover around it: a panic here is a process crash in production
				sig = "cluster-message-gossip:" + mk
				wit["sig"], wit["entry"] = sig, "cluster-message (gossip path: API.ClusterMessage called directly)"
				r.InFlightDetail(id, wit)
				r.Guard(func() string { return "panic:" + sig }, id, func() interface{} { return wit }, func() {
					_ = m.API.ClusterMessage(ctx, bytes.NewReader(b))
				})
				r.Eval(1)
				r.Cover("entry:cluster-message")
				r.Cover("entry:cluster-message-gossip")
				r.Distinct(vk.HashBytes(b), true)
				return
			}
			r.InFlightDetail(id, wit)
			_, _, err := post("/internal/cluster/message", "application/x-protobuf", b)
			r.Eval(1)
			r.Cover("entry:cluster-message")
			r.Distinct(vk.HashBytes(b), true)
			if err != nil {
				r.Fail("hang-or-conn:"+sig, id, fmt.Sprintf("request did not complete: %v", err), wit)
			}
		}
	})
	// the server must still answer at the end
	if _, err := c06Snapshot(m, index); err != nil {
		r.Fail("final-read-error", "final", err.Error(), nil)
	}
}

func minC06(a, b int) int {
	if a < b {
		return a
	}
	return b
}
