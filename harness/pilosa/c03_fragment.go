package pilosa

// C03 (fragment leg) — rows handed out by a fragment are isolated values:
// they never change when the fragment is later written, snapshotted (remapped
// to a new file), or closed (unmapped); and mutating a handed-out row never
// changes the fragment. Every derived row is fingerprinted (Columns()) at
// birth and re-read after every later step. A read of unmapped memory kills
// the worker; the driver attributes it to the in-flight history.

import (
	"bytes"
	"context"
	"fmt"
	"os"
	"path/filepath"
	"testing"

	vk "github.com/pilosa/pilosa/internal/verifkit"
	"github.com/pilosa/pilosa/roaring"
)

type c03Held struct {
	how  string
	row  *Row
	want []uint64
	born int
}

func TestVerifC03Fragment(t *testing.T) {
	r := vk.Start(t, "C03")
	defer r.Finish()
	for _, c := range []string{"derive:row", "derive:rowFromStorage", "derive:union", "derive:intersect", "derive:difference", "derive:xor", "derive:shift",
		"step:setBit", "step:clearBit", "step:importRoaring", "step:setRow", "step:clearRow", "step:bulkImport", "step:snapshot", "step:reopen", "step:close", "step:mutate-held",
		"held-across:snapshot", "held-across:close", "held-across:write-same-container"} {
		r.Expect(c)
	}
	dir := filepath.Join(os.Getenv("VERIF_SCRATCH"), "c03frag")
	os.MkdirAll(dir, 0o755)

	n := r.N(1500, 60000)
	r.Cases("frag", n, func(i int, id string, rng *vk.Rand) {
		path := filepath.Join(dir, fmt.Sprintf("f-%d", i))
		defer os.Remove(path)
		defer os.Remove(path + ".cache")
		f := newFragment(path, "i", "f", viewStandard, 0, 0)
		f.MaxOpN = []int{2, 5, 50, 100000}[rng.Intn(4)]
		f.CacheType = []string{CacheTypeRanked, CacheTypeLRU, CacheTypeNone}[rng.Intn(3)]
		if err := f.Open(); err != nil {
			t.Fatalf("open: %v", err)
		}
		closed := false
		defer func() {
			if !closed {
				f.Close()
			}
		}()
		// model: row -> col set ; columns concentrated in 2 containers (edges included)
		model := map[uint64]map[uint64]bool{}
		cols := []uint64{0, 1, 2, 3, 100, 4095, 4096, 65535, 65536, 65537, 70000, 131071}
		set := func(row, col uint64, v bool) {
			if model[row] == nil {
				model[row] = map[uint64]bool{}
			}
			if v {
				model[row][col] = true
			} else {
				delete(model[row], col)
			}
		}
		mcols := func(row uint64) []uint64 {
			var out []uint64
			for c := range model[row] {
				out = append(out, c)
			}
			return vk.SortedU64(out)
		}
		var ops []string
		wit := func() interface{} { return map[string]interface{}{"sig": "crash:c03-fragment", "maxOpN": f.MaxOpN, "cache": f.CacheType, "ops": ops} }
		// seed data: some rows dense (bitmap/run containers after snapshot), some sparse
		for row := uint64(0); row < 3; row++ {
			for k := 0; k < 1+rng.Intn(8); k++ {
				c := cols[rng.Intn(len(cols))]
				f.setBit(row, c)
				set(row, c, true)
			}
		}
		if rng.Bool() {
			// contiguous: a run container after the next snapshot
			for c := uint64(200); c < 200+uint64(rng.Intn(6000)); c++ {
				f.setBit(1, c)
				set(1, c, true)
			}
		}
		if rng.Bool() {
			// every other column, more than 4096 of them in one container: stays a BITMAP container,
			// read straight out of the file mapping after a snapshot or reopen
			rowD := uint64(rng.Intn(3))
			nd := 4097 + rng.Intn(2000)
			rowsD, colsD := make([]uint64, 0, nd), make([]uint64, 0, nd)
			for k := 0; k < nd; k++ {
				c := uint64(2 * k)
				rowsD, colsD = append(rowsD, rowD), append(colsD, c)
				set(rowD, c, true)
			}
			if err := f.bulkImport(rowsD, colsD, &ImportOptions{}); err != nil {
				t.Fatalf("dense seed import: %v", err)
			}
		}
		var held []*c03Held
		check := func(stage string) bool {
			for _, h := range held {
				r.Eval(1)
				got := h.row.Columns()
				if !vk.EqualU64(got, h.want) {
					r.Fail("held-row-changed:"+h.how, id, fmt.Sprintf("%s: row derived by %s at step %d changed: %s; got %s want %s", stage, h.how, h.born, vk.DiffU64(got, h.want), vk.Brief(got), vk.Brief(h.want)), wit())
					return false
				}
			}
			if !closed {
				for row := uint64(0); row < 3; row++ {
					r.Eval(1)
					got := f.rowFromStorage(row).Columns()
					if !vk.EqualU64(got, mcols(row)) {
						r.Fail("fragment-changed-or-wrong", id, fmt.Sprintf("%s: fragment row %d: %s; got %s want %s", stage, row, vk.DiffU64(got, mcols(row)), vk.Brief(got), vk.Brief(mcols(row))), wit())
						return false
					}
				}
			}
			return true
		}
		nsteps := 6 + rng.Intn(14)
		sawSnapshotWithHeld, sawCloseWithHeld, sawWriteSame := false, false, false
		for step := 0; step < nsteps && !closed; step++ {
			r.InFlightDetail(id, wit())
			row := uint64(rng.Intn(3))
			switch k := rng.Intn(20); {
			case k < 5:
				// derive
				var h *c03Held
				switch rng.Intn(7) {
				case 0:
					h = &c03Held{how: "row", row: f.row(row), want: mcols(row)}
				case 1:
					h = &c03Held{how: "rowFromStorage", row: f.rowFromStorage(row), want: mcols(row)}
				case 2:
					o := uint64(rng.Intn(3))
					h = &c03Held{how: "union", row: f.row(row).Union(f.row(o)), want: vk.SortedU64(append(mcols(row), mcols(o)...))}
				case 3:
					o := uint64(rng.Intn(3))
					var w []uint64
					for _, c := range mcols(row) {
						if model[o][c] {
							w = append(w, c)
						}
					}
					h = &c03Held{how: "intersect", row: f.row(row).Intersect(f.row(o)), want: w}
				case 4:
					o := uint64(rng.Intn(3))
					var w []uint64
					for _, c := range mcols(row) {
						if !model[o][c] {
							w = append(w, c)
						}
					}
					h = &c03Held{how: "difference", row: f.row(row).Difference(f.row(o)), want: w}
				case 5:
					o := uint64(rng.Intn(3))
					var w []uint64
					for _, c := range mcols(row) {
						if !model[o][c] {
							w = append(w, c)
						}
					}
					for _, c := range mcols(o) {
						if !model[row][c] {
							w = append(w, c)
						}
					}
					h = &c03Held{how: "xor", row: f.row(row).Xor(f.row(o)), want: vk.SortedU64(w)}
				case 6:
					sh, err := f.row(row).Shift(1)
					if err != nil {
						continue
					}
					var w []uint64
					for _, c := range mcols(row) {
						if c+1 < ShardWidth {
							w = append(w, c+1)
						}
					}
					h = &c03Held{how: "shift", row: sh, want: w}
				}
				h.born = step
				ops = append(ops, fmt.Sprintf("hold %s(row %d)", h.how, row))
				r.Cover("derive:" + h.how)
				// the value must be right at birth as well
				if got := h.row.Columns(); !vk.EqualU64(got, h.want) {
					if h.how == "shift" {
						continue // Shift semantics are C15's business; only isolation is judged here
					}
					r.Fail("derived-wrong-at-birth:"+h.how, id, fmt.Sprintf("%s of row %d: %s", h.how, row, vk.DiffU64(got, h.want)), wit())
					return
				}
				held = append(held, h)
			case k < 8:
				c := cols[rng.Intn(len(cols))]
				ops = append(ops, fmt.Sprintf("setBit(%d,%d)", row, c))
				f.setBit(row, c)
				set(row, c, true)
				r.Cover("step:setBit")
				if len(held) > 0 {
					sawWriteSame = true
				}
			case k < 10:
				c := cols[rng.Intn(len(cols))]
				ops = append(ops, fmt.Sprintf("clearBit(%d,%d)", row, c))
				f.clearBit(row, c)
				set(row, c, false)
				r.Cover("step:clearBit")
				if len(held) > 0 {
					sawWriteSame = true
				}
			case k < 11:
				bm := roaring.NewBitmap()
				var cs []uint64
				for j := 0; j < 1+rng.Intn(5); j++ {
					c := cols[rng.Intn(len(cols))]
					cs = append(cs, c)
					bm.DirectAdd(row*ShardWidth + c)
				}
				var buf bytes.Buffer
				bm.WriteTo(&buf)
				clear := rng.Chance(1, 3)
				ops = append(ops, fmt.Sprintf("importRoaring(row %d, cols %v, clear=%v)", row, cs, clear))
				if err := f.importRoaring(nil2ctxC03(), buf.Bytes(), clear); err != nil {
					t.Fatalf("importRoaring: %v", err)
				}
				for _, c := range cs {
					set(row, c, !clear)
				}
				r.Cover("step:importRoaring")
			case k < 12:
				src := uint64(rng.Intn(3))
				ops = append(ops, fmt.Sprintf("setRow(row(%d) -> %d)", src, row))
				srcRow := f.row(src)
				f.setRow(srcRow, row)
				nm := map[uint64]bool{}
				for c := range model[src] {
					nm[c] = true
				}
				model[row] = nm
				r.Cover("step:setRow")
			case k < 13:
				ops = append(ops, fmt.Sprintf("clearRow(%d)", row))
				f.clearRow(row)
				delete(model, row)
				r.Cover("step:clearRow")
			case k < 14:
				var rs, cs []uint64
				for j := 0; j < 1+rng.Intn(6); j++ {
					rs = append(rs, row)
					cs = append(cs, cols[rng.Intn(len(cols))])
				}
				ops = append(ops, fmt.Sprintf("bulkImport(row %d, cols %v)", row, cs))
				for _, c := range cs {
					set(row, c, true)
				}
				if err := f.bulkImport(rs, append([]uint64(nil), cs...), &ImportOptions{}); err != nil {
					t.Fatalf("bulkImport: %v", err)
				}
				r.Cover("step:bulkImport")
			case k < 16:
				ops = append(ops, "Snapshot()")
				if err := f.Snapshot(); err != nil {
					t.Fatalf("snapshot: %v", err)
				}
				r.Cover("step:snapshot")
				if len(held) > 0 {
					sawSnapshotWithHeld = true
				}
			case k < 17:
				ops = append(ops, "Close();Open()")
				if err := f.Close(); err != nil {
					t.Fatalf("close: %v", err)
				}
				if err := f.Open(); err != nil {
					t.Fatalf("reopen: %v", err)
				}
				r.Cover("step:reopen")
				if len(held) > 0 {
					sawCloseWithHeld = true
				}
			case k < 18 && len(held) > 0:
				// hostile caller: write into a value it was handed; the fragment must not change
				h := held[rng.Intn(len(held))]
				c := cols[rng.Intn(len(cols))]
				ops = append(ops, fmt.Sprintf("held(%s@%d).SetBit(%d)", h.how, h.born, c))
				h.row.SetBit(c)
				h.want = vk.SortedU64(append(h.want, c))
				r.Cover("step:mutate-held")
			default:
				continue
			}
			r.InFlightDetail(id, wit())
			if !check(fmt.Sprintf("after step %d (%s)", step, ops[len(ops)-1])) {
				return
			}
		}
		// final: close (unmap) and re-read every held value
		ops = append(ops, "Close()")
		r.InFlightDetail(id, wit())
		if err := f.Close(); err != nil {
			t.Fatalf("close: %v", err)
		}
		closed = true
		r.Cover("step:close")
		if len(held) > 0 {
			sawCloseWithHeld = true
		}
		check("after final Close")
		if sawSnapshotWithHeld {
			r.Cover("held-across:snapshot")
		}
		if sawCloseWithHeld {
			r.Cover("held-across:close")
		}
		if sawWriteSame {
			r.Cover("held-across:write-same-container")
		}
		r.Distinct(vk.Hash64("c03f", id), len(held) > 0 && (sawSnapshotWithHeld || sawWriteSame))
		if r.WantSample() && len(held) > 1 {
			r.Sample(map[string]interface{}{"ops": ops})
		}
	})
}

func nil2ctxC03() context.Context { return context.Background() }
