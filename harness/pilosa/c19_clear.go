package pilosa_test

// C19 — Clearing a bit removes it from every time range. Real in-process
// server; histories of timestamped sets (sibling views included) followed by a
// Clear; oracle: the bit is absent from every view fragment and from every
// time-range / standard Row query until set again; other bits unchanged.

import (
	"context"
	"fmt"
	"sort"
	"testing"
	"time"

	"github.com/pilosa/pilosa"
	vk "github.com/pilosa/pilosa/internal/verifkit"
	"github.com/pilosa/pilosa/test"
)

type c19Case struct {
	Quantum    string   `json:"quantum"`
	NoStandard bool     `json:"noStandardView"`
	Ops        []string `json:"ops"`
}

func TestVerifC19(t *testing.T) {
	r := vk.Start(t, "C19")
	defer r.Finish()
	quanta := []string{"Y", "YM", "YMD", "YMDH", "M", "MD", "MDH", "D", "DH", "H"}
	for _, q := range quanta {
		r.Expect("quantum:" + q)
	}
	r.Expect("nostd:true", "nostd:false", "sibling-view-shared", "multi-view-bit", "reset-after-clear")

	m := test.MustRunCommand()
	defer m.Close()
	ctx := context.Background()
	nIdx := 0
	query := func(index, pq string) (pilosa.QueryResponse, error) {
		return m.API.Query(ctx, &pilosa.QueryRequest{Index: index, Query: pq})
	}

	n := r.N(400, 16000)
	r.Cases("hist", n, func(i int, id string, rng *vk.Rand) {
		q := quanta[rng.Intn(len(quanta))]
		noStd := rng.Chance(1, 4)
		nIdx++
		index := fmt.Sprintf("c%d", nIdx)
		if _, err := m.API.CreateIndex(ctx, index, pilosa.IndexOptions{}); err != nil {
			t.Fatalf("create index: %v", err)
		}
		defer m.API.DeleteIndex(ctx, index)
		if _, err := m.API.CreateField(ctx, index, "t", pilosa.OptFieldTypeTime(pilosa.TimeQuantum(q), noStd)); err != nil {
			t.Fatalf("create field: %v", err)
		}
		cs := c19Case{Quantum: q, NoStandard: noStd}
		sigBase := fmt.Sprintf("q=%s:nostd=%v", q, noStd)
		r.Cover("quantum:" + q)
		r.Cover(fmt.Sprintf("nostd:%v", noStd))

		// model: (row,col) -> set of timestamps it is currently set with
		type rc struct{ row, col uint64 }
		model := map[rc]map[int64]bool{}
		cols := []uint64{0, 3, 65536, pilosa.ShardWidth - 1, pilosa.ShardWidth + 5}
		times := []time.Time{}
		base := time.Date(2016, time.Month(1+rng.Intn(12)), 1+rng.Intn(28), rng.Intn(24), 0, 0, 0, time.UTC)
		for k := 0; k < 8; k++ {
			tm := base
			switch rng.Intn(6) {
			case 0:
				tm = base.Add(time.Duration(1+rng.Intn(30)) * time.Hour)
			case 1:
				tm = base.AddDate(0, 0, 1+rng.Intn(40))
			case 2:
				tm = base.AddDate(0, 1+rng.Intn(14), 0)
			case 3:
				tm = base.AddDate(1+rng.Intn(2), 0, 0)
			case 4:
				tm = base.AddDate(-1, rng.Intn(12), rng.Intn(28))
			}
			times = append(times, tm)
		}
		target := rc{uint64(rng.Intn(3)), cols[rng.Intn(len(cols))]}
		nSets := 1 + rng.Intn(6)
		do := func(pq string) bool {
			cs.Ops = append(cs.Ops, pq)
			if _, err := query(index, pq); err != nil {
				r.Fail("op-error:"+sigBase, id, fmt.Sprintf("%s: %v", pq, err), cs)
				return false
			}
			return true
		}
		set := func(x rc, tm time.Time) bool {
			if model[x] == nil {
				model[x] = map[int64]bool{}
			}
			model[x][tm.Unix()] = true
			return do(fmt.Sprintf("Set(%d, t=%d, %s)", x.col, x.row, tm.Format(pilosa.TimeFormat)))
		}
		// timestamped sets of the target bit
		for k := 0; k < nSets; k++ {
			if !set(target, times[rng.Intn(len(times))]) {
				return
			}
		}
		// sibling bits: other columns/rows creating and sharing views
		nSib := rng.Intn(7)
		for k := 0; k < nSib; k++ {
			x := rc{uint64(rng.Intn(3)), cols[rng.Intn(len(cols))]}
			if x == target {
				continue
			}
			if !set(x, times[rng.Intn(len(times))]) {
				return
			}
		}
		if len(model[target]) >= 2 {
			r.Cover("multi-view-bit")
		}
		shared := false
		for x, ts := range model {
			if x != target {
				for tt := range ts {
					if model[target][tt] {
						shared = true
					}
				}
			}
		}
		if shared {
			r.Cover("sibling-view-shared")
		}
		r.Distinct(vk.Hash64("c19", id), len(model[target]) >= 2 && shared)
		if r.WantSample() {
			defer func() { r.Sample(cs) }()
		}

		verify := func(stage string) {
			f := m.Server.Holder().Field(index, "t")
			// 1. every view fragment
			for x := range model {
				bitsIn := pilosa.VerifViewBits(f, x.row, x.col)
				r.Eval(len(bitsIn))
				if len(model[x]) == 0 {
					for vn, b := range bitsIn {
						if b {
							r.Fail("view-still-set:"+sigBase, id, fmt.Sprintf("%s: bit (row %d,col %d) still set in view %s after Clear", stage, x.row, x.col, vn), cs)
						}
					}
				} else {
					// every view that one of its timestamps maps to must hold it
					for tt := range model[x] {
						tm := time.Unix(tt, 0).UTC()
						for _, u := range q {
							layout := map[rune]string{'Y': "2006", 'M': "200601", 'D': "20060102", 'H': "2006010215"}[u]
							vn := "standard_" + tm.Format(layout)
							if b, ok := bitsIn[vn]; !ok || !b {
								r.Fail("sibling-lost:"+sigBase, id, fmt.Sprintf("%s: bit (row %d,col %d) set at %s missing from view %s", stage, x.row, x.col, tm.Format(pilosa.TimeFormat), vn), cs)
							}
						}
					}
				}
			}
			// 2. queries: standard row, whole span, and the finest-unit interval of every timestamp used
			finest := q[len(q)-1]
			for row := uint64(0); row < 3; row++ {
				check := func(pq string, want map[uint64]bool, what string) {
					resp, err := query(index, pq)
					r.Eval(1)
					if err != nil {
						r.Fail("query-error:"+sigBase, id, fmt.Sprintf("%s %s: %v", stage, pq, err), cs)
						return
					}
					row0, ok := resp.Results[0].(*pilosa.Row)
					if !ok {
						return
					}
					got := row0.Columns()
					var exp []uint64
					for c := range want {
						exp = append(exp, c)
					}
					sort.Slice(exp, func(a, b int) bool { return exp[a] < exp[b] })
					if !vk.EqualU64(got, exp) {
						r.Fail(what+":"+sigBase, id, fmt.Sprintf("%s %s: got %v want %v", stage, pq, got, exp), cs)
					}
				}
				if !noStd {
					want := map[uint64]bool{}
					for x, ts := range model {
						if x.row == row && len(ts) > 0 {
							want[x.col] = true
						}
					}
					check(fmt.Sprintf("Row(t=%d)", row), want, "standard-row")
				}
				rangeQ := func(from, to time.Time) {
					want := map[uint64]bool{}
					for x, ts := range model {
						if x.row != row {
							continue
						}
						for tt := range ts {
							tm := time.Unix(tt, 0).UTC()
							if !tm.Before(from) && tm.Before(to) {
								want[x.col] = true
							}
						}
					}
					check(fmt.Sprintf("Row(t=%d, from='%s', to='%s')", row, from.Format(pilosa.TimeFormat), to.Format(pilosa.TimeFormat)), want, "range-row")
				}
				rangeQ(time.Date(2014, 1, 1, 0, 0, 0, 0, time.UTC), time.Date(2020, 1, 1, 0, 0, 0, 0, time.UTC))
				for _, tm := range times {
					from := c18Floor(tm, finest)
					rangeQ(from, c18AddU(from, finest, 1))
				}
			}
		}

		verify("before-clear")
		// the clear
		delete(model, target)
		model[target] = map[int64]bool{}
		if !do(fmt.Sprintf("Clear(%d, t=%d)", target.col, target.row)) {
			return
		}
		verify("after-clear")
		// set again (sometimes) with one timestamp: must reappear exactly there
		if rng.Bool() {
			r.Cover("reset-after-clear")
			if !set(target, times[rng.Intn(len(times))]) {
				return
			}
			verify("after-reset")
			if rng.Bool() {
				model[target] = map[int64]bool{}
				if !do(fmt.Sprintf("Clear(%d, t=%d)", target.col, target.row)) {
					return
				}
				verify("after-second-clear")
			}
		}
	})
}
