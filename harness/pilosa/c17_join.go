package pilosa_test

// C17 (join leg) — "the result is the same whichever node coordinates". A node
// JOINS a loaded real cluster (the coordinator runs the resize job and hands
// the new member the schema); afterwards the same queries are sent through
// every member, the new one included, and must answer as they did before the
// join. The indexes use the options whose effect is visible in answers: column
// and row KEYS (answers carry keys) and EXISTENCE TRACKING (Not() needs it).

import (
	"context"
	"fmt"
	"io/ioutil"
	"path"
	"sort"
	"strings"
	"testing"
	"time"

	"github.com/pilosa/pilosa"
	vk "github.com/pilosa/pilosa/internal/verifkit"
	"github.com/pilosa/pilosa/test"
)

func TestVerifC17Join(t *testing.T) {
	r := vk.Start(t, "C17")
	defer r.Finish()
	r.Expect("join:n1", "join:n2", "join:keyed-index", "join:existence-index", "join:asked-through-new-member")
	ctx := context.Background()
	pool := []string{"node0", "node1", "node2", "a", "b", "zz", "N9", "0", "10", "m"}
	n := r.N(12, 480)
	r.Cases("join", n, func(i int, id string, rng *vk.Rand) {
		nn := 1 + rng.Intn(2)
		perm := rng.Perm(len(pool))
		ids := make([]string, 0, nn+1)
		for k := 0; k <= nn; k++ {
			ids = append(ids, pool[perm[k]])
		}
		joiner := ids[nn]
		ids = ids[:nn]
		c := c20cStart(t, ids, 1)
		all := append(test.Cluster{}, c...)
		defer func() {
			for _, m := range all {
				m.Close()
			}
		}()
		var cn *test.Command
		for _, m := range c {
			if m.API.Node().IsCoordinator {
				cn = m
			}
		}
		var writes []string
		wit := func() interface{} {
			return map[string]interface{}{"node_ids": ids, "joining_node": joiner, "writes": writes}
		}
		// keyed index
		if _, err := cn.API.CreateIndex(ctx, "ik", pilosa.IndexOptions{Keys: true}); err != nil {
			t.Fatal(err)
		}
		if _, err := vrcCreateField(cn.API, "ik", "k", pilosa.OptFieldTypeSet(pilosa.CacheTypeNone, 0), pilosa.OptFieldKeys()); err != nil {
			t.Fatal(err)
		}
		// index with existence tracking, several shards
		if _, err := cn.API.CreateIndex(ctx, "ie", pilosa.IndexOptions{TrackExistence: true}); err != nil {
			t.Fatal(err)
		}
		if _, err := vrcCreateField(cn.API, "ie", "f", pilosa.OptFieldTypeSet(pilosa.CacheTypeRanked, 100)); err != nil {
			t.Fatal(err)
		}
		var sb strings.Builder
		for k := 0; k < 4+rng.Intn(12); k++ {
			fmt.Fprintf(&sb, "Set(%q, k=%q) ", fmt.Sprintf("col-%d", k), fmt.Sprintf("row-%d", k%3))
		}
		writes = append(writes, "ik: "+sb.String())
		if _, err := cn.API.Query(ctx, &pilosa.QueryRequest{Index: "ik", Query: sb.String()}); err != nil {
			r.FailOrUndecided("join:write-error", id, err.Error(), wit())
			return
		}
		sb.Reset()
		for k := 0; k < 6+rng.Intn(12); k++ {
			fmt.Fprintf(&sb, "Set(%d, f=%d) ", uint64(rng.Intn(5))*pilosa.ShardWidth+uint64(rng.Intn(50)), rng.Intn(3))
		}
		writes = append(writes, "ie: "+sb.String())
		if _, err := c[rng.Intn(nn)].API.Query(ctx, &pilosa.QueryRequest{Index: "ie", Query: sb.String()}); err != nil {
			r.FailOrUndecided("join:write-error", id, err.Error(), wit())
			return
		}
		type q struct{ index, pql, class string }
		qs := []q{{"ik", `Row(k="row-0")`, "keyed"}, {"ik", `Row(k="row-1")`, "keyed"}, {"ik", `Count(Row(k="row-2"))`, "keyed"},
			{"ie", "Not(Row(f=1))", "existence"}, {"ie", "Count(Not(Row(f=0)))", "existence"}, {"ie", "Row(f=2)", "plain"}, {"ie", "Count(Row(f=1))", "plain"}}
		canon := func(res interface{}) string {
			switch v := res.(type) {
			case *pilosa.Row:
				ks := append([]string(nil), v.Keys...)
				sort.Strings(ks)
				return fmt.Sprintf("columns=%v keys=%q", v.Columns(), ks)
			case uint64:
				return fmt.Sprintf("count=%d", v)
			}
			return fmt.Sprintf("%T %v", res, res)
		}
		ref := map[string]string{}
		for _, x := range qs {
			resp, err := cn.API.Query(ctx, &pilosa.QueryRequest{Index: x.index, Query: x.pql})
			if err != nil {
				r.FailOrUndecided("join:before:query-error:"+x.class, id, x.pql+": "+err.Error(), wit())
				return
			}
			ref[x.pql] = canon(resp.Results[0])
		}
		// ---- the join
		m := test.NewCommandNode(false)
		m.Config.Gossip.Port = "0"
		m.Config.Gossip.Seeds = []string{cn.GossipAddress()}
		m.Config.Cluster.ReplicaN = 1
		m.Config.AntiEntropy.Interval = 0
		m.Config.Metric.Diagnostics = false
		if err := ioutil.WriteFile(path.Join(m.Config.DataDir, ".id"), []byte(joiner), 0600); err != nil {
			t.Fatal(err)
		}
		if err := m.Start(); err != nil {
			r.Note("inconclusive:"+id, "joining node failed to start: "+err.Error())
			return
		}
		all = append(all, m)
		c = append(c, m)
		if !c21cWaitNormal(c, nn+1) {
			r.Note("inconclusive:"+id, "cluster did not reach NORMAL with the new member (watchdog)")
			return
		}
		if m.Server.Holder().Index("ik") == nil || m.Server.Holder().Index("ie") == nil {
			r.Fail("join:new-member-without-schema", id, "the cluster is NORMAL with the new member, but the new member has no schema: every query it coordinates fails with 'index not found'", wit())
			return
		}
		deadline := time.Now().Add(45 * time.Second)
		for pilosa.VerifTranslateSize(m.API) < pilosa.VerifTranslateSize(cn.API) {
			if time.Now().After(deadline) {
				r.Note("inconclusive:"+id, "the new member did not obtain the key translation log within the watchdog")
				return
			}
			time.Sleep(5 * time.Millisecond)
		}
		r.Cover(fmt.Sprintf("join:n%d", nn))
		ok := true
		for _, x := range qs {
			for _, nd := range c {
				resp, err := nd.API.Query(ctx, &pilosa.QueryRequest{Index: x.index, Query: x.pql})
				r.Eval(1)
				who := "old-member"
				if nd == m {
					who = "new-member"
					r.Cover("join:asked-through-new-member")
				}
				got := ""
				if err != nil {
					got = "error: " + err.Error()
				} else {
					got = canon(resp.Results[0])
				}
				if got != ref[x.pql] {
					r.FailOrUndecided(fmt.Sprintf("join:answer-changed:%s:via-%s", x.class, who), id, fmt.Sprintf("%s on %s through %s (%s) answers %s; before the join: %s", x.pql, x.index, nd.API.Node().ID, who, got, ref[x.pql]), wit())
					ok = false
				}
			}
			switch x.class {
			case "keyed":
				r.Cover("join:keyed-index")
			case "existence":
				r.Cover("join:existence-index")
			}
		}
		r.Distinct(vk.Hash64("c17j", id), ok)
	})
}
