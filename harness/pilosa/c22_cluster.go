package pilosa_test

// C22 (cluster leg) — resize jobs on REAL gossip clusters, with aborts. A
// loaded cluster of 1..2 nodes is joined by a new node; while the coordinator's
// resize job runs, the harness calls the public ResizeAbort (once, twice, or
// not at all) after a drawn number of observed hook events, or asks for a node
// removal in the middle of the job. Monitors:
//
//   - online, on the coordinator's hook events: never two jobs between
//     job.start and job.complete; every started job completes; the member list
//     (cluster.addNode/removeNode events) changes only while no job is running
//     or after that job reported DONE;
//   - at the end (watchdog-bounded wait; expiry is inconclusive): no node is
//     left RESIZING, all members agree on the member list, the list is either
//     the old or the new membership, and every owner under it holds exactly
//     the bits recorded before the change.

import (
	"context"
	"fmt"
	"io/ioutil"
	"path"
	"sort"
	"strings"
	"sync"
	"testing"
	"time"

	"github.com/pilosa/pilosa"
	vk "github.com/pilosa/pilosa/internal/verifkit"
	"github.com/pilosa/pilosa/test"
)

type c22cCase struct {
	IDs      []string `json:"node_ids"`
	Replicas int      `json:"replicas"`
	Joiner   string   `json:"joining_node"`
	Action   string   `json:"action"`
	AfterEv  int      `json:"act_after_events"`
	Events   []string `json:"coordinator_events"`
	Final    []string `json:"final_states"`
}

type c22cMon struct {
	mu       sync.Mutex
	events   []string
	running  map[uint64]bool
	done     map[uint64]string
	viol     string
	n        int
	trigger  int
	fire     chan struct{}
	fired    bool
	lastDone string
}

func (m *c22cMon) hook(name string, a, b uint64) uint64 {
	if !strings.HasPrefix(name, "cluster.") {
		return 0
	}
	m.mu.Lock()
	defer m.mu.Unlock()
	switch name {
	case "cluster.job.start":
		if len(m.running) > 0 && m.viol == "" {
			m.viol = fmt.Sprintf("job %d started while %v still running", a, m.running)
		}
		m.running[a] = true
		m.events = append(m.events, fmt.Sprintf("job.start %d", a))
	case "cluster.job.complete":
		delete(m.running, a)
		m.events = append(m.events, fmt.Sprintf("job.complete %d", a))
	case "cluster.hna.result":
		m.events = append(m.events, fmt.Sprintf("hna.result %d", a))
	case "cluster.mric.enter":
		m.events = append(m.events, fmt.Sprintf("complete-msg %d", a))
	default:
		return 0
	}
	m.n++
	if !m.fired && m.trigger >= 0 && m.n >= m.trigger {
		m.fired = true
		close(m.fire)
	}
	return 0
}

func TestVerifC22Cluster(t *testing.T) {
	r := vk.Start(t, "C22")
	defer r.Finish()
	r.Expect("cluster:action:none", "cluster:action:abort", "cluster:action:abort-twice", "cluster:action:remove-during-job", "cluster:outcome:joined", "cluster:outcome:aborted-old-membership", "cluster:abort-refused-not-running")
	ctx := context.Background()
	pool := []string{"node0", "node1", "node2", "a", "b", "zz", "N9", "0", "10", "m"}
	n := r.N(48, 1920)
	r.Cases("cluster", n, func(i int, id string, rng *vk.Rand) {
		nn := 1 + rng.Intn(2)
		perm := rng.Perm(len(pool))
		ids := make([]string, 0, nn+1)
		for k := 0; k <= nn; k++ {
			ids = append(ids, pool[perm[k]])
		}
		joiner := ids[nn]
		ids = ids[:nn]
		rep := 1 + rng.Intn(2)
		action := []string{"none", "abort", "abort", "abort-twice", "remove-during-job"}[rng.Intn(5)]
		if action == "remove-during-job" && nn < 2 {
			action = "abort"
		}
		cs := &c22cCase{IDs: ids, Replicas: rep, Joiner: joiner, Action: action, AfterEv: rng.Intn(4)}
		r.InFlightDetail(id, cs)
		mon := &c22cMon{running: map[uint64]bool{}, done: map[uint64]string{}, trigger: -1, fire: make(chan struct{})}
		c := c20cStart(t, ids, rep)
		all := append(test.Cluster{}, c...)
		defer func() {
			pilosa.SetVerifHook(nil)
			for _, m := range all {
				m.Close()
			}
		}()
		var cnode *test.Command
		for _, m := range c {
			if m.API.Node().IsCoordinator {
				cnode = m
			}
		}
		// ---- data: enough shards that the job has several fragments to move
		if _, err := c[0].API.CreateIndex(ctx, "i", pilosa.IndexOptions{}); err != nil {
			t.Fatal(err)
		}
		for _, f := range []string{"f", "g"} {
			if _, err := vrcCreateField(c[0].API, "i", f, pilosa.OptFieldTypeSet(pilosa.CacheTypeRanked, 100)); err != nil {
				t.Fatal(err)
			}
		}
		nsh := 4 + rng.Intn(8)
		var sb strings.Builder
		for sh := 0; sh < nsh; sh++ {
			for k := 0; k < 3; k++ {
				fmt.Fprintf(&sb, "Set(%d, %s=%d) ", uint64(sh)*pilosa.ShardWidth+uint64(rng.Intn(5000)), []string{"f", "g"}[rng.Intn(2)], rng.Intn(3))
			}
		}
		if _, err := c[0].API.Query(ctx, &pilosa.QueryRequest{Index: "i", Query: sb.String()}); err != nil {
			r.FailOrUndecided("cluster:write-error", id, err.Error(), cs)
			return
		}
		type key struct {
			field string
			shard uint64
		}
		model := map[key][]uint64{}
		for _, m := range c {
			for _, f := range []string{"f", "g"} {
				for sh := 0; sh < nsh; sh++ {
					if ps, ok := pilosa.VerifFragPositions(m.Server.Holder(), "i", f, "standard", uint64(sh)); ok && len(ps) > 0 {
						model[key{f, uint64(sh)}] = ps
					}
				}
			}
		}
		oldSet := strings.Join(vcSorted(ids), ",")
		newSet := strings.Join(vcSorted(append(append([]string{}, ids...), joiner)), ",")
		// ---- monitor on, node joins
		mon.trigger = cs.AfterEv
		if action == "none" {
			mon.trigger = -1
		}
		pilosa.SetVerifHook(mon.hook)
		jm := test.NewCommandNode(false)
		jm.Config.Gossip.Port = "0"
		jm.Config.Gossip.Seeds = []string{cnode.GossipAddress()}
		jm.Config.Cluster.ReplicaN = rep
		jm.Config.AntiEntropy.Interval = 0
		jm.Config.Metric.Diagnostics = false
		if err := ioutil.WriteFile(path.Join(jm.Config.DataDir, ".id"), []byte(joiner), 0600); err != nil {
			t.Fatal(err)
		}
		all = append(all, jm)
		startErr := make(chan error, 1)
		go func() { startErr <- jm.Start() }()
		var abortErrs []string
		if action != "none" {
			select {
			case <-mon.fire:
			case <-time.After(20 * time.Second):
			}
			switch action {
			case "abort", "abort-twice":
				for k := 0; k < map[string]int{"abort": 1, "abort-twice": 2}[action]; k++ {
					if err := cnode.API.ResizeAbort(); err != nil {
						abortErrs = append(abortErrs, err.Error())
						r.Cover("cluster:abort-refused-not-running")
					} else {
						abortErrs = append(abortErrs, "ok")
					}
				}
			case "remove-during-job":
				victim := ""
				for _, m := range c {
					if !m.API.Node().IsCoordinator {
						victim = m.API.Node().ID
					}
				}
				_, err := cnode.API.RemoveNode(victim)
				abortErrs = append(abortErrs, fmt.Sprintf("RemoveNode(%s): %v", victim, err))
			}
		}
		select {
		case err := <-startErr:
			if err != nil {
				abortErrs = append(abortErrs, "joiner start: "+err.Error())
			}
		case <-time.After(60 * time.Second):
			r.Note("inconclusive:"+id, "joining node's Start did not return (watchdog)")
			return
		}
		// ---- wait until nobody is RESIZING and the old members agree on a list (watchdog)
		members := func(m *test.Command) string {
			var out []string
			for _, nd := range m.API.Hosts(nil) {
				out = append(out, nd.ID)
			}
			sort.Strings(out)
			return strings.Join(out, ",")
		}
		deadline := time.Now().Add(90 * time.Second)
		settled := false
		for !settled {
			settled = true
			for _, m := range c {
				if m.API.State() == pilosa.ClusterStateResizing || m.API.State() == pilosa.ClusterStateStarting || members(m) != members(c[0]) {
					settled = false
				}
			}
			mon.mu.Lock()
			if len(mon.running) > 0 {
				settled = false
			}
			mon.mu.Unlock()
			if !settled {
				if time.Now().After(deadline) {
					break
				}
				time.Sleep(5 * time.Millisecond)
			}
		}
		mon.mu.Lock()
		cs.Events = append(append([]string{}, mon.events...), abortErrs...)
		viol, running := mon.viol, len(mon.running)
		mon.mu.Unlock()
		for _, m := range all {
			cs.Final = append(cs.Final, fmt.Sprintf("%s:%s[%s]", m.API.Node().ID, m.API.State(), members(m)))
		}
		r.Eval(1)
		if viol != "" {
			r.FailOrUndecided("cluster:two-jobs:"+action, id, viol, cs)
			return
		}
		if !settled {
			r.Note("inconclusive:"+id, fmt.Sprintf("not settled within the watchdog (running jobs %d): %v", running, cs.Final))
			r.Cover("cluster:observed:not-settled-within-watchdog:" + action)
			return
		}
		got := members(c[0])
		r.Eval(1)
		if got != oldSet && got != newSet {
			r.FailOrUndecided("cluster:membership-neither-old-nor-new:"+action, id, fmt.Sprintf("members after the job: [%s]; old [%s], new [%s]", got, oldSet, newSet), cs)
			return
		}
		// data under the final membership
		final := c
		if got == newSet {
			final = append(append(test.Cluster{}, c...), jm)
			r.Cover("cluster:outcome:joined")
		} else {
			r.Cover("cluster:outcome:aborted-old-membership")
		}
		byID := map[string]*test.Command{}
		for _, m := range final {
			byID[m.API.Node().ID] = m
		}
		for k, want := range model {
			nodes, err := c[0].API.ShardNodes(ctx, "i", k.shard)
			if err != nil {
				r.FailOrUndecided("cluster:shardnodes-error", id, err.Error(), cs)
				return
			}
			for _, nd := range nodes {
				m := byID[nd.ID]
				r.Eval(1)
				if m == nil {
					r.FailOrUndecided("cluster:owner-not-a-member:"+action, id, fmt.Sprintf("i/%s/%d owned by %s, members [%s]", k.field, k.shard, nd.ID, got), cs)
					return
				}
				ps, _ := pilosa.VerifFragPositions(m.Server.Holder(), "i", k.field, "standard", k.shard)
				if !vk.EqualU64(ps, want) {
					outcome := "joined"
					if got == oldSet {
						outcome = "aborted"
					}
					r.FailOrUndecided("cluster:owner-lacks-data:"+action+":"+outcome, id, fmt.Sprintf("after %s (%s) node %s owns i/%s/%d but holds %s, recorded %s", action, outcome, nd.ID, k.field, k.shard, vk.Brief(ps), vk.Brief(want)), cs)
					return
				}
			}
		}
		if got == oldSet {
			// the node whose join was aborted: it was told RESIZING with the job's membership; the job has ended
			grace := time.Now().Add(5 * time.Second)
			for jm.API.State() == pilosa.ClusterStateResizing && time.Now().Before(grace) {
				time.Sleep(10 * time.Millisecond)
			}
			r.Eval(1)
			if st := jm.API.State(); st == pilosa.ClusterStateResizing {
				r.FailOrUndecided("cluster:joiner-left-resizing-after-abort", id, fmt.Sprintf("the job ended ABORTED, members are back to NORMAL [%s], but the joining node %s still reports %s with members [%s] (5 s after the members settled)", got, joiner, st, members(jm)), cs)
			}
		}
		r.Cover("cluster:action:" + action)
		r.Distinct(vk.Hash64("c22c", id), true)
		if r.WantSample() {
			r.Sample(cs)
		}
	})
}

func vcSorted(xs []string) []string {
	out := append([]string(nil), xs...)
	sort.Strings(out)
	return out
}
