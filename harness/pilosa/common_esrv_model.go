package pilosa_test

// E-SRV — logical-column-set model of one index and an evaluator for the PQL
// subset the API-level properties (C14, C15, C16, C28) cover. The model follows
// docs/query-language.md: a field is a set of (row, column) bits, time fields
// additionally remember (row, column, timestamp) bits, int fields are a plain
// map column -> value, the existence set holds every column written by Set or
// by a bulk (id/value) import.

import (
	"fmt"
	"sort"
	"strings"
	"time"
)

const mSW = uint64(1) << 20 // default shard width

// ---------------------------------------------------------------- sets

type mSet map[uint64]struct{}

func (s mSet) sorted() []uint64 {
	out := make([]uint64, 0, len(s))
	for c := range s {
		out = append(out, c)
	}
	sort.Slice(out, func(i, j int) bool { return out[i] < out[j] })
	return out
}

func mFromSlice(xs []uint64) mSet {
	s := mSet{}
	for _, x := range xs {
		s[x] = struct{}{}
	}
	return s
}

func mSortU64(xs []uint64) []uint64 {
	out := append([]uint64(nil), xs...)
	sort.Slice(out, func(i, j int) bool { return out[i] < out[j] })
	return out
}

// ---------------------------------------------------------------- model

type mTBit struct {
	Row, Col uint64
	T        int64 // unix seconds (timestamps are generated on whole hours)
}

type mField struct {
	Name    string
	Type    string // set | mutex | bool | time | int
	Quantum string // time fields
	NoStd   bool   // time fields: no standard view
	Min     int64  // int fields
	Max     int64
	Rows    map[uint64]mSet // standard view: row -> columns
	TBits   map[mTBit]struct{}
	Vals    map[uint64]int64
	Depth   uint // int fields: bits needed by the largest magnitude ever written (the field's bit depth; Base is 0)
	// ShardDepth is the same per shard: in a cluster every node grows its own bit
	// depth from the values it receives, so a node's depth is >= that of each shard it owns.
	ShardDepth map[uint64]uint
}

type mIndex struct {
	Track  bool
	Exists mSet
	Fields map[string]*mField
	Order  []string
}

func newMIndex(track bool) *mIndex {
	return &mIndex{Track: track, Exists: mSet{}, Fields: map[string]*mField{}}
}

func (m *mIndex) addField(f *mField) *mField {
	f.Rows = map[uint64]mSet{}
	f.TBits = map[mTBit]struct{}{}
	f.Vals = map[uint64]int64{}
	m.Fields[f.Name] = f
	m.Order = append(m.Order, f.Name)
	return f
}

func (f *mField) row(r uint64) mSet {
	s := f.Rows[r]
	if s == nil {
		return mSet{}
	}
	return s
}

func (f *mField) has(r, c uint64) bool {
	_, ok := f.Rows[r][c]
	return ok
}

func (f *mField) put(r, c uint64) {
	if f.Rows[r] == nil {
		f.Rows[r] = mSet{}
	}
	f.Rows[r][c] = struct{}{}
}

func (f *mField) del(r, c uint64) {
	if s := f.Rows[r]; s != nil {
		delete(s, c)
		if len(s) == 0 {
			delete(f.Rows, r)
		}
	}
}

// hasAnyT reports whether (r,c) is present with any timestamp.
func (f *mField) hasAnyT(r, c uint64) bool {
	for b := range f.TBits {
		if b.Row == r && b.Col == c {
			return true
		}
	}
	return false
}

// setBit models Set(col, f=row[, ts]) / one imported bit. It returns whether
// anything changed (the documented result of Set).
func (m *mIndex) setBit(f *mField, r, c uint64, ts *time.Time, exist bool) (changed bool) {
	if exist && m.Track {
		m.Exists[c] = struct{}{}
	}
	if f.Type == "mutex" || f.Type == "bool" {
		for or := range f.Rows {
			if or != r && f.has(or, c) {
				f.del(or, c)
			}
		}
	}
	if !(f.Type == "time" && f.NoStd) {
		if !f.has(r, c) {
			changed = true
			f.put(r, c)
		}
	}
	if ts != nil && f.Type == "time" && f.Quantum != "" {
		k := mTBit{r, c, mTruncQ(*ts, f.Quantum).Unix()}
		// a bit is visible per view; two timestamps inside the same finest unit are the same bit
		if _, ok := f.TBits[k]; !ok {
			// changed is reported when any view changed; a coarser view may already hold the bit,
			// but the finest view did not, so something changed.
			changed = true
			f.TBits[k] = struct{}{}
		}
	}
	return changed
}

// clearBit models Clear(col, f=row): the bit disappears from the standard view
// and from every time view.
func (m *mIndex) clearBit(f *mField, r, c uint64) (changed bool) {
	if f.Type == "int" {
		return false
	}
	if f.has(r, c) {
		changed = true
		f.del(r, c)
	}
	for b := range f.TBits {
		if b.Row == r && b.Col == c {
			delete(f.TBits, b)
			changed = true
		}
	}
	return changed
}

func (m *mIndex) clearRow(f *mField, r uint64) (changed bool) {
	if len(f.Rows[r]) > 0 {
		changed = true
	}
	delete(f.Rows, r)
	for b := range f.TBits {
		if b.Row == r {
			delete(f.TBits, b)
			changed = true
		}
	}
	return changed
}

// store models Store(<row call>, f=row): the row is replaced.
func (m *mIndex) store(f *mField, r uint64, cols []uint64) {
	delete(f.Rows, r)
	for _, c := range cols {
		f.put(r, c)
	}
}

func (m *mIndex) setValue(f *mField, c uint64, v int64, exist bool) (changed bool) {
	if exist && m.Track {
		m.Exists[c] = struct{}{}
	}
	old, ok := f.Vals[c]
	f.Vals[c] = v
	if d := mBitLen(v); d > f.Depth {
		f.Depth = d
	}
	if f.ShardDepth == nil {
		f.ShardDepth = map[uint64]uint{}
	}
	if d := mBitLen(v); d > f.ShardDepth[c/mSW] {
		f.ShardDepth[c/mSW] = d
	}
	return !ok || old != v
}

// mBitLen returns the number of bits needed for |v|.
func mBitLen(v int64) uint {
	u := uint64(v)
	if v < 0 {
		u = uint64(-v)
	}
	n := uint(0)
	for u > 0 {
		n++
		u >>= 1
	}
	return n
}

// beyondDepth reports whether predicate p lies at or beyond the edge of the
// value range representable at the field's current bit depth (|p| >= 2^depth-1).
func (f *mField) beyondDepth(p int64) bool { return mBeyond(f.Depth, p) }

func mBeyond(depth uint, p int64) bool {
	if depth >= 63 {
		return false
	}
	lim := int64(1)<<depth - 1
	return p >= lim || p <= -lim
}

// minShardDepth returns the smallest per-shard depth among shards holding values.
func (f *mField) minShardDepth() uint {
	d, first := f.Depth, true
	for _, sd := range f.ShardDepth {
		if first || sd < d {
			d, first = sd, false
		}
	}
	return d
}

func (m *mIndex) clearValue(f *mField, c uint64) {
	delete(f.Vals, c)
}

// ---------------------------------------------------------------- time helpers

const mTimeFmt = "2006-01-02T15:04"

// mFinest returns the finest unit of a quantum.
func mFinest(q string) byte {
	if q == "" {
		return 0
	}
	return q[len(q)-1]
}

func mTruncUnit(t time.Time, u byte) time.Time {
	switch u {
	case 'Y':
		return time.Date(t.Year(), 1, 1, 0, 0, 0, 0, time.UTC)
	case 'M':
		return time.Date(t.Year(), t.Month(), 1, 0, 0, 0, 0, time.UTC)
	case 'D':
		return time.Date(t.Year(), t.Month(), t.Day(), 0, 0, 0, 0, time.UTC)
	default:
		return time.Date(t.Year(), t.Month(), t.Day(), t.Hour(), 0, 0, 0, time.UTC)
	}
}

func mNextUnit(t time.Time, u byte) time.Time {
	switch u {
	case 'Y':
		return t.AddDate(1, 0, 0)
	case 'M':
		return t.AddDate(0, 1, 0)
	case 'D':
		return t.AddDate(0, 0, 1)
	default:
		return t.Add(time.Hour)
	}
}

// mTruncQ truncates to the finest unit of the quantum: two timestamps in the
// same finest unit are indistinguishable for any aligned range.
func mTruncQ(t time.Time, q string) time.Time { return mTruncUnit(t.UTC(), mFinest(q)) }

// mViewsOf lists the view suffixes a timestamp is written to ("2019", "201901", ...).
func mViewsOf(t time.Time, q string) []string {
	var out []string
	for i := 0; i < len(q); i++ {
		switch q[i] {
		case 'Y':
			out = append(out, t.Format("2006"))
		case 'M':
			out = append(out, t.Format("200601"))
		case 'D':
			out = append(out, t.Format("20060102"))
		case 'H':
			out = append(out, t.Format("2006010215"))
		}
	}
	return out
}

// timeRows returns row -> columns having a bit with from <= t < to (from/to
// aligned to the finest unit of the quantum by the generators). Zero from/to
// mean unbounded.
func (f *mField) timeRows(from, to time.Time) map[uint64]mSet {
	out := map[uint64]mSet{}
	for b := range f.TBits {
		if !from.IsZero() && b.T < from.Unix() {
			continue
		}
		if !to.IsZero() && b.T >= to.Unix() {
			continue
		}
		if out[b.Row] == nil {
			out[b.Row] = mSet{}
		}
		out[b.Row][b.Col] = struct{}{}
	}
	return out
}

// ---------------------------------------------------------------- query AST

// qNode is a generated bitmap expression. Kind:
//
//	row      Row(f=r)                       (Bool: r is 0/1 and rendered false/true)
//	rowtime  Row(f=r, from=.., to=..)       (From/To may be zero = omitted)
//	rowint   Row(f op P1) / Row(P1 <[=] f <[=] P2) / Row(f != null)
//	union intersect difference xor not shift
type qNode struct {
	Kind  string    `json:"k"`
	Field string    `json:"f,omitempty"`
	Row   uint64    `json:"r,omitempty"`
	From  time.Time `json:"-"`
	To    time.Time `json:"-"`
	Op    string    `json:"op,omitempty"` // == != < <= > >= between notnull
	P1    int64     `json:"p1,omitempty"`
	P2    int64     `json:"p2,omitempty"`
	LoEq  bool      `json:"loeq,omitempty"` // between: lower bound inclusive
	HiEq  bool      `json:"hieq,omitempty"`
	N     int       `json:"n,omitempty"`
	Kids  []*qNode  `json:"kids,omitempty"`
	Bool  bool      `json:"-"`
}

func mTS(t time.Time) string { return t.UTC().Format(mTimeFmt) }

func (n *qNode) PQL() string {
	switch n.Kind {
	case "row":
		if n.Bool {
			return fmt.Sprintf("Row(%s=%v)", n.Field, n.Row == 1)
		}
		return fmt.Sprintf("Row(%s=%d)", n.Field, n.Row)
	case "rowtime":
		s := fmt.Sprintf("Row(%s=%d", n.Field, n.Row)
		if !n.From.IsZero() {
			s += ", from='" + mTS(n.From) + "'"
		}
		if !n.To.IsZero() {
			s += ", to='" + mTS(n.To) + "'"
		}
		return s + ")"
	case "rowint":
		switch n.Op {
		case "notnull":
			return fmt.Sprintf("Row(%s != null)", n.Field)
		case "between":
			lo, hi := "<", "<"
			if n.LoEq {
				lo = "<="
			}
			if n.HiEq {
				hi = "<="
			}
			return fmt.Sprintf("Row(%d %s %s %s %d)", n.P1, lo, n.Field, hi, n.P2)
		default:
			return fmt.Sprintf("Row(%s %s %d)", n.Field, n.Op, n.P1)
		}
	case "shift":
		return fmt.Sprintf("Shift(%s, n=%d)", n.Kids[0].PQL(), n.N)
	default:
		name := map[string]string{"union": "Union", "intersect": "Intersect", "difference": "Difference", "xor": "Xor", "not": "Not"}[n.Kind]
		parts := make([]string, len(n.Kids))
		for i, k := range n.Kids {
			parts[i] = k.PQL()
		}
		return name + "(" + strings.Join(parts, ", ") + ")"
	}
}

// walk visits every node.
func (n *qNode) walk(fn func(*qNode)) {
	fn(n)
	for _, k := range n.Kids {
		k.walk(fn)
	}
}

// kinds returns the sorted set of node kinds used (for signatures/coverage).
func (n *qNode) kinds() []string {
	set := map[string]bool{}
	n.walk(func(x *qNode) {
		k := x.Kind
		if k == "rowint" {
			k = "rowint" // op detail is added by callers that need it
		}
		set[k] = true
	})
	var out []string
	for k := range set {
		out = append(out, k)
	}
	sort.Strings(out)
	return out
}

func (n *qNode) depth() int {
	d := 0
	for _, k := range n.Kids {
		if kd := k.depth(); kd > d {
			d = kd
		}
	}
	return d + 1
}

// mEmptyInterval reports whether a chained comparison (between) denotes no integer at all.
func mEmptyInterval(x *qNode) bool {
	lo, hi := x.P1, x.P2
	if !x.LoEq {
		lo++
	}
	if !x.HiEq {
		hi--
	}
	return lo > hi
}

var errMQuery = fmt.Errorf("model: query must fail")

func mIntSat(op string, v, p1, p2 int64, loEq, hiEq bool) bool {
	switch op {
	case "==":
		return v == p1
	case "!=":
		return v != p1
	case "<":
		return v < p1
	case "<=":
		return v <= p1
	case ">":
		return v > p1
	case ">=":
		return v >= p1
	case "notnull":
		return true
	case "between":
		lo := v > p1 || (loEq && v == p1)
		hi := v < p2 || (hiEq && v == p2)
		return lo && hi
	}
	return false
}

// eval evaluates a bitmap expression over the logical sets. errMQuery means
// the documented behaviour is an error (missing field, Not without existence
// tracking).
func (m *mIndex) eval(n *qNode) (mSet, error) {
	switch n.Kind {
	case "row":
		f := m.Fields[n.Field]
		if f == nil {
			return nil, errMQuery
		}
		out := mSet{}
		for c := range f.row(n.Row) {
			out[c] = struct{}{}
		}
		return out, nil
	case "rowtime":
		f := m.Fields[n.Field]
		if f == nil {
			return nil, errMQuery
		}
		out := mSet{}
		if f.Type != "time" || f.Quantum == "" {
			return out, nil
		}
		for c := range f.timeRows(n.From, n.To)[n.Row] {
			out[c] = struct{}{}
		}
		return out, nil
	case "rowint":
		f := m.Fields[n.Field]
		if f == nil || f.Type != "int" {
			return nil, errMQuery
		}
		out := mSet{}
		for c, v := range f.Vals {
			if mIntSat(n.Op, v, n.P1, n.P2, n.LoEq, n.HiEq) {
				out[c] = struct{}{}
			}
		}
		return out, nil
	case "union", "xor":
		cnt := map[uint64]int{}
		for _, k := range n.Kids {
			s, err := m.eval(k)
			if err != nil {
				return nil, err
			}
			for c := range s {
				cnt[c]++
			}
		}
		out := mSet{}
		for c, k := range cnt {
			if n.Kind == "union" || k%2 == 1 {
				out[c] = struct{}{}
			}
		}
		return out, nil
	case "intersect", "difference":
		if len(n.Kids) == 0 {
			return nil, errMQuery
		}
		out, err := m.eval(n.Kids[0])
		if err != nil {
			return nil, err
		}
		for _, k := range n.Kids[1:] {
			s, err := m.eval(k)
			if err != nil {
				return nil, err
			}
			for c := range out {
				_, in := s[c]
				if (n.Kind == "intersect") != in {
					delete(out, c)
				}
			}
		}
		return out, nil
	case "not":
		s, err := m.eval(n.Kids[0])
		if err != nil {
			return nil, err
		}
		if !m.Track {
			return nil, errMQuery
		}
		out := mSet{}
		for c := range m.Exists {
			if _, in := s[c]; !in {
				out[c] = struct{}{}
			}
		}
		return out, nil
	case "shift":
		s, err := m.eval(n.Kids[0])
		if err != nil {
			return nil, err
		}
		out := mSet{}
		for c := range s {
			out[c+uint64(n.N)] = struct{}{}
		}
		return out, nil
	}
	return nil, fmt.Errorf("model: unknown node kind %q", n.Kind)
}

// shiftCarry reports whether the expression contains a Shift whose operand
// (evaluated on the model) holds a column within n of the upper edge of its
// shard, i.e. the shifted bit must move into the next shard. Input predicate
// used for failure signatures.
func (m *mIndex) shiftCarry(n *qNode) bool {
	found := false
	n.walk(func(x *qNode) {
		if x.Kind != "shift" || found {
			return
		}
		s, err := m.eval(x.Kids[0])
		if err != nil {
			return
		}
		for c := range s {
			if c%mSW+uint64(x.N) >= mSW {
				found = true
				return
			}
		}
	})
	return found
}

// shiftContainerCarry reports whether the expression contains a Shift over a
// COMPUTED operand (anything but a plain stored row) that holds a column
// within n of the upper edge of its 65536-wide container. Input predicate for
// failure signatures (computed bitmaps, and rows written by Store from computed
// bitmaps, may carry empty containers).
func (m *mIndex) shiftContainerCarry(n *qNode, storedRow func(field string) bool) bool {
	found := false
	n.walk(func(x *qNode) {
		if x.Kind != "shift" || found {
			return
		}
		if k := x.Kids[0]; k.Kind == "rowtime" || (k.Kind == "row" && !(storedRow != nil && storedRow(k.Field))) {
			return // a stored row that no Store() wrote has no empty containers
		}
		s, err := m.eval(x.Kids[0])
		if err != nil {
			return
		}
		for c := range s {
			if c%65536+uint64(x.N) >= 65536 {
				found = true
				return
			}
		}
	})
	return found
}

// ---------------------------------------------------------------- Rows / GroupBy / MinRow / MaxRow

type mRowsCall struct {
	Field    string
	Prev     *uint64
	Limit    *uint64
	Column   *uint64
	From, To time.Time
}

func (c mRowsCall) PQL() string {
	s := "Rows(" + c.Field
	if c.Prev != nil {
		s += fmt.Sprintf(", previous=%d", *c.Prev)
	}
	if c.Limit != nil {
		s += fmt.Sprintf(", limit=%d", *c.Limit)
	}
	if c.Column != nil {
		s += fmt.Sprintf(", column=%d", *c.Column)
	}
	if !c.From.IsZero() {
		s += ", from='" + mTS(c.From) + "'"
	}
	if !c.To.IsZero() {
		s += ", to='" + mTS(c.To) + "'"
	}
	return s + ")"
}

// rowSets returns the row -> columns map a Rows call ranges over.
func (m *mIndex) rowSets(f *mField, from, to time.Time) map[uint64]mSet {
	if f.Type == "time" && (!from.IsZero() || !to.IsZero() || f.NoStd) {
		if f.Quantum == "" {
			return map[uint64]mSet{}
		}
		return f.timeRows(from, to)
	}
	return f.Rows
}

// rows evaluates a Rows call: ascending distinct rows with at least one bit
// (in the column / time range), after previous, at most limit.
func (m *mIndex) rows(c mRowsCall) ([]uint64, error) {
	f := m.Fields[c.Field]
	if f == nil {
		return nil, errMQuery
	}
	var out []uint64
	for r, s := range m.rowSets(f, c.From, c.To) {
		if len(s) == 0 {
			continue
		}
		if c.Column != nil {
			if _, ok := s[*c.Column]; !ok {
				continue
			}
		}
		if c.Prev != nil && r <= *c.Prev {
			continue
		}
		out = append(out, r)
	}
	out = mSortU64(out)
	if c.Limit != nil && uint64(len(out)) > *c.Limit {
		out = out[:*c.Limit]
	}
	return out, nil
}

type mGroup struct {
	Rows  []uint64
	Count uint64
}

func mGroupLess(a, b []uint64) bool {
	for i := range a {
		if a[i] != b[i] {
			return a[i] < b[i]
		}
	}
	return false
}

// groupBy evaluates GroupBy over Rows children WITHOUT previous (paging is
// applied by the caller on the full list): every combination of one row per
// child with a non-zero intersection count (within filter), lexicographic.
func (m *mIndex) groupBy(children []mRowsCall, filter mSet) ([]mGroup, error) {
	lists := make([][]uint64, len(children))
	fields := make([]*mField, len(children))
	for i, c := range children {
		f := m.Fields[c.Field]
		if f == nil {
			return nil, errMQuery
		}
		fields[i] = f
		cc := c
		cc.Prev = nil
		rs, err := m.rows(cc)
		if err != nil {
			return nil, err
		}
		lists[i] = rs
	}
	var out []mGroup
	var rec func(i int, cur mSet, first bool, pick []uint64)
	rec = func(i int, cur mSet, first bool, pick []uint64) {
		if i == len(children) {
			if len(cur) > 0 {
				out = append(out, mGroup{Rows: append([]uint64(nil), pick...), Count: uint64(len(cur))})
			}
			return
		}
		for _, r := range lists[i] {
			// GroupBy counts intersections of the rows of the standard view
			rowCols := fields[i].row(r)
			next := mSet{}
			if first {
				for c := range rowCols {
					if filter != nil {
						if _, ok := filter[c]; !ok {
							continue
						}
					}
					next[c] = struct{}{}
				}
			} else {
				for c := range cur {
					if _, ok := rowCols[c]; ok {
						next[c] = struct{}{}
					}
				}
			}
			if len(next) == 0 {
				continue
			}
			rec(i+1, next, false, append(pick, r))
		}
	}
	rec(0, nil, true, nil)
	sort.Slice(out, func(i, j int) bool { return mGroupLess(out[i].Rows, out[j].Rows) })
	return out, nil
}

// minMaxRow returns the smallest/largest row of the standard view with a bit
// (inside filter when filter != nil).
func (m *mIndex) minMaxRow(f *mField, filter mSet, max bool) (row uint64, ok bool) {
	for r, s := range f.Rows {
		hit := false
		for c := range s {
			if filter == nil {
				hit = true
				break
			}
			if _, in := filter[c]; in {
				hit = true
				break
			}
		}
		if !hit {
			continue
		}
		if !ok || (max && r > row) || (!max && r < row) {
			row, ok = r, true
		}
	}
	return row, ok
}

// ---------------------------------------------------------------- Sum / Min / Max / TopN

type mValCount struct{ Val, Count int64 }

// agg computes Sum/Min/Max over the int field within filter (nil = all).
func (m *mIndex) agg(f *mField, kind string, filter mSet) mValCount {
	var out mValCount
	first := true
	for c, v := range f.Vals {
		if filter != nil {
			if _, ok := filter[c]; !ok {
				continue
			}
		}
		switch kind {
		case "Sum":
			out.Val += v
			out.Count++
		case "Min", "Max":
			if first || (kind == "Min" && v < out.Val) || (kind == "Max" && v > out.Val) {
				out.Val, out.Count = v, 1
			} else if v == out.Val {
				out.Count++
			}
		}
		first = false
	}
	return out
}

type mPair struct{ ID, Count uint64 }

// topN returns (id,count) of the given rows with non-zero count, count desc.
// Order among equal counts is unspecified; callers compare as multisets of
// (id,count) plus non-increasing counts.
func (m *mIndex) topN(f *mField, ids []uint64, filter mSet) []mPair {
	var out []mPair
	for _, r := range ids {
		n := uint64(0)
		for c := range f.row(r) {
			if filter != nil {
				if _, ok := filter[c]; !ok {
					continue
				}
			}
			n++
		}
		if n > 0 {
			out = append(out, mPair{r, n})
		}
	}
	sort.Slice(out, func(i, j int) bool {
		if out[i].Count != out[j].Count {
			return out[i].Count > out[j].Count
		}
		return out[i].ID < out[j].ID
	})
	return out
}
