package pilosa

// Shared fragment model and model-based history runner (E-HIST) for the
// fragment-level checks C07, C10, C12, C13.
//
// A history is a list of vfOp generated up-front from the case PRNG (so it can
// be replayed and shrunk); vfRun applies it to a REAL file-backed fragment and
// to vfModel (row -> set of column offsets). The BSI value encoding is
// interpreted here by the harness (exists=row 0, sign=row 1, magnitude bit i =
// row 2+i), never by the repo helpers.

import (
	"bytes"
	"context"
	"encoding/binary"
	"fmt"
	"os"
	"path/filepath"
	"runtime/debug"
	"sort"
	"strings"
	"sync/atomic"

	"github.com/cespare/xxhash"
	vk "github.com/pilosa/pilosa/internal/verifkit"
	"github.com/pilosa/pilosa/logger"
	"github.com/pilosa/pilosa/roaring"
)

const vfSW = uint64(ShardWidth)

// ---------------------------------------------------------------- model

type vfModel struct {
	rows map[uint64]map[uint64]struct{}
}

func newVFModel() *vfModel { return &vfModel{rows: map[uint64]map[uint64]struct{}{}} }

func (m *vfModel) has(r, c uint64) bool { _, ok := m.rows[r][c]; return ok }

func (m *vfModel) set(r, c uint64) bool {
	if m.has(r, c) {
		return false
	}
	if m.rows[r] == nil {
		m.rows[r] = map[uint64]struct{}{}
	}
	m.rows[r][c] = struct{}{}
	return true
}

func (m *vfModel) clear(r, c uint64) bool {
	if !m.has(r, c) {
		return false
	}
	delete(m.rows[r], c)
	if len(m.rows[r]) == 0 {
		delete(m.rows, r)
	}
	return true
}

func (m *vfModel) rowCols(r uint64) []uint64 {
	out := make([]uint64, 0, len(m.rows[r]))
	for c := range m.rows[r] {
		out = append(out, c)
	}
	sort.Slice(out, func(i, j int) bool { return out[i] < out[j] })
	return out
}

func (m *vfModel) rowIDs() []uint64 {
	out := make([]uint64, 0, len(m.rows))
	for r := range m.rows {
		out = append(out, r)
	}
	sort.Slice(out, func(i, j int) bool { return out[i] < out[j] })
	return out
}

func (m *vfModel) colRows(c uint64) []uint64 {
	var out []uint64
	for _, r := range m.rowIDs() {
		if m.has(r, c) {
			out = append(out, r)
		}
	}
	return out
}

// positions returns row*ShardWidth+offset for every bit, ascending.
func (m *vfModel) positions() []uint64 {
	var out []uint64
	for _, r := range m.rowIDs() {
		for _, c := range m.rowCols(r) {
			out = append(out, r*vfSW+c)
		}
	}
	return out
}

func (m *vfModel) count() int {
	n := 0
	for _, cs := range m.rows {
		n += len(cs)
	}
	return n
}

// BSI, interpreted by the harness.
func (m *vfModel) value(c uint64, depth uint) (int64, bool) {
	if !m.has(0, c) {
		return 0, false
	}
	var v int64
	for i := uint(0); i < depth; i++ {
		if m.has(uint64(2+i), c) {
			v |= 1 << i
		}
	}
	if m.has(1, c) {
		v = -v
	}
	return v, true
}

// vfBlockChecksums recomputes the per-block checksums from the model: xxhash64
// over the 8-byte big-endian positions of the block in ascending order, for
// every block (HashBlockSize rows) that holds at least one bit.
func (m *vfModel) blockChecksums() (ids []int, sums [][]byte) {
	var cur = -1
	h := xxhash.New()
	var buf [8]byte
	flush := func() {
		if cur >= 0 {
			ids = append(ids, cur)
			sums = append(sums, h.Sum(nil))
		}
	}
	for _, p := range m.positions() {
		b := int(p / (HashBlockSize * vfSW))
		if b != cur {
			flush()
			cur = b
			h.Reset()
		}
		binary.BigEndian.PutUint64(buf[:], p)
		h.Write(buf[:])
	}
	flush()
	return ids, sums
}

// ---------------------------------------------------------------- config / ops

type vfCfg struct {
	Kind      string `json:"kind"` // set | mutex | bool | int
	Shard     uint64 `json:"shard"`
	CacheType string `json:"cacheType"`
	CacheSize uint32 `json:"cacheSize"`
	MaxOpN    int    `json:"maxOpN"`
	BG        bool   `json:"bgSnapshotQueue,omitempty"`
	Depth     uint   `json:"bitDepth,omitempty"`
}

type vfOp struct {
	K     string   `json:"op"`
	Row   uint64   `json:"row,omitempty"`
	Col   uint64   `json:"col,omitempty"` // offset inside the shard
	Rows  []uint64 `json:"rows,omitempty"`
	Cols  []uint64 `json:"cols,omitempty"`
	Vals  []int64  `json:"vals,omitempty"`
	Clear bool     `json:"clear,omitempty"`
	Enc   string   `json:"enc,omitempty"`
	N     int      `json:"n,omitempty"`
	Thr   uint64   `json:"thr,omitempty"`
	Other bool     `json:"otherShardToo,omitempty"`
	Chk   bool     `json:"checkAfter,omitempty"`
}

func (o vfOp) String() string {
	s := o.K
	switch o.K {
	case "setBit", "clearBit", "bit":
		s += fmt.Sprintf("(r%d,c%d)", o.Row, o.Col)
	case "clearRow", "row":
		s += fmt.Sprintf("(r%d)", o.Row)
	case "setRow":
		s += fmt.Sprintf("(r%d,%s)", o.Row, vk.Brief(o.Cols))
	case "bulkImport", "importRoaring":
		s += fmt.Sprintf("(rows=%s cols=%s clear=%v %s)", vk.Brief(o.Rows), vk.Brief(o.Cols), o.Clear, o.Enc)
	case "setValue":
		s += fmt.Sprintf("(c%d,%v)", o.Col, o.Vals)
	case "importValue":
		s += fmt.Sprintf("(cols=%s vals=%v clear=%v)", vk.Brief(o.Cols), o.Vals, o.Clear)
	case "rows":
		s += fmt.Sprintf("(start=%d filt=%s col=%d rows=%v limit=%d)", o.Row, o.Enc, o.Col, o.Rows, o.N)
	case "value", "colRows":
		s += fmt.Sprintf("(c%d)", o.Col)
	case "top":
		s += fmt.Sprintf("(ids=%v src=%s n=%d thr=%d)", o.Rows, vk.Brief(o.Cols), o.N, o.Thr)
	}
	return s
}

type vfChecks struct {
	Reads   bool // compare bit/row/rows/value/forEachBit/export with the model
	Changed bool // compare the `changed` result of writes
	Blocks  bool // compare Blocks() with checksums recomputed from the model
	Top     bool // compare fragment.top()
	Mutex   bool // at most one row per column, and it is the model's row
}

// vfIssue is the first oracle disagreement of a run.
type vfIssue struct {
	Check string // which check failed (row, bit, rows, value, forEachBit, export, changed, blocks, top, ...)
	Qual  string // input-derived qualifier of the check
	Cause string // input-derived descriptor(s) of the write(s) that last changed the object in the model
	Msg   string
	At    int // op index
}

func (i *vfIssue) sig(cfg vfCfg) string {
	cause := i.Cause
	stripEnc := func() {
		if strings.HasPrefix(cause, "importRoaring/") {
			cause = strings.Join(strings.Split(cause, "/")[:2], "/")
		}
	}
	switch {
	case strings.HasPrefix(i.Check, "blocks"):
		// cached-checksum handling does not depend on the fragment kind or the payload encoding
		stripEnc()
		s := cause + "->" + i.Check
		if i.Qual != "" {
			s += "[" + i.Qual + "]"
		}
		return s
	case strings.HasPrefix(i.Check, "top-"):
		// count-cache behaviour: cache type and "did the named rows ever exceed the slots" first, then the write
		stripEnc()
		return i.Check + "[" + i.Qual + "]<-" + cause + "@" + cfg.Kind
	}
	s := cause + "->" + i.Check
	if i.Qual != "" {
		s += "[" + i.Qual + "]"
	}
	return s + "@" + cfg.Kind
}

var vfSeq uint64

var vfScratchDir string

// vfScratch returns the directory for fragment files: the driver's per-worker
// VERIF_SCRATCH, or (when the leg sets VERIF_FAST_SCRATCH to a tmpfs mount) a
// private per-process directory there. These checks do thousands of
// close/snapshot cycles per second and each one fsyncs; none of the properties
// checked here is about durability.
func vfScratch() string {
	if vfScratchDir != "" {
		return vfScratchDir
	}
	vfScratchDir = os.Getenv("VERIF_SCRATCH")
	if vfScratchDir == "" {
		vfScratchDir = os.TempDir()
	}
	if fast := os.Getenv("VERIF_FAST_SCRATCH"); fast != "" {
		// sweep directories left behind by workers that died (crash findings, watchdog kills)
		if old, err := filepath.Glob(filepath.Join(fast, "verif-scratch-*")); err == nil {
			for _, o := range old {
				var pid int
				if _, err := fmt.Sscanf(filepath.Base(o), "verif-scratch-%d", &pid); err == nil && pid > 0 {
					if _, err := os.Stat(fmt.Sprintf("/proc/%d", pid)); os.IsNotExist(err) {
						os.RemoveAll(o)
					}
				}
			}
		}
		d := filepath.Join(fast, fmt.Sprintf("verif-scratch-%d", os.Getpid()))
		if err := os.MkdirAll(d, 0o755); err == nil {
			vfScratchDir = d
		}
	}
	return vfScratchDir
}

// vfScratchCleanup removes the private tmpfs directory (no-op otherwise).
func vfScratchCleanup() {
	if fast := os.Getenv("VERIF_FAST_SCRATCH"); fast != "" && strings.HasPrefix(vfScratchDir, fast) && strings.Contains(vfScratchDir, "verif-scratch-") {
		os.RemoveAll(vfScratchDir)
	}
}

// vfH is one run of one history.
type vfH struct {
	cfg   vfCfg
	chk   vfChecks
	f     *fragment
	path  string
	m     *vfModel
	q     chan *fragment
	rec   *vk.Run // non-nil: record Eval/Cover (original run only, not shrink runs)
	issue *vfIssue
	soft  *vfIssue // first failure of a relaxed-oracle class; the run continues
	at    int

	lastEffCol  map[uint64]string // column -> descriptor of the last write that changed it in the model
	clearedRows map[uint64]bool // rows named by a bit-clearing op so far (input-derived)

	lastEff  map[uint64]string          // row -> descriptor of the last write that changed it in the model
	blockEff map[int]map[string]struct{} // block -> descriptors of writes that changed it since the last Blocks()
	blockLast map[int]string            // block -> descriptor of the last write that changed it in the model
	allEff   string                     // last write that changed anything
	named    map[uint64]bool            // rows named by any write so far (each may occupy a count-cache slot, even with count 0)
	evals    int
}

func (h *vfH) abs(c uint64) uint64 { return h.cfg.Shard*vfSW + c }

func (h *vfH) open() error {
	f := newFragment(h.path, "i", "f", viewStandard, h.cfg.Shard, 0)
	f.CacheType = h.cfg.CacheType
	f.CacheSize = h.cfg.CacheSize
	f.MaxOpN = h.cfg.MaxOpN
	f.RowAttrStore = nopStore
	if h.cfg.BG {
		f.snapshotQueue = h.q
	}
	if err := f.Open(); err != nil {
		return err
	}
	switch h.cfg.Kind {
	case "mutex":
		f.mutexVector = newRowsVector(f)
	case "bool":
		f.mutexVector = newBoolVector(f)
	}
	h.f = f
	return nil
}

func (h *vfH) fail(check, qual, cause, msg string) {
	if h.issue == nil {
		if cause == "" {
			cause = "none"
		}
		h.issue = &vfIssue{Check: check, Qual: qual, Cause: cause, Msg: msg, At: h.at}
	}
}

// softFail records a failure the run can continue after (the model stays valid).
func (h *vfH) softFail(check, qual, cause, msg string) {
	if h.soft == nil {
		if cause == "" {
			cause = "none"
		}
		h.soft = &vfIssue{Check: check, Qual: qual, Cause: cause, Msg: msg, At: h.at}
	}
}

// ghost reports whether row r holds no bit in the model but was named by a
// bit-clearing write (clears leave empty containers behind).
func (h *vfH) ghost(r uint64) bool { return h.clearedRows[r] && len(h.m.rows[r]) == 0 }

func (h *vfH) eval(n int) {
	h.evals += n
	if h.rec != nil {
		h.rec.Eval(n)
	}
}

func (h *vfH) cover(c string) {
	if h.rec != nil {
		h.rec.Cover(c)
	}
}

// model mutation with effect tracking
func (h *vfH) mset(r, c uint64, desc string) bool {
	if h.m.set(r, c) {
		h.lastEffCol[c] = desc
		h.touched(r, desc)
		return true
	}
	return false
}

func (h *vfH) mclear(r, c uint64, desc string) bool {
	if !strings.HasPrefix(desc, "setRow") && desc != "clearRow" {
		h.clearedRows[r] = true // a bit-level clear was issued against this row
	}
	if h.m.clear(r, c) {
		h.lastEffCol[c] = desc
		h.touched(r, desc)
		return true
	}
	return false
}

func (h *vfH) touched(r uint64, desc string) {
	h.lastEff[r] = desc
	h.allEff = desc
	b := int(r / HashBlockSize)
	if h.blockEff[b] == nil {
		h.blockEff[b] = map[string]struct{}{}
	}
	h.blockEff[b][desc] = struct{}{}
	h.blockLast[b] = desc
}

func (h *vfH) quiesce() {
	if h.cfg.BG {
		h.f.awaitSnapshot()
	}
}

// rowQual classifies a row id by input-only facts.
func (h *vfH) rowQual(r uint64) string {
	if h.cfg.Kind == "int" {
		switch {
		case r == 0:
			return "exists-row"
		case r == 1:
			return "sign-row"
		case r == uint64(h.cfg.Depth)+1:
			return "top-bit-row"
		case r <= uint64(h.cfg.Depth):
			return "bit-row"
		}
		return "row-above-depth"
	}
	return ""
}

// causeOfDiff: for whole-fragment reads, the write that last changed (in the
// model) the first row whose content differs.
func (h *vfH) causeOfDiff(got, want []uint64) string {
	i := 0
	for i < len(got) && i < len(want) && got[i] == want[i] {
		i++
	}
	var p uint64
	switch {
	case i < len(got) && (i >= len(want) || got[i] < want[i]):
		p = got[i]
	case i < len(want):
		p = want[i]
	default:
		return h.allEffOr()
	}
	if d := h.lastEff[p/vfSW]; d != "" {
		return d
	}
	return "none"
}

// ---------------------------------------------------------------- reads

func (h *vfH) checkRow(r uint64) {
	row := h.f.row(r)
	got := row.Columns()
	cnt := row.Count()
	if !h.chk.Reads && !h.chk.Mutex {
		return
	}
	want := h.m.rowCols(r)
	for i := range want {
		want[i] = h.abs(want[i])
	}
	h.eval(2)
	h.cover("read:row")
	if !vk.EqualU64(got, want) {
		h.fail("row", h.rowQual(r), h.lastEff[r], fmt.Sprintf("row(%d).Columns(): %s; got %s want %s", r, vk.DiffU64(got, want), vk.Brief(got), vk.Brief(want)))
	} else if cnt != uint64(len(want)) {
		h.fail("row.Count", h.rowQual(r), h.lastEff[r], fmt.Sprintf("row(%d).Count() = %d, want %d", r, cnt, len(want)))
	}
}

func (h *vfH) checkBit(r, c uint64) {
	h.quiesce() // fragment.bit takes no lock
	got, err := h.f.bit(r, h.abs(c))
	if !h.chk.Reads {
		return
	}
	h.eval(1)
	h.cover("read:bit")
	if err != nil {
		h.fail("bit", "error", h.lastEff[r], fmt.Sprintf("bit(%d,%d): %v", r, c, err))
	} else if got != h.m.has(r, c) {
		h.fail("bit", h.rowQual(r), h.lastEff[r], fmt.Sprintf("bit(%d,%d) = %v, want %v", r, c, got, !got))
	}
}

func (h *vfH) checkValue(c uint64) {
	got, ok, err := h.f.value(h.abs(c), h.cfg.Depth)
	if !h.chk.Reads {
		return
	}
	want, wok := h.m.value(c, h.cfg.Depth)
	h.eval(1)
	h.cover("read:value")
	if err != nil {
		h.fail("value", "error", h.allEff, fmt.Sprintf("value(%d): %v", c, err))
	} else if ok != wok || (ok && got != want) {
		h.fail("value", "", h.allEff, fmt.Sprintf("value(c%d, depth %d) = (%d,%v), want (%d,%v)", c, h.cfg.Depth, got, ok, want, wok))
	}
}

// checkRows compares fragment.rows(start, filters...) in one of the filter shapes.
func (h *vfH) checkRows(op vfOp) {
	var filters []rowFilter
	var wantAll []uint64
	want := []uint64{}
	sel := append([]uint64(nil), op.Rows...)
	for _, r := range h.m.rowIDs() {
		if r < op.Row {
			continue
		}
		if strings.Contains(op.Enc, "col") && !h.m.has(r, op.Col) {
			continue
		}
		if strings.Contains(op.Enc, "rows") {
			i := sort.Search(len(sel), func(i int) bool { return sel[i] >= r })
			if i >= len(sel) || sel[i] != r {
				continue
			}
		}
		want = append(want, r)
	}
	if strings.Contains(op.Enc, "col") {
		filters = append(filters, filterColumn(h.abs(op.Col)))
	}
	if strings.Contains(op.Enc, "rows") {
		filters = append(filters, filterWithRows(sel))
	}
	if strings.Contains(op.Enc, "limit") {
		filters = append(filters, filterWithLimit(uint64(op.N)))
		wantAll = append([]uint64(nil), want...)
		if len(want) > op.N {
			want = want[:op.N]
		}
	}
	if wantAll == nil {
		wantAll = want
	}
	got := h.f.rows(op.Row, filters...)
	if !h.chk.Reads {
		return
	}
	h.eval(1)
	h.cover("read:rows/" + op.Enc)
	if vk.EqualU64(got, want) {
		return
	}
	msg := fmt.Sprintf("rows(start=%d, %s col=%d rows=%v limit=%d) = %v, want %v", op.Row, op.Enc, op.Col, sel, op.N, got, want)
	// Relaxed oracle: rows emptied (or only ever named) by bit-level clears may
	// keep an empty container; a result that differs from the model only by
	// such rows is classified separately and the run continues.
	inAll := func(r uint64) bool {
		for _, w := range wantAll {
			if w == r {
				return true
			}
		}
		return false
	}
	ok, k := true, 0
	for i, g := range got {
		if i > 0 && got[i-1] >= g {
			ok = false
		}
		switch {
		case inAll(g):
			if k >= len(wantAll) || wantAll[k] != g {
				ok = false
			}
			k++
		case h.ghost(g) && g >= op.Row && !strings.Contains(op.Enc, "col"):
			if strings.Contains(op.Enc, "rows") {
				if i := sort.Search(len(sel), func(i int) bool { return sel[i] >= g }); i >= len(sel) || sel[i] != g {
					ok = false
				}
			}
		default:
			ok = false
		}
	}
	if strings.Contains(op.Enc, "limit") {
		if len(got) > op.N || (len(got) < op.N && k != len(wantAll)) {
			ok = false
		}
	} else if k != len(wantAll) {
		ok = false
	}
	if ok {
		h.softFail("rows/cleared-empty-row", "", "any", msg+" (the extra rows hold no bits; they were named by bit-clearing writes)")
		return
	}
	g2, w2 := make([]uint64, len(got)), make([]uint64, len(want))
	for i, r := range got {
		g2[i] = r * vfSW
	}
	for i, r := range want {
		w2[i] = r * vfSW
	}
	h.fail("rows", op.Enc, h.causeOfDiff(g2, w2), msg)
}

func (h *vfH) checkForEach() {
	var got []uint64
	bad := ""
	err := h.f.forEachBit(func(r, c uint64) error {
		if c/vfSW != h.cfg.Shard && bad == "" {
			bad = fmt.Sprintf("forEachBit reported column %d outside shard %d", c, h.cfg.Shard)
		}
		got = append(got, r*vfSW+c%vfSW)
		return nil
	})
	if !h.chk.Reads {
		return
	}
	want := h.m.positions()
	h.eval(1)
	h.cover("read:forEachBit")
	if err != nil || bad != "" {
		h.fail("forEachBit", "error", h.allEff, fmt.Sprintf("%v %s", err, bad))
	} else if !vk.EqualU64(got, want) {
		h.fail("forEachBit", "", h.causeOfDiff(got, want), fmt.Sprintf("forEachBit positions: %s; got %s want %s", vk.DiffU64(got, want), vk.Brief(got), vk.Brief(want)))
	}
}

// checkExport archives the fragment (WriteTo), restores the archive into a
// second fragment (ReadFrom) and enumerates that.
func (h *vfH) checkExport() {
	h.quiesce()
	var buf bytes.Buffer
	if _, err := h.f.WriteTo(&buf); err != nil {
		if h.chk.Reads {
			h.fail("export", "error", h.allEff, "WriteTo: "+err.Error())
		}
		return
	}
	p2 := h.path + ".restore"
	defer os.Remove(p2)
	defer os.Remove(p2 + cacheExt)
	g := newFragment(p2, "i", "f", viewStandard, h.cfg.Shard, 0)
	g.CacheType = h.cfg.CacheType
	g.CacheSize = h.cfg.CacheSize
	if err := g.Open(); err != nil {
		h.fail("export", "error", h.allEff, "open restore target: "+err.Error())
		return
	}
	defer g.Close()
	if _, err := g.ReadFrom(bytes.NewReader(buf.Bytes())); err != nil {
		if h.chk.Reads {
			h.fail("export", "error", h.allEff, "ReadFrom: "+err.Error())
		}
		return
	}
	var got []uint64
	g.forEachBit(func(r, c uint64) error { got = append(got, r*vfSW+c%vfSW); return nil })
	if !h.chk.Reads {
		return
	}
	want := h.m.positions()
	h.eval(1)
	h.cover("read:export")
	if !vk.EqualU64(got, want) {
		h.fail("export", "", h.causeOfDiff(got, want), fmt.Sprintf("WriteTo/ReadFrom copy: %s; got %s want %s", vk.DiffU64(got, want), vk.Brief(got), vk.Brief(want)))
	}
}

func (h *vfH) universeRows() []uint64 {
	switch h.cfg.Kind {
	case "bool":
		return []uint64{0, 1}
	case "int":
		var out []uint64
		for r := uint64(0); r <= uint64(h.cfg.Depth)+1; r++ {
			out = append(out, r)
		}
		return out
	}
	return vfRowsSet
}

func (h *vfH) full() {
	h.quiesce()
	seen := map[uint64]bool{}
	for _, r := range h.universeRows() {
		seen[r] = true
		h.checkRow(r)
	}
	for _, r := range h.m.rowIDs() {
		if !seen[r] {
			h.checkRow(r)
		}
	}
	h.checkRows(vfOp{K: "rows", Enc: "all"})
	h.checkForEach()
	if h.cfg.Kind == "int" {
		for _, c := range vfCols {
			h.checkValue(c)
		}
	}
	if h.chk.Mutex {
		for _, c := range vfCols {
			h.checkColRows(c)
		}
	}
	if h.chk.Blocks {
		h.checkBlocks("final")
	}
}

// checkColRows: mutex/bool invariant on one column.
func (h *vfH) checkColRows(c uint64) {
	got := h.f.rows(0, filterColumn(h.abs(c)))
	if !h.chk.Mutex {
		return
	}
	want := h.m.colRows(c)
	h.eval(1)
	h.cover("read:colRows")
	cause := h.lastEffCol[c]
	if len(got) > 1 {
		h.fail("colRows", "two-rows", cause, fmt.Sprintf("column %d holds rows %v (want %v)", c, got, want))
	} else if !vk.EqualU64(got, want) {
		h.fail("colRows", "wrong-row", cause, fmt.Sprintf("column %d holds rows %v, want %v (last write wins; inside a batch the last occurrence)", c, got, want))
	}
}

// checkBlocks compares Blocks() (which may serve cached checksums) with the
// checksums recomputed from the model, then with InvalidateChecksums()+Blocks().
func (h *vfH) checkBlocks(when string) {
	h.quiesce()
	got := h.f.Blocks()
	if !h.chk.Blocks {
		h.blockEff = map[int]map[string]struct{}{}
		return
	}
	ids, sums := h.m.blockChecksums()
	h.eval(1)
	h.cover("read:blocks")
	cmp := func(got []FragmentBlock, check string) bool {
		gi, wi := 0, 0
		for gi < len(got) || wi < len(ids) {
			switch {
			case wi >= len(ids) || (gi < len(got) && got[gi].ID < ids[wi]):
				h.fail(check, "empty-block-listed", h.causeOfBlock(got[gi].ID), fmt.Sprintf("Blocks() lists block %d which holds no bits", got[gi].ID))
				return false
			case gi >= len(got) || got[gi].ID > ids[wi]:
				h.fail(check, "block-missing", h.causeOfBlock(ids[wi]), fmt.Sprintf("Blocks() omits block %d which holds bits", ids[wi]))
				return false
			default:
				if !bytes.Equal(got[gi].Checksum, sums[wi]) {
					h.fail(check, "", h.causeOfBlock(ids[wi]), fmt.Sprintf("Blocks() block %d checksum %x, checksum of current contents %x", ids[wi], got[gi].Checksum, sums[wi]))
					return false
				}
				gi++
				wi++
			}
		}
		return true
	}
	// strict oracle first, silently; on a mismatch decide which statement failed:
	// the cached checksum is stale (fresh recomputation by the real code agrees
	// with the model) or the stored bits themselves differ from the model.
	probeCmp := func(bl []FragmentBlock) bool {
		ok := len(bl) == len(ids)
		for i := 0; ok && i < len(bl); i++ {
			ok = bl[i].ID == ids[i] && bytes.Equal(bl[i].Checksum, sums[i])
		}
		return ok
	}
	if probeCmp(got) {
		h.f.InvalidateChecksums()
		h.eval(1)
		cmp(h.f.Blocks(), "blocks-content") // cross-check: checksums computed from scratch by the real code
	} else {
		h.f.InvalidateChecksums()
		fresh := h.f.Blocks()
		if probeCmp(fresh) {
			cmp(got, "blocks-stale")
		} else {
			cmp(fresh, "blocks-content")
		}
	}
	h.blockEff = map[int]map[string]struct{}{}
}

// causeOfBlock: the write that last changed the block in the model (a write
// that invalidates the cached checksum correctly cannot leave it stale, so the
// last one is the candidate).
func (h *vfH) causeOfBlock(b int) string {
	if d := h.blockLast[b]; d != "" {
		return d
	}
	return "none"
}

// checkTop: fragment.top with explicit ids (always) or unrestricted.
func (h *vfH) checkTop(op vfOp) {
	h.quiesce()
	opt := topOptions{N: op.N, MinThreshold: op.Thr}
	var src map[uint64]bool
	if op.Enc == "src" {
		abs := make([]uint64, len(op.Cols))
		src = map[uint64]bool{}
		for i, c := range op.Cols {
			abs[i] = h.abs(c)
			src[c] = true
		}
		opt.Src = NewRow(abs...)
	}
	count := func(r uint64) uint64 {
		n := uint64(0)
		for c := range h.m.rows[r] {
			if src == nil || src[c] {
				n++
			}
		}
		return n
	}
	evicted := "named-rows-fit"
	if len(h.named) > int(h.cfg.CacheSize) {
		evicted = "named-rows-exceeded-slots"
	}
	if len(op.Rows) > 0 {
		opt.RowIDs = append([]uint64(nil), op.Rows...)
		pairs, err := h.f.top(opt)
		if !h.chk.Top {
			return
		}
		h.eval(1)
		h.cover("read:top-ids/" + h.cfg.CacheType)
		if evicted != "named-rows-fit" {
			h.cover("top:ids-after-more-rows-than-slots")
		}
		if src != nil {
			h.cover("top:src")
		}
		if err != nil {
			h.fail("top-ids", h.cfg.CacheType+"/error", h.allEff, err.Error())
			return
		}
		seen := map[uint64]bool{}
		for _, p := range pairs {
			cause := h.lastEff[p.ID]
			if seen[p.ID] {
				h.fail("top-ids", h.cfg.CacheType+"/dup", cause, fmt.Sprintf("top(ids=%v) lists row %d twice: %v", op.Rows, p.ID, pairs))
				return
			}
			seen[p.ID] = true
			if want := count(p.ID); p.Count != want {
				h.fail("top-ids", h.cfg.CacheType+"/"+evicted, cause, fmt.Sprintf("top(ids=%v src=%v thr=%d) reports row %d count %d, true count %d (all pairs %v)", op.Rows, op.Cols, op.Thr, p.ID, p.Count, want, pairs))
				return
			}
		}
		for _, r := range op.Rows {
			if n := count(r); n > 0 && n >= op.Thr && !seen[r] {
				h.fail("top-ids-missing", h.cfg.CacheType+"/"+evicted, h.lastEff[r], fmt.Sprintf("top(ids=%v src=%v thr=%d) omits row %d with count %d (pairs %v)", op.Rows, op.Cols, op.Thr, r, n, pairs))
				return
			}
		}
		return
	}
	// unrestricted: only after an explicit recalculation, only when every non-empty row fits
	h.f.RecalculateCache()
	pairs, err := h.f.top(opt)
	if !h.chk.Top || h.cfg.CacheType == CacheTypeNone || len(h.m.rows) > int(h.cfg.CacheSize) {
		return
	}
	h.eval(1)
	h.cover("read:top-n/" + h.cfg.CacheType)
	h.cover("top:n-asserted")
	if err != nil {
		h.fail("top-n", h.cfg.CacheType+"/error", h.allEff, err.Error())
		return
	}
	qual := h.cfg.CacheType + "/" + evicted
	var wantCounts []uint64
	for _, r := range h.m.rowIDs() {
		if n := count(r); n > 0 && n >= op.Thr {
			wantCounts = append(wantCounts, n)
		}
	}
	sort.Slice(wantCounts, func(i, j int) bool { return wantCounts[i] > wantCounts[j] })
	if op.N > 0 && len(wantCounts) > op.N {
		wantCounts = wantCounts[:op.N]
	}
	desc := fmt.Sprintf("top(n=%d src=%v thr=%d) after RecalculateCache = %v; model counts %v", op.N, op.Cols, op.Thr, pairs, h.modelCounts(count))
	// every reported pair must be exact (the cause is the write that last changed THAT row)
	seen := map[uint64]bool{}
	for _, p := range pairs {
		if seen[p.ID] || p.Count != count(p.ID) {
			h.fail("top-n", qual, h.lastEff[p.ID], fmt.Sprintf("row %d reported with count %d, true count %d: %s", p.ID, p.Count, count(p.ID), desc))
			return
		}
		seen[p.ID] = true
	}
	if len(pairs) != len(wantCounts) {
		cause := h.allEff
		for _, r := range h.m.rowIDs() { // the first non-empty row that is not reported
			if !seen[r] && count(r) >= op.Thr {
				cause = h.lastEff[r]
				break
			}
		}
		h.fail("top-n", qual, cause, "wrong number of rows: "+desc)
		return
	}
	for i, p := range pairs {
		if p.Count != wantCounts[i] {
			h.fail("top-n", qual, h.allEff, fmt.Sprintf("position %d has count %d, want %d (largest counts, non-increasing): %s", i, p.Count, wantCounts[i], desc))
			return
		}
	}
}

func (h *vfH) modelCounts(count func(uint64) uint64) string {
	var sb strings.Builder
	for _, r := range h.m.rowIDs() {
		fmt.Fprintf(&sb, "%d:%d ", r, count(r))
	}
	return sb.String()
}

// ---------------------------------------------------------------- roaring payloads

// vfEncode renders sorted distinct positions in the requested encoding.
func vfEncode(pos []uint64, enc string) []byte {
	switch enc {
	case "official", "official-run":
		return vfOfficial(pos, enc == "official-run")
	}
	bm := roaring.NewBitmap()
	for _, p := range pos {
		bm.DirectAdd(p)
	}
	if enc == "pilosa-opt" {
		bm.Optimize()
	}
	var buf bytes.Buffer
	bm.WriteTo(&buf)
	return append([]byte(nil), buf.Bytes()...)
}

// vfOfficial writes the RoaringFormatSpec 32-bit format. Positions must be
// < 2^32. With runs=true (and fewer than 4 containers, where the spec has no
// offset header) every container is written as a run container.
func vfOfficial(pos []uint64, runs bool) []byte {
	type cont struct {
		key  uint16
		vals []uint16
	}
	var cs []cont
	for _, p := range pos {
		k := uint16(p >> 16)
		if len(cs) == 0 || cs[len(cs)-1].key != k {
			cs = append(cs, cont{key: k})
		}
		cs[len(cs)-1].vals = append(cs[len(cs)-1].vals, uint16(p))
	}
	if len(cs) >= 4 || len(cs) == 0 {
		runs = false
	}
	var out []byte
	u16 := func(v uint16) { out = append(out, byte(v), byte(v>>8)) }
	u32 := func(v uint32) { out = append(out, byte(v), byte(v>>8), byte(v>>16), byte(v>>24)) }
	if runs {
		u32(12347 | uint32(len(cs)-1)<<16)
		rb := make([]byte, (len(cs)+7)/8)
		for i := range cs {
			rb[i/8] |= 1 << uint(i%8)
		}
		out = append(out, rb...)
	} else {
		u32(12346)
		u32(uint32(len(cs)))
	}
	for _, c := range cs {
		u16(c.key)
		u16(uint16(len(c.vals) - 1))
	}
	if !runs {
		off := len(out) + 4*len(cs)
		for _, c := range cs {
			u32(uint32(off))
			if len(c.vals) >= 4096 { // pilosa's reader treats card >= 4096 as bitmap; keep 4096 out of the generators
				off += 8192
			} else {
				off += 2 * len(c.vals)
			}
		}
	}
	for _, c := range cs {
		switch {
		case runs:
			type run struct{ s, l uint16 }
			var rs []run
			for _, v := range c.vals {
				if n := len(rs); n > 0 && uint32(rs[n-1].s)+uint32(rs[n-1].l)+1 == uint32(v) {
					rs[n-1].l++
				} else {
					rs = append(rs, run{v, 0})
				}
			}
			u16(uint16(len(rs)))
			for _, r := range rs {
				u16(r.s)
				u16(r.l)
			}
		case len(c.vals) >= 4096:
			var words [1024]uint64
			for _, v := range c.vals {
				words[v/64] |= 1 << (v % 64)
			}
			for _, w := range words {
				var b [8]byte
				binary.LittleEndian.PutUint64(b[:], w)
				out = append(out, b[:]...)
			}
		default:
			for _, v := range c.vals {
				u16(v)
			}
		}
	}
	return out
}

// ---------------------------------------------------------------- writes

func (h *vfH) kindSuffix() string {
	if h.cfg.Kind == "mutex" || h.cfg.Kind == "bool" {
		return "/mutex"
	}
	return ""
}

// changedCheck compares a write's `changed` result. The cause is the write
// that last changed the row before this op, then this op.
func (h *vfH) changedCheck(name string, prev string, got, want bool, err error, what string) {
	if prev == "" {
		prev = "none"
	}
	cause := prev + ">" + name
	if err != nil {
		h.fail(name, "error", cause, what+": "+err.Error())
		return
	}
	if !h.chk.Changed {
		return
	}
	h.eval(1)
	h.cover("changed:" + name)
	if got != want {
		h.fail("changed", name, cause, fmt.Sprintf("%s returned changed=%v, want %v", what, got, want))
	}
}

func (h *vfH) apply(op vfOp) {
	f := h.f
	if vfIsWrite(op.K) {
		switch op.K {
		case "bulkImport", "importRoaring":
			for _, r := range op.Rows {
				h.named[r] = true
			}
		case "setValue", "importValue":
		default:
			h.named[op.Row] = true
		}
	}
	switch op.K {
	case "setBit":
		desc := "setBit" + h.kindSuffix()
		prev := h.lastEff[op.Row]
		if h.kindSuffix() != "" {
			for _, r := range h.m.colRows(op.Col) {
				if r != op.Row {
					h.mclear(r, op.Col, desc)
				}
			}
		}
		want := h.mset(op.Row, op.Col, desc)
		got, err := f.setBit(op.Row, h.abs(op.Col))
		h.changedCheck("setBit", prev, got, want, err, op.String())
	case "clearBit":
		prev := h.lastEff[op.Row]
		want := h.mclear(op.Row, op.Col, "clearBit")
		got, err := f.clearBit(op.Row, h.abs(op.Col))
		h.changedCheck("clearBit", prev, got, want, err, op.String())
	case "setRow":
		desc := "setRow"
		if len(op.Cols) == 0 {
			desc = "setRow/no-segment-for-shard"
		}
		for _, c := range h.m.rowCols(op.Row) {
			h.mclear(op.Row, c, desc)
		}
		delete(h.clearedRows, op.Row) // setRow replaces the row's containers
		var abs []uint64
		for _, c := range op.Cols {
			h.mset(op.Row, c, desc)
			abs = append(abs, h.abs(c))
		}
		if op.Other {
			abs = append(abs, (h.cfg.Shard+1)*vfSW+5, (h.cfg.Shard+2)*vfSW)
		}
		_, err := f.setRow(NewRow(abs...), op.Row) // documented to return true always: not compared
		if err != nil {
			h.fail("setRow", "error", "", err.Error())
		}
	case "clearRow":
		prev := h.lastEff[op.Row]
		want := false
		ghost := h.ghost(op.Row)
		for _, c := range h.m.rowCols(op.Row) {
			h.mclear(op.Row, c, "clearRow")
			want = true
		}
		got, err := f.clearRow(op.Row)
		delete(h.clearedRows, op.Row) // clearRow removes the row's containers
		if err == nil && ghost && got && !want {
			if h.chk.Changed {
				h.eval(1)
				h.softFail("changed/cleared-empty-row", "", "any", op.String()+" returned changed=true for a row that holds no bits (it was named by bit-clearing writes before)")
			}
		} else {
			h.changedCheck("clearRow", prev, got, want, err, op.String())
		}
	case "bulkImport":
		desc := "bulkImport/set"
		if op.Clear {
			desc = "bulkImport/clear"
		} else {
			desc += h.kindSuffix()
			if h.kindSuffix() != "" {
				bc := h.batchClass(op)
				h.cover("batch:" + bc)
				desc += "[" + bc + "]"
			}
		}
		abs := make([]uint64, len(op.Cols))
		for i, c := range op.Cols {
			abs[i] = h.abs(c)
			switch {
			case op.Clear:
				h.mclear(op.Rows[i], c, desc)
			case h.kindSuffix() != "":
				for _, r := range h.m.colRows(c) {
					if r != op.Rows[i] {
						h.mclear(r, c, desc)
					}
				}
				h.mset(op.Rows[i], c, desc)
			default:
				h.mset(op.Rows[i], c, desc)
			}
		}
		if err := f.bulkImport(append([]uint64(nil), op.Rows...), abs, &ImportOptions{Clear: op.Clear}); err != nil {
			h.fail("bulkImport", "error", "", err.Error())
		}
	case "setValue":
		prevV, prevOK := h.m.value(op.Col, h.cfg.Depth)
		prev := h.allEff
		want := h.msetValue(op.Col, op.Vals[0], false, "setValue")
		got, err := f.setValue(h.abs(op.Col), h.cfg.Depth, op.Vals[0])
		h.changedCheck("setValue", prev, got, want, err, fmt.Sprintf("%s (previous value (%d,%v))", op.String(), prevV, prevOK))
	case "importValue":
		f.mu.Lock()
		small := len(op.Cols)*int(h.cfg.Depth+1)+f.opN < f.MaxOpN // the path selector of fragment.importValue, read before the call
		f.mu.Unlock()
		desc := "importValue/snapshot-path"
		if small {
			desc = "importValue/oplog-path"
		}
		h.cover("path:" + desc)
		vals := append([]int64(nil), op.Vals...)
		abs := make([]uint64, len(op.Cols))
		for i, c := range op.Cols {
			abs[i] = h.abs(c)
			if op.Clear {
				// the natural clear call: pass the value currently stored
				if cur, ok := h.m.value(c, h.cfg.Depth); ok {
					vals[i] = cur
				} else {
					vals[i] = 0
				}
			}
			h.msetValue(c, vals[i], op.Clear, desc)
		}
		if err := f.importValue(abs, vals, h.cfg.Depth, op.Clear); err != nil {
			h.fail("importValue", "error", "", err.Error())
		}
	case "importRoaring":
		desc := "importRoaring/set/" + op.Enc
		if op.Clear {
			desc = "importRoaring/clear/" + op.Enc
		}
		var pos []uint64
		for i, c := range op.Cols {
			pos = append(pos, op.Rows[i]*vfSW+c)
			if op.Clear {
				h.mclear(op.Rows[i], c, desc)
			} else {
				h.mset(op.Rows[i], c, desc)
			}
		}
		data := vfEncode(vk.SortedU64(pos), op.Enc)
		if err := f.importRoaring(context.Background(), data, op.Clear); err != nil {
			h.fail("importRoaring", "error", "", err.Error())
		}
		for i := range data { // the payload buffer is the caller's: scribble over it
			data[i] = 0xA5
		}
	case "snapshot":
		if err := f.Snapshot(); err != nil {
			h.fail("snapshot", "error", "", err.Error())
		}
	case "await":
		f.awaitSnapshot()
	case "reopen":
		if err := f.Close(); err != nil {
			h.fail("close", "error", "", err.Error())
			return
		}
		if err := h.open(); err != nil {
			h.fail("reopen", "error", "", err.Error())
		}
	case "recalc":
		f.RecalculateCache()
	// ---- reads
	case "bit":
		h.checkBit(op.Row, op.Col)
	case "row":
		h.checkRow(op.Row)
	case "rows":
		h.checkRows(op)
	case "value":
		h.checkValue(op.Col)
	case "forEachBit":
		h.checkForEach()
	case "export":
		h.checkExport()
	case "blocks":
		h.checkBlocks("mid")
	case "top":
		h.checkTop(op)
	case "colRows":
		h.checkColRows(op.Col)
	case "full":
		h.full()
	default:
		panic("vfH.apply: unknown op " + op.K)
	}
	if h.issue != nil || !op.Chk {
		return
	}
	// cheap read subset after a write: the rows the write names
	switch op.K {
	case "setBit", "clearBit", "setRow", "clearRow":
		h.checkRow(op.Row)
		if h.chk.Mutex {
			h.checkColRows(op.Col)
		}
	case "bulkImport", "importRoaring":
		seen := map[uint64]bool{}
		for _, r := range op.Rows {
			if !seen[r] {
				seen[r] = true
				h.checkRow(r)
			}
		}
		if h.chk.Mutex {
			seenC := map[uint64]bool{}
			for _, c := range op.Cols {
				if !seenC[c] {
					seenC[c] = true
					h.checkColRows(c)
				}
			}
		}
	case "setValue":
		h.checkValue(op.Col)
	case "importValue":
		for _, c := range op.Cols {
			h.checkValue(c)
		}
		for _, r := range h.universeRows() {
			h.checkRow(r)
		}
	}
}

// batchClass classifies a mutex/bool set-batch by input-only facts: does it
// repeat a column with conflicting rows, and how does the LAST occurrence
// compare with the row the column holds before the batch.
func (h *vfH) batchClass(op vfOp) string {
	rowsOf := map[uint64][]uint64{}
	for i, c := range op.Cols {
		rowsOf[c] = append(rowsOf[c], op.Rows[i])
	}
	best := 0
	names := []string{"no-repeat", "repeat-same-row", "repeat-conflict/column-empty", "repeat-conflict/last-differs-from-stored", "repeat-conflict/last-equals-stored"}
	for c, rs := range rowsOf {
		if len(rs) < 2 {
			continue
		}
		conflict := false
		for _, r := range rs {
			if r != rs[0] {
				conflict = true
			}
		}
		k := 1
		if conflict {
			cur := h.m.colRows(c)
			switch {
			case len(cur) == 0:
				k = 2
			case cur[0] == rs[len(rs)-1]:
				k = 4
			default:
				k = 3
			}
		}
		if k > best {
			best = k
		}
	}
	return names[best]
}

// msetValue applies the BSI encoding of v at column c to the model. clear=true
// follows fragment.positionsForValue/importSetValue: exists and sign cleared,
// magnitude bits written as given.
func (h *vfH) msetValue(c uint64, v int64, clear bool, desc string) (changed bool) {
	u := uint64(v)
	if v < 0 {
		u = uint64(-v)
	}
	for i := uint(0); i < h.cfg.Depth; i++ {
		if u&(1<<i) != 0 {
			changed = h.mset(uint64(2+i), c, desc) || changed
		} else {
			changed = h.mclear(uint64(2+i), c, desc) || changed
		}
	}
	if clear {
		changed = h.mclear(0, c, desc) || changed
	} else {
		changed = h.mset(0, c, desc) || changed
	}
	if v < 0 && !clear {
		changed = h.mset(1, c, desc) || changed
	} else {
		changed = h.mclear(1, c, desc) || changed
	}
	return changed
}

// ---------------------------------------------------------------- runner

// vfRun executes one history on a fresh file-backed fragment and returns the
// first disagreement (nil if none). rec != nil records evaluations/coverage.
func vfRun(cfg vfCfg, ops []vfOp, chk vfChecks, rec *vk.Run) (issue *vfIssue, evals int) {
	h := newVFH(cfg, chk, rec)
	defer func() {
		if e := recover(); e != nil {
			k := "open"
			if h.at < len(ops) {
				k = ops[h.at].K
			}
			issue = h.panicIssue(e, k)
		}
		h.close()
		evals = h.evals
	}()
	if err := h.open(); err != nil {
		h.fail("open", "error", "", err.Error())
		return h.issue, h.evals
	}
	for i, op := range ops {
		h.at = i
		h.apply(op)
		if h.issue != nil {
			return h.issue, h.evals
		}
	}
	h.at = len(ops)
	h.full()
	if h.issue == nil {
		return h.soft, h.evals
	}
	return h.issue, h.evals
}

// newVFH prepares a run (fragment not yet opened).
func newVFH(cfg vfCfg, chk vfChecks, rec *vk.Run) *vfH {
	h := &vfH{cfg: cfg, chk: chk, m: newVFModel(), rec: rec,
		path:    filepath.Join(vfScratch(), fmt.Sprintf("frag-%d-%d", os.Getpid(), atomic.AddUint64(&vfSeq, 1))),
		lastEff: map[uint64]string{}, blockEff: map[int]map[string]struct{}{}, clearedRows: map[uint64]bool{}, blockLast: map[int]string{}, lastEffCol: map[uint64]string{}, named: map[uint64]bool{}}
	if cfg.BG {
		h.q = newSnapshotQueue(1, 1, logger.NopLogger)
	}
	return h
}

func (h *vfH) panicIssue(e interface{}, opKind string) *vfIssue {
	st := string(debug.Stack())
	if len(st) > 2500 {
		st = st[:2500]
	}
	h.issue = &vfIssue{Check: "panic", Qual: opKind, Cause: h.allEffOr(), Msg: fmt.Sprintf("panic: %v\n%s", e, st), At: h.at}
	return h.issue
}

// close closes the fragment, stops the snapshot worker and removes the files.
func (h *vfH) close() {
	if h.f != nil {
		func() {
			defer func() { recover() }()
			h.f.Close()
		}()
		h.f = nil
	}
	if h.q != nil {
		close(h.q)
		h.q = nil
	}
	os.Remove(h.path)
	os.Remove(h.path + cacheExt)
	os.Remove(h.path + snapshotExt)
}

func (h *vfH) allEffOr() string {
	if h.allEff == "" {
		return "none"
	}
	return h.allEff
}

// vfFamily groups checks that observe the same thing (stored contents), so the
// shrinker may keep a candidate whose first failing read is a different read of
// the same wrong contents.
func vfFamily(check string) string {
	switch check {
	case "row", "row.Count", "bit", "colRows", "rows", "forEachBit", "export", "value", "blocks-content":
		return "contents"
	}
	return check
}

// vfShrink minimises a failing history by delta debugging (complement removal
// with shrinking chunk size) while it still fails the same check. Returns the
// 1-minimal history found (within budget) and its issue.
func vfShrink(cfg vfCfg, ops []vfOp, chk vfChecks, first *vfIssue, budget int) ([]vfOp, *vfIssue) {
	cur := append([]vfOp(nil), ops...)
	if first.At+1 < len(cur) {
		cur = cur[:first.At+1]
	}
	best := first
	if is, _ := vfRun(cfg, cur, chk, nil); is != nil && vfFamily(is.Check) == vfFamily(first.Check) {
		best = is
	} else {
		return ops, first // not reproducible (schedule dependent): keep the original
	}
	n := 2
	for len(cur) > 0 && budget > 0 {
		chunk := (len(cur) + n - 1) / n
		removed := false
		for start := 0; start < len(cur) && budget > 0; start += chunk {
			end := start + chunk
			if end > len(cur) {
				end = len(cur)
			}
			cand := append(append([]vfOp(nil), cur[:start]...), cur[end:]...)
			budget--
			if is, _ := vfRun(cfg, cand, chk, nil); is != nil && vfFamily(is.Check) == vfFamily(first.Check) {
				cur, best, removed = cand, is, true
				if n > 2 {
					n--
				}
				break
			}
		}
		if !removed {
			if chunk <= 1 {
				break
			}
			n *= 2
			if n > len(cur) {
				n = len(cur)
			}
		}
	}
	return cur, best
}

type vfWitness struct {
	Cfg      vfCfg    `json:"fragment"`
	Shrunk   []string `json:"minimal_history"`
	FailedAt string   `json:"failed_at"`
	Original []string `json:"original_history,omitempty"`
}

func vfOpsStrings(ops []vfOp) []string {
	out := make([]string, len(ops))
	for i, o := range ops {
		out[i] = o.String()
	}
	return out
}

// vfReport records a failure. The failing history is first minimised; the
// signature is derived from the MINIMAL history (input) and the oracle that
// failed: <write that last changed the misread row/block in the model> ->
// <check>[qualifier]@<fragment kind>.
func vfReport(r *vk.Run, id string, cfg vfCfg, ops []vfOp, chk vfChecks, is *vfIssue) {
	min, mis := vfShrink(cfg, ops, chk, is, 120)
	at := "final read battery"
	if mis.At < len(min) {
		at = fmt.Sprintf("op %d: %s", mis.At, min[mis.At].String())
	}
	w := vfWitness{Cfg: cfg, Shrunk: vfOpsStrings(min), FailedAt: at}
	if len(ops) <= 60 {
		w.Original = vfOpsStrings(ops)
	}
	r.Count("shrunk-histories", 1)
	vfFailOnce(r, mis.sig(cfg), id, mis.Msg, w)
}

var vfSeenSig = map[string]int{}

// vfFailOnce passes the first failure of each signature (per worker process) to
// the kit with its witness and only counts the later ones: the kit keeps at
// most 40 failures per worker and the driver classifies kept failures only, so
// a frequent known signature must not crowd out a rare new one.
func vfFailOnce(r *vk.Run, sig, id, msg string, w interface{}) {
	vfSeenSig[sig]++
	if vfSeenSig[sig] == 1 {
		r.Fail(sig, id, msg, w)
		return
	}
	r.Count("failures-repeat:"+sig, 1)
}

// ---------------------------------------------------------------- generator

var (
	vfRowsSet = []uint64{0, 1, 2, 3, 99, 100, 101}
	// three containers of the shard row: first, a middle one, last; both shard edges
	vfCols = []uint64{0, 1, 2, 65535, 7 << 16, 7<<16 | 1, 7<<16 | 65535, vfSW - 65536, vfSW - 2, vfSW - 1}
)

type vfGen struct {
	NoEmptySetRow bool // never issue setRow with an empty Row (keeps the C07 no-segment defect out of other properties' histories)
	AlwaysChk bool // read the touched rows/columns back after every write
	Conflicts bool // mutex/bool set-batches may repeat a column with conflicting rows (C13)

	rng  *vk.Rand
	cfg  vfCfg
	rows []uint64
	w    []vfWeight
	tot  int
}

type vfWeight struct {
	K string
	W int
}

func newVFGen(rng *vk.Rand, cfg vfCfg, rows []uint64, w []vfWeight) *vfGen {
	g := &vfGen{rng: rng, cfg: cfg, rows: rows}
	for _, x := range w {
		if x.W > 0 && vfOpAllowed(cfg, x.K) {
			g.w = append(g.w, x)
			g.tot += x.W
		}
	}
	return g
}

func vfOpAllowed(cfg vfCfg, k string) bool {
	switch k {
	case "setRow", "importRoaring-set":
		return cfg.Kind == "set" || cfg.Kind == "int" // they bypass the mutex handling by design
	case "setValue", "importValue", "value":
		return cfg.Kind == "int"
	case "await":
		return cfg.BG
	case "colRows":
		return cfg.Kind == "mutex" || cfg.Kind == "bool"
	}
	return true
}

func (g *vfGen) row() uint64 { return g.rows[g.rng.Intn(len(g.rows))] }
func (g *vfGen) col() uint64 { return vfCols[g.rng.Intn(len(vfCols))] }

// cols returns a small column set; sometimes a dense run so that bitmap/run
// containers and >4096 cardinalities occur.
func (g *vfGen) cols(allowDense bool) []uint64 {
	if allowDense && g.rng.Chance(1, 14) {
		base := []uint64{0, 7 << 16, vfSW - 65536}[g.rng.Intn(3)] + uint64(g.rng.Intn(3))*30000
		n := []int{70, 4090, 4100, 5000}[g.rng.Intn(4)]
		step := uint64(1 + g.rng.Intn(2))
		out := make([]uint64, 0, n)
		for i := 0; i < n; i++ {
			if c := base + uint64(i)*step; c < vfSW {
				out = append(out, c)
			}
		}
		return out
	}
	n := 1 + g.rng.Intn(5)
	seen := map[uint64]bool{}
	var out []uint64
	for i := 0; i < n; i++ {
		c := g.col()
		if !seen[c] {
			seen[c] = true
			out = append(out, c)
		}
	}
	sort.Slice(out, func(i, j int) bool { return out[i] < out[j] })
	return out
}

func (g *vfGen) val() int64 {
	max := int64(1)<<g.cfg.Depth - 1
	v := int64(g.rng.Intn(int(max) + 1))
	switch g.rng.Intn(6) {
	case 0:
		v = max
	case 1:
		v = 0
	case 2:
		v = int64(1) << (g.cfg.Depth - 1) // only the top magnitude bit
	}
	if g.rng.Chance(1, 3) {
		v = -v
	}
	return v
}

func (g *vfGen) pairs(distinctCols bool) (rows, cols []uint64) {
	cs := g.cols(g.cfg.Kind == "set")
	if len(cs) > 10 { // dense: one row
		r := g.row()
		for range cs {
			rows = append(rows, r)
		}
		return rows, cs
	}
	for _, c := range cs {
		rows = append(rows, g.row())
		cols = append(cols, c)
		for k := 0; k < 2 && !distinctCols && g.rng.Chance(2, 5); k++ {
			rows = append(rows, g.row())
			cols = append(cols, c)
		}
	}
	if g.rng.Bool() { // unsorted batches too
		p := g.rng.Perm(len(rows))
		r2, c2 := make([]uint64, len(rows)), make([]uint64, len(rows))
		for i, j := range p {
			r2[i], c2[i] = rows[j], cols[j]
		}
		rows, cols = r2, c2
	}
	return rows, cols
}

func (g *vfGen) op() vfOp {
	x := g.rng.Intn(g.tot)
	k := ""
	for _, w := range g.w {
		if x < w.W {
			k = w.K
			break
		}
		x -= w.W
	}
	chk := g.rng.Chance(1, 3) || g.AlwaysChk
	mutexLike := g.cfg.Kind == "mutex" || g.cfg.Kind == "bool"
	switch k {
	case "setBit", "clearBit", "bit":
		return vfOp{K: k, Row: g.row(), Col: g.col(), Chk: chk}
	case "row", "clearRow":
		return vfOp{K: k, Row: g.row(), Chk: chk}
	case "setRow":
		o := vfOp{K: k, Row: g.row(), Chk: chk, Other: g.rng.Chance(1, 4)}
		if g.NoEmptySetRow || !g.rng.Chance(1, 6) {
			o.Cols = g.cols(true)
		}
		return o
	case "bulkImport-set", "bulkImport-clear":
		o := vfOp{K: "bulkImport", Clear: k == "bulkImport-clear", Chk: chk}
		o.Rows, o.Cols = g.pairs(mutexLike && !o.Clear && !g.Conflicts)
		return o
	case "importRoaring-set", "importRoaring-clear":
		o := vfOp{K: "importRoaring", Clear: k == "importRoaring-clear", Chk: chk}
		o.Enc = []string{"pilosa", "pilosa-opt", "official", "official-run"}[g.rng.Intn(4)]
		o.Rows, o.Cols = g.pairs(false)
		return o
	case "setValue":
		return vfOp{K: k, Col: g.col(), Vals: []int64{g.val()}, Chk: chk}
	case "importValue":
		o := vfOp{K: k, Chk: chk, Clear: g.rng.Chance(1, 6)}
		n := 1 + g.rng.Intn(4)
		for i := 0; i < n; i++ {
			o.Cols = append(o.Cols, g.col()) // repeats allowed: the last occurrence wins
			o.Vals = append(o.Vals, g.val())
		}
		return o
	case "rows":
		o := vfOp{K: k, Enc: []string{"all", "col", "rows", "limit", "col+limit", "rows+limit", "col+rows"}[g.rng.Intn(7)]}
		if g.rng.Bool() {
			o.Row = g.row()
		}
		o.Col = g.col()
		o.N = g.rng.Intn(4)
		for _, r := range g.rows {
			if g.rng.Bool() {
				o.Rows = append(o.Rows, r)
			}
		}
		if len(o.Rows) == 0 {
			o.Rows = []uint64{g.rows[0]}
		}
		return o
	case "value", "colRows":
		return vfOp{K: k, Col: g.col()}
	case "top":
		o := vfOp{K: k, Enc: "plain"}
		if g.rng.Chance(2, 3) {
			for _, r := range g.rows {
				if g.rng.Chance(2, 3) {
					o.Rows = append(o.Rows, r)
				}
			}
			if len(o.Rows) == 0 {
				o.Rows = []uint64{g.row()}
			}
		} else {
			o.N = g.rng.Intn(len(g.rows) + 2)
		}
		if len(o.Rows) > 0 { // filter row and threshold only with explicit ids (the unrestricted clause of the property names neither)
			if g.rng.Chance(1, 3) {
				o.Enc = "src"
				o.Cols = g.cols(false)
			}
			if g.rng.Chance(1, 5) {
				o.Thr = uint64(1 + g.rng.Intn(3))
			}
		}
		return o
	}
	return vfOp{K: k} // snapshot, await, reopen, recalc, forEachBit, export, blocks, full
}

func (g *vfGen) history(n int) []vfOp {
	ops := make([]vfOp, n)
	for i := range ops {
		ops[i] = g.op()
	}
	return ops
}

// vfGenCfg draws a fragment configuration.
func vfGenCfg(rng *vk.Rand, kinds []string, cacheTypes []string, maxCache int) vfCfg {
	cfg := vfCfg{Kind: kinds[rng.Intn(len(kinds))]}
	cfg.Shard = []uint64{0, 1, 5}[rng.Intn(3)]
	cfg.CacheType = cacheTypes[rng.Intn(len(cacheTypes))]
	cfg.CacheSize = uint32(1 + rng.Intn(maxCache))
	cfg.MaxOpN = []int{1, 2, 5, 12, 40, 10000}[rng.Intn(6)]
	cfg.BG = rng.Chance(1, 4)
	if cfg.Kind == "int" {
		cfg.Depth = uint(1 + rng.Intn(5))
	}
	return cfg
}

// vfWriteKinds lists the write descriptors an op can produce (for coverage floors).
func vfIsWrite(k string) bool {
	switch k {
	case "setBit", "clearBit", "setRow", "clearRow", "bulkImport", "setValue", "importValue", "importRoaring":
		return true
	}
	return false
}

// vfCoverHistory records op-kind and bigram coverage of a history.
func vfCoverHistory(r *vk.Run, cfg vfCfg, ops []vfOp) {
	prev := ""
	for _, o := range ops {
		k := o.K
		if k == "bulkImport" || k == "importRoaring" {
			if o.Clear {
				k += "/clear"
			} else {
				k += "/set"
			}
		}
		if o.K == "importRoaring" {
			r.Cover("enc:" + o.Enc)
		}
		r.Cover("op:" + k)
		r.Cover("kind-op:" + cfg.Kind + ":" + k)
		if prev != "" {
			r.Cover("bigram:" + prev + ">" + k)
		}
		prev = k
	}
	r.Cover("cache:" + cfg.CacheType)
	r.Cover(fmt.Sprintf("maxopn:%d", cfg.MaxOpN))
	if cfg.BG {
		r.Cover("snapshot:background-queue")
	}
}

func vfHashHistory(cfg vfCfg, ops []vfOp) uint64 {
	return vk.Hash64(cfg, vfOpsStrings(ops))
}
