package pilosa

// C21 — A resize plan copies every newly owned shard from a surviving owner.
//
// Real per-node Holders (in VERIF_SCRATCH) hold the fragments of a generated
// schema/shard set according to the real ownership of a generated cluster
// (real jump hasher). Level A: the coordinator's
// unprotectedGenerateResizeJobByAction (and fragSources) is called for every
// single-node add (new ID sorting first/middle/last) and every non-coordinator
// remove; the plan is checked against owner sets the harness derives from
// shardNodes of the from/to clusters. Level B (one action per case): the plan
// is applied with the real followResizeInstruction on every destination node
// (an InternalClient stub serves fragment data from the source node's real
// holder), membership is switched with the real addNode/removeNode /
// mergeClusterStatus, which triggers the real holderCleaner; fragments present
// before/after cleanup are compared with the ownership of the new cluster.

import (
	"bytes"
	"context"
	"fmt"
	"io"
	"io/ioutil"
	"os"
	"path/filepath"
	"sort"
	"strings"
	"sync"
	"testing"
	"time"

	vk "github.com/pilosa/pilosa/internal/verifkit"
	"github.com/pilosa/pilosa/roaring"
)

type c21Key struct {
	index, field, view string
	shard              uint64
}

func (k c21Key) String() string { return fmt.Sprintf("%s/%s/%s/%d", k.index, k.field, k.view, k.shard) }

type c21Case struct {
	Nodes       []string            `json:"nodes_sorted"`
	Coordinator string              `json:"coordinator"`
	Replicas    int                 `json:"replicas"`
	Data        map[string][]uint64 `json:"shards_with_data_by_index/field/view"`
	Action      string              `json:"action"`
	Node        string              `json:"node"`
	Pos         string              `json:"position"`
	Detail      string              `json:"detail,omitempty"`
}

type c21Node struct {
	node *Node
	c    *cluster
	h    *Holder
	stop chan struct{}
}

// c21Net is the harness transport: completion messages are collected,
// fragment data is served from the source node's real holder.
type c21Net struct {
	nopInternalClient
	mu       sync.Mutex
	byURI    map[URI]*c21Node
	complete chan *ResizeInstructionComplete
}

func (n *c21Net) SendSync(Message) error  { return nil }
func (n *c21Net) SendAsync(Message) error { return nil }
func (n *c21Net) SendTo(to *Node, m Message) error {
	if c, ok := m.(*ResizeInstructionComplete); ok {
		n.complete <- c
	}
	return nil
}

func (n *c21Net) RetrieveShardFromURI(ctx context.Context, index, field, view string, shard uint64, uri URI) (io.ReadCloser, error) {
	n.mu.Lock()
	src := n.byURI[uri]
	n.mu.Unlock()
	if src == nil {
		return nil, fmt.Errorf("harness: no node at %v", uri)
	}
	f := src.h.fragment(index, field, view, shard)
	if f == nil {
		return nil, ErrFragmentNotFound
	}
	var buf bytes.Buffer
	if _, err := f.WriteTo(&buf); err != nil {
		return nil, err
	}
	return ioutil.NopCloser(&buf), nil
}

func c21CloneNode(n *Node) *Node {
	if n == nil {
		return nil
	}
	c := *n
	return &c
}

func c21CloneStatus(cs *ClusterStatus) *ClusterStatus {
	out := &ClusterStatus{ClusterID: cs.ClusterID, State: cs.State}
	for _, n := range cs.Nodes {
		out.Nodes = append(out.Nodes, c21CloneNode(n))
	}
	return out
}

// c21CloneInstr stands in for serialisation: the follower must not share
// mutable Node objects with the coordinator.
func c21CloneInstr(in *ResizeInstruction) *ResizeInstruction {
	out := &ResizeInstruction{JobID: in.JobID, Node: c21CloneNode(in.Node), Coordinator: c21CloneNode(in.Coordinator),
		ClusterStatus: c21CloneStatus(in.ClusterStatus)}
	for _, s := range in.Sources {
		out.Sources = append(out.Sources, &ResizeSource{Node: c21CloneNode(s.Node), Index: s.Index, Field: s.Field, View: s.View, Shard: s.Shard})
	}
	ns := &NodeStatus{Node: c21CloneNode(in.NodeStatus.Node), Schema: in.NodeStatus.Schema}
	for _, is := range in.NodeStatus.Indexes {
		cis := &IndexStatus{Name: is.Name}
		for _, fs := range is.Fields {
			cis.Fields = append(cis.Fields, &FieldStatus{Name: fs.Name, AvailableShards: fs.AvailableShards.Clone()})
		}
		ns.Indexes = append(ns.Indexes, cis)
	}
	out.NodeStatus = ns
	return out
}

func c21Bits(k c21Key) [][2]uint64 {
	h := vk.Hash64(k.index, k.field, k.view, k.shard)
	n := 1 + int(h%3)
	var out [][2]uint64
	for i := 0; i < n; i++ {
		h = vk.Mix(h, uint64(i))
		out = append(out, [2]uint64{h % 7, k.shard*ShardWidth + (h>>8)%1000})
	}
	return out
}

func c21FragBits(f *fragment) string {
	var bits [][2]uint64
	_ = f.forEachBit(func(r, c uint64) error { bits = append(bits, [2]uint64{r, c}); return nil })
	sort.Slice(bits, func(i, j int) bool {
		if bits[i][0] != bits[j][0] {
			return bits[i][0] < bits[j][0]
		}
		return bits[i][1] < bits[j][1]
	})
	return fmt.Sprint(bits)
}

func c21WantBits(k c21Key) string {
	bits := c21Bits(k)
	sort.Slice(bits, func(i, j int) bool {
		if bits[i][0] != bits[j][0] {
			return bits[i][0] < bits[j][0]
		}
		return bits[i][1] < bits[j][1]
	})
	// de-duplicate
	var out [][2]uint64
	for i, b := range bits {
		if i == 0 || b != bits[i-1] {
			out = append(out, b)
		}
	}
	return fmt.Sprint(out)
}

type c21World struct {
	r        *vk.Run
	id       string
	dir      string
	net      *c21Net
	nodes    map[string]*c21Node
	ids      []string // sorted from-members
	coord    string
	replicas int
	schema   map[string]map[string][]string // index -> field -> views
	data     map[c21Key]bool                // fragments with data
	fieldSh  map[[2]string][]uint64         // (index, field) -> shards with data
}

func (w *c21World) newNode(id string, members []string) *c21Node {
	h := NewHolder()
	h.Path = filepath.Join(w.dir, "n-"+fmt.Sprint(len(w.nodes)))
	if err := h.Open(); err != nil {
		panic(err)
	}
	stop := make(chan struct{})
	go func() {
		for {
			select {
			case <-h.translateFile.primaryStoreEvents:
			case <-stop:
				return
			}
		}
	}()
	c := newCluster()
	c.Node = vcNode(id)
	c.Node.IsCoordinator = id == w.coord
	c.Coordinator = w.coord
	c.Topology = newTopology()
	c.Path = h.Path
	c.holder = h
	c.broadcaster = w.net
	c.InternalClient = w.net
	c.ReplicaN = w.replicas
	c.id = "cid"
	c.Topology.clusterID = "cid"
	for _, m := range members {
		nd := vcNode(m)
		if m == id {
			nd = c.Node
		}
		nd.IsCoordinator = m == w.coord
		if err := c.addNode(nd); err != nil {
			panic(err)
		}
	}
	if !vcContains(members, id) { // joining node: knows only itself
		if err := c.addNode(c.Node); err != nil {
			panic(err)
		}
	}
	c.state = ClusterStateNormal
	n := &c21Node{node: c.Node, c: c, h: h, stop: stop}
	w.nodes[id] = n
	w.net.mu.Lock()
	w.net.byURI[c.Node.URI] = n
	w.net.mu.Unlock()
	return n
}

func (w *c21World) close() {
	for _, n := range w.nodes {
		close(n.stop)
		n.h.Close()
	}
	os.RemoveAll(w.dir)
}

func (w *c21World) witness(action, node, pos, detail string) c21Case {
	d := map[string][]uint64{}
	for k := range w.data {
		key := k.index + "/" + k.field + "/" + k.view
		d[key] = append(d[key], k.shard)
	}
	for k := range d {
		d[k] = vk.SortedU64(d[k])
	}
	return c21Case{Nodes: w.ids, Coordinator: w.coord, Replicas: w.replicas, Data: d, Action: action, Node: node, Pos: pos, Detail: detail}
}

func c21Owners(c *cluster, index string, shard uint64) []string {
	return vcNodeIDs(c.shardNodes(index, shard))
}

// populate creates schema on every node, fragments with data on the owners,
// and the available-shard knowledge every node gets from CreateShardMessage.
func (w *c21World) populate() {
	cc := w.nodes[w.coord].c
	for _, n := range w.nodes {
		for index, fields := range w.schema {
			idx, err := n.h.CreateIndexIfNotExists(index, IndexOptions{})
			if err != nil {
				panic(err)
			}
			for field, views := range fields {
				f, err := idx.CreateFieldIfNotExists(field, OptFieldTypeSet(CacheTypeNone, 0))
				if err != nil {
					panic(err)
				}
				for _, v := range views {
					if _, err := f.createViewIfNotExists(v); err != nil {
						panic(err)
					}
				}
				if err := f.AddRemoteAvailableShards(roaring.NewBitmap(w.fieldSh[[2]string{index, field}]...)); err != nil {
					panic(err)
				}
			}
		}
	}
	for k := range w.data {
		for _, owner := range c21Owners(cc, k.index, k.shard) {
			n := w.nodes[owner]
			v := n.h.Field(k.index, k.field).view(k.view)
			frag, err := v.CreateFragmentIfNotExists(k.shard)
			if err != nil {
				panic(err)
			}
			for _, b := range c21Bits(k) {
				if _, err := frag.setBit(b[0], b[1]); err != nil {
					panic(err)
				}
			}
		}
	}
}

func c21PosClass(sorted []string, id string) string {
	i := sort.SearchStrings(sorted, id)
	switch {
	case len(sorted) == 1:
		return "only"
	case i == 0:
		return "first"
	case i == len(sorted)-1:
		return "last"
	}
	return "middle"
}

func c21RClass(r, n int) string {
	switch {
	case r == 1:
		return "r=1"
	case r < n:
		return "1<r<n"
	case r == n:
		return "r=n"
	}
	return "r>n"
}

type c21Plan struct {
	action, nodeID, pos string
	toIDs               []string
	to                  *cluster
	job                 *resizeJob
	refusedWant         bool
}

// c21CheckPlan runs the real planner for one action and checks the plan.
func (w *c21World) checkPlan(action, nodeID string) *c21Plan {
	r := w.r
	cc := w.nodes[w.coord].c
	n := len(w.ids)
	var toIDs []string
	for _, m := range w.ids {
		if !(action == resizeJobActionRemove && m == nodeID) {
			toIDs = append(toIDs, m)
		}
	}
	if action == resizeJobActionAdd {
		toIDs = append(toIDs, nodeID)
	}
	sort.Strings(toIDs)
	pos := c21PosClass(w.ids, nodeID)
	if action == resizeJobActionAdd {
		pos = c21PosClass(toIDs, nodeID)
	}
	p := &c21Plan{action: action, nodeID: nodeID, pos: pos, toIDs: toIDs}
	sig := func(kind string) string {
		return fmt.Sprintf("plan:%s:%s:pos=%s:n=%d:%s", kind, action, pos, n, c21RClass(w.replicas, n))
	}
	fail := func(kind, detail string) {
		r.Fail(sig(kind), w.id, detail, w.witness(action, nodeID, pos, detail))
	}
	r.Cover("action:" + action + ":" + pos)

	// the harness' own view of the resulting cluster
	to := newCluster()
	to.Hasher, to.partitionN, to.ReplicaN = cc.Hasher, cc.partitionN, cc.ReplicaN
	for _, m := range toIDs {
		to.addNodeBasicSorted(vcNode(m))
	}
	p.to = to

	type need struct {
		node string
		key  c21Key
	}
	var needed []need
	valid := map[c21Key][]string{} // by (index,_,_,shard)
	validFor := func(index string, shard uint64) []string {
		k := c21Key{index: index, shard: shard}
		if v, ok := valid[k]; ok {
			return v
		}
		var v []string
		for _, o := range c21Owners(cc, index, shard) {
			if !(action == resizeJobActionRemove && o == nodeID) {
				v = append(v, o)
			}
		}
		if v == nil {
			v = []string{}
		}
		valid[k] = v
		return v
	}
	for k := range w.data {
		from := c21Owners(cc, k.index, k.shard)
		for _, o := range c21Owners(to, k.index, k.shard) {
			if !vcContains(from, o) {
				needed = append(needed, need{o, k})
				if len(validFor(k.index, k.shard)) == 0 {
					p.refusedWant = true
				}
			}
		}
	}

	var node *Node
	if action == resizeJobActionAdd {
		node = vcNode(nodeID)
	} else {
		node = &Node{ID: nodeID} // as nodeLeave does
	}
	var j *resizeJob
	var err error
	if r.Guard(func() string { return sig("panic") }, w.id, func() interface{} { return w.witness(action, nodeID, pos, "") }, func() {
		cc.mu.Lock()
		defer cc.mu.Unlock()
		j, err = cc.unprotectedGenerateResizeJobByAction(nodeAction{node: node, action: action})
	}) {
		return nil
	}
	r.Eval(1)
	r.Distinct(vk.Hash64(w.id, action, nodeID), len(needed) > 0)
	if p.refusedWant {
		r.Cover("refusal-expected")
		if err == nil {
			fail("produced-without-source", fmt.Sprintf("plan produced although some newly owned shard has no surviving previous owner"))
		}
		return p
	}
	if err != nil {
		fail("refused-with-source", fmt.Sprintf("plan refused (%v) although every newly owned shard has a surviving previous owner", err))
		return p
	}
	if len(needed) > 0 {
		r.Cover("plan-with-transfers")
	}
	p.job = j
	got := map[string]map[c21Key]string{}
	for _, instr := range j.Instructions {
		r.Eval(1)
		if instr.Node == nil || !vcContains(toIDs, instr.Node.ID) {
			fail("instruction-for-nonmember", fmt.Sprintf("instruction addressed to %v, resulting members %v", instr.Node, toIDs))
			continue
		}
		m := got[instr.Node.ID]
		if m == nil {
			m = map[c21Key]string{}
			got[instr.Node.ID] = m
		}
		for _, s := range instr.Sources {
			r.Eval(1)
			if s.Node == nil {
				fail("bad-source", fmt.Sprintf("source for %s/%s/%s/%d on %s has no node", s.Index, s.Field, s.View, s.Shard, instr.Node.ID))
				continue
			}
			if !vcContains(validFor(s.Index, s.Shard), s.Node.ID) {
				fail("bad-source", fmt.Sprintf("node %s is told to fetch %s/%s/%s/%d from %s; previous owners minus removed node: %v",
					instr.Node.ID, s.Index, s.Field, s.View, s.Shard, s.Node.ID, validFor(s.Index, s.Shard)))
				continue
			}
			m[c21Key{s.Index, s.Field, s.View, s.Shard}] = s.Node.ID
		}
	}
	for _, nd := range needed {
		r.Eval(1)
		if _, ok := got[nd.node][nd.key]; !ok {
			fail("missing-source", fmt.Sprintf("node %s newly owns %v (previous owners %v) but the plan names no source for it",
				nd.node, nd.key, c21Owners(cc, nd.key.index, nd.key.shard)))
			break
		}
	}
	return p
}

// c21Present lists the fragments a node holds.
func c21Present(n *c21Node) map[c21Key]bool {
	out := map[c21Key]bool{}
	for _, idx := range n.h.Indexes() {
		for _, f := range idx.Fields() {
			for _, v := range f.views() {
				for _, fr := range v.allFragments() {
					out[c21Key{idx.Name(), f.Name(), v.name, fr.shard}] = true
				}
			}
		}
	}
	return out
}

// apply runs the plan with the real follower code, switches membership with
// the real code (which runs the real cleaner) and checks the fragments.
func (w *c21World) apply(p *c21Plan) {
	r := w.r
	n := len(w.ids)
	sig := func(kind string) string {
		return fmt.Sprintf("%s:%s:pos=%s:n=%d:%s", kind, p.action, p.pos, n, c21RClass(w.replicas, n))
	}
	fail := func(kind, detail string) {
		r.Fail(sig(kind), w.id, detail, w.witness(p.action, p.nodeID, p.pos, detail))
	}
	cc := w.nodes[w.coord].c
	// as nodeJoin/nodeLeave do, the coordinator is RESIZING when the job is generated
	cc.state = ClusterStateResizing
	var j *resizeJob
	var err error
	node := &Node{ID: p.nodeID}
	if p.action == resizeJobActionAdd {
		node = w.newNode(p.nodeID, nil).node
		node = c21CloneNode(node)
	}
	cc.mu.Lock()
	j, err = cc.unprotectedGenerateResizeJobByAction(nodeAction{node: node, action: p.action})
	cc.mu.Unlock()
	if err != nil {
		fail("apply-regenerate", "second planning call failed: "+err.Error())
		return
	}
	for _, id := range p.toIDs {
		if id != w.coord {
			w.nodes[id].c.state = ClusterStateResizing
		}
	}
	r.Cover("apply:" + p.action)
	for _, instr := range j.Instructions {
		dest := w.nodes[instr.Node.ID]
		if dest == nil {
			continue // already reported by checkPlan
		}
		if err := dest.c.followResizeInstruction(c21CloneInstr(instr)); err != nil {
			fail("apply-error", fmt.Sprintf("followResizeInstruction on %s: %v", instr.Node.ID, err))
			return
		}
		select {
		case c := <-w.net.complete:
			r.Eval(1)
			if c.Error != "" {
				fail("apply-error", fmt.Sprintf("node %s reports resize error: %s", instr.Node.ID, c.Error))
				return
			}
		case <-time.After(120 * time.Second):
			r.T.Fatalf("harness watchdog: followResizeInstruction on %s never reported (case %s)", instr.Node.ID, w.id)
		}
	}
	// every owner under the new membership must now hold every fragment with data
	holds := func(stage string) bool {
		for k := range w.data {
			for _, o := range c21Owners(p.to, k.index, k.shard) {
				r.Eval(1)
				f := w.nodes[o].h.fragment(k.index, k.field, k.view, k.shard)
				if f == nil {
					fail(stage+"-missing", fmt.Sprintf("%s: node %s owns %v under the new membership but has no such fragment", stage, o, k))
					return false
				}
				if got, want := c21FragBits(f), c21WantBits(k); got != want {
					fail(stage+"-content", fmt.Sprintf("%s: node %s fragment %v holds %s want %s", stage, o, k, got, want))
					return false
				}
			}
		}
		return true
	}
	if !holds("after-transfer") {
		return
	}
	before := map[string]map[c21Key]bool{}
	for _, id := range p.toIDs {
		before[id] = c21Present(w.nodes[id])
	}
	// switch membership: coordinator as handleNodeAction does, followers by the NORMAL status broadcast
	cc.mu.Lock()
	if p.action == resizeJobActionAdd {
		err = cc.addNode(node)
	} else {
		err = cc.removeNode(p.nodeID)
	}
	cc.mu.Unlock()
	if err != nil {
		fail("apply-error", "coordinator membership change: "+err.Error())
		return
	}
	cc.SetState(ClusterStateNormal)
	cc.mu.RLock()
	status := c21CloneStatus(cc.unprotectedStatus())
	cc.mu.RUnlock()
	for _, id := range p.toIDs {
		if id == w.coord {
			continue
		}
		if err := w.nodes[id].c.mergeClusterStatus(c21CloneStatus(status)); err != nil {
			fail("apply-error", fmt.Sprintf("mergeClusterStatus on %s: %v", id, err))
			return
		}
	}
	for _, id := range p.toIDs {
		nd := w.nodes[id]
		r.Eval(1)
		if got := vcNodeIDs(nd.c.nodes); !c20EqualS(got, p.toIDs) || nd.c.state != ClusterStateNormal {
			fail("apply-membership", fmt.Sprintf("node %s ends with members %v state %s; want %v NORMAL", id, got, nd.c.state, p.toIDs))
			return
		}
		after := c21Present(nd)
		for k := range before[id] {
			if after[k] {
				if !vcContains(c21Owners(p.to, k.index, k.shard), id) {
					r.Count("cleanup-kept-unowned", 1)
				}
				continue
			}
			r.Eval(1)
			r.Cover("cleanup-deleted-a-fragment")
			if vcContains(c21Owners(p.to, k.index, k.shard), id) {
				fail("cleanup-deleted-owned", fmt.Sprintf("cleanup on node %s deleted %v which it owns under the new membership %v (owners %v)",
					id, k, p.toIDs, c21Owners(p.to, k.index, k.shard)))
				return
			}
		}
	}
	holds("after-cleanup")
}

func c20EqualS(a, b []string) bool {
	return strings.Join(a, "\x00") == strings.Join(b, "\x00")
}

func TestVerifC21(t *testing.T) {
	r := vk.Start(t, "C21")
	defer r.Finish()

	for _, a := range []string{resizeJobActionAdd, resizeJobActionRemove} {
		for _, p := range []string{"first", "middle", "last"} {
			r.Expect("action:" + a + ":" + p)
		}
		r.Expect("apply:" + a)
	}
	for n := 1; n <= 6; n++ {
		r.Expect(fmt.Sprintf("nodes:%d", n))
	}
	for k := 1; k <= 4; k++ {
		r.Expect(fmt.Sprintf("replicas:%d", k))
	}
	for k := 1; k <= 3; k++ {
		r.Expect(fmt.Sprintf("fields:%d", k), fmt.Sprintf("views:%d", k))
	}
	r.Expect("refusal-expected", "plan-with-transfers", "cleanup-deleted-a-fragment", "fn:fragSources")

	viewNames := []string{viewStandard, viewStandard + "_2019", viewStandard + "_201901", viewBSIGroupPrefix + "x"}
	total := r.N(480, 19200)
	r.Cases("resize", total, func(i int, id string, rng *vk.Rand) {
		n := 1 + rng.Intn(6)
		replicas := 1 + rng.Intn(4)
		ids := vcGenIDs(rng, n)
		sorted := vcSortedCopy(ids)
		w := &c21World{r: r, id: id, dir: vcScratch("c21"), nodes: map[string]*c21Node{}, ids: sorted,
			coord: ids[rng.Intn(n)], replicas: replicas,
			net:    &c21Net{byURI: map[URI]*c21Node{}, complete: make(chan *ResizeInstructionComplete, 16)},
			schema: map[string]map[string][]string{}, data: map[c21Key]bool{}, fieldSh: map[[2]string][]uint64{}}
		defer w.close()
		r.Cover(fmt.Sprintf("nodes:%d", n))
		r.Cover(fmt.Sprintf("replicas:%d", replicas))

		// schema and data
		nIdx := 1
		if rng.Chance(1, 5) {
			nIdx = 2
		}
		maxShard := []int{3, 12, 40}[rng.Intn(3)]
		for ii := 0; ii < nIdx; ii++ {
			index := []string{"i", "j2"}[ii]
			w.schema[index] = map[string][]string{}
			nf := 1 + rng.Intn(3)
			r.Cover(fmt.Sprintf("fields:%d", nf))
			for fi := 0; fi < nf; fi++ {
				field := fmt.Sprintf("f%d", fi)
				nv := 1 + rng.Intn(3)
				r.Cover(fmt.Sprintf("views:%d", nv))
				var views []string
				for _, k := range rng.Perm(len(viewNames))[:nv] {
					views = append(views, viewNames[k])
				}
				w.schema[index][field] = views
				var fsh []uint64
				for _, v := range views {
					ns := 1 + rng.Intn(6)
					for k := 0; k < ns; k++ {
						s := uint64(rng.Intn(maxShard + 1))
						w.data[c21Key{index, field, v, s}] = true
						fsh = append(fsh, s)
					}
				}
				w.fieldSh[[2]string{index, field}] = vk.SortedU64(fsh)
			}
		}
		for _, m := range sorted {
			w.newNode(m, sorted)
		}
		w.populate()
		if r.WantSample() {
			r.Sample(w.witness("", "", "", ""))
		}

		// level A: every add position, every non-coordinator remove
		var plans []*c21Plan
		newIDs := c21NewIDs(rng, sorted)
		for _, nid := range newIDs {
			if p := w.checkPlan(resizeJobActionAdd, nid); p != nil {
				plans = append(plans, p)
			}
		}
		for _, m := range sorted {
			if m == w.coord {
				continue
			}
			if p := w.checkPlan(resizeJobActionRemove, m); p != nil {
				plans = append(plans, p)
			}
		}
		// fragSources directly, for one add
		{
			cc := w.nodes[w.coord].c
			to := newCluster()
			to.Hasher, to.partitionN, to.ReplicaN = cc.Hasher, cc.partitionN, cc.ReplicaN
			to.nodes = Nodes(cc.nodes).Clone()
			to.addNodeBasicSorted(vcNode(newIDs[0]))
			for _, idx := range cc.holder.Indexes() {
				m, err := cc.fragSources(to, idx)
				r.Eval(1)
				if err != nil {
					r.Fail(fmt.Sprintf("fragSources:ADD:n=%d:%s", n, c21RClass(replicas, n)), id, "fragSources refused an add: "+err.Error(), w.witness("ADD", newIDs[0], "", ""))
				}
				for nodeID, srcs := range m {
					for _, s := range srcs {
						r.Eval(1)
						if s.Node == nil || !vcContains(c21Owners(cc, s.Index, s.Shard), s.Node.ID) {
							r.Fail(fmt.Sprintf("fragSources:ADD:n=%d:%s", n, c21RClass(replicas, n)), id,
								fmt.Sprintf("fragSources: %s fetches %s/%s/%s/%d from %v which did not own it", nodeID, s.Index, s.Field, s.View, s.Shard, s.Node), w.witness("ADD", newIDs[0], "", ""))
						}
					}
				}
			}
			r.Cover("fn:fragSources")
		}
		// level B: apply one feasible plan
		var feasible []*c21Plan
		for _, p := range plans {
			if p.job != nil {
				feasible = append(feasible, p)
			}
		}
		if len(feasible) > 0 && !r.Failed() {
			w.apply(feasible[rng.Intn(len(feasible))])
		}
	})
}

// c21NewIDs returns IDs not in sorted that sort first, last and (if possible)
// in the middle of the resulting membership.
func c21NewIDs(rng *vk.Rand, sorted []string) []string {
	out := []string{"\x01" + fmt.Sprint(rng.Intn(10)), "ÿÿ" + fmt.Sprint(rng.Intn(10))}
	// first: sorts before every generated ID; last: after every generated ID (IDs are < U+00FF U+00FF)
	if sorted[0] <= out[0] || sorted[len(sorted)-1] >= out[1] {
		panic("c21NewIDs: generator assumption broken")
	}
	if len(sorted) >= 2 {
		k := rng.Intn(len(sorted) - 1)
		mid := sorted[k] + "\x01m"
		if mid > sorted[k] && mid < sorted[k+1] {
			out = append(out, mid)
		}
	}
	return out
}
