package pilosa

// C11 — Anti-entropy repairs every replica to the per-bit majority.
// R in {2,3,4,5} REAL holders (scratch directories), each holding the fragment
// under sync in three views (standard, standard_2019, standard_201907). A
// harness InternalClient routes FragmentBlocks / BlockData / ImportRoaring to
// the other nodes' real code (API.FragmentBlocks, fragment.blockData,
// API.ImportRoaring -> importWorker -> Field.importRoaring). One owner runs
// fragmentSyncer.syncFragment() (each owner in turn across cases).
// Oracle: per-bit majority (ties -> set) over the INITIAL contents of all
// replicas in the SAME view must be what every replica holds afterwards; the
// other views must be untouched; Blocks() of all replicas must be equal.

import (
	"bytes"
	"context"
	"fmt"
	"os"
	"path/filepath"
	"sort"
	"testing"

	vk "github.com/pilosa/pilosa/internal/verifkit"
)

var c11Views = []string{viewStandard, viewStandard + "_2019", viewStandard + "_201907"}

type c11Node struct {
	node    *Node
	holder  *Holder
	cluster *cluster
	api     *API
}

// c11Net is the harness InternalClient: it delivers the three calls the
// fragment syncer makes to the addressed node's real code, in-process.
type c11Net struct {
	nopInternalClient
	nodes []*c11Node
	log   []string // calls of the current pass (monitor state; single goroutine)
}

func (n *c11Net) target(uri *URI) *c11Node {
	for _, x := range n.nodes {
		if x.node.URI.Port == uri.Port {
			return x
		}
	}
	panic(fmt.Sprintf("c11Net: no node for %v", uri))
}

func (n *c11Net) FragmentBlocks(ctx context.Context, uri *URI, index, field, view string, shard uint64) ([]FragmentBlock, error) {
	n.log = append(n.log, fmt.Sprintf("FragmentBlocks(%d,%s)", uri.Port, view))
	return n.target(uri).api.FragmentBlocks(ctx, index, field, view, shard)
}

func (n *c11Net) BlockData(ctx context.Context, uri *URI, index, field, view string, shard uint64, block int) ([]uint64, []uint64, error) {
	n.log = append(n.log, fmt.Sprintf("BlockData(%d,%s,block %d)", uri.Port, view, block))
	// API.FragmentBlockData minus the wire encoding (the serializer lives in a package that imports this one)
	t := n.target(uri)
	if err := t.api.validate(apiFragmentBlockData); err != nil {
		return nil, nil, err
	}
	f := t.holder.fragment(index, field, view, shard)
	if f == nil {
		return nil, nil, ErrFragmentNotFound
	}
	rows, cols := f.blockData(block)
	return append([]uint64(nil), rows...), append([]uint64(nil), cols...), nil
}

func (n *c11Net) ImportRoaring(ctx context.Context, uri *URI, index, field string, shard uint64, remote bool, req *ImportRoaringRequest) error {
	cp := &ImportRoaringRequest{Clear: req.Clear, Views: map[string][]byte{}}
	for k, v := range req.Views { // what the wire would do: the receiver gets its own copy
		cp.Views[k] = append([]byte(nil), v...)
		n.log = append(n.log, fmt.Sprintf("ImportRoaring(%d,view-key %q,clear=%v,%d bytes)", uri.Port, k, req.Clear, len(v)))
	}
	return n.target(uri).api.ImportRoaring(ctx, index, field, shard, remote, cp)
}

type c11Cluster struct {
	R     int
	net   *c11Net
	nodes []*c11Node
}

const c11Shard = 3

func c11Build(R int) (*c11Cluster, error) {
	net := &c11Net{}
	cl := &c11Cluster{R: R, net: net}
	var all []*Node
	for i := 0; i < R; i++ {
		all = append(all, &Node{ID: fmt.Sprintf("node%d", i), URI: URI{Scheme: "http", Host: "localhost", Port: uint16(20000 + i)}, State: nodeStateReady})
	}
	for i := 0; i < R; i++ {
		h := NewHolder()
		h.Path = filepath.Join(vfScratch(), fmt.Sprintf("c11-%d-R%d-n%d", os.Getpid(), R, i))
		os.RemoveAll(h.Path)
		if err := h.Open(); err != nil {
			return nil, err
		}
		idx, err := h.CreateIndex("i", IndexOptions{})
		if err != nil {
			return nil, err
		}
		fld, err := idx.CreateField("f", OptFieldTypeTime(TimeQuantum("YM")))
		if err != nil {
			return nil, err
		}
		for _, vn := range c11Views {
			v, err := fld.createViewIfNotExists(vn)
			if err != nil {
				return nil, err
			}
			if _, err := v.CreateFragmentIfNotExists(c11Shard); err != nil {
				return nil, err
			}
		}
		c := newCluster()
		c.ReplicaN = R
		c.nodes = all
		c.Node = all[i]
		c.holder = h
		c.InternalClient = net
		c.state = ClusterStateNormal
		api := &API{holder: h, cluster: c, server: &Server{nodeID: all[i].ID}, importWorkerPoolSize: 1}
		api.importWork = make(chan importJob, 1)
		go importWorker(api.importWork)
		nd := &c11Node{node: all[i], holder: h, cluster: c, api: api}
		cl.nodes = append(cl.nodes, nd)
	}
	net.nodes = cl.nodes
	return cl, nil
}

func (cl *c11Cluster) close() {
	for _, n := range cl.nodes {
		close(n.api.importWork)
		n.holder.Close()
		os.RemoveAll(n.holder.Path)
	}
}

func (cl *c11Cluster) frag(i int, view string) *fragment {
	return cl.nodes[i].holder.fragment("i", "f", view, c11Shard)
}

func c11Contents(f *fragment) []uint64 {
	var out []uint64
	f.forEachBit(func(r, c uint64) error { out = append(out, r*vfSW+c%vfSW); return nil })
	return out
}

// c11Set drives a fragment to exactly the given positions through setBit/clearBit
// and drops cached checksums, so every case starts from a consistent replica.
func c11Set(f *fragment, want []uint64) error {
	have := c11Contents(f)
	ws := map[uint64]bool{}
	for _, p := range want {
		ws[p] = true
	}
	for _, p := range have {
		if !ws[p] {
			if _, err := f.clearBit(p/vfSW, c11Shard*vfSW+p%vfSW); err != nil {
				return err
			}
		}
		delete(ws, p)
	}
	for p := range ws {
		if _, err := f.setBit(p/vfSW, c11Shard*vfSW+p%vfSW); err != nil {
			return err
		}
	}
	f.InvalidateChecksums()
	return nil
}

type c11Case struct {
	R         int        `json:"replicas"`
	View      string     `json:"view"`
	Initiator int        `json:"initiator"`
	Contents  [][]string `json:"initial_contents_per_replica"` // "row:col"
	Others    string     `json:"other_views"`                  // full | empty
	contents  [][]uint64
	universe  []uint64
}

func c11Fmt(ps []uint64) []string {
	out := make([]string, len(ps))
	for i, p := range ps {
		out[i] = fmt.Sprintf("%d:%d", p/vfSW, p%vfSW)
	}
	return out
}

// c11Majority: per-bit majority over the replicas, ties -> set.
func c11Majority(contents [][]uint64) []uint64 {
	cnt := map[uint64]int{}
	for _, c := range contents {
		for _, p := range c {
			cnt[p]++
		}
	}
	var out []uint64
	for p, n := range cnt {
		if 2*n >= len(contents) {
			out = append(out, p)
		}
	}
	sort.Slice(out, func(i, j int) bool { return out[i] < out[j] })
	return out
}

// c11Need classifies what a replica needs to reach the majority (input only).
func c11Need(have, want []uint64) string {
	h, w := map[uint64]bool{}, map[uint64]bool{}
	for _, p := range have {
		h[p] = true
	}
	sets, clears := 0, 0
	for _, p := range want {
		w[p] = true
		if !h[p] {
			sets++
		}
	}
	for _, p := range have {
		if !w[p] {
			clears++
		}
	}
	switch {
	case sets == 0 && clears == 0:
		return "nothing"
	case clears == 0:
		return "sets"
	case sets == 0 && clears == 1:
		return "1-clear"
	case sets == 0:
		return "n-clears"
	}
	return "sets+clears"
}

func c11Blocks(ps ...[]uint64) int {
	b := map[uint64]bool{}
	for _, s := range ps {
		for _, p := range s {
			b[p/vfSW/HashBlockSize] = true
		}
	}
	return len(b)
}

func c11Run(r *vk.Run, id string, cl *c11Cluster, cs *c11Case) {
	cs.Contents = nil
	for _, c := range cs.contents {
		cs.Contents = append(cs.Contents, c11Fmt(c))
	}
	viewClass := "time-view"
	if cs.View == viewStandard {
		viewClass = "standard-view"
	}
	rb := fmt.Sprintf("R%d", cs.R)
	if cs.R >= 4 {
		rb = "R4+"
	}
	mb := ""
	if c11Blocks(cs.contents...) > 1 {
		mb = "/multi-block"
	}
	want := c11Majority(cs.contents)
	// input predicate: some block b differs between replicas while the initiator holds a bit in
	// row (b+1)*HashBlockSize, the first row of the NEXT block (and more than two replicas vote)
	nbr := ""
	if cs.R > 2 {
		inBlock := func(c []uint64, b uint64) []uint64 {
			var out []uint64
			for _, p := range c {
				if p/vfSW/HashBlockSize == b {
					out = append(out, p)
				}
			}
			return out
		}
		for _, p := range cs.contents[cs.Initiator] {
			if row := p / vfSW; row%HashBlockSize == 0 && row > 0 {
				b := row/HashBlockSize - 1
				for k := 1; k < cs.R; k++ {
					if !vk.EqualU64(inBlock(cs.contents[k], b), inBlock(cs.contents[0], b)) {
						nbr = "next-block-row/"
					}
				}
			}
		}
	}
	if nbr != "" {
		r.Cover("next-block-row")
	}
	sig := func(who string, i int) string {
		// the view only matters for what is sent to a remote replica; R stays in the witness
		if who == "local" {
			return fmt.Sprintf("%slocal-needs-%s", nbr, c11Need(cs.contents[i], want))
		}
		return fmt.Sprintf("%s%s/remote-needs-%s", nbr, viewClass, c11Need(cs.contents[i], want))
	}
	var other []uint64
	if cs.Others == "full" {
		other = cs.universe
	}
	// ---- set up the initial state
	for i := 0; i < cs.R; i++ {
		for _, vn := range c11Views {
			t := other
			if vn == cs.View {
				t = cs.contents[i]
			}
			if err := c11Set(cl.frag(i, vn), t); err != nil {
				r.Fail("setup-error", id, err.Error(), cs)
				return
			}
		}
	}
	r.Cover("R:" + rb)
	r.Cover("view:" + cs.View)
	r.Cover(fmt.Sprintf("initiator:%d", cs.Initiator))
	for i := range cs.contents {
		who := "remote"
		if i == cs.Initiator {
			who = "local"
		}
		r.Cover(who + "-needs:" + c11Need(cs.contents[i], want))
	}
	if mb != "" {
		r.Cover("multi-block")
	}
	// ---- one anti-entropy pass by the initiator
	cl.net.log = cl.net.log[:0]
	ini := cl.nodes[cs.Initiator]
	fs := fragmentSyncer{Fragment: cl.frag(cs.Initiator, cs.View), Node: ini.node, Cluster: ini.cluster, Closing: make(chan struct{})}
	var err error
	if r.Guard(func() string { return "panic/" + sig("local", cs.Initiator) }, id, func() interface{} { return cs }, func() { err = fs.syncFragment() }) {
		return
	}
	calls := append([]string(nil), cl.net.log...)
	type wit struct {
		Case  *c11Case `json:"case"`
		Want  []string `json:"majority"`
		Calls []string `json:"syncer_calls"`
	}
	w := wit{Case: cs, Want: c11Fmt(want), Calls: calls}
	r.Eval(1)
	if err != nil {
		vfFailOnce(r, "sync-error/"+sig("local", cs.Initiator), id, "syncFragment: "+err.Error(), w)
		return
	}
	// ---- oracle 1: every replica holds the majority in the synced view
	order := []int{cs.Initiator}
	for i := 0; i < cs.R; i++ {
		if i != cs.Initiator {
			order = append(order, i)
		}
	}
	ok := true
	for _, i := range order {
		who := "remote"
		if i == cs.Initiator {
			who = "local"
		}
		got := c11Contents(cl.frag(i, cs.View))
		r.Eval(1)
		if !vk.EqualU64(got, want) {
			vfFailOnce(r, sig(who, i), id, fmt.Sprintf("replica %d (%s) view %s holds %v after the pass, majority of the initial contents is %v (it held %v)", i, who, cs.View, c11Fmt(got), c11Fmt(want), c11Fmt(cs.contents[i])), w)
			ok = false
			break
		}
	}
	// ---- oracle 2: the other views are untouched on every replica
	for i := 0; i < cs.R && ok; i++ {
		for _, vn := range c11Views {
			if vn == cs.View {
				continue
			}
			got := c11Contents(cl.frag(i, vn))
			r.Eval(1)
			if !vk.EqualU64(got, other) {
				who := "remote"
				if i == cs.Initiator {
					who = "local"
				}
				vfFailOnce(r, "other-view-changed/"+sig(who, i), id, fmt.Sprintf("sync of view %s changed view %s on replica %d: holds %v, held %v", cs.View, vn, i, c11Fmt(got), c11Fmt(other)), w)
				ok = false
				break
			}
		}
	}
	if !ok {
		return
	}
	// ---- oracle 3: identical block checksums afterwards
	ref := cl.frag(0, cs.View).Blocks()
	for i := 1; i < cs.R; i++ {
		b := cl.frag(i, cs.View).Blocks()
		r.Eval(1)
		same := len(b) == len(ref)
		for k := 0; same && k < len(b); k++ {
			same = b[k].ID == ref[k].ID && bytes.Equal(b[k].Checksum, ref[k].Checksum)
		}
		if !same {
			who, j := "remote", i
			if c11Need(cs.contents[0], want) != "nothing" && c11Need(cs.contents[i], want) == "nothing" {
				j = 0
			}
			if j == cs.Initiator {
				who = "local"
			}
			// which statement failed: are the checksums merely stale (cached before a repair was applied)?
			for k := 0; k < cs.R; k++ {
				cl.frag(k, cs.View).InvalidateChecksums()
			}
			fresh0, freshI := cl.frag(0, cs.View).Blocks(), cl.frag(i, cs.View).Blocks()
			kind := "blocks-stale-after-repair/"
			if len(fresh0) != len(freshI) {
				kind = "blocks-differ-after/"
			}
			for k := 0; k < len(fresh0) && k < len(freshI); k++ {
				if fresh0[k].ID != freshI[k].ID || !bytes.Equal(fresh0[k].Checksum, freshI[k].Checksum) {
					kind = "blocks-differ-after/"
				}
			}
			_, _ = who, j
			vfFailOnce(r, kind+viewClass, id, fmt.Sprintf("all replicas hold the majority but Blocks() of replica 0 and %d differ: %v vs %v (recomputed from scratch: %v vs %v)", i, ref, b, fresh0, freshI), w)
			return
		}
	}
}

func TestVerifC11(t *testing.T) {
	r := vk.Start(t, "C11")
	defer r.Finish()
	defer vfScratchCleanup()

	r.Expect("next-block-row", "R:R2", "R:R3", "R:R4+", "view:standard", "view:standard_2019", "view:standard_201907", "multi-block",
		"local-needs:sets", "local-needs:1-clear", "local-needs:n-clears", "local-needs:sets+clears",
		"remote-needs:sets", "remote-needs:1-clear", "remote-needs:n-clears", "remote-needs:sets+clears")

	clusters := map[int]*c11Cluster{}
	defer func() {
		for _, c := range clusters {
			c.close()
		}
	}()
	get := func(R int) *c11Cluster {
		if c := clusters[R]; c != nil {
			return c
		}
		c, err := c11Build(R)
		if err != nil {
			t.Fatalf("c11Build(%d): %v", R, err)
		}
		clusters[R] = c
		return c
	}

	// ---- exhaustive over 4 bit positions (2 rows x 2 columns at the block and shard edges) for R = 2, 3
	pos4 := []uint64{0*vfSW + 0, 0*vfSW + (vfSW - 1), 99*vfSW + 0, 99*vfSW + (vfSW - 1)}
	nexh := 1<<8 + 1<<12
	r.Cases("exhaustive", r.N(nexh, nexh), func(i int, id string, _ *vk.Rand) {
		g := i*r.NWorkers + r.Worker // global index: worker w takes w, w+NW, ...
		R, a := 2, g
		if g >= 1<<8 {
			R, a = 3, g-1<<8
		}
		base := c11Case{R: R, universe: pos4}
		for k := 0; k < R; k++ {
			var c []uint64
			for b := 0; b < 4; b++ {
				if a>>(uint(k)*4+uint(b))&1 == 1 {
					c = append(c, pos4[b])
				}
			}
			base.contents = append(base.contents, c)
		}
		r.Distinct(vk.Hash64("exh", R, a), c11Need(base.contents[0], c11Majority(base.contents)) != "nothing" || c11Need(base.contents[1], c11Majority(base.contents)) != "nothing" || R == 3)
		combos := [][2]int{{g % 3, (g / 3) % R}} // quick: one (view, initiator) per assignment, rotating
		if r.Thorough() {
			combos = nil
			for v := 0; v < 3; v++ {
				for ini := 0; ini < R; ini++ {
					combos = append(combos, [2]int{v, ini})
				}
			}
		}
		for _, vi := range combos {
			cs := base
			cs.View, cs.Initiator = c11Views[vi[0]], vi[1]
			cs.Others = []string{"full", "full", "empty"}[(g/7)%3]
			if r.WantSample() && g%97 == 5 {
				r.Sample(&cs)
			}
			c11Run(r, id, get(R), &cs)
		}
	})

	// ---- random: R in 2..5, multi-block contents, correlated replicas
	rowsU := []uint64{0, 1, 99, 100, 101, 199, 200}
	colsU := []uint64{0, 1, 65535, 65536, vfSW - 1}
	var uni []uint64
	for _, rr := range rowsU {
		for _, c := range colsU {
			uni = append(uni, rr*vfSW+c)
		}
	}
	r.Cases("random", r.N(20000, 400000), func(i int, id string, rng *vk.Rand) {
		cs := c11Case{R: 2 + rng.Intn(4), universe: uni}
		cs.View = c11Views[rng.Intn(3)]
		cs.Initiator = rng.Intn(cs.R)
		cs.Others = []string{"full", "full", "empty"}[rng.Intn(3)]
		// positions in play: a few, so that replicas collide
		var inPlay []uint64
		n := 1 + rng.Intn(8)
		oneBlock := rng.Chance(1, 3)
		for len(inPlay) < n {
			p := uni[rng.Intn(len(uni))]
			if oneBlock && p/vfSW/HashBlockSize != 0 {
				continue
			}
			inPlay = append(inPlay, p)
		}
		inPlay = vk.SortedU64(inPlay)
		base := map[uint64]bool{}
		for _, p := range inPlay {
			base[p] = rng.Bool()
		}
		flip := 1 + rng.Intn(3)
		for k := 0; k < cs.R; k++ {
			var c []uint64
			for _, p := range inPlay {
				v := base[p]
				if rng.Chance(flip, 6) {
					v = !v
				}
				if v {
					c = append(c, p)
				}
			}
			cs.contents = append(cs.contents, c)
		}
		nontrivial := false
		m := c11Majority(cs.contents)
		for k := range cs.contents {
			if c11Need(cs.contents[k], m) != "nothing" {
				nontrivial = true
			}
		}
		r.Distinct(vk.Hash64("rnd", id), nontrivial)
		if r.WantSample() {
			r.Sample(&cs)
		}
		c11Run(r, id, get(cs.R), &cs)
	})
}
