package pilosa_test

// E-SRV — in-process server / cluster environment shared by the API-level
// checks: starts the repo's own test servers, routes imports to shard owners,
// renders mutations as PQL and decodes results.

import (
	"bytes"
	"os"
	"strconv"
	"context"
	"encoding/binary"
	"fmt"
	"sort"
	"strings"
	"sync"
	"sync/atomic"
	"testing"
	"time"

	"github.com/pilosa/pilosa"
	vk "github.com/pilosa/pilosa/internal/verifkit"
	"github.com/pilosa/pilosa/roaring"
	"github.com/pilosa/pilosa/test"
)

// esrvMaxOpN is what the "fragment.new.maxopn" hook returns for fragments
// created from now on (0 = keep the default).
var esrvMaxOpN uint64

func esrvInstallHook() {
	pilosa.SetVerifHook(func(name string, a, b uint64) uint64 {
		if name == "fragment.new.maxopn" {
			return atomic.LoadUint64(&esrvMaxOpN)
		}
		return 0
	})
}

// esrvFail forwards a failure to the kit but keeps at most two witnesses per
// signature and process: the kit stores no more than 40 failures per worker
// and the driver only sees signatures that made it into that list, so a
// frequent (known) class must not crowd a new signature out. Further
// occurrences are counted under "more-failures:<sig>".
var (
	esrvFailMu  sync.Mutex
	esrvFailCnt = map[string]int{}
)

func esrvFail(r *vk.Run, sig, id, msg string, wit interface{}) {
	esrvFailMu.Lock()
	esrvFailCnt[sig]++
	n := esrvFailCnt[sig]
	esrvFailMu.Unlock()
	if n <= 2 || r.Replaying() {
		r.Fail(sig, id, msg, wit)
		return
	}
	r.Count("more-failures:"+sig, 1)
}

type esrvEnv struct {
	t     *testing.T
	cmds  []*test.Command
	seq   int
	pref  string
	Nodes int
}

// esrvNodes is the cluster size requested through VERIF_ESRV_NODES (default 1):
// the same API-level harness then runs against a real multi-node cluster.
func esrvNodes() int {
	if n, err := strconv.Atoi(os.Getenv("VERIF_ESRV_NODES")); err == nil && n > 1 {
		return n
	}
	return 1
}

// fieldOn returns the Field object on a node that owns the column's shard.
func (e *esrvEnv) fieldOn(index, field string, col uint64) *pilosa.Field {
	o := e.owners(index, col/pilosa.ShardWidth)
	if len(o) == 0 {
		return nil
	}
	return o[0].Server.Holder().Field(index, field)
}

func esrvStart(t *testing.T, nodes int, pref string) *esrvEnv {
	esrvInstallHook()
	e := &esrvEnv{t: t, Nodes: nodes, pref: pref}
	if nodes <= 1 {
		e.cmds = []*test.Command{test.MustRunCommand()}
	} else {
		e.cmds = []*test.Command(test.MustRunCluster(t, nodes))
	}
	return e
}

func (e *esrvEnv) Close() {
	for _, c := range e.cmds {
		c.Close()
	}
}

func (e *esrvEnv) api() *pilosa.API { return e.cmds[0].API }

// newIndex creates a fresh index (unique name per call).
func (e *esrvEnv) newIndex(track bool) (string, error) {
	e.seq++
	name := fmt.Sprintf("%s%d", e.pref, e.seq)
	_, err := e.api().CreateIndex(context.Background(), name, pilosa.IndexOptions{TrackExistence: track})
	return name, err
}

func (e *esrvEnv) dropIndex(name string) {
	_ = e.api().DeleteIndex(context.Background(), name)
}

// createField creates the server-side field for a model field.
func (e *esrvEnv) createField(index string, f *mField, cacheType string, cacheSize uint32) error {
	var opt pilosa.FieldOption
	switch f.Type {
	case "set":
		opt = pilosa.OptFieldTypeSet(cacheType, cacheSize)
	case "mutex":
		opt = pilosa.OptFieldTypeMutex(cacheType, cacheSize)
	case "bool":
		opt = pilosa.OptFieldTypeBool()
	case "time":
		opt = pilosa.OptFieldTypeTime(pilosa.TimeQuantum(f.Quantum), f.NoStd)
	case "int":
		opt = pilosa.OptFieldTypeInt(f.Min, f.Max)
	default:
		return fmt.Errorf("bad field type %q", f.Type)
	}
	// boltdb opens the field's attribute store with a 1 s lock timeout; on a loaded machine a
	// node may answer "opening storage: timeout" (not a property of interest here): try again
	var err error
	for attempt := 0; attempt < 5; attempt++ {
		_, err = e.api().CreateField(context.Background(), index, f.Name, opt)
		if err == nil || !strings.Contains(err.Error(), "opening storage: timeout") {
			return err
		}
		_ = e.api().DeleteField(context.Background(), index, f.Name)
		time.Sleep(200 * time.Millisecond)
	}
	return err
}

// query runs one PQL string on node 0.
func (e *esrvEnv) query(index, pql string) ([]interface{}, error) {
	resp, err := e.api().Query(context.Background(), &pilosa.QueryRequest{Index: index, Query: pql})
	if err != nil {
		return nil, err
	}
	return resp.Results, nil
}

// query1 runs a single-call query and returns its only result.
func (e *esrvEnv) query1(index, pql string) (interface{}, error) {
	res, err := e.query(index, pql)
	if err != nil {
		return nil, err
	}
	if len(res) != 1 {
		return nil, fmt.Errorf("harness: %d results for single call %q", len(res), pql)
	}
	return res[0], nil
}

// queryBatch runs several calls in ONE request (the PQL parser allocates a
// large buffer per request, so batching read-only calls is several times
// faster). If the request fails, every call is retried alone so that the error
// is attributed to the call that causes it.
func (e *esrvEnv) queryBatch(index string, pqls []string) ([]interface{}, []error) {
	out := make([]interface{}, len(pqls))
	errs := make([]error, len(pqls))
	if len(pqls) == 0 {
		return out, errs
	}
	res, err := e.query(index, strings.Join(pqls, " "))
	if err == nil && len(res) == len(pqls) {
		copy(out, res)
		return out, errs
	}
	for i, q := range pqls {
		out[i], errs[i] = e.query1(index, q)
	}
	return out, errs
}

// owners returns the commands that own a shard of an index.
func (e *esrvEnv) owners(index string, shard uint64) []*test.Command {
	if len(e.cmds) == 1 {
		return e.cmds
	}
	nodes, err := e.api().ShardNodes(context.Background(), index, shard)
	if err != nil {
		return nil
	}
	var out []*test.Command
	for _, n := range nodes {
		for _, c := range e.cmds {
			if c.API.Node().ID == n.ID {
				out = append(out, c)
			}
		}
	}
	return out
}

// importBits bulk-imports (row, col[, ts]) bits, split by shard and sent to
// each shard's owners. Slices handed to the API are private copies (pilosa
// mutates its arguments).
func (e *esrvEnv) importBits(index, field string, rows, cols []uint64, ts []int64, clear bool) error {
	type batch struct {
		r, c []uint64
		t    []int64
	}
	by := map[uint64]*batch{}
	var shards []uint64
	for i := range cols {
		s := cols[i] / mSW
		b := by[s]
		if b == nil {
			b = &batch{}
			by[s] = b
			shards = append(shards, s)
		}
		b.r = append(b.r, rows[i])
		b.c = append(b.c, cols[i])
		if ts != nil {
			b.t = append(b.t, ts[i])
		}
	}
	sort.Slice(shards, func(i, j int) bool { return shards[i] < shards[j] })
	for _, s := range shards {
		b := by[s]
		for _, cmd := range e.owners(index, s) {
			req := &pilosa.ImportRequest{Index: index, Field: field, Shard: s,
				RowIDs: append([]uint64(nil), b.r...), ColumnIDs: append([]uint64(nil), b.c...)}
			if ts != nil {
				req.Timestamps = append([]int64(nil), b.t...)
			}
			var err error
			if clear {
				err = cmd.API.Import(context.Background(), req, pilosa.OptImportOptionsClear(true))
			} else {
				err = cmd.API.Import(context.Background(), req)
			}
			if err != nil {
				return err
			}
		}
	}
	return nil
}

// importValues bulk-imports (col, value) pairs split by shard.
func (e *esrvEnv) importValues(index, field string, cols []uint64, vals []int64, clear bool) error {
	type batch struct {
		c []uint64
		v []int64
	}
	by := map[uint64]*batch{}
	var shards []uint64
	for i := range cols {
		s := cols[i] / mSW
		b := by[s]
		if b == nil {
			b = &batch{}
			by[s] = b
			shards = append(shards, s)
		}
		b.c = append(b.c, cols[i])
		b.v = append(b.v, vals[i])
	}
	sort.Slice(shards, func(i, j int) bool { return shards[i] < shards[j] })
	for _, s := range shards {
		b := by[s]
		for _, cmd := range e.owners(index, s) {
			req := &pilosa.ImportValueRequest{Index: index, Field: field, Shard: s,
				ColumnIDs: append([]uint64(nil), b.c...), Values: append([]int64(nil), b.v...)}
			var err error
			if clear {
				err = cmd.API.ImportValue(context.Background(), req, pilosa.OptImportOptionsClear(true))
			} else {
				err = cmd.API.ImportValue(context.Background(), req)
			}
			if err != nil {
				return err
			}
		}
	}
	return nil
}

// importRoaring sends one roaring import for a shard; views maps view suffix
// ("" = standard, "2019", "201901", ...) to fragment positions
// (row*ShardWidth + col%ShardWidth). official selects the RoaringFormatSpec
// encoding instead of Pilosa's.
func (e *esrvEnv) importRoaring(index, field string, shard uint64, views map[string][]uint64, official, clear bool) error {
	req := &pilosa.ImportRoaringRequest{Clear: clear, Views: map[string][]byte{}}
	for v, pos := range views {
		if len(pos) == 0 {
			continue
		}
		if official {
			req.Views[v] = esrvOfficialRoaring(pos)
		} else {
			req.Views[v] = esrvPilosaRoaring(pos)
		}
	}
	if len(req.Views) == 0 {
		return nil
	}
	return e.api().ImportRoaring(context.Background(), index, field, shard, false, req)
}

// waitShards waits (cluster only) until node 0 knows every shard in want for
// the index, so that queries fan out to all data. Pure synchronisation; never
// part of an oracle.
func (e *esrvEnv) waitShards(index string, want []uint64) bool {
	if len(e.cmds) == 1 {
		return true
	}
	deadline := time.Now().Add(10 * time.Second)
	for {
		ok := true
		for _, c := range e.cmds {
			bm := c.API.AvailableShardsByIndex(context.Background())[index]
			for _, s := range want {
				if bm == nil || !bm.Contains(s) {
					ok = false
				}
			}
		}
		if ok {
			return true
		}
		if time.Now().After(deadline) {
			return false
		}
		time.Sleep(2 * time.Millisecond)
	}
}

func esrvPilosaRoaring(pos []uint64) []byte {
	bm := roaring.NewBitmap(append([]uint64(nil), pos...)...)
	var buf bytes.Buffer
	bm.WriteTo(&buf)
	return buf.Bytes()
}

// esrvOfficialRoaring encodes positions (< 2^32) per the RoaringFormatSpec
// without run containers (cookie 12346): array containers up to 4096 values,
// bitmap containers above.
func esrvOfficialRoaring(pos []uint64) []byte {
	ps := mSortU64(pos)
	type cont struct {
		key  uint16
		vals []uint16
	}
	var cs []cont
	for i, p := range ps {
		if i > 0 && p == ps[i-1] {
			continue
		}
		if p >= 1<<32 {
			panic("esrvOfficialRoaring: position beyond 32 bits")
		}
		k := uint16(p >> 16)
		if len(cs) == 0 || cs[len(cs)-1].key != k {
			cs = append(cs, cont{key: k})
		}
		cs[len(cs)-1].vals = append(cs[len(cs)-1].vals, uint16(p))
	}
	var buf bytes.Buffer
	w := func(v interface{}) { binary.Write(&buf, binary.LittleEndian, v) }
	w(uint32(12346))
	w(uint32(len(cs)))
	for _, c := range cs {
		w(c.key)
		w(uint16(len(c.vals) - 1))
	}
	off := uint32(8 + 8*len(cs))
	for _, c := range cs {
		w(off)
		if len(c.vals) > 4096 {
			off += 8192
		} else {
			off += uint32(2 * len(c.vals))
		}
	}
	for _, c := range cs {
		if len(c.vals) > 4096 {
			var words [1024]uint64
			for _, v := range c.vals {
				words[v>>6] |= 1 << (v & 63)
			}
			w(words[:])
		} else {
			w(c.vals)
		}
	}
	return buf.Bytes()
}

// ---------------------------------------------------------------- result decoding

func esrvColumns(res interface{}) ([]uint64, bool) {
	r, ok := res.(*pilosa.Row)
	if !ok || r == nil {
		return nil, false
	}
	return r.Columns(), true
}

// esrvIsSortedSet reports whether xs is strictly ascending.
func esrvIsSortedSet(xs []uint64) bool {
	for i := 1; i < len(xs); i++ {
		if xs[i] <= xs[i-1] {
			return false
		}
	}
	return true
}

// ---------------------------------------------------------------- PQL for mutations

func esrvSetPQL(f *mField, row, col uint64, ts *time.Time) string {
	if f.Type == "bool" {
		return fmt.Sprintf("Set(%d, %s=%v)", col, f.Name, row == 1)
	}
	if ts != nil {
		return fmt.Sprintf("Set(%d, %s=%d, %s)", col, f.Name, row, mTS(*ts))
	}
	return fmt.Sprintf("Set(%d, %s=%d)", col, f.Name, row)
}

func esrvClearPQL(f *mField, row, col uint64) string {
	if f.Type == "bool" {
		return fmt.Sprintf("Clear(%d, %s=%v)", col, f.Name, row == 1)
	}
	return fmt.Sprintf("Clear(%d, %s=%d)", col, f.Name, row)
}

func esrvClearRowPQL(f *mField, row uint64) string {
	if f.Type == "bool" {
		return fmt.Sprintf("ClearRow(%s=%v)", f.Name, row == 1)
	}
	return fmt.Sprintf("ClearRow(%s=%d)", f.Name, row)
}

func esrvSetValuePQL(f *mField, col uint64, v int64) string {
	return fmt.Sprintf("Set(%d, %s=%d)", col, f.Name, v)
}

// ---------------------------------------------------------------- shared generators

// esrvTimePool is the pool of timestamps (whole hours, <= 2024) straddling
// hour/day/month/year edges, including hours >= 13 and a leap day.
var esrvTimePool = func() []time.Time {
	mk := func(y int, mo time.Month, d, h int) time.Time { return time.Date(y, mo, d, h, 0, 0, 0, time.UTC) }
	return []time.Time{
		mk(2017, 6, 15, 12), mk(2018, 12, 31, 22), mk(2018, 12, 31, 23), mk(2019, 1, 1, 0), mk(2019, 1, 1, 1),
		mk(2019, 1, 1, 13), mk(2019, 1, 2, 0), mk(2019, 1, 31, 23), mk(2019, 2, 1, 0), mk(2019, 2, 28, 14),
		mk(2019, 3, 1, 0), mk(2019, 12, 31, 23), mk(2020, 1, 1, 0), mk(2020, 2, 29, 12), mk(2020, 3, 1, 5), mk(2021, 7, 4, 9),
	}
}()

var esrvQuanta = []string{"Y", "YM", "YMD", "YMDH", "M", "MD", "MDH", "D", "DH", "H"}

// esrvAlignedBounds lists every boundary aligned to the finest unit of q that
// is adjacent to a pool timestamp (unit start and next unit start).
func esrvAlignedBounds(q string) []time.Time {
	u := mFinest(q)
	seen := map[int64]bool{}
	var out []time.Time
	for _, t := range esrvTimePool {
		a := mTruncUnit(t, u)
		for _, b := range []time.Time{a, mNextUnit(a, u)} {
			if !seen[b.Unix()] {
				seen[b.Unix()] = true
				out = append(out, b)
			}
		}
	}
	sort.Slice(out, func(i, j int) bool { return out[i].Before(out[j]) })
	return out
}

// esrvColumnPool returns hostile columns for nShards shards: shard edges,
// 65535/65536 container edges and a few interior points.
func esrvColumnPool(nShards int) []uint64 {
	var out []uint64
	offs := []uint64{0, 1, 2, 65534, 65535, 65536, 65537, 131071, 131072, 500000, mSW - 4, mSW - 3, mSW - 2, mSW - 1}
	for s := 0; s < nShards; s++ {
		for _, o := range offs {
			out = append(out, uint64(s)*mSW+o)
		}
	}
	return out
}
