package pilosa_test

// C15 — Bitmap queries return the set-algebra result over stored data.
// Differential monitor: generated datasets over 3-4 shards (shard and container
// edges, empty rows, missing fields/views) are written to a real in-process
// server through Set queries and bulk imports; generated PQL expression trees
// (Row plain / time range / int condition, Union, Intersect, Difference, Xor,
// Not, Shift, Count) and interleaved mutations (Set, Clear, ClearRow, Store)
// are executed through API.Query and compared with the E-SRV model.

import (
	"fmt"
	"os"
	"sort"
	"strconv"
	"strings"
	"testing"
	"time"

	vk "github.com/pilosa/pilosa/internal/verifkit"
)

type c15Witness struct {
	Track  bool     `json:"trackExistence"`
	Nodes  int      `json:"nodes"`
	Fields []string `json:"fields"`
	Log    []string `json:"history"`
	Query  string   `json:"failing_call"`
}

type c15State struct {
	r      *vk.Run
	env    *esrvEnv
	rng    *vk.Rand
	id     string
	m      *mIndex
	index  string
	cols   []uint64
	log    []string
	fdesc  []string
	failed bool
	muts   map[string]map[string]bool // field -> mutation kinds applied
	rowsOf map[string][]uint64        // row pool per field
}

func (s *c15State) wit(q string) c15Witness {
	lg := s.log
	if len(lg) > 400 {
		lg = lg[len(lg)-400:]
	}
	return c15Witness{Track: s.m.Track, Nodes: s.env.Nodes, Fields: s.fdesc, Log: append([]string(nil), lg...), Query: q}
}

func (s *c15State) fail(sig, msg, q string) {
	s.failed = true
	esrvFail(s.r, sig, s.id, msg, s.wit(q))
}

func (s *c15State) mark(field, kind string) {
	if s.muts[field] == nil {
		s.muts[field] = map[string]bool{}
	}
	s.muts[field][kind] = true
}

func (s *c15State) mutSet(field string) string {
	var ks []string
	for k := range s.muts[field] {
		ks = append(ks, k)
	}
	sort.Strings(ks)
	return strings.Join(ks, "+")
}

// c15ExprSig derives the failure signature from the INPUT expression (and the
// model's view of the data it touches).
func (s *c15State) exprSig(n *qNode, count bool) string {
	suffix := ""
	if count {
		suffix = "/count"
	}
	if s.m.shiftCarry(n) {
		return "shift-carry" + suffix
	}
	if s.m.shiftContainerCarry(n, s.storedInto) {
		return "shift-container-carry-computed" + suffix
	}
	if s.env.Nodes > 1 {
		fwd, nostd := false, false
		n.walk(func(x *qNode) {
			if x.Kind == "rowint" && (x.Op == "between" || x.Op == "notnull") {
				fwd = true
			}
			if f := s.m.Fields[x.Field]; f != nil && f.Type == "time" && f.NoStd {
				nostd = true
			}
		})
		if fwd {
			return "cluster-forwarded-between-or-notnull" + suffix
		}
		if nostd {
			return "cluster-time-nostandard" + suffix
		}
	}
	nearZero := ""
	timeNoStd := false
	n.walk(func(x *qNode) {
		if x.Kind == "rowint" && (x.Op == "<" || x.Op == ">") && (x.P1 == 0 || x.P1 == -1) {
			nearZero = x.Op
		}
		if f := s.m.Fields[x.Field]; f != nil && f.Type == "time" && f.NoStd && s.muts[x.Field]["Clear"] {
			timeNoStd = true
		}
	})
	if nearZero != "" {
		return "intcond-strict-near-zero/" + nearZero + suffix
	}
	emptyBetween := false
	n.walk(func(x *qNode) {
		if x.Kind == "rowint" && x.Op == "between" && mEmptyInterval(x) {
			emptyBetween = true
		}
	})
	if emptyBetween {
		return "intcond-between-empty-interval" + suffix
	}
	beyond := ""
	n.walk(func(x *qNode) {
		if f := s.m.Fields[x.Field]; f != nil && x.Kind == "rowint" && c15Inequality(x.Op) {
			if s.beyond(f, x.P1) || (x.Op == "between" && s.beyond(f, x.P2)) {
				beyond = x.Op
			}
		}
	})
	if beyond != "" {
		return "intcond-at-or-beyond-bitdepth/" + beyond + suffix
	}
	if timeNoStd {
		return "time-nostandard-after-clear" + suffix
	}
	// time-range leaves over a field that saw Clear (clears must reach every view)
	afterClear := false
	n.walk(func(x *qNode) {
		if x.Kind == "rowtime" && s.muts[x.Field]["Clear"] {
			afterClear = true
		}
	})
	if afterClear {
		return "timerange-after-clear" + suffix
	}
	return "expr/" + strings.Join(n.kinds(), "+") + suffix
}

// typeTag names the field class used in mutation/state signatures.
func (s *c15State) typeTag(f *mField) string {
	if f.Type == "time" && f.NoStd {
		if s.env.Nodes > 1 {
			return "cluster-time-nostandard"
		}
		return "time-nostandard"
	}
	return f.Type
}

// beyond reports whether predicate p is at/beyond the bit-depth range of the
// field; on a cluster the smallest per-shard depth decides (each node keeps its own depth).
func (s *c15State) beyond(f *mField, p int64) bool {
	if s.env.Nodes > 1 {
		return mBeyond(f.minShardDepth(), p)
	}
	return f.beyondDepth(p)
}

func c15Inequality(op string) bool {
	return op == "<" || op == "<=" || op == ">" || op == ">=" || op == "between"
}

func (s *c15State) storedInto(field string) bool { return s.muts[field]["Store"] }

// ---- generators

func (s *c15State) pickCol() uint64 { return s.cols[s.rng.Intn(len(s.cols))] }

func (s *c15State) pickRow(f *mField) uint64 {
	p := s.rowsOf[f.Name]
	return p[s.rng.Intn(len(p))]
}

func (s *c15State) pickTime() time.Time { return esrvTimePool[s.rng.Intn(len(esrvTimePool))] }

func (s *c15State) leaf() *qNode {
	rng := s.rng
	if rng.Chance(1, 60) {
		return &qNode{Kind: "row", Field: "nofield", Row: 1}
	}
	name := s.m.Order[rng.Intn(len(s.m.Order))]
	f := s.m.Fields[name]
	switch f.Type {
	case "int":
		ops := []string{"==", "!=", "<", "<=", ">", ">=", "between", "notnull"}
		op := ops[rng.Intn(len(ops))]
		if s.env.Nodes > 1 && (op == "between" || op == "notnull") && c15RareClasses && !rng.Chance(1, 8) {
			op = ops[rng.Intn(6)] // forwarded between / != null are C26's known class: keep them rare
		}
		pred := func() int64 {
			if rng.Chance(1, 30) {
				return []int64{1 << 31, -(1 << 31), 1 << 62, -(1 << 62)}[rng.Intn(4)]
			}
			return f.Min - 3 + int64(rng.Intn(int(f.Max-f.Min)+7))
		}
		n := &qNode{Kind: "rowint", Field: name, Op: op, P1: pred()}
		if (op == "<" || op == ">") && (n.P1 == 0 || n.P1 == -1) && c15RareClasses && !rng.Chance(1, 4) {
			n.P1 = 1 + int64(rng.Intn(3)) // keep the known near-zero class rare
		}
		inside := func() int64 { // strictly inside the range representable at the current bit depth
			d := f.Depth
			if s.env.Nodes > 1 {
				d = f.minShardDepth()
			}
			lim := int64(1)<<d - 1
			if lim <= 1 {
				return 0
			}
			return int64(rng.Intn(int(2*lim-1))) - (lim - 1)
		}
		if c15Inequality(op) && s.beyond(f, n.P1) && c15RareClasses && !rng.Chance(1, 6) {
			n.P1 = inside() // keep the known beyond-bit-depth class (C14) rare
			if (op == "<" || op == ">") && (n.P1 == 0 || n.P1 == -1) {
				n.P1 = 1
			}
		}
		if op == "between" {
			n.P2 = pred()
			if n.P2 < n.P1 {
				n.P1, n.P2 = n.P2, n.P1
			}
			n.LoEq, n.HiEq = rng.Bool(), rng.Bool()
			if (s.beyond(f, n.P1) || s.beyond(f, n.P2)) && c15RareClasses && !rng.Chance(1, 6) {
				n.P1, n.P2 = inside(), inside()
				if n.P2 < n.P1 {
					n.P1, n.P2 = n.P2, n.P1
				}
			}
		}
		if op == "between" && mEmptyInterval(n) && c15RareClasses && !rng.Chance(1, 5) {
			n.LoEq, n.HiEq = true, true // keep the known empty-interval class rare
		}
		return n
	case "time":
		if f.Quantum != "" && rng.Chance(3, 5) {
			bs := esrvAlignedBounds(f.Quantum)
			i, j := rng.Intn(len(bs)), rng.Intn(len(bs))
			if i == j {
				j = (i + 1) % len(bs)
			}
			if i > j {
				i, j = j, i
			}
			n := &qNode{Kind: "rowtime", Field: name, Row: s.pickRow(f), From: bs[i], To: bs[j]}
			if rng.Chance(1, 10) && f.Quantum[0] == 'Y' {
				// open end: executor uses now+1d; all data <= 2024. Only for quanta with a year
				// unit (others make the server walk every day/hour up to today).
				n.To = time.Time{}
			}
			return n
		}
		return &qNode{Kind: "row", Field: name, Row: s.pickRow(f)}
	case "bool":
		return &qNode{Kind: "row", Field: name, Row: uint64(rng.Intn(2)), Bool: true}
	default:
		return &qNode{Kind: "row", Field: name, Row: s.pickRow(f)}
	}
}

func (s *c15State) expr(depth int) *qNode {
	rng := s.rng
	if depth <= 1 || rng.Chance(3, 10) {
		return s.leaf()
	}
	kinds := []string{"union", "intersect", "difference", "xor", "not", "shift", "union", "intersect"}
	k := kinds[rng.Intn(len(kinds))]
	if k == "not" && !s.m.Track && !rng.Chance(1, 8) {
		k = "difference"
	}
	n := &qNode{Kind: k}
	arity := 1 + rng.Intn(3)
	switch k {
	case "not":
		arity = 1
	case "shift":
		arity = 1
		n.N = 1 + rng.Intn(3)
	case "union", "xor":
		if rng.Chance(1, 40) {
			arity = 0
		}
	}
	for i := 0; i < arity; i++ {
		n.Kids = append(n.Kids, s.expr(depth-1))
	}
	return n
}

// ---- execution

func (s *c15State) runQuery(n *qNode, count bool) {
	r := s.r
	pql := n.PQL()
	if count {
		pql = "Count(" + pql + ")"
	}
	want, werr := s.m.eval(n)
	res, err := s.env.query1(s.index, pql)
	r.Eval(1)
	for _, k := range n.kinds() {
		r.Cover("node:" + k)
	}
	if count {
		r.Cover("node:count")
	}
	sig := s.exprSig(n, count)
	if (err != nil) != (werr != nil) {
		if err != nil {
			s.fail(sig+"#unexpected-error", fmt.Sprintf("%s: server error %q, model expects %d columns", pql, err.Error(), len(want)), pql)
		} else {
			s.fail(sig+"#missing-error", fmt.Sprintf("%s: server answered, model expects an error (missing field / Not without existence tracking)", pql), pql)
		}
		return
	}
	if err != nil {
		r.Cover("outcome:error")
		return
	}
	ws := want.sorted()
	if count {
		got, ok := res.(uint64)
		if !ok {
			s.fail(sig+"#result-type", fmt.Sprintf("%s: result type %T", pql, res), pql)
			return
		}
		if got != uint64(len(ws)) {
			s.fail(sig, fmt.Sprintf("%s: count %d, model %d (model columns %s)%s", pql, got, len(ws), vk.Brief(ws), s.localize(n)), pql)
		}
		return
	}
	got, ok := esrvColumns(res)
	if !ok {
		s.fail(sig+"#result-type", fmt.Sprintf("%s: result type %T", pql, res), pql)
		return
	}
	if len(ws) > 0 {
		r.Cover("outcome:nonempty")
	} else {
		r.Cover("outcome:empty")
	}
	if !vk.EqualU64(got, ws) {
		extra := ""
		if !esrvIsSortedSet(got) {
			extra = " (result not an ascending duplicate-free column list)"
		}
		s.fail(sig, fmt.Sprintf("%s: %s%s; got %s want %s%s", pql, vk.DiffU64(got, ws), extra, vk.Brief(got), vk.Brief(ws), s.localize(n)), pql)
	}
}

// localize re-queries sub-expressions bottom-up and describes the smallest one
// that disagrees with the model (triage aid; not an oracle).
func (s *c15State) localize(n *qNode) string {
	for _, k := range n.Kids {
		if d := s.localize(k); d != "" {
			return d
		}
	}
	want, werr := s.m.eval(n)
	res, err := s.env.query1(s.index, n.PQL())
	if err != nil || werr != nil {
		if (err != nil) != (werr != nil) {
			return fmt.Sprintf(" | smallest disagreeing sub-expression %s: server err=%v model err=%v", n.PQL(), err, werr)
		}
		return ""
	}
	got, _ := esrvColumns(res)
	if ws := want.sorted(); !vk.EqualU64(got, ws) {
		return fmt.Sprintf(" | smallest disagreeing sub-expression %s: got %s want %s", n.PQL(), vk.Brief(got), vk.Brief(ws))
	}
	return ""
}

func (s *c15State) boolResult(pql, sig string, want bool, check bool) bool {
	res, err := s.env.query1(s.index, pql)
	s.log = append(s.log, pql)
	s.r.Eval(1)
	if err != nil {
		s.fail(sig+"#unexpected-error", fmt.Sprintf("%s: server error %q", pql, err.Error()), pql)
		return false
	}
	got, ok := res.(bool)
	if !ok {
		s.fail(sig+"#result-type", fmt.Sprintf("%s: result type %T", pql, res), pql)
		return false
	}
	if check && got != want {
		s.fail(sig+"#return", fmt.Sprintf("%s: returned %v, documented result is %v", pql, got, want), pql)
		return false
	}
	return true
}

// setOne performs one Set query (random timestamp for time fields).
func (s *c15State) setOne(f *mField) {
	col := s.pickCol()
	if f.Type == "int" {
		v := f.Min + int64(s.rng.Intn(int(f.Max-f.Min)+1))
		want := s.m.setValue(f, col, v, true)
		s.r.Cover("mut:Set:int")
		s.boolResult(esrvSetValuePQL(f, col, v), "int/Set", want, true)
		return
	}
	row := s.pickRow(f)
	var ts *time.Time
	if f.Type == "time" && f.Quantum != "" && (f.NoStd || s.rng.Chance(4, 5)) {
		// untimestamped writes to a field without a standard view are left out: Set drops them,
		// bulk Import creates the standard view, and the documentation is silent
		t := s.pickTime()
		ts = &t
	}
	want := s.m.setBit(f, row, col, ts, true)
	s.mark(f.Name, "Set")
	s.r.Cover("mut:Set:" + f.Type)
	s.boolResult(esrvSetPQL(f, row, col, ts), s.typeTag(f)+"/Set", want, true)
}

func (s *c15State) importSome(f *mField, n int) {
	if f.Type == "int" {
		var cols []uint64
		var vals []int64
		seen := map[uint64]bool{}
		for i := 0; i < n; i++ {
			c := s.pickCol()
			if seen[c] {
				continue
			}
			seen[c] = true
			v := f.Min + int64(s.rng.Intn(int(f.Max-f.Min)+1))
			cols, vals = append(cols, c), append(vals, v)
			s.m.setValue(f, c, v, true)
		}
		s.log = append(s.log, fmt.Sprintf("ImportValue(%s cols=%v vals=%v)", f.Name, cols, vals))
		s.r.Cover("mut:ImportValue")
		if err := s.env.importValues(s.index, f.Name, cols, vals, false); err != nil {
			s.fail("int/ImportValue#unexpected-error", "ImportValue: "+err.Error(), "")
		}
		return
	}
	var rows, cols []uint64
	var ts []int64
	withTS := f.Type == "time" && f.Quantum != "" && (f.NoStd || s.rng.Chance(3, 4))
	seen := map[uint64]bool{}
	for i := 0; i < n; i++ {
		c, r := s.pickCol(), s.pickRow(f)
		if (f.Type == "mutex" || f.Type == "bool") && seen[c] {
			continue // repeated columns inside one mutex batch are C13's concern
		}
		seen[c] = true
		rows, cols = append(rows, r), append(cols, c)
		var tp *time.Time
		if withTS {
			t := s.pickTime()
			tp = &t
			ts = append(ts, t.UnixNano())
		}
		s.m.setBit(f, r, c, tp, true)
	}
	s.mark(f.Name, "Import")
	s.log = append(s.log, fmt.Sprintf("Import(%s rows=%v cols=%v ts=%v)", f.Name, rows, cols, ts))
	s.r.Cover("mut:Import:" + f.Type)
	if err := s.env.importBits(s.index, f.Name, rows, cols, ts, false); err != nil {
		s.fail(s.typeTag(f)+"/Import#unexpected-error", "Import: "+err.Error(), "")
	}
}

func (s *c15State) mutate() {
	rng := s.rng
	name := s.m.Order[rng.Intn(len(s.m.Order))]
	f := s.m.Fields[name]
	switch k := rng.Intn(10); {
	case k < 3:
		s.setOne(f)
	case k < 5: // Clear
		if f.Type == "int" {
			s.setOne(f)
			return
		}
		row, col := s.pickRow(f), s.pickCol()
		// prefer an existing bit
		if rs := f.row(row); len(rs) > 0 && rng.Chance(3, 4) {
			cs := rs.sorted()
			col = cs[rng.Intn(len(cs))]
		} else if f.Type == "time" && len(f.TBits) > 0 && rng.Chance(3, 4) {
			var bs []mTBit
			for b := range f.TBits {
				bs = append(bs, b)
			}
			sort.Slice(bs, func(i, j int) bool {
				if bs[i].Row != bs[j].Row {
					return bs[i].Row < bs[j].Row
				}
				if bs[i].Col != bs[j].Col {
					return bs[i].Col < bs[j].Col
				}
				return bs[i].T < bs[j].T
			})
			b := bs[rng.Intn(len(bs))]
			row, col = b.Row, b.Col
		}
		want := s.m.clearBit(f, row, col)
		s.mark(name, "Clear")
		s.r.Cover("mut:Clear:" + f.Type)
		s.boolResult(esrvClearPQL(f, row, col), s.typeTag(f)+"/Clear", want, true)
	case k < 7: // ClearRow
		if f.Type == "int" {
			s.setOne(f)
			return
		}
		row := s.pickRow(f)
		want := s.m.clearRow(f, row)
		s.mark(name, "ClearRow")
		s.r.Cover("mut:ClearRow:" + f.Type)
		s.boolResult(esrvClearRowPQL(f, row), s.typeTag(f)+"/ClearRow", want, true)
	case k < 9: // Store into a set field
		var sets []*mField
		for _, n := range s.m.Order {
			if s.m.Fields[n].Type == "set" {
				sets = append(sets, s.m.Fields[n])
			}
		}
		if len(sets) == 0 {
			s.setOne(f)
			return
		}
		dst := sets[rng.Intn(len(sets))]
		var src *qNode
		for try := 0; ; try++ {
			src = s.expr(1 + rng.Intn(3))
			_, err := s.m.eval(src)
			if err == nil && !s.m.shiftCarry(src) && !s.m.shiftContainerCarry(src, s.storedInto) {
				break
			}
			if try > 20 {
				return
			}
		}
		// known-defect classes must not corrupt the stored state
		bad := false
		src.walk(func(x *qNode) {
			if x.Kind == "rowint" && (x.Op == "<" || x.Op == ">") && (x.P1 == 0 || x.P1 == -1) {
				bad = true
			}
			if x.Kind == "rowint" && x.Op == "between" && mEmptyInterval(x) {
				bad = true
			}
			if ff := s.m.Fields[x.Field]; ff != nil && x.Kind == "rowint" && c15Inequality(x.Op) && (s.beyond(ff, x.P1) || (x.Op == "between" && s.beyond(ff, x.P2))) {
				bad = true
			}
		})
		if bad && c15RareClasses {
			return
		}
		cols, _ := s.m.eval(src)
		row := s.pickRow(dst)
		// input class: the destination row holds columns in a shard where the source has none
		srcShards := map[uint64]bool{}
		for c := range cols {
			srcShards[c/mSW] = true
		}
		emptied := false
		for c := range dst.row(row) {
			if !srcShards[c/mSW] {
				emptied = true
			}
		}
		rbSig := "Store-readback/" + strings.Join(src.kinds(), "+")
		if emptied {
			if c15RareClasses && !rng.Chance(1, 6) {
				return // keep the class (stale row after Store of a shard-empty source) rare
			}
			rbSig = "Store-readback/source-empty-in-a-destination-shard"
			s.r.Cover("store:source-empty-in-dest-shard")
		}
		s.m.store(dst, row, cols.sorted())
		s.mark(dst.Name, "Store")
		s.r.Cover("mut:Store")
		s.r.Cover("store-src:" + src.Kind)
		// Store is documented to return true always ("a future version may use this boolean"): not compared
		if s.boolResult(fmt.Sprintf("Store(%s, %s=%d)", src.PQL(), dst.Name, row), "Store/"+strings.Join(src.kinds(), "+"), true, false) {
			s.checkRow(&qNode{Kind: "row", Field: dst.Name, Row: row}, rbSig)
		}
	default:
		if f.Type == "int" {
			// ImportValue after reads / over existing values is C14's subject; here int fields
			// are bulk-loaded only once, before any read
			s.setOne(f)
			return
		}
		s.importSome(f, 1+rng.Intn(6))
	}
}

// finalBattery reads every pool row of every field back (plain rows, one
// time range per time field, not-null of int fields).
func (s *c15State) finalBattery() {
	for _, name := range s.m.Order {
		f := s.m.Fields[name]
		if s.failed {
			return
		}
		sigBase := s.typeTag(f) + "/state/after:" + s.mutSet(name)
		if f.Type == "int" {
			n := &qNode{Kind: "rowint", Field: name, Op: "notnull"}
			if s.env.Nodes > 1 {
				n = &qNode{Kind: "rowint", Field: name, Op: ">=", P1: f.Min} // forwarded "!= null" is C26's known class
			}
			s.checkRow(n, sigBase)
			continue
		}
		for _, row := range s.rowsOf[name] {
			n := &qNode{Kind: "row", Field: name, Row: row, Bool: f.Type == "bool"}
			s.checkRow(n, sigBase)
			if f.Type == "time" && f.Quantum != "" {
				bs := esrvAlignedBounds(f.Quantum)
				s.checkRow(&qNode{Kind: "rowtime", Field: name, Row: row, From: bs[0], To: bs[len(bs)-1]}, sigBase+"/timerange")
			}
		}
	}
}

func (s *c15State) checkRow(n *qNode, sig string) {
	if s.failed {
		return
	}
	want, _ := s.m.eval(n)
	pql := n.PQL()
	res, err := s.env.query1(s.index, pql)
	s.r.Eval(1)
	if err != nil {
		s.fail(sig+"#unexpected-error", fmt.Sprintf("%s: %v", pql, err), pql)
		return
	}
	got, _ := esrvColumns(res)
	ws := want.sorted()
	if !vk.EqualU64(got, ws) {
		s.fail(sig, fmt.Sprintf("final read-back %s: %s; got %s want %s", pql, vk.DiffU64(got, ws), vk.Brief(got), vk.Brief(ws)), pql)
	}
}

// c15RareClasses: when set (VERIF_C15_RARE_CLASSES=1) the generator keeps the input
// classes of defects that were known before their fixes (2d0b338, e7a1fb7, 8d75853,
// d745dfd, 2ef1cec) down to a small share of a run, and keeps them out of Store()
// sources. With the fixes in the tree they are generated at their natural frequency.
var c15RareClasses = os.Getenv("VERIF_C15_RARE_CLASSES") != ""

func c15Nodes() int {
	if n, err := strconv.Atoi(os.Getenv("VERIF_ESRV_NODES")); err == nil && n > 1 {
		return n
	}
	return 1
}

func TestVerifC15(t *testing.T) {
	r := vk.Start(t, "C15")
	defer r.Finish()
	nodes := c15Nodes()
	env := esrvStart(t, nodes, "c")
	defer env.Close()

	for _, k := range []string{"row", "rowtime", "rowint", "union", "intersect", "difference", "xor", "not", "shift", "count"} {
		r.Expect("node:" + k)
	}
	r.Expect("mut:Set:set", "mut:Set:time", "mut:Set:int", "mut:Set:mutex", "mut:Clear:set", "mut:Clear:time", "mut:ClearRow:set", "mut:ClearRow:time",
		"mut:Store", "mut:Import:set", "mut:Import:time", "mut:ImportValue", "exist:on", "exist:off", "outcome:error", "outcome:nonempty", "outcome:empty",
		"shift-carry-input", "time:nostandard", "field:missing-view")

	runCase := func(id string, rng *vk.Rand, nSteps int, force func(s *c15State)) {
		track := rng.Chance(2, 3)
		m := newMIndex(track)
		index, err := env.newIndex(track)
		if err != nil {
			t.Fatalf("create index: %v", err)
		}
		defer env.dropIndex(index)
		nShards := 3 + rng.Intn(2)
		s := &c15State{r: r, env: env, rng: rng, id: id, m: m, index: index, muts: map[string]map[string]bool{}, rowsOf: map[string][]uint64{}}
		pool := esrvColumnPool(nShards)
		// per-case working set of columns: edges first, then a random sample
		for _, c := range pool {
			if rng.Chance(1, 2) {
				s.cols = append(s.cols, c)
			}
		}
		if len(s.cols) < 6 {
			s.cols = pool[:12]
		}
		if track {
			r.Cover("exist:on")
		} else {
			r.Cover("exist:off")
		}
		// fields
		mk := func(f *mField) {
			m.addField(f)
			desc := f.Name + ":" + f.Type
			switch f.Type {
			case "time":
				desc += ":" + f.Quantum
				if f.NoStd {
					desc += ":nostandard"
					r.Cover("time:nostandard")
				}
				s.rowsOf[f.Name] = []uint64{0, 1, 2, 5}
			case "int":
				desc += fmt.Sprintf(":[%d,%d]", f.Min, f.Max)
			case "bool":
				s.rowsOf[f.Name] = []uint64{0, 1}
			default:
				s.rowsOf[f.Name] = []uint64{0, 1, 2, 3, 7, 100, 9}
			}
			s.fdesc = append(s.fdesc, desc)
			if err := env.createField(index, f, "ranked", 1000); err != nil {
				t.Fatalf("create field %s: %v", desc, err)
			}
		}
		mk(&mField{Name: "a", Type: "set"})
		if rng.Bool() {
			mk(&mField{Name: "b", Type: "set"})
		} else {
			mk(&mField{Name: "b", Type: "mutex"})
		}
		if rng.Chance(3, 4) {
			mk(&mField{Name: "t", Type: "time", Quantum: esrvQuanta[rng.Intn(len(esrvQuanta))], NoStd: rng.Chance(1, 6)})
		}
		if rng.Chance(3, 4) {
			lo := -int64(rng.Intn(3)) * int64(rng.Intn(40))
			hi := lo + int64(rng.Intn(120))
			mk(&mField{Name: "v", Type: "int", Min: lo, Max: hi})
		}
		if rng.Chance(1, 3) {
			mk(&mField{Name: "o", Type: "bool"})
		}
		if rng.Chance(1, 4) {
			mk(&mField{Name: "e", Type: "set"}) // never written: field without any view
			s.rowsOf["e"] = []uint64{0, 1}
			r.Cover("field:missing-view")
		}
		// initial load
		for _, name := range m.Order {
			if name == "e" {
				continue
			}
			f := m.Fields[name]
			n := 6 + rng.Intn(30)
			if rng.Bool() {
				for i := 0; i < n && !s.failed; i++ {
					s.setOne(f)
				}
			} else {
				s.importSome(f, n)
			}
			if s.failed {
				return
			}
		}
		if nodes > 1 {
			var want []uint64
			seen := map[uint64]bool{}
			for c := range m.Exists {
				seen[c/mSW] = true
			}
			for _, f := range m.Fields {
				for _, rs := range f.Rows {
					for c := range rs {
						seen[c/mSW] = true
					}
				}
				for c := range f.Vals {
					seen[c/mSW] = true
				}
				for b := range f.TBits {
					seen[b.Col/mSW] = true
				}
			}
			for sh := range seen {
				want = append(want, sh)
			}
			if !env.waitShards(index, want) {
				t.Fatalf("cluster never agreed on available shards for %s", index)
			}
		}
		if force != nil {
			force(s)
		}
		nontrivial := false
		for i := 0; i < nSteps && !s.failed; i++ {
			if rng.Chance(1, 4) {
				s.mutate()
				continue
			}
			n := s.expr(1 + rng.Intn(4))
			if s.m.shiftCarry(n) {
				r.Cover("shift-carry-input")
			}
			if w, err := s.m.eval(n); err == nil && len(w) > 0 {
				nontrivial = true
			}
			s.runQuery(n, rng.Chance(3, 10))
		}
		s.finalBattery()
		shards := map[uint64]bool{}
		for _, c := range s.cols {
			shards[c/mSW] = true
		}
		r.Distinct(vk.Hash64("c15", id), nontrivial && len(shards) >= 2)
		if r.WantSample() {
			r.Sample(s.wit(""))
		}
	}

	// ---- directed: Shift across shard / container edges on a fixed dataset
	r.Directed("shift-edges", func(id string) {
		runCase(id, vk.NewRand(vk.Mix(r.Seed, 0x5f15)), 0, func(s *c15State) {
			f := s.m.Fields["a"]
			for _, c := range []uint64{65535, mSW - 1, mSW, 2*mSW - 2, 3*mSW - 1} {
				s.m.setBit(f, 42, c, nil, true)
				s.boolResult(esrvSetPQL(f, 42, c, nil), "set/Set", true, false)
			}
			for n := 1; n <= 3 && !s.failed; n++ {
				leaf := &qNode{Kind: "row", Field: "a", Row: 42}
				sh := &qNode{Kind: "shift", N: n, Kids: []*qNode{leaf}}
				s.r.Cover("shift-carry-input")
				s.runQuery(sh, false)
				s.failed = false
				s.runQuery(sh, true)
				s.failed = false
				s.runQuery(&qNode{Kind: "intersect", Kids: []*qNode{sh, {Kind: "union", Kids: []*qNode{{Kind: "row", Field: "a", Row: 42}, sh}}}}, false)
				s.failed = false
			}
		})
	})

	steps := 40
	if r.Thorough() {
		steps = 60
	}
	nq, nt := 400, 16000
	if nodes > 1 {
		nq, nt = 40, 1000
	}
	n := r.N(nq, nt)
	r.Cases("ds", n, func(i int, id string, rng *vk.Rand) {
		runCase(id, rng, steps, nil)
	})
}
