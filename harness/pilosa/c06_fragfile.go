package pilosa

// C06 (stored-data leg) — corrupted fragment files are either opened or
// rejected with an error; the process never panics, crashes or hangs, and an
// opened fragment serves reads and a write afterwards. The data file of a real
// fragment (snapshot + op log) is damaged on disk, then reopened.

import (
	"context"
	"encoding/hex"
	"fmt"
	"io/ioutil"
	"os"
	"path/filepath"
	"testing"

	vk "github.com/pilosa/pilosa/internal/verifkit"
)

func TestVerifC06FragFile(t *testing.T) {
	r := vk.Start(t, "C06")
	defer r.Finish()
	r.Expect("file:opened", "file:rejected", "mut:truncate", "mut:bitflip", "mut:tail-garbage", "mut:header")
	dir := filepath.Join(os.Getenv("VERIF_SCRATCH"), "fragfile")
	os.MkdirAll(dir, 0o755)

	n := r.N(4000, 160000)
	r.Cases("file", n, func(i int, id string, rng *vk.Rand) {
		path := filepath.Join(dir, fmt.Sprintf("frag-%d", i))
		defer os.Remove(path)
		defer os.Remove(path + ".cache")
		// ---- a real fragment with a snapshot part and an op-log part
		f := newFragment(path, "i", "f", viewStandard, 0, 0)
		f.MaxOpN = 1 << 30
		if err := f.Open(); err != nil {
			t.Fatalf("open fresh: %v", err)
		}
		for k := 0; k < 5+rng.Intn(40); k++ {
			f.setBit(uint64(rng.Intn(4)), uint64(rng.Intn(70000)))
		}
		if rng.Bool() {
			// dense rows / run containers
			for c := uint64(0); c < uint64(5000+rng.Intn(3000)); c++ {
				f.setBit(5, c)
			}
		}
		if rng.Chance(2, 3) {
			f.Snapshot()
		}
		nlog := rng.Intn(12)
		for k := 0; k < nlog; k++ {
			switch rng.Intn(4) {
			case 0:
				f.clearBit(uint64(rng.Intn(4)), uint64(rng.Intn(70000)))
			case 1:
				f.bulkImport([]uint64{1, 2, 3}, []uint64{uint64(rng.Intn(1000)), uint64(rng.Intn(1000)), uint64(rng.Intn(1000))}, &ImportOptions{})
			case 2:
				data, _ := VerifHostileRoaring(vk.NewRand(uint64(i)*7 + uint64(k)))
				_ = f.importRoaring(nil2ctx(), data, rng.Bool())
			default:
				f.setBit(uint64(rng.Intn(4)), uint64(rng.Intn(70000)))
			}
		}
		if err := f.Close(); err != nil {
			t.Fatalf("close: %v", err)
		}
		data, err := ioutil.ReadFile(path)
		if err != nil || len(data) < 8 {
			t.Fatalf("read: %v", err)
		}
		// ---- damage the file
		mut := []string{"truncate", "truncate-1", "bitflip", "tail-garbage", "header", "zero-range", "op-type"}[rng.Intn(7)]
		switch mut {
		case "truncate":
			data = data[:rng.Intn(len(data))]
		case "truncate-1":
			data = data[:len(data)-1]
		case "bitflip":
			for k := 0; k < 1+rng.Intn(3); k++ {
				data[rng.Intn(len(data))] ^= 1 << uint(rng.Intn(8))
			}
		case "tail-garbage":
			g := make([]byte, 1+rng.Intn(40))
			for k := range g {
				g[k] = byte(rng.Uint64())
			}
			data = append(data, g...)
		case "header":
			p := rng.Intn(minIntV(len(data), 8+16*4))
			data[p] = byte(rng.Uint64())
		case "zero-range":
			p := rng.Intn(len(data))
			for k := p; k < len(data) && k < p+1+rng.Intn(64); k++ {
				data[k] = 0
			}
		case "op-type":
			// somewhere in the last part of the file (likely the op log)
			p := len(data) - 1 - rng.Intn(minIntV(len(data), 13*(nlog+1)))
			data[p] = byte(rng.Intn(8))
		}
		sig := "fragfile:" + mut
		if mut == "truncate-1" {
			sig = "fragfile:truncate"
		}
		r.Cover("mut:" + map[string]string{"truncate": "truncate", "truncate-1": "truncate", "bitflip": "bitflip", "tail-garbage": "tail-garbage", "header": "header", "zero-range": "header", "op-type": "bitflip"}[mut])
		wit := map[string]interface{}{"sig": sig, "entry": "fragment-file", "mutation": mut, "len": len(data), "head_hex": hex.EncodeToString(data[:minIntV(len(data), 96)])}
		if len(data) < 4000 {
			wit["file_hex"] = hex.EncodeToString(data)
		}
		if err := ioutil.WriteFile(path, data, 0o644); err != nil {
			t.Fatal(err)
		}
		os.Remove(path + ".cache")
		r.InFlightDetail(id, wit)
		r.Distinct(vk.HashBytes(data), true)
		r.Guard(func() string { return "panic:" + sig }, id, func() interface{} { return wit }, func() {
			g := newFragment(path, "i", "f", viewStandard, 0, 0)
			err := g.Open()
			r.Eval(1)
			if err != nil {
				r.Cover("file:rejected")
				return
			}
			r.Cover("file:opened")
			// an opened fragment must serve reads and a write
			for row := uint64(0); row < 6; row++ {
				_ = g.row(row).Columns()
			}
			_ = g.rows(0)
			_ = g.Blocks()
			if _, err := g.setBit(2, 12345); err != nil {
				r.Fail("write-after-open:"+sig, id, err.Error(), wit)
			}
			if ok, _ := g.bit(2, 12345); !ok {
				r.Fail("write-lost-after-open:"+sig, id, "bit written after opening the damaged file is not readable", wit)
			}
			r.Eval(3)
			if err := g.Close(); err != nil {
				r.Fail("close-after-open:"+sig, id, err.Error(), wit)
			}
			if r.WantSample() {
				r.Sample(map[string]interface{}{"mutation": mut, "len": len(data)})
			}
		})
	})
}

func nil2ctx() context.Context { return context.Background() }
