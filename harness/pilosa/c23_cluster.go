package pilosa_test

// C23 (cluster leg) — the state gate during a REAL resize. A node joins a
// loaded gossip cluster; the coordinator's resize job is kept running for a
// while (completion messages are delayed at a hook point that holds no lock).
// Meanwhile a prober fires public API calls of both kinds at the coordinator
// and at a member. Every probe is a sandwich: cluster state and the count of
// coordinator job events are read before and after the call. A call that ran
// entirely inside RESIZING (same state, no event in between) must have been
// refused with the method-not-allowed error if it is a data/schema/anti-entropy
// request, and must NOT have been refused by the gate if it is one of the
// calls served during a resize (shard data transfer); a call that ran entirely
// inside NORMAL must not be refused. Probes that straddle a transition decide
// nothing.

import (
	"context"
	"fmt"
	"io/ioutil"
	"path"
	"strings"
	"sync"
	"sync/atomic"
	"testing"
	"time"

	"github.com/pilosa/pilosa"
	vk "github.com/pilosa/pilosa/internal/verifkit"
	"github.com/pilosa/pilosa/test"
)

func TestVerifC23Cluster(t *testing.T) {
	r := vk.Start(t, "C23")
	defer r.Finish()
	r.Expect("cluster:probe-inside-RESIZING:refused-class", "cluster:probe-inside-RESIZING:served-class", "cluster:probe-inside-NORMAL", "cluster:probe-on-member", "cluster:probe-on-coordinator")
	ctx := context.Background()
	pool := []string{"node0", "node1", "node2", "a", "b", "zz", "N9", "0", "10", "m"}
	n := r.N(12, 480)
	r.Cases("cluster", n, func(i int, id string, rng *vk.Rand) {
		nn := 1 + rng.Intn(2)
		perm := rng.Perm(len(pool))
		ids := make([]string, 0, nn+1)
		for k := 0; k <= nn; k++ {
			ids = append(ids, pool[perm[k]])
		}
		joiner := ids[nn]
		ids = ids[:nn]
		var events int64
		pilosa.SetVerifHook(func(name string, a, b uint64) uint64 {
			switch name {
			case "cluster.job.start", "cluster.job.complete", "cluster.state":
				atomic.AddInt64(&events, 1)
			case "cluster.mric.enter":
				time.Sleep(150 * time.Millisecond) // injected delay (no lock held here): keeps the job running; decides nothing
			}
			return 0
		})
		defer pilosa.SetVerifHook(nil)
		c := c20cStart(t, ids, 1)
		all := append(test.Cluster{}, c...)
		defer func() {
			for _, m := range all {
				m.Close()
			}
		}()
		var cnode *test.Command
		for _, m := range c {
			if m.API.Node().IsCoordinator {
				cnode = m
			}
		}
		if _, err := c[0].API.CreateIndex(ctx, "i", pilosa.IndexOptions{}); err != nil {
			t.Fatal(err)
		}
		if _, err := vrcCreateField(c[0].API, "i", "f", pilosa.OptFieldTypeSet(pilosa.CacheTypeRanked, 100)); err != nil {
			t.Fatal(err)
		}
		var sb strings.Builder
		for sh := 0; sh < 6+rng.Intn(6); sh++ {
			fmt.Fprintf(&sb, "Set(%d, f=%d) ", uint64(sh)*pilosa.ShardWidth+uint64(rng.Intn(500)), rng.Intn(3))
		}
		if _, err := c[0].API.Query(ctx, &pilosa.QueryRequest{Index: "i", Query: sb.String()}); err != nil {
			r.FailOrUndecided("cluster:write-error", id, err.Error(), nil)
			return
		}
		type probe struct {
			name    string
			refused bool // must be refused while RESIZING
			call    func(api *pilosa.API) error
		}
		seq := 0
		probes := []probe{
			{"Query", true, func(api *pilosa.API) error {
				_, err := api.Query(ctx, &pilosa.QueryRequest{Index: "i", Query: "Count(Row(f=1))"})
				return err
			}},
			{"Import", true, func(api *pilosa.API) error {
				return api.Import(ctx, &pilosa.ImportRequest{Index: "i", Field: "f", Shard: 0, RowIDs: []uint64{1}, ColumnIDs: []uint64{7}})
			}},
			{"CreateField", true, func(api *pilosa.API) error {
				seq++
				_, err := api.CreateField(ctx, "i", fmt.Sprintf("p%d", seq), pilosa.OptFieldTypeSet(pilosa.CacheTypeNone, 0))
				return err
			}},
			{"FragmentBlocks", true, func(api *pilosa.API) error {
				_, err := api.FragmentBlocks(ctx, "i", "f", "standard", 0)
				return err
			}},
			{"ShardNodes", true, func(api *pilosa.API) error {
				_, err := api.ShardNodes(ctx, "i", 0)
				return err
			}},
			{"Schema-read:Index", true, func(api *pilosa.API) error {
				_, err := api.Index(ctx, "i")
				return err
			}},
		}
		var wg sync.WaitGroup
		stop := make(chan struct{})
		var mu sync.Mutex
		var bad, badSig string
		seen := map[string]bool{}
		prober := func(m *test.Command, who string, prng *vk.Rand) {
			defer wg.Done()
			for {
				select {
				case <-stop:
					return
				default:
				}
				p := probes[prng.Intn(len(probes))]
				s1, e1 := m.API.State(), atomic.LoadInt64(&events)
				err := p.call(m.API)
				s2, e2 := m.API.State(), atomic.LoadInt64(&events)
				r.Eval(1)
				if s1 != s2 || e1 != e2 {
					continue // straddles a transition: decides nothing
				}
				gated := pilosa.VerifIsMethodNotAllowed(err) || (err != nil && strings.Contains(err.Error(), "not allowed in state"))
				mu.Lock()
				switch s1 {
				case pilosa.ClusterStateResizing:
					seen["cluster:probe-inside-RESIZING:refused-class"] = true
					seen["cluster:probe-on-"+who] = true
					if !gated && bad == "" {
						bad, badSig = fmt.Sprintf("%s on the %s ran entirely while the cluster was RESIZING and was admitted (err=%v)", p.name, who, err), "cluster:admitted-while-RESIZING:"+p.name
					}
				case pilosa.ClusterStateNormal:
					seen["cluster:probe-inside-NORMAL"] = true
					if gated && bad == "" {
						bad, badSig = fmt.Sprintf("%s on the %s ran entirely while the cluster was NORMAL and was refused: %v", p.name, who, err), "cluster:refused-while-NORMAL:"+p.name
					}
				}
				mu.Unlock()
				time.Sleep(200 * time.Microsecond)
			}
		}
		// served during a resize: shard data transfer
		served := func(m *test.Command) {
			defer wg.Done()
			for {
				select {
				case <-stop:
					return
				default:
				}
				s1, e1 := m.API.State(), atomic.LoadInt64(&events)
				_, err := m.API.FragmentData(ctx, "i", "f", "standard", 0)
				s2, e2 := m.API.State(), atomic.LoadInt64(&events)
				r.Eval(1)
				if s1 == s2 && e1 == e2 && s1 == pilosa.ClusterStateResizing {
					gated := pilosa.VerifIsMethodNotAllowed(err) || (err != nil && strings.Contains(err.Error(), "not allowed in state"))
					mu.Lock()
					seen["cluster:probe-inside-RESIZING:served-class"] = true
					if gated && bad == "" {
						bad, badSig = fmt.Sprintf("shard data transfer (FragmentData) was refused by the state gate while RESIZING: %v", err), "cluster:transfer-refused-while-RESIZING"
					}
					mu.Unlock()
				}
				time.Sleep(500 * time.Microsecond)
			}
		}
		wg.Add(2)
		go prober(cnode, "coordinator", rng.Fork())
		go served(cnode)
		if nn > 1 {
			for _, m := range c {
				if m != cnode {
					wg.Add(1)
					go prober(m, "member", rng.Fork())
					break
				}
			}
		}
		// ---- the join
		jm := test.NewCommandNode(false)
		jm.Config.Gossip.Port = "0"
		jm.Config.Gossip.Seeds = []string{cnode.GossipAddress()}
		jm.Config.Cluster.ReplicaN = 1
		jm.Config.AntiEntropy.Interval = 0
		jm.Config.Metric.Diagnostics = false
		if err := ioutil.WriteFile(path.Join(jm.Config.DataDir, ".id"), []byte(joiner), 0600); err != nil {
			t.Fatal(err)
		}
		all = append(all, jm)
		startErr := make(chan error, 1)
		go func() { startErr <- jm.Start() }()
		select {
		case <-startErr:
		case <-time.After(90 * time.Second):
		}
		deadline := time.Now().Add(90 * time.Second)
		for cnode.API.State() != pilosa.ClusterStateNormal || len(cnode.API.Hosts(nil)) != nn+1 {
			if time.Now().After(deadline) {
				break
			}
			time.Sleep(5 * time.Millisecond)
		}
		time.Sleep(20 * time.Millisecond) // a few probes inside NORMAL again
		close(stop)
		wg.Wait()
		mu.Lock()
		defer mu.Unlock()
		for k := range seen {
			r.Cover(k)
		}
		if bad != "" {
			r.Fail(badSig, id, bad, map[string]interface{}{"node_ids": ids, "joiner": joiner})
			return
		}
		r.Distinct(vk.Hash64("c23c", id), seen["cluster:probe-inside-RESIZING:refused-class"])
	})
}
