package pilosa

// C24 (wake-up leg) — "a replica that resumes streaming the primary's log ...
// ends with an identical mapping", restated as bounded progress that is
// decided STRUCTURALLY, not by a clock: eight replicas stream one primary's
// log through the real Reader; the harness creates keys in short bursts
// separated by idle gaps. After a burst nobody writes. The oracle inspects
// the goroutines: if every replica's reader is parked in
// translateFileReader.Read's select while some replica's log is shorter than
// the primary's, no event can ever wake that replica (the notification channel
// is only closed by a write) — a lost wake-up. A replica that is merely slow
// is still running and is waited for (watchdog expiry is inconclusive).

import (
	"context"
	"fmt"
	"os"
	"path/filepath"
	"regexp"
	"runtime"
	"strings"
	"sync"
	"testing"
	"time"

	vk "github.com/pilosa/pilosa/internal/verifkit"
)

var c24wHead = regexp.MustCompile(`^goroutine \d+ \[([^\],]*)`)

// c24wParkedReaders counts goroutines blocked in select inside translateFileReader.Read.
func c24wParkedReaders() int {
	buf := make([]byte, 1<<20)
	for {
		n := runtime.Stack(buf, true)
		if n < len(buf) {
			buf = buf[:n]
			break
		}
		buf = make([]byte, 2*len(buf))
	}
	parked := 0
	for _, blk := range strings.Split(string(buf), "\n\n") {
		m := c24wHead.FindStringSubmatch(blk)
		if m == nil || m[1] != "select" {
			continue
		}
		if strings.Contains(blk, "(*translateFileReader).Read(") {
			parked++
		}
	}
	return parked
}

func TestVerifC24Wake(t *testing.T) {
	r := vk.Start(t, "C24")
	defer r.Finish()
	scratch := os.Getenv("VERIF_SCRATCH")
	if scratch == "" {
		scratch = os.TempDir()
	}
	r.Expect("wake:burst", "wake:all-replicas-caught-up", "wake:waited-for-running-replica")
	const R = 8
	n := r.N(64, 2560)
	r.Cases("wake", n, func(ci int, id string, rng *vk.Rand) {
		old := runtime.GOMAXPROCS([]int{2, 4, 16}[ci%3])
		defer runtime.GOMAXPROCS(old)
		dir := filepath.Join(scratch, fmt.Sprintf("c24w-%d", rng.Uint64()))
		os.MkdirAll(dir, 0o755)
		defer os.RemoveAll(dir)
		primary, err := c24Open(filepath.Join(dir, "primary.keys"))
		if err != nil {
			r.Fail("open", id, err.Error(), nil)
			return
		}
		defer primary.Close()
		ctx, cancel := context.WithCancel(context.Background())
		var wg sync.WaitGroup
		replicas := make([]*TranslateFile, R)
		for k := range replicas {
			rep, err := c24Open(filepath.Join(dir, fmt.Sprintf("replica%d.keys", k)))
			if err != nil {
				r.Fail("open", id, err.Error(), nil)
				cancel()
				return
			}
			rep.PrimaryTranslateStore = primary
			replicas[k] = rep
			wg.Add(1)
			go func() { defer wg.Done(); _ = rep.replicate(ctx) }()
		}
		defer func() {
			cancel()
			wg.Wait()
			for _, rep := range replicas {
				rep.Close()
			}
		}()
		bursts := 150 + rng.Intn(150)
		wit := map[string]interface{}{"replicas": R, "bursts": bursts}
		key := 0
		for b := 0; b < bursts; b++ {
			// a burst: two creations with a short drawn gap (injected delay; decides nothing)
			for j := 0; j < 2; j++ {
				key++
				if _, err := c24Translate(primary, c24NS{"i", ""}, []string{fmt.Sprintf("k%d", key)}); err != nil {
					r.Fail("wake:translate-error", id, err.Error(), wit)
					return
				}
				if j == 0 {
					switch rng.Intn(3) {
					case 0:
						runtime.Gosched()
					case 1:
						time.Sleep(time.Duration(100+rng.Intn(1500)) * time.Microsecond)
					}
				}
			}
			r.Cover("wake:burst")
			// nobody writes now
			deadline := time.Now().Add(60 * time.Second)
			waited := false
			for {
				behind := -1
				psz := primary.size()
				for k, rep := range replicas {
					if rep.size() < psz {
						behind = k
					}
				}
				r.Eval(1)
				if behind < 0 {
					break
				}
				if c24wParkedReaders() == R {
					// every reader is parked; re-read the sizes: a replica that appended its last entry just before parking is fine
					still := -1
					for k, rep := range replicas {
						if rep.size() < primary.size() {
							still = k
						}
					}
					if still >= 0 && c24wParkedReaders() == R {
						r.Fail("wake:replica-parked-behind-idle-primary", id, fmt.Sprintf("burst %d: all %d replica readers are parked in translateFileReader.Read's select, nobody writes, yet replica %d holds %d of the primary's %d bytes", b, R, still, replicas[still].size(), primary.size()), wit)
						return
					}
				}
				waited = true
				if time.Now().After(deadline) {
					r.Note("inconclusive:"+id, fmt.Sprintf("burst %d: replica %d still running behind after the watchdog", b, behind))
					return
				}
				runtime.Gosched()
				time.Sleep(50 * time.Microsecond)
			}
			if waited {
				r.Cover("wake:waited-for-running-replica")
			}
		}
		r.Cover("wake:all-replicas-caught-up")
		r.Distinct(vk.Hash64("c24w", id), true)
		if r.WantSample() {
			r.Sample(wit)
		}
	})
}
