package pilosa_test

// C28 — All write paths for the same bits yield the same answers.
// Per case k sibling fields with identical options (set / mutex / bool / time /
// int) receive the same logical history (steps of sets/overwrites and clears)
// through different paths: Set/Clear queries, bulk Import by ids (set and
// clear), ImportRoaring in Pilosa and official encoding (standard and time
// views, set and clear), ImportValue (set and clear) and random per-step
// mixtures. An answer battery (every row, counts, TopN with ids and
// unrestricted after RecalculateCaches, Rows, time ranges, int conditions,
// Sum/Min/Max, Field.Value, Not) is then run per field; every answer must
// equal the model (hence pairwise equal), and loosely specified answers (order
// of TopN ties, Min/Max counts) are additionally compared pairwise.

import (
	"sync/atomic"
	"context"
	"fmt"
	"sort"
	"strings"
	"testing"
	"time"

	"github.com/pilosa/pilosa"
	vk "github.com/pilosa/pilosa/internal/verifkit"
)

type c28Bit struct {
	Row, Col uint64
	T        *time.Time
	Val      int64
}

type c28Step struct {
	Clear bool
	Bits  []c28Bit
}

type c28Witness struct {
	Type    string   `json:"field_type"`
	Options string   `json:"options"`
	Track   bool     `json:"trackExistence"`
	Paths   []string `json:"paths"`
	Plan    []string `json:"plan"`
	Call    string   `json:"failing_call"`
}

type c28State struct {
	r      *vk.Run
	env    *esrvEnv
	rng    *vk.Rand
	id     string
	m      *mIndex
	index  string
	typ    string
	opts   string
	paths  []string
	fields []*mField
	plan   []c28Step
	planS  []string
	rows   []uint64
	ranges [][2]int // indexes into esrvAlignedBounds(quantum), shared by all siblings
	failed bool
}

func (s *c28State) wit(call string) c28Witness {
	return c28Witness{Type: s.typ, Options: s.opts, Track: s.m.Track, Paths: s.paths, Plan: s.planS, Call: call}
}

func (s *c28State) fail(sig, msg, call string) {
	esrvFail(s.r, sig, s.id, msg, s.wit(call))
}

// ---- executing one step on one sibling through a path

func (s *c28State) execStep(f *mField, path string, st c28Step) error {
	s.r.Cover("path:" + s.typ + ":" + path)
	switch path {
	case "query":
		var qs []string
		for _, b := range st.Bits {
			switch {
			case s.typ == "int":
				qs = append(qs, esrvSetValuePQL(f, b.Col, b.Val))
			case st.Clear:
				qs = append(qs, esrvClearPQL(f, b.Row, b.Col))
			default:
				qs = append(qs, esrvSetPQL(f, b.Row, b.Col, b.T))
			}
		}
		for len(qs) > 0 {
			k := len(qs)
			if k > 40 {
				k = 40
			}
			if _, err := s.env.query(s.index, strings.Join(qs[:k], " ")); err != nil {
				return err
			}
			qs = qs[k:]
		}
		return nil
	case "import":
		var rows, cols []uint64
		var ts []int64
		anyT := false
		for _, b := range st.Bits {
			if b.T != nil {
				anyT = true
			}
		}
		for _, b := range st.Bits {
			rows, cols = append(rows, b.Row), append(cols, b.Col)
			if anyT {
				if b.T != nil {
					ts = append(ts, b.T.UnixNano())
				} else {
					ts = append(ts, 0)
				}
			}
		}
		return s.env.importBits(s.index, f.Name, rows, cols, ts, st.Clear)
	case "importvalue":
		var cols []uint64
		var vals []int64
		for _, b := range st.Bits {
			cols, vals = append(cols, b.Col), append(vals, b.Val)
		}
		return s.env.importValues(s.index, f.Name, cols, vals, st.Clear)
	case "roaring-pilosa", "roaring-official":
		by := map[uint64]map[string][]uint64{}
		for _, b := range st.Bits {
			sh := b.Col / mSW
			if by[sh] == nil {
				by[sh] = map[string][]uint64{}
			}
			p := b.Row*mSW + b.Col%mSW
			if !f.NoStd {
				by[sh][""] = append(by[sh][""], p)
			}
			if b.T != nil {
				for _, v := range mViewsOf(*b.T, f.Quantum) {
					by[sh][v] = append(by[sh][v], p)
				}
			}
		}
		var shs []uint64
		for sh := range by {
			shs = append(shs, sh)
		}
		sort.Slice(shs, func(i, j int) bool { return shs[i] < shs[j] })
		for _, sh := range shs {
			if err := s.env.importRoaring(s.index, f.Name, sh, by[sh], path == "roaring-official", st.Clear); err != nil {
				return err
			}
		}
		return nil
	}
	return fmt.Errorf("harness: unknown path %q", path)
}

func (s *c28State) concretePaths() []string {
	switch s.typ {
	case "set", "time":
		return []string{"query", "import", "roaring-pilosa", "roaring-official"}
	case "int":
		return []string{"query", "importvalue"}
	default:
		return []string{"query", "import"}
	}
}

// applyModel applies a step to a sibling's model field. viaRoaring: the
// existence set is not maintained by roaring imports.
func (s *c28State) applyModel(f *mField, st c28Step, exist bool) {
	for _, b := range st.Bits {
		switch {
		case s.typ == "int" && st.Clear:
			s.m.clearValue(f, b.Col)
		case s.typ == "int":
			s.m.setValue(f, b.Col, b.Val, exist)
		case st.Clear:
			s.m.clearBit(f, b.Row, b.Col)
		default:
			s.m.setBit(f, b.Row, b.Col, b.T, exist)
		}
	}
}

// ---- battery

type c28Ans struct {
	call  string
	kind  string
	exact string // canonical rendering compared with the model
	loose string // canonical rendering compared pairwise only (may be "")
}

func c28Cols(res interface{}) string {
	cols, ok := esrvColumns(res)
	if !ok {
		return fmt.Sprintf("!type %T", res)
	}
	return fmt.Sprint(cols)
}

func (s *c28State) battery(f *mField) (out []c28Ans, want []string) {
	add := func(kind, call string, wantExact string, render func(interface{}) (string, string)) {
		res, err := s.env.query1(s.index, call)
		s.r.Eval(1)
		s.r.Cover("answer:" + kind)
		a := c28Ans{call: call, kind: kind}
		if err != nil {
			a.exact = "!error " + err.Error()
		} else {
			a.exact, a.loose = render(res)
		}
		out = append(out, a)
		want = append(want, wantExact)
	}
	colsOnly := func(res interface{}) (string, string) { return c28Cols(res), "" }
	n := f.Name
	if s.typ == "int" {
		for _, c := range s.intColumns() {
			wv, wok := f.Vals[c]
			fld := s.env.fieldOn(s.index, n, c)
			v, ok, err := fld.Value(c)
			s.r.Eval(1)
			out = append(out, c28Ans{call: fmt.Sprintf("Field(%s).Value(%d)", n, c), kind: "value", exact: fmt.Sprintf("%d %v %v", v, ok, err)})
			if !wok {
				wv = 0
			}
			want = append(want, fmt.Sprintf("%d %v <nil>", wv, wok))
		}
		s.r.Cover("answer:value")
		preds := s.intPreds(f)
		for _, p := range preds {
			for _, op := range []string{"==", "!=", "<=", ">=", "<", ">"} {
				if (op == "<" || op == ">") && (p == 0 || p == -1) {
					continue // C14's strict-near-zero class
				}
				nd := &qNode{Kind: "rowint", Field: n, Op: op, P1: p}
				w, _ := s.m.eval(nd)
				add("range", nd.PQL(), fmt.Sprint(w.sorted()), colsOnly)
			}
		}
		nn := &qNode{Kind: "rowint", Field: n, Op: "notnull"}
		w, _ := s.m.eval(nn)
		add("range", nn.PQL(), fmt.Sprint(w.sorted()), colsOnly)
		vc := func(res interface{}) (string, string) {
			x, ok := res.(pilosa.ValCount)
			if !ok {
				return fmt.Sprintf("!type %T", res), ""
			}
			return fmt.Sprintf("%d/%d", x.Val, x.Count), ""
		}
		sm := s.m.agg(f, "Sum", nil)
		add("sum", fmt.Sprintf("Sum(field=%s)", n), fmt.Sprintf("%d/%d", sm.Val, sm.Count), vc)
		for _, k := range []string{"Min", "Max"} {
			w := s.m.agg(f, k, nil)
			// the count of an extreme tied across shards is C14's known class: value exact, count pairwise
			tied := map[uint64]bool{}
			for c, v := range f.Vals {
				if v == w.Val {
					tied[c/mSW] = true
				}
			}
			if len(tied) > 1 || f.Depth == 0 {
				add(strings.ToLower(k), fmt.Sprintf("%s(field=%s)", k, n), fmt.Sprint(w.Val), func(res interface{}) (string, string) {
					x, ok := res.(pilosa.ValCount)
					if !ok {
						return fmt.Sprintf("!type %T", res), ""
					}
					if f.Depth == 0 {
						return fmt.Sprint(w.Val), "" // bit depth 0: C14's known class, nothing compared
					}
					return fmt.Sprint(x.Val), ""
				})
				continue
			}
			add(strings.ToLower(k), fmt.Sprintf("%s(field=%s)", k, n), fmt.Sprintf("%d/%d", w.Val, w.Count), vc)
		}
		return out, want
	}
	rows := append(append([]uint64(nil), s.rows...), 4000)
	isBool := s.typ == "bool"
	if isBool {
		rows = []uint64{0, 1}
	}
	for _, rw := range rows {
		nd := &qNode{Kind: "row", Field: n, Row: rw, Bool: isBool}
		w, _ := s.m.eval(nd)
		add("row", nd.PQL(), fmt.Sprint(w.sorted()), colsOnly)
		add("count", "Count("+nd.PQL()+")", fmt.Sprint(len(w)), func(res interface{}) (string, string) { return fmt.Sprint(res), "" })
		if s.m.Track {
			nt := &qNode{Kind: "not", Kids: []*qNode{nd}}
			wn, _ := s.m.eval(nt)
			add("not", nt.PQL(), fmt.Sprint(wn.sorted()), colsOnly)
		}
	}
	// Rows (not on bool fields: Rows(<bool field>) fails with "missing bool argument" whatever the
	// write path - reported under C16, nothing to compare here)
	rw, _ := s.m.rows(mRowsCall{Field: n})
	if !isBool {
		add("rows", mRowsCall{Field: n}.PQL(), fmt.Sprint(rw), func(res interface{}) (string, string) {
			ri, ok := res.(pilosa.RowIdentifiers)
			if !ok {
				return fmt.Sprintf("!type %T", res), ""
			}
			return fmt.Sprint([]uint64(ri.Rows)), ""
		})
	}
	// time ranges
	if s.typ == "time" {
		bs := esrvAlignedBounds(f.Quantum)
		for _, rg := range s.ranges {
			i, j := rg[0], rg[1]
			for _, rw := range s.rows {
				nd := &qNode{Kind: "rowtime", Field: n, Row: rw, From: bs[i], To: bs[j]}
				w, _ := s.m.eval(nd)
				add("timerange", nd.PQL(), fmt.Sprint(w.sorted()), colsOnly)
			}
			rc := mRowsCall{Field: n, From: bs[i], To: bs[j]}
			wr, _ := s.m.rows(rc)
			add("rows-timerange", rc.PQL(), fmt.Sprint(wr), func(res interface{}) (string, string) {
				ri, ok := res.(pilosa.RowIdentifiers)
				if !ok {
					return fmt.Sprintf("!type %T", res), ""
				}
				return fmt.Sprint([]uint64(ri.Rows)), ""
			})
		}
	}
	// TopN (fields with a rank cache)
	if s.typ == "set" || s.typ == "mutex" {
		ids := make([]string, len(rows))
		for i, rw := range rows {
			ids[i] = fmt.Sprint(rw)
		}
		pairs := func(res interface{}) (string, string) {
			ps, ok := res.([]pilosa.Pair)
			if !ok {
				return fmt.Sprintf("!type %T", res), ""
			}
			// exact: the multiset of (id,count) and non-increasing counts; loose: the order as returned
			var set, ord []string
			mono := true
			for i, p := range ps {
				set = append(set, fmt.Sprintf("%d:%d", p.ID, p.Count))
				ord = append(ord, fmt.Sprint(p.Count))
				if i > 0 && ps[i-1].Count < p.Count {
					mono = false
				}
			}
			sort.Strings(set)
			return fmt.Sprintf("%v desc=%v", set, mono), fmt.Sprint(ord)
		}
		wantPairs := func(ps []mPair) string {
			var set []string
			for _, p := range ps {
				set = append(set, fmt.Sprintf("%d:%d", p.ID, p.Count))
			}
			sort.Strings(set)
			return fmt.Sprintf("%v desc=true", set)
		}
		all := s.m.topN(f, rows, nil)
		add("topn-ids", fmt.Sprintf("TopN(%s, ids=[%s])", n, strings.Join(ids, ",")), wantPairs(all), pairs)
		add("topn", fmt.Sprintf("TopN(%s)", n), wantPairs(all), pairs)
		// TopN(f, n=k) is not part of the battery: per shard the k best rows are taken from
		// the rank cache, ties are cut "in no particular order" (documented), so two siblings
		// (or two runs) may legitimately return different rows/counts for the k-th place (C12).
		// filtered TopN
		if len(s.rows) > 0 {
			fr := &qNode{Kind: "row", Field: n, Row: s.rows[0]}
			fset, _ := s.m.eval(fr)
			add("topn-filter", fmt.Sprintf("TopN(%s, %s, ids=[%s])", n, fr.PQL(), strings.Join(ids, ",")), wantPairs(s.m.topN(f, rows, fset)), pairs)
		}
	}
	return out, want
}

func (s *c28State) intColumns() []uint64 {
	set := map[uint64]bool{}
	for _, st := range s.plan {
		for _, b := range st.Bits {
			set[b.Col] = true
		}
	}
	var out []uint64
	for c := range set {
		out = append(out, c)
	}
	return mSortU64(out)
}

// intPreds: predicates strictly inside the bit-depth range (C14 owns the edges).
func (s *c28State) intPreds(f *mField) []int64 {
	lim := int64(1)<<f.Depth - 1
	set := map[int64]bool{}
	for _, v := range f.Vals {
		for _, d := range []int64{-1, 0, 1} {
			if p := v + d; p > -lim && p < lim {
				set[p] = true
			}
		}
	}
	var out []int64
	for p := range set {
		out = append(out, p)
	}
	sort.Slice(out, func(i, j int) bool { return out[i] < out[j] })
	if len(out) > 24 {
		out = out[:24]
	}
	return out
}

func TestVerifC28(t *testing.T) {
	r := vk.Start(t, "C28")
	defer r.Finish()
	env := esrvStart(t, esrvNodes(), "w")
	defer env.Close()
	for _, p := range []string{"set:query", "set:import", "set:roaring-pilosa", "set:roaring-official", "set:mixed", "mutex:query", "mutex:import", "mutex:mixed",
		"bool:query", "bool:import", "time:query", "time:import", "time:roaring-pilosa", "time:roaring-official", "time:mixed", "int:query", "int:importvalue", "int:mixed"} {
		r.Expect("path:" + p)
	}
	r.Expect("answer:row", "answer:count", "answer:not", "answer:rows", "answer:timerange", "answer:rows-timerange", "answer:topn", "answer:topn-ids", "answer:range", "answer:sum", "answer:min", "answer:value", "plan:clear", "plan:overwrite")

	// ---- directed: an untimestamped bit written to a time field WITHOUT standard view.
	// Set drops it (there is no view to hold it); the answers of the siblings must still agree.
	r.Directed("time-nostandard-untimestamped", func(id string) {
		index, err := env.newIndex(false)
		if err != nil {
			t.Fatalf("create index: %v", err)
		}
		defer env.dropIndex(index)
		m := newMIndex(false)
		s := &c28State{r: r, env: env, rng: vk.NewRand(1), id: id, m: m, index: index, typ: "time", opts: "quantum=YMD noStandardView=true",
			paths: []string{"query", "import"}, planS: []string{"set (1,5) (1,1048577) without timestamp"}}
		for k := range s.paths {
			f := m.addField(&mField{Name: fmt.Sprintf("f%d", k), Type: "time", Quantum: "YMD", NoStd: true})
			s.fields = append(s.fields, f)
			if err := env.createField(index, f, "", 0); err != nil {
				t.Fatalf("create field: %v", err)
			}
		}
		st := c28Step{Bits: []c28Bit{{Row: 1, Col: 5}, {Row: 1, Col: mSW + 1}}}
		for k, f := range s.fields {
			if err := s.execStep(f, s.paths[k], st); err != nil {
				s.fail("time-nostandard-untimestamped/"+s.paths[k]+"/write#unexpected-error", err.Error(), "")
				return
			}
		}
		var ans []string
		for _, f := range s.fields {
			call := fmt.Sprintf("Row(%s=1)", f.Name)
			res, err := env.query1(index, call)
			r.Eval(1)
			if err != nil {
				ans = append(ans, "!error "+err.Error())
			} else {
				ans = append(ans, c28Cols(res))
			}
		}
		if ans[0] != ans[1] {
			s.fail("time-nostandard-untimestamped/pairwise/row", fmt.Sprintf("Row(f=1) on the sibling written by Set queries -> %s, on the sibling written by bulk Import -> %s", ans[0], ans[1]), "Row(f=1)")
		}
	})

	n := r.N(250, 10000)
	esrvInstallHook()
	r.Cases("paths", n, func(i int, id string, rng *vk.Rand) {
		// half of the cases run with a tiny MaxOpN, so that imports take the rewrite-and-snapshot
		// branch (value imports: len*(bitDepth+1)+opN >= MaxOpN) and snapshots happen inside the history
		if rng.Bool() {
			atomic.StoreUint64(&esrvMaxOpN, uint64(3+rng.Intn(40)))
			r.Cover("config:low-maxopn")
		} else {
			atomic.StoreUint64(&esrvMaxOpN, 0)
		}
		defer atomic.StoreUint64(&esrvMaxOpN, 0)
		typ := []string{"set", "set", "mutex", "bool", "time", "time", "int", "int"}[rng.Intn(8)]
		track := rng.Bool()
		m := newMIndex(track)
		index, err := env.newIndex(track)
		if err != nil {
			t.Fatalf("create index: %v", err)
		}
		defer env.dropIndex(index)
		s := &c28State{r: r, env: env, rng: rng, id: id, m: m, index: index, typ: typ}
		// ---- sibling fields with identical options
		proto := mField{Type: typ}
		switch typ {
		case "time":
			proto.Quantum = esrvQuanta[rng.Intn(len(esrvQuanta))]
			proto.NoStd = rng.Chance(1, 5)
			s.opts = fmt.Sprintf("quantum=%s noStandardView=%v", proto.Quantum, proto.NoStd)
		case "int":
			w := int64(1) << uint(2+rng.Intn(40))
			proto.Min, proto.Max = -w*int64(rng.Intn(2)), w
			s.opts = fmt.Sprintf("min=%d max=%d", proto.Min, proto.Max)
		}
		cands := s.concretePaths()
		s.paths = append([]string{}, cands...)
		s.paths = append(s.paths, "mixed")
		if rng.Bool() {
			s.paths = append(s.paths, "mixed")
		}
		for k := range s.paths {
			f := proto
			f.Name = fmt.Sprintf("f%d", k)
			s.fields = append(s.fields, m.addField(&f))
			if err := env.createField(index, s.fields[k], "ranked", 1000); err != nil {
				t.Fatalf("create field: %v", err)
			}
		}
		// ---- the logical plan
		pool := esrvColumnPool(3)
		var cols []uint64
		for _, c := range pool {
			if rng.Chance(1, 3) {
				cols = append(cols, c)
			}
		}
		if len(cols) < 4 {
			cols = pool[:8]
		}
		for _, rw := range []uint64{0, 1, 2, 3, 9, 100, 1000} {
			if rng.Chance(2, 3) {
				s.rows = append(s.rows, rw)
			}
		}
		if len(s.rows) < 2 {
			s.rows = []uint64{0, 7}
		}
		if typ == "bool" {
			s.rows = []uint64{0, 1}
		}
		shadow := newMIndex(false) // tracks the logical state while the plan is generated
		sf := proto
		sf.Name = "shadow"
		shf := shadow.addField(&sf)
		nSteps := 2 + rng.Intn(4)
		for k := 0; k < nSteps; k++ {
			st := c28Step{}
			canClear := typ != "time" // clearing timestamped bits has no import counterpart (see header of c28)
			if k > 0 && canClear && rng.Chance(1, 3) {
				st.Clear = true
				if typ == "int" {
					for _, c := range mSortU64(keysOf(shf.Vals)) {
						if rng.Chance(1, 3) {
							st.Bits = append(st.Bits, c28Bit{Col: c, Val: shf.Vals[c]})
						}
					}
				} else {
					for _, rw := range mSortU64(rowKeys(shf.Rows)) {
						for _, c := range shf.Rows[rw].sorted() {
							if rng.Chance(1, 3) {
								st.Bits = append(st.Bits, c28Bit{Row: rw, Col: c})
							}
						}
					}
					// also "clear" a bit that is not set
					st.Bits = append(st.Bits, c28Bit{Row: s.rows[0], Col: cols[rng.Intn(len(cols))]})
				}
				if len(st.Bits) == 0 {
					continue
				}
				r.Cover("plan:clear")
			} else {
				seen := map[uint64]bool{}
				nb := 3 + rng.Intn(24)
				for j := 0; j < nb; j++ {
					b := c28Bit{Row: s.rows[rng.Intn(len(s.rows))], Col: cols[rng.Intn(len(cols))]}
					if (typ == "mutex" || typ == "bool" || typ == "int") && seen[b.Col] {
						continue // one write per column and step: repeated columns inside a batch are C13's subject
					}
					seen[b.Col] = true
					switch typ {
					case "time":
						if proto.NoStd || rng.Chance(4, 5) {
							tt := esrvTimePool[rng.Intn(len(esrvTimePool))]
							b.T = &tt
						}
					case "int":
						b.Val = proto.Min + int64(rng.Uint64()%uint64(proto.Max-proto.Min+1))
						if rng.Chance(1, 3) {
							b.Val = int64(rng.Intn(9)) - 4
							if b.Val < proto.Min {
								b.Val = proto.Min
							}
						}
						if _, had := shf.Vals[b.Col]; had {
							r.Cover("plan:overwrite")
						}
					case "mutex", "bool":
						for orw := range shf.Rows {
							if orw != b.Row && shf.has(orw, b.Col) {
								r.Cover("plan:overwrite")
							}
						}
					}
					st.Bits = append(st.Bits, b)
				}
			}
			s.plan = append(s.plan, st)
			// shadow + description
			sh := &c28State{typ: typ, m: shadow}
			sh.applyModel(shf, st, false)
			var ds []string
			for _, b := range st.Bits {
				switch {
				case typ == "int":
					ds = append(ds, fmt.Sprintf("%d=%d", b.Col, b.Val))
				case b.T != nil:
					ds = append(ds, fmt.Sprintf("(%d,%d,%s)", b.Row, b.Col, mTS(*b.T)))
				default:
					ds = append(ds, fmt.Sprintf("(%d,%d)", b.Row, b.Col))
				}
			}
			verb := "set"
			if st.Clear {
				verb = "clear"
			}
			s.planS = append(s.planS, verb+" "+strings.Join(ds, " "))
		}
		// ---- execute the plan on every sibling through its path
		for k, f := range s.fields {
			path := s.paths[k]
			for _, st := range s.plan {
				p := path
				if st.Clear && typ == "int" && path == "query" {
					// a Set-only sibling cannot clear; it simply never holds values that are cleared
					// for good. Rebuild: skip this sibling for plans with int clears.
					p = "importvalue"
				}
				exist := !strings.HasPrefix(p, "roaring") && !st.Clear
				if p == "mixed" {
					exist = false // decided per sub-step below
				}
				if p == "mixed" {
					// run sub-steps one by one so the model knows which ones maintain existence
					cands := s.concretePaths()
					rest := st.Bits
					for len(rest) > 0 && !s.failed {
						kk := 1 + rng.Intn(len(rest))
						sub := c28Step{Clear: st.Clear, Bits: rest[:kk]}
						rest = rest[kk:]
						sp := cands[rng.Intn(len(cands))]
						if st.Clear && typ == "int" {
							sp = "importvalue"
						}
						s.applyModel(f, sub, !strings.HasPrefix(sp, "roaring") && !st.Clear)
						r.Cover("path:" + typ + ":mixed")
						if err := s.execStep(f, sp, sub); err != nil {
							s.failed = true
							s.fail(typ+"/"+sp+"/write#unexpected-error", fmt.Sprintf("field %s step via %s: %v", f.Name, sp, err), "")
						}
					}
					continue
				}
				s.applyModel(f, st, exist)
				if err := s.execStep(f, p, st); err != nil {
					s.failed = true
					s.fail(typ+"/"+p+"/write#unexpected-error", fmt.Sprintf("field %s step via %s: %v", f.Name, p, err), "")
				}
			}
		}
		if s.failed {
			return
		}
		if typ == "time" {
			nb := len(esrvAlignedBounds(proto.Quantum))
			s.ranges = append(s.ranges, [2]int{0, nb - 1})
			for k := 0; k < 5; k++ {
				i, j := rng.Intn(nb), rng.Intn(nb)
				if i == j {
					j = (i + 1) % nb
				}
				if i > j {
					i, j = j, i
				}
				s.ranges = append(s.ranges, [2]int{i, j})
			}
		}
		if err := env.api().RecalculateCaches(context.Background()); err != nil {
			t.Fatalf("recalculate caches: %v", err)
		}
		// ---- batteries: each sibling vs model; loose parts pairwise
		var first []c28Ans
		for k, f := range s.fields {
			ans, want := s.battery(f)
			path := s.paths[k]
			for j, a := range ans {
				if a.exact != want[j] {
					s.fail(fmt.Sprintf("%s/%s/%s", typ, path, a.kind), fmt.Sprintf("field written via %s: %s -> %s, model %s", path, a.call, c28Brief(a.exact), c28Brief(want[j])), a.call)
				}
			}
			if k == 0 {
				first = ans
				continue
			}
			for j, a := range ans {
				if j < len(first) && a.kind == first[j].kind && a.loose != first[j].loose {
					s.r.Eval(1)
					s.fail(fmt.Sprintf("%s/pairwise/%s", typ, a.kind), fmt.Sprintf("%s (via %s) -> %s but the sibling written via %s -> %s", a.call, path, c28Brief(a.loose), s.paths[0], c28Brief(first[j].loose)), a.call)
				}
			}
		}
		nz := len(shf.Rows) + len(shf.Vals)
		r.Distinct(vk.Hash64("c28", id), nz > 0)
		if r.WantSample() {
			r.Sample(s.wit(""))
		}
	})
}

func c28Brief(s string) string {
	if len(s) > 300 {
		return s[:300] + "..."
	}
	return s
}

func keysOf(m map[uint64]int64) []uint64 {
	var out []uint64
	for k := range m {
		out = append(out, k)
	}
	return out
}

func rowKeys(m map[uint64]mSet) []uint64 {
	var out []uint64
	for k := range m {
		out = append(out, k)
	}
	return out
}
