package pilosa

// C17 (algebraic leg) — the reduce functions of the executor give the same
// result whatever the arrival order and grouping of partial results.
//
// Generated partial results (as shards produce them) are fed through the REAL
// reducers — ValCount.add / smaller / larger, Pairs.Add, RowIDs.merge,
// mergeGroupCounts, Row.Merge, Row.Union — in every permutation and every
// bracketing (k <= 5 partials), folded exactly like mapperLocal / mapReduce do
// (result starts as nil; result = reduce(result, next)). Every fold must equal
// the model value (sum; min/max with the count totalled over the tied
// partials; per-id sums; sorted union cut at the limit; merged group counts;
// set union).

import (
	"fmt"
	"sort"
	"testing"

	vk "github.com/pilosa/pilosa/internal/verifkit"
)

type c17Reducer struct {
	name string
	// gen returns k fresh partials builders (each call of build returns a deep copy), the model value and a tie class
	gen func(rng *vk.Rand, k int) (build func(i int) interface{}, want string, class string, wit interface{})
	// reduce is the executor's reduceFn for this call type
	reduce func(prev, v interface{}) interface{}
	canon  func(v interface{}) string
}

func c17Perms(k int) [][]int {
	var out [][]int
	vcPerms(k, func(p []int) { out = append(out, append([]int(nil), p...)) })
	return out
}

// c17Fold evaluates one bracketing (a full binary tree over leaves lo..hi-1 in
// order, chosen by the digits of *code) the way the executor folds results.
func c17Fold(rd *c17Reducer, leaves []interface{}, shape []int, pos *int) interface{} {
	var rec func(lo, hi int) interface{}
	rec = func(lo, hi int) interface{} {
		if hi-lo == 1 {
			return leaves[lo]
		}
		// split point from the shape code
		s := shape[*pos%len(shape)]
		*pos++
		mid := lo + 1 + s%(hi-lo-1)
		l := rec(lo, mid)
		r := rec(mid, hi)
		var result interface{}
		result = rd.reduce(result, l)
		result = rd.reduce(result, r)
		return result
	}
	return rec(0, len(leaves))
}

// c17Shapes enumerates split-code vectors that cover every full binary tree on
// k ordered leaves (over-complete: codes are taken modulo the span).
func c17Shapes(k int) [][]int {
	if k <= 2 {
		return [][]int{{0}}
	}
	var out [][]int
	n := k - 1 // internal nodes
	code := make([]int, n)
	var rec func(i int)
	rec = func(i int) {
		if i == n {
			out = append(out, append([]int(nil), code...))
			return
		}
		for v := 0; v < k-1; v++ {
			code[i] = v
			rec(i + 1)
		}
	}
	rec(0)
	return out
}

func c17ValCountGen(tieBias bool, zeroOK bool) func(rng *vk.Rand, k int) []ValCount {
	return func(rng *vk.Rand, k int) []ValCount {
		vals := []int64{-7, -1, 0, 3, 3, 12}
		parts := make([]ValCount, k)
		for i := range parts {
			if zeroOK && rng.Chance(1, 5) {
				continue // shard without values
			}
			parts[i] = ValCount{Val: vals[rng.Intn(len(vals))], Count: int64(1 + rng.Intn(4))}
			if !tieBias {
				parts[i].Val = int64(rng.Intn(2000) - 1000)
			}
		}
		return parts
	}
}

func c17Reducers() []*c17Reducer {
	canonVC := func(v interface{}) string {
		vc, _ := v.(ValCount)
		if vc.Count == 0 {
			return "none"
		}
		return fmt.Sprintf("val=%d count=%d", vc.Val, vc.Count)
	}
	minmax := func(name string, less func(a, b int64) bool, red func(prev, v interface{}) interface{}) *c17Reducer {
		return &c17Reducer{name: name, reduce: red, canon: canonVC,
			gen: func(rng *vk.Rand, k int) (func(i int) interface{}, string, string, interface{}) {
				parts := c17ValCountGen(rng.Chance(3, 4), true)(rng, k)
				var best ValCount
				ties := 0
				for _, p := range parts {
					if p.Count == 0 {
						continue
					}
					switch {
					case best.Count == 0 || less(p.Val, best.Val):
						best, ties = p, 1
					case p.Val == best.Val:
						best.Count += p.Count
						ties++
					}
				}
				class := "extreme-in-one-partial"
				if ties > 1 {
					class = "extreme-tied-across-partials"
				}
				return func(i int) interface{} { return parts[i] }, canonVC(best), class, parts
			}}
	}
	var rs []*c17Reducer
	rs = append(rs, &c17Reducer{name: "ValCount.add", canon: func(v interface{}) string {
		vc, _ := v.(ValCount)
		return fmt.Sprintf("val=%d count=%d", vc.Val, vc.Count)
	},
		reduce: func(prev, v interface{}) interface{} { o, _ := prev.(ValCount); return o.add(v.(ValCount)) },
		gen: func(rng *vk.Rand, k int) (func(i int) interface{}, string, string, interface{}) {
			parts := c17ValCountGen(false, true)(rng, k)
			for i := range parts {
				// a shard whose values cancel (or are all zero) contributes Val 0 with a non-zero Count
				if parts[i].Count > 0 && rng.Chance(1, 4) {
					parts[i].Val = 0
				}
			}
			var s ValCount
			for _, p := range parts {
				s.Val += p.Val * 1
				s.Count += p.Count
			}
			return func(i int) interface{} { return parts[i] }, fmt.Sprintf("val=%d count=%d", s.Val, s.Count), "", parts
		}})
	rs = append(rs, minmax("ValCount.smaller", func(a, b int64) bool { return a < b },
		func(prev, v interface{}) interface{} { o, _ := prev.(ValCount); return o.smaller(v.(ValCount)) }))
	rs = append(rs, minmax("ValCount.larger", func(a, b int64) bool { return a > b },
		func(prev, v interface{}) interface{} { o, _ := prev.(ValCount); return o.larger(v.(ValCount)) }))

	// Pairs.Add
	canonPairs := func(v interface{}) string {
		ps, _ := v.([]Pair)
		ps = append([]Pair(nil), ps...)
		sort.Slice(ps, func(i, j int) bool { return ps[i].ID < ps[j].ID })
		s := ""
		for _, p := range ps {
			s += fmt.Sprintf("%d:%d ", p.ID, p.Count)
		}
		return s
	}
	rs = append(rs, &c17Reducer{name: "Pairs.Add", canon: canonPairs,
		reduce: func(prev, v interface{}) interface{} { o, _ := prev.([]Pair); return Pairs(o).Add(v.([]Pair)) },
		gen: func(rng *vk.Rand, k int) (func(i int) interface{}, string, string, interface{}) {
			parts := make([][]Pair, k)
			sum := map[uint64]uint64{}
			for i := range parts {
				for _, id := range rng.Perm(8)[:rng.Intn(6)] {
					c := uint64(1 + rng.Intn(5))
					parts[i] = append(parts[i], Pair{ID: uint64(id), Count: c})
					sum[uint64(id)] += c
				}
			}
			var want []Pair
			for id, c := range sum {
				want = append(want, Pair{ID: id, Count: c})
			}
			return func(i int) interface{} { return append([]Pair(nil), parts[i]...) }, canonPairs(want), "", parts
		}})

	// RowIDs.merge with a limit
	rs = append(rs, &c17Reducer{name: "RowIDs.merge", canon: func(v interface{}) string { r, _ := v.(RowIDs); return fmt.Sprint([]uint64(r)) },
		gen: func(rng *vk.Rand, k int) (func(i int) interface{}, string, string, interface{}) {
			limit := 1 + rng.Intn(6)
			if rng.Chance(1, 3) {
				limit = int(^uint(0) >> 1)
			}
			parts := make([]RowIDs, k)
			var all []uint64
			for i := range parts {
				var ids []uint64
				for _, id := range rng.Perm(10)[:rng.Intn(7)] {
					ids = append(ids, uint64(id))
				}
				ids = vk.SortedU64(ids)
				if len(ids) > limit { // a shard returns at most limit rows
					ids = ids[:limit]
				}
				parts[i] = RowIDs(ids)
				all = append(all, ids...)
			}
			want := vk.SortedU64(all)
			if len(want) > limit {
				want = want[:limit]
			}
			class := "no-limit"
			if limit < 100 {
				class = "limit"
			}
			lim := limit
			return func(i int) interface{} { return c17LimitWrap{append(RowIDs(nil), parts[i]...), lim} }, fmt.Sprint(want), class, map[string]interface{}{"limit": limit, "parts": parts}
		},
		reduce: nil})
	rs[len(rs)-1].reduce = func(prev, v interface{}) interface{} {
		// the limit travels with the value in this harness (the executor closes over it)
		var o RowIDs
		lim := 0
		if p, ok := prev.(c17LimitWrap); ok {
			o, lim = p.v.(RowIDs), p.limit
		}
		w, ok := v.(c17LimitWrap)
		if !ok {
			return prev
		}
		lim = w.limit
		return c17LimitWrap{o.merge(w.v.(RowIDs), lim), lim}
	}
	rs[len(rs)-1].canon = func(v interface{}) string {
		w, ok := v.(c17LimitWrap)
		if !ok {
			return "[]"
		}
		r := w.v.(RowIDs)
		if len(r) == 0 {
			return "[]"
		}
		return fmt.Sprint([]uint64(r))
	}

	// mergeGroupCounts with a limit
	canonGC := func(gs []GroupCount) string {
		s := ""
		for _, g := range gs {
			for _, fr := range g.Group {
				s += fmt.Sprintf("%s=%d,", fr.Field, fr.RowID)
			}
			s += fmt.Sprintf(":%d ", g.Count)
		}
		return s
	}
	rs = append(rs, &c17Reducer{name: "mergeGroupCounts",
		canon: func(v interface{}) string {
			w, ok := v.(c17LimitWrap)
			if !ok {
				return ""
			}
			return canonGC(w.v.([]GroupCount))
		},
		reduce: func(prev, v interface{}) interface{} {
			var o []GroupCount
			if p, ok := prev.(c17LimitWrap); ok {
				o = p.v.([]GroupCount)
			}
			w := v.(c17LimitWrap)
			return c17LimitWrap{mergeGroupCounts(o, w.v.([]GroupCount), w.limit), w.limit}
		},
		gen: func(rng *vk.Rand, k int) (func(i int) interface{}, string, string, interface{}) {
			limit := 1 + rng.Intn(6)
			if rng.Chance(1, 3) {
				limit = int(^uint(0) >> 1)
			}
			type key [2]uint64
			parts := make([][]GroupCount, k)
			sum := map[key]uint64{}
			for i := range parts {
				seen := map[key]uint64{}
				for n := rng.Intn(7); n > 0; n-- {
					seen[key{uint64(rng.Intn(3)), uint64(rng.Intn(3))}] = uint64(1 + rng.Intn(5))
				}
				var keys []key
				for kk := range seen {
					keys = append(keys, kk)
				}
				sort.Slice(keys, func(a, b int) bool {
					if keys[a][0] != keys[b][0] {
						return keys[a][0] < keys[b][0]
					}
					return keys[a][1] < keys[b][1]
				})
				if len(keys) > limit {
					keys = keys[:limit]
				}
				for _, kk := range keys {
					parts[i] = append(parts[i], GroupCount{Group: []FieldRow{{Field: "a", RowID: kk[0]}, {Field: "b", RowID: kk[1]}}, Count: seen[kk]})
					sum[kk] += seen[kk]
				}
			}
			var keys []key
			for kk := range sum {
				keys = append(keys, kk)
			}
			sort.Slice(keys, func(a, b int) bool {
				if keys[a][0] != keys[b][0] {
					return keys[a][0] < keys[b][0]
				}
				return keys[a][1] < keys[b][1]
			})
			if len(keys) > limit {
				keys = keys[:limit]
			}
			var want []GroupCount
			for _, kk := range keys {
				want = append(want, GroupCount{Group: []FieldRow{{Field: "a", RowID: kk[0]}, {Field: "b", RowID: kk[1]}}, Count: sum[kk]})
			}
			class := "no-limit"
			if limit < 100 {
				class = "limit"
			}
			lim := limit
			return func(i int) interface{} {
				cp := make([]GroupCount, len(parts[i]))
				for j, g := range parts[i] {
					cp[j] = GroupCount{Group: append([]FieldRow(nil), g.Group...), Count: g.Count}
				}
				return c17LimitWrap{cp, lim}
			}, canonGC(want), class, map[string]interface{}{"limit": limit, "parts": parts}
		}})

	// Row.Merge (executeBitmapCall) and Row.Union
	rowGen := func(rng *vk.Rand, k int) (func(i int) interface{}, string, string, interface{}) {
		// Each partial result is what one node (or shard) returns: a row over ONE OR SEVERAL
		// shards; a shard belongs to exactly one partial, and the shard sets of different
		// partials interleave (node A owns shards 0,2; node B owns 1,3).
		cols := make([][]uint64, k)
		var all []uint64
		shards := rng.Perm(2 * k)
		next := 0
		for i := range cols {
			nsh := 1
			if rng.Chance(1, 2) {
				nsh = 2
			}
			for s := 0; s < nsh && next < len(shards); s++ {
				sh := uint64(shards[next])
				next++
				for n := rng.Intn(5); n > 0; n-- {
					cols[i] = append(cols[i], sh*ShardWidth+uint64(rng.Intn(50)))
				}
			}
			cols[i] = vk.SortedU64(cols[i])
			all = append(all, cols[i]...)
		}
		return func(i int) interface{} { return NewRow(cols[i]...) }, c17RowCanon(vk.SortedU64(all), len(vk.SortedU64(all))), "", cols
	}
	// the canonical form is what a client observes: Columns() AS RETURNED (ascending by contract,
	// so an unsorted result is a difference), and Count().
	canonRow := func(v interface{}) string {
		r, _ := v.(*Row)
		if r == nil {
			return c17RowCanon(nil, 0)
		}
		return c17RowCanon(r.Columns(), int(r.Count()))
	}
	rs = append(rs, &c17Reducer{name: "Row.Merge", canon: canonRow, gen: rowGen,
		reduce: func(prev, v interface{}) interface{} {
			o, _ := prev.(*Row)
			if o == nil {
				o = NewRow()
			}
			o.Merge(v.(*Row))
			return o
		}})
	rs = append(rs, &c17Reducer{name: "Row.Union", canon: canonRow, gen: rowGen,
		reduce: func(prev, v interface{}) interface{} {
			o, _ := prev.(*Row)
			if o == nil {
				o = NewRow()
			}
			return o.Union(v.(*Row))
		}})
	return rs
}

func c17RowCanon(cols []uint64, count int) string {
	if len(cols) == 0 {
		return fmt.Sprintf("[] n=%d", count)
	}
	return fmt.Sprintf("%v n=%d", cols, count)
}

type c17LimitWrap struct {
	v     interface{}
	limit int
}

func TestVerifC17(t *testing.T) {
	r := vk.Start(t, "C17")
	defer r.Finish()
	rds := c17Reducers()
	for _, rd := range rds {
		r.Expect("reducer:" + rd.name)
	}
	r.Expect("class:ValCount.smaller:extreme-tied-across-partials", "class:ValCount.larger:extreme-tied-across-partials", "partials:2", "partials:5")

	n := r.N(4000, 160000)
	r.Cases("fold", n, func(i int, id string, rng *vk.Rand) {
		rd := rds[rng.Intn(len(rds))]
		k := 2 + rng.Intn(4)
		build, want, class, wit := rd.gen(rng, k)
		r.Cover("reducer:" + rd.name)
		r.Cover(fmt.Sprintf("partials:%d", k))
		if class != "" {
			r.Cover("class:" + rd.name + ":" + class)
		}
		r.Distinct(vk.Hash64(rd.name, wit), true)
		if r.WantSample() {
			r.Sample(map[string]interface{}{"reducer": rd.name, "partials": wit, "want": want})
		}
		perms := c17Perms(k)
		shapes := c17Shapes(k)
		if k == 5 { // 120 x 256 codes is plenty; sample the shapes
			var s2 [][]int
			for j := 0; j < 24; j++ {
				s2 = append(s2, shapes[rng.Intn(len(shapes))])
			}
			shapes = s2
		}
		failed := false
		for _, p := range perms {
			for _, sh := range shapes {
				if failed {
					return
				}
				leaves := make([]interface{}, k)
				for a, b := range p {
					leaves[a] = build(b)
				}
				pos := 0
				var got interface{}
				r.Guard(func() string { return "panic:" + rd.name }, id, func() interface{} { return wit }, func() {
					var result interface{}
					if k == 1 {
						result = rd.reduce(nil, leaves[0])
					} else {
						result = c17Fold(rd, leaves, sh, &pos)
					}
					got = result
				})
				r.Eval(1)
				if g := rd.canon(got); g != want {
					failed = true
					sig := "reducer:" + rd.name
					if class != "" {
						sig += ":" + class
					}
					r.Fail(sig, id, fmt.Sprintf("%s over partials in order %v bracketing %v gives %s; every order must give %s", rd.name, p, sh, g, want),
						map[string]interface{}{"reducer": rd.name, "partials": wit, "order": p, "bracketing": sh, "want": want})
				}
			}
		}
	})
}
