package pilosa_test

// C20 (cluster leg) — ownership on REAL gossip clusters. n nodes (1..4) with
// drawn node IDs are started so that join order and ID order disagree, with
// replica count R (0..5). Observed at the public boundary of every node:
//
//   - API.ShardNodes(index, shard) is the same ID list on every node, has
//     min(max(R,1), n) distinct members, for shards covering all partitions;
//   - a second cluster with the SAME IDs joined in another order answers the same;
//   - the node's own "do I own it" (used by anti-entropy and cleanup) is true
//     exactly for members of that list;
//   - a Set sent to any node lands on exactly the owners' holders;
//   - the holder cleaner removes a planted fragment exactly on non-owners.

import (
	"context"
	"fmt"
	"io/ioutil"
	"path"
	"sort"
	"strings"
	"testing"
	"time"

	"github.com/pilosa/pilosa"
	vk "github.com/pilosa/pilosa/internal/verifkit"
	"github.com/pilosa/pilosa/test"
)

type c20cCase struct {
	IDs      []string `json:"node_ids_in_join_order"`
	Replicas int      `json:"replicas"`
	Index    string   `json:"index"`
	Shard    uint64   `json:"shard,omitempty"`
	Step     string   `json:"step,omitempty"`
}

func c20cStart(t *testing.T, ids []string, replicas int) test.Cluster {
	c := test.MustNewCluster(t, len(ids))
	for i, m := range c {
		m.Config.Cluster.ReplicaN = replicas
		m.Config.AntiEntropy.Interval = 0
		m.Config.Metric.Diagnostics = false
		m.Config.Translation.MapSize = 1 << 28 // the test helper's 140000 bytes overflow after a few thousand keys (the log is not bounds-checked against its map)
		if err := ioutil.WriteFile(path.Join(m.Config.DataDir, ".id"), []byte(ids[i]), 0600); err != nil {
			t.Fatal(err)
		}
	}
	if err := c.Start(); err != nil {
		t.Fatalf("starting cluster %v: %v", ids, err)
	}
	deadline := time.Now().Add(60 * time.Second)
	for {
		ok := true
		for _, m := range c {
			if m.API.State() != pilosa.ClusterStateNormal || len(m.API.Hosts(nil)) != len(ids) {
				ok = false
			}
		}
		if ok {
			return c
		}
		if time.Now().After(deadline) {
			t.Fatalf("cluster %v did not reach NORMAL (watchdog)", ids)
		}
		time.Sleep(5 * time.Millisecond)
	}
}

func TestVerifC20Cluster(t *testing.T) {
	r := vk.Start(t, "C20")
	defer r.Finish()
	r.Expect("cluster:n1", "cluster:n2", "cluster:n3", "cluster:n4", "cluster:R0", "cluster:R1", "cluster:R>n", "cluster:1<R<n", "cluster:R=n",
		"cluster:join-order-differs-from-id-order", "cluster:rejoin-other-order", "cluster:write-lands-on-owners", "cluster:cleaner-removes-on-non-owner", "cluster:cleaner-keeps-on-owner")
	ctx := context.Background()
	pool := []string{"node0", "node1", "node2", "a", "b", "zz", "N9", "0", "10", "2", "node10", "ffffffff-0000", "é", "A"}
	n := r.N(96, 3840)
	r.Cases("cluster", n, func(i int, id string, rng *vk.Rand) {
		nn := 1 + rng.Intn(4)
		if rng.Chance(1, 2) {
			nn = 3 + rng.Intn(2)
		}
		perm := rng.Perm(len(pool))
		var ids []string
		for k := 0; k < nn; k++ {
			ids = append(ids, pool[perm[k]])
		}
		rep := []int{0, 1, 2, 2, 3, 5}[rng.Intn(6)]
		cs := &c20cCase{IDs: ids, Replicas: rep}
		r.InFlightDetail(id, cs)
		wantN := rep
		if wantN < 1 {
			wantN = 1
		}
		if wantN > nn {
			wantN = nn
		}
		rc := "cluster:1<R<n"
		switch {
		case rep == 0:
			rc = "cluster:R0"
		case rep == 1:
			rc = "cluster:R1"
		case rep > nn:
			rc = "cluster:R>n"
		case rep == nn:
			rc = "cluster:R=n"
		}
		sig := fmt.Sprintf("n%d:%s", nn, strings.TrimPrefix(rc, "cluster:"))
		sorted := append([]string(nil), ids...)
		sort.Strings(sorted)
		if strings.Join(sorted, ",") != strings.Join(ids, ",") {
			r.Cover("cluster:join-order-differs-from-id-order")
		}
		indexes := []string{"i", "idx2"}
		shards := []uint64{0, 1, 2, 3, 255, 256, 1000, 1 << 20}
		for k := 0; k < 24; k++ {
			shards = append(shards, uint64(rng.Intn(5000)))
		}
		// owners[index][shard] as answered by the first cluster's first node
		answers := map[string]string{}
		parts := map[string]bool{}
		observe := func(c test.Cluster, second bool) bool {
			for _, index := range indexes {
				for _, sh := range shards {
					cs.Index, cs.Shard = index, sh
					var first string
					for k, m := range c {
						nodes, err := m.API.ShardNodes(ctx, index, sh)
						r.Eval(1)
						if err != nil {
							r.FailOrUndecided("cluster:shardnodes-error:"+sig, id, err.Error(), cs)
							return false
						}
						var got []string
						seen := map[string]bool{}
						for _, nd := range nodes {
							got = append(got, nd.ID)
							seen[nd.ID] = true
						}
						if len(got) != wantN || len(seen) != wantN {
							r.FailOrUndecided("cluster:owner-count:"+sig, id, fmt.Sprintf("node %s answers owners %v for %s/%d; want %d distinct members", ids[k], got, index, sh, wantN), cs)
							return false
						}
						g := strings.Join(got, ",")
						if k == 0 {
							first = g
						} else if g != first {
							r.FailOrUndecided("cluster:nodes-disagree:"+sig, id, fmt.Sprintf("owners of %s/%d: node %s says [%s], node %s says [%s]", index, sh, ids[0], first, ids[k], g), cs)
							return false
						}
						own := pilosa.VerifOwnsShard(m.API, index, sh)
						if own != seen[m.API.Node().ID] {
							r.FailOrUndecided("cluster:self-ownership:"+sig, id, fmt.Sprintf("node %s: ownsShard(%s/%d)=%v but owner list is [%s]", m.API.Node().ID, index, sh, own, g), cs)
							return false
						}
					}
					key := fmt.Sprintf("%s/%d", index, sh)
					// membership is what must agree across join orders (the order inside the list is the ring order)
					set := strings.Split(first, ",")
					sort.Strings(set)
					s := strings.Join(set, ",")
					if second {
						r.Eval(1)
						if answers[key] != s {
							r.FailOrUndecided("cluster:join-order-dependent:"+sig, id, fmt.Sprintf("owners of %s: {%s} when joined as %v, {%s} when the same IDs join in another order", key, answers[key], ids, s), cs)
							return false
						}
					} else {
						answers[key] = s
					}
					parts[first] = true
				}
			}
			return true
		}
		c := c20cStart(t, ids, rep)
		ok := observe(c, false)
		// ---- writes land on exactly the owners; cleaner removes exactly on non-owners
		if ok {
			index := "i"
			if _, err := c[0].API.CreateIndex(ctx, index, pilosa.IndexOptions{}); err != nil {
				t.Fatal(err)
			}
			if _, err := vrcCreateField(c[0].API, index, "f", pilosa.OptFieldTypeSet(pilosa.CacheTypeNone, 0)); err != nil {
				t.Fatal(err)
			}
			for k := 0; k < 6 && ok; k++ {
				sh := shards[rng.Intn(len(shards))] % 4000
				col := sh*pilosa.ShardWidth + uint64(rng.Intn(100))
				via := rng.Intn(nn)
				cs.Index, cs.Shard, cs.Step = index, sh, fmt.Sprintf("Set(%d, f=3) via node %s", col, ids[via])
				if _, err := c[via].API.Query(ctx, &pilosa.QueryRequest{Index: index, Query: fmt.Sprintf("Set(%d, f=3)", col)}); err != nil {
					r.FailOrUndecided("cluster:write-error:"+sig, id, err.Error(), cs)
					ok = false
					break
				}
				nodes, _ := c[0].API.ShardNodes(ctx, index, sh)
				owner := map[string]bool{}
				for _, nd := range nodes {
					owner[nd.ID] = true
				}
				for _, m := range c {
					r.Eval(1)
					got, _ := pilosa.VerifFragPositions(m.Server.Holder(), index, "f", "standard", sh)
					has := len(got) > 0
					if has != owner[m.API.Node().ID] {
						r.FailOrUndecided("cluster:write-placement:"+sig, id, fmt.Sprintf("%s: node %s holds the bit=%v, is owner=%v (owners %v)", cs.Step, m.API.Node().ID, has, owner[m.API.Node().ID], nodes), cs)
						ok = false
						break
					}
				}
				if ok {
					r.Cover("cluster:write-lands-on-owners")
				}
				// plant a fragment for this shard everywhere, then let every node clean up
				for _, m := range c {
					if err := pilosa.VerifFragForce(m.Server.Holder(), index, "f", "standard", sh, []uint64{5*pilosa.ShardWidth + 9}); err != nil {
						t.Fatal(err)
					}
				}
				for _, m := range c {
					cs.Step = "holder cleaner on node " + m.API.Node().ID
					if err := pilosa.VerifCleanHolder(m.API); err != nil {
						r.FailOrUndecided("cluster:cleaner-error:"+sig, id, err.Error(), cs)
						ok = false
						break
					}
					r.Eval(1)
					_, exists := pilosa.VerifFragPositions(m.Server.Holder(), index, "f", "standard", sh)
					if exists != owner[m.API.Node().ID] {
						r.FailOrUndecided("cluster:cleanup-placement:"+sig, id, fmt.Sprintf("after cleanup node %s has fragment %s/f/standard/%d = %v, is owner = %v", m.API.Node().ID, index, sh, exists, owner[m.API.Node().ID]), cs)
						ok = false
						break
					}
					if exists {
						r.Cover("cluster:cleaner-keeps-on-owner")
					} else {
						r.Cover("cluster:cleaner-removes-on-non-owner")
					}
				}
			}
		}
		c.Close()
		// ---- the same IDs joined in another order
		if ok && nn > 1 {
			p2 := rng.Perm(nn)
			same := true
			for k, v := range p2 {
				same = same && k == v
			}
			if same {
				p2[0], p2[1] = p2[1], p2[0]
			}
			ids2 := make([]string, nn)
			for k, v := range p2 {
				ids2[k] = ids[v]
			}
			cs2 := *cs
			cs2.IDs, cs2.Step = ids2, "second cluster, same IDs in another join order"
			r.InFlightDetail(id, &cs2)
			c2 := c20cStart(t, ids2, rep)
			saved := ids
			ids = ids2
			ok = observe(c2, true)
			ids = saved
			c2.Close()
			if ok {
				r.Cover("cluster:rejoin-other-order")
			}
		}
		if ok {
			r.Cover(fmt.Sprintf("cluster:n%d", nn))
			r.Cover(rc)
			r.Distinct(vk.Hash64("c20c", strings.Join(ids, ","), rep), nn > 1)
			if r.WantSample() {
				r.Sample(map[string]interface{}{"ids": ids, "replicas": rep, "distinct_owner_lists": len(parts)})
			}
		}
	})
}
