package pilosa_test

// C17 (restart leg) — a member of a real cluster is restarted cleanly (same
// data directory, same node id). When the cluster is NORMAL again, every query
// through every member, the restarted one included, must answer as before
// (C08 for a member of a cluster, observed through C17's lens: the answer does
// not depend on the coordinating node).

import (
	"context"
	"fmt"
	"testing"
	"time"

	"github.com/pilosa/pilosa"
	vk "github.com/pilosa/pilosa/internal/verifkit"
)

func TestVerifC17Restart(t *testing.T) {
	r := vk.Start(t, "C17")
	defer r.Finish()
	r.Expect("restart:n3r1", "restart:n3r2", "restart:normal-again", "restart:asked-through-restarted-member")
	ctx := context.Background()
	battery := c17Battery()
	n := r.N(4, 160)
	r.Cases("restart", n, func(i int, id string, rng *vk.Rand) {
		cfg := [][2]int{{3, 1}, {3, 2}}[(r.Worker+i)%2]
		d := c17GenData(rng)
		c := c17RunCluster(t, cfg[0], cfg[1])
		defer c.Close()
		d.load(t, c)
		wit := map[string]interface{}{"data": d, "nodes": cfg[0], "replicas": cfg[1]}
		ask := func(k int, q c17Query) (string, error) {
			resp, err := c[k].API.Query(ctx, &pilosa.QueryRequest{Index: "i", Query: q.pql})
			if err != nil {
				return "", err
			}
			return c17Canon(resp.Results[0]), nil
		}
		ref := map[string]string{}
		for _, q := range battery {
			if q.kind == "TopN-n" || q.kind == "TopN-filter" {
				continue
			}
			got, err := ask(0, q)
			if err != nil {
				r.FailOrUndecided("restart:before:error:"+q.kind, id, q.pql+": "+err.Error(), wit)
				return
			}
			ref[q.kind] = got
		}
		victim := 1 + rng.Intn(cfg[0]-1)
		wit["restarted_node"] = victim
		r.InFlightDetail(id, wit)
		t0 := time.Now()
		if err := c[victim].Reopen(); err != nil {
			r.Note("inconclusive:"+id, "restart failed: "+err.Error())
			return
		}
		deadline := time.Now().Add(120 * time.Second)
		for {
			ok := true
			for _, m := range c {
				if m.API.State() != pilosa.ClusterStateNormal || len(m.API.Hosts(nil)) != cfg[0] {
					ok = false
				}
			}
			if ok {
				break
			}
			if time.Now().After(deadline) {
				r.Note("inconclusive:"+id, "cluster did not return to NORMAL after the restart (watchdog)")
				return
			}
			time.Sleep(5 * time.Millisecond)
		}
		r.Count("restart:ms-to-normal", int64(time.Since(t0)/time.Millisecond))
		r.Cover("restart:normal-again")
		for _, q := range battery {
			if q.kind == "TopN-n" || q.kind == "TopN-filter" {
				continue
			}
			for k := range c {
				got, err := ask(k, q)
				r.Eval(1)
				who := "other-member"
				if k == victim {
					who = "restarted-member"
					r.Cover("restart:asked-through-restarted-member")
				}
				if err != nil {
					got = "error: " + err.Error()
				}
				if got != ref[q.kind] {
					r.FailOrUndecided(fmt.Sprintf("restart:answer-changed:%s:via-%s", q.kind, who), id, fmt.Sprintf("after node %d was restarted, %s through node %d (%s) answers %q; before: %q", victim, q.pql, k, who, got, ref[q.kind]), wit)
					return
				}
			}
		}
		r.Cover(fmt.Sprintf("restart:n%dr%d", cfg[0], cfg[1]))
		r.Distinct(vk.Hash64("c17r", id), len(d.Shards) >= 2)
	})
}
