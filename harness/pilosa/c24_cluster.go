package pilosa_test

// C24 (cluster leg) — key translation on every node of a REAL cluster. Three
// nodes; the coordinator owns the translate log, every other node streams it
// from its ring predecessor over HTTP (GET /internal/translate/data?offset=,
// http.translateStore.Reader -> TranslateFile.replicate). Keyed writes go
// through the coordinator's public API (batches with repeated, empty-ish,
// long and non-ASCII keys; some batches from concurrent clients). Checked on
// EVERY node, once its log has the primary's length (polling is a watchdog,
// not a verdict): each key has the one positive ID first observed on the
// coordinator, distinct keys have distinct IDs, reverse translation returns
// the key, Row(f="rk") answers the same key set as the model through every
// node, and all of that again after a replica was restarted in the middle of
// the history and resumed streaming from its own offset.

import (
	"context"
	"fmt"
	"sort"
	"strings"
	"sync"
	"testing"
	"time"

	"github.com/pilosa/pilosa"
	vk "github.com/pilosa/pilosa/internal/verifkit"
	"github.com/pilosa/pilosa/test"
)

type c24cCase struct {
	Steps []string `json:"steps"`
}

func c24cKey(rng *vk.Rand, pool []string) string {
	switch rng.Intn(12) {
	case 0:
		return strings.Repeat("k", 200+rng.Intn(600))
	case 1:
		return fmt.Sprintf("új-ключ-%d", rng.Intn(6))
	case 2:
		return fmt.Sprintf("sp ace %d", rng.Intn(4))
	}
	return pool[rng.Intn(len(pool))]
}

func TestVerifC24Cluster(t *testing.T) {
	r := vk.Start(t, "C24")
	defer r.Finish()
	r.Expect("cluster:replica-caught-up", "cluster:repeat-key", "cluster:concurrent-batches", "cluster:replica-restart-resume", "cluster:second-hop-replica", "cluster:row-and-column-keys", "cluster:query-via-replica")
	ctx := context.Background()
	var c test.Cluster
	c = vrcStart(t, 3, 1)
	defer func() { c.Close() }()
	coord := 0
	for i, m := range c {
		if m.API.Node().IsCoordinator {
			coord = i
		}
	}
	gen := 0
	var pool []string
	for i := 0; i < 40; i++ {
		pool = append(pool, fmt.Sprintf("key%d", i))
	}
	restarts := 0
	maxRestarts := 1
	if r.Thorough() {
		maxRestarts = 4
	}
	n := r.N(64, 2560)
	r.Cases("cluster", n, func(i int, id string, rng *vk.Rand) {
		gen++
		index := fmt.Sprintf("c24c%d", gen)
		if _, err := c[coord].API.CreateIndex(ctx, index, pilosa.IndexOptions{Keys: true}); err != nil {
			t.Fatalf("create index: %v", err)
		}
		defer c[coord].API.DeleteIndex(ctx, index)
		if _, err := vrcCreateField(c[coord].API, index, "f", pilosa.OptFieldTypeSet(pilosa.CacheTypeNone, 0), pilosa.OptFieldKeys()); err != nil {
			t.Fatal(err)
		}
		cs := &c24cCase{}
		colID := map[string]uint64{}
		rowID := map[string]uint64{}
		rowCols := map[string]map[string]bool{} // model: row key -> column keys
		var mu sync.Mutex
		write := func(pairs [][2]string) error {
			var sb strings.Builder
			for _, p := range pairs {
				fmt.Fprintf(&sb, "Set(%q, f=%q) ", p[0], p[1])
			}
			_, err := c[coord].API.Query(ctx, &pilosa.QueryRequest{Index: index, Query: sb.String()})
			if err == nil {
				mu.Lock()
				for _, p := range pairs {
					if rowCols[p[1]] == nil {
						rowCols[p[1]] = map[string]bool{}
					}
					rowCols[p[1]][p[0]] = true
				}
				mu.Unlock()
			}
			return err
		}
		genBatch := func(rng *vk.Rand) [][2]string {
			var out [][2]string
			for k := 0; k < 1+rng.Intn(8); k++ {
				out = append(out, [2]string{c24cKey(rng, pool), c24cKey(rng, pool[:6])})
			}
			return out
		}
		// verify checks one node against the mapping first seen on the coordinator
		verify := func(k int, stage string) bool {
			api := c[k].API
			who := "replica"
			if k == coord {
				who = "primary"
			}
			var ckeys, rkeys []string
			mu.Lock()
			seenC := map[string]bool{}
			for rk, cols := range rowCols {
				rkeys = append(rkeys, rk)
				for ck := range cols {
					if !seenC[ck] {
						seenC[ck] = true
						ckeys = append(ckeys, ck)
					}
				}
			}
			mu.Unlock()
			sort.Strings(ckeys)
			sort.Strings(rkeys)
			check := func(ns string, keys []string, known map[string]uint64, fwd func([]string) ([]uint64, error), rev func(uint64) (string, error)) bool {
				ids, err := fwd(keys)
				r.Eval(len(keys))
				if err != nil {
					r.FailOrUndecided("cluster:"+who+":lookup-error:"+ns, id, fmt.Sprintf("%s: node %d translating %d known %s keys: %v", stage, k, len(keys), ns, err), cs)
					return false
				}
				byID := map[uint64]string{}
				for j, key := range keys {
					if ids[j] == 0 {
						r.FailOrUndecided("cluster:"+who+":zero-id:"+ns, id, fmt.Sprintf("%s: node %d: %s key %q has id 0", stage, k, ns, key), cs)
						return false
					}
					if other, dup := byID[ids[j]]; dup {
						r.FailOrUndecided("cluster:"+who+":id-shared:"+ns, id, fmt.Sprintf("%s: node %d: %s keys %q and %q share id %d", stage, k, ns, other, key, ids[j]), cs)
						return false
					}
					byID[ids[j]] = key
					if prev, ok := known[key]; ok && prev != ids[j] {
						r.FailOrUndecided("cluster:"+who+":id-differs:"+ns, id, fmt.Sprintf("%s: node %d: %s key %q has id %d, first observed on the coordinator as %d", stage, k, ns, key, ids[j], prev), cs)
						return false
					} else if !ok && k == coord {
						known[key] = ids[j]
					}
					back, err := rev(ids[j])
					if err != nil || back != key {
						r.FailOrUndecided("cluster:"+who+":reverse:"+ns, id, fmt.Sprintf("%s: node %d: %s id %d -> %q (%v), want %q", stage, k, ns, ids[j], back, err, key), cs)
						return false
					}
				}
				return true
			}
			if !check("column", ckeys, colID, func(ks []string) ([]uint64, error) { return pilosa.VerifTranslateCols(api, index, ks) }, func(v uint64) (string, error) { return pilosa.VerifTranslateColKey(api, index, v) }) {
				return false
			}
			if !check("row", rkeys, rowID, func(ks []string) ([]uint64, error) { return pilosa.VerifTranslateRows(api, index, "f", ks) }, func(v uint64) (string, error) { return pilosa.VerifTranslateRowKey(api, index, "f", v) }) {
				return false
			}
			r.Cover("cluster:row-and-column-keys")
			// end to end through this node's query path
			for _, rk := range rkeys {
				if len(rk) > 100 {
					continue
				}
				resp, err := api.Query(ctx, &pilosa.QueryRequest{Index: index, Query: fmt.Sprintf("Row(f=%q)", rk)})
				r.Eval(1)
				if err != nil {
					r.FailOrUndecided("cluster:"+who+":query-error", id, fmt.Sprintf("%s: node %d Row(f=%q): %v", stage, k, rk, err), cs)
					return false
				}
				got := append([]string(nil), resp.Results[0].(*pilosa.Row).Keys...)
				sort.Strings(got)
				var want []string
				mu.Lock()
				for ck := range rowCols[rk] {
					want = append(want, ck)
				}
				mu.Unlock()
				sort.Strings(want)
				if strings.Join(got, "\x00") != strings.Join(want, "\x00") {
					r.FailOrUndecided("cluster:"+who+":row-keys", id, fmt.Sprintf("%s: node %d Row(f=%q) = %d keys %.200q, model has %d keys %.200q", stage, k, rk, len(got), got, len(want), want), cs)
					return false
				}
				if k != coord {
					r.Cover("cluster:query-via-replica")
				}
			}
			return true
		}
		// caughtUp waits until node k's log is as long as the coordinator's (watchdog)
		caughtUp := func(k int) bool {
			deadline := time.Now().Add(30 * time.Second)
			for pilosa.VerifTranslateSize(c[k].API) < pilosa.VerifTranslateSize(c[coord].API) {
				if time.Now().After(deadline) {
					return false
				}
				time.Sleep(2 * time.Millisecond)
			}
			return true
		}
		nsteps := 3 + rng.Intn(6)
		restartAt := -1
		if rng.Chance(1, 4) && restarts < maxRestarts {
			restartAt = rng.Intn(nsteps)
		}
		for step := 0; step < nsteps; step++ {
			r.InFlightDetail(id, cs)
			if rng.Chance(1, 4) {
				// concurrent clients with overlapping keys
				var wg sync.WaitGroup
				errs := make([]error, 3)
				batches := make([][][2]string, 3)
				for g := range batches {
					batches[g] = genBatch(rng.Fork())
					cs.Steps = append(cs.Steps, fmt.Sprintf("concurrent client %d: %v", g, batches[g]))
				}
				for g := range batches {
					wg.Add(1)
					go func(g int) { defer wg.Done(); errs[g] = write(batches[g]) }(g)
				}
				wg.Wait()
				for _, err := range errs {
					if err != nil {
						r.FailOrUndecided("cluster:write-error", id, err.Error(), cs)
						return
					}
				}
				r.Cover("cluster:concurrent-batches")
			} else {
				b := genBatch(rng)
				seen := map[string]bool{}
				for _, p := range b {
					if seen[p[0]] || colID[p[0]] != 0 {
						r.Cover("cluster:repeat-key")
					}
					seen[p[0]] = true
				}
				cs.Steps = append(cs.Steps, fmt.Sprintf("batch: %v", b))
				if err := write(b); err != nil {
					r.FailOrUndecided("cluster:write-error", id, err.Error(), cs)
					return
				}
			}
			if !verify(coord, fmt.Sprintf("step %d", step)) {
				return
			}
			if step == restartAt {
				// restart one replica; it must resume streaming from its own offset
				k := (coord + 1 + rng.Intn(2)) % 3
				cs.Steps = append(cs.Steps, fmt.Sprintf("restart node %d", k))
				r.InFlightDetail(id, cs)
				if err := c[k].Reopen(); err != nil {
					r.Note("inconclusive:"+id, "replica restart failed: "+err.Error())
					return
				}
				restarts++
				deadline := time.Now().Add(60 * time.Second)
				for {
					ok := true
					for _, m := range c {
						if m.API.State() != pilosa.ClusterStateNormal {
							ok = false
						}
					}
					if ok {
						break
					}
					if time.Now().After(deadline) {
						r.Note("inconclusive:"+id, "cluster did not return to NORMAL after replica restart (watchdog)")
						return
					}
					time.Sleep(5 * time.Millisecond)
				}
				r.Cover("cluster:replica-restart-resume")
			}
			if rng.Chance(1, 2) || step == nsteps-1 {
				for k := range c {
					if k == coord {
						continue
					}
					if !caughtUp(k) {
						r.Note("inconclusive:"+id, fmt.Sprintf("node %d did not reach the primary's log length (watchdog)", k))
						return
					}
					r.Cover("cluster:replica-caught-up")
					if k == (coord+2)%3 {
						r.Cover("cluster:second-hop-replica")
					}
					if !verify(k, fmt.Sprintf("step %d", step)) {
						return
					}
				}
			}
		}
		r.Distinct(vk.Hash64("c24c", id), len(colID) > 3)
		if r.WantSample() {
			r.Sample(cs)
		}
	})
}

// TestVerifC24ClusterLeave — a member LEAVES while the cluster keeps running
// (replicas 2, so the cluster stays available as DEGRADED): the node that
// streamed the translate log from the departed node has to re-attach to its new
// ring predecessor. Keys created after the departure must reach every
// surviving node with the coordinator's ids. Deciding: the wait for the
// survivor to catch up is a watchdog; when it expires the verdict is taken
// from state, not from the clock — a survivor whose stream source is a node
// that is no longer in its own member list can never catch up (violation),
// anything else is undecided.
func TestVerifC24ClusterLeave(t *testing.T) {
	r := vk.Start(t, "C24")
	defer r.Finish()
	r.Expect("leave:degraded", "leave:keys-after-departure", "leave:survivor-caught-up", "leave:successor-of-departed-node")
	ctx := context.Background()
	n := r.N(8, 320)
	r.Cases("leave", n, func(i int, id string, rng *vk.Rand) {
		c := vrcStart(t, 3, 2)
		closed := map[int]bool{}
		defer func() {
			for k, m := range c {
				if !closed[k] {
					m.Close()
				}
			}
		}()
		coord := 0
		for k, m := range c {
			if m.API.Node().IsCoordinator {
				coord = k
			}
		}
		if _, err := c[coord].API.CreateIndex(ctx, "k", pilosa.IndexOptions{Keys: true}); err != nil {
			t.Fatal(err)
		}
		if _, err := vrcCreateField(c[coord].API, "k", "f", pilosa.OptFieldTypeSet(pilosa.CacheTypeNone, 0), pilosa.OptFieldKeys()); err != nil {
			t.Fatal(err)
		}
		var steps []string
		wit := func() interface{} { return map[string]interface{}{"steps": steps} }
		write := func(lo, hi int) bool {
			var sb strings.Builder
			for k := lo; k < hi; k++ {
				fmt.Fprintf(&sb, "Set(%q, f=%q) ", fmt.Sprintf("col%d", k), fmt.Sprintf("row%d", k%3))
			}
			steps = append(steps, fmt.Sprintf("coordinator: keys col%d..col%d", lo, hi-1))
			if _, err := c[coord].API.Query(ctx, &pilosa.QueryRequest{Index: "k", Query: sb.String()}); err != nil {
				r.FailOrUndecided("leave:write-error", id, err.Error(), wit())
				return false
			}
			return true
		}
		n1 := 3 + rng.Intn(10)
		if !write(0, n1) {
			return
		}
		// stop one replica; the other one is the survivor under test
		var others []int
		for k := range c {
			if k != coord {
				others = append(others, k)
			}
		}
		victim, survivor := others[0], others[1]
		if rng.Bool() {
			victim, survivor = survivor, victim
		}
		victimID := c[victim].API.Node().ID
		wasSource := pilosa.VerifTranslatePrimaryID(c[survivor].API) == victimID
		steps = append(steps, fmt.Sprintf("node %s stops (it was the survivor's stream source: %v)", victimID, wasSource))
		r.InFlightDetail(id, wit())
		if err := c[victim].Close(); err != nil {
			r.Note("inconclusive:"+id, "stopping the node failed: "+err.Error())
			return
		}
		closed[victim] = true
		deadline := time.Now().Add(60 * time.Second)
		for c[coord].API.State() != pilosa.ClusterStateDegraded || c[survivor].API.State() != pilosa.ClusterStateDegraded {
			if time.Now().After(deadline) {
				r.Note("inconclusive:"+id, "the survivors did not report DEGRADED (watchdog)")
				return
			}
			time.Sleep(5 * time.Millisecond)
		}
		r.Cover("leave:degraded")
		n2 := n1 + 3 + rng.Intn(10)
		if !write(n1, n2) {
			return
		}
		r.Cover("leave:keys-after-departure")
		deadline = time.Now().Add(45 * time.Second)
		for pilosa.VerifTranslateSize(c[survivor].API) < pilosa.VerifTranslateSize(c[coord].API) {
			if time.Now().After(deadline) {
				src := pilosa.VerifTranslatePrimaryID(c[survivor].API)
				member := false
				for _, nd := range c[survivor].API.Hosts(nil) {
					member = member || nd.ID == src
				}
				r.Eval(1)
				if !member {
					r.Fail("leave:replica-streams-from-departed-node", id, fmt.Sprintf("node %s still takes the translate log from %q, which is not in its member list any more; it holds %d of the coordinator's %d bytes and cannot catch up", c[survivor].API.Node().ID, src, pilosa.VerifTranslateSize(c[survivor].API), pilosa.VerifTranslateSize(c[coord].API)), wit())
				} else {
					r.Note("inconclusive:"+id, "survivor did not catch up within the watchdog (its stream source is a live member)")
				}
				return
			}
			time.Sleep(5 * time.Millisecond)
		}
		r.Cover("leave:survivor-caught-up")
		if wasSource {
			r.Cover("leave:successor-of-departed-node")
		}
		var keys []string
		for k := 0; k < n2; k++ {
			keys = append(keys, fmt.Sprintf("col%d", k))
		}
		want, err := pilosa.VerifTranslateCols(c[coord].API, "k", keys)
		if err != nil {
			r.Fail("leave:primary:lookup-error", id, err.Error(), wit())
			return
		}
		got, err := pilosa.VerifTranslateCols(c[survivor].API, "k", keys)
		r.Eval(len(keys))
		if err != nil {
			r.Fail("leave:replica:lookup-error", id, fmt.Sprintf("survivor translating the %d known keys: %v", len(keys), err), wit())
			return
		}
		for k := range keys {
			if got[k] != want[k] || got[k] == 0 {
				r.Fail("leave:replica:id-differs", id, fmt.Sprintf("key %q: survivor %d, coordinator %d", keys[k], got[k], want[k]), wit())
				return
			}
		}
		r.Distinct(vk.Hash64("c24leave", id), true)
		if r.WantSample() {
			r.Sample(wit())
		}
	})
}
