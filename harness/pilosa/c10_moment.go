package pilosa

// C10 (moment leg) — "AT ANY MOMENT the checksum a shard reports equals the
// checksum of the bits currently stored". One writer applies a fixed list of
// writes (bit sets/clears, bulk imports, roaring imports on a set fragment;
// value writes and small and large value imports on an integer fragment) to a
// fragment with a background snapshot queue (the worker is slowed through the
// snapshot hook, so writes that wait for their snapshot stay in flight for a
// while). The expected checksums after every prefix of that list are computed
// beforehand on a reference fragment.
//
// Readers run concurrently. Each observation is (lo, marker, Blocks(), hi):
// lo = writes completed before, marker = whether the reader itself already
// SAW the next write's marker bit in the fragment, hi = writes started when
// Blocks() returned. The reported checksums must be those of some prefix k
// with max(lo, marker ? lo+1 : lo) <= k <= hi: a checksum may lag a write that
// is still in flight only as long as nobody could read that write's bits.

import (
	"context"
	"fmt"
	"os"
	"path/filepath"
	"runtime"
	"sort"
	"strings"
	"sync"
	"sync/atomic"
	"testing"
	"time"

	vk "github.com/pilosa/pilosa/internal/verifkit"
	"github.com/pilosa/pilosa/roaring"
)

type c10mOp struct {
	Kind string   `json:"kind"`
	Rows []uint64 `json:"rows,omitempty"`
	Cols []uint64 `json:"cols,omitempty"`
	Vals []int64  `json:"vals,omitempty"`
}

const c10mDepth = 10

func c10mApply(f *fragment, op *c10mOp) error {
	switch op.Kind {
	case "setBit":
		_, err := f.setBit(op.Rows[0], op.Cols[0])
		return err
	case "clearBit":
		_, err := f.clearBit(op.Rows[0], op.Cols[0])
		return err
	case "bulkImport":
		return f.bulkImport(append([]uint64(nil), op.Rows...), append([]uint64(nil), op.Cols...), &ImportOptions{})
	case "importRoaring":
		b := roaring.NewBitmap()
		for i := range op.Rows {
			b.DirectAdd(op.Rows[i]*ShardWidth + op.Cols[i])
		}
		var sb strings.Builder
		if _, err := b.WriteTo(&sb); err != nil {
			return err
		}
		return f.importRoaring(context.Background(), []byte(sb.String()), false)
	case "setValue":
		_, err := f.setValue(op.Cols[0], c10mDepth, op.Vals[0])
		return err
	case "importValue":
		return f.importValue(append([]uint64(nil), op.Cols...), append([]int64(nil), op.Vals...), c10mDepth, false)
	}
	return fmt.Errorf("bad op %q", op.Kind)
}

func c10mSums(f *fragment) string {
	var sb strings.Builder
	for _, b := range f.Blocks() {
		fmt.Fprintf(&sb, "%d:%x ", b.ID, b.Checksum)
	}
	return sb.String()
}

func TestVerifC10Moment(t *testing.T) {
	r := vk.Start(t, "C10")
	defer r.Finish()
	r.Expect("moment:set-fragment", "moment:int-fragment", "moment:op:setBit", "moment:op:clearBit", "moment:op:bulkImport", "moment:op:importRoaring", "moment:op:setValue", "moment:op:importValue",
		"moment:observed-in-flight-write", "moment:marker-seen-before-completion", "moment:snapshot-while-waiting")
	dir := filepath.Join(os.Getenv("VERIF_SCRATCH"), "c10moment")
	os.MkdirAll(dir, 0o755)
	var delay int64
	SetVerifHook(func(name string, a, b uint64) uint64 {
		if name == "fragment.snapshot.worker" {
			if d := atomic.LoadInt64(&delay); d > 0 {
				time.Sleep(time.Duration(d) * time.Microsecond) // injected delay: widens the window, decides nothing
			}
		}
		return 0
	})
	defer SetVerifHook(nil)
	q := newSnapshotQueue(10, 2, nil)
	defer close(q)
	n := r.N(200, 8000)
	r.Cases("moment", n, func(i int, id string, rng *vk.Rand) {
		old := runtime.GOMAXPROCS([]int{4, 8, 16}[i%3])
		defer runtime.GOMAXPROCS(old)
		kind := []string{"set", "int"}[rng.Intn(2)]
		atomic.StoreInt64(&delay, int64([]int{0, 200, 2000}[rng.Intn(3)]))
		maxOpN := []int{8, 40, 100000}[rng.Intn(3)]
		// ---- the write list; op k's marker is a bit only op k sets
		nops := 12 + rng.Intn(30)
		ops := make([]*c10mOp, nops)
		const markerRow = 150 // block 1
		rows := []uint64{0, 1, 99, 100, 101, 250}
		for k := range ops {
			mcol := uint64(1000 + k)
			op := &c10mOp{}
			if kind == "set" {
				switch rng.Intn(6) {
				case 0, 1:
					op.Kind, op.Rows, op.Cols = "setBit", []uint64{markerRow}, []uint64{mcol}
				case 2, 3:
					op.Kind = "bulkImport"
				case 4:
					op.Kind = "importRoaring"
				case 5:
					// a clear of an ordinary bit, and the marker through a bulk import of one bit
					op.Kind = "bulkImport"
				}
				if op.Kind != "setBit" {
					op.Rows, op.Cols = []uint64{markerRow}, []uint64{mcol}
					for j := 0; j < 1+rng.Intn(30); j++ {
						op.Rows = append(op.Rows, rows[rng.Intn(len(rows))])
						op.Cols = append(op.Cols, uint64(rng.Intn(3000)))
					}
				}
			} else {
				if rng.Chance(1, 3) {
					op.Kind, op.Cols, op.Vals = "setValue", []uint64{mcol}, []int64{int64(rng.Intn(1000)) - 500}
				} else {
					op.Kind, op.Cols, op.Vals = "importValue", []uint64{mcol}, []int64{int64(rng.Intn(1000)) - 500}
					for j := 0; j < rng.Intn(40); j++ {
						op.Cols = append(op.Cols, uint64(rng.Intn(900)))
						op.Vals = append(op.Vals, int64(rng.Intn(1000))-500)
					}
				}
			}
			ops[k] = op
		}
		if kind == "set" {
			// sprinkle clears of bits written by earlier ops (never of a marker)
			for k := 2; k < nops; k++ {
				if rng.Chance(1, 6) && len(ops[k-1].Rows) > 1 {
					ops[k] = &c10mOp{Kind: "clearBit", Rows: []uint64{ops[k-1].Rows[1]}, Cols: []uint64{ops[k-1].Cols[1]}}
				}
			}
		}
		markerVisible := func(f *fragment, k int) bool {
			if k >= nops || ops[k].Kind == "clearBit" {
				return false
			}
			var v bool
			if kind == "set" {
				f.mu.RLock()
				v, _ = f.bit(markerRow, uint64(1000+k))
				f.mu.RUnlock()
			} else {
				f.mu.RLock()
				v, _ = f.bit(bsiExistsBit, uint64(1000+k))
				f.mu.RUnlock()
			}
			return v
		}
		// ---- expected checksums per prefix, on a reference fragment without concurrency
		mk := func(name string, bg bool) (*fragment, func()) {
			path := filepath.Join(dir, fmt.Sprintf("%s-%d", name, i))
			f := newFragment(path, "i", "f", viewStandard, 0, 0)
			f.MaxOpN = maxOpN
			f.CacheType = CacheTypeNone
			if bg {
				f.snapshotQueue = q
			}
			if err := f.Open(); err != nil {
				t.Fatalf("open: %v", err)
			}
			return f, func() { f.Close(); os.Remove(path); os.Remove(path + ".cache") }
		}
		ref, closeRef := mk("ref", false)
		sums := make([]string, nops+1)
		sums[0] = c10mSums(ref)
		for k, op := range ops {
			if err := c10mApply(ref, op); err != nil {
				closeRef()
				t.Fatalf("reference apply %v: %v", op, err)
			}
			ref.InvalidateChecksums()
			sums[k+1] = c10mSums(ref)
		}
		closeRef()
		// ---- the run
		f, closeF := mk("f", true)
		defer closeF()
		var started, completed int64
		var wg sync.WaitGroup
		var mu sync.Mutex
		var bad string
		inflightSeen, markerEarly := false, false
		stop := make(chan struct{})
		for rd := 0; rd < 2+rng.Intn(2); rd++ {
			wg.Add(1)
			go func() {
				defer wg.Done()
				for {
					select {
					case <-stop:
						return
					default:
					}
					lo := int(atomic.LoadInt64(&completed))
					need := lo
					if markerVisible(f, lo) {
						need = lo + 1
					}
					got := c10mSums(f)
					hi := int(atomic.LoadInt64(&started))
					ok := false
					for k := need; k <= hi && k <= nops; k++ {
						if sums[k] == got {
							ok = true
						}
					}
					mu.Lock()
					if hi > lo {
						inflightSeen = true
					}
					if need > lo {
						markerEarly = true
					}
					if !ok && bad == "" {
						at := "none of the expected prefixes"
						for k := range sums {
							if sums[k] == got {
								at = fmt.Sprintf("the state after %d writes", k)
							}
						}
						kinds := ""
						if need-1 >= 0 && need-1 < nops {
							kinds = ops[need-1].Kind
						}
						again := c10mSums(f)
						f.InvalidateChecksums()
						fresh := c10mSums(f)
						hi2 := int(atomic.LoadInt64(&started))
						freshAt := -1
						for k := 0; k <= nops; k++ {
							if sums[k] == fresh {
								freshAt = k
							}
						}
						detail := fmt.Sprintf(" again=[%s] fresh-recompute=[%s] (matches prefix %d, started now %d)", again, fresh, freshAt, hi2)
						detail += fmt.Sprintf(" got=[%s] want(lo=%d)=[%s] want(hi=%d)=[%s]", got, need, sums[need], hi, sums[c10mMin(hi, nops)])
						bad = fmt.Sprintf("%s|Blocks() returned the checksums of %s; %d writes had completed, the reader had already seen write %d's bit (%v), %d writes had started when Blocks() returned;%s", kinds, at, lo, need, need > lo, hi, detail)
					}
					mu.Unlock()
					r.Eval(1)
					runtime.Gosched()
				}
			}()
		}
		for k, op := range ops {
			atomic.StoreInt64(&started, int64(k+1))
			if err := c10mApply(f, op); err != nil {
				close(stop)
				wg.Wait()
				r.Fail("moment:write-error:"+op.Kind, id, err.Error(), op)
				return
			}
			atomic.StoreInt64(&completed, int64(k+1))
			r.Cover("moment:op:" + op.Kind)
			if rng.Chance(1, 4) {
				runtime.Gosched()
			}
		}
		close(stop)
		wg.Wait()
		r.Cover("moment:" + kind + "-fragment")
		if inflightSeen {
			r.Cover("moment:observed-in-flight-write")
		}
		if markerEarly {
			r.Cover("moment:marker-seen-before-completion")
		}
		if maxOpN < 100 {
			r.Cover("moment:snapshot-while-waiting")
		}
		wit := map[string]interface{}{"fragment": kind, "maxOpN": maxOpN, "snapshot_delay_us": atomic.LoadInt64(&delay), "ops": ops}
		if bad != "" {
			parts := strings.SplitN(bad, "|", 2)
			r.Fail("moment:stale-checksum:"+kind+":"+parts[0], id, parts[1], wit)
			return
		}
		// quiescent
		if got := c10mSums(f); got != sums[nops] {
			r.Fail("moment:final-checksum:"+kind, id, "after all writes Blocks() differs from the reference fragment's checksums", wit)
			return
		}
		var ks []string
		for _, op := range ops {
			ks = append(ks, op.Kind)
		}
		sort.Strings(ks)
		r.Distinct(vk.Hash64("c10m", id), true)
		if r.WantSample() {
			r.Sample(map[string]interface{}{"fragment": kind, "maxOpN": maxOpN, "ops": len(ops)})
		}
	})
}

func c10mMin(a, b int) int {
	if a < b {
		return a
	}
	return b
}
