package pilosa

// C22 — Cluster resize completes or aborts cleanly without stalling.
//
// A real coordinator cluster (real Holder with data, real listenForJoins
// goroutine) is driven by a controller: joins (ReceiveEvent NodeJoin), leaves
// (nodeLeave), ResizeInstructionComplete messages delivered to the real
// markResizeInstructionComplete (success, error, duplicate, late, unknown job
// id), aborts (completeCurrentJob(ABORTED), what API.ResizeAbort does) and
// instruction send failures. Followers are harness stubs: the harness
// broadcaster intercepts the coordinator's ResizeInstructions and the
// controller decides when and how each node answers. The hook point
// cluster.hna.result lets the controller hold handleNodeAction between its
// receive from j.result and completeCurrentJob.
//
// Oracle (trace automata over hook events + structural goroutine analysis):
//   P1  at most one job is running at a time (events, and job states read at
//       quiescent points);
//   P2  the member list changes only inside handleNodeAction of a job whose
//       result is DONE, after every instructed node's success was delivered
//       and no abort was issued for it;
//   P3  once the schedule is drained and no job is running the cluster is not
//       RESIZING;
//   P4  no handler or job waits forever: at quiescence (every tracked
//       goroutine finished or blocked) a goroutine blocked in a channel
//       operation on a job's result channel whose counterpart cannot come any
//       more (decided from the event trace, not from time) is stuck forever;
//       a panic in a handler is a failure as well.

import (
	"fmt"
	"os"
	"regexp"
	"runtime"
	"sort"
	"strconv"
	"strings"
	"sync"
	"testing"
	"time"

	vk "github.com/pilosa/pilosa/internal/verifkit"
	"github.com/pilosa/pilosa/roaring"
)

// ---------------------------------------------------------------- goroutine dump

type c22G struct {
	id     uint64
	state  string
	parent uint64
	stack  string
}

var (
	c22HeadRe   = regexp.MustCompile(`^goroutine (\d+) \[([^\]]*)\]:`)
	c22ParentRe = regexp.MustCompile(`in goroutine (\d+)`)
)

var (
	c22DumpMu  sync.Mutex
	c22DumpBuf = make([]byte, 1<<17)
)

func c22Goroutines() map[uint64]c22G {
	c22DumpMu.Lock()
	defer c22DumpMu.Unlock()
	var buf []byte
	for {
		n := runtime.Stack(c22DumpBuf, true)
		if n < len(c22DumpBuf) {
			buf = c22DumpBuf[:n]
			break
		}
		c22DumpBuf = make([]byte, 2*len(c22DumpBuf))
	}
	out := map[uint64]c22G{}
	for _, blk := range strings.Split(string(buf), "\n\n") {
		m := c22HeadRe.FindStringSubmatch(blk)
		if m == nil {
			continue
		}
		id, _ := strconv.ParseUint(m[1], 10, 64)
		st := m[2]
		if i := strings.Index(st, ","); i >= 0 {
			st = st[:i]
		}
		g := c22G{id: id, state: st, stack: blk}
		if i := strings.LastIndex(blk, "created by "); i >= 0 {
			if pm := c22ParentRe.FindStringSubmatch(blk[i:]); pm != nil {
				g.parent, _ = strconv.ParseUint(pm[1], 10, 64)
			}
		}
		out[id] = g
	}
	return out
}

func c22Goid() uint64 {
	var buf [64]byte
	n := runtime.Stack(buf[:], false)
	f := strings.Fields(string(buf[:n]))
	if len(f) < 2 {
		return 0
	}
	id, _ := strconv.ParseUint(f[1], 10, 64)
	return id
}

func c22Blocked(state string) bool {
	switch state {
	case "chan send", "chan receive", "select", "sync.Mutex.Lock", "sync.RWMutex.Lock", "sync.RWMutex.RLock", "semacquire", "sync.WaitGroup.Wait", "sync.Cond.Wait", "chan send (nil chan)", "chan receive (nil chan)", "select (no cases)":
		return true
	}
	return false
}

// ---------------------------------------------------------------- world

type c22Ev struct {
	Name string `json:"n"`
	A    uint64 `json:"a"`
	B    uint64 `json:"b"`
	G    uint64 `json:"g"`
}

type c22Delivery struct {
	Desc    string `json:"desc"`
	job     int64
	node    string
	errText string
	goid    uint64
	done    bool
	ret     string
	panicV  string
}

type c22Job struct {
	id         int64
	action     string
	instructed map[string]bool
	okSent     map[string]bool // success deliveries started
	abortSent  bool            // ResizeAbort issued while this job was current
	started    bool
	result     byte // from hna.result
	completed  byte // from job.complete
	hnaExited  bool
	ptr        *resizeJob
}

type c22World struct {
	r   *vk.Run
	id  string
	cc  *cluster
	h   *Holder
	dir string

	mu         sync.Mutex
	events     []c22Ev
	jobs       map[int64]*c22Job
	jobOrder   []int64
	pending    [][2]string // (jobID as string, node) instructions received and not yet answered
	failSend   map[string]bool
	deliveries []*c22Delivery
	steps      []string
	hazards    []string
	action     string

	listenGoid uint64
	curJob     int64 // job of the handleNodeAction in progress (0 = none)
	inHNA      bool
	running    map[int64]bool
	memberOK   bool // a validated membership change happened since the last snapshot
	members    []string

	gateArmed   bool
	gateReached chan struct{}
	gateRelease chan struct{}

	lockGateArmed   bool
	lockGateReached chan struct{}
	lockGateRelease chan struct{}

	fails []string
}

func (w *c22World) failf(format string, a ...interface{}) {
	w.mu.Lock()
	w.fails = append(w.fails, fmt.Sprintf(format, a...))
	w.mu.Unlock()
}

// hook runs inside the coordinator's code (possibly with c.mu held): it only
// records, updates the automata and may block at an armed gate.
func (w *c22World) hook(name string, a, b uint64) uint64 {
	if !strings.HasPrefix(name, "cluster.") {
		return 0
	}
	g := c22Goid()
	var wait chan struct{}
	w.mu.Lock()
	if len(w.events) < 4000 {
		w.events = append(w.events, c22Ev{name, a, b, g})
	}
	switch name {
	case "cluster.mric.locked":
		// lock-order probe: the completion handler is held here, INSIDE the job mutex, while the
		// controller lets an abort take the cluster mutex and reach for the job mutex
		if w.lockGateArmed {
			w.lockGateArmed = false
			close(w.lockGateReached)
			wait = w.lockGateRelease
		}
	case "cluster.hna.enter":
		w.inHNA = true
		w.curJob = 0
	case "cluster.hna.exit":
		if j := w.jobs[w.curJob]; j != nil {
			j.hnaExited = true
			if j.completed == 0 && j.result != 0 {
				// job ended (result consumed) but was never completed: it stays currentJob in state RUNNING
			}
		}
		w.inHNA = false
		w.curJob = 0
	case "cluster.job.start":
		id := int64(a)
		j := w.job(id)
		j.started = true
		if len(w.running) > 0 {
			var other []string
			for k := range w.running {
				other = append(other, fmt.Sprint(k))
			}
			w.fails = append(w.fails, fmt.Sprintf("P1: job %d starts while job(s) %s still running", id, strings.Join(other, ",")))
		}
		w.running[id] = true
		w.curJob = id
	case "cluster.job.rejected":
		w.job(int64(a))
	case "cluster.job.complete":
		id := int64(a)
		w.job(id).completed = byte(b)
		delete(w.running, id)
	case "cluster.hna.result":
		id := int64(a)
		w.job(id).result = byte(b)
		if w.gateArmed {
			w.gateArmed = false
			close(w.gateReached)
			wait = w.gateRelease
		}
	case "cluster.addNode", "cluster.removeNode":
		// membership change of the coordinator inside handleNodeAction
		if g == w.listenGoid && w.inHNA {
			j := w.jobs[w.curJob]
			switch {
			case j == nil:
				w.fails = append(w.fails, "P2: member list changed in handleNodeAction without a job")
			case j.result != 'D':
				w.fails = append(w.fails, fmt.Sprintf("P2: member list changed for job %d whose result is %q", j.id, string(j.result)))
			case j.abortSent:
				w.fails = append(w.fails, fmt.Sprintf("P2: member list changed for job %d after an abort was issued for it", j.id))
			default:
				for n := range j.instructed {
					if !j.okSent[n] {
						w.fails = append(w.fails, fmt.Sprintf("P2: member list changed for job %d before node %s reported success", j.id, n))
					}
				}
			}
			w.memberOK = true
		} else {
			w.fails = append(w.fails, fmt.Sprintf("P2: member list changed (%s) outside handleNodeAction", name))
		}
	}
	w.mu.Unlock()
	if wait != nil {
		<-wait
	}
	return 0
}

func (w *c22World) job(id int64) *c22Job {
	j := w.jobs[id]
	if j == nil {
		j = &c22Job{id: id, instructed: map[string]bool{}, okSent: map[string]bool{}}
		w.jobs[id] = j
		w.jobOrder = append(w.jobOrder, id)
	}
	return j
}

// broadcaster of the coordinator
func (w *c22World) SendSync(Message) error  { return nil }
func (w *c22World) SendAsync(Message) error { return nil }
func (w *c22World) SendTo(to *Node, m Message) error {
	if instr, ok := m.(*ResizeInstruction); ok {
		w.mu.Lock()
		defer w.mu.Unlock()
		if w.failSend[to.ID] {
			return fmt.Errorf("harness: node %s unreachable", to.ID)
		}
		w.job(instr.JobID).instructed[to.ID] = true
		w.pending = append(w.pending, [2]string{fmt.Sprint(instr.JobID), to.ID})
	}
	return nil
}

func c22NewWorld(r *vk.Run, id string, members []string, replicas int) *c22World {
	w := &c22World{r: r, id: id, dir: vcScratch("c22"), jobs: map[int64]*c22Job{}, failSend: map[string]bool{}, running: map[int64]bool{}}
	h := NewHolder()
	h.Path = w.dir
	if err := h.Open(); err != nil {
		panic(err)
	}
	idx, err := h.CreateIndexIfNotExists("i", IndexOptions{})
	if err != nil {
		panic(err)
	}
	f, err := idx.CreateFieldIfNotExists("f", OptFieldTypeSet(CacheTypeNone, 0))
	if err != nil {
		panic(err)
	}
	var sh []uint64
	for s := uint64(0); s < 24; s++ {
		sh = append(sh, s)
	}
	if err := f.AddRemoteAvailableShards(roaring.NewBitmap(sh...)); err != nil {
		panic(err)
	}
	if _, err := f.SetBit(1, 1, nil); err != nil {
		panic(err)
	}
	w.h = h
	c := newCluster()
	c.Node = vcNode(members[0])
	c.Node.IsCoordinator = true
	c.Coordinator = c.Node.ID
	c.Topology = newTopology()
	c.Path = w.dir
	c.holder = h
	c.broadcaster = w
	c.ReplicaN = replicas
	c.id = "cid"
	c.Topology.clusterID = "cid"
	for _, m := range members {
		nd := vcNode(m)
		if m == c.Node.ID {
			nd = c.Node
		}
		if err := c.addNode(nd); err != nil {
			panic(err)
		}
	}
	c.state = ClusterStateNormal
	w.cc = c
	w.members = c.nodeIDs()
	SetVerifHook(w.hook)
	before := c22Goroutines()
	c.listenForJoins()
	for w.listenGoid == 0 {
		for id, g := range c22Goroutines() {
			if _, old := before[id]; !old && strings.Contains(g.stack, "listenForJoins") {
				w.listenGoid = id
			}
		}
		runtime.Gosched()
	}
	return w
}

// ---------------------------------------------------------------- controller actions

func (w *c22World) step(s string) {
	w.mu.Lock()
	w.steps = append(w.steps, s)
	w.mu.Unlock()
}

func (w *c22World) join(id string) {
	w.step("join " + id)
	if err := w.cc.ReceiveEvent(&NodeEvent{Event: NodeJoin, Node: vcNode(id)}); err != nil {
		w.step("  -> " + err.Error())
	}
}

func (w *c22World) leave(id string) error {
	w.step("leave " + id)
	err := w.cc.nodeLeave(id)
	if err != nil {
		w.step("  -> " + err.Error())
	}
	return err
}

func (w *c22World) abort() {
	w.step("abort")
	w.mu.Lock()
	for id := range w.running {
		w.jobs[id].abortSent = true
	}
	w.mu.Unlock()
	if err := w.cc.completeCurrentJob(resizeJobStateAborted); err != nil {
		w.step("  -> " + err.Error())
	}
}

// abortAsync runs ResizeAbort's completeCurrentJob in its own goroutine, tracked like a delivery so
// that final() reports it when it never returns.
func (w *c22World) abortAsync() *c22Delivery {
	d := &c22Delivery{Desc: "abort (concurrent)", job: -1}
	w.step("abort (in its own goroutine)")
	w.mu.Lock()
	for id := range w.running {
		w.jobs[id].abortSent = true
	}
	w.deliveries = append(w.deliveries, d)
	w.mu.Unlock()
	started := make(chan struct{})
	go func() {
		g := c22Goid()
		w.mu.Lock()
		d.goid = g
		w.mu.Unlock()
		close(started)
		err := w.cc.completeCurrentJob(resizeJobStateAborted)
		w.mu.Lock()
		if err != nil {
			d.ret = err.Error()
		}
		d.done = true
		w.mu.Unlock()
	}()
	<-started
	return d
}

// deliver calls the real handler in its own goroutine.
func (w *c22World) deliver(job int64, node string, errText string, label string) *c22Delivery {
	d := &c22Delivery{Desc: fmt.Sprintf("%s job=%d node=%s err=%q", label, job, node, errText), job: job, node: node, errText: errText}
	w.step("deliver " + d.Desc)
	w.mu.Lock()
	w.deliveries = append(w.deliveries, d)
	if j := w.jobs[job]; j != nil && errText == "" {
		j.okSent[node] = true
	}
	for i, p := range w.pending {
		if p[0] == fmt.Sprint(job) && p[1] == node {
			w.pending = append(w.pending[:i], w.pending[i+1:]...)
			break
		}
	}
	w.mu.Unlock()
	started := make(chan struct{})
	go func() {
		g := c22Goid()
		w.mu.Lock()
		d.goid = g
		w.mu.Unlock()
		close(started)
		defer func() {
			p := recover()
			w.mu.Lock()
			if p != nil {
				d.panicV = fmt.Sprint(p)
			}
			d.done = true
			w.mu.Unlock()
		}()
		err := w.cc.markResizeInstructionComplete(&ResizeInstructionComplete{JobID: job, Node: vcNode(node), Error: errText})
		w.mu.Lock()
		if err != nil {
			d.ret = err.Error()
		}
		w.mu.Unlock()
	}()
	<-started
	return d
}

// settle waits until the system is quiescent: no new events and every tracked
// goroutine (listenForJoins and its children, deliveries) finished or blocked.
func (w *c22World) settle() map[uint64]c22G {
	stable := 0
	last := -1
	lastBusy := ""
	for iter := 0; iter < 20000; iter++ {
		runtime.Gosched()
		if iter > 20 {
			time.Sleep(50 * time.Microsecond)
		}
		w.mu.Lock()
		n := len(w.events)
		idle := !w.inHNA
		w.mu.Unlock()
		// a queued action is work to do only while the listener is not inside handleNodeAction
		if n != last || (idle && len(w.cc.joiningLeavingNodes) > 0) {
			last = n
			stable = 0
			continue
		}
		gs := c22Goroutines()
		ok := true
		w.mu.Lock()
		tracked := map[uint64]bool{}
		for _, d := range w.deliveries {
			if !d.done {
				tracked[d.goid] = true
			}
		}
		lg := w.listenGoid
		w.mu.Unlock()
		for id, g := range gs {
			mine := tracked[id] || id == lg || g.parent == lg
			if mine && !c22Blocked(g.state) {
				ok = false
				lastBusy = g.stack
			}
		}
		if !ok {
			stable = 0
			continue
		}
		stable++
		if stable >= 3 {
			return gs
		}
	}
	w.r.T.Fatalf("harness watchdog: case %s never became quiescent; queue=%d last busy goroutine:\n%s", w.id, len(w.cc.joiningLeavingNodes), c22Trim(lastBusy))
	return nil
}

// snapshot reads coordinator state without ever blocking on its locks.
func (w *c22World) snapshot() (state string, members []string, running []int64, locked bool) {
	if !w.cc.mu.TryRLock() {
		return "", nil, nil, true
	}
	defer w.cc.mu.RUnlock()
	state = w.cc.state
	members = w.cc.nodeIDs()
	for id, j := range w.cc.jobs {
		w.mu.Lock()
		w.job(id).ptr = j
		w.mu.Unlock()
		if j.mu.TryRLock() {
			if j.state == resizeJobStateRunning {
				running = append(running, id)
			}
			j.mu.RUnlock()
		}
	}
	return
}

// checkpoint = settle + state-based checks.
func (w *c22World) checkpoint() map[uint64]c22G {
	gs := w.settle()
	state, members, running, locked := w.snapshot()
	if locked {
		return gs
	}
	_ = state
	w.r.Eval(2)
	if len(running) > 1 {
		w.failf("P1: %d jobs are in state RUNNING at a quiescent point: %v", len(running), running)
	}
	w.mu.Lock()
	if strings.Join(members, "\x00") != strings.Join(w.members, "\x00") {
		if !w.memberOK {
			w.fails = append(w.fails, fmt.Sprintf("P2: member list changed from %v to %v without a completed job", w.members, members))
		}
		w.members = members
	}
	w.memberOK = false
	w.mu.Unlock()
	return gs
}

// final verdicts once the schedule is drained.
func (w *c22World) final() {
	gs := w.checkpoint()
	w.r.Eval(3)
	state, _, _, locked := w.snapshot()
	w.mu.Lock()
	defer w.mu.Unlock()
	// P4: handlers / jobs that can never return
	receiverFor := int64(0) // the job whose result channel handleNodeAction is receiving from right now
	if g, ok := gs[w.listenGoid]; ok && w.inHNA && g.state == "chan receive" && strings.Contains(g.stack, "handleNodeAction") {
		receiverFor = w.curJob
	}
	for _, d := range w.deliveries {
		if d.panicV != "" {
			w.fails = append(w.fails, fmt.Sprintf("P4: markResizeInstructionComplete panicked for %s: %s", d.Desc, d.panicV))
			continue
		}
		if d.done {
			continue
		}
		g := gs[d.goid]
		if g.state == "chan send" && strings.Contains(g.stack, "markResizeInstructionComplete") && receiverFor != d.job {
			holds := ""
			if d.errText == "" {
				holds = " while holding the job mutex"
			}
			w.fails = append(w.fails, fmt.Sprintf("P4: handler for %s is blocked in chan send on the job's result channel%s; handleNodeAction is not (and will not be) receiving for job %d (its receive for that job already happened or the job was never current): stuck forever", d.Desc, holds, d.job))
		} else {
			w.fails = append(w.fails, fmt.Sprintf("P4: handler for %s has not returned at quiescence (goroutine state %q)", d.Desc, g.state))
		}
	}
	if g, ok := gs[w.listenGoid]; ok && w.inHNA {
		j := w.jobs[w.curJob]
		switch {
		case g.state == "chan receive" && strings.Contains(g.stack, "handleNodeAction") && j != nil && j.completed != 0 && len(w.pendingFor(j.id)) == 0:
			w.fails = append(w.fails, fmt.Sprintf("P4: handleNodeAction is blocked receiving the result of job %d, which is already in final state %q; every instructed node has answered, nobody will ever send: stuck forever (the coordinator processes no further join/leave)", j.id, string(j.completed)))
		case g.state != "chan receive":
			w.fails = append(w.fails, fmt.Sprintf("P4: handleNodeAction has not returned at quiescence (goroutine state %q):\n%s", g.state, c22Trim(g.stack)))
		}
	}
	for _, g := range gs {
		if g.parent == w.listenGoid && w.listenGoid != 0 && g.state == "chan send" && strings.Contains(g.stack, "resizeJob).run") && receiverFor == 0 {
			w.fails = append(w.fails, "P4: resizeJob.run is blocked in chan send with no receiver")
		}
	}
	// P3
	if locked {
		w.fails = append(w.fails, "P4: the cluster mutex is held at quiescence (a goroutine blocked while holding it): every cluster operation now blocks forever")
	} else if len(w.running) == 0 && len(w.pending) == 0 && state == ClusterStateResizing {
		ended := "no job was started"
		if n := len(w.jobOrder); n > 0 {
			j := w.jobs[w.jobOrder[n-1]]
			ended = fmt.Sprintf("last job %d: result %q completed %q", j.id, string(j.result), string(j.completed))
		}
		w.fails = append(w.fails, fmt.Sprintf("P3: schedule drained, no job running, but the cluster is still RESIZING (%s)", ended))
	}
}

func (w *c22World) pendingFor(job int64) []string {
	var out []string
	for _, p := range w.pending {
		if p[0] == fmt.Sprint(job) {
			out = append(out, p[1])
		}
	}
	return out
}

func c22Trim(s string) string {
	if len(s) > 900 {
		return s[:900]
	}
	return s
}

// cleanup unsticks whatever the case left blocked so that nothing leaks into
// the next case: stuck senders are drained, a stuck receiver gets a value.
func (w *c22World) cleanup() {
	w.mu.Lock()
	if w.gateRelease != nil {
		select {
		case <-w.gateRelease:
		default:
			close(w.gateRelease)
		}
	}
	w.gateArmed = false
	w.mu.Unlock()
	for round := 0; round < 50; round++ {
		w.mu.Lock()
		var ptrs []*resizeJob
		for _, j := range w.jobs {
			if j.ptr != nil {
				ptrs = append(ptrs, j.ptr)
			}
		}
		w.mu.Unlock()
		for _, p := range ptrs {
			select {
			case <-p.result:
			default:
			}
		}
		gs := w.settleQuiet()
		busy := false
		w.mu.Lock()
		for _, d := range w.deliveries {
			if !d.done {
				busy = true
			}
		}
		lg, in, cur := w.listenGoid, w.inHNA, w.curJob
		w.mu.Unlock()
		if g, ok := gs[lg]; ok && in && g.state == "chan receive" {
			w.mu.Lock()
			var p *resizeJob
			if j := w.jobs[cur]; j != nil {
				p = j.ptr
			}
			w.mu.Unlock()
			if p != nil {
				select {
				case p.result <- resizeJobStateAborted:
				default:
				}
			}
			busy = true
		} else if in {
			busy = true
		}
		w.snapshot()
		if !busy {
			break
		}
	}
	SetVerifHook(nil)
	done := make(chan struct{})
	go func() { w.cc.close(); close(done) }()
	select {
	case <-done:
	case <-time.After(20 * time.Second):
		w.r.Count("cleanup-left-goroutines", 1)
	}
	w.h.Close()
	os.RemoveAll(w.dir)
}

func (w *c22World) settleQuiet() map[uint64]c22G {
	for i := 0; i < 40; i++ {
		runtime.Gosched()
		time.Sleep(50 * time.Microsecond)
	}
	return c22Goroutines()
}

// ---------------------------------------------------------------- scenarios

type c22Case struct {
	Members  []string `json:"members"`
	Replicas int      `json:"replicas"`
	Hazards  []string `json:"hazards"`
	Steps    []string `json:"steps"`
	Events   []c22Ev  `json:"events"`
	Problems []string `json:"problems"`
}

var c22Hazards = []string{
	"none", "dup-success-early", "late-success", "first-error", "success-after-error", "abort-idle", "second-join-queued", "leave-while-resizing",
	"error-after-error", "late-error-after-done", "late-error-after-abort", "unknown-job-success", "unknown-job-error",
	"abort-running", "abort-in-window", "dup-success-in-window", "send-failure", "send-failure-then-join",
	"abort-vs-completion-in-job-mutex",
}

// c22Run executes one scenario. hazard selects the hostile event; pos picks
// where in the completion order it is injected.
func c22Run(r *vk.Run, id string, rng *vk.Rand, hazard string, action string, n int) {
	replicas := 1 + rng.Intn(2)
	if action == resizeJobActionRemove {
		replicas = 2
	}
	members := vcGenIDs(rng, n)
	w := c22NewWorld(r, id, members, replicas)
	defer w.cleanup()
	w.hazards = []string{hazard}
	w.action = action
	r.Cover("hazard:" + hazard)
	r.Cover("action:" + action)
	r.Cover(fmt.Sprintf("nodes:%d", n))

	newID := "zz-new-" + fmt.Sprint(rng.Intn(100))
	if rng.Bool() {
		newID = "\x01new-" + fmt.Sprint(rng.Intn(100))
	}
	if hazard == "send-failure" || hazard == "send-failure-then-join" {
		w.failSend[newID] = true
		for _, m := range members[1:] {
			if rng.Bool() {
				w.failSend[m] = true
			}
		}
	}
	if hazard == "abort-idle" {
		w.abort()
		w.checkpoint()
	}
	armed := hazard == "abort-in-window" || hazard == "dup-success-in-window"
	if armed {
		w.mu.Lock()
		w.gateArmed = true
		w.gateReached = make(chan struct{})
		w.gateRelease = make(chan struct{})
		w.mu.Unlock()
	}
	// start the resize
	if action == resizeJobActionAdd {
		w.join(newID)
	} else {
		victim := members[1+rng.Intn(n-1)]
		if err := w.leave(victim); err != nil {
			// refused up front (e.g. not enough replicas): nothing to drive
			r.Cover("leave-refused")
			w.final()
			w.report(r, id, members, replicas)
			return
		}
	}
	if hazard == "second-join-queued" {
		w.join("zz-second-" + fmt.Sprint(rng.Intn(10)))
	}
	if hazard == "leave-while-resizing" {
		w.leave(members[1+rng.Intn(n-1)])
	}
	w.checkpoint()

	// answer instructions until nothing is pending (bounded)
	injected := false
	var lastOK *c22Delivery
	firstErrDone := false
	for round := 0; round < 40; round++ {
		w.mu.Lock()
		pend := append([][2]string(nil), w.pending...)
		var cur int64
		for idj := range w.running {
			cur = idj
		}
		w.mu.Unlock()
		if len(pend) == 0 {
			break
		}
		k := rng.Intn(len(pend))
		job, _ := strconv.ParseInt(pend[k][0], 10, 64)
		node := pend[k][1]
		last := len(pend) == 1
		switch {
		case hazard == "abort-running" && !injected && (last || rng.Chance(1, 2)):
			injected = true
			w.abort()
		case hazard == "abort-vs-completion-in-job-mutex" && !injected:
			// a completion is being handled (it holds the job mutex) at the moment an abort arrives:
			// the abort takes the cluster mutex and then needs the job mutex. Both must still finish.
			injected = true
			w.mu.Lock()
			w.lockGateArmed = true
			w.lockGateReached = make(chan struct{})
			w.lockGateRelease = make(chan struct{})
			reached, release := w.lockGateReached, w.lockGateRelease
			w.mu.Unlock()
			w.deliver(job, node, "", "success (held inside the job mutex)")
			select {
			case <-reached:
				ad := w.abortAsync()
				// wait until the abort is parked on the job mutex (or already through)
				for spin := 0; spin < 4000; spin++ {
					w.mu.Lock()
					done, gid := ad.done, ad.goid
					w.mu.Unlock()
					if done {
						break
					}
					if g, ok := c22Goroutines()[gid]; ok && c22Blocked(g.state) {
						break
					}
					time.Sleep(50 * time.Microsecond)
				}
				close(release)
			case <-time.After(30 * time.Second):
				r.T.Fatalf("harness watchdog: completion never reached the job mutex in %s", id)
			}
		case hazard == "first-error" && !injected:
			injected = true
			w.deliver(job, node, "disk full", "error")
		case hazard == "success-after-error" && !injected && len(pend) >= 2:
			injected = true
			w.deliver(job, node, "disk full", "error")
		case hazard == "error-after-error" && len(pend) >= 2 && !firstErrDone:
			firstErrDone = true
			w.deliver(job, node, "disk full", "error")
		case hazard == "error-after-error" && firstErrDone && !injected:
			injected = true
			w.deliver(job, node, "no space", "second error")
		case hazard == "late-error-after-abort" && !injected && len(pend) >= 2:
			injected = true
			w.abort()
			w.checkpoint()
			w.deliver(job, node, "disk full", "error after abort")
		case hazard == "dup-success-early" && !injected && !last:
			injected = true
			w.deliver(job, node, "", "success")
			w.checkpoint()
			w.deliver(job, node, "", "duplicate success")
		case (hazard == "unknown-job-success" || hazard == "unknown-job-error") && !injected:
			injected = true
			et := ""
			if hazard == "unknown-job-error" {
				et = "boom"
			}
			w.deliver(job+1+int64(rng.Intn(1000)), node, et, "unknown job")
			continue
		default:
			lastOK = w.deliver(job, node, "", "success")
		}
		if armed && last && cur != 0 {
			// the final success: handleNodeAction is now held between <-j.result and completeCurrentJob
			select {
			case <-w.gateReached:
				injected = true
				if hazard == "abort-in-window" {
					w.abort()
				} else {
					w.deliver(job, node, "", "duplicate success in window")
					w.settle()
				}
				w.mu.Lock()
				close(w.gateRelease)
				w.mu.Unlock()
			case <-time.After(30 * time.Second):
				r.T.Fatalf("harness watchdog: gate never reached in %s", id)
			}
		}
		w.checkpoint()
	}
	if armed {
		select {
		case <-w.gateReached:
			if !injected && hazard == "abort-in-window" {
				injected = true
				w.abort()
			}
			w.mu.Lock()
			select {
			case <-w.gateRelease:
			default:
				close(w.gateRelease)
			}
			w.mu.Unlock()
			w.checkpoint()
		default:
		}
	}
	// hazards that come after the job ended
	w.mu.Lock()
	var lastJob int64
	var lastNode string
	if len(w.jobOrder) > 0 {
		lastJob = w.jobOrder[0]
		for nd := range w.jobs[lastJob].instructed {
			lastNode = nd
		}
	}
	w.mu.Unlock()
	if lastNode == "" {
		lastNode = members[0]
	}
	switch hazard {
	case "late-success":
		w.deliver(lastJob, lastNode, "", "late success")
	case "late-error-after-done":
		w.deliver(lastJob, lastNode, "too late", "late error")
	case "send-failure-then-join":
		w.checkpoint()
		w.mu.Lock()
		w.failSend = map[string]bool{}
		w.mu.Unlock()
		w.join("zz-third-" + fmt.Sprint(rng.Intn(10)))
		w.checkpoint()
		for round := 0; round < 20; round++ {
			w.mu.Lock()
			pend := append([][2]string(nil), w.pending...)
			w.mu.Unlock()
			if len(pend) == 0 {
				break
			}
			job, _ := strconv.ParseInt(pend[0][0], 10, 64)
			w.deliver(job, pend[0][1], "", "success")
			w.checkpoint()
		}
	}
	_ = lastOK
	w.final()
	w.report(r, id, members, replicas)
}

func (w *c22World) report(r *vk.Run, id string, members []string, replicas int) {
	w.mu.Lock()
	fails := append([]string(nil), w.fails...)
	cs := c22Case{Members: members, Replicas: replicas, Hazards: w.hazards, Steps: append([]string(nil), w.steps...), Events: append([]c22Ev(nil), w.events...), Problems: fails}
	njobs := len(w.jobOrder)
	nd := len(w.deliveries)
	w.mu.Unlock()
	r.Eval(len(cs.Events))
	r.Distinct(vk.Hash64(cs.Steps), njobs > 0 && nd > 0)
	if njobs > 0 {
		r.Cover("job-started")
	}
	if len(cs.Events) > 60 {
		cs.Events = cs.Events[len(cs.Events)-60:]
	}
	if r.WantSample() && len(fails) == 0 {
		r.Sample(cs)
	}
	if len(fails) > 0 {
		sort.Strings(w.hazards)
		r.Fail(strings.Join(w.hazards, "+")+":"+w.action, id, strings.Join(fails, "\n"), cs)
	}
}

func TestVerifC22(t *testing.T) {
	r := vk.Start(t, "C22")
	defer r.Finish()
	defer SetVerifHook(nil)

	for _, h := range c22Hazards {
		r.Expect("hazard:" + h)
	}
	r.Expect("action:ADD", "action:REMOVE", "job-started", "nodes:2", "nodes:3", "nodes:4")

	// directed matrix: every hazard x action x cluster size
	r.Directed("matrix", func(id string) {
		k := uint64(0)
		for _, h := range c22Hazards {
			for _, a := range []string{resizeJobActionAdd, resizeJobActionRemove} {
				for n := 2; n <= 4; n++ {
					if a == resizeJobActionRemove && n < 3 {
						continue
					}
					k++
					c22Run(r, fmt.Sprintf("%s[%s/%s/%d]", id, h, a, n), vk.NewRand(vk.Mix(r.Seed, 0xC22, k)), h, a, n)
				}
			}
		}
	})

	n := r.N(400, 16000)
	if os.Getenv("VERIF_C22_RACE") != "" {
		n = r.N(120, 4800)
	}
	r.Cases("sched", n, func(i int, id string, rng *vk.Rand) {
		h := c22Hazards[rng.Intn(len(c22Hazards))]
		a := resizeJobActionAdd
		nn := 2 + rng.Intn(3)
		if rng.Chance(2, 5) {
			a = resizeJobActionRemove
			if nn < 3 {
				nn = 3
			}
		}
		c22Run(r, id, rng, h, a, nn)
	})
}
