package pilosa

// Shared helpers for the in-package cluster harnesses (C20, C21, C22).

import (
	"fmt"
	"os"
	"path/filepath"
	"sort"
	"strings"
	"sync"
	"sync/atomic"

	vk "github.com/pilosa/pilosa/internal/verifkit"
)

// vcScratch returns a fresh directory under VERIF_SCRATCH.
var vcScratchSeq int64

func vcScratch(prefix string) string {
	root := os.Getenv("VERIF_SCRATCH")
	if root == "" {
		root = os.TempDir()
	}
	d := filepath.Join(root, fmt.Sprintf("%s-%d-%d", prefix, os.Getpid(), atomic.AddInt64(&vcScratchSeq, 1)))
	if err := os.MkdirAll(d, 0o777); err != nil {
		panic(err)
	}
	return d
}

// vcGenIDs returns n distinct node IDs whose lexicographic order is unrelated
// to the order in which they are returned. Several styles so that prefixes,
// lengths, case and digits all take part in the sort.
func vcGenIDs(rng *vk.Rand, n int) []string {
	seen := map[string]bool{}
	var out []string
	style := rng.Intn(5)
	for len(out) < n {
		var id string
		switch style {
		case 0: // uuid-like hex
			id = fmt.Sprintf("%08x-%04x-%04x", uint32(rng.Uint64()), uint16(rng.Uint64()), uint16(rng.Uint64()))
		case 1: // nodeN with N of varying width: node10 < node2
			id = fmt.Sprintf("node%d", rng.Intn(120))
		case 2: // mixed case / digits / punctuation, shared prefixes
			al := "abAB01zZ-_."
			l := 1 + rng.Intn(6)
			b := make([]byte, l)
			for i := range b {
				b[i] = al[rng.Intn(len(al))]
			}
			id = string(b)
		case 3: // host:port style
			id = fmt.Sprintf("10.0.%d.%d:%d", rng.Intn(3), rng.Intn(256), 10101+rng.Intn(3))
		default: // mixture, incl. non-ASCII
			pool := []string{"a", "B", "aa", "a0", "Z", "é", "ü1", "~", "0", "00", "9", "10", "node", "Node", "nodeA", "x-1", "x-10", "x-2"}
			id = pool[rng.Intn(len(pool))]
			if rng.Chance(1, 3) {
				id += fmt.Sprint(rng.Intn(30))
			}
		}
		if id == "" || seen[id] {
			continue
		}
		seen[id] = true
		out = append(out, id)
	}
	return out
}

// vcNode returns a READY node whose URI is a distinct, valid host derived
// from the ID (NewTestURI silently falls back to localhost on invalid hosts).
func vcNode(id string) *Node {
	return &Node{ID: id, URI: NewTestURI("http", fmt.Sprintf("h%016x", vk.HashBytes([]byte(id))), 10101), State: nodeStateReady}
}

// vcPerms calls fn with every permutation of 0..n-1 (Heap's algorithm,
// deterministic order). fn must not keep p.
func vcPerms(n int, fn func(p []int)) {
	p := make([]int, n)
	for i := range p {
		p[i] = i
	}
	var rec func(k int)
	rec = func(k int) {
		if k <= 1 {
			fn(p)
			return
		}
		for i := 0; i < k-1; i++ {
			rec(k - 1)
			if k%2 == 0 {
				p[i], p[k-1] = p[k-1], p[i]
			} else {
				p[0], p[k-1] = p[k-1], p[0]
			}
		}
		rec(k - 1)
	}
	rec(n)
}

func vcSortedCopy(ids []string) []string {
	out := append([]string(nil), ids...)
	sort.Strings(out)
	return out
}

func vcNodeIDs(nodes []*Node) []string {
	out := make([]string, len(nodes))
	for i, n := range nodes {
		if n == nil {
			out[i] = "<nil>"
		} else {
			out[i] = n.ID
		}
	}
	return out
}

func vcSetKey(ids []string) string { return strings.Join(vcSortedCopy(ids), "\x00") }

func vcContains(ids []string, id string) bool {
	for _, x := range ids {
		if x == id {
			return true
		}
	}
	return false
}

// vcNopBroadcaster accepts every message.
type vcNopBroadcaster struct{}

func (vcNopBroadcaster) SendSync(Message) error      { return nil }
func (vcNopBroadcaster) SendAsync(Message) error     { return nil }
func (vcNopBroadcaster) SendTo(*Node, Message) error { return nil }

// vcSharedHolder is an unopened holder used by follower clusters that only
// need holder.setPrimaryTranslateStore to work; its translate-file event
// channel is drained for the life of the process so that the goroutines
// spawned by SetPrimaryStore do not pile up.
var (
	vcSharedHolderOnce sync.Once
	vcSharedHolderV    *Holder
)

func vcSharedHolder() *Holder {
	vcSharedHolderOnce.Do(func() {
		h := NewHolder()
		vcSharedHolderV = h
		go func() {
			for range h.translateFile.primaryStoreEvents {
			}
		}()
	})
	return vcSharedHolderV
}
