package pilosa_test

// C03 (API leg) — query results are isolated values. *Row results of API.Query
// (Row, Union, Intersect, Difference, Xor, Not, time ranges, int conditions)
// are held by the client while the server keeps writing, snapshotting
// (MaxOpN lowered through the fragment hook), storing rows, and is finally
// reopened and closed. Every held result is fingerprinted at birth and re-read
// after every later step; reading unmapped memory kills the worker (attributed
// by the driver).

import (
	"context"
	"fmt"
	"testing"

	"github.com/pilosa/pilosa"
	vk "github.com/pilosa/pilosa/internal/verifkit"
	"github.com/pilosa/pilosa/test"
)

type c03apiHeld struct {
	q    string
	row  *pilosa.Row
	want []uint64
	born int
}

func TestVerifC03API(t *testing.T) {
	r := vk.Start(t, "C03")
	defer r.Finish()
	r.Expect("api:hold", "api:write", "api:store", "api:clearrow", "api:snapshot", "api:reopen", "api:mutate-held", "api:held-across-reopen")
	pilosa.SetVerifHook(func(name string, a, b uint64) uint64 {
		if name == "fragment.new.maxopn" {
			return 4
		}
		return 0
	})
	defer pilosa.SetVerifHook(nil)
	m := test.MustRunCommand()
	defer m.Close()
	ctx := context.Background()
	gen := 0
	queries := []string{
		"Row(f=%d)", "Union(Row(f=%d), Row(g=1))", "Intersect(Row(f=%d), Row(g=1))", "Difference(Row(f=%d), Row(g=1))", "Xor(Row(f=%d), Row(g=1))",
		"Not(Row(f=%d))", "Row(t=%d, from='2016-01-01T00:00', to='2018-01-01T00:00')", "Union(Row(f=%d), Row(v > 2))", "Row(v > %d)",
	}

	n := r.N(160, 6400)
	r.Cases("api", n, func(i int, id string, rng *vk.Rand) {
		gen++
		index := fmt.Sprintf("c03x%d", gen)
		if _, err := m.API.CreateIndex(ctx, index, pilosa.IndexOptions{TrackExistence: true}); err != nil {
			t.Fatalf("create index: %v", err)
		}
		defer func() { m.API.DeleteIndex(ctx, index) }()
		for _, f := range []string{"f", "g"} {
			if _, err := m.API.CreateField(ctx, index, f, pilosa.OptFieldTypeSet(pilosa.CacheTypeRanked, 10)); err != nil {
				t.Fatalf("create field: %v", err)
			}
		}
		if _, err := m.API.CreateField(ctx, index, "t", pilosa.OptFieldTypeTime("YMD")); err != nil {
			t.Fatal(err)
		}
		if _, err := m.API.CreateField(ctx, index, "v", pilosa.OptFieldTypeInt(-10, 100)); err != nil {
			t.Fatal(err)
		}
		var ops []string
		wit := func() interface{} { return map[string]interface{}{"sig": "crash:c03-api", "ops": ops} }
		exec := func(pq string) (pilosa.QueryResponse, bool) {
			ops = append(ops, pq)
			resp, err := m.API.Query(ctx, &pilosa.QueryRequest{Index: index, Query: pq})
			if err != nil {
				r.Fail("query-error", id, fmt.Sprintf("%s: %v", pq, err), wit())
				return resp, false
			}
			return resp, true
		}
		cols := []uint64{0, 1, 2, 65535, 65536, pilosa.ShardWidth - 1, pilosa.ShardWidth, pilosa.ShardWidth + 1, 2*pilosa.ShardWidth + 5}
		// seed data
		for k := 0; k < 10+rng.Intn(20); k++ {
			c := cols[rng.Intn(len(cols))]
			switch rng.Intn(4) {
			case 0:
				exec(fmt.Sprintf("Set(%d, f=%d)", c, rng.Intn(3)))
			case 1:
				exec(fmt.Sprintf("Set(%d, g=%d)", c, rng.Intn(2)))
			case 2:
				exec(fmt.Sprintf("Set(%d, t=%d, 2017-0%d-03T10:00)", c, rng.Intn(3), 1+rng.Intn(9)))
			case 3:
				exec(fmt.Sprintf("Set(%d, v=%d)", c, rng.Intn(50)-5))
			}
		}
		if rng.Bool() {
			// a dense row that stays a bitmap container (every other column, > 4096 of them), so that results
			// derived from it after a snapshot come from mapped storage
			req := &pilosa.ImportRequest{Index: index, Field: "f", Shard: 0}
			rowD := uint64(rng.Intn(3))
			for k := 0; k < 4097+rng.Intn(2000); k++ {
				req.RowIDs = append(req.RowIDs, rowD)
				req.ColumnIDs = append(req.ColumnIDs, uint64(2*k))
			}
			ops = append(ops, fmt.Sprintf("Import(f row %d, %d alternating columns)", rowD, len(req.RowIDs)))
			if err := m.API.Import(ctx, req); err != nil {
				r.Fail("query-error", id, "dense import: "+err.Error(), wit())
				return
			}
		}
		var held []*c03apiHeld
		check := func(stage string) bool {
			for _, h := range held {
				r.Eval(1)
				got := h.row.Columns()
				if !vk.EqualU64(got, h.want) {
					r.Fail("held-result-changed", id, fmt.Sprintf("%s: result of %s held since step %d changed: %s; got %s want %s", stage, h.q, h.born, vk.DiffU64(got, h.want), vk.Brief(got), vk.Brief(h.want)), wit())
					return false
				}
			}
			return true
		}
		reopened := false
		nsteps := 8 + rng.Intn(16)
		for step := 0; step < nsteps; step++ {
			r.InFlightDetail(id, wit())
			c := cols[rng.Intn(len(cols))]
			switch k := rng.Intn(20); {
			case k < 6:
				q := fmt.Sprintf(queries[rng.Intn(len(queries))], rng.Intn(3))
				resp, ok := exec(q)
				if !ok {
					return
				}
				row, isRow := resp.Results[0].(*pilosa.Row)
				if !isRow {
					continue
				}
				held = append(held, &c03apiHeld{q: q, row: row, want: append([]uint64(nil), row.Columns()...), born: step})
				r.Cover("api:hold")
				// the same query again must give the same answer while nothing was written (and is held too)
				resp2, ok := exec(q)
				if ok {
					if row2, isRow := resp2.Results[0].(*pilosa.Row); isRow {
						r.Eval(1)
						if !vk.EqualU64(row2.Columns(), row.Columns()) {
							r.Fail("same-query-differs", id, fmt.Sprintf("%s twice without a write in between: %v vs %v", q, vk.Brief(row.Columns()), vk.Brief(row2.Columns())), wit())
							return
						}
						held = append(held, &c03apiHeld{q: q + " (second)", row: row2, want: append([]uint64(nil), row2.Columns()...), born: step})
					}
				}
			case k < 11:
				fld := []string{"f", "g"}[rng.Intn(2)]
				if rng.Chance(2, 3) {
					exec(fmt.Sprintf("Set(%d, %s=%d)", c, fld, rng.Intn(3)))
				} else {
					exec(fmt.Sprintf("Clear(%d, %s=%d)", c, fld, rng.Intn(3)))
				}
				r.Cover("api:write")
			case k < 12:
				exec(fmt.Sprintf("Set(%d, v=%d)", c, rng.Intn(50)-5))
				r.Cover("api:write")
			case k < 14:
				exec(fmt.Sprintf("Store(Row(f=%d), f=%d)", rng.Intn(3), rng.Intn(3)))
				r.Cover("api:store")
			case k < 15:
				exec(fmt.Sprintf("ClearRow(f=%d)", rng.Intn(3)))
				r.Cover("api:clearrow")
			case k < 17:
				for _, fn := range []string{"f", "g", "t", "v"} {
					if fld := m.Server.Holder().Field(index, fn); fld != nil {
						pilosa.VerifSnapshotAll(fld)
					}
				}
				ops = append(ops, "snapshot all fragments")
				r.Cover("api:snapshot")
			case k < 18 && len(held) > 0:
				h := held[rng.Intn(len(held))]
				ops = append(ops, fmt.Sprintf("held[%s@%d].SetBit(%d)", h.q, h.born, c))
				h.row.SetBit(c)
				h.want = vk.SortedU64(append(h.want, c))
				r.Cover("api:mutate-held")
				// the stored data must not change: the same query must still answer as the server's data says
			case k < 19 && !reopened:
				ops = append(ops, "Reopen()")
				if err := m.Reopen(); err != nil {
					r.Fail("reopen-fails", id, err.Error(), wit())
					return
				}
				reopened = true
				r.Cover("api:reopen")
				if len(held) > 0 {
					r.Cover("api:held-across-reopen")
				}
			default:
				continue
			}
			r.InFlightDetail(id, wit())
			if !check(fmt.Sprintf("after step %d (%s)", step, ops[len(ops)-1])) {
				return
			}
		}
		r.Distinct(vk.Hash64("c03api", id), len(held) > 1)
		if r.WantSample() && len(held) > 1 {
			r.Sample(map[string]interface{}{"ops": ops})
		}
	})
}
