package pilosa

// C26 (forwarding leg) — forwarded queries keep their meaning.
//
// Two real executors (coordinator node0 and peer node1, each with its own
// Holder, same schema and data, mod hasher so both own shards) are wired
// together by a recording InternalQueryClient: it captures the ACTUAL
// QueryRequest.Query text executor.remoteExec sends, parses it exactly as the
// peer's API does and lets the peer executor run it with Remote=true.
//
// The coordinator's query is built as a call tree with exactly the value types
// the parser produces (int64, float64, string, bool, nil, []interface{},
// *pql.Condition, *pql.Call); Execute key-translates and validates it in place.
// Oracle: every sent text must re-parse, and the re-parsed call must equal a
// call the coordinator held (any call of the executed tree; for the TopN
// refetch the TopN call plus the ids of its first phase). Equality is
// type-exact except that integers compare by value (int64 vs uint64) and id
// lists ([]uint64, []int64, list of integers) compare by elements.

import (
	"context"
	"fmt"
	"math"
	"os"
	"path/filepath"
	"sort"
	"strings"
	"sync"
	"testing"
	"time"
	"unicode"

	vk "github.com/pilosa/pilosa/internal/verifkit"
	"github.com/pilosa/pilosa/pql"
)

var c26fHazards = []string{
	"arg-type=[]int64",            // a user-supplied ids=[...] list (validateCallArgs turns it into []int64)
	"arg-type=nil",                // null argument / != null condition
	"arg-type=float64-integral",   // float argument with an integral value (2.0)
	"arg-type=float64-exponent",   // float argument that %v prints with an exponent
	"string-non-ascii",            // string argument holding a printable non-ASCII rune
	"list-last-item=bool",         // list argument whose last item is a bool
}

type c26fModHasher struct{}

func (c26fModHasher) Hash(key uint64, n int) int { return int(key) % n }

type c26fSent struct {
	Index  string   `json:"index"`
	Query  string   `json:"query"`
	Shards []uint64 `json:"shards,omitempty"`
}

// c26fSink collects the texts sent while ONE case executes. It travels in the
// context, so a straggling goroutine of an earlier (failed) Execute can never
// record into a later case.
type c26fSink struct {
	mu     sync.Mutex
	closed bool
	sent   []c26fSent
}

type c26fSinkKey struct{}

type c26fRecorder struct {
	peer *executor
}

func (c *c26fRecorder) QueryNode(ctx context.Context, uri *URI, index string, req *QueryRequest) (*QueryResponse, error) {
	if sink, _ := ctx.Value(c26fSinkKey{}).(*c26fSink); sink != nil {
		sink.mu.Lock()
		if !sink.closed {
			sink.sent = append(sink.sent, c26fSent{Index: index, Query: req.Query, Shards: append([]uint64(nil), req.Shards...)})
		}
		sink.mu.Unlock()
	}
	// what api.Query does on the receiving node
	q, err := pql.NewParser(strings.NewReader(req.Query)).Parse()
	if err != nil {
		return nil, fmt.Errorf("peer: parsing: %v", err)
	}
	resp, err := c.peer.Execute(ctx, index, q, req.Shards, &execOptions{Remote: req.Remote})
	if err != nil {
		return nil, err
	}
	return &resp, nil
}

type c26fEnv struct {
	coord, peer *executor
	rec         *c26fRecorder
	holders     []*Holder
	rows        map[string][]uint64 // rows present per field
}

const c26fShards = 6

func c26fSetup(t *testing.T) *c26fEnv {
	root := os.Getenv("VERIF_SCRATCH")
	if root == "" {
		root = os.TempDir()
	}
	nodes := []*Node{
		{ID: "node0", URI: URI{Scheme: "http", Host: "host0", Port: 10101}},
		{ID: "node1", URI: URI{Scheme: "http", Host: "host1", Port: 10101}},
	}
	env := &c26fEnv{rows: map[string][]uint64{}}
	var execs []*executor
	for n := 0; n < 2; n++ {
		c := newCluster()
		c.ReplicaN = 1
		c.Hasher = c26fModHasher{}
		c.Path = filepath.Join(root, fmt.Sprintf("c26-cluster%d", n))
		c.Topology = newTopology()
		c.nodes = []*Node{nodes[0], nodes[1]}
		c.Node = nodes[n]
		c.Coordinator = nodes[0].ID
		c.SetState(ClusterStateNormal)

		h := NewHolder()
		h.Path = filepath.Join(root, fmt.Sprintf("c26-holder%d", n))
		if err := h.Open(); err != nil {
			t.Fatalf("open holder: %v", err)
		}
		h.translateFile.Path = filepath.Join(root, fmt.Sprintf("c26-keys%d", n))
		if err := h.translateFile.Open(); err != nil {
			t.Fatalf("open translate file: %v", err)
		}
		for _, iname := range []string{"i", "ik"} {
			idx, err := h.CreateIndex(iname, IndexOptions{Keys: iname == "ik", TrackExistence: true})
			if err != nil {
				t.Fatalf("create index: %v", err)
			}
			mk := func(name string, opts ...FieldOption) *Field {
				f, err := idx.CreateField(name, opts...)
				if err != nil {
					t.Fatalf("create field %s: %v", name, err)
				}
				return f
			}
			f := mk("f", OptFieldTypeSet(CacheTypeRanked, 1000))
			g := mk("g", OptFieldTypeSet(CacheTypeRanked, 1000))
			top := mk("top", OptFieldTypeSet(CacheTypeRanked, 1000))
			fk := mk("fk", OptFieldTypeSet(CacheTypeRanked, 1000), OptFieldKeys())
			tf := mk("t", OptFieldTypeTime(TimeQuantum("YMDH")))
			v := mk("v", OptFieldTypeInt(-1000, 1000))
			mk("b", OptFieldTypeBool())
			mk("m", OptFieldTypeMutex(CacheTypeRanked, 1000))
			for s := uint64(0); s < c26fShards; s++ {
				for k := uint64(0); k < 8; k++ {
					col := s*ShardWidth + k*3
					for row := uint64(1); row <= 6; row++ {
						if (k+row+s)%3 != 0 {
							f.SetBit(row, col, nil)
						}
						if (k*row+s)%4 != 1 {
							g.SetBit(row, col, nil)
						}
						if k < row+s%3 {
							top.SetBit(row, col, nil)
						}
						if (k+row)%2 == 0 {
							fk.SetBit(row, col, nil)
							ts := time.Date(2010+int(row), time.Month(1+k), 1+int(s), int(k), 0, 0, 0, time.UTC)
							tf.SetBit(row, col, &ts)
						}
					}
					v.SetValue(col, int64(k*100)-350+int64(s))
				}
			}
			if n == 0 {
				env.rows[iname+"/top"] = []uint64{1, 2, 3, 4, 5, 6}
			}
		}
		h.recalculateCaches()
		e := newExecutor(optExecutorWorkerPoolSize(2))
		e.Holder = h
		e.Node = nodes[n]
		e.Cluster = c
		e.TranslateStore = h.translateFile
		execs = append(execs, e)
		env.holders = append(env.holders, h)
	}
	env.coord, env.peer = execs[0], execs[1]
	env.rec = &c26fRecorder{peer: env.peer}
	env.coord.client = env.rec
	// the peer must own at least one shard of every index, and so must the coordinator
	for _, iname := range []string{"i", "ik"} {
		own := [2]int{}
		for s := uint64(0); s < c26fShards; s++ {
			for n, nd := range nodes {
				if env.coord.Cluster.ownsShard(nd.ID, iname, s) {
					own[n]++
				}
			}
		}
		if own[0] == 0 || own[1] == 0 {
			t.Fatalf("harness: index %s shard ownership %v does not exercise forwarding", iname, own)
		}
	}
	// translate the row/column keys the generator uses so that ids exist on the coordinator
	for _, iname := range []string{"i", "ik"} {
		if _, err := env.coord.TranslateStore.TranslateRowsToUint64(iname, "fk", c26fRowKeys); err != nil {
			t.Fatalf("translate: %v", err)
		}
	}
	if _, err := env.coord.TranslateStore.TranslateColumnsToUint64("ik", c26fColKeys); err != nil {
		t.Fatalf("translate: %v", err)
	}
	return env
}

var c26fRowKeys = []string{"r1", "r2", "r3", "r4", "r5", "r6", "row seven", "r\"8\"", "r\\9", "r\n10"}
var c26fColKeys = []string{"c1", "c2", "c3", "c4", "c5", "c6", "c7", "c8", "col nine", "c'10'", "c11", "c12"}

// ---- generator (builds call trees of parser-shaped values)

type c26fGen struct {
	rng    *vk.Rand
	r      *vk.Run
	hazard string
	used   bool
	index  string
	keyed  bool
}

func (g *c26fGen) i64(lo, hi int) interface{} { return int64(g.rng.Range(lo, hi)) }

func (g *c26fGen) ts() string {
	return fmt.Sprintf("%04d-%02d-%02dT%02d:%02d", 2009+g.rng.Intn(10), 1+g.rng.Intn(12), 1+g.rng.Intn(28), g.rng.Intn(24), g.rng.Intn(60))
}

func (g *c26fGen) col() interface{} {
	if g.keyed {
		return c26fColKeys[g.rng.Intn(len(c26fColKeys))]
	}
	return int64(uint64(g.rng.Intn(c26fShards))*ShardWidth + uint64(g.rng.Intn(40)))
}

func (g *c26fGen) str() string {
	n := g.rng.Intn(8)
	var rs []rune
	plain := "abcXYZ019 ,()[]=<>!:-_./'\"\\\n\t\r#"
	for i := 0; i < n; i++ {
		switch {
		case g.hazard == "string-non-ascii" && g.rng.Chance(1, 3):
			rs = append(rs, []rune{0xE9, 0x3A9, 0x4E2D, 0x20AC, 0x1F600, 0x10348}[g.rng.Intn(6)])
		case g.rng.Chance(1, 10):
			rs = append(rs, []rune{0, 0x7f, 0xA0, 0x2028, 0xFEFF, 0x1b}[g.rng.Intn(6)]) // not printable: %q escapes them
		default:
			rs = append(rs, rune(plain[g.rng.Intn(len(plain))]))
		}
	}
	if g.hazard == "string-non-ascii" && !g.used {
		rs = append(rs, []rune{0xE9, 0x4E2D, 0x1F600}[g.rng.Intn(3)])
	}
	s := string(rs)
	if g.rng.Chance(1, 12) {
		// a Go string need not be valid UTF-8 (binary / Latin-1 keys, truncated sequences): %q writes
		// such bytes as \xNN escapes, which must come back as the same single bytes
		raw := []string{"\xff", "\x80", "\xc3", "\xe4\xb8", "\xfe\xff", "a\xa0b"}[g.rng.Intn(6)]
		pos := g.rng.Intn(len(s) + 1)
		s = s[:pos] + raw + s[pos:]
		g.r.Cover("fwd-val:string-invalid-utf8")
	}
	for _, c := range s {
		if c >= 0x80 && unicode.IsPrint(c) {
			g.used = true
			g.r.Cover("fwd-val:string-non-ascii")
		}
	}
	g.r.Cover("fwd-val:string")
	return s
}

// attrValue returns a value for attribute-like arguments.
func (g *c26fGen) attrValue() interface{} {
	k := g.rng.Intn(8)
	switch g.hazard {
	case "arg-type=nil":
		if !g.used {
			k = 7
		}
	case "arg-type=float64-integral", "arg-type=float64-exponent":
		if !g.used {
			k = 6
		}
	case "string-non-ascii":
		if !g.used {
			k = 0
		}
	}
	switch k {
	case 0, 1, 2:
		return g.str()
	case 3:
		g.r.Cover("fwd-val:int")
		return []interface{}{int64(0), int64(-1), int64(math.MaxInt64), int64(math.MinInt64), int64(g.rng.Intn(100000))}[g.rng.Intn(5)]
	case 4, 5:
		g.r.Cover("fwd-val:bool")
		return g.rng.Bool()
	case 6:
		switch g.hazard {
		case "arg-type=float64-integral":
			g.used = true
			g.r.Cover("fwd-val:float-integral")
			return []float64{2, -7, 0, 1024, 123456789}[g.rng.Intn(5)]
		case "arg-type=float64-exponent":
			g.used = true
			g.r.Cover("fwd-val:float-exponent")
			return []float64{1e21, 2.5e30, 0.00001, -3.25e-7, 1.7976931348623157e308}[g.rng.Intn(5)]
		}
		g.r.Cover("fwd-val:float")
		return []float64{1.5, -0.25, 123.456, 0.1, -99999.75, 0.001}[g.rng.Intn(6)]
	}
	if g.hazard == "arg-type=nil" {
		g.used = true
		g.r.Cover("fwd-val:nil")
		return nil
	}
	g.r.Cover("fwd-val:bool")
	return true
}

// attrList returns a list argument; its last item is a bool only under that hazard.
func (g *c26fGen) attrList() []interface{} {
	var vals []interface{}
	n := 1 + g.rng.Intn(3)
	for i := 0; i < n; i++ {
		v := g.attrValue()
		if i == n-1 {
			if g.hazard == "list-last-item=bool" {
				v = g.rng.Bool()
				g.used = true
				g.r.Cover("fwd-val:list-last-bool")
			} else {
				for tries := 0; tries < 50; tries++ {
					if _, isBool := v.(bool); !isBool {
						break
					}
					v = g.attrValue()
				}
				if _, isBool := v.(bool); isBool {
					v = int64(1)
				}
			}
		}
		vals = append(vals, v)
	}
	return vals
}

func (g *c26fGen) attrArgs(c *pql.Call) {
	names := []string{"a", "bb", "cat", "x1", "name", "zz"}
	for n := 1 + g.rng.Intn(3); n > 0; n-- {
		c.Args[names[g.rng.Intn(len(names))]] = g.attrValue()
	}
}

// rowCall returns a bitmap call.
func (g *c26fGen) rowCall(depth int) *pql.Call {
	k := g.rng.Intn(12)
	if depth <= 0 && k >= 8 {
		k = g.rng.Intn(8)
	}
	if g.hazard == "arg-type=nil" && !g.used {
		k = 5
	}
	switch k {
	case 0, 1:
		return &pql.Call{Name: "Row", Args: map[string]interface{}{[]string{"f", "g", "top", "m"}[g.rng.Intn(4)]: g.i64(0, 8)}}
	case 2:
		g.r.Cover("fwd-arg:row-key")
		return &pql.Call{Name: "Row", Args: map[string]interface{}{"fk": c26fRowKeys[g.rng.Intn(len(c26fRowKeys))]}}
	case 3:
		g.r.Cover("fwd-arg:bool-row")
		return &pql.Call{Name: "Row", Args: map[string]interface{}{"b": g.rng.Bool()}}
	case 4:
		name := []string{"Row", "Range"}[g.rng.Intn(2)]
		c := &pql.Call{Name: name, Args: map[string]interface{}{"t": g.i64(1, 6)}}
		if name == "Range" || g.rng.Chance(2, 3) {
			c.Args["from"] = g.ts()
		}
		if name == "Range" || g.rng.Chance(2, 3) {
			c.Args["to"] = g.ts()
		}
		g.r.Cover("fwd-arg:time-range")
		return c
	case 5, 6:
		ops := []pql.Token{pql.GT, pql.LT, pql.GTE, pql.LTE, pql.EQ, pql.NEQ, pql.BETWEEN}
		op := ops[g.rng.Intn(len(ops))]
		var val interface{} = g.i64(-1100, 1100)
		if op == pql.BETWEEN {
			a, b := int64(g.rng.Range(-1100, 1100)), int64(g.rng.Range(-1100, 1100))
			if a > b {
				a, b = b, a
			}
			val = []interface{}{a, b}
		}
		if g.hazard == "arg-type=nil" && (!g.used || g.rng.Bool()) {
			op, val = []pql.Token{pql.NEQ, pql.EQ}[g.rng.Intn(2)], nil
			if g.rng.Chance(3, 4) {
				op = pql.NEQ
			}
			g.used = true
			g.r.Cover("fwd-val:nil")
		}
		g.r.Cover("fwd-arg:condition")
		g.r.Cover("fwd-cond:" + op.String())
		return &pql.Call{Name: []string{"Row", "Range"}[g.rng.Intn(2)], Args: map[string]interface{}{"v": &pql.Condition{Op: op, Value: val}}}
	case 7:
		return &pql.Call{Name: "Row", Args: map[string]interface{}{"f": g.i64(0, 8)}}
	case 8:
		return &pql.Call{Name: "Not", Children: []*pql.Call{g.rowCall(depth - 1)}}
	case 9:
		return &pql.Call{Name: "Shift", Args: map[string]interface{}{"n": g.i64(0, 3)}, Children: []*pql.Call{g.rowCall(depth - 1)}}
	}
	c := &pql.Call{Name: []string{"Union", "Intersect", "Difference", "Xor"}[g.rng.Intn(4)]}
	for n := 1 + g.rng.Intn(3); n > 0; n-- {
		c.Children = append(c.Children, g.rowCall(depth-1))
	}
	return c
}

func (g *c26fGen) rowsCall() *pql.Call {
	fld := []string{"f", "g", "fk", "t"}[g.rng.Intn(4)]
	c := &pql.Call{Name: "Rows", Args: map[string]interface{}{"_field": fld}}
	if g.rng.Bool() {
		c.Args["limit"] = g.i64(1, 5)
	}
	if g.rng.Chance(1, 3) {
		if fld == "fk" {
			c.Args["previous"] = c26fRowKeys[g.rng.Intn(len(c26fRowKeys))]
		} else {
			c.Args["previous"] = g.i64(0, 5)
		}
	}
	if g.rng.Chance(1, 3) {
		c.Args["column"] = g.col()
	}
	if fld == "t" && g.rng.Bool() {
		c.Args["from"] = g.ts()
		c.Args["to"] = g.ts()
	}
	return c
}

// query returns the coordinator's query.
func (g *c26fGen) query() *pql.Query {
	k := g.rng.Intn(20)
	switch g.hazard {
	case "arg-type=[]int64":
		k = 4
	case "arg-type=nil":
		k = []int{0, 1, 2, 3, 12, 13, 14}[g.rng.Intn(7)]
	case "arg-type=float64-integral", "arg-type=float64-exponent", "string-non-ascii":
		k = []int{4, 12, 13, 14}[g.rng.Intn(4)]
	case "list-last-item=bool":
		k = 4
	}
	var calls []*pql.Call
	switch k {
	case 0, 1:
		calls = append(calls, g.rowCall(2))
		g.r.Cover("fwd-call:bitmap")
	case 2:
		calls = append(calls, &pql.Call{Name: "Count", Children: []*pql.Call{g.rowCall(2)}})
		g.r.Cover("fwd-call:Count")
	case 3:
		c := &pql.Call{Name: []string{"Sum", "Min", "Max"}[g.rng.Intn(3)], Args: map[string]interface{}{"field": "v"}}
		if g.rng.Bool() || g.hazard == "arg-type=nil" {
			c.Children = []*pql.Call{g.rowCall(1)}
		}
		calls = append(calls, c)
		g.r.Cover("fwd-call:Sum/Min/Max")
	case 4, 5, 6:
		c := &pql.Call{Name: "TopN", Args: map[string]interface{}{"_field": "top"}}
		if g.rng.Chance(3, 4) {
			c.Args["n"] = g.i64(1, 5)
		}
		if g.rng.Chance(1, 3) {
			c.Children = []*pql.Call{g.rowCall(1)}
		}
		if g.hazard == "arg-type=[]int64" {
			var ids []interface{}
			for n := 1 + g.rng.Intn(4); n > 0; n-- {
				ids = append(ids, g.i64(0, 8))
			}
			c.Args["ids"] = ids
			g.used = true
			g.r.Cover("fwd-arg:ids-list")
		}
		if g.rng.Chance(1, 4) {
			c.Args["threshold"] = g.i64(0, 3)
		}
		if (g.hazard == "" && g.rng.Chance(1, 3)) || (g.hazard != "" && g.hazard != "arg-type=[]int64") {
			c.Args["attrName"] = []string{"cat", "a", "name"}[g.rng.Intn(3)]
			c.Args["attrValues"] = g.attrList()
			g.r.Cover("fwd-arg:attrValues-list")
		}
		calls = append(calls, c)
		g.r.Cover("fwd-call:TopN")
	case 7:
		calls = append(calls, g.rowsCall())
		g.r.Cover("fwd-call:Rows")
	case 8:
		c := &pql.Call{Name: "GroupBy", Args: map[string]interface{}{}}
		n := 1 + g.rng.Intn(2)
		var prev []interface{}
		for i := 0; i < n; i++ {
			fld := []string{"f", "g", "fk"}[g.rng.Intn(3)]
			c.Children = append(c.Children, &pql.Call{Name: "Rows", Args: map[string]interface{}{"_field": fld}})
			if fld == "fk" {
				prev = append(prev, c26fRowKeys[g.rng.Intn(6)])
			} else {
				prev = append(prev, g.i64(0, 4))
			}
		}
		if g.rng.Bool() {
			c.Args["limit"] = g.i64(1, 6)
		}
		if g.rng.Chance(1, 3) {
			c.Args["filter"] = g.rowCall(1)
			g.r.Cover("fwd-arg:call-value")
		}
		if g.rng.Chance(1, 3) {
			c.Args["previous"] = prev
			g.r.Cover("fwd-arg:previous-list")
		}
		calls = append(calls, c)
		g.r.Cover("fwd-call:GroupBy")
	case 9:
		c := &pql.Call{Name: "Options", Children: []*pql.Call{g.rowCall(1)}, Args: map[string]interface{}{}}
		if g.rng.Bool() {
			c.Args["columnAttrs"] = g.rng.Bool()
		}
		if g.rng.Bool() {
			c.Args["excludeColumns"] = g.rng.Bool()
		}
		if g.rng.Bool() {
			c.Args["shards"] = []interface{}{int64(g.rng.Intn(c26fShards)), int64(g.rng.Intn(c26fShards))}
		}
		calls = append(calls, c)
		g.r.Cover("fwd-call:Options")
	case 10:
		c := &pql.Call{Name: []string{"MinRow", "MaxRow"}[g.rng.Intn(2)], Args: map[string]interface{}{"field": []string{"f", "g"}[g.rng.Intn(2)]}}
		calls = append(calls, c)
		g.r.Cover("fwd-call:MinRow/MaxRow")
	case 11:
		for n := 1 + g.rng.Intn(3); n > 0; n-- {
			c := &pql.Call{Name: []string{"Set", "Set", "Clear"}[g.rng.Intn(3)], Args: map[string]interface{}{"_col": g.col()}}
			switch g.rng.Intn(5) {
			case 0:
				c.Args["fk"] = c26fRowKeys[g.rng.Intn(len(c26fRowKeys))]
			case 1:
				c.Args["t"] = g.i64(1, 6)
				if c.Name == "Set" {
					c.Args["_timestamp"] = g.ts()
					g.r.Cover("fwd-arg:set-timestamp")
				}
			case 2:
				if c.Name == "Set" {
					c.Args["v"] = g.i64(-1000, 1000)
					g.r.Cover("fwd-arg:int-field-value")
				} else {
					c.Args["g"] = g.i64(0, 8)
				}
			case 3:
				c.Args["b"] = g.rng.Bool()
			default:
				c.Args["g"] = g.i64(0, 8)
			}
			calls = append(calls, c)
		}
		g.r.Cover("fwd-call:Set/Clear")
	case 12:
		n := 1
		if g.rng.Chance(1, 3) {
			n = 2 + g.rng.Intn(2) // only SetRowAttrs calls: the bulk path forwards them in one text
			g.r.Cover("fwd-call:SetRowAttrs-bulk")
		}
		for ; n > 0; n-- {
			fld := []string{"f", "g", "fk"}[g.rng.Intn(3)]
			c := &pql.Call{Name: "SetRowAttrs", Args: map[string]interface{}{"_field": fld}}
			if fld == "fk" {
				c.Args["_row"] = c26fRowKeys[g.rng.Intn(len(c26fRowKeys))]
			} else {
				c.Args["_row"] = g.i64(0, 8)
			}
			g.attrArgs(c)
			calls = append(calls, c)
		}
		g.r.Cover("fwd-call:SetRowAttrs")
	case 13, 14:
		c := &pql.Call{Name: "SetColumnAttrs", Args: map[string]interface{}{"_col": g.col()}}
		g.attrArgs(c)
		calls = append(calls, c)
		if k == 14 {
			calls = append(calls, g.rowCall(1))
		}
		g.r.Cover("fwd-call:SetColumnAttrs")
	case 15:
		calls = append(calls, &pql.Call{Name: "ClearRow", Args: map[string]interface{}{"g": g.i64(0, 8)}})
		g.r.Cover("fwd-call:ClearRow")
	case 16:
		calls = append(calls, &pql.Call{Name: "Store", Children: []*pql.Call{g.rowCall(1)}, Args: map[string]interface{}{"g": g.i64(7, 9)}})
		g.r.Cover("fwd-call:Store")
	default:
		calls = append(calls, g.rowCall(2), &pql.Call{Name: "Count", Children: []*pql.Call{g.rowCall(1)}})
		g.r.Cover("fwd-call:bitmap")
	}
	return &pql.Query{Calls: calls}
}

// ---- comparison under the forwarding equivalence

type c26fInt struct {
	neg bool
	mag uint64
}

func c26fNorm(v interface{}) interface{} {
	switch x := v.(type) {
	case int64:
		if x < 0 {
			return c26fInt{true, uint64(-(x + 1)) + 1}
		}
		return c26fInt{false, uint64(x)}
	case uint64:
		return c26fInt{false, x}
	case int:
		return c26fNorm(int64(x))
	case []uint64:
		out := make([]interface{}, len(x))
		for i := range x {
			out[i] = c26fNorm(x[i])
		}
		return out
	case []int64:
		out := make([]interface{}, len(x))
		for i := range x {
			out[i] = c26fNorm(x[i])
		}
		return out
	case []interface{}:
		out := make([]interface{}, len(x))
		for i := range x {
			out[i] = c26fNorm(x[i])
		}
		return out
	}
	return v
}

func c26fDiff(path string, got, want interface{}) string {
	got, want = c26fNorm(got), c26fNorm(want)
	switch w := want.(type) {
	case nil:
		if got != nil {
			return fmt.Sprintf("%s: re-parsed %T(%v), held nil", path, got, got)
		}
	case bool, float64, string, c26fInt:
		if got != want {
			return fmt.Sprintf("%s: re-parsed %T(%#v), held %T(%#v)", path, got, got, want, want)
		}
	case []interface{}:
		g, ok := got.([]interface{})
		if !ok || len(g) != len(w) {
			return fmt.Sprintf("%s: re-parsed %T(%v), held list %v", path, got, got, w)
		}
		for i := range w {
			if d := c26fDiff(fmt.Sprintf("%s[%d]", path, i), g[i], w[i]); d != "" {
				return d
			}
		}
	case *pql.Condition:
		g, ok := got.(*pql.Condition)
		if !ok || g == nil {
			return fmt.Sprintf("%s: re-parsed %T(%v), held condition %v", path, got, got, w)
		}
		if g.Op != w.Op {
			return fmt.Sprintf("%s: re-parsed operator %s, held %s", path, g.Op, w.Op)
		}
		return c26fDiff(path+".cond", g.Value, w.Value)
	case *pql.Call:
		g, ok := got.(*pql.Call)
		if !ok || g == nil {
			return fmt.Sprintf("%s: re-parsed %T(%v), held call %v", path, got, got, w)
		}
		return c26fDiffCall(path, g, w)
	default:
		return fmt.Sprintf("%s: held value of unexpected type %T(%v)", path, want, want)
	}
	return ""
}

func c26fDiffCall(path string, got, want *pql.Call) string {
	if got.Name != want.Name {
		return fmt.Sprintf("%s: re-parsed call %q, held %q", path, got.Name, want.Name)
	}
	path += "/" + want.Name
	for k, w := range want.Args {
		g, ok := got.Args[k]
		if !ok {
			return fmt.Sprintf("%s: argument %q lost", path, k)
		}
		if d := c26fDiff(path+"."+k, g, w); d != "" {
			return d
		}
	}
	for k := range got.Args {
		if _, ok := want.Args[k]; !ok {
			return fmt.Sprintf("%s: argument %q appeared", path, k)
		}
	}
	if len(got.Children) != len(want.Children) {
		return fmt.Sprintf("%s: re-parsed %d children, held %d", path, len(got.Children), len(want.Children))
	}
	for i := range want.Children {
		if d := c26fDiffCall(fmt.Sprintf("%s#%d", path, i), got.Children[i], want.Children[i]); d != "" {
			return d
		}
	}
	return ""
}

func c26fTree(calls []*pql.Call, out []*pql.Call) []*pql.Call {
	for _, c := range calls {
		out = append(out, c)
		out = c26fTree(c.Children, out)
		for _, v := range c.Args {
			if cc, ok := v.(*pql.Call); ok {
				out = c26fTree([]*pql.Call{cc}, out)
			}
		}
	}
	return out
}

type c26fCase struct {
	Index  string     `json:"index"`
	Query  string     `json:"coordinator_query_as_text"`
	Held   []string   `json:"held_calls_go_syntax"`
	Hazard string     `json:"hazard,omitempty"`
	Sent   []c26fSent `json:"sent"`
	Err    string     `json:"execute_error,omitempty"`
}

func c26fGoSyntax(c *pql.Call) string {
	keys := make([]string, 0, len(c.Args))
	for k := range c.Args {
		keys = append(keys, k)
	}
	sort.Strings(keys)
	s := c.Name + "{"
	for _, k := range keys {
		v := c.Args[k]
		switch x := v.(type) {
		case *pql.Condition:
			s += fmt.Sprintf("%s: Cond(%s %T(%#v)) ", k, x.Op, x.Value, x.Value)
		case *pql.Call:
			s += fmt.Sprintf("%s: %s ", k, c26fGoSyntax(x))
		default:
			s += fmt.Sprintf("%s: %T(%#v) ", k, v, v)
		}
	}
	for _, ch := range c.Children {
		s += c26fGoSyntax(ch) + " "
	}
	return s + "}"
}

func TestVerifC26F(t *testing.T) {
	r := vk.Start(t, "C26")
	defer r.Finish()
	env := c26fSetup(t)
	// The executors and holders are deliberately not closed: goroutines of earlier mapReduce
	// rounds may still be running and executor.Close would make them panic ("send on closed
	// channel"); the driver deletes the scratch directory.

	r.Expect("fwd-call:bitmap", "fwd-call:Count", "fwd-call:Sum/Min/Max", "fwd-call:TopN", "fwd-call:Rows", "fwd-call:GroupBy", "fwd-call:Options",
		"fwd-call:MinRow/MaxRow", "fwd-call:Set/Clear", "fwd-call:SetRowAttrs", "fwd-call:SetRowAttrs-bulk", "fwd-call:SetColumnAttrs", "fwd-call:ClearRow", "fwd-call:Store",
		"fwd-arg:row-key", "fwd-arg:bool-row", "fwd-arg:time-range", "fwd-arg:condition", "fwd-arg:ids-list", "fwd-arg:attrValues-list", "fwd-arg:call-value",
		"fwd-arg:previous-list", "fwd-arg:set-timestamp", "fwd-arg:int-field-value",
		"fwd-val:string", "fwd-val:int", "fwd-val:bool", "fwd-val:float", "fwd-val:float-integral", "fwd-val:float-exponent", "fwd-val:nil", "fwd-val:string-non-ascii", "fwd-val:list-last-bool",
		"fwd-sent:topn-refetch", "fwd-sent:multi-call-text", "fwd-sent:keyed-index", "fwd-hazard:none")
	for _, op := range []pql.Token{pql.GT, pql.LT, pql.GTE, pql.LTE, pql.EQ, pql.NEQ, pql.BETWEEN} {
		r.Expect("fwd-cond:" + op.String())
	}
	for _, h := range c26fHazards {
		r.Expect("fwd-hazard:" + h)
	}

	run := func(id string, g *c26fGen, q *pql.Query) {
		sink := &c26fSink{}
		ctx := context.WithValue(context.Background(), c26fSinkKey{}, sink)
		text := q.String()
		sig := "forward:clean"
		if g.hazard != "" && g.used {
			sig = "forward:" + g.hazard
			r.Cover("fwd-hazard:" + g.hazard)
		} else {
			r.Cover("fwd-hazard:none")
		}
		var execErr error
		wit := func() interface{} {
			c := c26fCase{Index: g.index, Query: text, Hazard: g.hazard}
			for _, h := range q.Calls {
				c.Held = append(c.Held, c26fGoSyntax(h))
			}
			sink.mu.Lock()
			c.Sent = append(c.Sent, sink.sent...)
			sink.mu.Unlock()
			if execErr != nil {
				c.Err = execErr.Error()
			}
			return c
		}
		if r.Guard(func() string { return sig }, id, wit, func() {
			_, execErr = env.coord.Execute(ctx, g.index, q, nil, nil)
		}) {
			return
		}
		sink.mu.Lock()
		sink.closed = true
		sent := append([]c26fSent(nil), sink.sent...)
		sink.mu.Unlock()

		// the calls the coordinator held (translated and validated in place by Execute)
		held := c26fTree(q.Calls, nil)
		// TopN refetch: the held call plus the sorted ids of its first phase
		idx := env.coord.Holder.Index(g.index)
		for _, c := range q.Calls {
			if c.Name != "TopN" || execErr != nil {
				continue
			}
			if _, has := c.Args["ids"]; has {
				continue
			}
			pairs, err := env.coord.executeTopNShards(context.Background(), g.index, c, idx.AvailableShards().Slice(), &execOptions{})
			if err != nil || len(pairs) == 0 {
				continue
			}
			ids := Pairs(pairs).Keys()
			sort.Sort(uint64Slice(ids))
			other := c.Clone()
			other.Args["ids"] = ids
			held = append(held, other)
		}
		keys := []string{text}
		for _, s := range sent {
			keys = append(keys, s.Query)
		}
		r.Distinct(vk.Hash64(g.index, keys), len(sent) > 0)
		if r.WantSample() && len(sent) > 0 {
			r.Sample(wit())
		}
		if g.keyed && len(sent) > 0 {
			r.Cover("fwd-sent:keyed-index")
		}
		for _, s := range sent {
			r.Eval(1)
			pq, err := pql.NewParser(strings.NewReader(s.Query)).Parse()
			if err != nil {
				e := err.Error()
				if len(e) > 300 {
					e = e[:300]
				}
				r.Fail(sig, id, fmt.Sprintf("forwarded text %q does not parse on the peer: %s", s.Query, e), wit())
				continue
			}
			if len(pq.Calls) > 1 {
				r.Cover("fwd-sent:multi-call-text")
			}
			for ci, pc := range pq.Calls {
				first := ""
				ok := false
				for _, h := range held {
					if h.Name != pc.Name {
						continue
					}
					d := c26fDiffCall("sent", pc, h)
					if d == "" {
						ok = true
						if _, has := pc.Args["ids"]; has && pc.Name == "TopN" && len(sent) > 1 {
							r.Cover("fwd-sent:topn-refetch")
						}
						break
					}
					if first == "" {
						first = d
					}
				}
				if !ok {
					r.Fail(sig, id, fmt.Sprintf("forwarded text %q call %d re-parses to a call the coordinator did not hold: %s", s.Query, ci, first), wit())
				}
			}
		}
	}

	r.Directed("witnesses", func(id string) {
		mk := func(hazard, index string, calls ...*pql.Call) {
			g := &c26fGen{rng: vk.NewRand(1), r: r, hazard: hazard, used: hazard != "", index: index, keyed: index == "ik"}
			run(id, g, &pql.Query{Calls: calls})
		}
		mk("arg-type=[]int64", "i", &pql.Call{Name: "TopN", Args: map[string]interface{}{"_field": "top", "n": int64(2), "ids": []interface{}{int64(1), int64(2), int64(3)}}})
		mk("arg-type=nil", "i", &pql.Call{Name: "SetRowAttrs", Args: map[string]interface{}{"_field": "f", "_row": int64(1), "x": nil}})
		mk("arg-type=nil", "i", &pql.Call{Name: "Row", Args: map[string]interface{}{"v": &pql.Condition{Op: pql.NEQ, Value: nil}}})
		mk("arg-type=float64-integral", "i", &pql.Call{Name: "SetColumnAttrs", Args: map[string]interface{}{"_col": int64(1), "x": float64(2)}})
		mk("arg-type=float64-exponent", "i", &pql.Call{Name: "SetColumnAttrs", Args: map[string]interface{}{"_col": int64(1), "x": 0.00001}})
		mk("string-non-ascii", "i", &pql.Call{Name: "SetColumnAttrs", Args: map[string]interface{}{"_col": int64(1), "x": "é"}})
		mk("list-last-item=bool", "i", &pql.Call{Name: "TopN", Args: map[string]interface{}{"_field": "top", "n": int64(2), "attrName": "cat", "attrValues": []interface{}{int64(1), true}}})
		// clean controls
		mk("", "i", &pql.Call{Name: "TopN", Args: map[string]interface{}{"_field": "top", "n": int64(2)}})
		mk("", "ik", &pql.Call{Name: "Set", Args: map[string]interface{}{"_col": "c3", "fk": "r\"8\""}})
		mk("", "i", &pql.Call{Name: "SetColumnAttrs", Args: map[string]interface{}{"_col": int64(1), "x": "a\"b\\c\nd\x00", "y": 1.5, "z": true, "w": int64(math.MinInt64)}})
		mk("", "i", &pql.Call{Name: "Row", Args: map[string]interface{}{"v": &pql.Condition{Op: pql.BETWEEN, Value: []interface{}{int64(-5), int64(10)}}}})
	})

	n := r.N(24000, 960000)
	r.Cases("forward", n, func(i int, id string, rng *vk.Rand) {
		g := &c26fGen{rng: rng, r: r}
		if rng.Intn(100) >= 60 {
			g.hazard = c26fHazards[rng.Intn(len(c26fHazards))]
		}
		g.index = []string{"i", "ik"}[rng.Intn(2)]
		g.keyed = g.index == "ik"
		q := g.query()
		run(id, g, q)
	})
}
