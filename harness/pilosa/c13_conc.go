package pilosa_test

// C13 (concurrent leg) — "each column has at most one row set" must hold under
// any interleaving of Set calls. Several clients write different rows to the
// same few columns of a mutex (or bool) field at once; at quiescence every
// written column must hold exactly one row, and it must be a row some client
// wrote to that column.

import (
	"context"
	"fmt"
	"runtime"
	"sync"
	"testing"

	"github.com/pilosa/pilosa"
	vk "github.com/pilosa/pilosa/internal/verifkit"
	"github.com/pilosa/pilosa/test"
)

func TestVerifC13Conc(t *testing.T) {
	r := vk.Start(t, "C13")
	defer r.Finish()
	r.Expect("conc:mutex", "conc:bool", "conc:contended-column")
	m := test.MustRunCommand()
	defer m.Close()
	ctx := context.Background()
	gen := 0
	n := r.N(160, 6400)
	r.Cases("conc", n, func(i int, id string, rng *vk.Rand) {
		old := runtime.GOMAXPROCS([]int{2, 4, 8, 16}[i%4])
		defer runtime.GOMAXPROCS(old)
		gen++
		index := fmt.Sprintf("c13c%d", gen)
		if _, err := m.API.CreateIndex(ctx, index, pilosa.IndexOptions{}); err != nil {
			t.Fatal(err)
		}
		defer m.API.DeleteIndex(ctx, index)
		isBool := rng.Chance(1, 3)
		kind, nrows := "mutex", 5
		if isBool {
			kind, nrows = "bool", 2
			if _, err := m.API.CreateField(ctx, index, "x", pilosa.OptFieldTypeBool()); err != nil {
				t.Fatal(err)
			}
		} else if _, err := m.API.CreateField(ctx, index, "x", pilosa.OptFieldTypeMutex(pilosa.CacheTypeRanked, 10)); err != nil {
			t.Fatal(err)
		}
		r.Cover("conc:" + kind)
		rowLit := func(row int) string {
			if isBool {
				return []string{"false", "true"}[row]
			}
			return fmt.Sprint(row)
		}
		cols := []uint64{0, 1, 65536, pilosa.ShardWidth + 3}
		nclients := 3 + rng.Intn(6)
		nops := 20 + rng.Intn(60)
		written := make([]map[uint64]map[int]bool, nclients) // per client: col -> rows written
		var wg sync.WaitGroup
		start := make(chan struct{})
		errs := make(chan error, nclients)
		for c := 0; c < nclients; c++ {
			written[c] = map[uint64]map[int]bool{}
			crng := rng.Fork()
			wg.Add(1)
			go func(c int, rng *vk.Rand) {
				defer wg.Done()
				<-start
				for k := 0; k < nops; k++ {
					col, row := cols[rng.Intn(len(cols))], rng.Intn(nrows)
					if written[c][col] == nil {
						written[c][col] = map[int]bool{}
					}
					written[c][col][row] = true
					if _, err := m.API.Query(ctx, &pilosa.QueryRequest{Index: index, Query: fmt.Sprintf("Set(%d, x=%s)", col, rowLit(row))}); err != nil {
						errs <- err
						return
					}
				}
			}(c, crng)
		}
		close(start)
		wg.Wait()
		close(errs)
		wit := map[string]interface{}{"kind": kind, "clients": nclients, "ops_per_client": nops, "cols": cols}
		for err := range errs {
			r.Fail("conc-write-error:"+kind, id, err.Error(), wit)
			return
		}
		got := map[uint64][]int{}
		for row := 0; row < nrows; row++ {
			resp, err := m.API.Query(ctx, &pilosa.QueryRequest{Index: index, Query: fmt.Sprintf("Row(x=%s)", rowLit(row))})
			if err != nil {
				r.Fail("conc-read-error:"+kind, id, err.Error(), wit)
				return
			}
			for _, c := range resp.Results[0].(*pilosa.Row).Columns() {
				got[c] = append(got[c], row)
			}
		}
		contended := false
		for _, col := range cols {
			writers, rows := 0, map[int]bool{}
			for c := range written {
				if len(written[c][col]) > 0 {
					writers++
					for rw := range written[c][col] {
						rows[rw] = true
					}
				}
			}
			if writers == 0 {
				continue
			}
			if writers > 1 && len(rows) > 1 {
				contended = true
				r.Cover("conc:contended-column")
			}
			r.Eval(1)
			if len(got[col]) != 1 {
				r.Fail("conc-not-one-row:"+kind, id, fmt.Sprintf("after %d clients x %d concurrent Set calls, column %d holds rows %v (must be exactly one)", nclients, nops, col, got[col]), wit)
				return
			}
			if !rows[got[col][0]] {
				r.Fail("conc-row-never-written:"+kind, id, fmt.Sprintf("column %d holds row %d which nobody wrote to it", col, got[col][0]), wit)
				return
			}
		}
		r.Distinct(vk.Hash64("c13conc", id), contended)
		if r.WantSample() {
			r.Sample(wit)
		}
	})
}
