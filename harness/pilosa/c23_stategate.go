package pilosa_test

// C23 — Data and schema requests are refused while the cluster is not serving.
//
// Every exported method of *pilosa.API is enumerated by reflection and invoked
// on a real in-process server (per method: one fresh server + small dataset for
// STARTING, RESIZING, NORMAL in that order, another for DEGRADED) with the
// cluster state forced to STARTING / NORMAL / DEGRADED / RESIZING. The hook
// trace (api.validate events and holder data-touch events on the calling
// goroutine) plus the class of the returned error are the observations.

import (
	"bytes"
	"context"
	"fmt"
	"io"
	"io/ioutil"
	"os"
	"reflect"
	"runtime"
	"sort"
	"strconv"
	"strings"
	"sync"
	"testing"

	"github.com/pilosa/pilosa"
	vk "github.com/pilosa/pilosa/internal/verifkit"
	"github.com/pilosa/pilosa/roaring"
	"github.com/pilosa/pilosa/test"
)

type c23Event struct {
	Name string `json:"name"`
	A    uint64 `json:"a"`
}

type c23Case struct {
	Method string     `json:"method"`
	Class  string     `json:"class"`
	State  string     `json:"state"`
	Args   string     `json:"args"`
	Err    string     `json:"error"`
	Trace  []c23Event `json:"trace_on_calling_goroutine"`
}

func c23Goid() uint64 {
	var buf [64]byte
	n := runtime.Stack(buf[:], false)
	// "goroutine 123 ["
	f := strings.Fields(string(buf[:n]))
	if len(f) < 2 {
		return 0
	}
	id, _ := strconv.ParseUint(f[1], 10, 64)
	return id
}

type c23Recorder struct {
	mu     sync.Mutex
	goid   uint64
	events []c23Event
}

func (rec *c23Recorder) hook(name string, a, b uint64) uint64 {
	if !strings.HasPrefix(name, "api.validate.") && !strings.HasPrefix(name, "holder.") {
		return 0
	}
	g := c23Goid()
	rec.mu.Lock()
	if g == rec.goid && len(rec.events) < 200 {
		rec.events = append(rec.events, c23Event{name, a})
	}
	rec.mu.Unlock()
	return 0
}

// classes of the statement
const (
	c23Query   = "query"
	c23Import  = "import"
	c23Export  = "export"
	c23Schema  = "schema-change"
	c23AE      = "anti-entropy"
	c23Allowed = "resizing-allow-list" // cluster messages, coordinator changes, shard data transfer, resize abort
	c23Other   = "other"               // classified by behaviour (trace in NORMAL)
)

type c23Entry struct {
	class string
	// args builds the arguments (after the receiver) for a call that is valid
	// for the pre-loaded dataset; desc describes them for the witness.
	args func(env *c23Env, rng *vk.Rand) (args []interface{}, desc string)
}

type c23Env struct {
	cmd    *test.Command
	api    *pilosa.API
	ctx    context.Context
	cancel context.CancelFunc
}

func c23Roaring(vals ...uint64) []byte {
	var buf bytes.Buffer
	if _, err := roaring.NewBitmap(vals...).WriteTo(&buf); err != nil {
		panic(err)
	}
	return buf.Bytes()
}

func (env *c23Env) marshal(m pilosa.Message) []byte {
	b, err := env.api.Serializer.Marshal(m)
	if err != nil {
		panic(err)
	}
	return b
}

var c23Table = map[string]c23Entry{
	"Query": {c23Query, func(env *c23Env, rng *vk.Rand) ([]interface{}, string) {
		qs := []string{"Row(f=1)", "Count(Row(f=1))", "Set(77, f=2)", "TopN(f)", "Sum(field=v)", "Clear(3, f=1)", "Rows(field=f)", "Min(field=v)", "Union(Row(f=1), Row(f=2))"}
		q := qs[rng.Intn(len(qs))]
		return []interface{}{env.ctx, &pilosa.QueryRequest{Index: "i", Query: q}}, q
	}},
	"Import": {c23Import, func(env *c23Env, rng *vk.Rand) ([]interface{}, string) {
		sh := uint64(rng.Intn(2))
		req := &pilosa.ImportRequest{Index: "i", Field: "f", Shard: sh, RowIDs: []uint64{1, 4}, ColumnIDs: []uint64{sh*pilosa.ShardWidth + 9, sh*pilosa.ShardWidth + 10}}
		return []interface{}{env.ctx, req}, fmt.Sprintf("i/f shard %d", sh)
	}},
	"ImportValue": {c23Import, func(env *c23Env, rng *vk.Rand) ([]interface{}, string) {
		req := &pilosa.ImportValueRequest{Index: "i", Field: "v", Shard: 0, ColumnIDs: []uint64{5, 6}, Values: []int64{int64(rng.Intn(50)), -3}}
		return []interface{}{env.ctx, req}, "i/v shard 0"
	}},
	"ImportRoaring": {c23Import, func(env *c23Env, rng *vk.Rand) ([]interface{}, string) {
		req := &pilosa.ImportRoaringRequest{Views: map[string][]byte{"": c23Roaring(1, 2, pilosa.ShardWidth+3)}}
		return []interface{}{env.ctx, "i", "f", uint64(0), rng.Bool(), req}, "i/f shard 0"
	}},
	"ExportCSV": {c23Export, func(env *c23Env, rng *vk.Rand) ([]interface{}, string) {
		return []interface{}{env.ctx, "i", "f", uint64(rng.Intn(2)), io.Writer(ioutil.Discard)}, "i/f"
	}},
	"CreateIndex": {c23Schema, func(env *c23Env, rng *vk.Rand) ([]interface{}, string) {
		return []interface{}{env.ctx, "newidx", pilosa.IndexOptions{Keys: rng.Bool()}}, "newidx"
	}},
	"DeleteIndex": {c23Schema, func(env *c23Env, rng *vk.Rand) ([]interface{}, string) {
		return []interface{}{env.ctx, []string{"i", "k"}[rng.Intn(2)]}, "existing index"
	}},
	"CreateField": {c23Schema, func(env *c23Env, rng *vk.Rand) ([]interface{}, string) {
		if rng.Bool() {
			return []interface{}{env.ctx, "i", "newf", pilosa.OptFieldTypeInt(0, 10)}, "i/newf int"
		}
		return []interface{}{env.ctx, "i", "newf"}, "i/newf"
	}},
	"DeleteField": {c23Schema, func(env *c23Env, rng *vk.Rand) ([]interface{}, string) {
		return []interface{}{env.ctx, "i", []string{"f", "v"}[rng.Intn(2)]}, "existing field"
	}},
	"DeleteView": {c23Schema, func(env *c23Env, rng *vk.Rand) ([]interface{}, string) {
		return []interface{}{env.ctx, "i", "f", "standard"}, "i/f/standard"
	}},
	"DeleteAvailableShard": {c23Schema, func(env *c23Env, rng *vk.Rand) ([]interface{}, string) {
		return []interface{}{env.ctx, "i", "f", uint64(rng.Intn(2))}, "i/f"
	}},
	"ApplySchema": {c23Schema, func(env *c23Env, rng *vk.Rand) ([]interface{}, string) {
		s := &pilosa.Schema{Indexes: []*pilosa.IndexInfo{{Name: "i2", Fields: []*pilosa.FieldInfo{{Name: "f2", Options: pilosa.FieldOptions{Type: pilosa.FieldTypeSet, CacheType: pilosa.CacheTypeRanked, CacheSize: 100}}}}}}
		return []interface{}{env.ctx, s, true}, "schema with new index i2/f2, remote"
	}},
	"FragmentBlocks": {c23AE, func(env *c23Env, rng *vk.Rand) ([]interface{}, string) {
		return []interface{}{env.ctx, "i", "f", "standard", uint64(rng.Intn(2))}, "i/f/standard"
	}},
	"FragmentBlockData": {c23AE, func(env *c23Env, rng *vk.Rand) ([]interface{}, string) {
		body := env.marshal(&pilosa.BlockDataRequest{Index: "i", Field: "f", View: "standard", Shard: 0, Block: 0})
		return []interface{}{env.ctx, io.Reader(bytes.NewReader(body))}, "i/f/standard/0 block 0"
	}},
	"IndexAttrDiff": {c23AE, func(env *c23Env, rng *vk.Rand) ([]interface{}, string) {
		return []interface{}{env.ctx, "i", []pilosa.AttrBlock{}}, "i"
	}},
	"FieldAttrDiff": {c23AE, func(env *c23Env, rng *vk.Rand) ([]interface{}, string) {
		return []interface{}{env.ctx, "i", "f", []pilosa.AttrBlock{}}, "i/f"
	}},
	"ClusterMessage": {c23Allowed, func(env *c23Env, rng *vk.Rand) ([]interface{}, string) {
		var m pilosa.Message = &pilosa.RecalculateCaches{}
		desc := "RecalculateCaches"
		if rng.Bool() {
			m, desc = &pilosa.CreateShardMessage{Index: "i", Field: "f", Shard: 7}, "CreateShardMessage"
		}
		b, err := pilosa.MarshalInternalMessage(m, env.api.Serializer)
		if err != nil {
			panic(err)
		}
		return []interface{}{env.ctx, io.Reader(bytes.NewReader(b))}, desc
	}},
	"SetCoordinator": {c23Allowed, func(env *c23Env, rng *vk.Rand) ([]interface{}, string) {
		return []interface{}{env.ctx, pilosa.VerifNodeID(env.api)}, "this node"
	}},
	"FragmentData": {c23Allowed, func(env *c23Env, rng *vk.Rand) ([]interface{}, string) {
		return []interface{}{env.ctx, "i", "f", "standard", uint64(rng.Intn(2))}, "i/f/standard"
	}},
	"ResizeAbort": {c23Allowed, func(env *c23Env, rng *vk.Rand) ([]interface{}, string) { return nil, "" }},

	"Index": {c23Other, func(env *c23Env, rng *vk.Rand) ([]interface{}, string) { return []interface{}{env.ctx, "i"}, "i" }},
	"Field": {c23Other, func(env *c23Env, rng *vk.Rand) ([]interface{}, string) {
		return []interface{}{env.ctx, "i", "f"}, "i/f"
	}},
	"Views": {c23Other, func(env *c23Env, rng *vk.Rand) ([]interface{}, string) {
		return []interface{}{env.ctx, "i", "f"}, "i/f"
	}},
	"ShardNodes": {c23Other, func(env *c23Env, rng *vk.Rand) ([]interface{}, string) {
		return []interface{}{env.ctx, "i", uint64(rng.Intn(3))}, "i"
	}},
	"RecalculateCaches": {c23Other, func(env *c23Env, rng *vk.Rand) ([]interface{}, string) { return []interface{}{env.ctx}, "" }},
	"RemoveNode": {c23Other, func(env *c23Env, rng *vk.Rand) ([]interface{}, string) {
		return []interface{}{"no-such-node"}, "unknown node id"
	}},
	"Schema":                 {c23Other, func(env *c23Env, rng *vk.Rand) ([]interface{}, string) { return []interface{}{env.ctx}, "" }},
	"MaxShards":              {c23Other, func(env *c23Env, rng *vk.Rand) ([]interface{}, string) { return []interface{}{env.ctx}, "" }},
	"AvailableShardsByIndex": {c23Other, func(env *c23Env, rng *vk.Rand) ([]interface{}, string) { return []interface{}{env.ctx}, "" }},
	"Hosts":                  {c23Other, func(env *c23Env, rng *vk.Rand) ([]interface{}, string) { return []interface{}{env.ctx}, "" }},
	"Node":                   {c23Other, func(env *c23Env, rng *vk.Rand) ([]interface{}, string) { return nil, "" }},
	"State":                  {c23Other, func(env *c23Env, rng *vk.Rand) ([]interface{}, string) { return nil, "" }},
	"Version":                {c23Other, func(env *c23Env, rng *vk.Rand) ([]interface{}, string) { return nil, "" }},
	"Info":                   {c23Other, func(env *c23Env, rng *vk.Rand) ([]interface{}, string) { return nil, "" }},
	"LongQueryTime":          {c23Other, func(env *c23Env, rng *vk.Rand) ([]interface{}, string) { return nil, "" }},
	"StatsWithTags": {c23Other, func(env *c23Env, rng *vk.Rand) ([]interface{}, string) {
		return []interface{}{[]string{"a:b"}}, ""
	}},
	"GetTranslateData": {c23Other, func(env *c23Env, rng *vk.Rand) ([]interface{}, string) {
		return []interface{}{env.ctx, int64(0)}, "offset 0"
	}},
	"TranslateKeys": {c23Other, func(env *c23Env, rng *vk.Rand) ([]interface{}, string) {
		req := &pilosa.TranslateKeysRequest{Index: "k", Keys: []string{"a", "zz"}}
		if rng.Bool() {
			req.Field = "kf"
		}
		return []interface{}{io.Reader(bytes.NewReader(env.marshal(req)))}, "index k"
	}},
	"Close": {c23Other, func(env *c23Env, rng *vk.Rand) ([]interface{}, string) { return nil, "" }},
}

// order matters: the two non-serving states come first so that a server can be
// shared by STARTING, RESIZING and NORMAL (refused calls change nothing)
var c23States = []string{pilosa.ClusterStateStarting, pilosa.ClusterStateResizing, pilosa.ClusterStateNormal, pilosa.ClusterStateDegraded}

// c23NewEnv starts a server and loads the dataset (cluster NORMAL).
func c23NewEnv() *c23Env {
	cmd := test.MustRunCommand()
	api := cmd.API
	ctx, cancel := context.WithCancel(context.Background())
	must := func(err error) {
		if err != nil {
			panic(err)
		}
	}
	_, err := api.CreateIndex(ctx, "i", pilosa.IndexOptions{})
	must(err)
	_, err = api.CreateField(ctx, "i", "f", pilosa.OptFieldTypeSet(pilosa.CacheTypeRanked, 1000))
	must(err)
	_, err = api.CreateField(ctx, "i", "v", pilosa.OptFieldTypeInt(-100, 100))
	must(err)
	_, err = api.CreateIndex(ctx, "k", pilosa.IndexOptions{Keys: true})
	must(err)
	_, err = api.CreateField(ctx, "k", "kf", pilosa.OptFieldTypeSet(pilosa.CacheTypeRanked, 1000), pilosa.OptFieldKeys())
	must(err)
	_, err = api.Query(ctx, &pilosa.QueryRequest{Index: "i", Query: fmt.Sprintf("Set(1, f=1) Set(2, f=1) Set(%d, f=2) Set(1, v=10) Set(2, v=-7)", pilosa.ShardWidth+1)})
	must(err)
	_, err = api.Query(ctx, &pilosa.QueryRequest{Index: "k", Query: `Set("a", kf="x")`})
	must(err)
	return &c23Env{cmd: cmd, api: api, ctx: ctx, cancel: cancel}
}

func (env *c23Env) close(apiClosed bool) {
	env.cancel()
	if apiClosed {
		// API.Close was the method under test; Command.Close would close it twice
		env.cmd.Handler.Close()
		env.cmd.Server.Close()
		os.RemoveAll(env.cmd.Config.DataDir)
		return
	}
	env.cmd.Close()
}

type c23Obs struct {
	refused  bool
	err      error
	trace    []c23Event
	touched  bool // holder.index or holder.indexes on the calling goroutine
	named    bool // holder.index (named lookup leading to field/fragment data)
	touchPre bool // a touch before the first validate event
	validate string
	desc     string
	panicked string
}

func c23Invoke(env *c23Env, name string, e c23Entry, state string, rng *vk.Rand) (obs c23Obs) {
	args, desc := e.args(env, rng)
	obs.desc = desc
	m := reflect.ValueOf(env.api).MethodByName(name)
	in := make([]reflect.Value, len(args))
	for i, a := range args {
		in[i] = reflect.ValueOf(a)
	}
	rec := &c23Recorder{goid: c23Goid()}
	pilosa.VerifForceClusterState(env.api, state)
	pilosa.SetVerifHook(rec.hook)
	var out []reflect.Value
	func() {
		defer func() {
			if p := recover(); p != nil {
				obs.panicked = fmt.Sprint(p)
			}
		}()
		out = m.Call(in)
	}()
	pilosa.SetVerifHook(nil)
	pilosa.VerifForceClusterState(env.api, pilosa.ClusterStateNormal)
	for _, o := range out {
		if o.Type().Implements(reflect.TypeOf((*error)(nil)).Elem()) && !o.IsNil() {
			obs.err = o.Interface().(error)
		}
		if o.Kind() == reflect.Interface && !o.IsNil() {
			if c, ok := o.Interface().(io.Closer); ok && name == "GetTranslateData" {
				c.Close()
			}
		}
	}
	obs.refused = pilosa.VerifIsMethodNotAllowed(obs.err)
	rec.mu.Lock()
	obs.trace = append([]c23Event(nil), rec.events...)
	rec.mu.Unlock()
	seenValidate := false
	for _, ev := range obs.trace {
		switch {
		case strings.HasPrefix(ev.Name, "api.validate."):
			if !seenValidate {
				obs.validate = strings.TrimPrefix(ev.Name, "api.validate.") + ":" + pilosa.VerifAPIMethodName(ev.A)
			}
			seenValidate = true
		case ev.Name == "holder.index" || ev.Name == "holder.indexes":
			obs.touched = true
			if ev.Name == "holder.index" {
				obs.named = true
			}
			if !seenValidate {
				obs.touchPre = true
			}
		}
	}
	return obs
}

func TestVerifC23(t *testing.T) {
	r := vk.Start(t, "C23")
	defer r.Finish()

	typ := reflect.TypeOf((*pilosa.API)(nil))
	var methods []string
	for i := 0; i < typ.NumMethod(); i++ {
		methods = append(methods, typ.Method(i).Name)
	}
	sort.Strings(methods)
	for _, m := range methods {
		r.Expect("method:" + m)
		for _, s := range c23States {
			r.Expect("call:" + m + ":" + s)
		}
	}
	r.Note("api-methods", strings.Join(methods, ","))

	rounds := r.N(2, 80)
	r.Cases("matrix", rounds, func(i int, id string, rng *vk.Rand) {
		for _, name := range methods {
			e, ok := c23Table[name]
			if !ok {
				// a new entry point: never covered => the driver reports INCONCLUSIVE
				r.Count("method-without-argument-table:"+name, 1)
				continue
			}
			r.Cover("method:" + name)
			obs := map[string]c23Obs{}
			var env *c23Env
			closeEnv := func() {
				if env != nil {
					env.close(name == "Close")
					env = nil
				}
			}
			for _, state := range c23States {
				argRng := vk.NewRand(vk.Mix(rng.Uint64(), 1)) // same arguments are not required across states
				r.InFlightDetail(id, map[string]string{"sig": "crash:" + name + ":" + state, "method": name, "state": state})
				// fresh server for DEGRADED, for lifecycle methods, and after anything unexpected
				if state == pilosa.ClusterStateDegraded || name == "Close" {
					closeEnv()
				}
				if env == nil {
					env = c23NewEnv()
				}
				o := c23Invoke(env, name, e, state, argRng)
				serving := state == pilosa.ClusterStateNormal || state == pilosa.ClusterStateDegraded
				if o.panicked != "" || (!serving && !o.refused && e.class != c23Other && e.class != c23Allowed) {
					closeEnv()
				}
				obs[state] = o
				r.Cover("call:" + name + ":" + state)
				r.Distinct(vk.Hash64(name, state, o.desc), true)
			}
			closeEnv()
			normal, haveNormal := obs[pilosa.ClusterStateNormal]
			class := e.class
			gated := class == c23Query || class == c23Import || class == c23Export || class == c23Schema || class == c23AE
			if class == c23Other && haveNormal && normal.named {
				// classified by behaviour: it reads index/field/fragment data by name when served
				gated = true
				class = "other(touches-data)"
			}
			r.Cover("class:" + class)
			for _, state := range c23States {
				o, ok := obs[state]
				if !ok {
					continue
				}
				errs := ""
				if o.err != nil {
					errs = o.err.Error()
				}
				if o.panicked != "" {
					errs = "PANIC: " + o.panicked
					// a panic after the gate admitted the call is not a state-gate matter; it is recorded
					r.Count("panic-after-validate("+o.validate+"):"+name+":"+state, 1)
				}
				wit := c23Case{Method: name, Class: class, State: state, Args: o.desc, Err: errs, Trace: o.trace}
				serving := state == pilosa.ClusterStateNormal || state == pilosa.ClusterStateDegraded
				switch {
				case gated && !serving:
					r.Eval(2)
					if !o.refused {
						r.Fail("not-refused:"+name+":"+state, id, fmt.Sprintf("%s (%s) in state %s was not refused with the method-not-allowed error (err=%q, first validate event %q)", name, class, state, errs, o.validate), wit)
					}
					if o.touched {
						r.Fail("touched-data:"+name+":"+state, id, fmt.Sprintf("%s (%s) in state %s touched holder data (trace %v)", name, class, state, o.trace), wit)
					}
				case gated && serving:
					r.Eval(2)
					if o.refused {
						r.Fail("refused:"+name+":"+state, id, fmt.Sprintf("%s (%s) refused in state %s: %s", name, class, state, errs), wit)
					}
					if o.touchPre && o.validate != "" {
						r.Fail("touch-before-gate:"+name, id, fmt.Sprintf("%s touches holder data before consulting the state gate (trace %v)", name, o.trace), wit)
					}
					if o.err == nil && o.panicked == "" {
						r.Cover("served-ok:" + name)
					} else if !o.refused {
						r.Count("served-with-error:"+name+":"+state, 1)
					}
				case class == c23Allowed && state == pilosa.ClusterStateResizing:
					r.Eval(1)
					if o.refused {
						r.Fail("refused:"+name+":"+state, id, fmt.Sprintf("%s is on the RESIZING allow-list but was refused: %s", name, errs), wit)
					}
				default:
					// information / lifecycle / translate methods: observed, no verdict
					r.Eval(1)
					if !o.refused && !serving {
						r.Count("ungated-served:"+name+":"+state, 1)
						if o.touched {
							r.Count("ungated-lists-indexes:"+name+":"+state, 1)
						}
					}
				}
			}
			if r.WantSample() && haveNormal {
				r.Sample(c23Case{Method: name, Class: class, State: pilosa.ClusterStateNormal, Args: normal.desc, Trace: normal.trace})
			}
		}
	})
}
