package pilosa

// C12 (fragment level) — TopN reports true row counts.
// Histories on real file-backed fragments with ranked and LRU caches of size
// 1..5 and MORE rows than cache slots, writes through every path (roaring
// imports after eviction, clears that drop a row below the ranked threshold),
// then fragment.top():
//   * with explicit RowIDs (optionally a filter row and a threshold): every
//     reported count must equal |row| (or |row ∩ filter|), every requested
//     non-empty row above the threshold must be reported;
//   * unrestricted, ONLY after RecalculateCache() and ONLY asserted when the
//     number of non-empty rows <= cache size: min(n, rows) rows, the largest
//     counts, non-increasing, exact; among ties any tied row is accepted.

import (
	"testing"

	vk "github.com/pilosa/pilosa/internal/verifkit"
)

var c12Weights = []vfWeight{
	{"setBit", 10}, {"clearBit", 9}, {"setRow", 4}, {"clearRow", 4},
	{"bulkImport-set", 7}, {"bulkImport-clear", 6},
	{"importRoaring-set", 9}, {"importRoaring-clear", 7},
	{"snapshot", 1}, {"await", 1}, {"reopen", 2}, {"recalc", 3},
	{"top", 22}, {"row", 2},
}

func TestVerifC12(t *testing.T) {
	r := vk.Start(t, "C12")
	defer r.Finish()
	defer vfScratchCleanup()
	chk := vfChecks{Top: true}

	for _, ct := range []string{CacheTypeRanked, CacheTypeLRU} {
		r.Expect("read:top-ids/"+ct, "read:top-n/"+ct, "cache:"+ct)
	}
	for _, k := range []string{"setBit", "clearBit", "setRow", "clearRow", "bulkImport/set", "bulkImport/clear", "importRoaring/set", "importRoaring/clear", "reopen", "recalc"} {
		r.Expect("bigram:"+k+">top", "op:"+k)
	}
	r.Expect("top:ids-after-more-rows-than-slots", "top:n-asserted", "top:src")

	run := func(id string, cfg vfCfg, ops []vfOp) {
		vfCoverHistory(r, cfg, ops)
		is, _ := vfRun(cfg, ops, chk, r)
		nt := 0
		for i, o := range ops {
			if o.K == "top" && i > 0 {
				nt++
			}
		}
		r.Distinct(vfHashHistory(cfg, ops), nt > 0)
		if r.WantSample() {
			r.Sample(vfWitness{Cfg: cfg, Shrunk: vfOpsStrings(ops)})
		}
		if is != nil {
			vfReport(r, id, cfg, ops, chk, is)
		}
	}

	all := []uint64{0, 1, 2, 3, 99, 100, 101}
	// ---- directed: the two suspected mechanisms, for both cache types and sizes 1..3
	r.Directed("evicted-then-import", func(id string) {
		for _, ct := range []string{CacheTypeRanked, CacheTypeLRU} {
			for size := uint32(1); size <= 3; size++ {
				cfg := vfCfg{Kind: "set", CacheType: ct, CacheSize: size, MaxOpN: 10000}
				var ops []vfOp
				// rows 0..4 with decreasing counts 6..2: more rows than slots
				for row := uint64(0); row < 5; row++ {
					for c := uint64(0); c < 6-row; c++ {
						ops = append(ops, vfOp{K: "setBit", Row: row, Col: c})
					}
				}
				ops = append(ops, vfOp{K: "recalc"}, vfOp{K: "top", Rows: []uint64{0, 1, 2, 3, 4}, Enc: "plain"})
				for _, enc := range []string{"pilosa", "official"} {
					h := append([]vfOp(nil), ops...)
					h = append(h, vfOp{K: "importRoaring", Rows: []uint64{4, 4, 3}, Cols: []uint64{100, 101, 100}, Enc: enc}, vfOp{K: "top", Rows: []uint64{0, 1, 2, 3, 4}, Enc: "plain"},
						vfOp{K: "importRoaring", Rows: []uint64{0, 0, 0, 0, 0}, Cols: []uint64{0, 1, 2, 3, 4}, Enc: enc, Clear: true}, vfOp{K: "top", Rows: []uint64{0, 1, 2, 3, 4}, Enc: "plain"},
						vfOp{K: "top", Rows: []uint64{0, 4}, Enc: "src", Cols: []uint64{0, 5, 100}})
					run(id, cfg, h)
				}
				// clears that drop a cached row below the threshold
				h := append([]vfOp(nil), ops...)
				for c := uint64(0); c < 5; c++ {
					h = append(h, vfOp{K: "clearBit", Row: 0, Col: c})
				}
				h = append(h, vfOp{K: "top", Rows: []uint64{0, 1, 2}, Enc: "plain"}, vfOp{K: "bulkImport", Rows: []uint64{1, 1, 1, 1}, Cols: []uint64{0, 1, 2, 3}, Clear: true}, vfOp{K: "top", Rows: []uint64{0, 1, 2}, Enc: "plain"},
					vfOp{K: "clearRow", Row: 2}, vfOp{K: "top", Rows: []uint64{0, 1, 2, 3}, Enc: "plain"}, vfOp{K: "reopen"}, vfOp{K: "top", Rows: []uint64{0, 1, 2, 3, 4}, Enc: "plain"})
				run(id, cfg, h)
			}
		}
	})

	// a roaring import whose payload is a completely full 65536-column block of one row, landing on a
	// partly filled block of a cached row (the row's only changed container)
	r.Cases("fullblock", r.N(48, 1920), func(i int, id string, rng *vk.Rand) {
		cfg := vfGenCfg(rng, []string{"set"}, []string{CacheTypeRanked, CacheTypeLRU}, 5)
		cfg.MaxOpN = 10000
		row, block := uint64(rng.Intn(3)), uint64(rng.Intn(2))
		var h []vfOp
		for k := 0; k < 1+rng.Intn(5); k++ {
			h = append(h, vfOp{K: "setBit", Row: row, Col: block*65536 + uint64(rng.Intn(65536))})
		}
		h = append(h, vfOp{K: "setBit", Row: row + 1, Col: 3}, vfOp{K: "setBit", Row: row + 1, Col: 70000}, vfOp{K: "top", Rows: []uint64{row, row + 1}, Enc: "plain"})
		full := vfOp{K: "importRoaring", Enc: []string{"pilosa", "pilosa-opt", "official", "official-run"}[rng.Intn(4)]}
		for c := uint64(0); c < 65536; c++ {
			full.Rows = append(full.Rows, row)
			full.Cols = append(full.Cols, block*65536+c)
		}
		h = append(h, full, vfOp{K: "top", Rows: []uint64{row, row + 1}, Enc: "plain"}, vfOp{K: "recalc"}, vfOp{K: "top", Rows: []uint64{row, row + 1, row + 2}, Enc: "plain"})
		run(id, cfg, h)
	})

	// the thorough tier's witness for the incomplete repair of "recalculation never brings rows back": the ranked
	// cache's admission threshold was stale when the rows were re-added
	r.Directed("stale-threshold-witness", func(id string) {
		for _, bg := range []bool{true, false} {
			cfg := vfCfg{Kind: "set", Shard: 1, CacheType: CacheTypeRanked, CacheSize: 5, MaxOpN: 5, BG: bg}
			ops := []vfOp{
				{K: "bulkImport", Rows: []uint64{0, 1, 101, 1, 101, 99}, Cols: []uint64{1, 1, 1, 2, 2, 458753}},
				{K: "setRow", Row: 0, Cols: []uint64{0, 2, 458752, 1048575}},
				{K: "bulkImport", Rows: []uint64{99, 99, 2, 3, 0, 101, 101, 3}, Cols: []uint64{0, 0, 1, 1, 1, 65535, 65535, 65535}},
				{K: "importRoaring", Rows: []uint64{2, 101, 99, 3, 101, 3, 3}, Cols: []uint64{458753, 1048574, 1048574, 2, 458752, 1048574, 458752}, Enc: "official-run"},
				{K: "setRow", Row: 99, Cols: []uint64{458752}},
				{K: "clearRow", Row: 1},
				{K: "top", N: 7, Enc: "plain"},
			}
			run(id, cfg, ops)
		}
	})

	// a ranked cache that was over capacity (its admission threshold went up), then rows are cleared until
	// everything fits again, among it a row whose count is below the old threshold: after a recalculation the
	// unrestricted TopN must list it (the thorough tier found the repair of "recalculation never brings rows
	// back" incomplete exactly here)
	r.Cases("stale-threshold", r.N(48, 1920), func(i int, id string, rng *vk.Rand) {
		cfg := vfGenCfg(rng, []string{"set"}, []string{CacheTypeRanked}, 5)
		cfg.CacheSize = uint32(3 + rng.Intn(3))
		cfg.MaxOpN = []int{5, 100, 10000}[rng.Intn(3)]
		nrows := int(cfg.CacheSize) + 1 + rng.Intn(2)
		big := 3 + rng.Intn(3)
		var h []vfOp
		for row := 0; row < nrows; row++ {
			for k := 0; k < big; k++ {
				h = append(h, vfOp{K: "setBit", Row: uint64(row), Col: uint64(k*7 + row)})
			}
		}
		h = append(h, vfOp{K: "recalc"}, vfOp{K: "top", N: nrows + 2, Enc: "plain"})
		small := uint64(nrows)
		h = append(h, vfOp{K: "setBit", Row: small, Col: 1})
		if rng.Bool() {
			h = append(h, vfOp{K: "setBit", Row: small, Col: 70000})
		}
		// clear rows until the non-empty rows fit the cache again
		for row := 0; nrows+1-row > int(cfg.CacheSize); row++ {
			h = append(h, vfOp{K: "clearRow", Row: uint64(row)})
		}
		h = append(h, vfOp{K: "recalc"}, vfOp{K: "top", N: nrows + 2, Enc: "plain"})
		run(id, cfg, h)
	})

	n := r.N(10000, 400000)
	r.Cases("hist", n, func(i int, id string, rng *vk.Rand) {
		cfg := vfGenCfg(rng, []string{"set", "set", "mutex"}, []string{CacheTypeRanked, CacheTypeLRU}, 5) // mutex fragments: a write to one row changes another row's count
		rows := all
		if rng.Chance(1, 3) { // histories whose rows always fit: the unrestricted clause gets asserted often
			rows = all[:1+rng.Intn(int(cfg.CacheSize))]
		}
		g := newVFGen(rng.Fork(), cfg, rows, c12Weights)
		g.NoEmptySetRow = true
		run(id, cfg, g.history(6+rng.Intn(35)))
	})
}
