package pilosa_test

// C14 — Integer fields store values exactly and range queries match exactly.
// Differential monitor against a plain map[column]int64:
//   - exhaustive mode: for generated bounds (positive-only, negative-only,
//     straddling, single-value, wide) and bit depths 1..6 every representable
//     value gets its own column (plus duplicates for ties) spread over three
//     shards, written by Set / ImportValue with large->small overwrites and
//     clears; then every operator x every predicate in [min-3, max+3] and
//     +-2^31, +-2^62 is queried, so each query checks every value at once;
//   - deep mode: random values / predicates for depths 7..63;
//   - Sum/Min/Max without filter, with row filters, on all-negative data,
//     through PQL and through Field.Value/Sum/Min/Max/Range.

import (
	"context"
	"fmt"
	"os"
	"sort"
	"strings"
	"sync/atomic"
	"testing"

	"github.com/pilosa/pilosa"
	vk "github.com/pilosa/pilosa/internal/verifkit"
	"github.com/pilosa/pilosa/pql"
)

type c14Witness struct {
	Bounds  [2]int64 `json:"bounds"`
	Depth   int      `json:"target_bit_depth"`
	Mode    string   `json:"mode"`
	History string   `json:"write_history_class"`
	LowOpN  bool     `json:"lowered_max_opn"`
	Reopen  bool     `json:"restarted_before_first_write"`
	Log     []string `json:"writes"`
	Call    string   `json:"failing_call"`
}

type c14State struct {
	r      *vk.Run
	env    *esrvEnv
	rng    *vk.Rand
	id     string
	m      *mIndex
	f      *mField // the int field "v"
	ff     *mField // filter field "f"
	index  string
	mode   string
	depth  int
	cols   []uint64 // every column that may hold a value
	log    []string
	failed bool
	hi     map[uint64]uint // per column: widest magnitude (bits) ever written, clears included
	reads  bool            // a read has happened (rows may sit in the row cache)
	hist   map[string]bool // write-history classes (input predicates)
	lowOpN bool
	reopen bool
}

// history returns the write-history class of the case: the first of the
// store-corrupting input classes that applies, else "clean".
func (s *c14State) history() string {
	for _, k := range []string{"iv-narrow-overwrite", "iv-after-read"} {
		if s.hist[k] {
			return k
		}
	}
	return "clean"
}

func (s *c14State) wit(call string) c14Witness {
	lg := s.log
	if len(lg) > 400 {
		lg = lg[len(lg)-400:]
	}
	return c14Witness{Bounds: [2]int64{s.f.Min, s.f.Max}, Depth: s.depth, Mode: s.mode, History: s.history(), LowOpN: s.lowOpN, Reopen: s.reopen, Log: append([]string(nil), lg...), Call: call}
}

// fail: reads do not disturb state, so the case continues; the signature is the
// input class of the call, suffixed with the write-history class of the case.
func (s *c14State) fail(class, msg, call string) {
	sig := class
	if s.reopen && uint64(s.f.Max-s.f.Min) >= 1<<62 {
		// configuration class: after a restart the empty field stores values relative to
		// Base=Min at bit depth 63; the base arithmetic (Base -/+ 2^63) overflows
		sig = "restarted-empty-field-63-bit-range/" + strings.SplitN(class, "/", 2)[0]
	}
	if h := s.history(); h != "clean" {
		sig += "@" + h // suffix: the input class of the call stays the prefix
	}
	esrvFail(s.r, sig, s.id, msg, s.wit(call))
}

func (s *c14State) q(pql string) (interface{}, error) {
	s.r.Eval(1)
	s.reads = true
	return s.env.query1(s.index, pql)
}

// ---- writes

func (s *c14State) setQ(col uint64, v int64) {
	want := s.m.setValue(s.f, col, v, true)
	if b := mBitLen(v - s.base()); b > s.hi[col] {
		s.hi[col] = b
	}
	pq := esrvSetValuePQL(s.f, col, v)
	s.log = append(s.log, pq)
	res, err := s.env.query1(s.index, pq)
	s.r.Eval(1)
	s.r.Cover("write:Set")
	if err != nil {
		s.failed = true
		s.fail("set#unexpected-error", pq+": "+err.Error(), pq)
		return
	}
	if got, ok := res.(bool); !ok || got != want {
		s.fail("set#return", fmt.Sprintf("%s returned %v, documented result %v", pq, res, want), pq)
	}
}

// base is the offset the server stores values against: 0 for a fresh field,
// Min after a restart of a field that held no value yet.
func (s *c14State) base() int64 {
	if s.reopen {
		return s.f.Min
	}
	return 0
}

func (s *c14State) importQ(cols []uint64, vals []int64, clear bool) {
	if len(cols) == 0 {
		return
	}
	// batch depth as Field.importValue computes it
	var bd uint
	for _, v := range vals {
		if b := mBitLen(v - s.base()); b > bd {
			bd = b
		}
	}
	for i, c := range cols {
		if s.hi[c] > bd {
			s.hist["iv-narrow-overwrite"] = true // column holds bits above the batch's depth
		}
		if b := mBitLen(vals[i] - s.base()); b > s.hi[c] {
			s.hi[c] = b
		}
		if clear {
			s.m.clearValue(s.f, c)
		} else {
			s.m.setValue(s.f, c, vals[i], true)
		}
	}
	if s.reads {
		s.hist["iv-after-read"] = true // rows of the BSI view may be cached
	}
	name := "ImportValue"
	if clear {
		name = "ImportValue-clear"
	}
	s.log = append(s.log, fmt.Sprintf("%s(cols=%v vals=%v)", name, cols, vals))
	s.r.Cover("write:" + name)
	s.r.Eval(1)
	if err := s.env.importValues(s.index, "v", cols, vals, clear); err != nil {
		s.failed = true
		s.fail("importvalue#unexpected-error", name+": "+err.Error(), name)
	}
}

// ---- checks

var c14Ops = []string{"==", "!=", "<", "<=", ">", ">="}

func (s *c14State) predClass(op string, p1, p2 int64, loEq, hiEq bool) string {
	if op == "notnull" {
		return "notnull"
	}
	if op == "between" {
		n := &qNode{Op: op, P1: p1, P2: p2, LoEq: loEq, HiEq: hiEq}
		if mEmptyInterval(n) {
			return "between-empty-interval"
		}
		if s.beyond(p1) || s.beyond(p2) {
			return "between-beyond-bitdepth"
		}
		return "between"
	}
	strict := op == "<" || op == ">"
	if strict && (p1-s.base() == 0 || p1-s.base() == -1) {
		return "strict-near-zero"
	}
	if (op == "<" || op == "<=" || op == ">" || op == ">=") && s.beyond(p1) {
		return "beyond-bitdepth"
	}
	if op == "!=" && s.beyond(p1) {
		return "neq-beyond-bitdepth"
	}
	if p1 < s.f.Min || p1 > s.f.Max {
		return op + "-out-of-bounds"
	}
	return op
}

// beyond: predicate at/beyond the edge of the range representable at the
// field's current bit depth (relative to the storage base).
func (s *c14State) beyond(p int64) bool { return mBeyond(s.depthNow(), p-s.base()) }

// depthNow models the field's bit depth.
func (s *c14State) depthNow() uint {
	d := uint(0)
	if s.reopen {
		// a restarted empty field is sized for its whole range (Field.loadMeta)
		if d = mBitLen(s.f.Max - s.f.Min); d == 0 {
			d = 1
		}
	}
	for _, b := range s.hi {
		if b > d {
			d = b
		}
	}
	return d
}

func (s *c14State) checkRange(n *qNode) { s.checkRanges([]*qNode{n}) }

// checkRanges runs the range queries in batches of one request each.
func (s *c14State) checkRanges(ns []*qNode) {
	const chunk = 48
	for len(ns) > 0 {
		k := len(ns)
		if k > chunk {
			k = chunk
		}
		part := ns[:k]
		ns = ns[k:]
		pqls := make([]string, len(part))
		for i, n := range part {
			pqls[i] = n.PQL()
		}
		s.reads = true
		res, errs := s.env.queryBatch(s.index, pqls)
		for i, n := range part {
			s.r.Eval(1)
			want, _ := s.m.eval(n)
			pq := pqls[i]
			class := "range/" + s.predClass(n.Op, n.P1, n.P2, n.LoEq, n.HiEq)
			s.r.Cover("op:" + n.Op)
			if errs[i] != nil {
				s.fail(class+"#unexpected-error", pq+": "+errs[i].Error(), pq)
				continue
			}
			got, ok := esrvColumns(res[i])
			ws := want.sorted()
			if !ok || !vk.EqualU64(got, ws) {
				s.fail(class, fmt.Sprintf("%s: %s; got %s want %s; values got-not-want %s, want-not-got %s", pq, vk.DiffU64(got, ws), vk.Brief(got), vk.Brief(ws), s.valsOf(got, want, true), s.valsOf(ws, mFromSlice(got), false)), pq)
			}
		}
	}
}

// valsOf lists the model values of the columns in xs that are not in other.
func (s *c14State) valsOf(xs []uint64, other mSet, _ bool) string {
	var out []string
	for _, c := range xs {
		if _, in := other[c]; in {
			continue
		}
		if v, ok := s.f.Vals[c]; ok {
			out = append(out, fmt.Sprint(v))
		} else {
			out = append(out, "null")
		}
		if len(out) >= 8 {
			break
		}
	}
	return "[" + strings.Join(out, " ") + "]"
}

func (s *c14State) predicates() []int64 {
	big := []int64{1 << 31, -(1 << 31), 1 << 62, -(1 << 62)}
	if s.mode == "exhaustive" {
		lo, hi := s.f.Min-3, s.f.Max+3
		if hi-lo > 300 { // wide bounds: sweep around the stored values and the bounds instead
			set := map[int64]bool{}
			for _, e := range []int64{s.f.Min, s.f.Max} {
				for d := int64(-3); d <= 3; d++ {
					set[e+d] = true
				}
			}
			lim := int64(1)<<uint(s.depth) + 2
			for p := -lim; p <= lim; p++ {
				set[p] = true
			}
			var out []int64
			for p := range set {
				out = append(out, p)
			}
			sort.Slice(out, func(i, j int) bool { return out[i] < out[j] })
			return append(out, big...)
		}
		var out []int64
		for p := lo; p <= hi; p++ {
			out = append(out, p)
		}
		return append(out, big...)
	}
	// deep mode: around stored values, bounds, powers of two
	set := map[int64]bool{0: true, -1: true, 1: true}
	add := func(v int64) {
		for _, d := range []int64{-1, 0, 1} {
			if (d > 0 && v > 1<<62) || (d < 0 && v < -(1<<62)) {
				continue
			}
			set[v+d] = true
		}
	}
	for _, v := range s.f.Vals {
		add(v)
	}
	lim := int64(1)<<uint(s.depth) - 1
	add(lim)
	add(-lim)
	add(s.f.Min)
	add(s.f.Max)
	for i := 0; i < 12; i++ {
		add(s.rng.Int63()>>uint(s.rng.Intn(63)) - s.rng.Int63()>>uint(s.rng.Intn(63)))
	}
	var out []int64
	for p := range set {
		if p > -(1<<63)+2 { // keep the parser's low++/high-- adjustments away from overflow
			out = append(out, p)
		}
	}
	sort.Slice(out, func(i, j int) bool { return out[i] < out[j] })
	return append(out, big...)
}

func (s *c14State) rangeBattery() {
	preds := s.predicates()
	var ns []*qNode
	for _, p := range preds {
		for _, op := range c14Ops {
			ns = append(ns, &qNode{Kind: "rowint", Field: "v", Op: op, P1: p})
		}
	}
	ns = append(ns, &qNode{Kind: "rowint", Field: "v", Op: "notnull"})
	// between: a bounded number of pairs, all strictness combinations
	np := len(preds)
	pairs := 60
	if s.r.Thorough() {
		pairs = 120
	}
	for k := 0; k < pairs; k++ {
		a, b := preds[s.rng.Intn(np)], preds[s.rng.Intn(np)]
		if k%4 == 0 { // narrow intervals around each other
			b = a + int64(s.rng.Intn(3))
		}
		if a > b {
			a, b = b, a
		}
		n := &qNode{Kind: "rowint", Field: "v", Op: "between", P1: a, P2: b, LoEq: s.rng.Bool(), HiEq: s.rng.Bool()}
		if mEmptyInterval(n) && !s.rng.Chance(1, 4) {
			n.LoEq, n.HiEq = true, true
		}
		ns = append(ns, n)
	}
	s.checkRanges(ns)
}

type c14Agg struct{ Val, Count int64 }

// aggClass names the input class of an aggregate call.
func (s *c14State) aggClass(api, kind string, filter mSet) string {
	shards := map[uint64]bool{}
	neg, pos, negOutside := false, false, false
	for c, v := range s.f.Vals {
		if filter != nil {
			if _, in := filter[c]; !in {
				if v < 0 {
					negOutside = true
				}
				continue
			}
		}
		shards[c/mSW] = true
		if v < 0 {
			neg = true
		} else {
			pos = true
		}
	}
	if kind == "Sum" {
		if negOutside {
			return api + "-sum/filter-excludes-negative-values"
		}
		return api + "-sum/plain"
	}
	if (kind == "Min" || kind == "Max") && s.depthNow() == 0 {
		return api + "-minmax/bit-depth-0" // every stored value equals the storage base
	}
	if api == "goapi" {
		if kind == "Max" && (neg || pos) && s.m.agg(s.f, kind, filter).Val-s.base() <= 0 {
			return "goapi-max/nonpositive-maximum"
		}
		if len(shards) > 1 {
			return "goapi-minmax/multi-shard"
		}
		return "goapi-" + strings.ToLower(kind) + "/single-shard"
	}
	if len(shards) > 1 {
		want := s.m.agg(s.f, kind, filter)
		es := map[uint64]bool{}
		for c, v := range s.f.Vals {
			if filter != nil {
				if _, in := filter[c]; !in {
					continue
				}
			}
			if v == want.Val {
				es[c/mSW] = true
			}
		}
		if len(es) > 1 {
			return "pql-minmax/extreme-tied-across-shards"
		}
		return "pql-" + strings.ToLower(kind) + "/multi-shard"
	}
	return "pql-" + strings.ToLower(kind) + "/single-shard"
}

func (s *c14State) aggBattery() {
	type flt struct {
		name string
		pql  string
		set  mSet
		row  *pilosa.Row
	}
	filters := []flt{{name: "nofilter"}}
	for r := uint64(0); r <= 3; r++ {
		set := mSet{}
		for c := range s.ff.row(r) {
			set[c] = struct{}{}
		}
		filters = append(filters, flt{name: "filter", pql: fmt.Sprintf("Row(f=%d)", r), set: set, row: pilosa.NewRow(set.sorted()...)})
	}
	// a filter made of an int condition
	if len(s.f.Vals) > 0 {
		n := &qNode{Kind: "rowint", Field: "v", Op: "!=", P1: s.f.Min - 1} // out of bounds: every non-null column
		set, _ := s.m.eval(n)
		filters = append(filters, flt{name: "filter", pql: n.PQL(), set: set, row: pilosa.NewRow(set.sorted()...)})
	}
	fld := s.env.cmds[0].Server.Holder().Field(s.index, "v")
	cluster := s.env.Nodes > 1
	if cluster {
		fld = nil // the Field Go API is node-local by design; on a cluster only PQL is compared
	}
	for _, fl := range filters {
		for _, kind := range []string{"Sum", "Min", "Max"} {
			want := s.m.agg(s.f, kind, fl.set)
			if fl.set == nil {
				want = s.m.agg(s.f, kind, nil)
			}
			// PQL
			pq := fmt.Sprintf("%s(field=v)", kind)
			if fl.pql != "" {
				pq = fmt.Sprintf("%s(%s, field=v)", kind, fl.pql)
			}
			res, err := s.q(pq)
			s.r.Cover("agg:pql:" + kind + ":" + fl.name)
			class := s.aggClass("pql", kind, fl.set)
			if err != nil {
				s.fail(class+"#unexpected-error", pq+": "+err.Error(), pq)
			} else if vc, ok := res.(pilosa.ValCount); !ok || vc.Val != want.Val || vc.Count != want.Count {
				s.fail(class, fmt.Sprintf("%s: got %+v want value %d count %d", pq, res, want.Val, want.Count), pq)
			}
			// Go API
			if fld == nil {
				continue
			}
			var gv, gc int64
			var gerr error
			var row *pilosa.Row
			if fl.set != nil {
				row = fl.row
			}
			switch kind {
			case "Sum":
				gv, gc, gerr = fld.Sum(row, "v")
			case "Min":
				gv, gc, gerr = fld.Min(row, "v")
			case "Max":
				gv, gc, gerr = fld.Max(row, "v")
			}
			s.r.Eval(1)
			s.r.Cover("agg:goapi:" + kind + ":" + fl.name)
			call := fmt.Sprintf("Field.%s(%s)", kind, fl.pql)
			class = s.aggClass("goapi", kind, fl.set)
			if gerr != nil {
				s.fail(class+"#unexpected-error", call+": "+gerr.Error(), call)
			} else if gc != want.Count || (want.Count > 0 && gv != want.Val) {
				// with no column considered the returned value is meaningless (nothing is stated); only the count is compared
				s.fail(class, fmt.Sprintf("%s: got value %d count %d want value %d count %d", call, gv, gc, want.Val, want.Count), call)
			}
		}
	}
	if cluster {
		return
	}
	if fld == nil {
		s.fail("goapi#no-field", "holder.Field returned nil", "")
		return
	}
	// Field.Value for every column (written, cleared, never written)
	probe := append([]uint64(nil), s.cols...)
	probe = append(probe, 7*mSW+5, 12345)
	for _, c := range probe {
		v, ok, err := fld.Value(c)
		s.r.Eval(1)
		wv, wok := s.f.Vals[c]
		if err != nil || ok != wok || (ok && v != wv) {
			s.fail("goapi-value", fmt.Sprintf("Field.Value(%d): got (%d,%v,%v) want (%d,%v)", c, v, ok, err, wv, wok), fmt.Sprintf("Field.Value(%d)", c))
		}
	}
	s.r.Cover("goapi:Value")
	// Field.Range for in-bounds predicates
	toks := map[string]pql.Token{"==": pql.EQ, "!=": pql.NEQ, "<": pql.LT, "<=": pql.LTE, ">": pql.GT, ">=": pql.GTE}
	preds := s.predicates()
	for k := 0; k < 40; k++ {
		p := preds[s.rng.Intn(len(preds))]
		if p < s.f.Min || p > s.f.Max {
			continue // the Go API returns nil for out-of-bounds predicates; nothing is stated about that
		}
		op := c14Ops[s.rng.Intn(len(c14Ops))]
		row, err := fld.Range("v", toks[op], p)
		s.r.Eval(1)
		s.reads = true
		n := &qNode{Kind: "rowint", Field: "v", Op: op, P1: p}
		want, _ := s.m.eval(n)
		call := fmt.Sprintf("Field.Range(v %s %d)", op, p)
		class := "goapi-range/" + s.predClass(op, p, 0, false, false)
		if err != nil {
			s.fail(class+"#unexpected-error", call+": "+err.Error(), call)
			continue
		}
		var got []uint64
		if row != nil {
			got = row.Columns()
		}
		if ws := want.sorted(); !vk.EqualU64(got, ws) {
			s.fail(class, fmt.Sprintf("%s: %s; got %s want %s", call, vk.DiffU64(got, ws), vk.Brief(got), vk.Brief(ws)), call)
		}
	}
	s.r.Cover("goapi:Range")
}

func (s *c14State) battery() {
	if s.failed {
		return
	}
	s.rangeBattery()
	s.aggBattery()
}

// ---- case

func TestVerifC14(t *testing.T) {
	r := vk.Start(t, "C14")
	defer r.Finish()
	env := esrvStart(t, esrvNodes(), "n")
	defer env.Close()
	for _, o := range append(append([]string{}, c14Ops...), "between", "notnull") {
		r.Expect("op:" + o)
	}
	if env.Nodes == 1 {
		r.Expect("goapi:Value", "goapi:Range", "agg:goapi:Sum:filter", "agg:goapi:Min:nofilter", "agg:goapi:Max:nofilter")
	}
	r.Expect("write:Set", "write:ImportValue", "write:ImportValue-clear",
		"agg:pql:Sum:nofilter", "agg:pql:Min:filter", "agg:pql:Max:filter",
		"family:pos", "family:neg", "family:straddle", "family:single", "family:wide", "mode:exhaustive", "mode:deep", "data:all-negative", "data:ties")
	for d := 1; d <= 6; d++ {
		r.Expect(fmt.Sprintf("depth:%d", d))
	}

	n := r.N(110, 4400)
	r.Cases("int", n, func(i int, id string, rng *vk.Rand) {
		s := &c14State{r: r, env: env, rng: rng, id: id, hi: map[uint64]uint{}, hist: map[string]bool{}}
		// ---- bounds / depth / values
		var min, max int64
		var values []int64
		fam := []string{"pos", "neg", "straddle", "single", "wide"}[rng.Intn(5)]
		if rng.Chance(7, 10) {
			s.mode = "exhaustive"
			d := 1 + rng.Intn(6)
			// quick tier: make sure every depth is visited by the first cases of worker 0
			if i < 6 {
				d = i + 1
			}
			s.depth = d
			top := int64(1)<<uint(d) - 1
			switch fam {
			case "pos":
				min, max = int64(rng.Intn(2)*rng.Intn(4)), top+int64(rng.Intn(6))
				if min > max {
					min = max
				}
			case "neg":
				min, max = -top-int64(rng.Intn(6)), -1-int64(rng.Intn(2)*rng.Intn(3))
				if max < min {
					max = min
				}
			case "straddle":
				min, max = -1-int64(rng.Intn(int(top))), 1+int64(rng.Intn(int(top)))
				if rng.Bool() {
					min = -top
				} else {
					max = top
				}
				if rng.Chance(1, 3) {
					min, max = -top-int64(rng.Intn(4)), top+int64(rng.Intn(4))
				}
			case "single":
				v := int64(rng.Intn(int(top)+1)) * int64(1-2*rng.Intn(2))
				if rng.Chance(1, 3) {
					v = top * int64(1-2*rng.Intn(2))
				}
				min, max = v, v
			case "wide":
				w := int64(1) << uint(20+rng.Intn(42))
				min, max = -w, w
			}
			lo, hi := min, max
			if lo < -top {
				lo = -top
			}
			if hi > top {
				hi = top
			}
			for v := lo; v <= hi; v++ {
				values = append(values, v)
			}
			if len(values) == 0 {
				values = []int64{min}
			}
			r.Cover(fmt.Sprintf("depth:%d", d))
		} else {
			s.mode = "deep"
			d := 7 + rng.Intn(57)
			s.depth = d
			top := int64(1)<<uint(d) - 1
			switch fam {
			case "pos":
				min, max = 0, top
			case "neg":
				min, max = -top, -1
			case "single":
				min, max = top, top
				if rng.Bool() {
					min, max = -top, -top
				}
			default:
				min, max = -top, top
				if rng.Chance(1, 3) && d < 62 {
					min, max = -top*2, top*2
				}
			}
			nv := 8 + rng.Intn(24)
			for k := 0; k < nv; k++ {
				var v int64
				switch rng.Intn(4) {
				case 0:
					v = top - int64(rng.Intn(3))
				case 1:
					v = -(top - int64(rng.Intn(3)))
				case 2:
					v = int64(rng.Intn(5)) - 2
				default:
					v = rng.Int63()>>uint(63-d) - rng.Int63()>>uint(63-d)
				}
				if v < min {
					v = min
				}
				if v > max {
					v = max
				}
				values = append(values, v)
			}
		}
		r.Cover("family:" + fam)
		r.Cover("mode:" + s.mode)

		// ---- server objects
		s.lowOpN = rng.Chance(1, 10)
		if s.lowOpN {
			atomic.StoreUint64(&esrvMaxOpN, uint64(20+rng.Intn(200)))
			r.Cover("config:low-maxopn")
			defer atomic.StoreUint64(&esrvMaxOpN, 0)
		}
		track := rng.Bool()
		m := newMIndex(track)
		index, err := env.newIndex(track)
		if err != nil {
			t.Fatalf("create index: %v", err)
		}
		defer env.dropIndex(index)
		s.m, s.index = m, index
		s.f = m.addField(&mField{Name: "v", Type: "int", Min: min, Max: max})
		s.ff = m.addField(&mField{Name: "f", Type: "set"})
		if err := env.createField(index, s.f, "", 0); err != nil {
			t.Fatalf("create int field [%d,%d]: %v", min, max, err)
		}
		if err := env.createField(index, s.ff, "ranked", 100); err != nil {
			t.Fatalf("create field: %v", err)
		}
		if rng.Chance(1, 12) && os.Getenv("VERIF_C14_NO_REOPEN") == "" && env.Nodes == 1 {
			// restart with an int field that holds no value yet: the server then stores
			// values relative to Base = Min
			if err := env.cmds[0].Reopen(); err != nil {
				t.Fatalf("reopen: %v", err)
			}
			s.reopen = true
			r.Cover("config:restarted-empty-field")
		}

		// ---- columns: one per value over three shards, straddling a container edge, plus ties
		type tgt struct {
			col uint64
			v   int64
		}
		var tgts []tgt
		for k, v := range values {
			sh := uint64(k % 3)
			col := sh*mSW + 65530 + uint64(k/3)
			tgts = append(tgts, tgt{col, v})
			if rng.Chance(1, 4) || k == 0 || k == len(values)-1 {
				tgts = append(tgts, tgt{((sh+1)%3)*mSW + 200000 + uint64(k), v}) // tie in another shard
				r.Cover("data:ties")
				if rng.Chance(1, 3) {
					tgts = append(tgts, tgt{sh*mSW + 300000 + uint64(k), v}) // tie in the same shard
				}
			}
		}
		for _, tg := range tgts {
			s.cols = append(s.cols, tg.col)
		}
		allNeg := true
		for _, v := range values {
			if v >= 0 {
				allNeg = false
			}
		}
		if allNeg {
			r.Cover("data:all-negative")
		}
		// filter rows
		{
			var rows, cols []uint64
			for _, c := range s.cols {
				for rw := uint64(0); rw < 3; rw++ {
					if rng.Chance(1, 2) {
						rows, cols = append(rows, rw), append(cols, c)
						m.setBit(s.ff, rw, c, nil, true)
					}
				}
			}
			if err := env.importBits(index, "f", rows, cols, nil, false); err != nil {
				t.Fatalf("import filter rows: %v", err)
			}
		}

		// ---- write phase 1 (no reads yet): a first, usually wider value, then the final one
		pickOther := func() int64 { return values[rng.Intn(len(values))] }
		style := rng.Intn(3) // 0 Set only, 1 ImportValue only, 2 mixed
		write := func(ts []tgt, final bool) {
			var ic []uint64
			var iv []int64
			flush := func() {
				s.importQ(ic, iv, false)
				ic, iv = nil, nil
			}
			for _, tg := range ts {
				v := tg.v
				if !final {
					v = pickOther()
				}
				useImport := style == 1 || (style == 2 && rng.Bool())
				if useImport {
					dup := false
					for _, c := range ic {
						if c == tg.col {
							dup = true
						}
					}
					if dup {
						flush()
					}
					ic, iv = append(ic, tg.col), append(iv, v)
					if rng.Chance(1, 12) {
						flush()
					}
				} else {
					s.setQ(tg.col, v)
				}
				if s.failed {
					return
				}
			}
			flush()
		}
		order := rng.Perm(len(tgts))
		shuffled := make([]tgt, len(tgts))
		for k, o := range order {
			shuffled[k] = tgts[o]
		}
		if rng.Chance(2, 3) {
			write(shuffled[:len(shuffled)/2+1], false) // first values (to be overwritten)
		}
		// clears of some columns, then the final values
		if rng.Chance(1, 2) && len(s.f.Vals) > 0 {
			var cc []uint64
			var cv []int64
			for _, c := range s.cols {
				if v, ok := s.f.Vals[c]; ok && rng.Chance(1, 4) {
					cc, cv = append(cc, c), append(cv, v)
				}
			}
			s.importQ(cc, cv, true)
		}
		write(shuffled, true)
		// leave a few columns cleared for good
		if rng.Chance(1, 2) {
			var cc []uint64
			var cv []int64
			for _, c := range s.cols {
				if v, ok := s.f.Vals[c]; ok && rng.Chance(1, 10) {
					cc, cv = append(cc, c), append(cv, v)
				}
			}
			s.importQ(cc, cv, true)
		}
		if s.failed {
			return
		}
		s.battery()

		// ---- write phase 2 after reads: overwrite some columns (large -> small and back), then re-check
		if rng.Chance(1, 2) && !s.failed {
			style = 0 // mostly Set: ImportValue after reads is a known store-corrupting class
			if rng.Chance(1, 3) {
				style = 1 + rng.Intn(2)
			}
			k := 1 + rng.Intn(len(shuffled))
			if k > 12 {
				k = 12
			}
			var ts []tgt
			for _, tg := range shuffled[:k] {
				ts = append(ts, tgt{tg.col, pickOther()})
			}
			write(ts, true)
			r.Cover("phase:rewrite-after-read")
			s.battery()
		}
		nz := 0
		for range s.f.Vals {
			nz++
		}
		r.Distinct(vk.Hash64("c14", id), nz >= 1)
		if r.WantSample() {
			r.Sample(s.wit(""))
		}
	})
	_ = context.Background
}
