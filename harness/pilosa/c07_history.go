package pilosa

// C07 — Every shard read reflects all completed writes, whatever the write path.
// Model-based history runner on real file-backed fragments (see
// common_fragmodel.go): every write path, foreground/background snapshots and
// close/reopen, reads bit/row/rows/value/forEachBit/archive-export compared
// with the fragment model, and each write's `changed` result compared
// (setRow excepted: documented to return true always).

import (
	"testing"

	vk "github.com/pilosa/pilosa/internal/verifkit"
)

var c07Weights = []vfWeight{
	{"setBit", 10}, {"clearBit", 8}, {"setRow", 4}, {"clearRow", 4},
	{"bulkImport-set", 6}, {"bulkImport-clear", 4},
	{"importRoaring-set", 7}, {"importRoaring-clear", 5},
	{"setValue", 8}, {"importValue", 10},
	{"snapshot", 4}, {"await", 3}, {"reopen", 3},
	{"bit", 4}, {"row", 10}, {"rows", 5}, {"value", 5}, {"forEachBit", 2}, {"export", 1}, {"full", 2},
	// stir the caches the other properties look at (not compared here)
	{"blocks", 1}, {"recalc", 1},
}

func c07Rows(cfg vfCfg) []uint64 {
	switch cfg.Kind {
	case "bool":
		return []uint64{0, 1}
	case "int":
		var out []uint64
		for r := uint64(0); r <= uint64(cfg.Depth)+1; r++ {
			out = append(out, r)
		}
		return out
	}
	return vfRowsSet
}

func TestVerifC07(t *testing.T) {
	r := vk.Start(t, "C07")
	defer r.Finish()
	defer vfScratchCleanup()
	chk := vfChecks{Reads: true, Changed: true}

	for _, k := range []string{"setBit", "clearBit", "setRow", "clearRow", "bulkImport/set", "bulkImport/clear", "setValue", "importValue",
		"importRoaring/set", "importRoaring/clear", "snapshot", "await", "reopen", "row", "rows", "bit", "value", "forEachBit", "export"} {
		r.Expect("op:" + k)
	}
	r.Expect("kind-op:mutex:bulkImport/set", "kind-op:bool:bulkImport/set", "kind-op:mutex:setBit", "kind-op:int:importRoaring/set",
		"path:importValue/oplog-path", "path:importValue/snapshot-path", "snapshot:background-queue",
		"enc:pilosa", "enc:pilosa-opt", "enc:official", "enc:official-run",
		"cache:ranked", "cache:lru", "cache:none",
		"read:row", "read:rows/col", "read:rows/rows+limit", "read:value", "read:forEachBit", "read:export", "read:bit",
		"changed:setBit", "changed:clearBit", "changed:clearRow", "changed:setValue")

	run := func(id string, cfg vfCfg, ops []vfOp) {
		vfCoverHistory(r, cfg, ops)
		is, _ := vfRun(cfg, ops, chk, r)
		nw := 0
		for _, o := range ops {
			if vfIsWrite(o.K) {
				nw++
			}
		}
		r.Distinct(vfHashHistory(cfg, ops), nw >= 2)
		if r.WantSample() {
			r.Sample(vfWitness{Cfg: cfg, Shrunk: vfOpsStrings(ops)})
		}
		if is != nil {
			vfReport(r, id, cfg, ops, chk, is)
		}
	}

	// ---- directed witnesses: cross-path hazards named in the design (each a tiny history)
	r.Directed("cross-path", func(id string) {
		set := vfCfg{Kind: "set", CacheType: CacheTypeRanked, CacheSize: 2, MaxOpN: 10000}
		bsi := vfCfg{Kind: "int", CacheType: CacheTypeNone, CacheSize: 1, MaxOpN: 10000, Depth: 2}
		for _, maxOpN := range []int{1, 10000} {
			for _, bg := range []bool{false, true} {
				set.MaxOpN, set.BG, bsi.MaxOpN, bsi.BG = maxOpN, bg, maxOpN, bg
				// import after a read that froze containers; set after an import into a fresh file; read after a clear-import
				for _, enc := range []string{"pilosa", "pilosa-opt", "official", "official-run"} {
					run(id, set, []vfOp{{K: "importRoaring", Rows: []uint64{0, 0, 100}, Cols: []uint64{0, 1, vfSW - 1}, Enc: enc}, {K: "setBit", Row: 0, Col: 2}, {K: "row", Row: 0},
						{K: "importRoaring", Rows: []uint64{0}, Cols: []uint64{65535}, Enc: enc}, {K: "row", Row: 0}, {K: "row", Row: 100},
						{K: "importRoaring", Rows: []uint64{0, 100}, Cols: []uint64{0, vfSW - 1}, Enc: enc, Clear: true}, {K: "row", Row: 0}, {K: "rows", Enc: "all"}, {K: "reopen"}})
				}
				run(id, set, []vfOp{{K: "setBit", Row: 1, Col: 5}, {K: "row", Row: 1}, {K: "bulkImport", Rows: []uint64{1, 1}, Cols: []uint64{5, 6}, Clear: true}, {K: "row", Row: 1},
					{K: "setRow", Row: 1, Cols: []uint64{1, 2}}, {K: "row", Row: 1}, {K: "clearRow", Row: 1}, {K: "row", Row: 1}, {K: "setBit", Row: 1, Col: 1}, {K: "reopen"}})
				// integer paths: read rows, then write values through each path
				for _, v := range []int64{1, 2, 3, -3, 0} {
					run(id, bsi, []vfOp{{K: "full"}, {K: "importValue", Cols: []uint64{1}, Vals: []int64{v}}, {K: "full"}, {K: "setValue", Col: 1, Vals: []int64{-v}}, {K: "full"},
						{K: "importValue", Cols: []uint64{1, 2, 1}, Vals: []int64{3, 1, v}}, {K: "value", Col: 1}, {K: "reopen"}})
				}
			}
		}
	})

	n := r.N(6000, 240000)
	r.Cases("hist", n, func(i int, id string, rng *vk.Rand) {
		cfg := vfGenCfg(rng, []string{"set", "set", "int", "int", "mutex", "bool"}, []string{CacheTypeRanked, CacheTypeLRU, CacheTypeNone}, 4)
		g := newVFGen(rng.Fork(), cfg, c07Rows(cfg), c07Weights)
		ops := g.history(4 + rng.Intn(37))
		run(id, cfg, ops)
	})
}
