package pilosa

// C10 — Block checksums always reflect current block contents.
// Rides on the C07 history runner (common_fragmodel.go) with Blocks() calls
// inserted at random points, so checksums are cached BEFORE later writes.
// Oracle: checksums recomputed by the harness from the fragment model (xxhash64
// over big-endian positions per block of HashBlockSize rows), cross-checked
// against InvalidateChecksums()+Blocks() of the real code. A second workload
// drives two fragments to equal and then different contents through different
// write paths and compares their Blocks().

import (
	"bytes"
	"fmt"
	"strings"
	"testing"

	vk "github.com/pilosa/pilosa/internal/verifkit"
)

var c10Weights = []vfWeight{
	{"setBit", 8}, {"clearBit", 7}, {"setRow", 6}, {"clearRow", 6},
	{"bulkImport-set", 6}, {"bulkImport-clear", 5},
	{"importRoaring-set", 8}, {"importRoaring-clear", 6},
	{"setValue", 6}, {"importValue", 10},
	{"snapshot", 2}, {"await", 2}, {"reopen", 2},
	{"blocks", 22},
	{"row", 3}, {"rows", 1}, {"full", 1}, // reads are executed (they freeze containers, fill the row cache) but only Blocks is compared
}

func TestVerifC10(t *testing.T) {
	r := vk.Start(t, "C10")
	defer r.Finish()
	defer vfScratchCleanup()
	chk := vfChecks{Blocks: true}

	for _, k := range []string{"setBit", "clearBit", "setRow", "clearRow", "bulkImport/set", "bulkImport/clear", "setValue", "importValue",
		"importRoaring/set", "importRoaring/clear", "snapshot", "reopen"} {
		r.Expect("bigram:blocks>"+k, "bigram:"+k+">blocks")
	}
	r.Expect("read:blocks", "path:importValue/oplog-path", "path:importValue/snapshot-path", "pair:equal", "pair:differ")

	run := func(id string, cfg vfCfg, ops []vfOp) {
		vfCoverHistory(r, cfg, ops)
		is, _ := vfRun(cfg, ops, chk, r)
		nb, wb := 0, false
		for i, o := range ops {
			if o.K == "blocks" {
				nb++
			} else if vfIsWrite(o.K) && nb > 0 && i+1 < len(ops) {
				wb = true // a write after a Blocks() call
			}
		}
		r.Distinct(vfHashHistory(cfg, ops), wb)
		if r.WantSample() {
			r.Sample(vfWitness{Cfg: cfg, Shrunk: vfOpsStrings(ops)})
		}
		if is != nil {
			vfReport(r, id, cfg, ops, chk, is)
		}
	}

	// ---- directed: Blocks(), one write of each kind into an already hashed block, Blocks()
	r.Directed("cache-then-write", func(id string) {
		set := vfCfg{Kind: "set", CacheType: CacheTypeRanked, CacheSize: 4, MaxOpN: 10000}
		bsi := vfCfg{Kind: "int", CacheType: CacheTypeNone, CacheSize: 1, MaxOpN: 10000, Depth: 3}
		pre := []vfOp{{K: "setBit", Row: 1, Col: 1}, {K: "setBit", Row: 100, Col: 2}, {K: "blocks"}}
		writes := []vfOp{{K: "setBit", Row: 2, Col: 1}, {K: "clearBit", Row: 1, Col: 1}, {K: "setRow", Row: 3, Cols: []uint64{1, 2}}, {K: "setRow", Row: 1}, {K: "clearRow", Row: 1},
			{K: "bulkImport", Rows: []uint64{2, 101}, Cols: []uint64{5, 5}}, {K: "bulkImport", Rows: []uint64{1}, Cols: []uint64{1}, Clear: true}}
		for _, enc := range []string{"pilosa", "pilosa-opt", "official", "official-run"} {
			writes = append(writes, vfOp{K: "importRoaring", Rows: []uint64{2, 100}, Cols: []uint64{9, 9}, Enc: enc}, vfOp{K: "importRoaring", Rows: []uint64{1}, Cols: []uint64{1}, Enc: enc, Clear: true})
		}
		for _, w := range writes {
			run(id, set, append(append([]vfOp(nil), pre...), w, vfOp{K: "blocks"}))
		}
		for _, maxOpN := range []int{1, 10000} {
			bsi.MaxOpN = maxOpN
			run(id, bsi, []vfOp{{K: "setValue", Col: 1, Vals: []int64{5}}, {K: "blocks"}, {K: "importValue", Cols: []uint64{1, 2}, Vals: []int64{-2, 7}}, {K: "blocks"}, {K: "setValue", Col: 2, Vals: []int64{1}}, {K: "blocks"}})
		}
	})

	n := r.N(5000, 200000)
	r.Cases("hist", n, func(i int, id string, rng *vk.Rand) {
		cfg := vfGenCfg(rng, []string{"set", "set", "set", "int", "int", "mutex", "bool"}, []string{CacheTypeRanked, CacheTypeLRU, CacheTypeNone}, 4)
		g := newVFGen(rng.Fork(), cfg, c07Rows(cfg), c10Weights)
		g.NoEmptySetRow = true // the empty-Row setRow defect (C07) would make contents differ after reopen; it is covered by the directed case
		run(id, cfg, g.history(4+rng.Intn(37)))
	})

	// ---- two fragments: equal contents <=> equal checksums, whatever the paths
	np := r.N(1000, 40000)
	r.Cases("pair", np, func(i int, id string, rng *vk.Rand) {
		c10Pair(r, id, rng)
	})
}

// c10Converge emits writes (one of several paths) that turn the contents `from`
// into the contents `to`.
func c10Converge(rng *vk.Rand, from, to *vfModel, path string) []vfOp {
	var ops []vfOp
	rows := map[uint64]bool{}
	for r := range from.rows {
		rows[r] = true
	}
	for r := range to.rows {
		rows[r] = true
	}
	var setR, setC, clrR, clrC []uint64
	for _, r := range vk.SortedU64(c10KeysOf(rows)) {
		a, b := from.rowCols(r), to.rowCols(r)
		diff := false
		for _, c := range b {
			if !from.has(r, c) {
				setR, setC, diff = append(setR, r), append(setC, c), true
			}
		}
		for _, c := range a {
			if !to.has(r, c) {
				clrR, clrC, diff = append(clrR, r), append(clrC, c), true
			}
		}
		if diff && path == "setRow" {
			if len(b) == 0 && rng.Bool() {
				ops = append(ops, vfOp{K: "clearRow", Row: r})
			} else {
				ops = append(ops, vfOp{K: "setRow", Row: r, Cols: b})
			}
		}
	}
	switch path {
	case "setRow":
	case "bits":
		for i := range setR {
			ops = append(ops, vfOp{K: "setBit", Row: setR[i], Col: setC[i]})
		}
		for i := range clrR {
			ops = append(ops, vfOp{K: "clearBit", Row: clrR[i], Col: clrC[i]})
		}
	case "bulk":
		if len(setR) > 0 {
			ops = append(ops, vfOp{K: "bulkImport", Rows: setR, Cols: setC})
		}
		if len(clrR) > 0 {
			ops = append(ops, vfOp{K: "bulkImport", Rows: clrR, Cols: clrC, Clear: true})
		}
	default: // roaring encodings
		if len(setR) > 0 {
			ops = append(ops, vfOp{K: "importRoaring", Rows: setR, Cols: setC, Enc: path})
		}
		if len(clrR) > 0 {
			ops = append(ops, vfOp{K: "importRoaring", Rows: clrR, Cols: clrC, Enc: path, Clear: true})
		}
	}
	return ops
}

func c10KeysOf(m map[uint64]bool) []uint64 {
	out := make([]uint64, 0, len(m))
	for k := range m {
		out = append(out, k)
	}
	return out
}

type c10PairWitness struct {
	A, B     vfCfg
	HistA    []string `json:"history_a"`
	HistB    []string `json:"history_b"`
	Converge []string `json:"converge_b_to_a"`
	Diverge  []string `json:"diverge_b"`
}

func c10Pair(r *vk.Run, id string, rng *vk.Rand) {
	kinds := []string{"set"}
	cts := []string{CacheTypeRanked, CacheTypeLRU, CacheTypeNone}
	cfgA, cfgB := vfGenCfg(rng, kinds, cts, 4), vfGenCfg(rng, kinds, cts, 4)
	chk := vfChecks{} // the per-fragment model comparison is the "hist" workload; here only A vs B
	a, b := newVFH(cfgA, chk, nil), newVFH(cfgB, chk, nil)
	var pw []vfWeight // no reopen here: contents must stay what the completed writes made them
	for _, x := range c10Weights {
		if x.K != "reopen" {
			pw = append(pw, x)
		}
	}
	ga, gb := newVFGen(rng.Fork(), cfgA, vfRowsSet, pw), newVFGen(rng.Fork(), cfgB, vfRowsSet, pw)
	ga.NoEmptySetRow, gb.NoEmptySetRow = true, true
	histA := ga.history(3 + rng.Intn(15))
	histB := gb.history(rng.Intn(15))
	paths := []string{"bits", "bulk", "setRow", "pilosa", "pilosa-opt", "official", "official-run"}
	path := paths[rng.Intn(len(paths))]
	w := c10PairWitness{A: cfgA, B: cfgB, HistA: vfOpsStrings(histA), HistB: vfOpsStrings(histB)}
	stage := "history"
	defer a.close()
	defer b.close()
	defer func() {
		if e := recover(); e != nil {
			vfFailOnce(r, "panic->pair/"+stage, id, fmt.Sprintf("panic: %v", e), w)
		}
	}()
	if err := a.open(); err != nil {
		r.Fail("open-error", id, err.Error(), w)
		return
	}
	if err := b.open(); err != nil {
		r.Fail("open-error", id, err.Error(), w)
		return
	}
	for _, o := range histA {
		a.apply(o)
	}
	for _, o := range histB {
		b.apply(o)
	}
	a.checkBlocks("pre") // both sides now hold cached checksums
	b.checkBlocks("pre")
	stage = "converge"
	conv := c10Converge(rng, b.m, a.m, path)
	w.Converge = vfOpsStrings(conv)
	for _, o := range conv {
		b.apply(o)
	}
	cmpBlocks := func() (diffBlocks []int) {
		a.quiesce()
		b.quiesce()
		ba, bb := a.f.Blocks(), b.f.Blocks()
		i, j := 0, 0
		for i < len(ba) || j < len(bb) {
			switch {
			case j >= len(bb) || (i < len(ba) && ba[i].ID < bb[j].ID):
				diffBlocks = append(diffBlocks, ba[i].ID)
				i++
			case i >= len(ba) || ba[i].ID > bb[j].ID:
				diffBlocks = append(diffBlocks, bb[j].ID)
				j++
			default:
				if !bytes.Equal(ba[i].Checksum, bb[j].Checksum) {
					diffBlocks = append(diffBlocks, ba[i].ID)
				}
				i++
				j++
			}
		}
		return diffBlocks
	}
	nontrivial := len(conv) > 0 && a.m.count() > 0
	r.Distinct(vk.Hash64("pair", id), nontrivial)
	r.Eval(1)
	r.Cover("pair:equal")
	r.Cover("pair-path:" + path)
	// which side disagrees with the checksum of its own (model) contents?
	blame := func(blk int) string {
		ids, sums := a.m.blockChecksums()
		want := map[int][]byte{}
		for i, id := range ids {
			want[id] = sums[i]
		}
		side := func(h *vfH) bool {
			for _, fb := range h.f.Blocks() {
				if fb.ID == blk {
					return bytes.Equal(fb.Checksum, want[blk])
				}
			}
			return want[blk] == nil
		}
		if !side(a) {
			return c10Norm(a.causeOfBlock(blk)) + "(A)"
		}
		return c10Norm(b.causeOfBlock(blk)) + "(B)"
	}
	if d := cmpBlocks(); len(d) > 0 {
		vfFailOnce(r, blame(d[0])+"->pair-equal", id, fmt.Sprintf("A and B hold the same bits (B converged via %s) but Blocks() differ in blocks %v", path, d), w)
		return
	}
	// diverge: flip one bit of B through a random path
	stage = "diverge"
	row, col := vfRowsSet[rng.Intn(len(vfRowsSet))], vfCols[rng.Intn(len(vfCols))]
	target := newVFModel()
	for rr := range b.m.rows {
		for c := range b.m.rows[rr] {
			target.set(rr, c)
		}
	}
	if !target.clear(row, col) {
		target.set(row, col)
	}
	path2 := paths[rng.Intn(len(paths))]
	div := c10Converge(rng, b.m, target, path2)
	w.Diverge = vfOpsStrings(div)
	for _, o := range div {
		b.apply(o)
	}
	r.Eval(1)
	r.Cover("pair:differ")
	d := cmpBlocks()
	if blk := int(row / HashBlockSize); len(d) != 1 || d[0] != blk {
		vfFailOnce(r, c10Norm(b.causeOfBlock(blk))+"->pair-differ", id, fmt.Sprintf("B differs from A exactly in bit (row %d, col %d) of block %d (changed via %s) but Blocks() differ in blocks %v", row, col, blk, path2, d), w)
	}
}

// c10Norm drops the payload encoding from an importRoaring descriptor.
func c10Norm(cause string) string {
	if p := strings.Split(cause, "/"); p[0] == "importRoaring" && len(p) > 2 {
		return p[0] + "/" + p[1]
	}
	return cause
}
