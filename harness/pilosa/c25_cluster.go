package pilosa_test

// C25 (cluster leg) — attributes on a REAL 3-node cluster. Row and column
// attributes are written through random nodes (the executing node forwards the
// call as PQL text to every other node), with strings (quotes, escapes,
// non-ASCII), integers (negative, large), booleans, floats and null deletes, on
// ids on both sides of attribute-block boundaries. Every node must answer
// Row(f=id) / column attribute sets with exactly the merged attributes, each
// value's type preserved. Then single nodes are given attributes behind the
// cluster's back (distinct ids, and distinct keys on a shared id) and every
// node runs the anti-entropy pass (block checksums + block diff over HTTP):
// afterwards every node must hold the union.

import (
	"context"
	"fmt"
	"reflect"
	"sort"
	"strings"
	"testing"

	"github.com/pilosa/pilosa"
	vk "github.com/pilosa/pilosa/internal/verifkit"
)

func c25cVal(rng *vk.Rand) (lit string, v interface{}, class string) {
	switch rng.Intn(8) {
	case 0:
		s := []string{"x", "", "a b", "it's", `q"uote`, "ключ", "line\nbreak", `back\slash`, "true", "12", "null"}[rng.Intn(11)]
		return fmt.Sprintf("%q", s), s, "string"
	case 1:
		n := int64(rng.Intn(2000)) - 1000
		return fmt.Sprint(n), n, "int"
	case 2:
		n := []int64{0, -1, 1 << 40, -(1 << 40), 9007199254740993, 9223372036854775807}[rng.Intn(6)]
		return fmt.Sprint(n), n, "int-large"
	case 3:
		b := rng.Bool()
		return fmt.Sprint(b), b, "bool"
	case 4:
		f := []float64{0.5, -2.25, 1e3 + 0.125, 3.0625}[rng.Intn(4)]
		return fmt.Sprint(f), f, "float"
	case 5:
		return "null", nil, "null"
	}
	s := fmt.Sprintf("v%d", rng.Intn(5))
	return fmt.Sprintf("%q", s), s, "string"
}

func c25cRender(m map[string]interface{}) string {
	var ks []string
	for k := range m {
		ks = append(ks, k)
	}
	sort.Strings(ks)
	var sb strings.Builder
	for _, k := range ks {
		fmt.Fprintf(&sb, "%s=%T(%v) ", k, m[k], m[k])
	}
	return sb.String()
}

func TestVerifC25Cluster(t *testing.T) {
	r := vk.Start(t, "C25")
	defer r.Finish()
	r.Expect("cluster:row-attrs", "cluster:column-attrs", "cluster:value:string", "cluster:value:int", "cluster:value:int-large", "cluster:value:bool", "cluster:value:float", "cluster:value:null",
		"cluster:read-via-non-executing-node", "cluster:sync:distinct-ids", "cluster:sync:distinct-keys-same-id", "cluster:sync:converged")
	c := vrcStart(t, 3, 1)
	defer c.Close()
	ctx := context.Background()
	gen := 0
	ids := []uint64{0, 1, 99, 100, 101, 250}
	keys := []string{"a", "b", "c", "long_key_name"}
	n := r.N(160, 6400)
	r.Cases("cluster", n, func(i int, id string, rng *vk.Rand) {
		gen++
		index := fmt.Sprintf("c25c%d", gen)
		if _, err := c[0].API.CreateIndex(ctx, index, pilosa.IndexOptions{}); err != nil {
			t.Fatal(err)
		}
		defer c[0].API.DeleteIndex(ctx, index)
		if _, err := vrcCreateField(c[0].API, index, "f", pilosa.OptFieldTypeSet(pilosa.CacheTypeNone, 0)); err != nil {
			t.Fatal(err)
		}
		rowM := map[uint64]map[string]interface{}{}
		colM := map[uint64]map[string]interface{}{}
		var ops []string
		wit := func() interface{} { return map[string]interface{}{"ops": ops} }
		// every id in `ids` is a column with a bit in row 7, so that column attribute sets can be read
		var sb strings.Builder
		for _, col := range ids {
			fmt.Fprintf(&sb, "Set(%d, f=7) ", col)
		}
		if _, err := c[0].API.Query(ctx, &pilosa.QueryRequest{Index: index, Query: sb.String()}); err != nil {
			t.Fatal(err)
		}
		apply := func(m map[uint64]map[string]interface{}, id uint64, k string, v interface{}) {
			if m[id] == nil {
				m[id] = map[string]interface{}{}
			}
			if v == nil {
				delete(m[id], k)
			} else {
				m[id][k] = v
			}
		}
		verify := func(stage string) bool {
			for k, m := range c {
				for _, rid := range ids {
					resp, err := m.API.Query(ctx, &pilosa.QueryRequest{Index: index, Query: fmt.Sprintf("Row(f=%d)", rid)})
					r.Eval(1)
					if err != nil {
						r.FailOrUndecided("cluster:read-error", id, fmt.Sprintf("%s: node %d Row(f=%d): %v", stage, k, rid, err), wit())
						return false
					}
					got := resp.Results[0].(*pilosa.Row).Attrs
					want := rowM[rid]
					if len(got) == 0 && len(want) == 0 {
						continue
					}
					if !reflect.DeepEqual(got, want) {
						r.FailOrUndecided("cluster:row-attrs-differ:"+strings.SplitN(stage, ":", 2)[0], id, fmt.Sprintf("%s: node %d row %d attrs {%s}, model {%s}", stage, k, rid, c25cRender(got), c25cRender(want)), wit())
						return false
					}
				}
				resp, err := m.API.Query(ctx, &pilosa.QueryRequest{Index: index, Query: "Row(f=7)", ColumnAttrs: true})
				r.Eval(1)
				if err != nil {
					r.FailOrUndecided("cluster:read-error", id, fmt.Sprintf("%s: node %d column attrs: %v", stage, k, err), wit())
					return false
				}
				gotC := map[uint64]map[string]interface{}{}
				for _, s := range resp.ColumnAttrSets {
					if len(s.Attrs) > 0 {
						gotC[s.ID] = s.Attrs
					}
				}
				for _, cid := range ids {
					if len(gotC[cid]) == 0 && len(colM[cid]) == 0 {
						continue
					}
					if !reflect.DeepEqual(gotC[cid], colM[cid]) {
						r.FailOrUndecided("cluster:column-attrs-differ:"+strings.SplitN(stage, ":", 2)[0], id, fmt.Sprintf("%s: node %d column %d attrs {%s}, model {%s}", stage, k, cid, c25cRender(gotC[cid]), c25cRender(colM[cid])), wit())
						return false
					}
				}
			}
			return true
		}
		// ---- writes through the public API on random nodes
		for step := 0; step < 4+rng.Intn(10); step++ {
			via := rng.Intn(3)
			target := ids[rng.Intn(len(ids))]
			var parts []string
			isRow := rng.Bool()
			used := map[string]bool{}
			for j := 0; j < 1+rng.Intn(3); j++ {
				k := keys[rng.Intn(len(keys))]
				if used[k] {
					continue // the parser (rightly) refuses a call that names an argument twice
				}
				used[k] = true
				lit, v, class := c25cVal(rng)
				parts = append(parts, fmt.Sprintf("%s=%s", k, lit))
				if isRow {
					apply(rowM, target, k, v)
				} else {
					apply(colM, target, k, v)
				}
				r.Cover("cluster:value:" + class)
			}
			pq := fmt.Sprintf("SetColumnAttrs(%d, %s)", target, strings.Join(parts, ", "))
			if isRow {
				pq = fmt.Sprintf("SetRowAttrs(f, %d, %s)", target, strings.Join(parts, ", "))
				r.Cover("cluster:row-attrs")
			} else {
				r.Cover("cluster:column-attrs")
			}
			ops = append(ops, fmt.Sprintf("node %d: %s", via, pq))
			r.InFlightDetail(id, wit())
			if _, err := c[via].API.Query(ctx, &pilosa.QueryRequest{Index: index, Query: pq}); err != nil {
				r.FailOrUndecided("cluster:write-error", id, pq+": "+err.Error(), wit())
				return
			}
			if rng.Chance(1, 2) {
				if !verify(fmt.Sprintf("write: after step %d", step)) {
					return
				}
				r.Cover("cluster:read-via-non-executing-node")
			}
		}
		if !verify("write: final") {
			return
		}
		// ---- divergence behind the cluster's back, then anti-entropy on every node
		for k, m := range c {
			fld := m.Server.Holder().Field(index, "f")
			idx := m.Server.Holder().Index(index)
			if fld == nil || idx == nil {
				r.FailOrUndecided("cluster:schema-missing", id, fmt.Sprintf("node %d lacks the index or field", k), wit())
				return
			}
			own := uint64(300 + 100*k + rng.Intn(3)) // a distinct id (and block) per node
			attrs := map[string]interface{}{"n": int64(k), "who": fmt.Sprintf("node%d", k), "fl": float64(7 + k), "big": int64(9007199254740993), "half": 0.5}
			ops = append(ops, fmt.Sprintf("node %d store only: row %d and column %d get %v; shared id 100 gets key k%d", k, own, ids[k], attrs, k))
			if err := fld.RowAttrStore().SetAttrs(own, attrs); err != nil {
				t.Fatal(err)
			}
			apply(rowM, own, "n", int64(k))
			apply(rowM, own, "who", fmt.Sprintf("node%d", k))
			apply(rowM, own, "fl", float64(7+k))
			apply(rowM, own, "big", int64(9007199254740993))
			apply(rowM, own, "half", 0.5)
			r.Cover("cluster:sync:distinct-ids")
			sk := fmt.Sprintf("k%d", k)
			if err := fld.RowAttrStore().SetAttrs(100, map[string]interface{}{sk: true}); err != nil {
				t.Fatal(err)
			}
			apply(rowM, 100, sk, true)
			if err := idx.ColumnAttrStore().SetAttrs(ids[k], map[string]interface{}{sk: int64(10 + k)}); err != nil {
				t.Fatal(err)
			}
			apply(colM, ids[k], sk, int64(10+k))
			r.Cover("cluster:sync:distinct-keys-same-id")
		}
		ids2 := append([]uint64{}, ids...)
		for rid := range rowM {
			if rid >= 300 {
				ids2 = append(ids2, rid)
			}
		}
		saved := ids
		ids = ids2
		defer func() { ids = saved }()
		for round := 0; round < 2; round++ {
			for _, k := range rng.Perm(3) {
				ops = append(ops, fmt.Sprintf("SyncData on node %d", k))
				stale, err := vrcSyncData(c, k, index)
				if stale {
					r.Cover("cluster:observed:stale-index-resurrected-by-gossip")
				}
				if err != nil {
					r.FailOrUndecided("cluster:sync-error", id, fmt.Sprintf("SyncData on node %d: %v", k, err), wit())
					return
				}
			}
		}
		// ids >= 300 are not columns of row 7; check rows only for them, columns for the base ids
		ids = saved
		if !verify("sync: after two rounds of passes on every node") {
			return
		}
		for k, m := range c {
			for rid, want := range rowM {
				if rid < 300 {
					continue
				}
				got, err := m.Server.Holder().Field(index, "f").RowAttrStore().Attrs(rid)
				r.Eval(1)
				if err != nil || !reflect.DeepEqual(got, want) {
					r.FailOrUndecided("cluster:row-attrs-differ:sync", id, fmt.Sprintf("after the passes node %d row %d attrs {%s} (%v), want {%s}", k, rid, c25cRender(got), err, c25cRender(want)), wit())
					return
				}
			}
		}
		r.Cover("cluster:sync:converged")
		r.Distinct(vk.Hash64("c25c", id), true)
		if r.WantSample() {
			r.Sample(wit())
		}
	})
}
