package pilosa_test

// Real multi-node clusters (HTTP + gossip + protobuf between nodes) for the
// C11/C17/C20 cluster legs.

import (
	"context"
	"strings"
	"os"
	"regexp"
	"strconv"
	"testing"
	"time"

	"github.com/pilosa/pilosa"
	"github.com/pilosa/pilosa/test"
)

// vrcStart runs a real n-node gossip cluster with the given replica count and
// anti-entropy timers off (passes are started by the harness). It waits, by
// polling state (watchdog only, never a verdict), until every node is NORMAL.
func vrcStart(t *testing.T, n, replicas int) test.Cluster {
	c := test.MustNewCluster(t, n)
	for _, m := range c {
		m.Config.Cluster.ReplicaN = replicas
		m.Config.AntiEntropy.Interval = 0
		m.Config.Metric.Diagnostics = false
		m.Config.Translation.MapSize = 1 << 28 // the test helper's 140000 bytes overflow after a few thousand keys (the log is not bounds-checked against its map)
	}
	if err := c.Start(); err != nil {
		t.Fatalf("starting %d-node cluster: %v", n, err)
	}
	deadline := time.Now().Add(60 * time.Second)
	for {
		ok := true
		for _, m := range c {
			if m.API.State() != pilosa.ClusterStateNormal || len(m.API.Hosts(nil)) != n {
				ok = false
			}
		}
		if ok {
			return c
		}
		if time.Now().After(deadline) {
			t.Fatalf("cluster of %d did not reach NORMAL (watchdog)", n)
		}
		time.Sleep(5 * time.Millisecond)
	}
}

// vrcNodes is the cluster size requested through VERIF_ESRV_NODES (default 1).
func vrcNodes() int {
	if n, err := strconv.Atoi(os.Getenv("VERIF_ESRV_NODES")); err == nil && n > 1 {
		return n
	}
	return 1
}

var vrcSyncIndexRe = regexp.MustCompile(`index=([A-Za-z0-9_-]+)`)

// vrcSyncData runs one anti-entropy pass on node k for the case that works on
// `index`. A pass that fails on ANOTHER index is not the case's business: an
// index deleted by an earlier case is occasionally brought back on one node by
// a gossip state exchange that was prepared before the deletion, and every
// later pass of that node then fails on it ("index not found" on the peers).
// Such a stale index is removed and the pass repeated once; stale reports
// whether that happened.
func vrcSyncData(c test.Cluster, k int, index string) (stale bool, err error) {
	err = c[k].Server.SyncData()
	for attempt := 0; err != nil && attempt < 3; attempt++ {
		m := vrcSyncIndexRe.FindStringSubmatch(err.Error())
		if m == nil || m[1] == index {
			return stale, err
		}
		stale = true
		for _, nd := range c {
			_ = nd.API.DeleteIndex(context.Background(), m[1])
		}
		err = c[k].Server.SyncData()
	}
	return stale, err
}

// vrcCreateField is API.CreateField with a retry for one environmental error:
// a peer opens the new field's boltdb attribute store with a 1 s lock timeout,
// and on an overloaded machine answers "opening storage: timeout". That is not
// what any of these legs is about; the field is dropped and created again.
func vrcCreateField(api *pilosa.API, index, name string, opts ...pilosa.FieldOption) (*pilosa.Field, error) {
	var f *pilosa.Field
	var err error
	for attempt := 0; attempt < 5; attempt++ {
		f, err = api.CreateField(context.Background(), index, name, opts...)
		if err == nil || !strings.Contains(err.Error(), "opening storage: timeout") {
			return f, err
		}
		_ = api.DeleteField(context.Background(), index, name)
		time.Sleep(300 * time.Millisecond)
	}
	return f, err
}
