package pilosa_test

// Real multi-node clusters (HTTP + gossip + protobuf between nodes) for the
// C11/C17/C20 cluster legs.

import (
	"os"
	"strconv"
	"testing"
	"time"

	"github.com/pilosa/pilosa"
	"github.com/pilosa/pilosa/test"
)

// vrcStart runs a real n-node gossip cluster with the given replica count and
// anti-entropy timers off (passes are started by the harness). It waits, by
// polling state (watchdog only, never a verdict), until every node is NORMAL.
func vrcStart(t *testing.T, n, replicas int) test.Cluster {
	c := test.MustNewCluster(t, n)
	for _, m := range c {
		m.Config.Cluster.ReplicaN = replicas
		m.Config.AntiEntropy.Interval = 0
		m.Config.Metric.Diagnostics = false
	}
	if err := c.Start(); err != nil {
		t.Fatalf("starting %d-node cluster: %v", n, err)
	}
	deadline := time.Now().Add(60 * time.Second)
	for {
		ok := true
		for _, m := range c {
			if m.API.State() != pilosa.ClusterStateNormal || len(m.API.Hosts(nil)) != n {
				ok = false
			}
		}
		if ok {
			return c
		}
		if time.Now().After(deadline) {
			t.Fatalf("cluster of %d did not reach NORMAL (watchdog)", n)
		}
		time.Sleep(5 * time.Millisecond)
	}
}

// vrcNodes is the cluster size requested through VERIF_ESRV_NODES (default 1).
func vrcNodes() int {
	if n, err := strconv.Atoi(os.Getenv("VERIF_ESRV_NODES")); err == nil && n > 1 {
		return n
	}
	return 1
}
