package pilosa

// C10 (concurrent leg) — "at any moment the checksum a shard reports equals
// the checksum of the bits currently stored": writers and Blocks() callers run
// at the same time on one fragment; at quiescence (all goroutines joined) the
// reported checksums must equal the checksums recomputed from scratch
// (InvalidateChecksums + Blocks), block by block.

import (
	"bytes"
	"fmt"
	"os"
	"path/filepath"
	"runtime"
	"sync"
	"testing"

	vk "github.com/pilosa/pilosa/internal/verifkit"
)

func TestVerifC10Conc(t *testing.T) {
	r := vk.Start(t, "C10")
	defer r.Finish()
	r.Expect("conc:blocks-during-writes")
	dir := filepath.Join(os.Getenv("VERIF_SCRATCH"), "c10conc")
	os.MkdirAll(dir, 0o755)
	n := r.N(120, 4800)
	r.Cases("conc", n, func(i int, id string, rng *vk.Rand) {
		old := runtime.GOMAXPROCS([]int{2, 4, 8, 16}[i%4])
		defer runtime.GOMAXPROCS(old)
		path := filepath.Join(dir, fmt.Sprintf("f-%d", i))
		defer os.Remove(path)
		defer os.Remove(path + ".cache")
		f := newFragment(path, "i", "f", viewStandard, 0, 0)
		f.MaxOpN = []int{5, 50, 100000}[rng.Intn(3)]
		f.CacheType = []string{CacheTypeRanked, CacheTypeNone}[rng.Intn(2)]
		if err := f.Open(); err != nil {
			t.Fatalf("open: %v", err)
		}
		defer f.Close()
		rows := []uint64{0, 1, 99, 100, 101, 250} // blocks 0, 1, 2
		for k := 0; k < 20; k++ {
			f.setBit(rows[rng.Intn(len(rows))], uint64(rng.Intn(2000)))
		}
		nwriters, nreaders, nops := 2+rng.Intn(3), 1+rng.Intn(3), 40+rng.Intn(120)
		var wg sync.WaitGroup
		start := make(chan struct{})
		for w := 0; w < nwriters; w++ {
			wrng := rng.Fork()
			wg.Add(1)
			go func(rng *vk.Rand) {
				defer wg.Done()
				<-start
				for k := 0; k < nops; k++ {
					row, col := rows[rng.Intn(len(rows))], uint64(rng.Intn(2000))
					if rng.Chance(2, 3) {
						f.setBit(row, col)
					} else {
						f.clearBit(row, col)
					}
					if rng.Chance(1, 8) {
						runtime.Gosched()
					}
				}
			}(wrng)
		}
		for rd := 0; rd < nreaders; rd++ {
			wg.Add(1)
			go func() {
				defer wg.Done()
				<-start
				for k := 0; k < nops/2; k++ {
					_ = f.Blocks()
					runtime.Gosched()
				}
			}()
		}
		close(start)
		wg.Wait()
		r.Cover("conc:blocks-during-writes")
		// quiescent: what Blocks() reports now vs. a from-scratch computation
		reported := f.Blocks()
		f.InvalidateChecksums()
		fresh := f.Blocks()
		r.Eval(len(fresh) + 1)
		r.Distinct(vk.Hash64("c10conc", id), true)
		wit := map[string]interface{}{"writers": nwriters, "readers": nreaders, "ops": nops, "maxOpN": f.MaxOpN, "cache": f.CacheType}
		if len(reported) != len(fresh) {
			r.Fail("conc-stale-checksum", id, fmt.Sprintf("Blocks() lists %d blocks, a fresh computation %d", len(reported), len(fresh)), wit)
			return
		}
		for k := range fresh {
			if reported[k].ID != fresh[k].ID || !bytes.Equal(reported[k].Checksum, fresh[k].Checksum) {
				r.Fail("conc-stale-checksum", id, fmt.Sprintf("after concurrent writes and Blocks() calls, block %d reports checksum %x but its contents hash to %x", fresh[k].ID, reported[k].Checksum, fresh[k].Checksum), wit)
				return
			}
		}
		if r.WantSample() {
			r.Sample(wit)
		}
	})
}
