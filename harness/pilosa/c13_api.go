package pilosa_test

// C13 (API leg) — mutex and bool fields hold at most one value per column,
// the last one written, through the public write paths: Set/Clear queries and
// API.Import batches that repeat a column with conflicting rows (the last
// occurrence in the batch wins), against columns that already hold a value,
// over two shards. Model: column -> row.

import (
	"context"
	"fmt"
	"sort"
	"testing"

	"github.com/pilosa/pilosa"
	vk "github.com/pilosa/pilosa/internal/verifkit"
	"github.com/pilosa/pilosa/test"
)

func TestVerifC13API(t *testing.T) {
	r := vk.Start(t, "C13")
	defer r.Finish()
	r.Expect("api:mutex", "api:bool", "api:set", "api:clear", "api:import", "api:import-repeat-conflict", "api:import-over-existing", "api:import-clear")
	// VERIF_ESRV_NODES=3: the same leg against a real 3-node gossip/HTTP cluster (replicas 2): queries through a
	// drawn node, imports to a drawn owner of the shard (as the client library does)
	nodes := []*test.Command{}
	if vrcNodes() > 1 {
		cl := vrcStart(t, vrcNodes(), 2)
		defer cl.Close()
		nodes = cl
	} else {
		one := test.MustRunCommand()
		defer one.Close()
		nodes = append(nodes, one)
	}
	m := nodes[0]
	ctx := context.Background()
	gen := 0
	n := r.N(400, 16000)
	r.Cases("api", n, func(i int, id string, rng *vk.Rand) {
		gen++
		index := fmt.Sprintf("c13x%d", gen)
		if _, err := m.API.CreateIndex(ctx, index, pilosa.IndexOptions{}); err != nil {
			t.Fatal(err)
		}
		defer m.API.DeleteIndex(ctx, index)
		isBool := rng.Chance(1, 3)
		kind := "mutex"
		nrows := 4
		if isBool {
			kind, nrows = "bool", 2
			if _, err := m.API.CreateField(ctx, index, "x", pilosa.OptFieldTypeBool()); err != nil {
				t.Fatal(err)
			}
		} else if _, err := m.API.CreateField(ctx, index, "x", pilosa.OptFieldTypeMutex([]string{pilosa.CacheTypeRanked, pilosa.CacheTypeLRU, pilosa.CacheTypeNone}[rng.Intn(3)], uint32(1+rng.Intn(5)))); err != nil {
			t.Fatal(err)
		}
		r.Cover("api:" + kind)
		rowLit := func(row uint64) string {
			if isBool {
				return []string{"false", "true"}[row]
			}
			return fmt.Sprint(row)
		}
		cols := []uint64{0, 1, 2, 65535, 65536, pilosa.ShardWidth - 1, pilosa.ShardWidth, pilosa.ShardWidth + 1}
		model := map[uint64]uint64{} // col -> row
		var ops []string
		sigParts := map[string]bool{}
		wit := func() interface{} { return map[string]interface{}{"kind": kind, "ops": ops} }
		verify := func(stage string) bool {
			got := map[uint64][]uint64{} // col -> rows
			for row := 0; row < nrows; row++ {
				pq := fmt.Sprintf("Row(x=%s)", rowLit(uint64(row)))
				resp, err := nodes[rng.Intn(len(nodes))].API.Query(ctx, &pilosa.QueryRequest{Index: index, Query: pq})
				if err != nil {
					r.Fail("read-error:"+kind, id, fmt.Sprintf("%s: %v", pq, err), wit())
					return false
				}
				for _, c := range resp.Results[0].(*pilosa.Row).Columns() {
					got[c] = append(got[c], uint64(row))
				}
			}
			r.Eval(len(cols))
			var keys []string
			for k := range sigParts {
				keys = append(keys, k)
			}
			sort.Strings(keys)
			sig := fmt.Sprintf("api:%s:%v", kind, keys)
			for _, c := range cols {
				want, has := model[c]
				rows := got[c]
				if len(rows) > 1 {
					r.Fail("two-rows:"+sig, id, fmt.Sprintf("%s: column %d holds rows %v", stage, c, rows), wit())
					return false
				}
				if has != (len(rows) == 1) || (has && rows[0] != want) {
					r.Fail("wrong-row:"+sig, id, fmt.Sprintf("%s: column %d holds %v, last write says row %d (present=%v)", stage, c, rows, want, has), wit())
					return false
				}
			}
			return true
		}
		nontrivial := false
		for step := 0; step < 5+rng.Intn(14); step++ {
			switch k := rng.Intn(10); {
			case k < 3:
				c, row := cols[rng.Intn(len(cols))], uint64(rng.Intn(nrows))
				pq := fmt.Sprintf("Set(%d, x=%s)", c, rowLit(row))
				ops = append(ops, pq)
				if _, err := nodes[rng.Intn(len(nodes))].API.Query(ctx, &pilosa.QueryRequest{Index: index, Query: pq}); err != nil {
					r.Fail("write-error:"+kind, id, fmt.Sprintf("%s: %v", pq, err), wit())
					return
				}
				if _, had := model[c]; had {
					nontrivial = true
				}
				model[c] = row
				r.Cover("api:set")
				sigParts["set"] = true
			case k < 4:
				c, row := cols[rng.Intn(len(cols))], uint64(rng.Intn(nrows))
				pq := fmt.Sprintf("Clear(%d, x=%s)", c, rowLit(row))
				ops = append(ops, pq)
				if _, err := nodes[rng.Intn(len(nodes))].API.Query(ctx, &pilosa.QueryRequest{Index: index, Query: pq}); err != nil {
					r.Fail("write-error:"+kind, id, fmt.Sprintf("%s: %v", pq, err), wit())
					return
				}
				if model[c] == row {
					delete(model, c)
				}
				r.Cover("api:clear")
				sigParts["clear"] = true
			default:
				// one Import request per shard; batch may repeat columns with conflicting rows
				sh := uint64(rng.Intn(2))
				var shCols []uint64
				for _, c := range cols {
					if c/pilosa.ShardWidth == sh {
						shCols = append(shCols, c)
					}
				}
				nb := 1 + rng.Intn(8)
				req := &pilosa.ImportRequest{Index: index, Field: "x", Shard: sh}
				clear := rng.Chance(1, 6)
				seen := map[uint64]uint64{}
				repeatConflict, overExisting := false, false
				for j := 0; j < nb; j++ {
					c, row := shCols[rng.Intn(len(shCols))], uint64(rng.Intn(nrows))
					if prev, ok := seen[c]; ok && prev != row {
						repeatConflict = true
					}
					if cur, ok := model[c]; ok && cur != row {
						overExisting = true
					}
					seen[c] = row
					req.RowIDs = append(req.RowIDs, row)
					req.ColumnIDs = append(req.ColumnIDs, c)
				}
				ops = append(ops, fmt.Sprintf("Import(shard %d rows=%v cols=%v clear=%v)", sh, req.RowIDs, req.ColumnIDs, clear))
				rowsCopy, colsCopy := append([]uint64(nil), req.RowIDs...), append([]uint64(nil), req.ColumnIDs...)
				var err error
				// every owner of the shard gets the request, as the client library sends it
				owners, oerr := m.API.ShardNodes(ctx, index, sh)
				if oerr != nil {
					t.Fatal(oerr)
				}
				for _, o := range owners {
					for _, nd := range nodes {
						if nd.API.Node().ID != o.ID || err != nil {
							continue
						}
						rq := &pilosa.ImportRequest{Index: index, Field: "x", Shard: sh, RowIDs: append([]uint64(nil), rowsCopy...), ColumnIDs: append([]uint64(nil), colsCopy...)}
						if clear {
							err = nd.API.Import(ctx, rq, pilosa.OptImportOptionsClear(true))
						} else {
							err = nd.API.Import(ctx, rq)
						}
					}
				}
				if err != nil {
					r.Fail("write-error:"+kind, id, fmt.Sprintf("import: %v", err), wit())
					return
				}
				if clear {
					for j := range rowsCopy {
						if cur, ok := model[colsCopy[j]]; ok && cur == rowsCopy[j] {
							delete(model, colsCopy[j])
						}
					}
					r.Cover("api:import-clear")
					sigParts["import-clear"] = true
				} else {
					for j := range rowsCopy {
						model[colsCopy[j]] = rowsCopy[j] // in order: the last occurrence wins
					}
					r.Cover("api:import")
					sigParts["import"] = true
					if repeatConflict {
						r.Cover("api:import-repeat-conflict")
						sigParts["repeat-conflict"] = true
						nontrivial = true
					}
					if overExisting {
						r.Cover("api:import-over-existing")
						sigParts["over-existing"] = true
						nontrivial = true
					}
				}
			}
			if !verify(fmt.Sprintf("after step %d (%s)", step, ops[len(ops)-1])) {
				return
			}
		}
		r.Distinct(vk.Hash64("c13api", id), nontrivial)
		if r.WantSample() && nontrivial {
			r.Sample(wit())
		}
	})
}
