package pilosa_test

// C17 (degraded leg) — "for any ... cluster size and replica count the result
// is the same whichever node coordinates, however shards are grouped onto
// nodes". A real 3- or 4-node cluster with 2 or 3 replicas is loaded, the read
// battery is answered with all nodes up (reference, checked against the other
// coordinators), then one non-coordinator node is stopped. Every shard still
// has a live replica, the cluster is DEGRADED (requests are admitted), and the
// executor has to regroup the shards onto the surviving owners. Every query
// through every surviving node must answer exactly as before.
// (n-limited TopN is left out: which candidates a shard group nominates is
// unspecified when the grouping changes.)

import (
	"context"
	"fmt"
	"testing"
	"time"

	"github.com/pilosa/pilosa"
	vk "github.com/pilosa/pilosa/internal/verifkit"
)

func TestVerifC17Degraded(t *testing.T) {
	r := vk.Start(t, "C17")
	defer r.Finish()
	r.Expect("degraded:n3r2", "degraded:n4r2", "degraded:n4r3", "degraded:state-degraded", "unreachable:answers-unchanged", "unreachable:n3r2", "unreachable:n4r2", "unreachable:n4r3") // "degraded:answers-unchanged" cannot be expected while the known finding stands
	ctx := context.Background()
	battery := c17Battery()
	n := r.N(32, 1280)
	r.Cases("degraded", n, func(i int, id string, rng *vk.Rand) {
		cfg := [][2]int{{3, 2}, {4, 2}, {4, 3}}[rng.Intn(3)]
		d := c17GenData(rng)
		c := c17RunCluster(t, cfg[0], cfg[1])
		closed := map[int]bool{}
		defer func() {
			for k, m := range c {
				if !closed[k] {
					m.Close()
				}
			}
		}()
		d.load(t, c)
		wit := map[string]interface{}{"data": d, "nodes": cfg[0], "replicas": cfg[1]}
		ask := func(k int, q c17Query) (string, error) {
			resp, err := c[k].API.Query(ctx, &pilosa.QueryRequest{Index: "i", Query: q.pql})
			if err != nil {
				return "", err
			}
			return c17Canon(resp.Results[0]), nil
		}
		ref := map[string]string{}
		for _, q := range battery {
			if q.kind == "TopN-n" || q.kind == "TopN-filter" {
				continue
			}
			for k := range c {
				got, err := ask(k, q)
				r.Eval(1)
				if err != nil {
					r.FailOrUndecided("degraded:all-up:error:"+q.kind, id, fmt.Sprintf("%s via node %d: %v", q.pql, k, err), wit)
					return
				}
				if k == 0 {
					ref[q.kind] = got
				} else if got != ref[q.kind] {
					r.FailOrUndecided("degraded:all-up:coordinator-dependent:"+q.kind, id, fmt.Sprintf("%s: node 0 answers %q, node %d answers %q", q.pql, ref[q.kind], k, got), wit)
					return
				}
			}
		}
		// ---- stop one non-coordinator node
		victim := 1 + rng.Intn(cfg[0]-1)
		wit["stopped_node"] = victim
		if rng.Bool() {
			// ---- variant: the node stays in the ring (gossip alive) but its HTTP listener is gone: the
			// coordinating node's requests to it fail and the executor must fail over to the replicas
			wit["variant"] = "http-listener-closed"
			r.InFlightDetail(id, wit)
			if err := c[victim].Command.Handler.Close(); err != nil {
				r.Note("inconclusive:"+id, "closing the listener failed: "+err.Error())
				return
			}
			for _, q := range battery {
				if q.kind == "TopN-n" || q.kind == "TopN-filter" {
					continue
				}
				for k := range c {
					if k == victim {
						continue
					}
					got, err := ask(k, q)
					r.Eval(1)
					if err != nil {
						r.FailOrUndecided("unreachable:error:"+q.kind, id, fmt.Sprintf("with node %d unreachable over HTTP (still in the ring), %s via node %d: %v", victim, q.pql, k, err), wit)
						return
					}
					if got != ref[q.kind] {
						r.FailOrUndecided("unreachable:answer-changed:"+q.kind, id, fmt.Sprintf("with node %d unreachable over HTTP (still in the ring), %s via node %d answers %q; with all nodes reachable: %q", victim, q.pql, k, got, ref[q.kind]), wit)
						return
					}
				}
			}
			r.Cover("unreachable:answers-unchanged")
			r.Cover(fmt.Sprintf("unreachable:n%dr%d", cfg[0], cfg[1]))
			r.Distinct(vk.Hash64("c17u", id), len(d.Shards) >= 2)
			return
		}
		wit["variant"] = "node-stopped"
		r.InFlightDetail(id, wit)
		if err := c[victim].Close(); err != nil {
			r.Note("inconclusive:"+id, "stopping the node failed: "+err.Error())
			return
		}
		closed[victim] = true
		deadline := time.Now().Add(60 * time.Second)
		for {
			ok := true
			for k, m := range c {
				if !closed[k] && m.API.State() != pilosa.ClusterStateDegraded {
					ok = false
				}
			}
			if ok {
				break
			}
			if time.Now().After(deadline) {
				r.Note("inconclusive:"+id, "the surviving nodes did not report DEGRADED (watchdog)")
				return
			}
			time.Sleep(5 * time.Millisecond)
		}
		r.Cover("degraded:state-degraded")
		r.Cover(fmt.Sprintf("degraded:n%dr%d", cfg[0], cfg[1]))
		for _, q := range battery {
			if q.kind == "TopN-n" || q.kind == "TopN-filter" {
				continue
			}
			for k := range c {
				if closed[k] {
					continue
				}
				got, err := ask(k, q)
				r.Eval(1)
				if err != nil {
					r.FailOrUndecided("degraded:error:"+q.kind, id, fmt.Sprintf("with node %d stopped, %s via node %d: %v", victim, q.pql, k, err), wit)
					return
				}
				if got != ref[q.kind] {
					r.FailOrUndecided("degraded:answer-changed:"+q.kind, id, fmt.Sprintf("with node %d stopped, %s via node %d answers %q; with all nodes up: %q", victim, q.pql, k, got, ref[q.kind]), wit)
					return
				}
			}
		}
		r.Cover("degraded:answers-unchanged")
		r.Distinct(vk.Hash64("c17d", id), len(d.Shards) >= 2)
		if r.WantSample() {
			r.Sample(map[string]interface{}{"nodes": cfg[0], "replicas": cfg[1], "stopped_node": victim, "shards": d.Shards})
		}
	})
}
