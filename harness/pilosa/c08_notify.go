package pilosa_test

// C08 (notification leg) — "the set of shards with data" survives a restart
// when it was learned CONCURRENTLY. Several senders deliver CreateShard
// notifications (what other nodes broadcast when a shard gets its first bit)
// to a running server at the same time through API.ClusterMessage, mixed with
// local first writes to new shards; every call has returned before the server
// is closed and reopened. Afterwards the field's available shards (and what a
// Count over everything therefore visits) must be exactly the acknowledged set.

import (
	"bytes"
	"context"
	"fmt"
	"sync"
	"testing"

	"github.com/pilosa/pilosa"
	"github.com/pilosa/pilosa/encoding/proto"
	vk "github.com/pilosa/pilosa/internal/verifkit"
	"github.com/pilosa/pilosa/test"
)

func TestVerifC08Notify(t *testing.T) {
	r := vk.Start(t, "C08")
	defer r.Finish()
	r.Expect("notify:concurrent-senders", "notify:local-writes-mixed", "notify:restart")
	m := test.MustRunCommand()
	defer func() { m.Close() }()
	ctx := context.Background()
	ser := proto.Serializer{}
	gen := 0
	n := r.N(240, 9600)
	r.Cases("notify", n, func(i int, id string, rng *vk.Rand) {
		gen++
		index := fmt.Sprintf("c08n%d", gen)
		if _, err := m.API.CreateIndex(ctx, index, pilosa.IndexOptions{}); err != nil {
			t.Fatal(err)
		}
		defer func() { m.API.DeleteIndex(ctx, index) }()
		if _, err := m.API.CreateField(ctx, index, "f", pilosa.OptFieldTypeSet(pilosa.CacheTypeNone, 0)); err != nil {
			t.Fatal(err)
		}
		senders := 2 + rng.Intn(7)
		per := 4 + rng.Intn(12)
		want := map[uint64]bool{}
		var plans [][]uint64
		next := uint64(1 + rng.Intn(5))
		for s := 0; s < senders; s++ {
			var p []uint64
			for k := 0; k < per; k++ {
				next += uint64(1 + rng.Intn(3))
				p = append(p, next)
				want[next] = true
			}
			plans = append(plans, p)
		}
		rng.Fork()
		// interleave the senders' shard numbers so that neighbouring shards come from different senders
		for k := 0; k < per; k++ {
			for s := 0; s+1 < senders; s += 2 {
				if rng.Bool() {
					plans[s][k], plans[s+1][k] = plans[s+1][k], plans[s][k]
				}
			}
		}
		local := rng.Chance(1, 2)
		wit := map[string]interface{}{"senders": senders, "per_sender": per, "plans": plans, "local_writes": local}
		r.InFlightDetail(id, wit)
		var wg sync.WaitGroup
		errs := make([]error, senders+1)
		start := make(chan struct{})
		for s := 0; s < senders; s++ {
			wg.Add(1)
			go func(s int) {
				defer wg.Done()
				<-start
				for _, sh := range plans[s] {
					b, err := pilosa.MarshalInternalMessage(&pilosa.CreateShardMessage{Index: index, Field: "f", Shard: sh}, ser)
					if err == nil {
						err = m.API.ClusterMessage(ctx, bytes.NewReader(b))
					}
					if err != nil {
						errs[s] = err
						return
					}
				}
			}(s)
		}
		if local {
			wg.Add(1)
			go func() {
				defer wg.Done()
				<-start
				for k := 0; k < 4; k++ {
					sh := uint64(200 + k)
					if _, err := m.API.Query(ctx, &pilosa.QueryRequest{Index: index, Query: fmt.Sprintf("Set(%d, f=1)", sh*pilosa.ShardWidth+3)}); err != nil {
						errs[senders] = err
						return
					}
				}
			}()
			for k := 0; k < 4; k++ {
				want[uint64(200+k)] = true
			}
			r.Cover("notify:local-writes-mixed")
		}
		close(start)
		wg.Wait()
		for _, err := range errs {
			if err != nil {
				r.Fail("notify:delivery-error", id, err.Error(), wit)
				return
			}
		}
		r.Cover("notify:concurrent-senders")
		check := func(stage string) bool {
			f := m.Server.Holder().Field(index, "f")
			if f == nil {
				r.Fail("notify:field-missing:"+stage, id, "field f not found", wit)
				return false
			}
			got := f.AvailableShards().Slice()
			gs := map[uint64]bool{}
			for _, s := range got {
				gs[s] = true
			}
			r.Eval(len(want))
			for s := range want {
				if !gs[s] {
					r.Fail("notify:shard-forgotten:"+stage, id, fmt.Sprintf("%s: shard %d was announced and acknowledged but is not among the field's %d available shards %s", stage, s, len(got), vk.Brief(got)), wit)
					return false
				}
			}
			for _, s := range got {
				if !want[s] {
					r.Fail("notify:shard-invented:"+stage, id, fmt.Sprintf("%s: shard %d is available but was never announced or written", stage, s), wit)
					return false
				}
			}
			return true
		}
		if !check("before-restart") {
			return
		}
		if err := m.Reopen(); err != nil {
			t.Fatalf("reopen: %v", err)
		}
		r.Cover("notify:restart")
		if !check("after-restart") {
			return
		}
		r.Distinct(vk.Hash64("c08n", id), senders > 2)
		if r.WantSample() {
			r.Sample(map[string]interface{}{"senders": senders, "per_sender": per, "shards": len(want), "local_writes": local})
		}
	})
}
